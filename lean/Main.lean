import Femio.Driver.Proto
import Femio.Driver.C01
import Femio.Driver.C02
import Femio.Driver.C03
import Femio.Driver.C04
import Femio.Driver.C05
import Femio.Driver.C07
import Femio.Driver.C08
import Femio.Driver.C09
import Femio.Driver.C10
import Femio.Driver.C11
import Femio.Driver.C12
import Femio.Driver.C13
import Femio.Driver.C14
import Femio.Driver.C15
import Femio.Driver.C16
import Femio.Driver.C17
import Femio.Driver.C18
import Femio.Driver.C19
import Femio.Driver.C20
import Femio.Driver.C20S
/-! `femio_driver`: line-protocol front end of the executable model (imports core-only modules). -/
open Femio

def handlers : List (List String → Option String) :=
  [ C01.handle, C02.handle, C03.handle, C04.handle, C05.handle, C05K.handle, C07.handle, C08D.handle, C09.handle, C10.handle, C11.handle, C12.handle, C13.handle, C14.handle, C15D.handle, C16.handle, C17D.handle, C18.handle, C19.handle, C20.handle, C20S.handle ]

def handleLine (line : String) : String :=
  let toks := Proto.tokens line
  match toks with
  | ["ping"] => "ok pong"
  | _ =>
    match handlers.findSome? (fun h => h toks) with
    | some r => r
    | none => "err bad-op"

partial def loop (h : IO.FS.Stream) (out : IO.FS.Stream) : IO Unit := do
  let line ← h.getLine
  if line.isEmpty then return ()
  out.putStrLn (handleLine line)
  out.flush
  loop h out

def main : IO Unit := do loop (← IO.getStdin) (← IO.getStdout)
