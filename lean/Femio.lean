-- root of the library: every property module (the audit files are checked separately)
import Femio.Props.C02
import Femio.Props.C04
import Femio.Props.C05
import Femio.Props.C07
import Femio.Props.C08
import Femio.Props.C13
import Femio.Props.C19
import Femio.Props.C06
import Femio.Props.C09
import Femio.Props.C15
import Femio.Props.C17
import Femio.Props.C11
import Femio.Props.C14
