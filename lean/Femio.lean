-- root of the library: every property module (the audit files are checked separately)
import Femio.Props.C07
