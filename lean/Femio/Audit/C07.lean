import Femio.Props.C07
open Femio.C07
#print axioms exec_preserves
#print axioms C07_no_clobber
#print axioms C07_only_new_files
#print axioms C07_spelling_independent
#print axioms C07_final_name_checked
#print axioms C07_counterexample_upstream
#print axioms C07_counterexample_vtp_backup
