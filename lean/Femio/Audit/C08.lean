import Femio.Props.C08
open Femio.C08
#print axioms C08_inv_init
#print axioms C08_inv
#print axioms C08_reachable
#print axioms C08_views_agree
#print axioms C08_filter_with_ids
#print axioms C08_mixed_once_sorted
#print axioms C08_counterexample_loc_write
#print axioms C08_counterexample_overwrite
#print axioms C08_counterexample_update_index
#print axioms C08_update_spec
#print axioms C08_hist_inv
#print axioms C08_hist_reachable
#print axioms C08_keepRef_noop
#print axioms C08_write_through_by_id
#print axioms C08_held_write_by_id
#print axioms C08_collection_filter
#print axioms C08_collection_set_attribute
#print axioms C08_counterexample_iloc_scalar
#print axioms C08_counterexample_slice_alias
#print axioms C08_unsigned_guard_vacuous
#print axioms C08_signed_guard_sound
#print axioms C08_counterexample_unsigned_shortcut
#print axioms C08_layout_C_roundtrip
#print axioms C08_layout_A_symmetric
#print axioms C08_counterexample_layout_A
