import Femio.Props.C08
open Femio.C08
#print axioms C08_inv_init
#print axioms C08_inv
#print axioms C08_reachable
#print axioms C08_views_agree
#print axioms C08_filter_with_ids
#print axioms C08_mixed_once_sorted
#print axioms C08_counterexample_loc_write
#print axioms C08_counterexample_overwrite
#print axioms C08_counterexample_update_index
#print axioms C08_update_spec
