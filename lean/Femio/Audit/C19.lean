import Femio.Props.C19
open Femio.C19
#print axioms access_good
#print axioms C19_objects_dont_share
#print axioms C19_user_data_untouched
#print axioms C19_history_independent_partial
#print axioms C19_history_independent
#print axioms C19_stale_lru_counterexample
#print axioms C19_stale_nested_counterexample
#print axioms C19_eviction_refreshes
#print axioms C19_lru_sizes_positive
#print axioms C19_no_future_values
#print axioms C19_stale_needs_stale_entry
#print axioms C19_fresh_object_stays_fresh
open Femio.C19.Stored
#print axioms C19_failed_query_invisible
#print axioms C19_partial_table_counterexample
#print axioms C19_make_positive_drops_table
#print axioms C19_make_positive_flip_counterexample
#print axioms C19_stored_options_ignored_counterexample
