import Femio.Props.C02
open Femio.C02
#print axioms C02_header_constants
#print axioms C02_parse_render
#print axioms C02_split_point
#print axioms C02_split_point_nodal_only
#print axioms C02_columns
#print axioms C02_rebinding
#print axioms C02_rebinding_ids
#print axioms C02_steps
#print axioms C02_steps_latest
#print axioms C02_step_of_name
#print axioms C02_timeseries_is_stack
#print axioms C02_stack_spec
#print axioms C02_timeseries_by_id
#print axioms C02_latest_is_single
#print axioms C02_singleton_series_counterexample_upstream
#print axioms C02_lex_print_line
#print axioms C02_parse_render_lines
#print axioms C02_parse_render_chars
#print axioms C02_single_chars
#print axioms C02_res_glob_any_stem
#print axioms C02_res_glob_listing
#print axioms C02_res_file_name
