import Femio.Props.C01
open Femio.C01
#print axioms C01_codes_inverse
#print axioms C01_prism_perm_involutive
#print axioms C01_orientation
#print axioms C01_prism_unpermuted_inverted
#print axioms C01_orientation_volume_affine
#print axioms C01_prism_unpermuted_flips
#print axioms C01_float_roundtrip
#print axioms C01_row_roundtrip
#print axioms C01_blocks_roundtrip
#print axioms C01_roundtrip_partial
#print axioms C01_roundtrip_example
#print axioms C01_format_insensitive_blank_comment
#print axioms C01_format_insensitive_split
#print axioms C01_format_insensitive_whitespace_partial
#print axioms C01_format_insensitive_bang_fixed
#print axioms C01_bang_counterexample_upstream
#print axioms C01_split_egroup_counterexample_upstream
#print axioms C01_roundtrip
#print axioms C01_exMesh_wf
#print axioms C01_roundtrip_statement
#print axioms C01_format_insensitive_whitespace
#print axioms C01_format_insensitive_split_whole
#print axioms C01_format_insensitive
#print axioms C01_roundtrip_any_format
