import Femio.Props.C10
open Femio.C10
#print axioms C10_element_closed
#print axioms C10_element_outward
#print axioms C10_boundary_spec
#print axioms C10_fistr_scan_spec
#print axioms C10_closed
#print axioms C10_closed_manifold
#print axioms C10_volume
#print axioms C10_same_face_set
#print axioms C10_fistr_same_keys
#print axioms C10_fistr_numbers
#print axioms C10_obj_roundtrip
#print axioms C10_obj_lex_print
#print axioms C10_obj_roundtrip_chars
#print axioms C10_flux_similarity
#print axioms C10_volume_similarity
#print axioms C10_enclosed_volume_translate
#print axioms C10_obj_blockwise
#print axioms C10_obj_roundtrip_blockwise
#print axioms C10_obj_blockwise_joined_counterexample
