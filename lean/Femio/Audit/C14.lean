import Femio.Props.C14
#print axioms Femio.C14.C14_mean_of_nodes
#print axioms Femio.C14.C14_mean_of_nodes_unknown_id
#print axioms Femio.C14.C14_affine_at_centroid
#print axioms Femio.C14.C14_mean_row_stochastic
#print axioms Femio.C14.C14_constants
#print axioms Femio.C14.C14_bounds
#print axioms Femio.C14.C14_weights_prop_size
#print axioms Femio.C14.C14_effective_colsum
#print axioms Femio.C14.C14_effective_total
#print axioms Femio.C14.C14_incidence_of_mesh
#print axioms Femio.C14.C14_call_returns_arguments
#print axioms Femio.C14.C14_history_fresh
#print axioms Femio.C14.C14_history_value
#print axioms Femio.C14.C14_inplace_counterexample
