import Femio.Props.C06
open Femio.C06
#print axioms C06_index_translation
#print axioms C06_export_succeeds
#print axioms C06_type_table
#print axioms C06_tet2_perms_inverse
#print axioms C06_tet2_edges
#print axioms C06_point_data
#print axioms C06_history_export
#print axioms C06_history_coherent
#print axioms C06_export_after_history
#print axioms C06_exports_invisible
#print axioms C06_ids_setter_counterexample
