import Femio.Props.C06
open Femio.C06
#print axioms C06_index_translation
#print axioms C06_export_succeeds
#print axioms C06_type_table
#print axioms C06_tet2_perms_inverse
#print axioms C06_tet2_edges
#print axioms C06_point_data
