import Femio.Props.C18
import Femio.Props.C18Pyr
import Femio.Props.C18Derived
open Femio.C18
#print axioms C18_pos_correct
#print axioms C18_pyr_table
#print axioms C18_poly_closed
#print axioms C18_poly_own_nodes
#print axioms C18_poly_outward_volume
#print axioms C18_poly_kernels
#print axioms C18_degeneracy
#print axioms C18_degeneracy_untouched
#print axioms C18_positive
#print axioms C18_pyr_counterexample
#print axioms C18_permute_table
#print axioms C18_positive_any_history
#print axioms C18_positive_history_partial
#print axioms C18_stored_metric_counterexample
#print axioms C18_table_current
#print axioms C18_stale_table_counterexample
