import Femio.Props.C20
import Femio.Props.C20Pipeline
import Femio.Props.C20Admit
import Femio.Props.C20Round5
open Femio.C20
#print axioms C20_check_polyhedron_spec
#print axioms C20_checker_sound
#print axioms C20_checker_set_not_multiset
#print axioms C20_merge_closed_additive
#print axioms C20_merge_closed
#print axioms C20_edge_merge
#print axioms C20_edge_merge_flux
#print axioms C20_nodes_exact
#print axioms C20_mean_constants
#print axioms C20_mean_constants_back
#print axioms C20_sum_total
#print axioms C20_sum_total_back
#print axioms C20_sum_broadcast_counterexample
#print axioms C20_rows_cols_nonempty
#print axioms C20_merge_closed_additive_nodup
#print axioms C20_merge_closed_nodup
open Femio.C20
#print axioms C20_shrink_inv
#print axioms C20_merge_step_inv
#print axioms C20_remove_edge_inv
#print axioms C20_remove_vertices_2_inv
#print axioms C20_rv2_cell
#print axioms C20_merge_vertex_inv
#print axioms C20_reindex_inv
#print axioms C20_pipeline_invariant
#print axioms C20_pipeline_output
#print axioms C20_pipeline_conv
#print axioms C20_cellFlux_eq_polyFan6
#print axioms C20_pipeline_flux
#print axioms C20_pipeline_output_flux
#print axioms C20_step_flux
#print axioms C20_admit_iff_cos
#print axioms C20_unsigned_test_counterexample
#print axioms C20_fan_normal_rotate
#print axioms C20_fan_normal_rotate_k
#print axioms C20_upstream_normal_counterexample
#print axioms C20_upstream_admits_knife_edge
#print axioms C20_sum_truncation_counterexample
#print axioms C20_mean_wrap_eq
#print axioms C20_mean_narrow_accumulation_counterexample
#print axioms C20_merge_via_table_eq
#print axioms C20_table_valid_after_merge
#print axioms C20_stale_table_counterexample
