import Femio.Props.C20
open Femio.C20
#print axioms C20_check_polyhedron_spec
#print axioms C20_checker_sound
#print axioms C20_checker_set_not_multiset
#print axioms C20_merge_closed_additive
#print axioms C20_merge_closed
#print axioms C20_edge_merge
#print axioms C20_edge_merge_flux
#print axioms C20_nodes_exact
#print axioms C20_mean_constants
#print axioms C20_mean_constants_back
#print axioms C20_sum_total
#print axioms C20_sum_total_back
#print axioms C20_sum_broadcast_counterexample
#print axioms C20_rows_cols_nonempty
#print axioms C20_merge_closed_additive_nodup
#print axioms C20_merge_closed_nodup
