import Femio.Props.C17
open Femio.C17
#print axioms C17_arr_mat_inverse
#print axioms C17_principal
#print axioms C17_principal_array
#print axioms C17_invert_strain
#print axioms C17_lte_roundtrip
#print axioms C17_align_nnz
#print axioms C17_diag_shortcut
#print axioms C17_diag_shortcut_rows_selfinverse
#print axioms C17_diag_shortcut_rows_counterexample
#print axioms C17_flat_key_order
#print axioms C17_flat_key_wrap_counterexample
#print axioms C17_align_cast_exact
#print axioms C17_align_cast_roundoff_counterexample
