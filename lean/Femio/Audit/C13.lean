import Femio.Props.C13
open Femio.C13
#print axioms C13_incidence
#print axioms C13_incidence_order1
#print axioms C13_isSecond_table
#print axioms C13_adjacency_elem
#print axioms C13_adjacency_node
#print axioms nHopAuxM_refines
#print axioms C13_nhop_reach
#print axioms C13_nhop_mono
#print axioms C13_nhop_selfloop_diag
#print axioms C13_nhop_step
#print axioms C13_nhop_step_selfloops
#print axioms C13_nhop_step_noloop_counterexample
#print axioms C13_nhop_add
#print axioms C13_nhop_double
#print axioms C13_nhop_binary_power_counterexample
#print axioms C13_memo_history
#print axioms C13_memo_history_fresh
#print axioms C13_memo_wrong_key_counterexample
#print axioms C13_laplacian_rowsum
#print axioms C13_laplacian_offdiag
#print axioms C13_laplacian_diag
#print axioms C13_edge_gradient
#print axioms C13_edge_gradient_undirected
#print axioms C13_e2v
#print axioms C13_e2v_selfloop
#print axioms C13_e2v_isolated_vertex_column
