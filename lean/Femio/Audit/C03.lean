import Femio.Props.C03
open Femio.C03
#print axioms C03_boundary_roundtrip
#print axioms C03_spring_roundtrip
#print axioms C03_cload_roundtrip
#print axioms C03_fixtemp_roundtrip
#print axioms C03_cflux_roundtrip
#print axioms C03_group_expansion
#print axioms C03_solution_type
#print axioms C03_solution_type_known
#print axioms C03_boundary_dof_gt3_lost
#print axioms C03_line_roundtrip
#print axioms C03_file_roundtrip
#print axioms C03_roundtrip
#print axioms C03_cflux_both_merged
#print axioms C03_history_fresh_any_cfg
#print axioms C03_history_roundtrip
#print axioms C03_history_property
#print axioms C03_history_fresh
#print axioms C03_history_poke_state
#print axioms C03_history_counterexample_frame_writer
#print axioms C03_ngroup_layout
#print axioms C03_ngroup_layout_independent
#print axioms C03_ngroup_first_id_counterexample
#print axioms C03_ngroup_ragged_counterexample_upstream
