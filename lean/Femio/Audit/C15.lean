import Femio.Props.C15
open Femio.C15 Femio.Gradient
#print axioms C15_const_zero
#print axioms C15_affine_exact
#print axioms C15_convenience
#print axioms det3_eq_det
#print axioms C15_translation_invariant
#print axioms C15_moment_expanded
#print axioms C15_row_weight_scale
#print axioms C15_integer_affine_field
#print axioms C15_det_underflow_counterexample
#print axioms C15_held_results_stable
#print axioms C15_work_array_counterexample
