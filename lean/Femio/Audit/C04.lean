import Femio.Props.C04
open Femio.C04
#print axioms C04_offsets
#print axioms C04_roundtrip
#print axioms C04_roundtrip_printed
#print axioms C04_tet2_first_order
#print axioms C04_nothing_else_changes
#print axioms C04_bound_to_same_ids
#print axioms C04_type_table
#print axioms C04_misaligned_counterexample
