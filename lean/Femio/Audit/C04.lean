import Femio.Props.C04
open Femio.C04
#print axioms C04_offsets
#print axioms C04_roundtrip
#print axioms C04_roundtrip_printed
#print axioms C04_tet2_first_order
#print axioms C04_nothing_else_changes
#print axioms C04_bound_to_same_ids
#print axioms C04_type_table
#print axioms C04_misaligned_counterexample
#print axioms C04_bound_to_same_ids_own_order
#print axioms C04_own_order_counterexample_upstream
#print axioms C04_lex_print_line
#print axioms C04_roundtrip_lines
#print axioms C04_roundtrip_chars
#print axioms C04_roundtrip_chars_printed
#print axioms C04_own_order_chars
#print axioms C04_history_roundtrip
#print axioms C04_write_leaves_object
#print axioms C04_second_write_same_file
#print axioms C04_file_of_public_state_only
#print axioms C04_stale_frame_counterexample
#print axioms C04_align_by_key
#print axioms C04_align_any_sign
#print axioms C04_dense_table_counterexample
