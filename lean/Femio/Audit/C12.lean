import Femio.Props.C12
open Femio.C12
#print axioms C12_structure
#print axioms C12_structure_count
#print axioms C12_tet_sign
#print axioms C12_hex_sign_convex
#print axioms C12_mirror_sign
#print axioms C12_area_sum_zero
#print axioms C12_divergence
#print axioms C12_normal_is_area_vector
#print axioms C12_similarity_area
#print axioms C12_similarity_sign
#print axioms C12_affine_sign
#print axioms C12_hex_sign_meanplane
#print axioms C12_first_node_reference_counterexample
#print axioms C12_planar_reference_point
