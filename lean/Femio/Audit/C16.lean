import Femio.Props.C16
open Femio.C16
#print axioms C16_lb_sound
#print axioms C16_ub_sound
#print axioms C16_root_contains
#print axioms C16_leaf_contains
#print axioms C16_branch_and_bound
#print axioms C16_knn_terminates
#print axioms C16_knn_refines
#print axioms C16_knn_output
#print axioms C16_hausdorff
#print axioms C16_ub_needs_abs_counterexample
#print axioms C16_hausdorff_positive
#print axioms C16_hausdorff_directed_not_symmetric
#print axioms C16_hop_graph
#print axioms C16_hop_nodal_chain
