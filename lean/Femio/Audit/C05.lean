import Femio.Props.C05
import Femio.Props.C05K
open Femio.C05
#print axioms C05_full_save_plan
#print axioms C05_crash_inv_plan
#print axioms C05_history_inv_plan
#print axioms C05_crash_safe_plan
#print axioms mid_good
#print axioms C05_full_save
#print axioms C05_crash_inv
#print axioms C05_save_inv
#print axioms C05_read_inv
#print axioms C05_history_inv
#print axioms C05_crash_safe
#print axioms C05_cache_transparent
#print axioms C05_load_complete_save
#print axioms C05_crash_counterexample_upstream
#print axioms C05_stale_counterexample_upstream
#print axioms C05_crash_inv_unwind
#print axioms C05_read_interrupt_inv
#print axioms C05_history_inv_unwind
#print axioms C05_crash_safe_unwind
#print axioms C05_unwind_extends_plan
#print axioms C05_interrupted_read_transparent
#print axioms C05_unwind_counterexample_marker_in_finally
#print axioms C05_staged_sorted_counterexample
#print axioms C05_staged_marker_last_good
open Femio.C05K
#print axioms split_join
#print axioms C05_keys_attr_roundtrip
#print axioms C05_keys_time_series_flag_roundtrip
#print axioms C05_keys_roundtrip
#print axioms C05_keys_elements_roundtrip
#print axioms C05_keys_elemental_collection_roundtrip
#print axioms C05_keys_counterexample_substring_type
#print axioms C05_keys_counterexample_ids_in_name
#print axioms C05_keys_counterexample_no_flag
#print axioms C05_read_opt_default
#print axioms C05_read_opt_inv
#print axioms C05_read_opt_safe
#print axioms C05_history_inv_opt
#print axioms C05_crash_safe_opt
#print axioms C05_mesh_only_by_existence_counterexample
