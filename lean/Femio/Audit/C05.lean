import Femio.Props.C05
open Femio.C05
#print axioms C05_full_save
#print axioms C05_crash_inv
#print axioms C05_save_inv
#print axioms C05_read_inv
#print axioms C05_history_inv
#print axioms C05_crash_safe
#print axioms C05_cache_transparent
#print axioms C05_load_complete_save
#print axioms C05_crash_counterexample_upstream
#print axioms C05_stale_counterexample_upstream
