import Femio.Props.C20Pipeline
open Femio.C20
#print axioms C20_shrink_inv
#print axioms C20_merge_step_inv
#print axioms C20_remove_edge_inv
#print axioms C20_remove_vertices_2_inv
#print axioms C20_rv2_cell
#print axioms C20_merge_vertex_inv
#print axioms C20_reindex_inv
#print axioms C20_pipeline_invariant
#print axioms C20_pipeline_output
#print axioms C20_pipeline_conv
#print axioms C20_cellFlux_eq_polyFan6
#print axioms C20_pipeline_flux
#print axioms C20_pipeline_output_flux
#print axioms C20_step_flux
