import Femio.Model.FistrMsh
import Femio.Lemmas.FistrTextProps

/-! Lemmas for C01: rows of the `.msh` file, header scan, block splitting. -/
namespace Femio.Fistr
open Numeral Femio.Gen

theorem renderSci_no_comma (p : Nat) (s : Sci) : ',' ∉ renderSci p s := by
  intro hc
  simp only [renderSci, List.mem_append, List.mem_cons] at hc
  rcases hc with ((hc | hc) | hc | hc) | hc | hc | hc
  · cases hn : s.neg <;> simp [hn] at hc
  · exact comma_not_mem_showNat _ hc
  · cases hc
  · exact not_mem_of_digits (fixDigits_isDigit _ _) ',' (by decide) hc
  · cases hc
  · split at hc <;> cases hc
  · exact not_mem_of_digits (expDigits_isDigit _) ',' (by decide) hc

theorem mapM_map_of_forall {α β γ} (g : α → γ) (f : γ → Option β) (k : α → β) (h : ∀ a, f (g a) = some (k a))
    (l : List α) : (l.map g).mapM f = some (l.map k) := by
  induction l with
  | nil => rfl
  | cons a t ih => simp [List.mapM_cons, h a, ih]

/-- a row of integers (`%d,%d,…`) read by `to_values(data_type=int)` -/
theorem parseRowI_natRow (xs : List Nat) (h : xs ≠ []) : parseRowI (renderNatRow xs) = some xs := by
  unfold parseRowI renderNatRow
  rw [split_join ',' _ (by simpa using h) (by
    intro f hf; obtain ⟨n, _, rfl⟩ := List.mem_map.mp hf; exact comma_not_mem_showNat n)]
  simpa using mapM_map_of_forall showNat parseNatTok id parseNatTok_showNat xs

/-- an `!ELEMENT` row read by `to_fem_attribute(data_type=int)` (id through float) -/
theorem parseRowF_elemLine (r : Nat × List Nat) : parseRowF parseNatTok (elemLine r) = some r := by
  unfold parseRowF elemLine renderNatRow
  rw [split_join ',' _ (by simp) (by
    intro f hf; obtain ⟨n, _, rfl⟩ := List.mem_map.mp hf; exact comma_not_mem_showNat n)]
  have := mapM_map_of_forall showNat parseNatTok id parseNatTok_showNat r.2
  simp [parseIdF_showNat, this]

/-- a `!NODE` row -/
theorem parseRowF_nodeLine (r : Nat × List Sci) :
    parseRowF parseDec (nodeLine r) = some (r.1, r.2.map (Sci.toDec 12)) := by
  unfold parseRowF nodeLine
  rw [split_join ',' _ (by simp) (by
    intro f hf
    rcases List.mem_cons.mp hf with rfl | hf
    · exact comma_not_mem_showNat _
    · obtain ⟨s, _, rfl⟩ := List.mem_map.mp hf; exact renderSci_no_comma 12 s)]
  have := mapM_map_of_forall (renderSci 12) parseDec (Sci.toDec 12) (parseDec_renderSci 12) r.2
  simp [parseIdF_showNat, this]

/-- an `!INITIAL CONDITION` row -/
theorem parseRowF_tempLine (r : Nat × Sci) : parseRowF parseDec (tempLine r) = some (r.1, [r.2.toDec 12]) := by
  have h : tempLine r = nodeLine (r.1, [r.2]) := rfl
  rw [h, parseRowF_nodeLine]; rfl

/-- the prism permutation of the writer followed by the one of the reader is the identity -/
theorem permute_prism {α} (l : List α) (h : l.length = 6) :
    (permute prismPermWrite l).bind (permute prismPermRead) = some l := by
  rcases l with _ | ⟨a, _ | ⟨b, _ | ⟨c, _ | ⟨d, _ | ⟨e, _ | ⟨f, _ | ⟨g, t⟩⟩⟩⟩⟩⟩⟩
  all_goals first
    | (simp only [List.length_cons, List.length_nil] at h; omega)
    | simp [permute, prismPermWrite, prismPermRead, List.mapM_cons]

/-! ### header scan -/
def renderBlocks (bs : List (Line × List Line)) : List Line := bs.flatMap fun b => b.1 :: b.2

/-- headers start with `!`, data lines do not -/
def WFBlocks (bs : List (Line × List Line)) : Prop :=
  ∀ b ∈ bs, isHeader b.1 = true ∧ ∀ l ∈ b.2, isHeader l = false

theorem toBlocksAux_data (d rest : List Line) (hd : ∀ l ∈ d, isHeader l = false) :
    toBlocksAux (d ++ rest) = (d ++ (toBlocksAux rest).1, (toBlocksAux rest).2) := by
  induction d with
  | nil => simp
  | cons l t ih =>
    simp [toBlocksAux, hd l (by simp), ih (fun x hx => hd x (List.mem_cons_of_mem _ hx))]

theorem toBlocksAux_render (bs : List (Line × List Line)) (h : WFBlocks bs) :
    toBlocksAux (renderBlocks bs) = ([], bs) := by
  induction bs with
  | nil => rfl
  | cons b t ih =>
    have hb := h b (by simp)
    have ht := ih (fun x hx => h x (List.mem_cons_of_mem _ hx))
    have : renderBlocks (b :: t) = b.1 :: (b.2 ++ renderBlocks t) := by simp [renderBlocks]
    rw [this]
    simp [toBlocksAux, hb.1, toBlocksAux_data b.2 _ hb.2, ht]

theorem toBlocks_of_clean (t : List Line) (h : ∀ l ∈ t, ignoreLine l = false) : toBlocks t = (toBlocksAux t).2 := by
  unfold toBlocks
  rw [List.filter_eq_self.mpr (by intro l hl; simp [h l hl])]

theorem extractData_split (key : List Char) (h : Line) (d1 d2 : List Line) (pre post : List (Line × List Line)) :
    extractData key (pre ++ (h, d1) :: (h, d2) :: post) = extractData key (pre ++ (h, d1 ++ d2) :: post) := by
  simp only [extractData, blocksOf, List.filter_append, List.filter_cons, List.flatMap_append]
  cases hasSub key h <;> simp

theorem renderBlocks_split (h : Line) (d1 d2 : List Line) (pre post : List (Line × List Line)) :
    renderBlocks (pre ++ (h, d1) :: (h, d2) :: post) = renderBlocks pre ++ (h :: d1 ++ h :: d2 ++ renderBlocks post) := by
  simp [renderBlocks]

theorem wf_split (h : Line) (d1 d2 : List Line) (pre post : List (Line × List Line))
    (hwf : WFBlocks (pre ++ (h, d1 ++ d2) :: post)) : WFBlocks (pre ++ (h, d1) :: (h, d2) :: post) := by
  intro b hb
  have hmid := hwf (h, d1 ++ d2) (by simp)
  simp only [List.mem_append, List.mem_cons] at hb
  rcases hb with hb | rfl | rfl | hb
  · exact hwf b (by simp [hb])
  · exact ⟨hmid.1, fun l hl => hmid.2 l (by simp [hl])⟩
  · exact ⟨hmid.1, fun l hl => hmid.2 l (by simp [hl])⟩
  · exact hwf b (by simp [hb])

end Femio.Fistr
