import Mathlib.LinearAlgebra.Matrix.NonsingularInverse
import Mathlib.Data.Matrix.Basic
import Mathlib.Algebra.BigOperators.Group.Finset.Basic
import Mathlib.Tactic.Ring
import Mathlib.Algebra.BigOperators.Field
import Mathlib.Tactic.FieldSimp
import Mathlib.Tactic.Linarith

open Matrix BigOperators

variable {K : Type} [Field K]

/-! ### C17: reconstruction from an orthonormal eigen-system, and `invert_strain` -/

/-- `A V = V Λ`, `V Vᵀ = 1` ⇒ `V Λ Vᵀ = A` (`calculate_symmetric_matrices_from_eigens`) -/
theorem reconstruct (A V : Matrix (Fin 3) (Fin 3) K) (lam : Fin 3 → K)
    (hev : A * V = V * diagonal lam) (horth : V * Vᵀ = 1) :
    V * diagonal lam * Vᵀ = A := by
  rw [← hev, Matrix.mul_assoc, horth, Matrix.mul_one]

/-- matrix function via the eigen-system: `V f(Λ) Vᵀ` -/
def mfun (V : Matrix (Fin 3) (Fin 3) K) (lam : Fin 3 → K) (f : K → K) : Matrix (Fin 3) (Fin 3) K :=
  V * diagonal (fun i => f (lam i)) * Vᵀ

/-- `invert_strain A = V (1/(1+λ) − 1) Vᵀ` equals `(1 + A)⁻¹ − 1`, whatever eigen-system `eigh` returned -/
theorem invert_strain_eq (A V : Matrix (Fin 3) (Fin 3) K) (lam : Fin 3 → K)
    (hev : A * V = V * diagonal lam) (horth : V * Vᵀ = 1) (horth' : Vᵀ * V = 1)
    (hne : ∀ i, 1 + lam i ≠ 0) :
    (1 + A) * (mfun V lam (fun x => 1 / (1 + x) - 1) + 1) = 1 := by
  have hA : A = V * diagonal lam * Vᵀ := (reconstruct A V lam hev horth).symm
  have h1 : (1 : Matrix (Fin 3) (Fin 3) K) + A = V * diagonal (fun i => 1 + lam i) * Vᵀ := by
    have hd : diagonal (fun i => 1 + lam i) = (1 : Matrix (Fin 3) (Fin 3) K) + diagonal lam := by
      ext i j; by_cases h : i = j <;> simp [diagonal, h, Matrix.one_apply]
    rw [hd, Matrix.mul_add, Matrix.add_mul, Matrix.mul_one, horth, ← hA]
  have h2 : mfun V lam (fun x => 1 / (1 + x) - 1) + 1 = V * diagonal (fun i => 1 / (1 + lam i)) * Vᵀ := by
    unfold mfun
    have hd : diagonal (fun i => 1 / (1 + lam i) - 1) = diagonal (fun i => 1 / (1 + lam i)) - (1 : Matrix (Fin 3) (Fin 3) K) := by
      ext i j; by_cases h : i = j <;> simp [diagonal, h, Matrix.one_apply]
    rw [hd, Matrix.mul_sub, Matrix.sub_mul, Matrix.mul_one, horth]; abel
  rw [h1, h2]
  calc V * diagonal (fun i => 1 + lam i) * Vᵀ * (V * diagonal (fun i => 1 / (1 + lam i)) * Vᵀ)
      = V * (diagonal (fun i => 1 + lam i) * (Vᵀ * V) * diagonal (fun i => 1 / (1 + lam i))) * Vᵀ := by
        simp only [Matrix.mul_assoc]
    _ = V * (diagonal (fun i => 1 + lam i) * diagonal (fun i => 1 / (1 + lam i))) * Vᵀ := by
        rw [horth', Matrix.mul_one]
    _ = V * 1 * Vᵀ := by
        congr 2
        rw [diagonal_mul_diagonal]
        ext i j; by_cases h : i = j
        · subst h; simp [hne i]
        · simp [diagonal, h, Matrix.one_apply]
    _ = 1 := by rw [Matrix.mul_one, horth]

/-- scalar law behind "inverting a strain twice": g (g x) = x for g x = 1/(1+x) − 1 -/
theorem g_involutive (x : K) (h : 1 + x ≠ 0) : 1 / (1 + (1 / (1 + x) - 1)) - 1 = x := by
  have : 1 + (1 / (1 + x) - 1) = 1 / (1 + x) := by ring
  rw [this]; field_simp; ring

/-! ### C15: moment-corrected gradient is exact on affine fields -/

/-- `M = Σ_j s_j d_j d_jᵀ`, `b = Σ_j s_j d_j (d_j · a)` ⇒ `b = M a`; with `M` invertible `M⁻¹ b = a` -/
theorem affine_exact {ι : Type} (nb : Finset ι) (s : ι → K) (d : ι → Fin 3 → K) (a : Fin 3 → K)
    (M : Matrix (Fin 3) (Fin 3) K) (hM : M = ∑ j ∈ nb, s j • vecMulVec (d j) (d j)) (hdet : IsUnit M.det) :
    M⁻¹ *ᵥ (∑ j ∈ nb, (s j * (d j ⬝ᵥ a)) • d j) = a := by
  have hb : (∑ j ∈ nb, (s j * (d j ⬝ᵥ a)) • d j) = M *ᵥ a := by
    rw [hM, Matrix.sum_mulVec]
    apply Finset.sum_congr rfl
    intro j _
    rw [Matrix.smul_mulVec, vecMulVec_mulVec]
    ext i
    simp only [Pi.smul_apply, smul_eq_mul, MulOpposite.smul_eq_mul_unop, MulOpposite.unop_op]
    ring
  rw [hb, Matrix.mulVec_mulVec, Matrix.nonsing_inv_mul _ hdet, Matrix.one_mulVec]

/-- rows built as "off-diagonal entries, diagonal = −row sum" annihilate constants -/
theorem const_zero {ι : Type} [DecidableEq ι] (nb : Finset ι) (i : ι) (g : ι → K) (c : K) :
    (∑ j ∈ nb.erase i, g j * c) + (-(∑ j ∈ nb.erase i, g j)) * c = 0 := by
  rw [← Finset.sum_mul]; ring

/-! ### C14: effective mode conserves the grand total; mean mode is a convex combination -/

theorem effective_total {N E : Type} (nodes : Finset N) (elems : Finset E) (I : N → E → K) (x : E → K)
    (hcol : ∀ e ∈ elems, (∑ n ∈ nodes, I n e) ≠ 0) :
    ∑ n ∈ nodes, ∑ e ∈ elems, (I n e / ∑ m ∈ nodes, I m e) * x e = ∑ e ∈ elems, x e := by
  rw [Finset.sum_comm]
  apply Finset.sum_congr rfl
  intro e he
  rw [← Finset.sum_mul, ← Finset.sum_div, div_self (hcol e he), one_mul]

theorem mean_constants {N E : Type} (elems : Finset E) (I : N → E → K) (m : E → K) (n : N) (c : K)
    (hrow : (∑ e ∈ elems, I n e * m e) ≠ 0) :
    ∑ e ∈ elems, (I n e * m e / ∑ e' ∈ elems, I n e' * m e') * c = c := by
  rw [← Finset.sum_mul, ← Finset.sum_div, div_self hrow, one_mul]

#print axioms invert_strain_eq
#print axioms affine_exact
#print axioms effective_total
