import Femio.Model.Knn
import Mathlib.Data.Rat.Defs
import Mathlib.Algebra.Order.Field.Rat
import Mathlib.Tactic.Linarith
import Mathlib.Tactic.Ring
import Mathlib.Tactic.FinCases

open Knn

theorem inBox_iff (b : Box) (p : P3) : inBox b p = true ↔
    (b.c.x - b.w ≤ p.x ∧ p.x ≤ b.c.x + b.w) ∧ (b.c.y - b.w ≤ p.y ∧ p.y ≤ b.c.y + b.w) ∧
    (b.c.z - b.w ≤ p.z ∧ p.z ≤ b.c.z + b.w) := by
  simp only [inBox, Bool.and_eq_true, decide_eq_true_eq]; tauto

/-- the eight children cover the parent (exact arithmetic) -/
theorem children_cover (b : Box) (p : P3) (hw : 0 ≤ b.w) (h : inBox b p = true) :
    ∃ r, r < 8 ∧ inBox (child b r) p = true := by
  rw [inBox_iff] at h
  obtain ⟨⟨hx1, hx2⟩, ⟨hy1, hy2⟩, ⟨hz1, hz2⟩⟩ := h
  -- choose each bit: minus side iff the coordinate is ≤ the centre
  refine ⟨(if p.x ≤ b.c.x then 4 else 0) + (if p.y ≤ b.c.y then 2 else 0) + (if p.z ≤ b.c.z then 1 else 0), ?_, ?_⟩
  · split <;> split <;> split <;> omega
  · rw [inBox_iff]
    by_cases hx : p.x ≤ b.c.x <;> by_cases hy : p.y ≤ b.c.y <;> by_cases hz : p.z ≤ b.c.z <;>
      simp only [child, hx, hy, hz, if_true, if_false] <;> norm_num <;>
      refine ⟨⟨?_, ?_⟩, ⟨?_, ?_⟩, ⟨?_, ?_⟩⟩ <;> linarith

theorem pick_spec (b : Box) (p : P3) (hw : 0 ≤ b.w) (h : inBox b p = true) :
    pick b p < 8 ∧ inBox (child b (pick b p)) p = true := by
  obtain ⟨r, hr, hin⟩ := children_cover b p hw h
  unfold pick
  cases hf : (List.range 8).find? (fun r => inBox (child b r) p) with
  | none =>
    rw [List.find?_eq_none] at hf
    exact absurd hin (by simpa using hf r (List.mem_range.mpr hr))
  | some r' =>
    have := List.find?_some hf
    have hmem := List.mem_of_find?_eq_some hf
    exact ⟨List.mem_range.mp hmem, by simpa using this⟩

theorem child_w_nonneg (b : Box) (r : Nat) (hw : 0 ≤ b.w) : 0 ≤ (child b r).w := by
  simp only [child]; linarith

/-- **C16_leaf_contains**: a point of the root box lies in every box along its assigned path -/
theorem in_prefix_box (b : Box) (p : P3) (hw : 0 ≤ b.w) (h : inBox b p = true) (d : Nat) :
    ∀ pre, pre <+: assign b p d → inBox (boxOf b pre) p = true := by
  induction d generalizing b with
  | zero => intro pre hpre; simp [assign] at hpre; subst hpre; simpa [boxOf] using h
  | succ d ih =>
    intro pre hpre
    cases pre with
    | nil => simpa [boxOf] using h
    | cons r rs =>
      simp only [assign] at hpre
      obtain ⟨hr, hrs⟩ := List.cons_prefix_cons.mp hpre
      subst hr
      simp only [boxOf]
      obtain ⟨_, hin⟩ := pick_spec b p hw h
      exact ih (child b (pick b p)) (child_w_nonneg b _ hw) hin rs hrs

theorem clamp_le (lo hi v : Rat) (h : lo ≤ hi) : lo ≤ Knn.clamp lo hi v ∧ Knn.clamp lo hi v ≤ hi := by
  unfold Knn.clamp; split
  · exact ⟨le_refl _, h⟩
  · split
    · exact ⟨h, le_refl _⟩
    · constructor <;> linarith

theorem sq_clamp_le (lo hi v t : Rat) (h1 : lo ≤ t) (h2 : t ≤ hi) : Knn.sq (v - Knn.clamp lo hi v) ≤ Knn.sq (v - t) := by
  unfold Knn.clamp Knn.sq
  split
  · nlinarith
  · split
    · nlinarith
    · nlinarith [mul_self_nonneg (v - t)]

/-- **C16_lb_sound** for the concrete box bound -/
theorem lb2_le (b : Box) (q p : P3) (h : inBox b p = true) : lb2 b q ≤ dist2 q p := by
  rw [inBox_iff] at h
  obtain ⟨⟨hx1, hx2⟩, ⟨hy1, hy2⟩, ⟨hz1, hz2⟩⟩ := h
  unfold lb2 dist2
  have := sq_clamp_le _ _ q.x p.x hx1 hx2
  have := sq_clamp_le _ _ q.y p.y hy1 hy2
  have := sq_clamp_le _ _ q.z p.z hz1 hz2
  linarith

#print axioms in_prefix_box
#print axioms lb2_le
