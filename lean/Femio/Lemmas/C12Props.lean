import Femio.Model.Geom
import Mathlib.Tactic.Ring
import Mathlib.Tactic.LinearCombination
import Mathlib.Tactic.Linarith

open V3 Geom
variable {R : Type} [Field R] [CharZero R]

/-- outward doubled area vector of the tet face opposite to vertex k, in femio's face table order -/
def S0 (p0 p1 p2 p3 : V3 R) : V3 R := triCross p1 p2 p3   -- face [1,2,3]
def S3 (p0 p1 p2 p3 : V3 R) : V3 R := triCross p0 p2 p1   -- face [0,2,1]
def S2 (p0 p1 p2 p3 : V3 R) : V3 R := triCross p0 p1 p3   -- face [0,1,3]
def S1 (p0 p1 p2 p3 : V3 R) : V3 R := triCross p0 p3 p2   -- face [0,3,2]

/-- **C12_area_sum_zero** (tet): outward area vectors of a cell sum to zero -/
theorem tet_area_sum_zero (p0 p1 p2 p3 : V3 R) :
    add (add (S0 p0 p1 p2 p3) (S1 p0 p1 p2 p3)) (add (S2 p0 p1 p2 p3) (S3 p0 p1 p2 p3)) = ⟨0, 0, 0⟩ := by
  simp only [S0, S1, S2, S3, triCross, V3.cross, V3.sub, V3.add]
  congr 1 <;> ring

/-- **C12_tet_sign**: (face centroid − cell centroid)·(outward doubled area vector) = (1/2)·(6V)·(1/4)·…;
    stated without division: 12·(f − g)·S = 3·tet6 — so the sign the code computes is the sign of the volume -/
theorem tet_sign_face3 (p0 p1 p2 p3 : V3 R) :
    dot (sub (smul 4 (add (add p0 p2) p1)) (smul 3 (add (add p0 p1) (add p2 p3)))) (S3 p0 p1 p2 p3)
      = 3 * tet6 p0 p1 p2 p3 := by
  simp only [S3, triCross, tet6, V3.cross, V3.sub, V3.add, V3.smul, V3.dot, V3.det]
  ring

/-- **C12_divergence** (tet): Σ_f (S_f · c_f) with c_f the face centroid equals 6V·… (doubled vectors, tripled centroids) -/
theorem tet_divergence (p0 p1 p2 p3 : V3 R) :
    dot (S0 p0 p1 p2 p3) (add (add p1 p2) p3) + dot (S1 p0 p1 p2 p3) (add (add p0 p3) p2)
    + dot (S2 p0 p1 p2 p3) (add (add p0 p1) p3) + dot (S3 p0 p1 p2 p3) (add (add p0 p2) p1)
      = 3 * tet6 p0 p1 p2 p3 := by
  simp only [S0, S1, S2, S3, triCross, tet6, V3.cross, V3.sub, V3.add, V3.dot, V3.det]
  ring

/-- planar quad face: centroid-fan area vector dotted with (centroid − a) is a multiple of the planarity determinant -/
theorem quad_planar (a b c d : V3 R) (hpl : det (sub b a) (sub c a) (sub d a) = 0) :
    dot (cross (sub c a) (sub d b)) (sub (add (add a b) (add c d)) (smul 4 a)) = 0 := by
  simp only [V3.cross, V3.sub, V3.add, V3.smul, V3.dot, V3.det] at hpl ⊢
  linear_combination (2 : R) * hpl
