import Femio.Lemmas.C20Rv2

/-! C20 — the flux (6 × volume by femio's polyhedron kernel: per face the fan from its first node) of cells with
    planar faces: independence of the apex, of the rotation of the face, oddness under reversal. -/
namespace Femio.C20
open Faces V3

section
variable {R : Type} [CommRing R]

/-- `Σ_{i ≥ 2} det P₀ P_{i-1} P_i` for the face `f` with node positions `pos` -/
def faceFlux (pos : Nat → V3 R) (f : Face) : R := fanFlux (f.map pos)
/-- `_calculate_element_volumes_polyhedron_core` of one cell: 6·V -/
def cellFlux (pos : Nat → V3 R) (c : Cell) : R := (c.map (faceFlux pos)).sum
def totalFlux (pos : Nat → V3 R) (cells : List Cell) : R := (cells.map (cellFlux pos)).sum

/-- the nodes of the face are coplanar: every four of them span a degenerate tetrahedron -/
def Cop (pos : Nat → V3 R) (f : Face) : Prop :=
  ∀ a ∈ f, ∀ x ∈ f, ∀ y ∈ f, ∀ b ∈ f, det (pos a - pos b) (pos x - pos b) (pos y - pos b) = 0

/-- edge weight `det u P_x P_y`; its sum over the edges of a face is `u · (2 × area vector)` -/
def ωu (pos : Nat → V3 R) (u : V3 R) : Nat × Nat → R := fun e => det u (pos e.1) (pos e.2)

theorem cop_of_sub {pos : Nat → V3 R} {f g : Face} (h : Cop pos f) (hs : ∀ v ∈ g, v ∈ f) : Cop pos g :=
  fun a ha x hx y hy b hb => h a (hs a ha) x (hs x hx) y (hs y hy) b (hs b hb)

theorem cop_rot {pos : Nat → V3 R} {f g : Face} (h : Cop pos f) (hr : f ~r g) : Cop pos g :=
  cop_of_sub h fun _ hv => hr.perm.mem_iff.mpr hv

theorem dot_pathCross_map (pos : Nat → V3 R) (u : V3 R) (l : List Nat) :
    dot u (pathCross (l.map pos)) = esum (ωu pos u) (pathEdges l) := by
  induction l with
  | nil => simp [pathCross, pathEdges, dot_zero, esum_nil]
  | cons a l ih =>
    cases l with
    | nil => simp [pathCross, pathEdges, dot_zero, esum_nil]
    | cons b l =>
      simp only [List.map_cons] at ih ⊢
      rw [pathCross, dot_add, ih, pathEdges, esum_cons, ← det_eq_dot_cross]
      rfl

/-- the flux of a face is the edge sum of `det P₀ · ·` -/
theorem faceFlux_eq_esum (pos : Nat → V3 R) (a : Nat) (t : List Nat) :
    faceFlux pos (a :: t) = esum (ωu pos (pos a)) (dirEdges (a :: t)) := by
  unfold faceFlux
  rw [List.map_cons, fanFlux_eq_dot, cycArea2_cons, dirEdges_eq_pathEdges, ← dot_pathCross_map]
  simp

theorem esum_eq_zero {ω : Nat × Nat → R} {es : List (Nat × Nat)} (h : ∀ e ∈ es, ω e = 0) : esum ω es = 0 := by
  induction es with
  | nil => rfl
  | cons e es ih =>
    rw [esum_cons, h e List.mem_cons_self, ih fun e' he' => h e' (List.mem_cons_of_mem _ he'), add_zero]

theorem esum_eq_add {ω1 ω2 ω3 : Nat × Nat → R} {es : List (Nat × Nat)} (h : ∀ e ∈ es, ω1 e = ω2 e + ω3 e) :
    esum ω1 es = esum ω2 es + esum ω3 es := by
  induction es with
  | nil => simp [esum_nil]
  | cons e es ih =>
    rw [esum_cons, esum_cons, esum_cons, h e List.mem_cons_self,
      ih fun e' he' => h e' (List.mem_cons_of_mem _ he')]
    ring

theorem esum_map_swap {ω : Nat × Nat → R} (hanti : ∀ x y, ω (y, x) = - ω (x, y)) (es : List (Nat × Nat)) :
    esum ω (es.map Prod.swap) = - esum ω es := by
  induction es with
  | nil => simp [esum_nil]
  | cons e es ih =>
    obtain ⟨x, y⟩ := e
    rw [List.map_cons, esum_cons, esum_cons, ih, Prod.swap_prod_mk, hanti]
    ring

/-- a potential difference telescopes along a path … -/
theorem esum_tele_path (F : Nat → R) (a : Nat) (t : List Nat) (z : Nat) :
    esum (fun e => F e.2 - F e.1) (pathEdges (a :: t ++ [z])) = F z - F a := by
  induction t generalizing a with
  | nil => simp [pathEdges, esum_cons, esum_nil]
  | cons b t ih =>
    have := ih b
    simp only [List.cons_append] at this ⊢
    rw [pathEdges, esum_cons, this]
    ring

/-- … and vanishes around a face -/
theorem esum_tele (F : Nat → R) (f : Face) : esum (fun e => F e.2 - F e.1) (dirEdges f) = 0 := by
  cases f with
  | nil => rfl
  | cons a t => rw [dirEdges_eq_pathEdges, esum_tele_path, sub_self]

theorem det_apex (A B X Y : V3 R) :
    det A X Y = det B X Y + (det (A - B) (X - B) (Y - B) + (det (A - B) B Y - det (A - B) B X)) := by
  show det A X Y = det B X Y + (det (V3.sub A B) (V3.sub X B) (V3.sub Y B)
    + (det (V3.sub A B) B Y - det (V3.sub A B) B X))
  simp only [det, V3.sub]; ring

/-- for a planar face the edge sum does not depend on which of its nodes is the apex -/
theorem esum_apex {pos : Nat → V3 R} {f : Face} (h : Cop pos f) {a b : Nat} (ha : a ∈ f) (hb : b ∈ f) :
    esum (ωu pos (pos a)) (dirEdges f) = esum (ωu pos (pos b)) (dirEdges f) := by
  have h1 : ∀ e ∈ dirEdges f, ωu pos (pos a) e = ωu pos (pos b) e
      + (fun e : Nat × Nat => det (pos a - pos b) (pos b) (pos e.2) - det (pos a - pos b) (pos b) (pos e.1)) e := by
    intro e he
    obtain ⟨hx, hy⟩ := mem_of_mem_dirEdges he
    have := det_apex (pos a) (pos b) (pos e.1) (pos e.2)
    rw [h a ha e.1 hx e.2 hy b hb, zero_add] at this
    exact this
  rw [esum_eq_add h1, esum_tele (fun z => det (pos a - pos b) (pos b) (pos z)), add_zero]

/-- the flux of a planar face is the edge sum with any of its nodes as apex -/
theorem faceFlux_eq_esum_of_mem {pos : Nat → V3 R} {f : Face} (h : Cop pos f) {a : Nat} (ha : a ∈ f) :
    faceFlux pos f = esum (ωu pos (pos a)) (dirEdges f) := by
  cases f with
  | nil => simp at ha
  | cons b t => rw [faceFlux_eq_esum]; exact esum_apex h List.mem_cons_self ha

/-- the flux of a planar face does not depend on the node it is written from -/
theorem faceFlux_rot {pos : Nat → V3 R} {f g : Face} (h : Cop pos f) (hr : f ~r g) :
    faceFlux pos f = faceFlux pos g := by
  cases f with
  | nil => rw [List.isRotated_nil_iff'.mp hr]
  | cons a t =>
    have ha : a ∈ g := hr.perm.mem_iff.mp List.mem_cons_self
    rw [faceFlux_eq_esum, faceFlux_eq_esum_of_mem (cop_rot h hr) ha]
    exact esum_rot _ hr

/-- … and changes sign when the face is traversed backwards -/
theorem faceFlux_reverse {pos : Nat → V3 R} {f : Face} (h : Cop pos f) :
    faceFlux pos f.reverse = - faceFlux pos f := by
  cases hf : f.reverse with
  | nil =>
    have : f = [] := List.reverse_eq_nil_iff.mp hf
    subst this
    simp [faceFlux, fanFlux]
  | cons z t' =>
    have hz : z ∈ f := by
      have : z ∈ f.reverse := by rw [hf]; exact List.mem_cons_self
      exact List.mem_reverse.mp this
    rw [faceFlux_eq_esum, ← hf, esum_perm _ (dirEdges_reverse_perm f),
      esum_map_swap (fun x y => by simp only [ωu, det]; ring), faceFlux_eq_esum_of_mem h hz]

/-- the sum of an antisymmetric edge weight over a balanced edge list vanishes -/
theorem esum_bal_zero (ω : Nat × Nat → R) (hanti : ∀ x y, ω (y, x) = - ω (x, y)) (hdiag : ∀ x, ω (x, x) = 0)
    {es : List (Nat × Nat)} (h : Bal es) : esum ω es = 0 := by
  induction hn : es.length using Nat.strong_induction_on generalizing es with
  | _ n ih =>
    cases es with
    | nil => rfl
    | cons e tl =>
      obtain ⟨x, y⟩ := e
      by_cases hxy : x = y
      · subst hxy
        rw [esum_cons, hdiag, zero_add]
        refine ih tl.length (by simp [← hn]) ?_ rfl
        intro e'
        obtain ⟨p, q⟩ := e'
        have := h (p, q)
        show tl.count (p, q) = tl.count (q, p)
        simp only [List.count_cons, beq_iff_eq, Prod.mk.injEq] at this
        by_cases hpq : x = p ∧ x = q
        · rw [if_pos hpq, if_pos ⟨hpq.2, hpq.1⟩] at this
          omega
        · rw [if_neg hpq, if_neg (fun h' => hpq ⟨h'.2, h'.1⟩)] at this
          omega
      · have hmem : (y, x) ∈ tl := by
          have := h (x, y)
          simp only [List.count_cons, beq_iff_eq, Prod.mk.injEq] at this
          rw [if_pos trivial, if_neg (fun h' => hxy h'.1)] at this
          exact List.count_pos_iff.mp (by omega)
        have hp := List.perm_cons_erase hmem
        have hbal : Bal (tl.erase (y, x)) := by
          intro e'
          obtain ⟨p, q⟩ := e'
          have h0 := h (p, q)
          have c1 := (List.Perm.cons (x, y) hp).count_eq (p, q)
          have c2 := (List.Perm.cons (x, y) hp).count_eq (q, p)
          rw [c1, c2] at h0
          show (tl.erase (y, x)).count (p, q) = (tl.erase (y, x)).count (q, p)
          simp only [List.count_cons, beq_iff_eq, Prod.mk.injEq] at h0
          by_cases h1 : x = p ∧ y = q
          · have h2 : ¬ (y = p ∧ x = q) := fun h' => hxy (h1.1.trans h'.1.symm)
            have h3 : ¬ (x = q ∧ y = p) := fun h' => h2 ⟨h'.2, h'.1⟩
            have h4 : y = q ∧ x = p := ⟨h1.2, h1.1⟩
            rw [if_pos h1, if_neg h2, if_neg h3, if_pos h4] at h0
            omega
          · have h4 : ¬ (y = q ∧ x = p) := fun h' => h1 ⟨h'.2, h'.1⟩
            by_cases h2 : y = p ∧ x = q
            · have h3 : x = q ∧ y = p := ⟨h2.2, h2.1⟩
              rw [if_neg h1, if_pos h2, if_pos h3, if_neg h4] at h0
              omega
            · have h3 : ¬ (x = q ∧ y = p) := fun h' => h2 ⟨h'.2, h'.1⟩
              rw [if_neg h1, if_neg h2, if_neg h3, if_neg h4] at h0
              omega
        have hlen : (tl.erase (y, x)).length < n := by
          rw [List.length_erase_of_mem hmem, ← hn, List.length_cons]
          omega
        rw [esum_cons, esum_perm ω hp, esum_cons, hanti, ih _ hlen hbal rfl]
        ring

theorem ωu_anti (pos : Nat → V3 R) (u : V3 R) (x y : Nat) : ωu pos u (y, x) = - ωu pos u (x, y) := by
  simp only [ωu, det]; ring

theorem ωu_diag (pos : Nat → V3 R) (u : V3 R) (x : Nat) : ωu pos u (x, x) = 0 := by
  simp only [ωu, det]; ring

/-- faces with at most two nodes have no flux -/
theorem faceFlux_short (pos : Nat → V3 R) {f : Face} (h : f.length ≤ 2) : faceFlux pos f = 0 := by
  match f, h with
  | [], _ => rfl
  | [_], _ => rfl
  | [_, _], _ => rfl

end

end Femio.C20
