import Femio.Model.Brick
import Femio.Model.Geom
import Femio.Model.Geom2
import Femio.Lemmas.Brick
import Femio.Lemmas.GeomProps
import Mathlib.Data.Finset.Card
import Mathlib.Data.Finset.Prod
import Mathlib.Data.Finset.Image
import Mathlib.Data.Finset.Range
import Mathlib.Algebra.BigOperators.Group.List.Basic
import Mathlib.Algebra.Order.Field.Basic
import Mathlib.Algebra.CharZero.Defs
import Mathlib.Data.Nat.Cast.Basic
import Mathlib.Tactic.Linarith
import Mathlib.Tactic.Ring
import Mathlib.Tactic.FieldSimp
import Mathlib.Tactic.Positivity
import Mathlib.Tactic.Push

/-! C11: properties of the brick generator model (`Femio/Model/Brick.lean`):
    element counts, characterisation of the generated cells, node positions of a cell,
    per-element volume/area (hence positive orientation) and total volume/area. -/

namespace Femio.C11

open V3 Geom

/-! ## 1. bridge list filter ↔ Finset filter, counts -/

theorem filter_range_length (N : Nat) (p : Nat → Bool) :
    ((List.range N).filter p).length = ((Finset.range N).filter (fun i => p i = true)).card := by
  induction N with
  | zero => simp
  | succ n ih =>
    rw [List.range_succ, List.filter_append, List.length_append, ih, Finset.range_add_one,
      Finset.filter_insert]
    by_cases h : p n = true
    · simp [h]
    · simp [h]

theorem brickFilter3_iff (nx ny nz i : Nat) : brickFilter3 nx ny nz i = true ↔ brickCond nx ny nz i := by
  simp [brickFilter3, brickCond, and_assoc]

/-- the 2-D filter as a proposition -/
def brickCond2 (nx ny i : Nat) : Prop := (i + 1) % (nx + 1) ≠ 0 ∧ i < (nx + 1) * ny

instance (nx ny i : Nat) : Decidable (brickCond2 nx ny i) := by unfold brickCond2; infer_instance

theorem brickFilter2_iff (nx ny i : Nat) : brickFilter2 nx ny i = true ↔ brickCond2 nx ny i := by
  simp [brickFilter2, brickCond2]

/-- `(brickIdx3 nx ny nz).length = nx*ny*nz` -/
theorem brickIdx3_length (nx ny nz : Nat) : (brickIdx3 nx ny nz).length = nx * ny * nz := by
  unfold brickIdx3
  rw [filter_range_length, ← brick_count nx ny nz]
  congr 1
  apply Finset.filter_congr
  intro i _
  exact brickFilter3_iff nx ny nz i

/-! ## 2. cell characterisation -/

theorem mem_brickIdx3 (nx ny nz i : Nat) :
    i ∈ brickIdx3 nx ny nz ↔
      ∃ x y z, x < nx ∧ y < ny ∧ z < nz ∧ i = x + (nx + 1) * y + (nx + 1) * (ny + 1) * z := by
  unfold brickIdx3
  rw [List.mem_filter, List.mem_range, brickFilter3_iff]
  constructor
  · rintro ⟨_, hc⟩
    exact cell_of_cond nx ny nz i hc
  · rintro ⟨x, y, z, hx, hy, hz, rfl⟩
    have := cond_of_cell nx ny nz x y z hx hy hz
    exact ⟨this.2, this.1⟩

theorem cond2_of_cell (nx ny x y : Nat) (hx : x < nx) (hy : y < ny) :
    brickCond2 nx ny (x + (nx + 1) * y) ∧ x + (nx + 1) * y < (nx + 1) * (ny + 1) := by
  have hA : (nx + 1) * y + (nx + 1) ≤ (nx + 1) * ny := by
    have : (nx + 1) * (y + 1) ≤ (nx + 1) * ny := Nat.mul_le_mul_left _ hy
    linarith [Nat.mul_succ (nx + 1) y]
  have hxy : (nx + 1) * (ny + 1) = (nx + 1) * ny + (nx + 1) := by ring
  refine ⟨⟨?_, ?_⟩, ?_⟩
  · have : x + (nx + 1) * y + 1 = (x + 1) + (nx + 1) * y := by ring
    rw [this, Nat.add_mul_mod_self_left, Nat.mod_eq_of_lt (by omega)]; omega
  · omega
  · omega

theorem cell_of_cond2 (nx ny i : Nat) (h : brickCond2 nx ny i) :
    ∃ x y, x < nx ∧ y < ny ∧ i = x + (nx + 1) * y := by
  obtain ⟨h1, h2⟩ := h
  refine ⟨i % (nx + 1), i / (nx + 1), ?_, ?_, ?_⟩
  · have hlt : i % (nx + 1) < nx + 1 := Nat.mod_lt _ (by omega)
    by_contra hge
    have hx : i % (nx + 1) = nx := by omega
    have : (i + 1) % (nx + 1) = 0 := by
      have hi : i = (nx + 1) * (i / (nx + 1)) + i % (nx + 1) := (Nat.div_add_mod i (nx + 1)).symm
      have : i + 1 = (nx + 1) * (i / (nx + 1) + 1) := by rw [Nat.mul_add, Nat.mul_one]; omega
      rw [this]; exact Nat.mul_mod_right _ _
    exact h1 this
  · rw [Nat.div_lt_iff_lt_mul (by omega)]; linarith [Nat.mul_comm (nx + 1) ny]
  · have := (Nat.div_add_mod i (nx + 1)).symm
    omega

theorem mem_brickIdx2 (nx ny i : Nat) :
    i ∈ brickIdx2 nx ny ↔ ∃ x y, x < nx ∧ y < ny ∧ i = x + (nx + 1) * y := by
  unfold brickIdx2
  rw [List.mem_filter, List.mem_range, brickFilter2_iff]
  constructor
  · rintro ⟨_, hc⟩
    exact cell_of_cond2 nx ny i hc
  · rintro ⟨x, y, hx, hy, rfl⟩
    have := cond2_of_cell nx ny x y hx hy
    exact ⟨this.2, this.1⟩

theorem enc2_inj (nx : Nat) (p q : Nat × Nat) (hp : p.1 < nx + 1) (hq : q.1 < nx + 1)
    (h : p.1 + (nx + 1) * p.2 = q.1 + (nx + 1) * q.2) : p = q := by
  obtain ⟨x, y⟩ := p
  obtain ⟨x', y'⟩ := q
  simp only at h hp hq
  have hxm : x = x' := by
    have := congrArg (· % (nx + 1)) h
    simp only [Nat.add_mul_mod_self_left] at this
    rwa [Nat.mod_eq_of_lt hp, Nat.mod_eq_of_lt hq] at this
  subst hxm
  have : (nx + 1) * y = (nx + 1) * y' := by omega
  have hy := Nat.eq_of_mul_eq_mul_left (by omega) this
  subst hy; rfl

theorem brick_count2 (nx ny : Nat) :
    ((Finset.range ((nx + 1) * (ny + 1))).filter (brickCond2 nx ny)).card = nx * ny := by
  have himg : (Finset.range ((nx + 1) * (ny + 1))).filter (brickCond2 nx ny)
      = (Finset.range nx ×ˢ Finset.range ny).image (fun p => p.1 + (nx + 1) * p.2) := by
    ext i
    simp only [Finset.mem_filter, Finset.mem_range, Finset.mem_image, Finset.mem_product, Prod.exists]
    constructor
    · rintro ⟨_, hc⟩
      obtain ⟨x, y, hx, hy, hi⟩ := cell_of_cond2 nx ny i hc
      exact ⟨x, y, ⟨hx, hy⟩, hi.symm⟩
    · rintro ⟨x, y, ⟨hx, hy⟩, hi⟩
      have := cond2_of_cell nx ny x y hx hy
      rw [hi] at this
      exact ⟨this.2, this.1⟩
  rw [himg, Finset.card_image_of_injOn]
  · simp [Finset.card_product]
  · intro p hp q hq h
    simp only [Finset.coe_product, Set.mem_prod, Finset.mem_coe, Finset.mem_range] at hp hq
    exact enc2_inj nx p q (by omega) (by omega) h

/-- `(brickIdx2 nx ny).length = nx*ny` -/
theorem brickIdx2_length (nx ny : Nat) : (brickIdx2 nx ny).length = nx * ny := by
  unfold brickIdx2
  rw [filter_range_length, ← brick_count2 nx ny]
  congr 1
  apply Finset.filter_congr
  intro i _
  exact brickFilter2_iff nx ny i

theorem length_flatMap_const {α β : Type} (l : List α) (f : α → List β) (c : Nat)
    (h : ∀ a ∈ l, (f a).length = c) : (l.flatMap f).length = c * l.length := by
  induction l with
  | nil => simp
  | cons a t ih =>
    rw [List.flatMap_cons, List.length_append, h a (by simp), ih (fun b hb => h b (by simp [hb])),
      List.length_cons]
    ring

/-- **C11 count, hex** -/
theorem brick_count_hex (nx ny nz : Nat) (rows : List (List Nat))
    (h : brickRows "hex" nx ny nz = some rows) : rows.length = nx * ny * nz := by
  simp only [brickRows, Option.some.injEq] at h
  subst h
  rw [List.length_map, brickIdx3_length]

/-- **C11 count, tet**: six tets per cell -/
theorem brick_count_tet (nx ny nz : Nat) (rows : List (List Nat))
    (h : brickRows "tet" nx ny nz = some rows) : rows.length = 6 * nx * ny * nz := by
  simp only [brickRows, Option.some.injEq] at h
  subst h
  rw [length_flatMap_const _ _ 6 (fun _ _ => rfl), brickIdx3_length]
  ring

/-- **C11 count, quad** -/
theorem brick_count_quad (nx ny nz : Nat) (rows : List (List Nat))
    (h : brickRows "quad" nx ny nz = some rows) : rows.length = nx * ny := by
  simp only [brickRows, Option.some.injEq] at h
  subst h
  rw [List.length_map, brickIdx2_length]

/-- **C11 count, tri**: two triangles per cell -/
theorem brick_count_tri (nx ny nz : Nat) (rows : List (List Nat))
    (h : brickRows "tri" nx ny nz = some rows) : rows.length = 2 * nx * ny := by
  simp only [brickRows, Option.some.injEq] at h
  subst h
  rw [length_flatMap_const _ _ 2 (fun _ _ => rfl), brickIdx2_length]
  ring

/-! ## 3. node positions of a cell -/

/-- start index of the cell / node index of the grid point `(x, y, z)` -/
def enc3 (nx ny x y z : Nat) : Nat := x + (nx + 1) * y + (nx + 1) * (ny + 1) * z

theorem enc3_mod (nx ny x y z : Nat) (hx : x ≤ nx) : enc3 nx ny x y z % (nx + 1) = x := by
  have : enc3 nx ny x y z = x + (nx + 1) * (y + (ny + 1) * z) := by unfold enc3; ring
  rw [this, Nat.add_mul_mod_self_left, Nat.mod_eq_of_lt (by omega)]

theorem enc3_div (nx ny x y z : Nat) (hx : x ≤ nx) :
    enc3 nx ny x y z / (nx + 1) = y + (ny + 1) * z := by
  have : enc3 nx ny x y z = x + (nx + 1) * (y + (ny + 1) * z) := by unfold enc3; ring
  rw [this, Nat.add_mul_div_left _ _ (by omega), Nat.div_eq_of_lt (by omega), Nat.zero_add]

theorem enc3_div_mod (nx ny x y z : Nat) (hx : x ≤ nx) (hy : y ≤ ny) :
    enc3 nx ny x y z / (nx + 1) % (ny + 1) = y := by
  rw [enc3_div nx ny x y z hx, Nat.add_mul_mod_self_left, Nat.mod_eq_of_lt (by omega)]

theorem enc3_div2 (nx ny x y z : Nat) (hx : x ≤ nx) (hy : y ≤ ny) :
    enc3 nx ny x y z / ((nx + 1) * (ny + 1)) = z := by
  rw [← Nat.div_div_eq_div_mul, enc3_div nx ny x y z hx, Nat.add_mul_div_left _ _ (by omega),
    Nat.div_eq_of_lt (by omega), Nat.zero_add]

/-- **node position**: the node with index `x + n_x·y + n_x·n_y·z` (`x ≤ nx`, `y ≤ ny`) sits at
    `(x·hx, y·hy, z·hz)` -/
theorem gridNode3_enc {R : Type} [NatCast R] [Mul R] (nx ny : Nat) (hx hy hz : R) (x y z : Nat)
    (h1 : x ≤ nx) (h2 : y ≤ ny) :
    gridNode3 nx ny hx hy hz (x + (nx + 1) * y + (nx + 1) * (ny + 1) * z)
      = ⟨(x : R) * hx, (y : R) * hy, (z : R) * hz⟩ := by
  have e1 := enc3_mod nx ny x y z h1
  have e2 := enc3_div_mod nx ny x y z h1 h2
  have e3 := enc3_div2 nx ny x y z h1 h2
  unfold enc3 at e1 e2 e3
  unfold gridNode3
  rw [e1, e2, e3]

theorem gridNode2_enc {R : Type} [NatCast R] [Mul R] (nx : Nat) (hx hy zero : R) (x y : Nat)
    (h1 : x ≤ nx) :
    gridNode2 nx hx hy zero (x + (nx + 1) * y) = ⟨(x : R) * hx, (y : R) * hy, zero⟩ := by
  unfold gridNode2
  rw [Nat.add_mul_mod_self_left, Nat.mod_eq_of_lt (by omega), Nat.add_mul_div_left _ _ (by omega),
    Nat.div_eq_of_lt (by omega), Nat.zero_add]

/-- the eight nodes of the cell with start index `enc(x,y,z)` are the grid points
    `(x|x+1, y|y+1, z|z+1)` in femio's hex order -/
theorem hexRow_enc (nx ny x y z : Nat) :
    hexRow (nx + 1) ((nx + 1) * (ny + 1)) (enc3 nx ny x y z)
      = [enc3 nx ny x y z, enc3 nx ny (x + 1) y z, enc3 nx ny (x + 1) (y + 1) z, enc3 nx ny x (y + 1) z,
         enc3 nx ny x y (z + 1), enc3 nx ny (x + 1) y (z + 1), enc3 nx ny (x + 1) (y + 1) (z + 1),
         enc3 nx ny x (y + 1) (z + 1)] := by
  simp only [hexRow, enc3, List.cons.injEq, and_true]
  refine ⟨trivial, ?_, ?_, ?_, ?_, ?_, ?_, ?_⟩ <;> ring

section Ring
variable {K : Type} [CommRing K]

/-- positions of the eight corner nodes of cell `(x,y,z)`, `x < nx`, `y < ny`, indexed as in `hexRow` -/
theorem cell_nodes (nx ny : Nat) (hx hy hz : K) (x y z : Nat) (h1 : x < nx) (h2 : y < ny) :
    let i := x + (nx + 1) * y + (nx + 1) * (ny + 1) * z
    let P := gridNode3 nx ny hx hy hz
    let a : K := x * hx
    let b : K := y * hy
    let c : K := z * hz
    P i = ⟨a, b, c⟩ ∧ P (i + 1) = ⟨a + hx, b, c⟩ ∧ P (i + 1 + (nx + 1)) = ⟨a + hx, b + hy, c⟩ ∧
    P (i + (nx + 1)) = ⟨a, b + hy, c⟩ ∧ P (i + (nx + 1) * (ny + 1)) = ⟨a, b, c + hz⟩ ∧
    P (i + (nx + 1) * (ny + 1) + 1) = ⟨a + hx, b, c + hz⟩ ∧
    P (i + (nx + 1) * (ny + 1) + 1 + (nx + 1)) = ⟨a + hx, b + hy, c + hz⟩ ∧
    P (i + (nx + 1) * (ny + 1) + (nx + 1)) = ⟨a, b + hy, c + hz⟩ := by
  intro i P a b c
  have key : ∀ dx dy dz : Nat, dx ≤ 1 → dy ≤ 1 →
      P ((x + dx) + (nx + 1) * (y + dy) + (nx + 1) * (ny + 1) * (z + dz))
        = ⟨a + dx * hx, b + dy * hy, c + dz * hz⟩ := by
    intro dx dy dz hdx hdy
    show gridNode3 nx ny hx hy hz _ = _
    rw [gridNode3_enc nx ny hx hy hz (x + dx) (y + dy) (z + dz) (by omega) (by omega)]
    simp only [V3.mk.injEq, a, b, c]
    push_cast
    exact ⟨by ring, by ring, by ring⟩
  refine ⟨?_, ?_, ?_, ?_, ?_, ?_, ?_, ?_⟩
  · have := key 0 0 0 (by omega) (by omega); simpa [i] using this
  · have := key 1 0 0 (by omega) (by omega)
    rw [show x + 1 + (nx + 1) * (y + 0) + (nx + 1) * (ny + 1) * (z + 0) = i + 1 by simp only [i]; ring] at this
    simpa using this
  · have := key 1 1 0 (by omega) (by omega)
    rw [show x + 1 + (nx + 1) * (y + 1) + (nx + 1) * (ny + 1) * (z + 0) = i + 1 + (nx + 1) by
      simp only [i]; ring] at this
    simpa using this
  · have := key 0 1 0 (by omega) (by omega)
    rw [show x + 0 + (nx + 1) * (y + 1) + (nx + 1) * (ny + 1) * (z + 0) = i + (nx + 1) by
      simp only [i]; ring] at this
    simpa using this
  · have := key 0 0 1 (by omega) (by omega)
    rw [show x + 0 + (nx + 1) * (y + 0) + (nx + 1) * (ny + 1) * (z + 1) = i + (nx + 1) * (ny + 1) by
      simp only [i]; ring] at this
    simpa using this
  · have := key 1 0 1 (by omega) (by omega)
    rw [show x + 1 + (nx + 1) * (y + 0) + (nx + 1) * (ny + 1) * (z + 1) = i + (nx + 1) * (ny + 1) + 1 by
      simp only [i]; ring] at this
    simpa using this
  · have := key 1 1 1 (by omega) (by omega)
    rw [show x + 1 + (nx + 1) * (y + 1) + (nx + 1) * (ny + 1) * (z + 1)
        = i + (nx + 1) * (ny + 1) + 1 + (nx + 1) by simp only [i]; ring] at this
    simpa using this
  · have := key 0 1 1 (by omega) (by omega)
    rw [show x + 0 + (nx + 1) * (y + 1) + (nx + 1) * (ny + 1) * (z + 1)
        = i + (nx + 1) * (ny + 1) + (nx + 1) by simp only [i]; ring] at this
    simpa using this

end Ring

/-! ## 4. value per element -/

section Value
variable {K : Type} [CommRing K]

/-! ### axis-aligned box lemmas -/

theorem hexLin6_box (a b c u v w : K) :
    hexLin6 ⟨a, b, c⟩ ⟨a + u, b, c⟩ ⟨a + u, b + v, c⟩ ⟨a, b + v, c⟩
      ⟨a, b, c + w⟩ ⟨a + u, b, c + w⟩ ⟨a + u, b + v, c + w⟩ ⟨a, b + v, c + w⟩ = 6 * (u * v * w) := by
  geom_unfold; ring

theorem hexC24_box (a b c u v w : K) :
    hexC24 ⟨a, b, c⟩ ⟨a + u, b, c⟩ ⟨a + u, b + v, c⟩ ⟨a, b + v, c⟩
      ⟨a, b, c + w⟩ ⟨a + u, b, c + w⟩ ⟨a + u, b + v, c + w⟩ ⟨a, b + v, c + w⟩ = 24 * (u * v * w) := by
  geom_unfold; ring

theorem hexGauss512_box (p a b c u v w : K) :
    hexGauss512 1 p ⟨a, b, c⟩ ⟨a + u, b, c⟩ ⟨a + u, b + v, c⟩ ⟨a, b + v, c⟩
      ⟨a, b, c + w⟩ ⟨a + u, b, c + w⟩ ⟨a + u, b + v, c + w⟩ ⟨a, b + v, c + w⟩ = 512 * (u * v * w) := by
  simp only [hexGauss512, V3.sub, V3.add, V3.smul]
  ring

/-- the six tets of a box cell (python's `i1 … i8` = `q1 … q8`) all have `6·V = u·v·w` -/
theorem tet6_box (a b c u v w : K) :
    let q1 : V3 K := ⟨a, b, c⟩
    let q2 : V3 K := ⟨a + u, b, c⟩
    let q3 : V3 K := ⟨a + u, b + v, c⟩
    let q4 : V3 K := ⟨a, b + v, c⟩
    let q5 : V3 K := ⟨a, b, c + w⟩
    let q6 : V3 K := ⟨a + u, b, c + w⟩
    let q7 : V3 K := ⟨a + u, b + v, c + w⟩
    let q8 : V3 K := ⟨a, b + v, c + w⟩
    tet6 q1 q2 q3 q5 = u * v * w ∧ tet6 q2 q7 q5 q6 = u * v * w ∧ tet6 q2 q3 q5 q7 = u * v * w ∧
    tet6 q1 q3 q4 q8 = u * v * w ∧ tet6 q1 q3 q8 q5 = u * v * w ∧ tet6 q3 q8 q5 q7 = u * v * w := by
  intro q1 q2 q3 q4 q5 q6 q7 q8
  refine ⟨?_, ?_, ?_, ?_, ?_, ?_⟩ <;> (simp only [q1, q2, q3, q4, q5, q6, q7, q8]; geom_unfold; ring)

/-! ### the generated elements -/

/-- **C11 hex value ("linear" mode)**: every generated hex has `6·V = 6·hx·hy·hz` -/
theorem brick_hex_value (nx ny nz : Nat) (hx hy hz : K) (i : Nat) (hi : i ∈ brickIdx3 nx ny nz) :
    let P := gridNode3 nx ny hx hy hz
    let n_x := nx + 1
    let n_xy := (nx + 1) * (ny + 1)
    hexLin6 (P i) (P (i + 1)) (P (i + 1 + n_x)) (P (i + n_x)) (P (i + n_xy)) (P (i + n_xy + 1))
      (P (i + n_xy + 1 + n_x)) (P (i + n_xy + n_x)) = 6 * (hx * hy * hz) := by
  obtain ⟨x, y, z, h1, h2, _, rfl⟩ := (mem_brickIdx3 nx ny nz i).1 hi
  obtain ⟨e1, e2, e3, e4, e5, e6, e7, e8⟩ := cell_nodes nx ny hx hy hz x y z h1 h2
  intro P n_x n_xy
  simp only [P, n_x, n_xy]
  rw [e1, e2, e3, e4, e5, e6, e7, e8]
  exact hexLin6_box _ _ _ _ _ _

/-- **C11 hex value ("centroid" mode)**: `24·V = 24·hx·hy·hz` -/
theorem brick_hexC_value (nx ny nz : Nat) (hx hy hz : K) (i : Nat) (hi : i ∈ brickIdx3 nx ny nz) :
    let P := gridNode3 nx ny hx hy hz
    let n_x := nx + 1
    let n_xy := (nx + 1) * (ny + 1)
    hexC24 (P i) (P (i + 1)) (P (i + 1 + n_x)) (P (i + n_x)) (P (i + n_xy)) (P (i + n_xy + 1))
      (P (i + n_xy + 1 + n_x)) (P (i + n_xy + n_x)) = 24 * (hx * hy * hz) := by
  obtain ⟨x, y, z, h1, h2, _, rfl⟩ := (mem_brickIdx3 nx ny nz i).1 hi
  obtain ⟨e1, e2, e3, e4, e5, e6, e7, e8⟩ := cell_nodes nx ny hx hy hz x y z h1 h2
  intro P n_x n_xy
  simp only [P, n_x, n_xy]
  rw [e1, e2, e3, e4, e5, e6, e7, e8]
  exact hexC24_box _ _ _ _ _ _

/-- **C11 hex value ("gaussian" mode)**, for any abscissa `p`: `512·V = 512·hx·hy·hz` -/
theorem brick_hexG_value (nx ny nz : Nat) (p hx hy hz : K) (i : Nat) (hi : i ∈ brickIdx3 nx ny nz) :
    let P := gridNode3 nx ny hx hy hz
    let n_x := nx + 1
    let n_xy := (nx + 1) * (ny + 1)
    hexGauss512 1 p (P i) (P (i + 1)) (P (i + 1 + n_x)) (P (i + n_x)) (P (i + n_xy)) (P (i + n_xy + 1))
      (P (i + n_xy + 1 + n_x)) (P (i + n_xy + n_x)) = 512 * (hx * hy * hz) := by
  obtain ⟨x, y, z, h1, h2, _, rfl⟩ := (mem_brickIdx3 nx ny nz i).1 hi
  obtain ⟨e1, e2, e3, e4, e5, e6, e7, e8⟩ := cell_nodes nx ny hx hy hz x y z h1 h2
  intro P n_x n_xy
  simp only [P, n_x, n_xy]
  rw [e1, e2, e3, e4, e5, e6, e7, e8]
  exact hexGauss512_box _ _ _ _ _ _ _

/-- apply a 3, 4 or 8 point kernel to the nodes of a row under a node map `P`
    (`0` for a row of any other length) -/
def on3 (f : V3 K → V3 K → V3 K → K) (P : Nat → V3 K) : List Nat → K
  | [a, b, c] => f (P a) (P b) (P c)
  | _ => 0

def on4 (f : V3 K → V3 K → V3 K → V3 K → K) (P : Nat → V3 K) : List Nat → K
  | [a, b, c, d] => f (P a) (P b) (P c) (P d)
  | _ => 0

def on8 (f : V3 K → V3 K → V3 K → V3 K → V3 K → V3 K → V3 K → V3 K → K) (P : Nat → V3 K) :
    List Nat → K
  | [a, b, c, d, e, f', g, h] => f (P a) (P b) (P c) (P d) (P e) (P f') (P g) (P h)
  | _ => 0

/-- **C11 tet value**: each of the six tets of every generated cell has `6·V = hx·hy·hz` -/
theorem brick_tet_value (nx ny nz : Nat) (hx hy hz : K) (i : Nat) (hi : i ∈ brickIdx3 nx ny nz)
    (r : List Nat) (hr : r ∈ tetRows (nx + 1) ((nx + 1) * (ny + 1)) i) (a b c d : Nat)
    (hrow : r = [a, b, c, d]) :
    let P := gridNode3 nx ny hx hy hz
    tet6 (P a) (P b) (P c) (P d) = hx * hy * hz := by
  obtain ⟨x, y, z, h1, h2, _, rfl⟩ := (mem_brickIdx3 nx ny nz i).1 hi
  obtain ⟨e1, e2, e3, e4, e5, e6, e7, e8⟩ := cell_nodes nx ny hx hy hz x y z h1 h2
  obtain ⟨t1, t2, t3, t4, t5, t6⟩ := tet6_box ((x : K) * hx) (y * hy) (z * hz) hx hy hz
  intro P
  simp only [P]
  subst hrow
  simp only [tetRows, List.mem_cons, List.cons.injEq, and_true, List.not_mem_nil, or_false] at hr
  -- normalise the index forms of `tetRows` to those of `hexRow`
  have n3 : ∀ j : Nat, j + (nx + 1) + 1 = j + 1 + (nx + 1) := fun j => by omega
  rcases hr with ⟨rfl, rfl, rfl, rfl⟩ | ⟨rfl, rfl, rfl, rfl⟩ | ⟨rfl, rfl, rfl, rfl⟩ |
      ⟨rfl, rfl, rfl, rfl⟩ | ⟨rfl, rfl, rfl, rfl⟩ | ⟨rfl, rfl, rfl, rfl⟩ <;>
    simp only [n3] <;> rw [e1, e2, e3, e4, e5, e6, e7, e8] at * <;> assumption

/-- row form of `brick_tet_value` -/
theorem brick_tet_value_row (nx ny nz : Nat) (hx hy hz : K) (i : Nat) (hi : i ∈ brickIdx3 nx ny nz)
    (r : List Nat) (hr : r ∈ tetRows (nx + 1) ((nx + 1) * (ny + 1)) i) :
    on4 tet6 (gridNode3 nx ny hx hy hz) r = hx * hy * hz := by
  have hr' := hr
  simp only [tetRows, List.mem_cons, List.not_mem_nil, or_false] at hr'
  rcases hr' with rfl | rfl | rfl | rfl | rfl | rfl <;>
    exact brick_tet_value nx ny nz hx hy hz i hi _ hr _ _ _ _ rfl

/-- row forms of the hex value theorems -/
theorem brick_hex_value_row (nx ny nz : Nat) (hx hy hz : K) (i : Nat) (hi : i ∈ brickIdx3 nx ny nz) :
    on8 hexLin6 (gridNode3 nx ny hx hy hz) (hexRow (nx + 1) ((nx + 1) * (ny + 1)) i)
      = 6 * (hx * hy * hz) :=
  brick_hex_value nx ny nz hx hy hz i hi

theorem brick_hexC_value_row (nx ny nz : Nat) (hx hy hz : K) (i : Nat) (hi : i ∈ brickIdx3 nx ny nz) :
    on8 hexC24 (gridNode3 nx ny hx hy hz) (hexRow (nx + 1) ((nx + 1) * (ny + 1)) i)
      = 24 * (hx * hy * hz) :=
  brick_hexC_value nx ny nz hx hy hz i hi

theorem brick_hexG_value_row (nx ny nz : Nat) (p hx hy hz : K) (i : Nat) (hi : i ∈ brickIdx3 nx ny nz) :
    on8 (hexGauss512 1 p) (gridNode3 nx ny hx hy hz) (hexRow (nx + 1) ((nx + 1) * (ny + 1)) i)
      = 512 * (hx * hy * hz) :=
  brick_hexG_value nx ny nz p hx hy hz i hi

/-! ### 2-D -/

theorem cell_nodes2 (nx : Nat) (hx hy zero : K) (x y : Nat) (h1 : x < nx) :
    let i := x + (nx + 1) * y
    let P := gridNode2 nx hx hy zero
    let a : K := x * hx
    let b : K := y * hy
    P i = ⟨a, b, zero⟩ ∧ P (i + 1) = ⟨a + hx, b, zero⟩ ∧ P (i + 1 + (nx + 1)) = ⟨a + hx, b + hy, zero⟩ ∧
    P (i + (nx + 1)) = ⟨a, b + hy, zero⟩ := by
  intro i P a b
  have key : ∀ dx dy : Nat, dx ≤ 1 →
      P ((x + dx) + (nx + 1) * (y + dy)) = ⟨a + dx * hx, b + dy * hy, zero⟩ := by
    intro dx dy hdx
    show gridNode2 nx hx hy zero _ = _
    rw [gridNode2_enc nx hx hy zero (x + dx) (y + dy) (by omega)]
    simp only [V3.mk.injEq, a, b]
    push_cast
    exact ⟨by ring, by ring, trivial⟩
  refine ⟨?_, ?_, ?_, ?_⟩
  · have := key 0 0 (by omega); simpa [i] using this
  · have := key 1 0 (by omega)
    rw [show x + 1 + (nx + 1) * (y + 0) = i + 1 by simp only [i]; ring] at this
    simpa using this
  · have := key 1 1 (by omega)
    rw [show x + 1 + (nx + 1) * (y + 1) = i + 1 + (nx + 1) by simp only [i]; ring] at this
    simpa using this
  · have := key 0 1 (by omega)
    rw [show x + 0 + (nx + 1) * (y + 1) = i + (nx + 1) by simp only [i]; ring] at this
    simpa using this

/-- **C11 quad value**: both doubled area vectors of every generated quad are `(0, 0, hx·hy)`
    (for any value `zero` of the constant z coordinate) -/
theorem brick_quad_value (nx ny : Nat) (hx hy zero : K) (i : Nat) (hi : i ∈ brickIdx2 nx ny) :
    let P := gridNode2 nx hx hy zero
    let n_x := nx + 1
    quadLinCross1 (P i) (P (i + 1)) (P (i + 1 + n_x)) (P (i + n_x)) = ⟨0, 0, hx * hy⟩ ∧
    quadLinCross2 (P i) (P (i + 1)) (P (i + 1 + n_x)) (P (i + n_x)) = ⟨0, 0, hx * hy⟩ := by
  obtain ⟨x, y, h1, _, rfl⟩ := (mem_brickIdx2 nx ny i).1 hi
  obtain ⟨e1, e2, e3, e4⟩ := cell_nodes2 nx hx hy zero x y h1
  intro P n_x
  simp only [P, n_x]
  rw [e1, e2, e3, e4]
  simp only [quadLinCross1, quadLinCross2, V3.cross, V3.sub, V3.mk.injEq]
  exact ⟨⟨by ring, by ring, by ring⟩, ⟨by ring, by ring, by ring⟩⟩

/-- **C11 tri value**: the doubled area vector of both triangles of every generated cell is
    `(0, 0, hx·hy)` -/
theorem brick_tri_value (nx ny : Nat) (hx hy zero : K) (i : Nat) (hi : i ∈ brickIdx2 nx ny) :
    let P := gridNode2 nx hx hy zero
    let n_x := nx + 1
    triCross (P i) (P (i + 1)) (P (i + 1 + n_x)) = ⟨0, 0, hx * hy⟩ ∧
    triCross (P i) (P (i + 1 + n_x)) (P (i + n_x)) = ⟨0, 0, hx * hy⟩ := by
  obtain ⟨x, y, h1, _, rfl⟩ := (mem_brickIdx2 nx ny i).1 hi
  obtain ⟨e1, e2, e3, e4⟩ := cell_nodes2 nx hx hy zero x y h1
  intro P n_x
  simp only [P, n_x]
  rw [e1, e2, e3, e4]
  simp only [triCross, V3.cross, V3.sub, V3.mk.injEq]
  exact ⟨⟨by ring, by ring, by ring⟩, ⟨by ring, by ring, by ring⟩⟩

/-- row form: every generated triangle row -/
theorem brick_tri_value_row (nx ny : Nat) (hx hy zero : K) (i : Nat) (hi : i ∈ brickIdx2 nx ny)
    (r : List Nat) (hr : r ∈ triRows (nx + 1) i) (a b c : Nat) (hrow : r = [a, b, c]) :
    let P := gridNode2 nx hx hy zero
    triCross (P a) (P b) (P c) = ⟨0, 0, hx * hy⟩ := by
  obtain ⟨t1, t2⟩ := brick_tri_value nx ny hx hy zero i hi
  intro P
  subst hrow
  simp only [triRows, List.mem_cons, List.cons.injEq, and_true, List.not_mem_nil, or_false] at hr
  rcases hr with ⟨rfl, rfl, rfl⟩ | ⟨rfl, rfl, rfl⟩
  · exact t1
  · exact t2

end Value

/-! ### positive orientation -/

section Order
variable {K : Type} [Field K] [LinearOrder K] [IsStrictOrderedRing K]

theorem brick_hex_pos (nx ny nz : Nat) (hx hy hz : K) (p1 : 0 < hx) (p2 : 0 < hy) (p3 : 0 < hz)
    (i : Nat) (hi : i ∈ brickIdx3 nx ny nz) :
    0 < on8 hexLin6 (gridNode3 nx ny hx hy hz) (hexRow (nx + 1) ((nx + 1) * (ny + 1)) i) ∧
    0 < on8 hexC24 (gridNode3 nx ny hx hy hz) (hexRow (nx + 1) ((nx + 1) * (ny + 1)) i) := by
  rw [brick_hex_value_row nx ny nz hx hy hz i hi, brick_hexC_value_row nx ny nz hx hy hz i hi]
  constructor <;> positivity

theorem brick_tet_pos (nx ny nz : Nat) (hx hy hz : K) (p1 : 0 < hx) (p2 : 0 < hy) (p3 : 0 < hz)
    (i : Nat) (hi : i ∈ brickIdx3 nx ny nz)
    (r : List Nat) (hr : r ∈ tetRows (nx + 1) ((nx + 1) * (ny + 1)) i) (a b c d : Nat)
    (hrow : r = [a, b, c, d]) :
    let P := gridNode3 nx ny hx hy hz
    0 < tet6 (P a) (P b) (P c) (P d) := by
  intro P
  have := brick_tet_value nx ny nz hx hy hz i hi r hr a b c d hrow
  simp only at this
  simp only [P]
  rw [this]
  positivity

end Order

/-! ## 5. sums: total volume / area -/

section Sum
variable {K : Type} [Field K] [CharZero K]

theorem sum_map_const {α : Type} {S : Type} [CommSemiring S] (l : List α) (f : α → S) (c : S)
    (h : ∀ a ∈ l, f a = c) : (l.map f).sum = (l.length : S) * c := by
  induction l with
  | nil => simp
  | cons a t ih =>
    rw [List.map_cons, List.sum_cons, h a (by simp), ih (fun b hb => h b (by simp [hb])),
      List.length_cons]
    push_cast
    ring

theorem vol_total (nx ny nz : Nat) (h1 : 0 < nx) (h2 : 0 < ny) (h3 : 0 < nz) (lx ly lz : K) :
    ((nx * ny * nz : Nat) : K) * ((lx / nx) * (ly / ny) * (lz / nz)) = lx * ly * lz := by
  have e1 : (nx : K) ≠ 0 := Nat.cast_ne_zero.2 (by omega)
  have e2 : (ny : K) ≠ 0 := Nat.cast_ne_zero.2 (by omega)
  have e3 : (nz : K) ≠ 0 := Nat.cast_ne_zero.2 (by omega)
  push_cast
  field_simp

theorem area_total (nx ny : Nat) (h1 : 0 < nx) (h2 : 0 < ny) (lx ly : K) :
    ((nx * ny : Nat) : K) * ((lx / nx) * (ly / ny)) = lx * ly := by
  have e1 : (nx : K) ≠ 0 := Nat.cast_ne_zero.2 (by omega)
  have e2 : (ny : K) ≠ 0 := Nat.cast_ne_zero.2 (by omega)
  push_cast
  field_simp

/-- **C11 hex sum**: the volumes of all generated hexes (any of the three modes) sum to `lx·ly·lz` -/
theorem brick_hex_sum (nx ny nz : Nat) (h1 : 0 < nx) (h2 : 0 < ny) (h3 : 0 < nz) (lx ly lz p : K)
    (rows : List (List Nat)) (h : brickRows "hex" nx ny nz = some rows) :
    let P := gridNode3 nx ny (lx / nx) (ly / ny) (lz / nz)
    (rows.map fun r => on8 hexLin6 P r / 6).sum = lx * ly * lz ∧
    (rows.map fun r => on8 hexC24 P r / 24).sum = lx * ly * lz ∧
    (rows.map fun r => on8 (hexGauss512 1 p) P r / 512).sum = lx * ly * lz := by
  simp only [brickRows, Option.some.injEq] at h
  subst h
  intro P
  have hv := vol_total nx ny nz h1 h2 h3 lx ly lz
  refine ⟨?_, ?_, ?_⟩
  · rw [sum_map_const _ _ ((lx / nx) * (ly / ny) * (lz / nz)), List.length_map, brickIdx3_length, hv]
    intro r hr
    obtain ⟨i, hi, rfl⟩ := List.mem_map.1 hr
    simp only [P]
    rw [brick_hex_value_row nx ny nz _ _ _ i hi]
    ring
  · rw [sum_map_const _ _ ((lx / nx) * (ly / ny) * (lz / nz)), List.length_map, brickIdx3_length, hv]
    intro r hr
    obtain ⟨i, hi, rfl⟩ := List.mem_map.1 hr
    simp only [P]
    rw [brick_hexC_value_row nx ny nz _ _ _ i hi]
    ring
  · rw [sum_map_const _ _ ((lx / nx) * (ly / ny) * (lz / nz)), List.length_map, brickIdx3_length, hv]
    intro r hr
    obtain ⟨i, hi, rfl⟩ := List.mem_map.1 hr
    simp only [P]
    rw [brick_hexG_value_row nx ny nz p _ _ _ i hi]
    ring

/-- index form of `brick_hex_sum` ("linear" mode), without the row helper -/
theorem brick_hex_sum_idx (nx ny nz : Nat) (h1 : 0 < nx) (h2 : 0 < ny) (h3 : 0 < nz) (lx ly lz : K) :
    let P := gridNode3 nx ny (lx / nx) (ly / ny) (lz / nz)
    let n_x := nx + 1
    let n_xy := (nx + 1) * (ny + 1)
    ((brickIdx3 nx ny nz).map fun i =>
      hexLin6 (P i) (P (i + 1)) (P (i + 1 + n_x)) (P (i + n_x)) (P (i + n_xy)) (P (i + n_xy + 1))
        (P (i + n_xy + 1 + n_x)) (P (i + n_xy + n_x))).sum = 6 * (lx * ly * lz) := by
  intro P n_x n_xy
  rw [sum_map_const _ _ (6 * ((lx / nx) * (ly / ny) * (lz / nz))), brickIdx3_length,
    ← vol_total nx ny nz h1 h2 h3 lx ly lz]
  · ring
  · intro i hi
    exact brick_hex_value nx ny nz _ _ _ i hi

/-- **C11 tet sum**: the volumes `tet6/6` of all generated tets sum to `lx·ly·lz` -/
theorem brick_tet_sum (nx ny nz : Nat) (h1 : 0 < nx) (h2 : 0 < ny) (h3 : 0 < nz) (lx ly lz : K)
    (rows : List (List Nat)) (h : brickRows "tet" nx ny nz = some rows) :
    let P := gridNode3 nx ny (lx / nx) (ly / ny) (lz / nz)
    (rows.map fun r => on4 tet6 P r / 6).sum = lx * ly * lz := by
  have hlen := brick_count_tet nx ny nz rows h
  simp only [brickRows, Option.some.injEq] at h
  subst h
  intro P
  rw [sum_map_const _ _ ((lx / nx) * (ly / ny) * (lz / nz) / 6), hlen,
    ← vol_total nx ny nz h1 h2 h3 lx ly lz]
  · push_cast; ring
  · intro r hr
    obtain ⟨i, hi, hr'⟩ := List.mem_flatMap.1 hr
    simp only [P]
    rw [brick_tet_value_row nx ny nz _ _ _ i hi r hr']

/-- area of a quad in "linear" mode when both doubled area vectors point in +z:
    `(c1.z + c2.z) / 2` -/
def quadAreaZ (p0 p1 p2 p3 : V3 K) : K :=
  ((quadLinCross1 p0 p1 p2 p3).z + (quadLinCross2 p0 p1 p2 p3).z) / 2

/-- area of a triangle whose doubled area vector points in +z -/
def triAreaZ (p0 p1 p2 : V3 K) : K := (triCross p0 p1 p2).z / 2

/-- **C11 quad sum**: the areas of all generated quads sum to `lx·ly` -/
theorem brick_quad_sum (nx ny nz : Nat) (h1 : 0 < nx) (h2 : 0 < ny) (lx ly zero : K)
    (rows : List (List Nat)) (h : brickRows "quad" nx ny nz = some rows) :
    let P := gridNode2 nx (lx / nx) (ly / ny) zero
    (rows.map fun r => on4 quadAreaZ P r).sum = lx * ly := by
  simp only [brickRows, Option.some.injEq] at h
  subst h
  intro P
  rw [sum_map_const _ _ ((lx / nx) * (ly / ny)), List.length_map, brickIdx2_length,
    area_total nx ny h1 h2 lx ly]
  intro r hr
  obtain ⟨i, hi, rfl⟩ := List.mem_map.1 hr
  obtain ⟨q1, q2⟩ := brick_quad_value nx ny (lx / nx) (ly / ny) zero i hi
  simp only [P, quadRow, on4, quadAreaZ]
  rw [q1, q2]
  ring

/-- **C11 tri sum**: the areas of all generated triangles sum to `lx·ly` -/
theorem brick_tri_sum (nx ny nz : Nat) (h1 : 0 < nx) (h2 : 0 < ny) (lx ly zero : K)
    (rows : List (List Nat)) (h : brickRows "tri" nx ny nz = some rows) :
    let P := gridNode2 nx (lx / nx) (ly / ny) zero
    (rows.map fun r => on3 triAreaZ P r).sum = lx * ly := by
  have hlen := brick_count_tri nx ny nz rows h
  simp only [brickRows, Option.some.injEq] at h
  subst h
  intro P
  rw [sum_map_const _ _ ((lx / nx) * (ly / ny) / 2), hlen, ← area_total nx ny h1 h2 lx ly]
  · push_cast; ring
  · intro r hr
    obtain ⟨i, hi, hr'⟩ := List.mem_flatMap.1 hr
    obtain ⟨t1, t2⟩ := brick_tri_value nx ny (lx / nx) (ly / ny) zero i hi
    simp only [triRows, List.mem_cons, List.not_mem_nil, or_false] at hr'
    rcases hr' with rfl | rfl
    · simp only [P, on3, triAreaZ]; rw [t1]
    · simp only [P, on3, triAreaZ]; rw [t2]

end Sum

end Femio.C11

open Femio.C11 in
#print axioms brick_count_hex
open Femio.C11 in
#print axioms brick_count_tet
open Femio.C11 in
#print axioms brick_count_quad
open Femio.C11 in
#print axioms brick_count_tri
open Femio.C11 in
#print axioms mem_brickIdx3
open Femio.C11 in
#print axioms mem_brickIdx2
open Femio.C11 in
#print axioms gridNode3_enc
open Femio.C11 in
#print axioms gridNode2_enc
open Femio.C11 in
#print axioms hexRow_enc
open Femio.C11 in
#print axioms cell_nodes
open Femio.C11 in
#print axioms brick_hex_value
open Femio.C11 in
#print axioms brick_hexC_value
open Femio.C11 in
#print axioms brick_hexG_value
open Femio.C11 in
#print axioms brick_tet_value
open Femio.C11 in
#print axioms brick_quad_value
open Femio.C11 in
#print axioms brick_tri_value
open Femio.C11 in
#print axioms brick_tri_value_row
open Femio.C11 in
#print axioms brick_hex_pos
open Femio.C11 in
#print axioms brick_tet_pos
open Femio.C11 in
#print axioms brick_hex_sum
open Femio.C11 in
#print axioms brick_hex_sum_idx
open Femio.C11 in
#print axioms brick_tet_sum
open Femio.C11 in
#print axioms brick_quad_sum
open Femio.C11 in
#print axioms brick_tri_sum


