import Femio.Model.Obj
import Femio.Lemmas.TextLexProps

/-! C10 — character level of the OBJ model: `tokenize (render ls) = the non-empty lines of ls`. -/
namespace Femio.C10.Obj
open Femio.Text Numeral

/-- all tokens of all lines are non-empty and free of whitespace -/
def LinesOK (ls : List Line) : Prop := ∀ l ∈ ls, ∀ t ∈ l, TokOK t

theorem joinTokens_props (l : Line) (h : ∀ t ∈ l, TokOK t) :
    '\n' ∉ joinTokens l ∧ (joinTokens l = [] ↔ l = []) ∧ splitBlank (joinTokens l) = l := by
  refine ⟨?_, ?_, splitBlank_joinBlank' l h⟩
  · exact not_mem_joinBlank '\n' (by decide) l fun t ht => not_newline_of_noWs (h t ht).2
  · constructor
    · intro he
      by_contra hne
      exact joinBlank_ne_nil l hne (fun t ht => (h t ht).1) he
    · rintro rfl; rfl

/-- **lexer ∘ printer on a whole file**: the lines come back, in order, without the empty ones -/
theorem tokenize_render (ls : List Line) (h : LinesOK ls) :
    tokenize (render ls) = ls.filter fun l => !l.isEmpty := by
  unfold tokenize render
  rw [fileLines_unlines _ (by
    intro s hs
    obtain ⟨l, hl, rfl⟩ := List.mem_map.mp hs
    exact (joinTokens_props l (h l hl)).1)]
  induction ls with
  | nil => rfl
  | cons l t ih =>
    have hl := joinTokens_props l (h l (by simp))
    have iht := ih (fun x hx => h x (by simp [hx]))
    by_cases he : l = []
    · subst he
      simpa [joinTokens, joinBlank] using iht
    · have hj : joinTokens l ≠ [] := fun e => he (hl.2.1.mp e)
      have h1 : (!(joinTokens l).isEmpty) = true := by cases hjl : joinTokens l <;> simp_all
      have h2 : (!l.isEmpty) = true := by cases l <;> simp_all
      simp only [List.map_cons, List.filter_cons, h1, h2, if_true, hl.2.2]
      exact congrArg (l :: ·) iht

theorem filterMap_filter_nonempty {β : Type} (g : Line → Option β) (hg : g [] = none) (ls : List Line) :
    (ls.filter fun l => !l.isEmpty).filterMap g = ls.filterMap g := by
  induction ls with
  | nil => rfl
  | cons l t ih =>
    cases l with
    | nil => simp [List.filterMap_cons, hg, ih]
    | cons a r => simp [List.filterMap_cons, ih]

theorem readObj_filter (ls : List Line) : readObj (ls.filter fun l => !l.isEmpty) = readObj ls := by
  unfold readObj
  rw [filterMap_filter_nonempty isF rfl, filterMap_filter_nonempty isV rfl]

theorem writeObj_linesOK (verts : List (List Token)) (blocks : List (List (List Nat))) (h : vertsOKB verts = true) :
    LinesOK (writeObj verts blocks) := by
  intro l hl t ht
  simp only [writeObj, List.mem_append, List.mem_map, List.mem_flatMap] at hl
  rcases hl with ⟨c, hc, rfl⟩ | ⟨b, _, hl⟩
  · simp only [vLine, List.mem_cons] at ht
    rcases ht with rfl | ht
    · exact (tokOKB_iff _).mp (by decide)
    · simp only [vertsOKB, List.all_eq_true] at h
      exact (tokOKB_iff _).mp (h c hc t ht)
  · unfold fBlock at hl
    split at hl
    · simp only [List.mem_singleton] at hl; subst hl; simp at ht
    · obtain ⟨f, _, rfl⟩ := List.mem_map.mp hl
      simp only [fLine, List.mem_cons, List.mem_map] at ht
      rcases ht with rfl | ⟨i, _, rfl⟩
      · exact (tokOKB_iff _).mp (by decide)
      · exact showNat_tokOK _

end Femio.C10.Obj
