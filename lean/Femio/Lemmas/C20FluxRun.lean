import Femio.Lemmas.C20FluxSteps
import Femio.Lemmas.C20FluxMerge

/-! C20 — the total flux along a run of the transition system. -/
namespace Femio.C20
open Faces V3

section
variable {R : Type} [CommRing R]

/-- the hypothesis under which the volume clause is stated, per operation: cells are merged along a partition,
faces are merged only when coplanar, no vertices are merged -/
def FluxOK (pos : Nat → V3 R) (st : St) : Op → Prop
  | .merge groups => groups.flatten.Perm (List.range st.cells.length)
  | .removeEdge A B ps => ∀ p ∈ ps, ∀ f1 ∈ st.cells.getD p [], ∀ f2 ∈ st.cells.getD p [],
      hasE A B f1 = true → hasE B A f2 = true → Cop pos (f1 ++ f2)
  | .removeVertices2 => True
  | .mergeVertex _ _ => False
  | .shrink => True

/-- `FluxOK` for every operation of the run, in the state in which it is applied -/
def FluxRun (pos : Nat → V3 R) : List Op → St → Prop
  | [], _ => True
  | op :: ops, st => FluxOK pos st op ∧ ∀ st', step st op = some st' → FluxRun pos ops st'

/-- all faces of the state are planar -/
def AllCop (pos : Nat → V3 R) (cells : List Cell) : Prop := ∀ c ∈ cells, ∀ f ∈ c, Cop pos f

theorem step_flux (pos : Nat → V3 R) {st st' : St} (hg : Good st) (hcop : AllCop pos st.cells) (op : Op)
    (hok : FluxOK pos st op) (h : step st op = some st') :
    totalFlux pos st'.cells = totalFlux pos st.cells ∧ AllCop pos st'.cells ∧ st'.conv = st.conv := by
  cases op with
  | merge groups =>
    simp only [step, Option.some.injEq] at h; subst h
    exact ⟨merge_step_flux pos hg.inv hcop groups hok, merge_step_cop pos hcop groups, rfl⟩
  | removeEdge A B ps =>
    simp only [step, Option.some.injEq] at h; subst h
    have := removeEdgeStep_flux pos hg.inv hcop A B ps hok
    exact ⟨this.1, this.2, rfl⟩
  | removeVertices2 =>
    simp only [step, Option.map_eq_some_iff] at h
    obtain ⟨cs, hcs, rfl⟩ := h
    have := removeVertices2_flux pos hg.inv hcop hcs
    exact ⟨this.1, this.2, rfl⟩
  | mergeVertex a b => exact absurd hok (by simp [FluxOK])
  | shrink =>
    simp only [step, Option.some.injEq] at h; subst h
    exact ⟨shrink_flux pos hg.inv hcop, shrink_cop pos hcop, rfl⟩

theorem runOps_flux (pos : Nat → V3 R) (ops : List Op) : ∀ st : St, Good st → AllCop pos st.cells →
    FluxRun pos ops st →
    ∃ st', runOps ops st = some st' ∧ Good st' ∧ totalFlux pos st'.cells = totalFlux pos st.cells ∧
      AllCop pos st'.cells ∧ st'.conv = st.conv := by
  induction ops with
  | nil => intro st hg hc _; exact ⟨st, rfl, hg, rfl, hc, rfl⟩
  | cons op ops ih =>
    intro st hg hc hrun
    obtain ⟨st1, h1⟩ := step_isSome hg op
    obtain ⟨hg1, _⟩ := step_good hg op h1
    obtain ⟨hf1, hc1, hconv1⟩ := step_flux pos hg hc op hrun.1 h1
    obtain ⟨st', h', hg', hf', hc', hconv'⟩ := ih st1 hg1 hc1 (hrun.2 st1 h1)
    exact ⟨st', by simp only [runOps, h1, Option.bind_some, h'], hg', hf'.trans hf1, hc', hconv'.trans hconv1⟩

end

end Femio.C20
