import Femio.Model.FistrMsh
import Femio.Model.FistrCanon
import Femio.Lemmas.FistrMshProps
import Femio.Lemmas.FistrHdr
import Femio.Lemmas.FistrRU
import Femio.Lemmas.FistrG4

/-! Whole-file round trip of the FrontISTR `.msh` model (C01): the text `writeMsh m` produces is, block by block,
`fileBlocks m`; the header scan returns these blocks; every section key finds exactly its blocks (symbolic group /
material names); every `read…` function returns the written data; `remove_useless_nodes` (via `Lemmas/FistrRU`). -/

/- `writerTypes`, `canonNodes`, `referenced`, `IsToken`, `WF`, `canon` (namespace `Femio.C01`), `RT.secType`,
   `RT.canonTemp`, `RU.pick` are defined in `Model/FistrCanon.lean` (core only: the driver evaluates them). -/

namespace Femio.Fistr.RT
open Numeral Femio.Gen Femio.C01

/-! ### the written file as a list of blocks -/
def wcode (t : Nat) : Nat := (lookupN t fistrTypeToCode).getD 0

/-- the row as the writer prints it (prisms re-ordered) -/
def permW (t : Nat) (r : Nat × List Nat) : Nat × List Nat :=
  if t = 12 then (r.1, (permute prismPermWrite r.2).getD []) else r

def elemBlk (b : Nat × List (Nat × List Nat)) : Line × List Line :=
  (elemHeader (wcode b.1), (b.2.map (permW b.1)).map elemLine)

/-- the writer's two spellings of the group header -/
def grpHdr (tight : Bool) (n : Name) : Line := (if tight then c!"!EGROUP,EGRP=" else c!"!EGROUP, EGRP=") ++ n
def grpBlk (tight : Bool) (g : Name × List Nat) : Line × List Line := (grpHdr tight g.1, g.2.map showNat)

/-- the condition under which the writer takes the `write_formatted_strings` branch -/
def tightGroups (m : MshIn) : Bool :=
  decide ((m.groups.flatMap (·.2)).length = nElemsIn m ∧
    nElemsIn m = m.groups.length + (if m.hasAll then 1 else 0) - 1)

def secHdr (s : SecIn) : Line := c!"!SECTION,TYPE=" ++ secType s ++ c!",EGRP=" ++ s.egrp ++ c!",MATERIAL=" ++ s.mat
def matHdr (s : SecIn) : Line := c!"!MATERIAL,NAME=" ++ s.mat ++ c!",ITEM=1"
def itemHdr : Line := c!"!ITEM=1,SUBITEM=2"
def matLine (s : SecIn) : Line := renderSci 8 s.young ++ ',' :: renderSci 8 s.poisson
def secBlks (s : SecIn) : List (Line × List Line) :=
  [(secHdr s, if s.shell then [c!"1.0,1"] else []), (matHdr s, []), (itemHdr, [matLine s])]
def tempBlk (t : List (Nat × Sci)) : Line × List Line := (tempHeader, t.map tempLine)

def hdrBlks (m : MshIn) : List (Line × List Line) :=
  [(c!"!HEADER", [c!"Data written by femio"]), (c!"!NODE", m.nodes.map nodeLine)]

/-- the blocks of the file `writeMsh m` -/
def fileBlocks (m : MshIn) : List (Line × List Line) :=
  hdrBlks m ++ (m.blocks.map elemBlk ++ (m.groups.map (grpBlk (tightGroups m)) ++
    (m.sec.toList.flatMap secBlks ++ (m.temp.toList.map tempBlk ++ [(c!"!END", [])]))))

/-! ### the writer produces `fileBlocks` -/
theorem mem_writerTypes {t : Nat} (h : t ∈ writerTypes) :
    t = 0 ∨ t = 3 ∨ t = 5 ∨ t = 8 ∨ t = 9 ∨ t = 12 ∨ t = 14 ∨ t = 15 ∨ t = 1 ∨ t = 2 := by
  simpa [writerTypes] using h

theorem permute_six (l : List Nat) (h : l.length = 6) : ∃ w, permute prismPermWrite l = some w ∧ w.length = 6 ∧
    permute prismPermRead w = some l := by
  rcases l with _ | ⟨a, _ | ⟨b, _ | ⟨c, _ | ⟨d, _ | ⟨e, _ | ⟨f, _ | ⟨g, t⟩⟩⟩⟩⟩⟩⟩
  all_goals first
    | (simp only [List.length_cons, List.length_nil] at h; omega)
    | exact ⟨[a, c, b, d, f, e], by simp [permute, prismPermWrite, List.mapM_cons],
        rfl, by simp [permute, prismPermRead, List.mapM_cons]⟩

theorem mapM_permW (rows : List (Nat × List Nat)) (h : ∀ r ∈ rows, r.2.length = 6) :
    rows.mapM (fun r => (permute prismPermWrite r.2).map fun c => (r.1, c)) = some (rows.map (permW 12)) := by
  induction rows with
  | nil => rfl
  | cons r t ih =>
    obtain ⟨w, hw, -, -⟩ := permute_six r.2 (h r (by simp))
    simp [List.mapM_cons, hw, ih (fun x hx => h x (List.mem_cons_of_mem _ hx)), permW]

theorem writeBlock_eq (b : Nat × List (Nat × List Nat)) (ht : b.1 ∈ writerTypes)
    (h6 : b.1 = 12 → ∀ r ∈ b.2, r.2.length = 6) :
    writeBlock b = some ((elemBlk b).1 :: (elemBlk b).2) := by
  obtain ⟨t, rows⟩ := b
  simp only at ht h6
  rcases mem_writerTypes ht with rfl | rfl | rfl | rfl | rfl | rfl | rfl | rfl | rfl | rfl
  case inr.inr.inr.inr.inr.inl =>
    have := mapM_permW rows (h6 rfl)
    simp [writeBlock, lookupN, fistrTypeToCode, elemBlk, wcode, this]
  all_goals simp [writeBlock, lookupN, fistrTypeToCode, elemBlk, wcode, permW]

theorem mapM_writeBlock (bs : List (Nat × List (Nat × List Nat)))
    (h : ∀ b ∈ bs, b.1 ∈ writerTypes ∧ (b.1 = 12 → ∀ r ∈ b.2, r.2.length = 6)) :
    bs.mapM writeBlock = some (bs.map fun b => (elemBlk b).1 :: (elemBlk b).2) := by
  induction bs with
  | nil => rfl
  | cons b t ih =>
    have hb := h b (by simp)
    simp [List.mapM_cons, writeBlock_eq b hb.1 hb.2, ih (fun x hx => h x (List.mem_cons_of_mem _ hx))]

theorem length_flatMap_ge (gs : List (Name × List Nat)) (h : ∀ g ∈ gs, g.2 ≠ []) :
    gs.length ≤ (gs.flatMap (·.2)).length := by
  induction gs with
  | nil => simp
  | cons g t ih =>
    have h1 : 1 ≤ g.2.length := List.length_pos_iff.mpr (h g (by simp))
    have := ih (fun x hx => h x (List.mem_cons_of_mem _ hx))
    simp only [List.flatMap_cons, List.length_append, List.length_cons]
    omega

/-- groups of one element each: row k of the zipped table is (k-th name, its only member) -/
theorem zip_singletons (H : Name → Line) (gs : List (Name × List Nat)) (h : ∀ g ∈ gs, g.2 ≠ [])
    (hlen : (gs.flatMap (·.2)).length = gs.length) :
    ((gs.zip (gs.flatMap (·.2))).flatMap fun (g, v) => [H g.1, showNat v]) =
      gs.flatMap fun g => H g.1 :: g.2.map showNat := by
  induction gs with
  | nil => rfl
  | cons g t ih =>
    have ht := fun x hx => h x (List.mem_cons_of_mem _ hx)
    have h1 : 1 ≤ g.2.length := List.length_pos_iff.mpr (h g (by simp))
    have h2 := length_flatMap_ge t ht
    simp only [List.flatMap_cons, List.length_append, List.length_cons] at hlen
    have hg : g.2.length = 1 := by omega
    obtain ⟨v, hv⟩ := List.length_eq_one_iff.mp hg
    have hlen' : (t.flatMap (·.2)).length = t.length := by omega
    simp only [List.flatMap_cons, hv, List.singleton_append, List.zip_cons_cons, List.map_cons, List.map_nil,
      List.cons_append, List.nil_append]
    rw [ih ht hlen']

theorem groupLines_eq (m : MshIn) (h : ∀ g ∈ m.groups, g.2 ≠ []) :
    groupLines m = some (renderBlocks (m.groups.map (grpBlk (tightGroups m)))) := by
  unfold groupLines
  by_cases hemp : m.groups = []
  · simp [hemp, renderBlocks]
  have hne : m.groups.isEmpty = false := by simpa using hemp
  rw [hne]
  simp only [Bool.false_eq_true, if_false]
  by_cases hc : (m.groups.flatMap (·.2)).length = nElemsIn m ∧
      nElemsIn m = m.groups.length + (if m.hasAll then 1 else 0) - 1
  · have hge := length_flatMap_ge m.groups h
    have hpos : 1 ≤ m.groups.length := List.length_pos_iff.mpr hemp
    have hlen : m.groups.length = (m.groups.flatMap (·.2)).length := by
      obtain ⟨h1, h2⟩ := hc
      split at h2 <;> omega
    have ht : tightGroups m = true := by unfold tightGroups; exact decide_eq_true hc
    rw [if_pos hc, if_pos hlen, ht]
    have := zip_singletons (fun n => c!"!EGROUP,EGRP=" ++ n) m.groups h hlen.symm
    simp only [renderBlocks, List.flatMap_map, grpBlk, grpHdr, if_true]
    exact congrArg some this
  · have ht : tightGroups m = false := by unfold tightGroups; exact decide_eq_false hc
    rw [if_neg hc, ht]
    simp only [renderBlocks, List.flatMap_map, grpBlk, grpHdr, Bool.false_eq_true, if_false]
    congr 1
    apply List.flatMap_congr
    intro g hg
    have : g.2.isEmpty = false := by simpa using h g hg
    simp [idLines, this]

theorem renderBlocks_append (a b : List (Line × List Line)) : renderBlocks (a ++ b) = renderBlocks a ++ renderBlocks b := by
  simp [renderBlocks]

/-- **the writer's text is the rendering of `fileBlocks`** -/
theorem writeMsh_eq (m : MshIn) (hwf : WF m) : writeMsh m = some (renderBlocks (fileBlocks m)) := by
  have hb := mapM_writeBlock m.blocks (fun b hb => ⟨(hwf.blocks_ok b hb).1, hwf.prism b hb⟩)
  have hg := groupLines_eq m (fun g hg => (hwf.groups_ok g hg).1)
  unfold writeMsh
  rw [hb, hg]
  simp only [Option.pure_def, Option.bind_eq_bind, Option.bind_some, fileBlocks, renderBlocks_append]
  congr 1
  have e1 : renderBlocks (hdrBlks m) = [c!"!HEADER", c!"Data written by femio", c!"!NODE"] ++ m.nodes.map nodeLine := by
    simp [renderBlocks, hdrBlks]
  have e2 : renderBlocks (m.blocks.map elemBlk) = (m.blocks.map fun b => (elemBlk b).1 :: (elemBlk b).2).flatten := by
    simp [renderBlocks, List.flatMap_def, List.map_map, Function.comp_def]
  have e3 : renderBlocks (m.sec.toList.flatMap secBlks) = (match m.sec with | some s => secLines s | none => []) := by
    cases m.sec with
    | none => rfl
    | some s =>
      cases hs : s.shell <;>
        simp [renderBlocks, secBlks, secLines, secHdr, secType, matHdr, itemHdr, matLine, hs]
  have e4 : renderBlocks (m.temp.toList.map tempBlk ++ [(c!"!END", [])]) =
      (match m.temp with | some t => tempHeader :: t.map tempLine | none => []) ++ [c!"!END"] := by
    cases m.temp with
    | none => rfl
    | some t => simp [renderBlocks, tempBlk]
  rw [e1, e2, e3, ← renderBlocks_append, e4]
  simp only [List.append_assoc]
  rfl

/-! ### which section keys match which written header -/
/-- the truth values of the reader's eight header tests on a header line -/
structure HdrKeys (h : Line) (node elem ng eg mat sec init item : Bool) : Prop where
  node : hasSub c!"!NODE" h = node
  elem : hasSub c!"!ELEMENT" h = elem
  ng : hasSub c!"!NGROUP" h = ng
  eg : hasSub c!"!EGROUP" h = eg
  mat : hasSub c!"!MATERIAL" h = mat
  sec : hasSub c!"!SECTION" h = sec
  init : hasSub c!"!INITIAL CONDITION" h = init
  item : isItem1 h = item
  hdr : isHeader h = true
  keep : ignoreLine h = false

theorem hasSub_hdr (k rest : List Char) (h : '!' ∉ rest) : hasSub ('!' :: k) ('!' :: rest) = isPrefix k rest :=
  hasSub_bang '!' k rest h

theorem isItem1_hdr (rest : List Char) (h : '!' ∉ rest) (hp : isPrefix c!"ITEM" rest = false) :
    isItem1 ('!' :: rest) = false := by
  unfold isItem1
  rw [isItem1.go]
  simp [isPrefix, hp, isItem1_go_no_bang rest h]

theorem ignoreLine_hdr (rest : List Char) (h : '#' ∉ rest) : ignoreLine ('!' :: rest) = false := by
  simp [ignoreLine, isWs, h]

theorem word_not_mem {n : Name} (h : ∀ c ∈ n, isWord c = true) (x : Char) (hx : isWord x = false) : x ∉ n :=
  fun m => by rw [h x m] at hx; cases hx

theorem takeWhile_word_all (w : List Char) (hw : ∀ c ∈ w, isWord c = true) : w.takeWhile isWord = w :=
  (span_all isWord w hw).1

theorem takeWhile_word_sep (w rest : List Char) (hw : ∀ c ∈ w, isWord c = true) :
    (w ++ ',' :: rest).takeWhile isWord = w :=
  (span_stop isWord w ',' rest hw (by decide)).1

theorem elemHdr_facts_dec : ∀ t ∈ writerTypes,
    (hasSub c!"!NODE" (elemHeader (wcode t)) = false ∧ hasSub c!"!ELEMENT" (elemHeader (wcode t)) = true ∧
     hasSub c!"!NGROUP" (elemHeader (wcode t)) = false ∧ hasSub c!"!EGROUP" (elemHeader (wcode t)) = false ∧
     hasSub c!"!MATERIAL" (elemHeader (wcode t)) = false ∧ hasSub c!"!SECTION" (elemHeader (wcode t)) = false ∧
     hasSub c!"!INITIAL CONDITION" (elemHeader (wcode t)) = false ∧ isItem1 (elemHeader (wcode t)) = false ∧
     isHeader (elemHeader (wcode t)) = true ∧ ignoreLine (elemHeader (wcode t)) = false) ∧
    capture c!"TYPE=" (elemHeader (wcode t)) = some (showNat (wcode t)) ∧
    capture c!"EGRP=" (elemHeader (wcode t)) = none ∧
    codeToType (showNat (wcode t)) = some t := by decide

theorem elemHdr_keys {t : Nat} (ht : t ∈ writerTypes) :
    HdrKeys (elemHeader (wcode t)) false true false false false false false false := by
  obtain ⟨⟨h1, h2, h3, h4, h5, h6, h7, h8, h9, h10⟩, -⟩ := elemHdr_facts_dec t ht
  exact ⟨h1, h2, h3, h4, h5, h6, h7, h8, h9, h10⟩

theorem grpHdr_keys (tight : Bool) (n : Name) (hn : IsToken n) :
    HdrKeys (grpHdr tight n) false false false true false false false false := by
  have hb := word_not_mem hn.2 '!' (by decide)
  have hh := word_not_mem hn.2 '#' (by decide)
  cases tight <;> constructor <;>
    simp [grpHdr, hasSub_hdr, isItem1_hdr, ignoreLine_hdr, isPrefix, isHeader, hb, hh]

theorem grpHdr_capture (tight : Bool) (n : Name) (hn : IsToken n) : capture c!"EGRP=" (grpHdr tight n) = some n := by
  cases tight <;> simp [grpHdr, capture, isPrefix, takeWhile_word_all n hn.2, hn.1]

theorem secHdr_keys (s : SecIn) (he : IsToken s.egrp) (hm : IsToken s.mat) :
    HdrKeys (secHdr s) false false false false false true false false := by
  have hb := word_not_mem he.2 '!' (by decide)
  have hh := word_not_mem he.2 '#' (by decide)
  have hb' := word_not_mem hm.2 '!' (by decide)
  have hh' := word_not_mem hm.2 '#' (by decide)
  cases hs : s.shell <;> constructor <;>
    simp [secHdr, secType, hs, hasSub_hdr, isItem1_hdr, ignoreLine_hdr, isPrefix, isHeader, hb, hh, hb', hh']

theorem secHdr_capture (s : SecIn) (he : IsToken s.egrp) (hm : IsToken s.mat) :
    capture c!"TYPE=" (secHdr s) = some (secType s) ∧ capture c!"EGRP=" (secHdr s) = some s.egrp ∧
    capture c!"MATERIAL=" (secHdr s) = some s.mat := by
  have heq := word_not_mem he.2 '=' (by decide)
  have hskip := fun rest => capture_skip c!"MATERIAL=" s.egrp ',' rest '=' (by decide) heq (by decide)
  cases hs : s.shell <;> refine ⟨?_, ?_, ?_⟩ <;>
    simp [secHdr, secType, hs, capture, isPrefix, takeWhile_word_all s.mat hm.2, takeWhile_word_sep s.egrp _ he.2,
      hm.1, he.1, hskip, isWord, isDigit, isAlpha]

theorem matHdr_keys (s : SecIn) (hm : IsToken s.mat) :
    HdrKeys (matHdr s) false false false false true false false false := by
  have hb := word_not_mem hm.2 '!' (by decide)
  have hh := word_not_mem hm.2 '#' (by decide)
  constructor <;>
    simp [matHdr, hasSub_hdr, isItem1_hdr, ignoreLine_hdr, isPrefix, isHeader, hb, hh]

theorem matHdr_capture (s : SecIn) (hm : IsToken s.mat) :
    capture c!"NAME=" (matHdr s) = some s.mat ∧ captureP c!"ITEM=" isDigit (matHdr s) = some ['1'] := by
  have heq := word_not_mem hm.2 '=' (by decide)
  have hskip := fun rest => captureP_skip c!"ITEM=" isDigit s.mat ',' rest '=' (by decide) heq (by decide)
  refine ⟨?_, ?_⟩
  · simp [matHdr, capture, isPrefix, takeWhile_word_sep s.mat _ hm.2, hm.1]
  · simp [matHdr, captureP, isPrefix, hskip, isDigit]

theorem const_keys :
    HdrKeys c!"!HEADER" false false false false false false false false ∧
    HdrKeys c!"!NODE" true false false false false false false false ∧
    HdrKeys itemHdr false false false false false false false true ∧
    HdrKeys tempHeader false false false false false false true false ∧
    HdrKeys c!"!END" false false false false false false false false ∧
    capture c!"TYPE=" tempHeader = some c!"TEMPERATURE" := by
  refine ⟨?_, ?_, ?_, ?_, ?_, by decide⟩ <;> constructor <;> decide

/-! ### filtering the file's blocks by a header test -/
theorem filter_map_const {α β} (f : α → β) (p : β → Bool) (l : List α) (v : Bool) (h : ∀ a ∈ l, p (f a) = v) :
    (l.map f).filter p = if v then l.map f else [] := by
  cases v with
  | true =>
    simp only [if_true]
    exact List.filter_eq_self.mpr (fun b hb => by obtain ⟨a, ha, rfl⟩ := List.mem_map.mp hb; exact h a ha)
  | false =>
    simp only [Bool.false_eq_true, if_false]
    exact List.filter_eq_nil_iff.mpr (fun b hb => by
      obtain ⟨a, ha, rfl⟩ := List.mem_map.mp hb; simp [h a ha])

theorem filter_single {β} (p : β → Bool) (b : β) (v : Bool) (h : p b = v) : [b].filter p = if v then [b] else [] := by
  cases v <;> simp [h]

/-- the blocks of the written file selected by a header test `p`, given the value of `p` on each kind of header -/
theorem filter_file (p : Line → Bool) (m : MshIn) (vH vN vE vG vS vM vI vT vZ : Bool)
    (hH : p c!"!HEADER" = vH) (hN : p c!"!NODE" = vN) (hE : ∀ b ∈ m.blocks, p (elemBlk b).1 = vE)
    (hG : ∀ g ∈ m.groups, p (grpHdr (tightGroups m) g.1) = vG)
    (hS : ∀ s ∈ m.sec, p (secHdr s) = vS ∧ p (matHdr s) = vM) (hI : p itemHdr = vI) (hT : p tempHeader = vT)
    (hZ : p c!"!END" = vZ) :
    (fileBlocks m).filter (fun b => p b.1) =
      (if vH then [(c!"!HEADER", [c!"Data written by femio"])] else []) ++
      ((if vN then [(c!"!NODE", m.nodes.map nodeLine)] else []) ++
      ((if vE then m.blocks.map elemBlk else []) ++ ((if vG then m.groups.map (grpBlk (tightGroups m)) else []) ++
      (m.sec.toList.flatMap (fun s => (if vS then [(secHdr s, if s.shell then [c!"1.0,1"] else [])] else []) ++
          ((if vM then [(matHdr s, [])] else []) ++ (if vI then [(itemHdr, [matLine s])] else []))) ++
      ((if vT then m.temp.toList.map tempBlk else []) ++ (if vZ then [(c!"!END", [])] else [])))))) := by
  unfold fileBlocks hdrBlks
  simp only [List.filter_append]
  have e1 : [((c!"!HEADER" : Line), [c!"Data written by femio"]), (c!"!NODE", m.nodes.map nodeLine)].filter (fun b => p b.1) =
      (if vH then [(c!"!HEADER", [c!"Data written by femio"])] else []) ++
        (if vN then [(c!"!NODE", m.nodes.map nodeLine)] else []) := by
    have : [((c!"!HEADER" : Line), [c!"Data written by femio"]), (c!"!NODE", m.nodes.map nodeLine)] =
        [((c!"!HEADER" : Line), [c!"Data written by femio"])] ++ [(c!"!NODE", m.nodes.map nodeLine)] := rfl
    rw [this, List.filter_append, filter_single (fun b : Line × List Line => p b.1) _ vH hH,
      filter_single (fun b : Line × List Line => p b.1) _ vN hN]
  have e2 := filter_map_const elemBlk (fun b => p b.1) m.blocks vE hE
  have e3 := filter_map_const (grpBlk (tightGroups m)) (fun b => p b.1) m.groups vG hG
  have e4 := filter_map_const tempBlk (fun b => p b.1) m.temp.toList vT (fun _ _ => hT)
  have e5 := filter_single (fun b : Line × List Line => p b.1) (c!"!END", []) vZ hZ
  have e6 : (m.sec.toList.flatMap secBlks).filter (fun b => p b.1) =
      m.sec.toList.flatMap (fun s => (if vS then [(secHdr s, if s.shell then [c!"1.0,1"] else [])] else []) ++
          ((if vM then [(matHdr s, [])] else []) ++ (if vI then [(itemHdr, [matLine s])] else []))) := by
    cases hs : m.sec with
    | none => rfl
    | some s =>
      obtain ⟨h1, h2⟩ := hS s hs
      have : secBlks s = [(secHdr s, if s.shell then [c!"1.0,1"] else [])] ++ ([(matHdr s, [])] ++ [(itemHdr, [matLine s])]) := rfl
      simp only [Option.toList_some, List.flatMap_cons, List.flatMap_nil, List.append_nil]
      rw [this, List.filter_append, List.filter_append,
        filter_single (fun b : Line × List Line => p b.1) _ vS h1,
        filter_single (fun b : Line × List Line => p b.1) _ vM h2,
        filter_single (fun b : Line × List Line => p b.1) _ vI hI]
  rw [e1, e2, e3, e4, e5, e6]
  simp only [List.append_assoc]

/-! ### the header scan of the written text -/
def GoodBlk (b : Line × List Line) : Prop :=
  (isHeader b.1 = true ∧ ignoreLine b.1 = false) ∧ ∀ l ∈ b.2, isHeader l = false ∧ ignoreLine l = false

theorem toBlocks_render_good (bs : List (Line × List Line)) (h : ∀ b ∈ bs, GoodBlk b) : toBlocks (renderBlocks bs) = bs := by
  rw [toBlocks_of_clean, toBlocksAux_render bs (fun b hb => ⟨(h b hb).1.1, fun l hl => ((h b hb).2 l hl).1⟩)]
  intro l hl
  simp only [renderBlocks, List.mem_flatMap, List.mem_cons] at hl
  obtain ⟨b, hb, rfl | hl⟩ := hl
  · exact (h b hb).1.2
  · exact ((h b hb).2 l hl).2

theorem matLine_ok (s : SecIn) : isHeader (matLine s) = false ∧ ignoreLine (matLine s) = false := by
  have h : matLine s = joinSep ',' [renderSci 8 s.young, renderSci 8 s.poisson] := rfl
  have hne : renderSci 8 s.young ≠ [] := by
    simp only [renderSci, ne_eq, List.append_eq_nil_iff, not_and]
    intro _ h; cases h
  refine dataLine_ok _ (by rw [h]; exact joinSep_ne_nil _ _ _ hne) ?_
  intro c hc
  rw [h] at hc
  rcases mem_joinSep ',' _ c hc with rfl | ⟨f, hf, hcf⟩
  · decide
  · simp only [List.mem_cons, List.not_mem_nil, or_false] at hf
    rcases hf with rfl | rfl <;> exact dataCh_renderSci 8 _ c hcf

theorem good_file (m : MshIn) (hwf : WF m) : ∀ b ∈ fileBlocks m, GoodBlk b := by
  intro b hb
  obtain ⟨kH, kN, kI, kT, kZ, -⟩ := const_keys
  simp only [fileBlocks, hdrBlks, List.mem_append, List.mem_cons, List.mem_map, List.mem_flatMap, List.not_mem_nil,
    or_false, Option.mem_toList] at hb
  rcases hb with (rfl | rfl) | ⟨e, he, rfl⟩ | ⟨g, hg, rfl⟩ | ⟨s, hs, hb⟩ | ⟨t, ht, rfl⟩ | rfl
  · exact ⟨⟨kH.hdr, kH.keep⟩, by decide⟩
  · refine ⟨⟨kN.hdr, kN.keep⟩, fun l hl => ?_⟩
    obtain ⟨r, _, rfl⟩ := List.mem_map.mp hl
    exact nodeLine_ok r
  · have hk := elemHdr_keys (hwf.blocks_ok e he).1
    refine ⟨⟨hk.hdr, hk.keep⟩, fun l hl => ?_⟩
    obtain ⟨r, _, rfl⟩ := List.mem_map.mp hl
    exact elemLine_ok r
  · have hk := grpHdr_keys (tightGroups m) g.1 (hwf.groups_ok g hg).2.2
    refine ⟨⟨hk.hdr, hk.keep⟩, fun l hl => ?_⟩
    obtain ⟨r, _, rfl⟩ := List.mem_map.mp hl
    exact showNat_ok r
  · obtain ⟨he, hm⟩ := hwf.sec_ok s hs
    simp only [secBlks, List.mem_cons, List.not_mem_nil, or_false] at hb
    rcases hb with rfl | rfl | rfl
    · have hk := secHdr_keys s he hm
      refine ⟨⟨hk.hdr, hk.keep⟩, fun l hl => ?_⟩
      cases hsh : s.shell <;> simp [hsh] at hl
      subst hl; decide
    · have hk := matHdr_keys s hm
      exact ⟨⟨hk.hdr, hk.keep⟩, fun l hl => by cases hl⟩
    · refine ⟨⟨kI.hdr, kI.keep⟩, fun l hl => ?_⟩
      simp only [List.mem_cons, List.not_mem_nil, or_false] at hl
      subst hl; exact matLine_ok s
  · refine ⟨⟨kT.hdr, kT.keep⟩, fun l hl => ?_⟩
    obtain ⟨r, _, rfl⟩ := List.mem_map.mp hl
    exact tempLine_ok r
  · exact ⟨⟨kZ.hdr, kZ.keep⟩, fun l hl => by cases hl⟩

/-- **the header scan of the written text returns the written blocks** -/
theorem toBlocks_file (m : MshIn) (hwf : WF m) : toBlocks (renderBlocks (fileBlocks m)) = fileBlocks m :=
  toBlocks_render_good _ (good_file m hwf)

/-! ### the blocks each section key selects -/
theorem file_keys (m : MshIn) (hwf : WF m) :
    (∀ b ∈ m.blocks, HdrKeys (elemBlk b).1 false true false false false false false false) ∧
    (∀ g ∈ m.groups, HdrKeys (grpHdr (tightGroups m) g.1) false false false true false false false false) ∧
    (∀ s ∈ m.sec, HdrKeys (secHdr s) false false false false false true false false ∧
      HdrKeys (matHdr s) false false false false true false false false) :=
  ⟨fun b hb => elemHdr_keys (hwf.blocks_ok b hb).1,
   fun g hg => grpHdr_keys _ _ (hwf.groups_ok g hg).2.2,
   fun s hs => ⟨secHdr_keys s (hwf.sec_ok s hs).1 (hwf.sec_ok s hs).2, matHdr_keys s (hwf.sec_ok s hs).2⟩⟩

theorem flatMap_nil_const {α β} (l : List α) : l.flatMap (fun _ => ([] : List β)) = [] := by
  induction l <;> simp_all

theorem sel_node (m : MshIn) (hwf : WF m) : blocksOf c!"!NODE" (fileBlocks m) = [(c!"!NODE", m.nodes.map nodeLine)] := by
  obtain ⟨kH, kN, kI, kT, kZ, -⟩ := const_keys
  obtain ⟨kE, kG, kS⟩ := file_keys m hwf
  have := filter_file (hasSub c!"!NODE") m _ _ _ _ _ _ _ _ _ kH.node kN.node (fun b hb => (kE b hb).node)
    (fun g hg => (kG g hg).node) (fun s hs => ⟨(kS s hs).1.node, (kS s hs).2.node⟩) kI.node kT.node kZ.node
  simpa [blocksOf, flatMap_nil_const] using this

theorem sel_elem (m : MshIn) (hwf : WF m) : blocksOf c!"!ELEMENT" (fileBlocks m) = m.blocks.map elemBlk := by
  obtain ⟨kH, kN, kI, kT, kZ, -⟩ := const_keys
  obtain ⟨kE, kG, kS⟩ := file_keys m hwf
  have := filter_file (hasSub c!"!ELEMENT") m _ _ _ _ _ _ _ _ _ kH.elem kN.elem (fun b hb => (kE b hb).elem)
    (fun g hg => (kG g hg).elem) (fun s hs => ⟨(kS s hs).1.elem, (kS s hs).2.elem⟩) kI.elem kT.elem kZ.elem
  simpa [blocksOf, flatMap_nil_const] using this

theorem sel_ng (m : MshIn) (hwf : WF m) : blocksOf c!"!NGROUP" (fileBlocks m) = [] := by
  obtain ⟨kH, kN, kI, kT, kZ, -⟩ := const_keys
  obtain ⟨kE, kG, kS⟩ := file_keys m hwf
  have := filter_file (hasSub c!"!NGROUP") m _ _ _ _ _ _ _ _ _ kH.ng kN.ng (fun b hb => (kE b hb).ng)
    (fun g hg => (kG g hg).ng) (fun s hs => ⟨(kS s hs).1.ng, (kS s hs).2.ng⟩) kI.ng kT.ng kZ.ng
  simpa [blocksOf, flatMap_nil_const] using this

theorem sel_eg (m : MshIn) (hwf : WF m) :
    blocksOf c!"!EGROUP" (fileBlocks m) = m.groups.map (grpBlk (tightGroups m)) := by
  obtain ⟨kH, kN, kI, kT, kZ, -⟩ := const_keys
  obtain ⟨kE, kG, kS⟩ := file_keys m hwf
  have := filter_file (hasSub c!"!EGROUP") m _ _ _ _ _ _ _ _ _ kH.eg kN.eg (fun b hb => (kE b hb).eg)
    (fun g hg => (kG g hg).eg) (fun s hs => ⟨(kS s hs).1.eg, (kS s hs).2.eg⟩) kI.eg kT.eg kZ.eg
  simpa [blocksOf, flatMap_nil_const] using this

theorem sel_mat (m : MshIn) (hwf : WF m) :
    blocksOf c!"!MATERIAL" (fileBlocks m) = m.sec.toList.map fun s => (matHdr s, []) := by
  obtain ⟨kH, kN, kI, kT, kZ, -⟩ := const_keys
  obtain ⟨kE, kG, kS⟩ := file_keys m hwf
  have := filter_file (hasSub c!"!MATERIAL") m _ _ _ _ _ _ _ _ _ kH.mat kN.mat (fun b hb => (kE b hb).mat)
    (fun g hg => (kG g hg).mat) (fun s hs => ⟨(kS s hs).1.mat, (kS s hs).2.mat⟩) kI.mat kT.mat kZ.mat
  cases hs : m.sec <;> simpa [blocksOf, hs] using this

theorem sel_sec (m : MshIn) (hwf : WF m) :
    blocksOf c!"!SECTION" (fileBlocks m) = m.sec.toList.map fun s => (secHdr s, if s.shell then [c!"1.0,1"] else []) := by
  obtain ⟨kH, kN, kI, kT, kZ, -⟩ := const_keys
  obtain ⟨kE, kG, kS⟩ := file_keys m hwf
  have := filter_file (hasSub c!"!SECTION") m _ _ _ _ _ _ _ _ _ kH.sec kN.sec (fun b hb => (kE b hb).sec)
    (fun g hg => (kG g hg).sec) (fun s hs => ⟨(kS s hs).1.sec, (kS s hs).2.sec⟩) kI.sec kT.sec kZ.sec
  cases hs : m.sec <;> simpa [blocksOf, hs] using this

theorem sel_init (m : MshIn) (hwf : WF m) :
    blocksOf c!"!INITIAL CONDITION" (fileBlocks m) = m.temp.toList.map tempBlk := by
  obtain ⟨kH, kN, kI, kT, kZ, -⟩ := const_keys
  obtain ⟨kE, kG, kS⟩ := file_keys m hwf
  have := filter_file (hasSub c!"!INITIAL CONDITION") m _ _ _ _ _ _ _ _ _ kH.init kN.init (fun b hb => (kE b hb).init)
    (fun g hg => (kG g hg).init) (fun s hs => ⟨(kS s hs).1.init, (kS s hs).2.init⟩) kI.init kT.init kZ.init
  simpa [blocksOf, flatMap_nil_const] using this

theorem sel_item (m : MshIn) (hwf : WF m) :
    (fileBlocks m).filter (fun b => isItem1 b.1) = m.sec.toList.map fun s => (itemHdr, [matLine s]) := by
  obtain ⟨kH, kN, kI, kT, kZ, -⟩ := const_keys
  obtain ⟨kE, kG, kS⟩ := file_keys m hwf
  have := filter_file isItem1 m _ _ _ _ _ _ _ _ _ kH.item kN.item (fun b hb => (kE b hb).item)
    (fun g hg => (kG g hg).item) (fun s hs => ⟨(kS s hs).1.item, (kS s hs).2.item⟩) kI.item kT.item kZ.item
  cases hs : m.sec <;> simpa [hs] using this

/-! ### generic list lemmas -/
theorem mapM_map_of_forall_mem {α β γ} (g : α → γ) (f : γ → Option β) (k : α → β) (l : List α)
    (h : ∀ a ∈ l, f (g a) = some (k a)) : (l.map g).mapM f = some (l.map k) := by
  induction l with
  | nil => rfl
  | cons a t ih =>
    simp [List.mapM_cons, h a (by simp), ih (fun x hx => h x (List.mem_cons_of_mem _ hx))]

/-- inserting pairs with fresh, pairwise distinct keys one after the other appends them -/
theorem foldl_ins_nodup {κ β} (ins : κ → β → List (κ × β) → List (κ × β))
    (hins : ∀ k v acc, k ∉ acc.map (·.1) → ins k v acc = acc ++ [(k, v)])
    (l acc : List (κ × β)) (hnd : (acc.map (·.1) ++ l.map (·.1)).Nodup) :
    l.foldl (fun d p => ins p.1 p.2 d) acc = acc ++ l := by
  induction l generalizing acc with
  | nil => simp
  | cons p t ih =>
    have hk : p.1 ∉ acc.map (·.1) := by
      intro hmem
      have := (List.nodup_append.mp hnd).2.2 p.1 hmem p.1 (by simp)
      exact this rfl
    simp only [List.foldl_cons]
    rw [hins p.1 p.2 acc hk, ih (acc ++ [(p.1, p.2)]) (by simpa [List.append_assoc] using hnd)]
    simp

theorem dictAppend_fresh {β} (k : List Char) (v : List β) (acc : List (List Char × List β)) (h : k ∉ acc.map (·.1)) :
    dictAppend k v acc = acc ++ [(k, v)] := by
  induction acc with
  | nil => rfl
  | cons a t ih =>
    have h1 : a.1 ≠ k := fun e => h (by simp [e])
    have h2 : k ∉ t.map (·.1) := fun m => h (by simp [m])
    obtain ⟨a1, a2⟩ := a
    simp only [dictAppend, List.cons_append]
    rw [if_neg h1, ih h2]

theorem natDictSet_fresh {β} (k : Nat) (v : β) (acc : List (Nat × β)) (h : k ∉ acc.map (·.1)) :
    natDictSet k v acc = acc ++ [(k, v)] := by
  induction acc with
  | nil => rfl
  | cons a t ih =>
    have h1 : a.1 ≠ k := fun e => h (by simp [e])
    have h2 : k ∉ t.map (·.1) := fun m => h (by simp [m])
    obtain ⟨a1, a2⟩ := a
    simp only [natDictSet, List.cons_append]
    rw [if_neg h1, ih h2]

theorem dictSet_fresh {β} (k : List Char) (v : β) (acc : List (List Char × β)) (h : k ∉ acc.map (·.1)) :
    dictSet k v acc = acc ++ [(k, v)] := by
  induction acc with
  | nil => rfl
  | cons a t ih =>
    have h1 : a.1 ≠ k := fun e => h (by simp [e])
    have h2 : k ∉ t.map (·.1) := fun m => h (by simp [m])
    obtain ⟨a1, a2⟩ := a
    simp only [dictSet, List.cons_append]
    rw [if_neg h1, ih h2]

theorem dictOfList_nodup {β} (l : List (List Char × β)) (h : (l.map (·.1)).Nodup) : dictOfList l = l := by
  have := foldl_ins_nodup (fun k v d => dictSet k v d) (fun k v acc hk => dictSet_fresh k v acc hk) l [] (by simpa using h)
  simpa [dictOfList] using this

theorem sortByKey_of_pairwise {β} (l : List (Nat × β)) (h : (l.map (·.1)).Pairwise (· < ·)) : sortByKey l = l := by
  induction l with
  | nil => rfl
  | cons x t ih =>
    rw [List.map_cons, List.pairwise_cons] at h
    have : sortByKey (x :: t) = insertByKey x (sortByKey t) := rfl
    rw [this, ih h.2]
    cases t with
    | nil => rfl
    | cons y u =>
      have hxy : x.1 ≤ y.1 := Nat.le_of_lt (h.1 y.1 (by simp))
      simp [insertByKey, hxy]

/-! ### `!NODE` -/
theorem readNodes_file (m : MshIn) (hwf : WF m) : readNodes (fileBlocks m) = some (canonNodes m) := by
  unfold readNodes extractData
  rw [sel_node m hwf]
  simp only [List.flatMap_cons, List.flatMap_nil, List.append_nil]
  have hne : (m.nodes.map nodeLine).isEmpty = false := by
    cases hn : m.nodes with
    | nil => exact absurd hn hwf.nodes_ne
    | cons a t => rfl
  rw [hne]
  simp only [Bool.false_eq_true, if_false]
  rw [mapM_map_of_forall_mem nodeLine _ (fun r => (r.1, r.2.map (Sci.toDec 12))) m.nodes]
  · rfl
  · intro r hr
    rw [parseRowF_nodeLine]
    simp only [Option.map_some]
    rw [List.take_of_length_le (by simp [hwf.coords r hr])]

/-! ### `!ELEMENT` -/
def wrows (b : Nat × List (Nat × List Nat)) : List (Nat × List Nat) := b.2.map (permW b.1)

theorem capType_file (m : MshIn) (hwf : WF m) :
    (m.blocks.map elemBlk).mapM G4.capType = some (m.blocks.map fun b => showNat (wcode b.1)) :=
  mapM_map_of_forall_mem elemBlk G4.capType _ m.blocks
    (fun b hb => (elemHdr_facts_dec b.1 (hwf.blocks_ok b hb).1).2.1)

theorem codeToType_file (m : MshIn) (hwf : WF m) : ∀ b ∈ m.blocks, codeToType (showNat (wcode b.1)) = some b.1 :=
  fun b hb => (elemHdr_facts_dec b.1 (hwf.blocks_ok b hb).1).2.2.2

theorem reorderPrism_wrows (b : Nat × List (Nat × List Nat)) (h6 : b.1 = 12 → ∀ r ∈ b.2, r.2.length = 6) :
    reorderPrism (b.1, wrows b) = some b := by
  obtain ⟨t, rows⟩ := b
  simp only at h6
  unfold reorderPrism wrows
  by_cases ht : t = 12
  · subst ht
    simp only [if_true]
    have : ∀ rs : List (Nat × List Nat), (∀ r ∈ rs, r.2.length = 6) →
        (rs.map (permW 12)).mapM (fun r => (permute prismPermRead r.2).map fun c => (r.1, c)) = some rs := by
      intro rs hrs
      induction rs with
      | nil => rfl
      | cons r u ih =>
        obtain ⟨w, hw, -, hr⟩ := permute_six r.2 (hrs r (by simp))
        simp [List.mapM_cons, permW, hw, hr, ih (fun x hx => hrs x (List.mem_cons_of_mem _ hx))] 
    rw [this rows (h6 rfl)]
    rfl
  · have : rows.map (permW t) = rows := by
      rw [List.map_congr_left (g := id) (fun r _ => by simp [permW, ht])]; simp
    simp [ht, this]

theorem mapM_reorderPrism_file (bs : List (Nat × List (Nat × List Nat)))
    (h6 : ∀ b ∈ bs, b.1 = 12 → ∀ r ∈ b.2, r.2.length = 6) :
    (bs.map fun b => (b.1, wrows b)).mapM reorderPrism = some bs := by
  have := mapM_map_of_forall_mem (fun b : Nat × List (Nat × List Nat) => (b.1, wrows b)) reorderPrism id bs
    (fun b hb => reorderPrism_wrows b (h6 b hb))
  simpa using this

theorem perBlock_file (b : Nat × List (Nat × List Nat)) (hne : b.2 ≠ []) : G4.perBlock (elemBlk b) = some (wrows b) := by
  unfold G4.perBlock elemBlk wrows
  have hemp : ((b.2.map (permW b.1)).map elemLine).isEmpty = false := by
    cases hb : b.2 with
    | nil => exact absurd hb hne
    | cons a t => rfl
  simp only [hemp, Bool.false_eq_true, if_false]
  have := mapM_map_of_forall elemLine (fun l => (parseRowI l).bind headTail) id
    (fun r => by unfold elemLine; rw [parseRowI_natRow _ (by simp)]; rfl) (b.2.map (permW b.1))
  simpa using this

theorem uniform_rows (b : Nat × List (Nat × List Nat)) :
    ((wrows b).map elemLine).mapM (parseRowF parseNatTok) = some (wrows b) := by
  simpa using mapM_map_of_forall elemLine (parseRowF parseNatTok) id parseRowF_elemLine (wrows b)

theorem codes_nodup (bs : List (Nat × List (Nat × List Nat)))
    (hctt : ∀ b ∈ bs, codeToType (showNat (wcode b.1)) = some b.1) (hasc : (bs.map (·.1)).Pairwise (· < ·)) :
    (bs.map fun b => showNat (wcode b.1)).Nodup := by
  have hnd : (bs.map (·.1)).Nodup := hasc.imp (fun h => Nat.ne_of_lt h)
  have : (bs.map fun b => showNat (wcode b.1)) = (bs.map (·.1)).map (fun t => showNat (wcode t)) := by
    rw [List.map_map]; rfl
  rw [this]
  refine List.Nodup.map_on ?_ hnd
  intro x hx y hy hxy
  obtain ⟨bx, hbx, rfl⟩ := List.mem_map.mp hx
  obtain ⟨by', hby, rfl⟩ := List.mem_map.mp hy
  have h1 := hctt bx hbx
  have h2 := hctt by' hby
  have hxy' : showNat (wcode bx.1) = showNat (wcode by'.1) := hxy
  rw [hxy', h2] at h1
  exact (Option.some.inj h1).symm

theorem mixedRaw_file (bs : List (Nat × List (Nat × List Nat)))
    (hctt : ∀ b ∈ bs, codeToType (showNat (wcode b.1)) = some b.1) (hok : ∀ b ∈ bs, b.2 ≠ [])
    (hasc : (bs.map (·.1)).Pairwise (· < ·)) :
    G4.mixedRaw (bs.map elemBlk) (bs.map fun b => showNat (wcode b.1)) = some (bs.map fun b => (b.1, wrows b)) := by
  unfold G4.mixedRaw
  rw [mapM_map_of_forall_mem elemBlk G4.perBlock wrows bs (fun b hb => perBlock_file b (hok b hb))]
  simp only [Option.bind_eq_bind, Option.bind_some]
  have hzip : (bs.map fun b => showNat (wcode b.1)).zip (bs.map wrows) = bs.map fun b => (showNat (wcode b.1), wrows b) := by
    rw [List.zip_map']
  have hby : G4.byCodeOf (bs.map fun b => showNat (wcode b.1)) (bs.map wrows) =
      bs.map fun b => (showNat (wcode b.1), wrows b) := by
    unfold G4.byCodeOf
    rw [hzip]
    have := foldl_ins_nodup (fun k v d => dictAppend k v d) (fun k v acc hk => dictAppend_fresh k v acc hk)
      (bs.map fun b => (showNat (wcode b.1), wrows b)) [] (by
        simpa [List.map_map, Function.comp_def] using codes_nodup bs hctt hasc)
    simpa using this
  rw [hby]
  have htyped : (bs.map fun b => (showNat (wcode b.1), wrows b)).mapM
      (fun p => (codeToType p.1).map fun ty => (ty, p.2)) = some (bs.map fun b => (b.1, wrows b)) :=
    mapM_map_of_forall_mem _ _ _ bs (fun b hb => by simp [hctt b hb])
  rw [htyped]
  simp only [Option.bind_some, Option.pure_def]
  have hnd : (bs.map (·.1)).Nodup := hasc.imp (fun h => Nat.ne_of_lt h)
  have hfold := foldl_ins_nodup (fun k v d => natDictSet k v d) (fun k v acc hk => natDictSet_fresh k v acc hk)
      (bs.map fun b => (b.1, wrows b)) [] (by simpa [List.map_map, Function.comp_def] using hnd)
  simp only [List.nil_append] at hfold
  rw [hfold, sortByKey_of_pairwise _ (by simpa [List.map_map, Function.comp_def] using hasc)]

theorem elemsOf_file (m : MshIn) (hwf : WF m) : G4.elemsOf (m.blocks.map elemBlk) = some m.blocks := by
  unfold G4.elemsOf
  rw [capType_file m hwf]
  simp only [Option.bind_some]
  have hctt := codeToType_file m hwf
  have h6 := hwf.prism
  have hok := hwf.blocks_ok
  have hasc := hwf.types_asc
  have hbne := hwf.blocks_ne
  generalize m.blocks = bs at hctt h6 hok hasc hbne
  match bs, hctt, h6, hok, hasc, hbne with
  | [], _, _, _, _, hbne => exact absurd rfl hbne
  | [b0], hctt, h6, hok, _, _ =>
    have hne : (wrows b0).isEmpty = false := by
      have := (hok b0 (by simp)).2
      cases hb : b0.2 with
      | nil => exact absurd hb this
      | cons a t => simp [wrows, hb]
    simp only [G4.rawOf, List.map_cons, List.map_nil, List.all_cons, List.all_nil, beq_self_eq_true, Bool.and_true,
      if_true, G4.uniformRaw, hctt b0 (by simp), elemBlk, List.flatMap_cons, List.flatMap_nil, List.append_nil]
    have hu := uniform_rows b0
    unfold wrows at hu hne
    simp only [Option.bind_eq_bind, Option.bind_some, hu, hne, Bool.false_eq_true, if_false, Option.pure_def]
    have := mapM_reorderPrism_file [b0] (fun b hb => h6 b hb)
    simpa [wrows] using this
  | b0 :: b1 :: rest, hctt, h6, hok, hasc, _ =>
    have hmix := mixedRaw_file (b0 :: b1 :: rest) hctt (fun b hb => (hok b hb).2) hasc
    have hne : showNat (wcode b1.1) ≠ showNat (wcode b0.1) := by
      intro e
      have h0 := hctt b0 (by simp)
      have h1 := hctt b1 (by simp)
      rw [e, h0] at h1
      have hlt : b0.1 < b1.1 := by
        simp only [List.map_cons, List.pairwise_cons] at hasc
        exact hasc.1 b1.1 (by simp)
      have := Option.some.inj h1
      omega
    have hall : ((b0 :: b1 :: rest).map fun b => showNat (wcode b.1)).all (· == showNat (wcode b0.1)) = false := by
      simp [hne]
    simp only [List.map_cons] at hall hmix ⊢
    simp only [G4.rawOf, hall, Bool.false_eq_true, if_false, hmix, Option.bind_some]
    exact mapM_reorderPrism_file (b0 :: b1 :: rest) h6

theorem readElements_file (m : MshIn) (hwf : WF m) : readElements (fileBlocks m) = some m.blocks := by
  rw [G4.readElements_eq, sel_elem m hwf, elemsOf_file m hwf]

theorem egrp_guard_file (m : MshIn) (hwf : WF m) :
    (blocksOf c!"!ELEMENT" (fileBlocks m)).any (fun b => (capture c!"EGRP=" b.1).isSome) = false := by
  rw [sel_elem m hwf, List.any_eq_false]
  intro b hb
  obtain ⟨e, he, rfl⟩ := List.mem_map.mp hb
  simp [elemBlk, (elemHdr_facts_dec e.1 (hwf.blocks_ok e he).1).2.2.1]

/-! ### groups -/
theorem readGroups_ng_file (m : MshIn) (hwf : WF m) (all : List Nat) :
    readGroups false c!"!NGROUP" c!"NGRP=" all (fileBlocks m) = some [(c!"ALL", all)] := by
  unfold readGroups
  rw [sel_ng m hwf]
  rfl

theorem group_vals (g : Name × List Nat) (hne : g.2 ≠ []) :
    (if (grpBlk t g).2.isEmpty then none else ((grpBlk t g).2.mapM parseRowI).map List.flatten) = some g.2 := by
  have hemp : (g.2.map showNat).isEmpty = false := by
    cases hg : g.2 with
    | nil => exact absurd hg hne
    | cons a u => rfl
  simp only [grpBlk, hemp, Bool.false_eq_true, if_false]
  rw [mapM_map_of_forall showNat parseRowI (fun e => [e]) (fun e => parseRowI_natRow [e] (by simp))]
  simp [List.flatten_eq_flatMap, List.flatMap_map]

theorem readGroups_eg_file (m : MshIn) (hwf : WF m) (all : List Nat) :
    readGroups false c!"!EGROUP" c!"EGRP=" all (fileBlocks m) = some ((c!"ALL", all) :: m.groups) := by
  unfold readGroups
  rw [sel_eg m hwf]
  have hnames : (m.groups.map (grpBlk (tightGroups m))).mapM (fun b => capture c!"EGRP=" b.1) = some (m.groups.map (·.1)) :=
    mapM_map_of_forall_mem _ _ _ m.groups (fun g hg => grpHdr_capture _ g.1 (hwf.groups_ok g hg).2.2)
  have hvals : (m.groups.map (grpBlk (tightGroups m))).mapM
      (fun b => if b.2.isEmpty then none else (b.2.mapM parseRowI).map List.flatten) = some (m.groups.map (·.2)) :=
    mapM_map_of_forall_mem _ _ _ m.groups (fun g hg => group_vals g (hwf.groups_ok g hg).1)
  simp only [Option.bind_eq_bind, hnames, hvals, Option.bind_some, Bool.false_eq_true, if_false, Option.pure_def]
  have hz : (m.groups.map (·.1)).zip (m.groups.map (·.2)) = m.groups := by
    rw [List.zip_map']; simp
  rw [hz, dictOfList_nodup]
  simp only [List.map_cons, List.nodup_cons]
  refine ⟨?_, hwf.group_names⟩
  intro hmem
  obtain ⟨g, hg, hname⟩ := List.mem_map.mp hmem
  exact (hwf.groups_ok g hg).2.1 hname

/-! ### `!SECTION` / `!MATERIAL` -/
theorem readSections_file (m : MshIn) (hwf : WF m) :
    readSections (fileBlocks m) = some (m.sec.toList.map fun s => (s.mat, secType s, s.egrp)) := by
  unfold readSections
  rw [sel_sec m hwf]
  cases hs : m.sec with
  | none => rfl
  | some s =>
    obtain ⟨h1, h2, h3⟩ := secHdr_capture s (hwf.sec_ok s hs).1 (hwf.sec_ok s hs).2
    simp [List.mapM_cons, h1, h2, h3]

theorem matLine_split (s : SecIn) : splitOn ',' (matLine s) = [renderSci 8 s.young, renderSci 8 s.poisson] := by
  have h : matLine s = joinSep ',' [renderSci 8 s.young, renderSci 8 s.poisson] := rfl
  rw [h, split_join ',' _ (by simp) (by
    intro f hf
    simp only [List.mem_cons, List.not_mem_nil, or_false] at hf
    rcases hf with rfl | rfl <;> exact renderSci_no_comma 8 _)]

theorem readMaterials_file (m : MshIn) (hwf : WF m) (nElem : Nat) :
    readMaterials nElem (fileBlocks m) =
      some (m.sec.toList.map fun s => (s.mat, [s.young.toDec 8, s.poisson.toDec 8])) := by
  unfold readMaterials
  rw [sel_mat m hwf, sel_item m hwf]
  cases hs : m.sec with
  | none => rfl
  | some s =>
    obtain ⟨h1, h2⟩ := matHdr_capture s (hwf.sec_ok s hs).2
    have hp : parseNat ['1'] = some 1 := by decide
    simp only [Option.toList_some, List.map_cons, List.map_nil, h2, Option.bind_eq_bind, Option.bind_some, hp,
      ne_eq, not_true_eq_false, if_false, List.mapM_cons, List.mapM_nil, h1, Option.pure_def, List.length_cons,
      List.length_nil, List.flatMap_cons, List.flatMap_nil, List.append_nil, List.isEmpty_cons, Bool.and_false,
      Nat.zero_add, matLine_split, parseDec_renderSci, Bool.false_eq_true, and_false]
    split <;> simp

/-! ### `!INITIAL CONDITION` -/
theorem extendAssignments_temp (ng : List (Name × List Nat)) (t : List (Nat × Sci)) :
    extendAssignments ng (t.map tempLine) = some (t.map tempLine) := by
  unfold extendAssignments
  have : (t.map tempLine).filter (startsWithP isAlpha) = [] := by
    rw [List.filter_eq_nil_iff]
    intro l hl
    obtain ⟨r, _, rfl⟩ := List.mem_map.mp hl
    have : tempLine r = showNat r.1 ++ ',' :: renderSci 12 r.2 := rfl
    rw [this, startsWith_alpha_showNat]; simp
  simp [this]

theorem readInitial_file (m : MshIn) (hwf : WF m) (ng : List (Name × List Nat)) :
    readInitial ng (m.nodes.map (·.1)) (fileBlocks m) = some (canonTemp m) := by
  unfold readInitial canonTemp
  rw [sel_init m hwf]
  cases ht : m.temp with
  | none => rfl
  | some t =>
    have hids := hwf.temp_ok t ht
    have hlen : t.length = m.nodes.length := by simpa using congrArg List.length hids
    have hne : (t.map fun r : Nat × Sci => (r.1, [r.2.toDec 12])).isEmpty = false := by
      cases htt : t with
      | nil => rw [htt] at hlen; exact absurd (List.length_eq_zero_iff.mp hlen.symm) hwf.nodes_ne
      | cons a u => rfl
    have hrows : (t.map tempLine).mapM (parseRowF parseDec) = some (t.map fun r => (r.1, [r.2.toDec 12])) :=
      mapM_map_of_forall tempLine (parseRowF parseDec) _ parseRowF_tempLine t
    have hne' : (t.map tempLine).isEmpty = false := by
      cases htt : t with
      | nil => rw [htt] at hne; exact hne
      | cons a u => rfl
    simp only [Option.toList_some, List.map_cons, List.map_nil, List.mapM_cons, List.mapM_nil, const_keys.2.2.2.2.2,
      Option.bind_eq_bind, Option.bind_some, Option.pure_def, tempBlk, extendAssignments_temp, hne', hrows,
      Bool.false_eq_true, if_false, List.zip_cons_cons, List.zip_nil_right, dictOfList, List.foldl_cons, List.foldl_nil,
      dictSet, lookupS, if_true, List.length_map, hlen]

end Femio.Fistr.RT

namespace Femio.C01
open Femio.Fistr Femio.Fistr.RT Femio.Gen Numeral

theorem canonNodes_ids (m : MshIn) : (canonNodes m).map (·.1) = m.nodes.map (·.1) := by
  simp [canonNodes, List.map_map, Function.comp_def]

theorem canonTemp_aligned (m : MshIn) (hwf : WF m) : ∀ p ∈ canonTemp m, p.2.map (·.1) = (canonNodes m).map (·.1) := by
  intro p hp
  simp only [canonTemp, List.mem_map, Option.mem_toList] at hp
  obtain ⟨t, ht, rfl⟩ := hp
  rw [canonNodes_ids, ← hwf.temp_ok t ht]
  simp [List.map_map, Function.comp_def]

theorem removeUseless_file (m : MshIn) (hwf : WF m) :
    removeUseless (canonNodes m) m.blocks (canonTemp m) = some ((canon m).nodes, (canon m).nodal) := by
  have := RU.removeUseless_spec (canonNodes m) m.blocks (canonTemp m)
    (by rw [canonNodes_ids]; exact hwf.node_ids)
    (by rw [canonNodes_ids]; exact hwf.refs)
    (canonTemp_aligned m hwf)
  rw [this]
  have hl : (canonNodes m).length = m.nodes.length := by simp [canonNodes]
  have hr : RU.refs m.blocks = referenced m := rfl
  rw [hl, hr]
  unfold canon
  split <;> rfl

/-- the reader on the blocks of the written file -/
theorem readBlocks_file (m : MshIn) (hwf : WF m) : readBlocks false (fileBlocks m) = some (canon m) := by
  unfold readBlocks
  rw [readNodes_file m hwf, readElements_file m hwf]
  simp only [Option.bind_eq_bind, Option.bind_some, egrp_guard_file m hwf, Bool.false_eq_true, if_false,
    canonNodes_ids, readGroups_ng_file m hwf, readGroups_eg_file m hwf, readMaterials_file m hwf, readSections_file m hwf,
    readInitial_file m hwf, removeUseless_file m hwf, Option.pure_def]
  rfl

theorem readMsh_writeMsh (m : MshIn) (hwf : WF m) : (writeMsh m).bind readMsh = some (canon m) := by
  rw [writeMsh_eq m hwf]
  simp only [Option.bind_some, readMsh]
  rw [toBlocks_file m hwf, readBlocks_file m hwf]

theorem mem_tempRows (t : List (Nat × Sci)) (i : Nat) (v : Dec) :
    (i, [v]) ∈ t.map (fun r => (r.1, [r.2.toDec 12])) ↔ ∃ s, (i, s) ∈ t ∧ v = s.toDec 12 := by
  simp only [List.mem_map, Prod.mk.injEq, List.cons.injEq, and_true, Prod.exists]
  constructor
  · rintro ⟨a, b, hab, rfl, rfl⟩; exact ⟨b, hab, rfl⟩
  · rintro ⟨s, hs, rfl⟩; exact ⟨i, s, hs, rfl, rfl⟩

end Femio.C01
