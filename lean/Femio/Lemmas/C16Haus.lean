import Femio.Model.Search
import Femio.Lemmas.C16Knn
import Femio.Lemmas.C16Term

/-! Directed Hausdorff distance (squared) of `_calc_directed_hausdorff_nodes` (C16). -/
namespace Femio.C16

/-- `m` is the squared distance from `a` to the nearest of the targets `ptB 0 .. ptB (nB-1)` -/
def IsMinDist2 (ptB : Nat → P3) (nB : Nat) (a : P3) (m : Rat) : Prop :=
  (∃ j, j < nB ∧ dist2 a (ptB j) = m) ∧ ∀ j, j < nB → m ≤ dist2 a (ptB j)

/-- `h` is the squared directed Hausdorff distance `max_i min_j |A_i - B_j|^2` -/
def IsHausdorff2 (ptA ptB : Nat → P3) (nA nB : Nat) (h : Rat) : Prop :=
  (∃ i, i < nA ∧ IsMinDist2 ptB nB (ptA i) h) ∧ ∀ i, i < nA → ∃ m, IsMinDist2 ptB nB (ptA i) m ∧ m ≤ h

/-! ### 1. geometry of the two upper bounds -/

theorem sq_le_sq_of_abs (u e : Rat) (h1 : -e ≤ u) (h2 : u ≤ e) : sq u ≤ sq e := by
  unfold sq; nlinarith

theorem sq_le_maxabs (lo hi v t : Rat) (h1 : lo ≤ t) (h2 : t ≤ hi) :
    sq (v - t) ≤ sq (maxR (absR (lo - v)) (absR (hi - v))) := by
  apply sq_le_sq_of_abs <;> unfold maxR absR <;> split_ifs <;> linarith

/-- **C16_ub_sound (point–box)**: no point of the box is farther from `q` than `hi2` -/
theorem hi2_ge (b : Box) (q p : P3) (h : inBox b p = true) : dist2 q p ≤ hi2 b q := by
  rw [inBox_iff] at h
  obtain ⟨⟨hx1, hx2⟩, ⟨hy1, hy2⟩, ⟨hz1, hz2⟩⟩ := h
  unfold hi2 dist2
  have := sq_le_maxabs _ _ q.x p.x hx1 hx2
  have := sq_le_maxabs _ _ q.y p.y hy1 hy2
  have := sq_le_maxabs _ _ q.z p.z hz1 hz2
  linarith

theorem sq_le_ub (ca wa cb wb pa pb : Rat) (h1 : ca - wa ≤ pa) (h2 : pa ≤ ca + wa)
    (h3 : cb - wb ≤ pb) (h4 : pb ≤ cb + wb) : sq (pa - pb) ≤ sq (absR (ca - cb) + (wa + wb)) := by
  apply sq_le_sq_of_abs <;> unfold absR <;> split_ifs <;> linarith

/-- **C16_ub_sound (box–box)**: no point of box `a` is farther from any point of box `b` than `ubNode2` -/
theorem ubNode2_ge (a b : Box) (pa pb : P3) (ha : inBox a pa = true) (hb : inBox b pb = true)
    (_hwa : 0 ≤ a.w) (_hwb : 0 ≤ b.w) : dist2 pa pb ≤ ubNode2 a b := by
  rw [inBox_iff] at ha hb
  obtain ⟨⟨ax1, ax2⟩, ⟨ay1, ay2⟩, ⟨az1, az2⟩⟩ := ha
  obtain ⟨⟨bx1, bx2⟩, ⟨by1, by2⟩, ⟨bz1, bz2⟩⟩ := hb
  simp only [ubNode2, dist2]
  have := sq_le_ub _ _ _ _ _ _ ax1 ax2 bx1 bx2
  have := sq_le_ub _ _ _ _ _ _ ay1 ay2 by1 by2
  have := sq_le_ub _ _ _ _ _ _ az1 az2 bz1 bz2
  linarith

theorem sq_nonneg' (a : Rat) : 0 ≤ sq a := by unfold sq; nlinarith [mul_self_nonneg a]

theorem dist2_nonneg (p q : P3) : 0 ≤ dist2 p q := by
  unfold dist2
  have := sq_nonneg' (p.x - q.x); have := sq_nonneg' (p.y - q.y); have := sq_nonneg' (p.z - q.z)
  linarith

theorem le_maxR_left (a b : Rat) : a ≤ maxR a b := by unfold maxR; split_ifs <;> linarith
theorem le_maxR_right (a b : Rat) : b ≤ maxR a b := by unfold maxR; split_ifs <;> linarith
theorem maxR_cases (a b : Rat) : maxR a b = a ∨ maxR a b = b := by unfold maxR; split_ifs <;> simp
theorem maxR_of_le (a b : Rat) (h : b ≤ a) : maxR a b = a := by unfold maxR; split_ifs <;> linarith

/-! ### min-distances exist, are unique and non-negative -/

theorem minDist_nonneg {ptB : Nat → P3} {nB : Nat} {a : P3} {m : Rat} (h : IsMinDist2 ptB nB a m) : 0 ≤ m := by
  obtain ⟨⟨j, _, rfl⟩, _⟩ := h
  exact dist2_nonneg _ _

theorem minDist_unique {ptB : Nat → P3} {nB : Nat} {a : P3} {m m' : Rat}
    (h : IsMinDist2 ptB nB a m) (h' : IsMinDist2 ptB nB a m') : m = m' := by
  obtain ⟨⟨j, hj, rfl⟩, hmin⟩ := h
  obtain ⟨⟨j', hj', rfl⟩, hmin'⟩ := h'
  exact le_antisymm (hmin j' hj') (hmin' j hj)

theorem exists_minDist (ptB : Nat → P3) (nB : Nat) (hnB : 0 < nB) (a : P3) : ∃ m, IsMinDist2 ptB nB a m := by
  obtain ⟨n, rfl⟩ : ∃ n, nB = n + 1 := ⟨nB - 1, by omega⟩
  clear hnB
  induction n with
  | zero =>
    refine ⟨dist2 a (ptB 0), ⟨0, by omega, rfl⟩, ?_⟩
    intro j hj
    have : j = 0 := by omega
    subst this; exact le_refl _
  | succ n ih =>
    obtain ⟨m, ⟨j0, hj0, hm⟩, hmin⟩ := ih
    by_cases hlt : dist2 a (ptB (n + 1)) < m
    · refine ⟨dist2 a (ptB (n + 1)), ⟨n + 1, by omega, rfl⟩, ?_⟩
      intro j hj
      by_cases hjn : j = n + 1
      · subst hjn; exact le_refl _
      · have := hmin j (by omega); linarith
    · refine ⟨m, ⟨j0, by omega, hm⟩, ?_⟩
      intro j hj
      by_cases hjn : j = n + 1
      · subst hjn; linarith
      · exact hmin j (by omega)

/-! ### 2. non-emptiness invariant of the built trees -/

def NE : Oct → Prop
  | .empty => True
  | .leaf _ => True
  | .node kids => ∀ r : Fin 8, NE (kids r) ∧ ((kids r).isEmpty = false → (kids r).idxs ≠ [])

theorem NE_build (pt : Nat → P3) (d : Nat) (b : Box) (is : List Nat) : NE (build pt d b is) := by
  induction d generalizing b is with
  | zero => trivial
  | succ d ih =>
    intro r
    simp only []
    split
    · exact ⟨trivial, by simp [Oct.isEmpty]⟩
    · rename_i hne
      refine ⟨ih _ _, fun _ hnil => ?_⟩
      have hp := build_idxs_perm pt d (child b r.val) (is.filter fun i => pick b (pt i) = r.val)
      rw [hnil] at hp
      have := hp.nil_eq
      rw [← this] at hne
      simp at hne

/-- a queued subtree is usable: well boxed, all indices are targets, and it holds at least one target -/
def Good (pt : Nat → P3) (n : Nat) (bt : Box × Oct) : Prop :=
  0 ≤ bt.1.w ∧ WB pt bt.1 bt.2 ∧ NE bt.2 ∧ (∀ j ∈ bt.2.idxs, j < n) ∧ bt.2.idxs ≠ []

theorem Good_kids (pt : Nat → P3) (n : Nat) (b : Box) (t : Oct) (kids : List (Box × Oct))
    (h : Good pt n (b, t)) (hk : kidList b t = some kids) : ∀ bt ∈ kids, Good pt n bt := by
  obtain ⟨hw, hWB, hNE, hlt, hne⟩ := h
  cases t with
  | empty => simp [Oct.idxs] at hne
  | leaf is => simp [kidList] at hk
  | node ks =>
    simp only [kidList, Option.some.injEq] at hk
    subst hk
    intro bt hbt
    simp only [List.mem_filter, List.mem_map] at hbt
    obtain ⟨⟨r, _, rfl⟩, hnon⟩ := hbt
    refine ⟨child_w_nonneg b _ hw, hWB r, (hNE r).1, ?_, (hNE r).2 (by simpa using hnon)⟩
    intro j hj
    apply hlt
    simp only [Oct.idxs, List.mem_flatMap]
    exact ⟨r, List.mem_finRange r, hj⟩

theorem Good_target (pt : Nat → P3) (n : Nat) (bt : Box × Oct) (h : Good pt n bt) :
    ∃ j, j < n ∧ inBox bt.1 (pt j) = true := by
  obtain ⟨hw, hWB, _, hlt, hne⟩ := h
  obtain ⟨j, hj⟩ := List.exists_mem_of_ne_nil _ hne
  exact ⟨j, hlt j hj, WB_idxs pt _ _ hw hWB j hj⟩

theorem Good_root (pt : Nat → P3) (n : Nat) (root : Box) (t : Oct) (hw : 0 ≤ root.w) (hWB : WB pt root t)
    (hNE : NE t) (hperm : t.idxs.Perm (List.range n)) (hn : 0 < n) : Good pt n (root, t) := by
  refine ⟨hw, hWB, hNE, fun j hj => List.mem_range.mp (hperm.subset hj), fun hnil => ?_⟩
  have := hperm.length_eq
  simp only [hnil, List.length_nil, List.length_range] at this
  omega

/-- a property of queued subtrees inherited by the listed children holds for the whole queue after a step -/
theorem step_queue_all (P : Box × Oct → Prop)
    (hP : ∀ b t kids, P (b, t) → kidList b t = some kids → ∀ bt ∈ kids, P bt)
    (pt : Nat → P3) (k : Nat) (bound : Option Rat) (q : P3) (s : CSt) (h : ∀ e ∈ s.queue, P e.2) :
    ∀ e ∈ (step pt k bound q s).queue, P e.2 := by
  obtain ⟨queue, res⟩ := s
  cases queue with
  | nil => exact h
  | cons e0 rest =>
    obtain ⟨d, b, t⟩ := e0
    have hrest : ∀ e ∈ rest, P e.2 := fun e he => h e (List.mem_cons_of_mem _ he)
    have h0 : P (b, t) := h (d, (b, t)) (by simp)
    simp only [step]
    split
    · exact hrest
    · cases hkl : kidList b t with
      | some kids =>
        simp only []
        intro e he
        rcases List.mem_append.mp ((foldr_insQ_perm q kids rest).subset he) with he | he
        · simp only [List.mem_map] at he
          obtain ⟨bt, hbt, rfl⟩ := he
          exact hP b t kids h0 hkl bt hbt
        · exact hrest e he
      | none => exact hrest

/-! ### 3. `calc_frm`: nearest target with the early exit -/

theorem exitNow_spec (HD : Rat) (q : P3) (s : CSt) (h : exitNow HD q s = true) :
    ∃ d b t rest kids bt, s.queue = (d, (b, t)) :: rest ∧ kidList b t = some kids ∧ bt ∈ kids ∧ hi2 bt.1 q ≤ HD := by
  obtain ⟨queue, res⟩ := s
  cases queue with
  | nil => simp [exitNow] at h
  | cons e rest =>
    obtain ⟨d, b, t⟩ := e
    simp only [exitNow] at h
    split at h
    · simp at h
    · cases hkl : kidList b t with
      | none => simp [hkl] at h
      | some kids =>
        simp only [hkl, List.any_eq_true, decide_eq_true_eq] at h
        obtain ⟨bt, hbt, hle⟩ := h
        exact ⟨d, b, t, rest, kids, bt, rfl, hkl, hbt, hle⟩

structure NInv (ptB : Nat → P3) (nB : Nat) (HD : Rat) (q : P3) (all : List Key) (h : HSt) : Prop where
  run : h.exit = false → Sim ptB q none 1 all h.s ∧ ∀ e ∈ h.s.queue, Good ptB nB e.2
  ex : h.exit = true → ∃ j, j < nB ∧ dist2 q (ptB j) ≤ HD

theorem ninv_step (ptB : Nat → P3) (nB : Nat) (HD : Rat) (q : P3) (all : List Key) (h : HSt)
    (hI : NInv ptB nB HD q all h) : NInv ptB nB HD q all (nnStep ptB HD q h) := by
  by_cases he : h.exit = true
  · rw [nnStep_exit ptB HD q h he]; exact hI
  · have he' : h.exit = false := by simpa using he
    obtain ⟨hsim, hgood⟩ := hI.run he'
    by_cases hx : exitNow HD q h.s = true
    · have hs : nnStep ptB HD q h = ⟨h.s, true⟩ := by simp [nnStep, he, hx]
      rw [hs]
      refine ⟨fun hc => by simp at hc, fun _ => ?_⟩
      obtain ⟨d, b, t, rest, kids, bt, hq, hkl, hbt, hle⟩ := exitNow_spec HD q h.s hx
      have hg : Good ptB nB (b, t) := hgood (d, (b, t)) (by rw [hq]; simp)
      obtain ⟨j, hj, hin⟩ := Good_target ptB nB bt (Good_kids ptB nB b t kids hg hkl bt hbt)
      exact ⟨j, hj, le_trans (hi2_ge bt.1 q (ptB j) hin) hle⟩
    · have hs : nnStep ptB HD q h = ⟨step ptB 1 none q h.s, false⟩ := by simp [nnStep, he, hx]
      rw [hs]
      refine ⟨fun _ => ⟨sim_step ptB q none 1 all h.s hsim, ?_⟩, fun hc => by simp at hc⟩
      exact step_queue_all (Good ptB nB) (fun b t kids hg hk => Good_kids ptB nB b t kids hg hk) ptB 1 none q h.s hgood

theorem ninv_iter (ptB : Nat → P3) (nB : Nat) (HD : Rat) (q : P3) (all : List Key) (n : Nat) (h : HSt)
    (hI : NInv ptB nB HD q all h) : NInv ptB nB HD q all (iter (nnStep ptB HD q) n h) := by
  induction n generalizing h with
  | zero => exact hI
  | succ n ih => exact ih _ (ninv_step ptB nB HD q all h hI)

theorem isBest_one {S r : List Key} (h : IsBest 1 S r) (hS : S ≠ []) :
    ∃ x, r = [x] ∧ x ∈ S ∧ ∀ y ∈ S, x ≤ y := by
  obtain ⟨_, hl, rest, hperm, hrest⟩ := h
  have hpos : 0 < S.length := List.length_pos_iff.mpr hS
  have h1 : r.length = 1 := by rw [hl]; omega
  obtain ⟨x, rfl⟩ := List.length_eq_one_iff.mp h1
  refine ⟨x, rfl, hperm.symm.subset (by simp), ?_⟩
  intro y hy
  rcases List.mem_append.mp (hperm.subset hy) with hy | hy
  · simp at hy; subst hy; exact le_refl _
  · exact hrest y hy x (by simp)

theorem mem_admKeys_none (pt : Nat → P3) (q : P3) (is : List Nat) (x : Key) :
    x ∈ admKeys pt q none is ↔ ∃ i ∈ is, x = ⟨dist2 q (pt i), i⟩ := by
  simp only [admKeys, keysOf, exceeds, List.mem_filter, List.mem_map]
  constructor
  · rintro ⟨⟨i, hi, rfl⟩, _⟩; exact ⟨i, hi, rfl⟩
  · rintro ⟨i, hi, rfl⟩; exact ⟨⟨i, hi, rfl⟩, by simp⟩

/-- **`calc_frm`**: the value returned for the query `q`, capped from below by `HD`, is the true squared
    nearest-target distance capped by `HD` (the early exit returns `0` only when the true value is `≤ HD`) -/
theorem nnRun_spec (ptB : Nat → P3) (nB : Nat) (root : Box) (tB : Oct) (HD : Rat) (q : P3)
    (hw : 0 ≤ root.w) (hWB : WB ptB root tB) (hNE : NE tB) (hperm : tB.idxs.Perm (List.range nB))
    (hnB : 0 < nB) (hHD : 0 ≤ HD) :
    ∃ x, nnVal (nnRun ptB root tB HD q tB.size) = some x ∧
      ∀ m, IsMinDist2 ptB nB q m → maxR HD x = maxR HD m := by
  have hgood := Good_root ptB nB root tB hw hWB hNE hperm hnB
  have hinit : NInv ptB nB HD q (admKeys ptB q none tB.idxs) ⟨⟨[(0, (root, tB))], []⟩, false⟩ := by
    refine ⟨fun _ => ⟨sim_init ptB q none 1 root tB hw hWB, ?_⟩, fun hc => by simp at hc⟩
    intro e he
    simp only [List.mem_singleton] at he
    subst he
    exact hgood
  have hfin := ninv_iter ptB nB HD q _ tB.size _ hinit
  have hdone := nnRun_done ptB root tB HD q
  unfold nnRun at hdone ⊢
  set st := iter (nnStep ptB HD q) tB.size ⟨⟨[(0, (root, tB))], []⟩, false⟩ with hst
  by_cases hex : st.exit = true
  · refine ⟨0, by simp [nnVal, hex], ?_⟩
    intro m hm
    obtain ⟨j, hj, hle⟩ := hfin.ex hex
    have hmle : m ≤ HD := le_trans (hm.2 j hj) hle
    rw [maxR_of_le HD 0 hHD, maxR_of_le HD m hmle]
  · have hex' : st.exit = false := by simpa using hex
    have hq : st.s.queue = [] := by
      rcases hdone with h | h
      · exact absurd h hex
      · exact h
    obtain ⟨⟨⟨seen, disc, hinv⟩, _⟩, _⟩ := hfin.run hex'
    have hbest : IsBest 1 (admKeys ptB q none tB.idxs) st.s.res :=
      final_best hinv (by simp [hq])
    have hne : admKeys ptB q none tB.idxs ≠ [] := by
      obtain ⟨j, hj⟩ := List.exists_mem_of_ne_nil _ hgood.2.2.2.2
      exact List.ne_nil_of_mem ((mem_admKeys_none ptB q tB.idxs _).mpr ⟨j, hj, rfl⟩)
    obtain ⟨x, hres, hxmem, hxmin⟩ := isBest_one hbest hne
    refine ⟨x.d, by simp [nnVal, hex', hres], ?_⟩
    intro m hm
    obtain ⟨i, hi, hxi⟩ := (mem_admKeys_none ptB q tB.idxs x).mp hxmem
    have hilt : i < nB := List.mem_range.mp (hperm.subset hi)
    have h1 : m ≤ x.d := by rw [hxi]; exact hm.2 i hilt
    obtain ⟨j0, hj0, hm0⟩ := hm.1
    have hj0mem : j0 ∈ tB.idxs := hperm.symm.subset (List.mem_range.mpr hj0)
    have h2 := hxmin _ ((mem_admKeys_none ptB q tB.idxs _).mpr ⟨j0, hj0mem, rfl⟩)
    rw [key_le_iff] at h2
    have h3 : x.d ≤ m := by
      rw [← hm0]
      rcases h2 with h | h
      · exact le_of_lt h
      · exact le_of_eq h.1
    rw [le_antisymm h3 h1]

/-! ### 4. `calc_frm_node`: the per-leaf upper bound -/

/-- queue entries are usable and the running bound dominates the distance of every point of box `a` to its
    nearest target -/
def UInv (ptB : Nat → P3) (nB : Nat) (a : Box) (s : List QEntry × Option Rat) : Prop :=
  (∀ e ∈ s.1, Good ptB nB e.2) ∧
  ∀ u, s.2 = some u → ∀ pa, inBox a pa = true → ∃ j, j < nB ∧ dist2 pa (ptB j) ≤ u

theorem uinv_step (ptB : Nat → P3) (nB : Nat) (a : Box) (hwa : 0 ≤ a.w) (s : List QEntry × Option Rat)
    (hI : UInv ptB nB a s) : UInv ptB nB a (ubStep a s) := by
  obtain ⟨queue, dist⟩ := s
  obtain ⟨hq, hd⟩ := hI
  simp only at hq hd
  cases queue with
  | nil => exact ⟨hq, hd⟩
  | cons e0 rest =>
    obtain ⟨d, b, t⟩ := e0
    have hrest : ∀ e ∈ rest, Good ptB nB e.2 := fun e he => hq e (List.mem_cons_of_mem _ he)
    have h0 : Good ptB nB (b, t) := hq (d, (b, t)) (by simp)
    simp only [ubStep]
    split
    · exact ⟨hrest, hd⟩
    · cases hkl : kidList b t with
      | some kids =>
        simp only []
        refine ⟨?_, hd⟩
        intro e he
        rcases List.mem_append.mp ((foldr_insQ_perm' (fun bt => ubNode2 a bt.1) _ rest).subset he) with he | he
        · simp only [List.mem_map] at he
          obtain ⟨bt, hbt, rfl⟩ := he
          exact Good_kids ptB nB b t kids h0 hkl bt (List.mem_filter.mp hbt).1
        · exact hrest e he
      | none =>
        simp only []
        refine ⟨hrest, ?_⟩
        have hnew : ∀ pa, inBox a pa = true → ∃ j, j < nB ∧ dist2 pa (ptB j) ≤ ubNode2 a b := by
          intro pa hpa
          obtain ⟨j, hj, hin⟩ := Good_target ptB nB (b, t) h0
          exact ⟨j, hj, ubNode2_ge a b pa (ptB j) hpa hin hwa h0.1⟩
        intro u hu pa hpa
        cases dist with
        | none =>
          simp only [minOpt, Option.some.injEq] at hu
          subst hu
          exact hnew pa hpa
        | some m0 =>
          simp only [minOpt, Option.some.injEq] at hu
          subst hu
          unfold minR
          split
          · exact hnew pa hpa
          · exact hd m0 rfl pa hpa

theorem uinv_iter (ptB : Nat → P3) (nB : Nat) (a : Box) (hwa : 0 ≤ a.w) (n : Nat) (s : List QEntry × Option Rat)
    (hI : UInv ptB nB a s) : UInv ptB nB a (iter (ubStep a) n s) := by
  induction n generalizing s with
  | zero => exact hI
  | succ n ih => exact ih _ (uinv_step ptB nB a hwa s hI)

/-- **`calc_frm_node`**: a finite upper bound really bounds the nearest-target distance of every point of the leaf box -/
theorem ub_sound (ptB : Nat → P3) (nB : Nat) (a root : Box) (tB : Oct) (hwa : 0 ≤ a.w)
    (hw : 0 ≤ root.w) (hWB : WB ptB root tB) (hNE : NE tB) (hperm : tB.idxs.Perm (List.range nB))
    (hnB : 0 < nB) (fuel : Nat) (u : Rat) (hu : (ubRun a root tB fuel).2 = some u)
    (pa : P3) (hpa : inBox a pa = true) : ∃ j, j < nB ∧ dist2 pa (ptB j) ≤ u := by
  have hinit : UInv ptB nB a ([(0, (root, tB))], none) := by
    refine ⟨?_, fun u hu => by simp at hu⟩
    intro e he
    simp only [List.mem_singleton] at he
    subst he
    exact Good_root ptB nB root tB hw hWB hNE hperm hnB
  exact (uinv_iter ptB nB a hwa fuel _ hinit).2 u hu pa hpa

/-! ### 5. the leaves of tree A and their ordering -/

theorem leavesOf_sound (pt : Nat → P3) (b : Box) (t : Oct) (hw : 0 ≤ b.w) (h : WB pt b t) :
    ∀ bl ∈ leavesOf b t, 0 ≤ bl.1.w ∧ ∀ i ∈ bl.2, inBox bl.1 (pt i) = true ∧ i ∈ t.idxs := by
  induction t generalizing b with
  | empty => intro bl hbl; simp [leavesOf] at hbl
  | leaf is =>
    intro bl hbl
    simp only [leavesOf] at hbl
    split at hbl
    · simp at hbl
    · simp only [List.mem_singleton] at hbl
      subst hbl
      exact ⟨hw, fun i hi => ⟨h i hi, hi⟩⟩
  | node kids ih =>
    intro bl hbl
    simp only [leavesOf, List.mem_flatMap] at hbl
    obtain ⟨r, _, hbl⟩ := hbl
    obtain ⟨hw', hall⟩ := ih r (child b r.val) (child_w_nonneg b _ hw) (h r) bl hbl
    refine ⟨hw', fun i hi => ⟨(hall i hi).1, ?_⟩⟩
    simp only [Oct.idxs, List.mem_flatMap]
    exact ⟨r, List.mem_finRange r, (hall i hi).2⟩

theorem leavesOf_complete (b : Box) (t : Oct) : ∀ i ∈ t.idxs, ∃ bl ∈ leavesOf b t, i ∈ bl.2 := by
  induction t generalizing b with
  | empty => intro i hi; simp [Oct.idxs] at hi
  | leaf is =>
    intro i hi
    simp only [Oct.idxs] at hi
    have hne : is.isEmpty = false := by
      cases is with
      | nil => simp at hi
      | cons _ _ => rfl
    exact ⟨(b, is), by simp [leavesOf, hne], hi⟩
  | node kids ih =>
    intro i hi
    simp only [Oct.idxs, List.mem_flatMap] at hi
    obtain ⟨r, hr, hi⟩ := hi
    obtain ⟨bl, hbl, hibl⟩ := ih r (child b r.val) i hi
    exact ⟨bl, by simp only [leavesOf, List.mem_flatMap]; exact ⟨r, hr, hbl⟩, hibl⟩

theorem insDesc_perm (e : Option Rat × List Nat) (l : List (Option Rat × List Nat)) :
    (insDesc e l).Perm (e :: l) := by
  induction l with
  | nil => exact List.Perm.refl _
  | cons f t ih =>
    simp only [insDesc]; split
    · exact List.Perm.refl _
    · exact (List.Perm.cons f ih).trans (List.Perm.swap e f t)

theorem geOpt_total (a b : Option Rat) (h : ¬ geOpt a b = true) : geOpt b a = true := by
  cases a <;> cases b <;> simp_all [geOpt]
  exact le_of_lt h

theorem geOpt_trans (a b c : Option Rat) (h1 : geOpt a b = true) (h2 : geOpt b c = true) : geOpt a c = true := by
  cases a <;> cases b <;> cases c <;> simp_all [geOpt]
  linarith

theorem insDesc_sorted (e : Option Rat × List Nat) (l : List (Option Rat × List Nat))
    (h : l.Pairwise fun x y => geOpt x.1 y.1 = true) :
    (insDesc e l).Pairwise fun x y => geOpt x.1 y.1 = true := by
  induction l with
  | nil => simp [insDesc]
  | cons f t ih =>
    rw [List.pairwise_cons] at h
    simp only [insDesc]; split
    · rename_i hef
      refine List.pairwise_cons.mpr ⟨?_, List.pairwise_cons.mpr h⟩
      intro y hy
      rcases List.mem_cons.mp hy with rfl | hy
      · exact hef
      · exact geOpt_trans _ _ _ hef (h.1 y hy)
    · rename_i hef
      refine List.pairwise_cons.mpr ⟨?_, ih h.2⟩
      intro y hy
      rcases List.mem_cons.mp ((insDesc_perm e t).subset hy) with rfl | hy
      · exact geOpt_total _ _ hef
      · exact h.1 y hy

theorem foldr_insDesc {α : Type} (g : α → Option Rat × List Nat) (L : List α) :
    (L.foldr (fun bl acc => insDesc (g bl) acc) []).Perm (L.map g) ∧
    (L.foldr (fun bl acc => insDesc (g bl) acc) []).Pairwise fun x y => geOpt x.1 y.1 = true := by
  induction L with
  | nil => simp
  | cons a t ih =>
    simp only [List.foldr_cons, List.map_cons]
    exact ⟨(insDesc_perm _ _).trans (List.Perm.cons _ ih.1), insDesc_sorted _ _ ih.2⟩

/-! ### 6. the main loop -/

theorem fold_spec (md : Nat → Rat) (nn : Rat → Nat → Option Rat)
    (hnn : ∀ HD i, 0 ≤ HD → ∃ x, nn HD i = some x ∧ maxR HD x = maxR HD (md i))
    (is : List Nat) (HD : Rat) (h0 : 0 ≤ HD) :
    HD ≤ is.foldl (fun h i => maxOpt h (nn h i)) HD ∧
    (∀ i ∈ is, md i ≤ is.foldl (fun h i => maxOpt h (nn h i)) HD) ∧
    (is.foldl (fun h i => maxOpt h (nn h i)) HD = HD ∨
      ∃ i ∈ is, is.foldl (fun h i => maxOpt h (nn h i)) HD = md i) := by
  induction is generalizing HD with
  | nil => simp
  | cons i t ih =>
    simp only [List.foldl_cons]
    obtain ⟨x, hx, hmax⟩ := hnn HD i h0
    have hH : maxOpt HD (nn HD i) = maxR HD (md i) := by rw [hx]; simpa [maxOpt] using hmax
    rw [hH]
    have hle := le_maxR_left HD (md i)
    have hle2 := le_maxR_right HD (md i)
    obtain ⟨h1, h2, h3⟩ := ih (maxR HD (md i)) (le_trans h0 hle)
    refine ⟨le_trans hle h1, ?_, ?_⟩
    · intro j hj
      rcases List.mem_cons.mp hj with rfl | hj
      · exact le_trans hle2 h1
      · exact h2 j hj
    · rcases h3 with h3 | ⟨j, hj, h3⟩
      · rcases maxR_cases HD (md i) with hc | hc
        · left; rw [h3, hc]
        · right; exact ⟨i, by simp, by rw [h3, hc]⟩
      · right; exact ⟨j, List.mem_cons_of_mem _ hj, h3⟩

theorem hausLoop_spec (md : Nat → Rat) (nn : Rat → Nat → Option Rat)
    (hnn : ∀ HD i, 0 ≤ HD → ∃ x, nn HD i = some x ∧ maxR HD x = maxR HD (md i))
    (L : List (Option Rat × List Nat))
    (hub : ∀ e ∈ L, ∀ u, e.1 = some u → ∀ i ∈ e.2, md i ≤ u)
    (hsorted : L.Pairwise fun x y => geOpt x.1 y.1 = true)
    (HD : Rat) (h0 : 0 ≤ HD) :
    HD ≤ hausLoop nn L HD ∧ (∀ e ∈ L, ∀ i ∈ e.2, md i ≤ hausLoop nn L HD) ∧
    (hausLoop nn L HD = HD ∨ ∃ e ∈ L, ∃ i ∈ e.2, hausLoop nn L HD = md i) := by
  induction L generalizing HD with
  | nil => simp [hausLoop]
  | cons e0 rest ih =>
    obtain ⟨ub, is⟩ := e0
    rw [List.pairwise_cons] at hsorted
    simp only [hausLoop]
    split
    · rename_i hbreak
      refine ⟨le_refl _, ?_, Or.inl rfl⟩
      cases ub with
      | none => simp [leOptR] at hbreak
      | some x =>
        simp only [leOptR, decide_eq_true_eq] at hbreak
        intro e he i hi
        rcases List.mem_cons.mp he with rfl | he
        · exact le_trans (hub _ (by simp) x rfl i hi) hbreak
        · have hge := hsorted.1 e he
          obtain ⟨eu, eis⟩ := e
          cases eu with
          | none => simp [geOpt] at hge
          | some y =>
            simp only [geOpt, decide_eq_true_eq] at hge
            have := hub (some y, eis) (List.mem_cons_of_mem _ he) y rfl i hi
            linarith
    · obtain ⟨f1, f2, f3⟩ := fold_spec md nn hnn is HD h0
      set HD' := is.foldl (fun h i => maxOpt h (nn h i)) HD with hHD'
      obtain ⟨h1, h2, h3⟩ := ih (fun e he => hub e (List.mem_cons_of_mem _ he)) hsorted.2 HD' (le_trans h0 f1)
      refine ⟨le_trans f1 h1, ?_, ?_⟩
      · intro e he i hi
        rcases List.mem_cons.mp he with rfl | he
        · exact le_trans (f2 i hi) h1
        · exact h2 e he i hi
      · rcases h3 with h3 | ⟨e, he, i, hi, h3⟩
        · rcases f3 with f3 | ⟨i, hi, f3⟩
          · left; rw [h3, f3]
          · right; exact ⟨(ub, is), by simp, i, hi, by rw [h3, f3]⟩
        · right; exact ⟨e, List.mem_cons_of_mem _ he, i, hi, h3⟩

/-- the directed Hausdorff kernel on two arbitrary well-formed trees over the same root box -/
theorem hausDirectedT_correct (ptA ptB : Nat → P3) (nA nB : Nat) (root : Box) (tA tB : Oct) (hw : 0 ≤ root.w)
    (hWBA : WB ptA root tA) (hpermA : tA.idxs.Perm (List.range nA))
    (hWBB : WB ptB root tB) (hNEB : NE tB) (hpermB : tB.idxs.Perm (List.range nB))
    (hnA : 0 < nA) (hnB : 0 < nB) :
    IsHausdorff2 ptA ptB nA nB (hausDirectedT ptA ptB root tA tB) := by
  -- the true min-distance of every source point
  have hex : ∀ i, ∃ m, IsMinDist2 ptB nB (ptA i) m := fun i => exists_minDist ptB nB hnB (ptA i)
  let md : Nat → Rat := fun i => Classical.choose (hex i)
  have hmd : ∀ i, IsMinDist2 ptB nB (ptA i) (md i) := fun i => Classical.choose_spec (hex i)
  have hnn : ∀ HD i, 0 ≤ HD →
      ∃ x, (fun HD i => nnVal (nnRun ptB root tB HD (ptA i) tB.size)) HD i = some x ∧
        maxR HD x = maxR HD (md i) := by
    intro HD i hHD
    obtain ⟨x, hx, hxm⟩ := nnRun_spec ptB nB root tB HD (ptA i) hw hWBB hNEB hpermB hnB hHD
    exact ⟨x, hx, hxm (md i) (hmd i)⟩
  obtain ⟨hperm, hsorted⟩ := foldr_insDesc
    (fun bl : Box × List Nat => ((ubRun bl.1 root tB tB.size).2, bl.2)) (leavesOf root tA)
  have hub : ∀ e ∈ hausLeaves root tA tB, ∀ u, e.1 = some u → ∀ i ∈ e.2, md i ≤ u := by
    intro e he u hu i hi
    have he' := hperm.subset he
    simp only [List.mem_map] at he'
    obtain ⟨bl, hbl, rfl⟩ := he'
    obtain ⟨hwbl, hall⟩ := leavesOf_sound ptA root tA hw hWBA bl hbl
    obtain ⟨j, hj, hle⟩ := ub_sound ptB nB bl.1 root tB hwbl hw hWBB hNEB hpermB hnB tB.size u hu
      (ptA i) (hall i hi).1
    exact le_trans ((hmd i).2 j hj) hle
  obtain ⟨h1, h2, h3⟩ := hausLoop_spec md _ hnn (hausLeaves root tA tB) hub hsorted 0 (le_refl _)
  have hlisted : ∀ i, i < nA → ∃ e ∈ hausLeaves root tA tB, i ∈ e.2 := by
    intro i hi
    obtain ⟨bl, hbl, hibl⟩ := leavesOf_complete root tA i (hpermA.symm.subset (List.mem_range.mpr hi))
    exact ⟨_, hperm.symm.subset (List.mem_map.mpr ⟨bl, hbl, rfl⟩), hibl⟩
  have hall : ∀ i, i < nA → md i ≤ hausDirectedT ptA ptB root tA tB := by
    intro i hi
    obtain ⟨e, he, hie⟩ := hlisted i hi
    exact h2 e he i hie
  refine ⟨?_, fun i hi => ⟨md i, hmd i, hall i hi⟩⟩
  rcases h3 with h3 | ⟨e, he, i, hi, h3⟩
  · -- nothing beat the initial 0: every min-distance is 0
    refine ⟨0, hnA, ?_⟩
    have hle := hall 0 hnA
    have h00 : hausDirectedT ptA ptB root tA tB = 0 := h3
    have : md 0 = hausDirectedT ptA ptB root tA tB := by
      rw [h00] at hle ⊢
      exact le_antisymm hle (minDist_nonneg (hmd 0))
    rw [← this]; exact hmd 0
  · have he' := hperm.subset he
    simp only [List.mem_map] at he'
    obtain ⟨bl, hbl, rfl⟩ := he'
    obtain ⟨_, hallbl⟩ := leavesOf_sound ptA root tA hw hWBA bl hbl
    have hilt : i < nA := List.mem_range.mp (hpermA.subset (hallbl i hi).2)
    refine ⟨i, hilt, ?_⟩
    have : hausDirectedT ptA ptB root tA tB = md i := h3
    rw [this]; exact hmd i

/-- **C16_hausdorff_directed**: the kernel computes the squared directed Hausdorff distance -/
theorem hausDirected_correct (ptA ptB : Nat → P3) (nA nB depth : Nat) (root : Box) (hw : 0 ≤ root.w)
    (hA : ∀ i, i < nA → inBox root (ptA i) = true) (hB : ∀ j, j < nB → inBox root (ptB j) = true)
    (hnA : 0 < nA) (hnB : 0 < nB) :
    IsHausdorff2 ptA ptB nA nB (hausDirected ptA ptB nA nB depth root) := by
  unfold hausDirected
  exact hausDirectedT_correct ptA ptB nA nB root _ _ hw
    (WB_build ptA depth root _ hw (fun i hi => hA i (List.mem_range.mp hi)))
    (build_idxs_perm ptA depth root _)
    (WB_build ptB depth root _ hw (fun j hj => hB j (List.mem_range.mp hj)))
    (NE_build ptB depth root _)
    (build_idxs_perm ptB depth root _) hnA hnB

end Femio.C16

#print axioms Femio.C16.hi2_ge
#print axioms Femio.C16.ubNode2_ge
#print axioms Femio.C16.nnRun_spec
#print axioms Femio.C16.ub_sound
#print axioms Femio.C16.hausDirected_correct
