import Mathlib.Data.List.Sort
import Mathlib.Data.List.Count
import Mathlib.Tactic.Linarith

/-! (1) `extract_surface_fistr`: in a list sorted by key, "differs from both neighbours" ⇔ "key occurs once".
    (2) `to_polyhedron`: `argsort[searchsorted(sorted_ids, id)]` is the storage position of `id`. -/

section Scan
variable {κ : Type} [DecidableEq κ]

/-- model of `unique[:-1] &= distinct; unique[1:] &= distinct` : entry kept iff it differs from the
    previous (if any) and from the next (if any) -/
def scanAux (prev : Option κ) : List κ → List Bool
  | [] => []
  | a :: t =>
    (decide (prev ≠ some a) && (match t with | [] => true | b :: _ => decide (a ≠ b))) :: scanAux (some a) t

def scan (l : List κ) : List Bool := scanAux none l

/-- equal keys are contiguous (what `np.lexsort` guarantees): once a key stops, it never comes back -/
def Grouped : List κ → Prop
  | [] => True
  | a :: t => (∀ b ∈ t, b = a → t.head? = some a) ∧ Grouped t

theorem count_eq_zero_of_head_ne {a : κ} {t : List κ} (hg : Grouped (a :: t)) (h : t.head? ≠ some a) :
    t.count a = 0 := by
  rw [List.count_eq_zero]
  intro hmem
  exact h (hg.1 a hmem rfl)

theorem scanAux_length (prev : Option κ) (l : List κ) : (scanAux prev l).length = l.length := by
  induction l generalizing prev with
  | nil => rfl
  | cons a t ih => simp [scanAux, ih]

/-- main lemma, generalised over the previous key: the scan marks exactly the keys that occur once in
    `prev :: l` (with `prev`, if present, counted) -/
theorem scanAux_spec (prev : Option κ) (l : List κ)
    (hg : match prev with | none => Grouped l | some p => Grouped (p :: l)) :
    ∀ i (hi : i < l.length), (scanAux prev l)[i]'(by rw [scanAux_length]; exact hi) = true ↔
      (l.count l[i] = 1 ∧ prev ≠ some l[i]) := by
  induction l generalizing prev with
  | nil => intro i hi; simp at hi
  | cons a t ih =>
    have hgat : Grouped (a :: t) := by
      cases prev with
      | none => exact hg
      | some p => exact hg.2
    intro i hi
    cases i with
    | zero =>
      simp only [scanAux, List.getElem_cons_zero, Bool.and_eq_true, decide_eq_true_eq, List.count_cons_self]
      constructor
      · rintro ⟨hp, hn⟩
        refine ⟨?_, hp⟩
        have : t.count a = 0 := by
          apply count_eq_zero_of_head_ne hgat
          cases t with
          | nil => simp
          | cons b u => simp at hn ⊢; exact fun h => hn h.symm
        omega
      · rintro ⟨hc, hp⟩
        refine ⟨hp, ?_⟩
        have h0 : t.count a = 0 := by omega
        cases t with
        | nil => rfl
        | cons b u =>
          simp only [decide_eq_true_eq]
          intro hab
          rw [List.count_eq_zero] at h0
          exact h0 (by simp [hab])
    | succ j =>
      have hj : j < t.length := by simpa using hi
      have := ih (some a) hgat j hj
      simp only [scanAux, List.getElem_cons_succ]
      rw [this]
      constructor
      · rintro ⟨hc, hne⟩
        have hne' : t[j] ≠ a := fun h => hne (by rw [h])
        refine ⟨?_, ?_⟩
        · rw [List.count_cons_of_ne (Ne.symm hne')]; exact hc
        · -- prev ≠ some t[j]: if prev = some t[j] = some p then p reappears after a ≠ p: contradiction with Grouped
          cases prev with
          | none => simp
          | some p =>
            intro hp
            have hp' : p = t[j] := by simpa using hp
            have hmem : t[j] ∈ a :: t := List.mem_cons_of_mem _ (List.getElem_mem hj)
            have := hg.1 t[j] hmem hp'.symm
            simp at this
            exact hne' (by rw [← hp']; exact this.symm ▸ rfl)
      · rintro ⟨hc, _⟩
        by_cases hta : t[j] = a
        · rw [hta, List.count_cons_self] at hc
          have : t.count a = 0 := by omega
          rw [List.count_eq_zero] at this
          exact absurd (hta ▸ List.getElem_mem hj) this
        · rw [List.count_cons_of_ne (Ne.symm hta)] at hc
          exact ⟨hc, fun h => hta (by simpa using h.symm)⟩

end Scan

section Pos
/-- `searchsorted(sorted, x)` for a sorted array = number of entries `< x` -/
def searchsorted (sorted : List Nat) (x : Nat) : Nat := (sorted.filter (· < x)).length

/-- in a strictly ascending list of pairs, the entry at index `searchsorted keys x` has key `x` if present -/
theorem getElem_searchsorted (l : List (Nat × Nat)) (hs : (l.map Prod.fst).Pairwise (· < ·))
    (x p : Nat) (hx : (x, p) ∈ l) :
    l[searchsorted (l.map Prod.fst) x]? = some (x, p) := by
  induction l with
  | nil => simp at hx
  | cons a t ih =>
    simp only [List.map_cons, List.pairwise_cons] at hs
    obtain ⟨ha, ht⟩ := hs
    rcases List.mem_cons.mp hx with hxa | hxt
    · -- x is the head: nothing is smaller
      subst hxa
      have : searchsorted (x :: t.map Prod.fst) x = 0 := by
        unfold searchsorted
        rw [List.length_eq_zero_iff, List.filter_eq_nil_iff]
        intro y hy
        rcases List.mem_cons.mp hy with h | h
        · simp [h]
        · have := ha y h; simp; omega
      simp [this]
    · have hlt : a.1 < x := ha x (List.mem_map.mpr ⟨(x, p), hxt, rfl⟩)
      have : searchsorted (a.1 :: t.map Prod.fst) x = searchsorted (t.map Prod.fst) x + 1 := by
        unfold searchsorted; simp [List.filter_cons, hlt]
      simp only [List.map_cons]
      rw [this]
      simpa using ih ht hxt

end Pos
#print axioms scanAux_spec
#print axioms getElem_searchsorted
