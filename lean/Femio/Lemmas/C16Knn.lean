import Femio.Model.Search
import Mathlib.Data.Rat.Defs
import Mathlib.Algebra.Order.Field.Rat
import Mathlib.Tactic.Linarith
import Mathlib.Tactic.Ring
import Mathlib.Tactic.FinCases
import Femio.Lemmas.C16BnB
import Mathlib.Data.Prod.Lex
import Mathlib.Data.List.FinRange
import Mathlib.Data.List.Perm.Lattice
import Mathlib.Tactic.FinCases
import Mathlib.Tactic.IntervalCases

namespace Femio.C16

theorem inBox_iff (b : Box) (p : P3) : inBox b p = true ↔
    (b.c.x - b.w ≤ p.x ∧ p.x ≤ b.c.x + b.w) ∧ (b.c.y - b.w ≤ p.y ∧ p.y ≤ b.c.y + b.w) ∧
    (b.c.z - b.w ≤ p.z ∧ p.z ≤ b.c.z + b.w) := by
  simp only [inBox, Bool.and_eq_true, decide_eq_true_eq]; tauto

/-- the eight children cover the parent (exact arithmetic) -/
theorem children_cover (b : Box) (p : P3) (hw : 0 ≤ b.w) (h : inBox b p = true) :
    ∃ r, r < 8 ∧ inBox (child b r) p = true := by
  rw [inBox_iff] at h
  obtain ⟨⟨hx1, hx2⟩, ⟨hy1, hy2⟩, ⟨hz1, hz2⟩⟩ := h
  -- choose each bit: minus side iff the coordinate is ≤ the centre
  refine ⟨(if p.x ≤ b.c.x then 4 else 0) + (if p.y ≤ b.c.y then 2 else 0) + (if p.z ≤ b.c.z then 1 else 0), ?_, ?_⟩
  · split <;> split <;> split <;> omega
  · rw [inBox_iff]
    by_cases hx : p.x ≤ b.c.x <;> by_cases hy : p.y ≤ b.c.y <;> by_cases hz : p.z ≤ b.c.z <;>
      simp only [child, hx, hy, hz, if_true, if_false] <;> norm_num <;>
      refine ⟨⟨?_, ?_⟩, ⟨?_, ?_⟩, ⟨?_, ?_⟩⟩ <;> linarith

theorem pick_spec (b : Box) (p : P3) (hw : 0 ≤ b.w) (h : inBox b p = true) :
    pick b p < 8 ∧ inBox (child b (pick b p)) p = true := by
  obtain ⟨r, hr, hin⟩ := children_cover b p hw h
  unfold pick
  cases hf : (List.range 8).find? (fun r => inBox (child b r) p) with
  | none =>
    rw [List.find?_eq_none] at hf
    exact absurd hin (by simpa using hf r (List.mem_range.mpr hr))
  | some r' =>
    have := List.find?_some hf
    have hmem := List.mem_of_find?_eq_some hf
    exact ⟨List.mem_range.mp hmem, by simpa using this⟩

theorem child_w_nonneg (b : Box) (r : Nat) (hw : 0 ≤ b.w) : 0 ≤ (child b r).w := by
  simp only [child]; linarith

/-- **C16_leaf_contains**: a point of the root box lies in every box along its assigned path -/
theorem in_prefix_box (b : Box) (p : P3) (hw : 0 ≤ b.w) (h : inBox b p = true) (d : Nat) :
    ∀ pre, pre <+: assign b p d → inBox (boxOf b pre) p = true := by
  induction d generalizing b with
  | zero => intro pre hpre; simp [assign] at hpre; subst hpre; simpa [boxOf] using h
  | succ d ih =>
    intro pre hpre
    cases pre with
    | nil => simpa [boxOf] using h
    | cons r rs =>
      simp only [assign] at hpre
      obtain ⟨hr, hrs⟩ := List.cons_prefix_cons.mp hpre
      subst hr
      simp only [boxOf]
      obtain ⟨_, hin⟩ := pick_spec b p hw h
      exact ih (child b (pick b p)) (child_w_nonneg b _ hw) hin rs hrs

theorem clamp_le (lo hi v : Rat) (h : lo ≤ hi) : lo ≤ clamp lo hi v ∧ clamp lo hi v ≤ hi := by
  unfold clamp; split
  · exact ⟨le_refl _, h⟩
  · split
    · exact ⟨h, le_refl _⟩
    · constructor <;> linarith

theorem sq_clamp_le (lo hi v t : Rat) (h1 : lo ≤ t) (h2 : t ≤ hi) : sq (v - clamp lo hi v) ≤ sq (v - t) := by
  unfold clamp sq
  split
  · nlinarith
  · split
    · nlinarith
    · nlinarith [mul_self_nonneg (v - t)]

/-- **C16_lb_sound** for the concrete box bound -/
theorem lb2_le (b : Box) (q p : P3) (h : inBox b p = true) : lb2 b q ≤ dist2 q p := by
  rw [inBox_iff] at h
  obtain ⟨⟨hx1, hx2⟩, ⟨hy1, hy2⟩, ⟨hz1, hz2⟩⟩ := h
  unfold lb2 dist2
  have := sq_clamp_le _ _ q.x p.x hx1 hx2
  have := sq_clamp_le _ _ q.y p.y hy1 hy2
  have := sq_clamp_le _ _ q.z p.z hz1 hz2
  linarith



/-! ### the order on keys is the heap order of the code -/
def keyEmb (k : Key) : ℚ ×ₗ ℕᵒᵈ := toLex (k.d, OrderDual.toDual k.idx)
theorem keyEmb_inj : Function.Injective keyEmb := by
  intro a b h
  have := congrArg ofLex h
  simp only [keyEmb, ofLex_toLex, Prod.mk.injEq] at this
  cases a; cases b; simp_all
instance : LinearOrder Key := LinearOrder.lift' keyEmb keyEmb_inj

theorem key_le_iff (a b : Key) : a ≤ b ↔ a.d < b.d ∨ (a.d = b.d ∧ b.idx ≤ a.idx) := by
  show keyEmb a ≤ keyEmb b ↔ _
  simp only [keyEmb, Prod.Lex.le_iff, ofLex_toLex, OrderDual.toDual_le_toDual]

theorem keyLe_iff (a b : Key) : keyLe a b = true ↔ a ≤ b := by
  rw [key_le_iff]; simp [keyLe]

theorem insKeySorted_eq (x : Key) (r : List Key) : insKeySorted x r = r.orderedInsert (· ≤ ·) x := by
  induction r with
  | nil => rfl
  | cons y t ih =>
    simp only [insKeySorted, List.orderedInsert_cons]
    by_cases h : x ≤ y
    · simp [(keyLe_iff x y).mpr h, h]
    · have : keyLe x y = false := by
        cases hk : keyLe x y with
        | false => rfl
        | true => exact absurd ((keyLe_iff x y).mp hk) h
      simp [this, h, ih]

theorem insKey_eq (k : Nat) (x : Key) (r : List Key) : insKey k x r = ins k x r := by
  simp only [insKey, ins, insKeySorted_eq]

/-! ### the octree as an abstract search tree -/
variable (pt : Nat → P3) (q : P3) (bound : Option Rat)

/-- the admissible keys (`d <= distance_upper_bound`) among those of the indices `is` -/
def admKeys (is : List Nat) : List Key := (keysOf pt q is).filter fun x => !exceeds bound x.d

theorem idxs_of_isEmpty (t : Oct) (h : t.isEmpty = true) : t.idxs = [] := by
  cases t <;> simp_all [Oct.isEmpty, Oct.idxs]

theorem keysOf_perm {l l' : List Nat} (h : l.Perm l') : (keysOf pt q l).Perm (keysOf pt q l') := h.map _

theorem keysOf_flatMap {α : Type} (l : List α) (f : α → List Nat) :
    keysOf pt q (l.flatMap f) = l.flatMap fun a => keysOf pt q (f a) := by
  simp [keysOf, List.map_flatMap]

theorem idxs_kidList (b : Box) (t : Oct) (cs : List (Box × Oct)) (h : kidList b t = some cs) :
    t.idxs = cs.flatMap fun bt => bt.2.idxs := by
  cases t with
  | empty => simp [kidList] at h; subst h; simp [Oct.idxs]
  | leaf is => simp [kidList] at h
  | node kids =>
    simp only [kidList, Option.some.injEq] at h
    subst h
    simp only [Oct.idxs]
    have : ∀ l : List (Box × Oct),
        (l.filter fun bt => !bt.2.isEmpty).flatMap (fun bt => bt.2.idxs) = l.flatMap (fun bt => bt.2.idxs) := by
      intro l
      induction l with
      | nil => rfl
      | cons a t ih =>
        by_cases ha : a.2.isEmpty = true
        · simp [List.filter_cons, ha, idxs_of_isEmpty a.2 ha, ih]
        · simp [List.filter_cons, ha, ih]
    rw [this, List.flatMap_map]

def octTree : SearchTree (Box × Oct) Key where
  pts := fun bt => admKeys pt q bound bt.2.idxs
  children := fun bt => kidList bt.1 bt.2
  children_pts := by
    rintro ⟨b, t⟩ cs h
    simp only [admKeys]
    rw [idxs_kidList b t cs h, keysOf_flatMap, List.filter_flatMap]

/-! ### every point stored under a box lies in the box -/
def WB : Box → Oct → Prop
  | _, .empty => True
  | b, .leaf is => ∀ i ∈ is, inBox b (pt i) = true
  | b, .node kids => ∀ r : Fin 8, WB (child b r.val) (kids r)

theorem child_sub (b : Box) (r : Nat) (p : P3) (hw : 0 ≤ b.w) (h : inBox (child b r) p = true) : inBox b p = true := by
  rw [inBox_iff] at h ⊢
  simp only [child] at h
  obtain ⟨⟨hx1, hx2⟩, ⟨hy1, hy2⟩, ⟨hz1, hz2⟩⟩ := h
  by_cases h4 : r / 4 % 2 = 1 <;> by_cases h2 : r / 2 % 2 = 1 <;> by_cases h1 : r % 2 = 1 <;>
    simp only [h4, h2, h1, if_true, if_false] at hx1 hx2 hy1 hy2 hz1 hz2 <;>
    refine ⟨⟨?_, ?_⟩, ⟨?_, ?_⟩, ⟨?_, ?_⟩⟩ <;> linarith

theorem WB_idxs (b : Box) (t : Oct) (hw : 0 ≤ b.w) (h : WB pt b t) : ∀ i ∈ t.idxs, inBox b (pt i) = true := by
  induction t generalizing b with
  | empty => intro i hi; simp [Oct.idxs] at hi
  | leaf is => exact h
  | node kids ih =>
    intro i hi
    simp only [Oct.idxs, List.mem_flatMap] at hi
    obtain ⟨r, _, hir⟩ := hi
    exact child_sub b r.val (pt i) hw (ih r (child b r.val) (child_w_nonneg b _ hw) (h r) i hir)

theorem WB_build (d : Nat) (b : Box) (is : List Nat) (hw : 0 ≤ b.w) (h : ∀ i ∈ is, inBox b (pt i) = true) :
    WB pt b (build pt d b is) := by
  induction d generalizing b is with
  | zero => exact h
  | succ d ih =>
    intro r
    simp only []
    split
    · trivial
    · apply ih _ _ (child_w_nonneg b _ hw)
      intro i hi
      have hmem := List.mem_filter.mp hi
      have hp : pick b (pt i) = r.val := by simpa using hmem.2
      have := (pick_spec b (pt i) hw (h i hmem.1)).2
      rwa [hp] at this


/-! ### the root holds every target: `build` only redistributes indices -/
theorem pick_lt (b : Box) (p : P3) : pick b p < 8 := by
  unfold pick
  cases hf : (List.range 8).find? (fun r => inBox (child b r) p) with
  | none => simp
  | some r => simpa using List.mem_range.mp (List.mem_of_find?_eq_some hf)

theorem classes_perm (is : List Nat) (f : Nat → Nat) (hf : ∀ i, f i < 8) :
    ((List.finRange 8).flatMap fun r => is.filter fun i => f i = r.val).Perm is := by
  induction is with
  | nil => simp
  | cons a t ih =>
    have hone : ((List.finRange 8).flatMap fun r : Fin 8 => if f a = r.val then [a] else []) = [a] := by
      have hv := hf a
      have h8 : List.finRange 8 = [0, 1, 2, 3, 4, 5, 6, 7] := by decide
      rw [h8]
      generalize f a = v at hv
      interval_cases v <;> simp
    have hsplit : ∀ r : Fin 8, ((a :: t).filter fun i => f i = r.val)
        = (if f a = r.val then [a] else []) ++ t.filter fun i => f i = r.val := by
      intro r; by_cases h : f a = r.val <;> simp [List.filter_cons, h]
    simp only [hsplit]
    refine (List.flatMap_append_perm _ _ _).symm.trans ?_
    rw [hone]
    exact List.Perm.cons a ih

theorem build_idxs_perm (d : Nat) (b : Box) (is : List Nat) : (build pt d b is).idxs.Perm is := by
  induction d generalizing b is with
  | zero => exact List.Perm.refl _
  | succ d ih =>
    simp only [build, Oct.idxs]
    have hkid : ∀ r : Fin 8,
        (if (is.filter fun i => pick b (pt i) = r.val).isEmpty then Oct.empty
          else build pt d (child b r.val) (is.filter fun i => pick b (pt i) = r.val)).idxs.Perm
        (is.filter fun i => pick b (pt i) = r.val) := by
      intro r
      split
      · rename_i he
        simp only [Oct.idxs]
        rw [List.isEmpty_iff.mp he]
      · exact ih _ _
    refine (List.Perm.flatMap_left _ (fun r _ => hkid r)).trans ?_
    exact classes_perm is (fun i => pick b (pt i)) (fun i => pick_lt b (pt i))

/-! ### simulation of the concrete loop by the abstract transition system -/
theorem le_last_of_pairwise (l : List Key) (hs : l.Pairwise (· ≤ ·)) (m : Key) (hm : l.getLast? = some m) :
    ∀ y ∈ l, y ≤ m := by
  induction l with
  | nil => simp at hm
  | cons a t ih =>
    intro y hy
    rw [List.pairwise_cons] at hs
    cases t with
    | nil =>
      simp at hm hy; subst hm; subst hy; exact le_refl _
    | cons b u =>
      have hm' : (b :: u).getLast? = some m := by simpa [List.getLast?_cons_cons] using hm
      rcases List.mem_cons.mp hy with rfl | hy'
      · have hmem : m ∈ b :: u := List.mem_of_getLast? hm'
        exact hs.1 m hmem
      · exact ih hs.2 hm' y hy'

theorem insQ_perm (e : QEntry) (l : List QEntry) : (insQ e l).Perm (e :: l) := by
  induction l with
  | nil => exact List.Perm.refl _
  | cons f t ih =>
    simp only [insQ]; split
    · exact List.Perm.refl _
    · exact (List.Perm.cons f ih).trans (List.Perm.swap e f t)

theorem foldr_insQ_perm (kids : List (Box × Oct)) (rest : List QEntry) :
    (kids.foldr (fun bt acc => insQ (lb2 bt.1 q, bt) acc) rest).Perm ((kids.map fun bt => (lb2 bt.1 q, bt)) ++ rest) := by
  induction kids with
  | nil => exact List.Perm.refl _
  | cons a t ih => exact (insQ_perm _ _).trans (List.Perm.cons _ ih)

theorem lb2_nonneg (b : Box) : 0 ≤ lb2 b q := by
  unfold lb2 sq
  nlinarith [mul_self_nonneg (q.x - clamp (b.c.x - b.w) (b.c.x + b.w) q.x),
    mul_self_nonneg (q.y - clamp (b.c.y - b.w) (b.c.y + b.w) q.y),
    mul_self_nonneg (q.z - clamp (b.c.z - b.w) (b.c.z + b.w) q.z)]

structure Sim (k : Nat) (all : List Key) (s : CSt) : Prop where
  abs : ∃ seen disc, SInv (octTree pt q bound) k all ⟨s.queue.map Prod.snd, s.res, seen, disc⟩
  wb : ∀ e ∈ s.queue, 0 ≤ e.2.1.w ∧ WB pt e.2.1 e.2.2 ∧ e.1 ≤ lb2 e.2.1 q

theorem sim_step (k : Nat) (all : List Key) (s : CSt) (h : Sim pt q bound k all s) :
    Sim pt q bound k all (step pt k bound q s) := by
  obtain ⟨⟨seen, disc, hinv⟩, hwb⟩ := h
  obtain ⟨queue, res⟩ := s
  cases queue with
  | nil => exact ⟨⟨seen, disc, hinv⟩, hwb⟩
  | cons e rest =>
    obtain ⟨d, b, t⟩ := e
    obtain ⟨hw, hWB, hd⟩ := hwb (d, (b, t)) (by simp)
    have hwb_rest : ∀ e ∈ rest, 0 ≤ e.2.1.w ∧ WB pt e.2.1 e.2.2 ∧ e.1 ≤ lb2 e.2.1 q :=
      fun e he => hwb e (List.mem_cons_of_mem _ he)
    -- every key under (b, t) is at least as far as the queued lower bound
    have hfar : ∀ x ∈ (octTree pt q bound).pts (b, t), d ≤ x.d ∧ exceeds bound x.d = false := by
      intro x hx
      simp only [octTree, admKeys, List.mem_filter, keysOf, List.mem_map] at hx
      obtain ⟨⟨i, hi, rfl⟩, hadm⟩ := hx
      have hin := WB_idxs pt b t hw hWB i hi
      have hlb := lb2_le b q (pt i) hin
      exact ⟨le_trans hd hlb, by simpa using hadm⟩
    simp only [step]
    split
    · rename_i hcond
      rcases hcond with ⟨hfull, hk⟩ | hex
      · -- prune against the k-th best
        refine ⟨⟨seen, _, step_inv hinv (Step.skip (b, t) (rest.map Prod.snd) res seen disc hfull ?_)⟩, hwb_rest⟩
        intro x hx y hy
        have hdx := (hfar x hx).1
        simp only [kthLt] at hk
        cases hm : res.getLast? with
        | none => simp [hm] at hk
        | some m =>
          simp only [hm, decide_eq_true_eq] at hk
          have hym := le_last_of_pairwise res hinv.best.sorted m hm y hy
          rw [key_le_iff] at hym ⊢
          left
          have : y.d ≤ m.d := by rcases hym with h | h; exact le_of_lt h; exact le_of_eq h.1
          linarith
      · -- the whole box lies beyond the distance bound: nothing admissible below it
        have hnil : (octTree pt q bound).pts (b, t) = [] := by
          apply List.eq_nil_iff_forall_not_mem.mpr
          intro x hx
          obtain ⟨hdx, hadm⟩ := hfar x hx
          cases hb : bound with
          | none => simp [exceeds, hb] at hex
          | some bd =>
            simp only [exceeds, hb, decide_eq_true_eq, decide_eq_false_iff_not, not_lt] at hex hadm
            linarith
        exact ⟨⟨seen, disc, step_inv hinv (Step.drop (b, t) (rest.map Prod.snd) res seen disc hnil)⟩, hwb_rest⟩
    · cases hkl : kidList b t with
      | some kids =>
        simp only []
        have hexp := step_inv hinv (Step.expand (b, t) kids (rest.map Prod.snd) res seen disc (by simpa [octTree] using hkl))
        have hperm := foldr_insQ_perm q kids rest
        have hre : (kids ++ rest.map Prod.snd).Perm
            ((kids.foldr (fun bt acc => insQ (lb2 bt.1 q, bt) acc) rest).map Prod.snd) := by
          have := (hperm.map Prod.snd).symm
          simpa [List.map_append, List.map_map, Function.comp_def] using this
        refine ⟨⟨seen, disc, step_inv hexp (Step.reorder _ _ res seen disc hre)⟩, ?_⟩
        intro e he
        rcases List.mem_append.mp (hperm.subset he) with he | he
        · simp only [List.mem_map] at he
          obtain ⟨bt, hbt, rfl⟩ := he
          cases t with
          | empty => simp [kidList] at hkl; subst hkl; simp at hbt
          | leaf is => simp [kidList] at hkl
          | node ks =>
            simp only [kidList, Option.some.injEq] at hkl
            subst hkl
            simp only [List.mem_filter, List.mem_map] at hbt
            obtain ⟨⟨r, _, rfl⟩, _⟩ := hbt
            exact ⟨child_w_nonneg b _ hw, hWB r, le_refl _⟩
        · exact hwb_rest e he
      | none =>
        simp only []
        have hscan := step_inv hinv (Step.scan (b, t) (rest.map Prod.snd) res seen disc (by simpa [octTree] using hkl))
        have hfun : (fun r x => insKey k x r) = (fun r x => ins k x r) := by
          funext r x; exact insKey_eq k x r
        refine ⟨⟨((octTree pt q bound).pts (b, t)).reverse ++ seen, disc, ?_⟩, hwb_rest⟩
        simpa [octTree, admKeys, hfun] using hscan

theorem sim_iter (k : Nat) (all : List Key) (fuel : Nat) (s : CSt) (h : Sim pt q bound k all s) :
    Sim pt q bound k all (iter (step pt k bound q) fuel s) := by
  induction fuel generalizing s with
  | zero => exact h
  | succ n ih => exact ih _ (sim_step pt q bound k all s h)

/-- the initial state simulates the abstract system for any well-boxed tree -/
theorem sim_init (k : Nat) (root : Box) (t : Oct) (hw : 0 ≤ root.w) (hWB : WB pt root t) :
    Sim pt q bound k (admKeys pt q bound t.idxs) ⟨[(0, (root, t))], []⟩ := by
  refine ⟨⟨[], [], ⟨?_, isBest_nil k, by simp⟩⟩, ?_⟩
  · simp [octTree]
  · intro e he
    simp only [List.mem_singleton] at he
    subst he
    exact ⟨hw, hWB, lb2_nonneg q root⟩

/-- whenever the concrete best-first loop over a well-boxed octree has emptied its queue, its result heap holds
    the `k` best admissible keys of the indices stored in the tree -/
theorem knn_correct_tree (k : Nat) (root : Box) (t : Oct) (hw : 0 ≤ root.w) (hWB : WB pt root t) (fuel : Nat)
    (hq : (knnRun pt k bound root t q fuel).queue = []) :
    IsBest k (admKeys pt q bound t.idxs) (knnRun pt k bound root t q fuel).res := by
  have hfin := sim_iter pt q bound k _ fuel _ (sim_init pt q bound k root t hw hWB)
  obtain ⟨⟨seen, disc, hinv⟩, _⟩ := hfin
  have := final_best hinv (by simpa [knnRun] using congrArg (List.map Prod.snd) hq)
  simpa [knnRun] using this

theorem isBest_perm {k : Nat} {S S' r : List Key} (h : IsBest k S r) (hp : S.Perm S') : IsBest k S' r := by
  obtain ⟨hs, hl, rest, hperm, hrest⟩ := h
  exact ⟨hs, by rw [hl, hp.length_eq], rest, hp.symm.trans hperm, hrest⟩

/-- **C16_knn_refines (core)**: for the tree built over targets `0..n-1` inside the root box -/
theorem knn_correct (n depth k : Nat) (root : Box) (hw : 0 ≤ root.w)
    (hall : ∀ i, i < n → inBox root (pt i) = true) (fuel : Nat)
    (hq : (knnRun pt k bound root (build pt depth root (List.range n)) q fuel).queue = []) :
    IsBest k (admKeys pt q bound (List.range n)) (knnRun pt k bound root (build pt depth root (List.range n)) q fuel).res := by
  have h := knn_correct_tree pt q bound k root _ hw
    (WB_build pt depth root _ hw (fun i hi => hall i (List.mem_range.mp hi))) fuel hq
  refine isBest_perm h ?_
  exact ((keysOf_perm pt q (build_idxs_perm pt depth root (List.range n))).filter _)

end Femio.C16
