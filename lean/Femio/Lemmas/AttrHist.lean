import Femio.Model.Attr
import Femio.Lemmas.AttrProps
import Femio.Lemmas.AttrUpdate

/-! Histories with caller-retained slices / references, and collections (C08): helper lemmas. -/
open Attr

theorem step_eq_stepE (cfg : Cfg) (s : State) (op : Op) :
    step cfg s op = match stepE cfg s op with | .ok t => t | .error _ => s := by
  cases op with
  | update i r ow => cases ow <;> rfl
  | _ => rfl

/-- invariant of a history state: the attribute and every slice still held are consistent tables -/
def HInv (h : Hist) : Prop := AInv h.cur ∧ ∀ c ∈ h.held, AInv c

theorem mapM_option_length {α β} (f : α → Option β) (l : List α) (r : List β) (h : l.mapM f = some r) :
    r.length = l.length := by
  induction l generalizing r with
  | nil => simp at h; subst h; rfl
  | cons a t ih =>
    rw [List.mapM_cons] at h
    cases hfa : f a with
    | none => simp [hfa] at h
    | some b =>
      cases ht : t.mapM f with
      | none => simp [hfa, ht] at h
      | some bs =>
        simp [hfa, ht] at h
        subst h
        simp [ih bs ht]

theorem inv_take (s c : State) (sel : List Id) (h : take s sel = .ok c) : AInv c := by
  unfold take at h
  split at h
  · cases h
  · rename_i rows hr
    cases h
    refine ⟨rfl, ?_, ?_⟩
    · exact (mapM_option_length _ _ _ hr).symm
    · intro m hm
      cases hs : s.id2index <;> simp [hs] at hm
      exact hm.symm

theorem inv_takeI (s c : State) (pos : List Nat) (h : takeI s pos = .ok c) : AInv c := by
  unfold takeI at h
  split at h
  · cases h
  · exact inv_take s c _ h

theorem inv_of_stepE (s t : State) (op : Op) (h : AInv s) (ht : stepE Cfg.fixed s op = .ok t) : AInv t := by
  have := inv_step_fixed s op h
  rw [step_eq_stepE, ht] at this
  exact this

theorem inv_writeBack (p c t : State) (h : AInv p) (ht : writeBack Cfg.fixed p c = .ok t) : AInv t := by
  have := inv_of_stepE p t (.locWrite c.ids c.frame) h (by simpa [stepE, writeBack] using ht)
  exact this

theorem mem_set_cases {α} (l : List α) (k : Nat) (a x : α) (hx : x ∈ l.set k a) : x = a ∨ x ∈ l := by
  induction l generalizing k with
  | nil => simp at hx
  | cons b t ih =>
    cases k with
    | zero =>
      simp only [List.set_cons_zero, List.mem_cons] at hx
      rcases hx with h | h
      · exact Or.inl h
      · exact Or.inr (List.mem_cons_of_mem _ h)
    | succ j =>
      simp only [List.set_cons_succ, List.mem_cons] at hx
      rcases hx with h | h
      · exact Or.inr (h ▸ List.mem_cons_self)
      · rcases ih j h with h' | h'
        · exact Or.inl h'
        · exact Or.inr (List.mem_cons_of_mem _ h')

theorem refreshAliases_fixed (h : Hist) : refreshAliases Cfg.fixed h = h := by
  simp [refreshAliases, Cfg.fixed]

theorem inv_takeI1_fixed (s c : State) (k : Nat) (h : takeI1 Cfg.fixed s k = .ok c) : AInv c := by
  simp only [takeI1, Cfg.fixed, if_true] at h
  exact inv_takeI s c [k] h

theorem inv_heldApply (h : Hist) (k : Nat) (f : State → Except Err State)
    (hf : ∀ c c', AInv c → f c = .ok c' → AInv c') (hi : HInv h) : HInv (heldApply Cfg.fixed h k f).2 := by
  unfold heldApply
  split
  · exact hi
  · rename_i c hk
    have hc : AInv c := hi.2 c (List.mem_of_getElem? hk)
    split
    · exact hi
    · rename_i c' hfc
      have hc' : AInv c' := hf c c' hc hfc
      have hheld : ∀ x ∈ h.held.set k c', AInv x := by
        intro x hx
        rcases mem_set_cases _ _ _ _ hx with h1 | h1
        · exact h1 ▸ hc'
        · exact hi.2 x h1
      simp only
      split
      · exact ⟨hi.1, hheld⟩
      · rename_i p' hw
        rw [refreshAliases_fixed]
        exact ⟨inv_writeBack h.cur c' p' hi.1 hw, hheld⟩

theorem inv_updateOverwrite_fixed (c c' : State) (i : List Id) (r : List Row) (h : AInv c)
    (hc : updateOverwrite Cfg.fixed c i r = .ok c') : AInv c' :=
  inv_of_stepE c c' (.update i r true) h (by simpa [stepE] using hc)

theorem inv_setData (c c' : State) (v : List Row) (h : AInv c) (hc : setData c v = .ok c') : AInv c' :=
  inv_of_stepE c c' (.setData v) h (by simpa [stepE] using hc)

/-- every step of a history with retained slices and references preserves the invariant -/
theorem hinv_step_fixed (h : Hist) (op : HOp) (hi : HInv h) : HInv (hstep Cfg.fixed h op) := by
  unfold hstep
  cases op with
  | pub op =>
    simp only [hstepE]
    cases hs : stepE Cfg.fixed h.cur op with
    | error e => exact hi
    | ok t =>
      have ht := inv_of_stepE h.cur t op hi.1 hs
      cases op <;> simp only [refreshAliases_fixed, severAll] <;>
        first | exact ⟨ht, hi.2⟩ | exact ⟨ht, by intro c hc; simp at hc⟩
  | keepRef => exact hi
  | take sel =>
    simp only [hstepE]
    cases hs : take h.cur sel with
    | error e => exact hi
    | ok c =>
      refine ⟨hi.1, ?_⟩
      intro x hx
      rcases List.mem_append.mp hx with h1 | h1
      · exact hi.2 x h1
      · simp at h1; exact h1 ▸ inv_take h.cur c sel hs
  | takeI pos =>
    simp only [hstepE]
    cases hs : takeI h.cur pos with
    | error e => exact hi
    | ok c =>
      refine ⟨hi.1, ?_⟩
      intro x hx
      rcases List.mem_append.mp hx with h1 | h1
      · exact hi.2 x h1
      · simp at h1; exact h1 ▸ inv_takeI h.cur c pos hs
  | takeI1 k =>
    simp only [hstepE]
    cases hs : takeI1 Cfg.fixed h.cur k with
    | error e => exact hi
    | ok c =>
      refine ⟨hi.1, ?_⟩
      intro x hx
      rcases List.mem_append.mp hx with h1 | h1
      · exact hi.2 x h1
      · simp at h1; exact h1 ▸ inv_takeI1_fixed h.cur c k hs
  | takeView pos =>
    simp only [hstepE]
    cases hs : takeI h.cur pos with
    | error e => exact hi
    | ok c =>
      refine ⟨hi.1, ?_⟩
      intro x hx
      rcases List.mem_append.mp hx with h1 | h1
      · exact hi.2 x h1
      · simp at h1; exact h1 ▸ inv_takeI h.cur c pos hs
  | heldSet k v =>
    exact inv_heldApply h k _ (fun c c' hc hcc => inv_setData c c' v hc hcc) hi
  | heldUpdate k i r =>
    exact inv_heldApply h k _ (fun c c' hc hcc => inv_updateOverwrite_fixed c c' i r hc hcc) hi
  | drop k =>
    refine ⟨hi.1, ?_⟩
    intro x hx
    exact hi.2 x ((List.eraseIdx_sublist _ _).subset hx)

theorem hinv_reachable_fixed (h : Hist) (ops : List HOp) (hi : HInv h) : HInv (ops.foldl (hstep Cfg.fixed) h) := by
  induction ops generalizing h with
  | nil => exact hi
  | cons op ops ih => exact ih _ (hinv_step_fixed h op hi)

/-! ### what a write through a slice does, stated on the id-keyed table of the parent AS IT IS NOW -/

theorem lookupRow_setRow (ids : List Id) (rows : List Row) (hl : ids.length = rows.length) (i j : Id) (r : Row) :
    lookupRow ids (setRow ids rows i r) j = if j = i then (lookupRow ids rows j).map (fun _ => r) else lookupRow ids rows j := by
  induction ids generalizing rows with
  | nil => cases rows <;> simp [lookupRow, setRow]
  | cons a t ih =>
    cases rows with
    | nil => simp at hl
    | cons q qs =>
      have hl' : t.length = qs.length := by simpa using hl
      simp only [setRow, lookupRow]
      by_cases haj : a = j
      · subst haj
        by_cases hai : a = i
        · simp [hai]
        · have : ¬ (a = i) := hai
          simp [hai]
      · simp only [haj, if_false]
        exact ih qs hl'

/-- fold of `setRow` over (id, row) pairs with distinct ids: a selected id that is present holds its new row,
every other id keeps its row -/
theorem lookupRow_foldl_setRow (ids : List Id) (ps : List (Id × Row)) (rows : List Row) (hl : ids.length = rows.length)
    (hn : (ps.map Prod.fst).Nodup) (j : Id) :
    lookupRow ids (ps.foldl (fun fr (p : Id × Row) => setRow ids fr p.1 p.2) rows) j =
      match assocLookup j ps with
      | some r => (lookupRow ids rows j).map (fun _ => r)
      | none => lookupRow ids rows j := by
  induction ps generalizing rows with
  | nil => simp [assocLookup]
  | cons p ps ih =>
    obtain ⟨i, r⟩ := p
    rw [List.map_cons, List.nodup_cons] at hn
    simp only [List.foldl_cons]
    rw [ih (setRow ids rows i r) (by rw [setRow_length]; exact hl) hn.2]
    simp only [assocLookup]
    by_cases hij : i = j
    · subst hij
      have : assocLookup i ps = none := assocLookup_none_of_not_mem ps i hn.1
      simp [this, lookupRow_setRow ids rows hl]
    · have hji : ¬ (j = i) := fun h => hij h.symm
      simp only [hij, if_false]
      rw [lookupRow_setRow ids rows hl, if_neg hji]

/-- `posOf` agrees with the id-keyed lookup: the row found by id is the row at the id's own position -/
theorem lookupRow_posOf (ids : List Id) (rows : List Row) (hl : ids.length = rows.length) (i : Id) :
    lookupRow ids rows i = (posOf ids i).bind (fun k => rows[k]?) := by
  induction ids generalizing rows with
  | nil => cases rows <;> simp [lookupRow, posOf]
  | cons a t ih =>
    cases rows with
    | nil => simp at hl
    | cons q qs =>
      simp only [lookupRow, posOf]
      by_cases h : a = i
      · simp [h]
      · simp only [h, if_false]
        rw [ih qs (by simpa using hl)]
        cases posOf t i <;> simp
