import Femio.Model.GeomKernels
import Mathlib.Data.List.Perm.Basic
import Mathlib.Data.List.Nodup
/-! C11: `collect_node_positions_by_ids` is a lookup by id — invariant under storage permutations and injective
    relabelling; assembly of per-type results on mixed meshes. -/
namespace Femio.C11
open Core

section Lookup
variable {α : Type}

theorem nodePos_nil (i : Nat) : nodePos ([] : List (Nat × α)) i = none := rfl

theorem nodePos_cons (a : Nat) (v : α) (t : List (Nat × α)) (i : Nat) :
    nodePos ((a, v) :: t) i = if a = i then some v else nodePos t i := by
  unfold nodePos
  simp only [List.map_cons, idPos]
  by_cases h : a = i
  · simp [h]
  · simp only [h, if_false]
    cases idPos (t.map (·.1)) i with
    | none => rfl
    | some k => simp

/-- with distinct ids, the lookup finds exactly the stored pair -/
theorem nodePos_eq_some_iff (nodes : List (Nat × α)) (hn : (nodes.map (·.1)).Nodup) (i : Nat) (v : α) :
    nodePos nodes i = some v ↔ (i, v) ∈ nodes := by
  induction nodes with
  | nil => simp [nodePos_nil]
  | cons p t ih =>
    obtain ⟨a, w⟩ := p
    simp only [List.map_cons, List.nodup_cons] at hn
    rw [nodePos_cons]
    by_cases h : a = i
    · subst h
      simp only [if_true, Option.some.injEq, List.mem_cons, Prod.mk.injEq, true_and]
      constructor
      · intro h; exact Or.inl h.symm
      · rintro (h | h)
        · exact h.symm
        · exact absurd (List.mem_map_of_mem (f := (·.1)) h) hn.1
    · simp only [h, if_false, List.mem_cons, Prod.mk.injEq]
      rw [ih hn.2]
      constructor
      · intro h'; exact Or.inr h'
      · rintro (⟨h', _⟩ | h')
        · exact absurd h'.symm h
        · exact h'

/-- storage order of the nodes is immaterial -/
theorem nodePos_perm {nodes nodes' : List (Nat × α)} (hp : nodes.Perm nodes')
    (hn : (nodes.map (·.1)).Nodup) (i : Nat) : nodePos nodes' i = nodePos nodes i := by
  have hn' : (nodes'.map (·.1)).Nodup := (hp.map _).nodup_iff.mp hn
  apply Option.ext
  intro v
  rw [nodePos_eq_some_iff nodes' hn', nodePos_eq_some_iff nodes hn, hp.mem_iff]

/-- an injective relabelling of the node ids is immaterial -/
theorem nodePos_relabel (σ : Nat → Nat) (hσ : Function.Injective σ) (nodes : List (Nat × α)) (i : Nat) :
    nodePos (nodes.map fun p => (σ p.1, p.2)) (σ i) = nodePos nodes i := by
  induction nodes with
  | nil => rfl
  | cons p t ih =>
    obtain ⟨a, w⟩ := p
    simp only [List.map_cons, nodePos_cons, ih]
    by_cases h : a = i
    · simp [h]
    · have : σ a ≠ σ i := fun h' => h (hσ h')
      simp [h, this]

theorem gather_perm {nodes nodes' : List (Nat × α)} (hp : nodes.Perm nodes')
    (hn : (nodes.map (·.1)).Nodup) (conn : List Nat) : gather nodes' conn = gather nodes conn := by
  unfold gather
  congr 1
  funext i
  exact nodePos_perm hp hn i

theorem gather_relabel (σ : Nat → Nat) (hσ : Function.Injective σ) (nodes : List (Nat × α)) (conn : List Nat) :
    gather (nodes.map fun p => (σ p.1, p.2)) (conn.map σ) = gather nodes conn := by
  unfold gather
  rw [List.mapM_map]
  congr 1
  funext i
  exact nodePos_relabel σ hσ nodes i

end Lookup

/-! ### assembly of a mixed mesh -/

section Assemble
variable {β : Type}

theorem insertKey_perm (a : Nat × β) (l : List (Nat × β)) : (insertKey a l).Perm (a :: l) := by
  induction l with
  | nil => exact List.Perm.refl _
  | cons b t ih =>
    unfold insertKey
    split
    · exact List.Perm.refl _
    · exact (List.Perm.cons b ih).trans (List.Perm.swap a b t)

theorem sortKey_perm (l : List (Nat × β)) : (sortKey l).Perm l := by
  induction l with
  | nil => exact List.Perm.refl _
  | cons a t ih => exact (insertKey_perm a _).trans (List.Perm.cons a ih)

/-- repaired configuration: the assembled result is a permutation of the blocks' own (id, value) pairs -/
theorem assemble_fixed_perm (blocks : List (List (Nat × β))) :
    (assemble Cfg.fixed blocks).Perm blocks.flatten := by
  unfold assemble
  split
  · simp
  · have h : ∀ bs : List (List (Nat × β)), bs.flatMap (assembleBlock Cfg.fixed) = bs.flatten := by
      intro bs
      induction bs with
      | nil => rfl
      | cons b t ih =>
        rw [List.flatMap_cons, List.flatten_cons, ih]
        simp only [assembleBlock, Cfg.fixed, if_true]
    rw [h]
    exact sortKey_perm _

end Assemble

end Femio.C11
