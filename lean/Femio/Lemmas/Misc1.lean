import Mathlib.Algebra.Order.Field.Basic
import Mathlib.Algebra.Order.BigOperators.Group.Finset
import Mathlib.Algebra.BigOperators.Field
import Mathlib.Tactic.Linarith
import Mathlib.Tactic.Ring
import Mathlib.Tactic.Positivity

/-! ### C16_lb_sound : clamp lower bound, per coordinate, squared distances (no sqrt) -/
section LB
variable {K : Type} [Field K] [LinearOrder K] [IsStrictOrderedRing K]

/-- `min(hi, max(lo, x))` -/
def clamp (lo hi x : K) : K := min hi (max lo x)

theorem clamp_sq_le (lo hi x p : K) (h1 : lo ≤ p) (h2 : p ≤ hi) :
    (x - clamp lo hi x) ^ 2 ≤ (x - p) ^ 2 := by
  unfold clamp
  rcases le_total x lo with hx | hx
  · -- x ≤ lo ≤ p
    have hlohi : lo ≤ hi := le_trans h1 h2
    rw [max_eq_left hx, min_eq_right hlohi]
    nlinarith
  · rw [max_eq_right hx]
    rcases le_total x hi with hx2 | hx2
    · rw [min_eq_right hx2]; nlinarith [sq_nonneg (x - p)]
    · rw [min_eq_left hx2]; nlinarith

/-- box lower bound in 3-D -/
theorem lb_sound (cx cy cz w x y z px py pz : K)
    (hx : cx - w ≤ px ∧ px ≤ cx + w) (hy : cy - w ≤ py ∧ py ≤ cy + w) (hz : cz - w ≤ pz ∧ pz ≤ cz + w) :
    (x - clamp (cx - w) (cx + w) x) ^ 2 + (y - clamp (cy - w) (cy + w) y) ^ 2 + (z - clamp (cz - w) (cz + w) z) ^ 2
      ≤ (x - px) ^ 2 + (y - py) ^ 2 + (z - pz) ^ 2 := by
  have := clamp_sq_le _ _ x px hx.1 hx.2
  have := clamp_sq_le _ _ y py hy.1 hy.2
  have := clamp_sq_le _ _ z pz hz.1 hz.2
  linarith

/-- pruned maximum (Hausdorff): skipping terms known to be ≤ the running maximum changes nothing -/
theorem foldl_max_skip (f : ℕ → K) (skip : ℕ → Bool) (l : List ℕ) (acc : K)
    (hskip : ∀ a ∈ l, skip a = true → f a ≤ acc) :
    l.foldl (fun m a => if skip a then m else max m (f a)) acc = l.foldl (fun m a => max m (f a)) acc := by
  induction l generalizing acc with
  | nil => rfl
  | cons a t ih =>
    simp only [List.foldl_cons]
    by_cases hs : skip a = true
    · have hle : f a ≤ acc := hskip a (by simp) hs
      simp only [hs, if_true, max_eq_left hle]
      exact ih acc (fun b hb h => hskip b (List.mem_cons_of_mem _ hb) h)
    · simp only [hs, if_false, Bool.false_eq_true]
      apply ih
      intro b hb h
      exact le_trans (hskip b (List.mem_cons_of_mem _ hb) h) (le_max_left _ _)
end LB

/-! ### C09_sweep_correct : the two-pointer sweep of remove_useless_nodes -/
section Sweep
def sweep : List Nat → List Nat → List Bool
  | [], _ => []
  | _ :: os, [] => false :: sweep os []
  | o :: os, u :: us => if o ≠ u then false :: sweep os (u :: us) else true :: sweep os us

theorem sweep_nil (os : List Nat) : sweep os [] = os.map (fun _ => false) := by
  induction os with
  | nil => rfl
  | cons o t ih => simp [sweep, ih]

theorem sweep_correct (orig useful : List Nat)
    (ho : orig.Pairwise (· < ·)) (hu : useful.Pairwise (· < ·)) (hsub : ∀ u ∈ useful, u ∈ orig) :
    sweep orig useful = orig.map (fun o => decide (o ∈ useful)) := by
  induction orig generalizing useful with
  | nil => simp [sweep]
  | cons o os ih =>
    cases useful with
    | nil => simp [sweep, sweep_nil]
    | cons u us =>
      simp only [List.pairwise_cons] at ho hu
      by_cases hou : o = u
      · subst hou
        simp only [sweep, ne_eq, not_true_eq_false, if_false, List.map_cons, List.mem_cons, true_or, decide_true]
        congr 1
        rw [ih us ho.2 hu.2 ?_]
        · apply List.map_congr_left
          intro x hx
          have : x ≠ o := ne_of_gt (ho.1 x hx)
          simp [this]
        · intro v hv
          have hvo : v ∈ o :: os := hsub v (List.mem_cons_of_mem _ hv)
          rcases List.mem_cons.mp hvo with h | h
          · exact absurd h (ne_of_gt (hu.1 v hv))
          · exact h
      · -- o is not the smallest useful id, hence not useful at all (useful ⊆ orig, both ascending)
        have hnot : o ∉ u :: us := by
          intro hmem
          rcases List.mem_cons.mp hmem with h | h
          · exact hou h
          · -- u < o, u ∈ orig, u ≠ o → u ∈ os → o < u : contradiction
            have hu_lt : u < o := hu.1 o h
            have : u ∈ o :: os := hsub u (by simp)
            rcases List.mem_cons.mp this with h' | h'
            · omega
            · have := ho.1 u h'; omega
        simp only [sweep, ne_eq, hou, not_false_eq_true, if_true, List.map_cons, hnot, decide_false]
        congr 1
        apply ih (u :: us) ho.2 (List.pairwise_cons.mpr hu)
        intro v hv
        have hvo := hsub v hv
        rcases List.mem_cons.mp hvo with h | h
        · exact absurd (h ▸ hv) hnot
        · exact h
end Sweep

/-! ### C14_bounds : a convex combination stays within the range of its inputs -/
section Convex
variable {K : Type} [Field K] [LinearOrder K] [IsStrictOrderedRing K] {ι : Type}
open BigOperators
theorem convex_bounds (s : Finset ι) (w x : ι → K) (lo hi : K)
    (hw : ∀ i ∈ s, 0 ≤ w i) (hsum : ∑ i ∈ s, w i = 1)
    (hlo : ∀ i ∈ s, w i ≠ 0 → lo ≤ x i) (hhi : ∀ i ∈ s, w i ≠ 0 → x i ≤ hi) :
    lo ≤ ∑ i ∈ s, w i * x i ∧ ∑ i ∈ s, w i * x i ≤ hi := by
  constructor
  · calc lo = ∑ i ∈ s, w i * lo := by rw [← Finset.sum_mul, hsum, one_mul]
      _ ≤ ∑ i ∈ s, w i * x i := by
        apply Finset.sum_le_sum
        intro i hi'
        by_cases h0 : w i = 0
        · simp [h0]
        · exact mul_le_mul_of_nonneg_left (hlo i hi' h0) (hw i hi')
  · have h1 : ∑ i ∈ s, w i * x i ≤ ∑ i ∈ s, w i * hi := by
      apply Finset.sum_le_sum
      intro i hi'
      by_cases h0 : w i = 0
      · simp [h0]
      · exact mul_le_mul_of_nonneg_left (hhi i hi' h0) (hw i hi')
    have h2 : ∑ i ∈ s, w i * hi = hi := by rw [← Finset.sum_mul, hsum, one_mul]
    linarith
end Convex
#print axioms lb_sound
#print axioms sweep_correct
#print axioms convex_bounds
