import Femio.Lemmas.C20Steps

/-! C20 — removal of a node with at most two neighbours from every face of a closed cell (`remove_vertices_2`).

For a face `f` (simple cycle) through `v`, written cyclically as `v :: h :: … :: l`, removing `v` replaces the two
edges `l → v → h` by the *bridge* `l → h`.  `esum ω` is the sum of an arbitrary edge weight `ω`; `face_remove`
gives the change of `esum ω` per face; `bridge_sum` shows that for a closed cell and a node whose neighbours lie in
`{a, b}` the bridges cancel for every antisymmetric weight.  Closedness (`ω` = signed indicator of an edge) and the
total flux (`ω` = `det u · ·`) both follow. -/
namespace Femio.C20
open Faces

section Esum
variable {R : Type} [CommRing R]

/-- sum of an edge weight over a list of directed edges -/
def esum (ω : Nat × Nat → R) (es : List (Nat × Nat)) : R := (es.map ω).sum

theorem esum_nil (ω : Nat × Nat → R) : esum ω [] = 0 := rfl
theorem esum_cons (ω : Nat × Nat → R) (e : Nat × Nat) (es : List (Nat × Nat)) :
    esum ω (e :: es) = ω e + esum ω es := by simp [esum]
theorem esum_append (ω : Nat × Nat → R) (e1 e2 : List (Nat × Nat)) :
    esum ω (e1 ++ e2) = esum ω e1 + esum ω e2 := by simp [esum]
theorem esum_perm (ω : Nat × Nat → R) {e1 e2 : List (Nat × Nat)} (h : e1.Perm e2) : esum ω e1 = esum ω e2 :=
  (h.map ω).sum_eq
theorem esum_rot (ω : Nat × Nat → R) {f g : Face} (h : f ~r g) : esum ω (dirEdges f) = esum ω (dirEdges g) :=
  esum_perm ω (isRotated_dirEdges h)

end Esum

/-! ### one face -/
/-- `F[F != v]` -/
def rmF (v : Nat) (f : Face) : Face := f.filter fun x => !(x == v)
def rmV (v : Nat) (c : Cell) : Cell := c.map (rmF v)

/-- the face read cyclically after its (first) occurrence of `v` -/
def restOf (v : Nat) (f : Face) : List Nat :=
  (f.dropWhile fun x => !(x == v)).tail ++ f.takeWhile fun x => !(x == v)

def lastOf (h : Nat) : List Nat → Nat
  | [] => h
  | x :: t => lastOf x t

theorem lastOf_mem (h : Nat) (m : List Nat) : lastOf h m ∈ h :: m := by
  induction m generalizing h with
  | nil => simp [lastOf]
  | cons x t ih => rw [lastOf]; exact List.mem_cons_of_mem _ (ih x)

theorem decomp_of_mem {v : Nat} {f : Face} (h : v ∈ f) :
    f = (f.takeWhile fun x => !(x == v)) ++ v :: (f.dropWhile fun x => !(x == v)).tail := by
  induction f with
  | nil => simp at h
  | cons a t ih =>
    by_cases hav : a = v
    · subst hav; simp [List.takeWhile, List.dropWhile]
    · have hv : v ∈ t := by
        rcases List.mem_cons.mp h with h | h
        · exact absurd h.symm hav
        · exact h
      have := ih hv
      have hb : (!(a == v)) = true := by simp [hav]
      simp only [List.takeWhile_cons, List.dropWhile_cons, hb, if_true, List.cons_append]
      exact congrArg (a :: ·) this

theorem rot_restOf {v : Nat} {f : Face} (h : v ∈ f) : f ~r v :: restOf v f := by
  have hd := decomp_of_mem h
  set l1 := f.takeWhile fun x => !(x == v)
  set l2 := (f.dropWhile fun x => !(x == v)).tail
  have : restOf v f = l2 ++ l1 := rfl
  rw [this, hd]
  exact ⟨l1.length, by rw [List.rotate_append_length_eq]; simp⟩

theorem rmF_of_not_mem {v : Nat} {f : Face} (h : v ∉ f) : rmF v f = f := by
  unfold rmF
  rw [List.filter_eq_self]
  intro x hx
  have : x ≠ v := fun e => h (e ▸ hx)
  simp [this]

theorem not_mem_rmF (v : Nat) (f : Face) : v ∉ rmF v f := by
  simp [rmF, List.mem_filter]

theorem rmF_nodup {v : Nat} {f : Face} (h : f.Nodup) : (rmF v f).Nodup := h.filter _

theorem rmF_sub {v x : Nat} {f : Face} (h : x ∈ rmF v f) : x ∈ f := (List.mem_filter.mp h).1

/-- for a simple cycle through `v`: `v ∉ rest`, `rest` simple, and the face without `v` is `rest` up to rotation -/
theorem restOf_spec {v : Nat} {f : Face} (hn : f.Nodup) (h : v ∈ f) :
    v ∉ restOf v f ∧ (restOf v f).Nodup ∧ rmF v f ~r restOf v f := by
  have hr := rot_restOf h
  have hnd : (v :: restOf v f).Nodup := hr.nodup_iff.mp hn
  rw [List.nodup_cons] at hnd
  refine ⟨hnd.1, hnd.2, ?_⟩
  have hd := decomp_of_mem h
  set l1 := f.takeWhile fun x => !(x == v)
  set l2 := (f.dropWhile fun x => !(x == v)).tail
  have hrest : restOf v f = l2 ++ l1 := rfl
  have h1 : v ∉ l1 := fun hm => hnd.1 (by rw [hrest]; exact List.mem_append_right _ hm)
  have h2 : v ∉ l2 := fun hm => hnd.1 (by rw [hrest]; exact List.mem_append_left _ hm)
  have : rmF v f = l1 ++ l2 := by
    conv_lhs => rw [hd]
    unfold rmF
    rw [List.filter_append, List.filter_cons]
    simp only [beq_self_eq_true, Bool.not_true, Bool.false_eq_true, if_false]
    have e1 := rmF_of_not_mem h1
    have e2 := rmF_of_not_mem h2
    unfold rmF at e1 e2
    rw [e1, e2]
  rw [this, hrest]
  exact List.isRotated_append

theorem pathEdges_snoc (h : Nat) (m : List Nat) (z : Nat) :
    pathEdges (h :: m ++ [z]) = pathEdges (h :: m) ++ [(lastOf h m, z)] := by
  induction m generalizing h with
  | nil => simp [pathEdges, lastOf]
  | cons x t ih =>
    have := ih x
    simp only [List.cons_append] at this ⊢
    rw [pathEdges, this, pathEdges, lastOf, List.cons_append]

theorem mem_of_mem_pathEdges {e : Nat × Nat} {l : List Nat} (h : e ∈ pathEdges l) : e.1 ∈ l ∧ e.2 ∈ l := by
  obtain ⟨x, y⟩ := e
  obtain ⟨l1, l2, rfl⟩ := mem_pathEdges.mp h
  simp

theorem mem_of_mem_dirEdges {e : Nat × Nat} {f : Face} (h : e ∈ dirEdges f) : e.1 ∈ f ∧ e.2 ∈ f := by
  cases f with
  | nil => simp [dirEdges] at h
  | cons a t =>
    rw [dirEdges_eq_pathEdges] at h
    have := mem_of_mem_pathEdges h
    have conv : ∀ x, x ∈ a :: t ++ [a] → x ∈ a :: t := by
      intro x hx
      rcases List.mem_append.mp hx with hx | hx
      · exact hx
      · rw [List.mem_singleton.mp hx]; exact List.mem_cons_self
    exact ⟨conv _ this.1, conv _ this.2⟩

theorem dirEdges_rest (h : Nat) (m : List Nat) :
    dirEdges (h :: m) = pathEdges (h :: m) ++ [(lastOf h m, h)] := by
  rw [dirEdges_eq_pathEdges, pathEdges_snoc]

theorem dirEdges_v_rest (v h : Nat) (m : List Nat) :
    dirEdges (v :: h :: m) = (v, h) :: (pathEdges (h :: m) ++ [(lastOf h m, v)]) := by
  rw [dirEdges_cons_cons, pathEdges_snoc]

section FaceRemove
variable {R : Type} [CommRing R]

/-- what removing `v` adds to `esum ω` of a face `v :: rest` -/
def corr (ω : Nat × Nat → R) (v : Nat) : List Nat → R
  | [] => - ω (v, v)
  | h :: m => ω (lastOf h m, h) - ω (v, h) - ω (lastOf h m, v)

theorem face_remove (ω : Nat × Nat → R) {v : Nat} {f : Face} (hn : f.Nodup) (hv : v ∈ f) :
    esum ω (dirEdges (rmF v f)) = esum ω (dirEdges f) + corr ω v (restOf v f) := by
  obtain ⟨_, _, hrot⟩ := restOf_spec hn hv
  rw [esum_rot ω hrot, esum_rot ω (rot_restOf hv)]
  cases hr : restOf v f with
  | nil => simp [dirEdges, esum, corr]
  | cons h m =>
    rw [dirEdges_rest, dirEdges_v_rest, corr]
    simp only [esum_cons, esum_append, esum_nil]
    ring

end FaceRemove

/-! ### the bridges of a closed cell cancel -/

/-- all neighbours of `v` in the edge list are among `a`, `b` (or `v` itself) -/
def NbrIn (es : List (Nat × Nat)) (v a b : Nat) : Prop :=
  ∀ e ∈ es, (e.1 = v → e.2 = a ∨ e.2 = b ∨ e.2 = v) ∧ (e.2 = v → e.1 = a ∨ e.1 = b ∨ e.1 = v)

section Bridge
variable {R : Type} [CommRing R]

/-- weight of the bridge `l → h` created in a face by removing `v` -/
def br (ψ : Nat → Nat → R) (v : Nat) (f : Face) : R :=
  if v ∈ f then
    match restOf v f with
    | [] => 0
    | h :: m => ψ (lastOf h m) h
  else 0

theorem count_zero_of_not_mem_path {x y : Nat} {l : List Nat} (h : x ∉ l ∨ y ∉ l) : (pathEdges l).count (x, y) = 0 := by
  rw [List.count_eq_zero]
  intro hm
  have := mem_of_mem_pathEdges hm
  rcases h with h | h
  · exact h this.1
  · exact h this.2

theorem wt_of_not_mem {v : Nat} {f : Face} (h : v ∉ f) (a : Nat) : wt (a, v) f = 0 := by
  unfold wt
  have h1 : (dirEdges f).count (a, v) = 0 := by
    rw [List.count_eq_zero]; intro hm; exact h (mem_of_mem_dirEdges hm).2
  have h2 : (dirEdges f).count (v, a) = 0 := by
    rw [List.count_eq_zero]; intro hm; exact h (mem_of_mem_dirEdges hm).1
  simp [h1, h2]

theorem br_eq (ψ : Nat → Nat → R) (hanti : ∀ x y, ψ y x = - ψ x y) (hdiag : ∀ x, ψ x x = 0)
    {v a b : Nat} {f : Face} (hn : f.Nodup) (hnb : NbrIn (dirEdges f) v a b) :
    br ψ v f = ((wt (a, v) f : ℤ) : R) * ψ a b := by
  unfold br
  by_cases hv : v ∈ f
  · rw [if_pos hv]
    obtain ⟨hvr, _, _⟩ := restOf_spec hn hv
    have hrot := rot_restOf hv
    obtain ⟨k, hk⟩ := hrot
    have hwt : wt (a, v) f = wt (a, v) (v :: restOf v f) := by rw [← hk, wt_rotate]
    have hmem : ∀ e, e ∈ dirEdges (v :: restOf v f) → e ∈ dirEdges f :=
      fun e he => (isRotated_dirEdges ⟨k, hk⟩).mem_iff.mpr he
    rw [hwt]
    cases hr : restOf v f with
    | nil =>
      have : wt (a, v) [v] = 0 := by
        unfold wt
        simp only [dirEdges, List.nil_append, List.zip_cons_cons, List.zip_nil_right, List.count_cons, List.count_nil,
          beq_iff_eq, Prod.mk.injEq]
        by_cases h : v = a
        · simp [h]
        · have h' : ¬ (v = a ∧ v = v) := fun hh => h hh.1
          have h'' : ¬ (v = v ∧ v = a) := fun hh => h hh.2
          simp [h', h'']
      simp [this]
    | cons h m =>
      show ψ (lastOf h m) h = ((wt (a, v) (v :: h :: m) : ℤ) : R) * ψ a b
      rw [hr] at hvr
      have hh : h ≠ v := fun e => hvr (e ▸ List.mem_cons_self)
      have hl : lastOf h m ≠ v := fun e => hvr (e ▸ lastOf_mem h m)
      have e1 : (v, h) ∈ dirEdges f := hmem _ (by rw [hr, dirEdges_v_rest]; simp)
      have e2 : (lastOf h m, v) ∈ dirEdges f := hmem _ (by rw [hr, dirEdges_v_rest]; simp)
      have hh' : h = a ∨ h = b := by
        rcases (hnb _ e1).1 rfl with h' | h' | h'
        · exact Or.inl h'
        · exact Or.inr h'
        · exact absurd h' hh
      have hl' : lastOf h m = a ∨ lastOf h m = b := by
        rcases (hnb _ e2).2 rfl with h' | h' | h'
        · exact Or.inl h'
        · exact Or.inr h'
        · exact absurd h' hl
      have hw : wt (a, v) (v :: h :: m) = (if lastOf h m = a then 1 else 0) - (if h = a then 1 else 0) := by
        unfold wt
        rw [dirEdges_v_rest]
        simp only [List.count_cons, List.count_append, List.count_nil,
          count_zero_of_not_mem_path (Or.inr hvr : a ∉ h :: m ∨ v ∉ h :: m),
          count_zero_of_not_mem_path (Or.inl hvr : v ∉ h :: m ∨ a ∉ h :: m), beq_iff_eq, Prod.mk.injEq]
        have c1 : ¬ (v = a ∧ h = v) := fun hh2 => hh hh2.2
        have c2 : ¬ (lastOf h m = v ∧ v = a) := fun hh2 => hl hh2.1
        simp only [c1, c2, if_false, eq_self_iff_true, and_true, true_and]
        push_cast
        ring
      rw [hw]
      set l := lastOf h m
      rcases hl' with hla | hlb <;> rcases hh' with hha | hhb
      · rw [hla, hha, hdiag]; simp
      · rw [hla, hhb]
        by_cases hab : b = a
        · rw [hab, hdiag]; simp
        · simp [hab]
      · rw [hlb, hha]
        by_cases hab : b = a
        · rw [hab, hdiag]; simp
        · simp [hab, hanti a b]
      · rw [hlb, hhb, hdiag]
        by_cases hab : b = a
        · simp [hab]
        · simp [hab]
  · rw [if_neg hv, wt_of_not_mem hv]; simp

theorem nbrIn_sub {es es' : List (Nat × Nat)} {v a b : Nat} (h : NbrIn es v a b) (hs : ∀ e ∈ es', e ∈ es) :
    NbrIn es' v a b := fun e he => h e (hs e he)

/-- **the bridges cancel**: closed cell, simple faces, neighbours of `v` in `{a, b}` -/
theorem bridge_sum (ψ : Nat → Nat → R) (hanti : ∀ x y, ψ y x = - ψ x y) (hdiag : ∀ x, ψ x x = 0)
    {v a b : Nat} {c : Cell} (hn : ∀ f ∈ c, f.Nodup) (hbal : Bal (edgesOf c)) (hnb : NbrIn (edgesOf c) v a b) :
    (c.map (br ψ v)).sum = 0 := by
  have h1 : (c.map (br ψ v)).sum = (((c.map (wt (a, v))).sum : ℤ) : R) * ψ a b := by
    have : ∀ c' : Cell, (∀ f ∈ c', f ∈ c) → (c'.map (br ψ v)).sum = (((c'.map (wt (a, v))).sum : ℤ) : R) * ψ a b := by
      intro c'
      induction c' with
      | nil => intro _; simp
      | cons f t ih =>
        intro hsub
        have hf : f ∈ c := hsub f List.mem_cons_self
        have hnbf : NbrIn (dirEdges f) v a b := nbrIn_sub hnb fun e he => by
          unfold edgesOf; exact List.mem_flatMap.mpr ⟨f, hf, he⟩
        simp only [List.map_cons, List.sum_cons, ih fun g hg => hsub g (List.mem_cons_of_mem _ hg),
          br_eq ψ hanti hdiag (hn f hf) hnbf]
        push_cast; ring
    exact this c fun f hf => hf
  rw [h1, sum_wt, hbal (a, v)]
  simp

end Bridge

/-! ### closedness after removing one node -/

/-- signed indicator of the directed edge `e` -/
def ωe (e : Nat × Nat) : Nat × Nat → ℤ := fun x => (if x = e then 1 else 0) - (if x = (e.2, e.1) then 1 else 0)

theorem count_sub_eq_esum (e : Nat × Nat) (l : List (Nat × Nat)) :
    ((l.count e : ℤ) - (l.count (e.2, e.1) : ℤ)) = esum (ωe e) l := by
  induction l with
  | nil => simp [esum]
  | cons x t ih =>
    rw [esum_cons, ← ih, List.count_cons, List.count_cons]
    simp only [ωe, beq_iff_eq]
    push_cast
    ring

theorem wt_eq_esum (e : Nat × Nat) (f : Face) : wt e f = esum (ωe e) (dirEdges f) := count_sub_eq_esum e _

theorem ωe_anti (e : Nat × Nat) (x y : Nat) : ωe e (y, x) = - ωe e (x, y) := by
  obtain ⟨p, q⟩ := e
  simp only [ωe, Prod.mk.injEq]
  have h1 : (y = p ∧ x = q) ↔ (x = q ∧ y = p) := And.comm
  have h2 : (y = q ∧ x = p) ↔ (x = p ∧ y = q) := And.comm
  simp only [h1, h2]
  ring

theorem ωe_diag (e : Nat × Nat) (x : Nat) : ωe e (x, x) = 0 := by
  have := ωe_anti e x x
  omega

theorem ωe_zero_left (e : Nat × Nat) {v : Nat} (h1 : e.1 ≠ v) (h2 : e.2 ≠ v) (y : Nat) : ωe e (v, y) = 0 := by
  obtain ⟨p, q⟩ := e
  simp only [ωe, Prod.mk.injEq]
  have a1 : ¬ (v = p ∧ y = q) := fun h => h1 h.1.symm
  have a2 : ¬ (v = q ∧ y = p) := fun h => h2 h.1.symm
  simp [a1, a2]

theorem ωe_zero_right (e : Nat × Nat) {v : Nat} (h1 : e.1 ≠ v) (h2 : e.2 ≠ v) (x : Nat) : ωe e (x, v) = 0 := by
  rw [ωe_anti, ωe_zero_left e h1 h2]; simp

theorem wt_rmF (e : Nat × Nat) {v : Nat} (h1 : e.1 ≠ v) (h2 : e.2 ≠ v) {f : Face} (hn : f.Nodup) :
    wt e (rmF v f) = wt e f + br (fun x y => ωe e (x, y)) v f := by
  by_cases hv : v ∈ f
  · rw [wt_eq_esum, wt_eq_esum, face_remove (ωe e) hn hv]
    congr 1
    unfold br
    rw [if_pos hv]
    cases restOf v f with
    | nil => simp [corr, ωe_zero_left e h1 h2]
    | cons h m => simp [corr, ωe_zero_left e h1 h2, ωe_zero_right e h1 h2]
  · rw [rmF_of_not_mem hv]; simp [br, hv]

theorem not_mem_edges_rmV {v : Nat} {c : Cell} {e : Nat × Nat} (he : e ∈ edgesOf (rmV v c)) : e.1 ≠ v ∧ e.2 ≠ v := by
  unfold edgesOf rmV at he
  obtain ⟨f, hf, hef⟩ := List.mem_flatMap.mp he
  obtain ⟨g, _, rfl⟩ := List.mem_map.mp hf
  have := mem_of_mem_dirEdges hef
  exact ⟨fun h => not_mem_rmF v g (h ▸ this.1), fun h => not_mem_rmF v g (h ▸ this.2)⟩

theorem rmV_nodup {v : Nat} {c : Cell} (hn : ∀ f ∈ c, f.Nodup) : ∀ f ∈ rmV v c, f.Nodup := by
  intro f hf
  obtain ⟨g, hg, rfl⟩ := List.mem_map.mp hf
  exact rmF_nodup (hn g hg)

/-- removing a node whose neighbours lie in `{a, b}` keeps a cell of simple faces closed -/
theorem rmV_bal {v a b : Nat} {c : Cell} (hn : ∀ f ∈ c, f.Nodup) (hbal : Bal (edgesOf c))
    (hnb : NbrIn (edgesOf c) v a b) : Bal (edgesOf (rmV v c)) := by
  intro e
  by_cases hv : e.1 = v ∨ e.2 = v
  · have z1 : (edgesOf (rmV v c)).count e = 0 := by
      rw [List.count_eq_zero]; intro hm
      have := not_mem_edges_rmV hm
      rcases hv with h | h
      · exact this.1 h
      · exact this.2 h
    have z2 : (edgesOf (rmV v c)).count (e.2, e.1) = 0 := by
      rw [List.count_eq_zero]; intro hm
      have := not_mem_edges_rmV hm
      rcases hv with h | h
      · exact this.2 h
      · exact this.1 h
    rw [z1, z2]
  · have h1 : e.1 ≠ v := fun h => hv (Or.inl h)
    have h2 : e.2 ≠ v := fun h => hv (Or.inr h)
    have hsum : ((rmV v c).map (wt e)).sum = (c.map (wt e)).sum + (c.map (br (fun x y => ωe e (x, y)) v)).sum := by
      have : ∀ c' : Cell, (∀ f ∈ c', f.Nodup) →
          ((rmV v c').map (wt e)).sum = (c'.map (wt e)).sum + (c'.map (br (fun x y => ωe e (x, y)) v)).sum := by
        intro c'
        induction c' with
        | nil => intro _; simp [rmV]
        | cons f t ih =>
          intro hn'
          have := ih fun g hg => hn' g (List.mem_cons_of_mem _ hg)
          simp only [rmV, List.map_cons, List.sum_cons] at this ⊢
          rw [this, wt_rmF e h1 h2 (hn' f List.mem_cons_self)]
          ring
      exact this c hn
    rw [bridge_sum (fun x y => ωe e (x, y)) (fun x y => ωe_anti e x y) (fun x => ωe_diag e x) hn hbal hnb,
      sum_wt, sum_wt] at hsum
    have := hbal e
    omega

/-! ### the neighbour bound survives the removal of another node -/

theorem mem_edges_rmF {v : Nat} {f : Face} (hn : f.Nodup) {e : Nat × Nat} (he : e ∈ dirEdges (rmF v f)) :
    e ∈ dirEdges f ∨ ((e.1, v) ∈ dirEdges f ∧ (v, e.2) ∈ dirEdges f) := by
  by_cases hv : v ∈ f
  · obtain ⟨_, _, hrot⟩ := restOf_spec hn hv
    have hr := rot_restOf hv
    have he' : e ∈ dirEdges (restOf v f) := (isRotated_dirEdges hrot).mem_iff.mp he
    have back : ∀ e', e' ∈ dirEdges (v :: restOf v f) → e' ∈ dirEdges f :=
      fun e' h => (isRotated_dirEdges hr).mem_iff.mpr h
    cases hrest : restOf v f with
    | nil => rw [hrest] at he'; simp [dirEdges] at he'
    | cons h m =>
      rw [hrest] at he' back
      rw [dirEdges_rest] at he'
      rcases List.mem_append.mp he' with hp | hp
      · exact Or.inl (back _ (by rw [dirEdges_v_rest]; simp [hp]))
      · have : e = (lastOf h m, h) := by simpa using hp
        subst this
        exact Or.inr ⟨back _ (by rw [dirEdges_v_rest]; simp), back _ (by rw [dirEdges_v_rest]; simp)⟩
  · rw [rmF_of_not_mem hv] at he; exact Or.inl he

theorem mem_edges_rmV {v : Nat} {c : Cell} (hn : ∀ f ∈ c, f.Nodup) {e : Nat × Nat} (he : e ∈ edgesOf (rmV v c)) :
    e ∈ edgesOf c ∨ ((e.1, v) ∈ edgesOf c ∧ (v, e.2) ∈ edgesOf c) := by
  unfold edgesOf rmV at he
  obtain ⟨f, hf, hef⟩ := List.mem_flatMap.mp he
  obtain ⟨g, hg, rfl⟩ := List.mem_map.mp hf
  have up : ∀ e', e' ∈ dirEdges g → e' ∈ edgesOf c := fun e' h => List.mem_flatMap.mpr ⟨g, hg, h⟩
  rcases mem_edges_rmF (hn g hg) hef with h | ⟨h1, h2⟩
  · exact Or.inl (up _ h)
  · exact Or.inr ⟨up _ h1, up _ h2⟩

theorem nbrIn_rmV {v w a b a' b' : Nat} {c : Cell} (hn : ∀ f ∈ c, f.Nodup)
    (hw : NbrIn (edgesOf c) w a b) (hv : NbrIn (edgesOf c) v a' b') :
    ∃ a'' b'', NbrIn (edgesOf (rmV v c)) w a'' b'' := by
  by_cases hwv : w = v
  · subst hwv
    refine ⟨0, 0, fun e he => ?_⟩
    have := not_mem_edges_rmV he
    exact ⟨fun h => absurd h this.1, fun h => absurd h this.2⟩
  · refine ⟨if a = v then (if w = a' then b' else a') else a, if b = v then (if w = a' then b' else a') else b,
      fun e he => ?_⟩
    obtain ⟨x, y⟩ := e
    have hne := not_mem_edges_rmV he
    simp only at hne
    rcases mem_edges_rmV hn he with hold | ⟨hb1, hb2⟩
    · have := hw _ hold
      simp only at this ⊢
      constructor
      · intro hx
        have := this.1 hx
        split_ifs <;> omega
      · intro hy
        have := this.2 hy
        split_ifs <;> omega
    · have hxv : x ≠ v := hne.1
      have hyv : y ≠ v := hne.2
      have r2 : x = a' ∨ x = b' ∨ x = v := (hv _ hb1).2 rfl
      have r3 : y = a' ∨ y = b' ∨ y = v := (hv _ hb2).1 rfl
      constructor
      · intro hx
        have hx' : x = w := hx
        have r1 : v = a ∨ v = b ∨ v = w := (hw _ hb1).1 hx'
        show y = _ ∨ y = _ ∨ y = w
        split_ifs <;> omega
      · intro hy
        have hy' : y = w := hy
        have r1 : v = a ∨ v = b ∨ v = w := (hw _ hb2).2 hy'
        show x = _ ∨ x = _ ∨ x = w
        split_ifs <;> omega

/-! ### removing a list of nodes, `rv2Cell`, `remove_vertices_2` -/

def rmL (S : List Nat) (c : Cell) : Cell := S.foldl (fun c v => rmV v c) c

theorem rmL_eq (S : List Nat) (c : Cell) : rmL S c = c.map fun f => f.filter fun x => !S.contains x := by
  induction S generalizing c with
  | nil => simp [rmL]
  | cons v S ih =>
    have : rmL (v :: S) c = rmL S (rmV v c) := rfl
    rw [this, ih, rmV, List.map_map]
    apply List.map_congr_left
    intro f _
    simp only [Function.comp, rmF, List.filter_filter]
    apply List.filter_congr
    intro x _
    simp only [List.contains_cons]
    cases (x == v) <;> cases (S.contains x) <;> rfl

theorem rmL_ok (S : List Nat) : ∀ c : Cell, (∀ f ∈ c, f.Nodup) → Bal (edgesOf c) →
    (∀ w ∈ S, ∃ a b, NbrIn (edgesOf c) w a b) → (∀ f ∈ rmL S c, f.Nodup) ∧ Bal (edgesOf (rmL S c)) := by
  induction S with
  | nil => intro c hn hb _; exact ⟨hn, hb⟩
  | cons v S ih =>
    intro c hn hb hnb
    obtain ⟨a', b', hv⟩ := hnb v List.mem_cons_self
    have : rmL (v :: S) c = rmL S (rmV v c) := rfl
    rw [this]
    apply ih _ (rmV_nodup hn) (rmV_bal hn hb hv)
    intro w hw
    obtain ⟨a, b, hwn⟩ := hnb w (List.mem_cons_of_mem _ hw)
    exact nbrIn_rmV hn hwn hv

theorem rv2Cell_eq (rm : Nat → Bool) (c : Cell) :
    rv2Cell rm c = (rmL (c.flatten.filter rm) c).filter fun f => decide (3 ≤ f.length) := by
  unfold rv2Cell
  rw [rmL_eq]
  congr 1
  apply List.map_congr_left
  intro f hf
  apply List.filter_congr
  intro x hx
  have hxc : x ∈ c.flatten := List.mem_flatten.mpr ⟨f, hf, hx⟩
  cases hr : rm x
  · have : (c.flatten.filter rm).contains x = false := by
      rw [Bool.eq_false_iff]
      intro h
      have := (List.mem_filter.mp (List.contains_iff_mem.mp h)).2
      rw [hr] at this; cases this
    rw [this]
  · have : (c.flatten.filter rm).contains x = true :=
      List.contains_iff_mem.mpr (List.mem_filter.mpr ⟨hxc, hr⟩)
    rw [this]

theorem bal_drop_short {c : Cell} (h : Bal (edgesOf c)) :
    Bal (edgesOf (c.filter fun f => decide (3 ≤ f.length))) := by
  obtain ⟨D, hD, hp⟩ := filter_len_split c
  exact bal_of_append_right (bal_of_perm hp.symm h) hD

/-- `rv2Cell` keeps a cell of the invariant in the invariant when every removed node has at most two neighbours -/
theorem rv2Cell_cellOK {rm : Nat → Bool} {c : Cell} (hc : CellOK c)
    (hrm : ∀ w, rm w = true → ∃ a b, NbrIn (edgesOf c) w a b) : CellOK (rv2Cell rm c) := by
  rw [rv2Cell_eq]
  obtain ⟨hn, hb⟩ := rmL_ok (c.flatten.filter rm) c (fun f hf => (hc.2 f hf).1) hc.1
    (fun w hw => hrm w (List.mem_filter.mp hw).2)
  refine ⟨bal_drop_short hb, fun f hf => ?_⟩
  obtain ⟨hf1, hf2⟩ := List.mem_filter.mp hf
  exact ⟨hn f hf1, by simpa using hf2⟩

/-! ### `can_rm` -/

theorem prevPairs_perm (f : Face) : (prevPairs f).Perm (dirEdges f) := by
  rcases List.eq_nil_or_concat f with rfl | ⟨init, z, rfl⟩
  · simp [prevPairs, dirEdges]
  · rw [List.concat_eq_append]
    have h1 : prevPairs (init ++ [z]) = dirEdges (z :: init) := by
      unfold prevPairs
      simp only [List.getLast?_append, List.getLast?_singleton, Option.some_or, List.dropLast_concat]
      rw [dirEdges]
    rw [h1]
    apply isRotated_dirEdges
    exact ⟨1, by simp [List.rotate_cons_succ]⟩

/-- the fold of `add_nbd` over the edges, for the row of `v` -/
def nbdStep (v : Nat) (nb : List Nat) (e : Nat × Nat) : List Nat :=
  let nb1 := if e.1 = v then addNbd nb e.2 else nb
  if e.2 = v then addNbd nb1 e.1 else nb1

theorem addNbd_sub (nb : List Nat) (x : Nat) : ∀ y ∈ nb, y ∈ addNbd nb x := by
  intro y hy; unfold addNbd; split_ifs <;> simp [hy]

theorem addNbd_len (nb : List Nat) (x : Nat) : nb.length ≤ (addNbd nb x).length := by
  unfold addNbd; split_ifs <;> simp

theorem addNbd_mem (nb : List Nat) (x : Nat) (h : (addNbd nb x).length ≤ 2) : x ∈ addNbd nb x := by
  unfold addNbd at h ⊢
  split_ifs with h1 h2
  · simpa using h1
  · simp
  · rw [if_neg h1, if_neg h2] at h; omega

theorem nbdStep_sub (v : Nat) (nb : List Nat) (e : Nat × Nat) : ∀ y ∈ nb, y ∈ nbdStep v nb e := by
  intro y hy; unfold nbdStep; dsimp only
  split_ifs
  · exact addNbd_sub _ _ _ (addNbd_sub _ _ _ hy)
  · exact addNbd_sub _ _ _ hy
  · exact addNbd_sub _ _ _ hy
  · exact hy

theorem nbdStep_len (v : Nat) (nb : List Nat) (e : Nat × Nat) : nb.length ≤ (nbdStep v nb e).length := by
  unfold nbdStep; dsimp only
  split_ifs
  · exact Nat.le_trans (addNbd_len _ _) (addNbd_len _ _)
  · exact addNbd_len _ _
  · exact addNbd_len _ _
  · exact Nat.le_refl _

theorem nbdStep_mem (v : Nat) (nb : List Nat) (e : Nat × Nat) (h : (nbdStep v nb e).length ≤ 2) :
    (e.1 = v → e.2 ∈ nbdStep v nb e) ∧ (e.2 = v → e.1 ∈ nbdStep v nb e) := by
  unfold nbdStep at h ⊢; dsimp only at h ⊢
  by_cases h1 : e.1 = v <;> by_cases h2 : e.2 = v
  · rw [if_pos h1, if_pos h2] at h ⊢
    exact ⟨fun _ => addNbd_sub _ _ _ (addNbd_mem _ _ (Nat.le_trans (addNbd_len _ _) h)), fun _ => addNbd_mem _ _ h⟩
  · rw [if_pos h1, if_neg h2] at h ⊢
    exact ⟨fun _ => addNbd_mem _ _ h, fun h' => absurd h' h2⟩
  · rw [if_neg h1, if_pos h2] at h ⊢
    exact ⟨fun h' => absurd h' h1, fun _ => addNbd_mem _ _ h⟩
  · rw [if_neg h1, if_neg h2] at h ⊢
    exact ⟨fun h' => absurd h' h1, fun h' => absurd h' h2⟩

theorem nbd_fold (v : Nat) (es : List (Nat × Nat)) : ∀ nb0 : List Nat,
    nb0.length ≤ (es.foldl (nbdStep v) nb0).length ∧
    (∀ y ∈ nb0, y ∈ es.foldl (nbdStep v) nb0) ∧
    ((es.foldl (nbdStep v) nb0).length ≤ 2 →
      ∀ e ∈ es, (e.1 = v → e.2 ∈ es.foldl (nbdStep v) nb0) ∧ (e.2 = v → e.1 ∈ es.foldl (nbdStep v) nb0)) := by
  induction es with
  | nil => intro nb0; simp
  | cons e t ih =>
    intro nb0
    obtain ⟨l1, s1, m1⟩ := ih (nbdStep v nb0 e)
    rw [List.foldl_cons]
    refine ⟨Nat.le_trans (nbdStep_len v nb0 e) l1, fun y hy => s1 y (nbdStep_sub v nb0 e y hy), fun hlen e' he' => ?_⟩
    rcases List.mem_cons.mp he' with rfl | he'
    · have := nbdStep_mem v nb0 e' (Nat.le_trans l1 hlen)
      exact ⟨fun h => s1 _ (this.1 h), fun h => s1 _ (this.2 h)⟩
    · exact m1 hlen e' he'

theorem nbdOf_eq (cells : List Cell) (v : Nat) :
    nbdOf cells v = (cells.flatMap fun c => c.flatMap prevPairs).foldl (nbdStep v) [] := rfl

theorem canRm_nbrIn {cells : List Cell} {v : Nat} (h : canRm cells v = true) :
    ∃ a b, ∀ c ∈ cells, NbrIn (edgesOf c) v a b := by
  unfold canRm at h
  have hlen : (nbdOf cells v).length ≤ 2 := by simpa using h
  rw [nbdOf_eq] at hlen
  obtain ⟨_, _, hm⟩ := nbd_fold v (cells.flatMap fun c => c.flatMap prevPairs) []
  have hm' := hm hlen
  set r := (cells.flatMap fun c => c.flatMap prevPairs).foldl (nbdStep v) [] with hr
  have hab : ∃ a b, ∀ x ∈ r, x = a ∨ x = b := by
    match r, hlen with
    | [], _ => exact ⟨0, 0, fun x hx => by simp at hx⟩
    | [a], _ => exact ⟨a, a, fun x hx => by simp at hx; exact Or.inl hx⟩
    | [a, b], _ => exact ⟨a, b, fun x hx => by simpa using hx⟩
  obtain ⟨a, b, hab⟩ := hab
  refine ⟨a, b, fun c hc e he => ?_⟩
  have hmem : e ∈ cells.flatMap fun c => c.flatMap prevPairs := by
    unfold edgesOf at he
    obtain ⟨f, hf, hef⟩ := List.mem_flatMap.mp he
    exact List.mem_flatMap.mpr ⟨c, hc, List.mem_flatMap.mpr ⟨f, hf, (prevPairs_perm f).mem_iff.mpr hef⟩⟩
  have := hm' e hmem
  constructor
  · intro h1
    rcases hab _ (this.1 h1) with h' | h'
    · exact Or.inl h'
    · exact Or.inr (Or.inl h')
  · intro h2
    rcases hab _ (this.2 h2) with h' | h'
    · exact Or.inl h'
    · exact Or.inr (Or.inl h')

/-- a closed cell of simple faces passes `check_polyhedron` -/
theorem checkPolyhedron_of_cellOK {c : Cell} (hn : ∀ f ∈ c, f.Nodup) (hb : Bal (edgesOf c)) :
    checkPolyhedron c = true := by
  simp only [checkPolyhedron, Bool.and_eq_true, List.all_eq_true, nodupB_iff, List.contains_iff_mem]
  refine ⟨hn, fun e he => ?_⟩
  have := hb e
  have hpos : 0 < (edgesOf c).count e := List.count_pos_iff.mpr he
  exact List.count_pos_iff.mp (by omega)

/-- **remove_vertices_2** on a state of the invariant: no `assert` fires, and the result is in the invariant -/
theorem removeVertices2_inv {cells : List Cell} (h : Inv cells) :
    ∃ cells', removeVertices2 cells = some cells' ∧ Inv cells' := by
  have hrv : ∀ c ∈ cells, CellOK (rv2Cell (canRm cells) c) := fun c hc =>
    rv2Cell_cellOK (h c hc) fun w hw => by
      obtain ⟨a, b, hab⟩ := canRm_nbrIn hw
      exact ⟨a, b, hab c hc⟩
  have h1 : (cells.any fun c => c.any fun f => decide (f.length < 3)) = false := by
    rw [Bool.eq_false_iff]
    intro hany
    simp only [List.any_eq_true, decide_eq_true_eq] at hany
    obtain ⟨c, hc, f, hf, hlt⟩ := hany
    have := (h c hc).2 f hf
    unfold FaceOK at this; omega
  have h2 : ((cells.map (rv2Cell (canRm cells))).all checkPolyhedron) = true := by
    rw [List.all_eq_true]
    intro c' hc'
    obtain ⟨c, hc, rfl⟩ := List.mem_map.mp hc'
    exact checkPolyhedron_of_cellOK (fun f hf => ((hrv c hc).2 f hf).1) (hrv c hc).1
  refine ⟨shrink (cells.map (rv2Cell (canRm cells))), ?_, ?_⟩
  · unfold removeVertices2
    rw [h1]
    simp only [Bool.false_eq_true, if_false, h2, if_true]
  · apply shrink_inv
    intro c' hc'
    obtain ⟨c, hc, rfl⟩ := List.mem_map.mp hc'
    exact hrv c hc

end Femio.C20
