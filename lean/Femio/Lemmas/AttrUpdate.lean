import Femio.Model.Attr
import Mathlib.Data.List.Perm.Basic
import Mathlib.Data.List.Nodup

/-! What `FEMAttribute.update(ids', rows, allow_overwrite=True)` does to the id-keyed table (helper lemmas for
`C08_update_spec`): lookups in association lists, insertion sort by id. -/
namespace Attr

def assocLookup (i : Id) : List (Id × Row) → Option Row
  | [] => none
  | (j, r) :: t => if j = i then some r else assocLookup i t

theorem lookupRow_zip (ids : List Id) (rows : List Row) (i : Id) : lookupRow ids rows i = assocLookup i (ids.zip rows) := by
  induction ids generalizing rows with
  | nil => simp [lookupRow, assocLookup]
  | cons a t ih =>
    cases rows with
    | nil => simp [lookupRow, assocLookup]
    | cons r rs => simp [lookupRow, assocLookup, ih]

theorem assocLookup_unzip (l : List (Id × Row)) (i : Id) :
    lookupRow (l.map Prod.fst) (l.map Prod.snd) i = assocLookup i l := by
  induction l with
  | nil => simp [lookupRow, assocLookup]
  | cons p t ih => obtain ⟨j, r⟩ := p; simp [lookupRow, assocLookup, ih]

theorem assocLookup_append (a b : List (Id × Row)) (i : Id) :
    assocLookup i (a ++ b) = (assocLookup i a).or (assocLookup i b) := by
  induction a with
  | nil => simp [assocLookup]
  | cons p t ih =>
    obtain ⟨j, r⟩ := p
    by_cases h : j = i <;> simp [assocLookup, h, ih]

theorem assocLookup_map (l : List (Id × Row)) (g : Id → Row → Row) (i : Id) :
    assocLookup i (l.map fun p => (p.1, g p.1 p.2)) = (assocLookup i l).map (g i) := by
  induction l with
  | nil => simp [assocLookup]
  | cons p t ih =>
    obtain ⟨j, r⟩ := p
    by_cases h : j = i
    · subst h; simp [assocLookup]
    · simp [assocLookup, h, ih]

theorem assocLookup_filter (l : List (Id × Row)) (q : Id → Bool) (i : Id) (hq : q i = true) :
    assocLookup i (l.filter fun p => q p.1) = assocLookup i l := by
  induction l with
  | nil => simp [assocLookup]
  | cons p t ih =>
    obtain ⟨j, r⟩ := p
    by_cases h : j = i
    · subst h; simp [List.filter_cons, hq, assocLookup]
    · by_cases hj : q j = true
      · simp [List.filter_cons, hj, assocLookup, h, ih]
      · simp [List.filter_cons, hj, assocLookup, h, ih]

theorem assocLookup_none_of_not_mem (l : List (Id × Row)) (i : Id) (h : i ∉ l.map Prod.fst) : assocLookup i l = none := by
  induction l with
  | nil => rfl
  | cons p t ih =>
    obtain ⟨j, r⟩ := p
    simp only [List.map_cons, List.mem_cons, not_or] at h
    simp [assocLookup, Ne.symm h.1, ih h.2]

theorem assocLookup_some_of_mem (l : List (Id × Row)) (i : Id) (h : i ∈ l.map Prod.fst) : ∃ r, assocLookup i l = some r := by
  induction l with
  | nil => simp at h
  | cons p t ih =>
    obtain ⟨j, r⟩ := p
    by_cases hj : j = i
    · exact ⟨r, by simp [assocLookup, hj]⟩
    · simp only [List.map_cons, List.mem_cons] at h
      rcases h with h | h
      · exact absurd h.symm hj
      · obtain ⟨r', hr'⟩ := ih h
        exact ⟨r', by simp [assocLookup, hj, hr']⟩

/-! insertion sort by id -/
theorem insertSorted_keys_perm (i : Id) (r : Row) (l : List (Id × Row)) :
    ((insertSorted i r l).map Prod.fst).Perm (i :: l.map Prod.fst) := by
  induction l with
  | nil => simp [insertSorted]
  | cons p t ih =>
    obtain ⟨j, q⟩ := p
    simp only [insertSorted]
    split
    · simp
    · simp only [List.map_cons]
      exact (List.Perm.cons j ih).trans (List.Perm.swap i j _)

theorem assocLookup_insertSorted (i : Id) (r : Row) (l : List (Id × Row)) (k : Id) (hi : i ∉ l.map Prod.fst) :
    assocLookup k (insertSorted i r l) = if i = k then some r else assocLookup k l := by
  induction l with
  | nil => simp [insertSorted, assocLookup]
  | cons p t ih =>
    obtain ⟨j, q⟩ := p
    simp only [List.map_cons, List.mem_cons, not_or] at hi
    simp only [insertSorted]
    split
    · simp [assocLookup]
    · simp only [assocLookup]
      by_cases hjk : j = k
      · subst hjk
        have : i ≠ j := hi.1
        simp [this]
      · simp [hjk, ih hi.2]

theorem sortById_keys_perm (l : List (Id × Row)) : ((sortById l).map Prod.fst).Perm (l.map Prod.fst) := by
  induction l with
  | nil => simp [sortById]
  | cons p t ih =>
    simp only [sortById, List.foldr_cons] at ih ⊢
    exact (insertSorted_keys_perm p.1 p.2 _).trans (List.Perm.cons _ ih)

theorem assocLookup_sortById (l : List (Id × Row)) (hn : (l.map Prod.fst).Nodup) (k : Id) :
    assocLookup k (sortById l) = assocLookup k l := by
  induction l with
  | nil => simp [sortById]
  | cons p t ih =>
    obtain ⟨j, q⟩ := p
    simp only [List.map_cons, List.nodup_cons] at hn
    have hnot : j ∉ (sortById t).map Prod.fst := fun h => hn.1 ((sortById_keys_perm t).subset h)
    have := assocLookup_insertSorted j q (sortById t) k hnot
    simp only [sortById, List.foldr_cons] at this ih ⊢
    rw [this, ih hn.2]
    by_cases hjk : j = k <;> simp [assocLookup, hjk]

theorem insertSorted_sorted (i : Id) (r : Row) (l : List (Id × Row)) (hl : (l.map Prod.fst).Pairwise (· ≤ ·)) :
    ((insertSorted i r l).map Prod.fst).Pairwise (· ≤ ·) := by
  induction l with
  | nil => simp [insertSorted]
  | cons p t ih =>
    obtain ⟨j, q⟩ := p
    simp only [List.map_cons, List.pairwise_cons] at hl
    simp only [insertSorted]
    split
    · rename_i hij
      simp only [List.map_cons, List.pairwise_cons]
      refine ⟨?_, hl⟩
      intro x hx
      rcases List.mem_cons.mp hx with h | h
      · rw [h]; exact Nat.le_of_lt hij
      · exact Nat.le_trans (Nat.le_of_lt hij) (hl.1 x h)
    · rename_i hij
      simp only [List.map_cons, List.pairwise_cons]
      refine ⟨?_, ih hl.2⟩
      intro x hx
      have := (insertSorted_keys_perm i r t).subset hx
      rcases List.mem_cons.mp this with h | h
      · rw [h]; exact Nat.le_of_not_lt hij
      · exact hl.1 x h

theorem sortById_sorted (l : List (Id × Row)) : ((sortById l).map Prod.fst).Pairwise (· ≤ ·) := by
  induction l with
  | nil => simp [sortById]
  | cons p t ih =>
    simp only [sortById, List.foldr_cons] at ih ⊢
    exact insertSorted_sorted p.1 p.2 _ ih

end Attr
