import Femio.Model.ResFile
import Femio.Lemmas.TextLexProps
import Femio.Lemmas.ResSplit

/-! C02 — character level: `lexLine (lineText trail l) = l` for the token lines of a result file. -/
namespace Femio.C02
open Res Femio.Text Numeral

theorem charDigit_of_alphaStar (c : Char) (h : isAlphaStar c = true) : charDigit c = none := by
  unfold isAlphaStar at h
  unfold charDigit
  simp only [Bool.or_eq_true, Bool.and_eq_true, decide_eq_true_eq] at h
  have : ¬ (48 ≤ c.toNat ∧ c.toNat ≤ 57) := by
    rcases h with (h | h) | h
    · subst h; decide
    · omega
    · omega
  simp [this]

theorem parseNat_none_of_head (c : Char) (t : Str) (h : charDigit c = none) : parseNat (c :: t) = none := by
  simp [parseNat, List.mapM_cons, h]

theorem classify_showNat (n : Nat) : classify (showNat n) = .n n := by
  simp [classify, parseNat_showNat]

theorem classify_word (s : Str) (h : wordOKB s = true) : classify s = .w s ∧ TokOK s := by
  simp only [wordOKB, Bool.and_eq_true] at h
  refine ⟨?_, (tokOKB_iff s).mp h.1⟩
  cases s with
  | nil => simp at h
  | cons c t =>
    have hc : isAlphaStar c = true := h.2
    simp [classify, parseNat_none_of_head c t (charDigit_of_alphaStar c hc), hc]

theorem classify_val (x : Str) (h : valOKB x = true) : classify x = .v x ∧ TokOK x := by
  simp only [valOKB, Bool.and_eq_true, Option.isNone_iff_eq_none] at h
  refine ⟨?_, (tokOKB_iff x).mp h.1.1⟩
  cases x with
  | nil => simp at h
  | cons c t =>
    have hc : isAlphaStar c = false := by simpa using h.2
    simp [classify, h.1.2, hc]

theorem showTok_ok (t : Tok Str) (h : resTokOKB t = true) : classify (showTok t) = t ∧ TokOK (showTok t) := by
  cases t with
  | n k => exact ⟨classify_showNat k, showNat_tokOK k⟩
  | v x => exact classify_val x h
  | w s => exact classify_word s h

/-- **lexer ∘ printer on one line**, with or without the trailing blank of numeric lines -/
theorem lexLine_lineText (trail : Bool) (l : Line Str) (h : l.all resTokOKB = true) : lexLine (lineText trail l) = l := by
  rw [List.all_eq_true] at h
  unfold lexLine lineText
  rw [splitBlank_joinBlank (l.map showTok) (by
    intro t ht
    obtain ⟨tok, htok, rfl⟩ := List.mem_map.mp ht
    exact (showTok_ok tok (h tok htok)).2) _ (by cases trail <;> simp <;> decide), List.map_map]
  conv => rhs; rw [← List.map_id l]
  apply List.map_congr_left
  intro t ht
  exact (showTok_ok t (h t ht)).1

theorem lexLine_printLine (trail : Bool) (l : Line Str) (h : l.all resTokOKB = true) : lexLine (printLine trail l) = l :=
  lexLine_lineText _ l h

/-- a printable line prints to a non-empty text without newline -/
theorem printLine_props (trail : Bool) (l : Line Str) (h : printableB l = true) :
    '\n' ∉ printLine trail l ∧ printLine trail l ≠ [] := by
  simp only [printableB, Bool.and_eq_true, List.all_eq_true] at h
  have hne : l ≠ [] := by
    intro e; subst e; simp at h
  have hs : ∀ t ∈ l, TokOK (showTok t) := fun t ht => (tokOKB_iff _).mp (h.2 t ht)
  unfold printLine lineText
  constructor
  · simp only [List.mem_append, not_or]
    refine ⟨?_, by split <;> simp⟩
    apply not_mem_joinBlank '\n' (by decide)
    intro t ht
    obtain ⟨tok, htok, rfl⟩ := List.mem_map.mp ht
    exact not_newline_of_noWs (hs tok htok).2
  · have := joinBlank_ne_nil (l.map showTok) (by simpa using hne) (by
      intro t ht
      obtain ⟨tok, htok, rfl⟩ := List.mem_map.mp ht
      exact (hs tok htok).1)
    simp [this]

theorem printable_of_ok (l : Line Str) (h : l.all resTokOKB = true) (hne : l ≠ []) : printableB l = true := by
  rw [List.all_eq_true] at h
  simp only [printableB, Bool.and_eq_true, List.all_eq_true]
  refine ⟨by cases l <;> simp_all, ?_⟩
  intro t ht
  exact (tokOKB_iff _).mpr (showTok_ok t (h t ht)).2

/-! ### every body line of a rendered section is such a line -/
theorem renderSec_ok (wc wv : Nat) (s : Sec Str) (hwc : 1 ≤ wc) (hwv : 1 ≤ wv) (h : secOKB s = true) :
    ∀ l ∈ renderSec wc wv s, l.all resTokOKB = true ∧ l ≠ [] := by
  simp only [secOKB, Bool.and_eq_true, List.all_eq_true] at h
  intro l hl
  simp only [renderSec, List.mem_append, List.mem_map, List.mem_flatMap] at hl
  rcases hl with (hl | ⟨x, hx, rfl⟩) | ⟨r, hr, hl⟩
  · obtain ⟨hne, hmem⟩ := chunks_mem wc hwc _ l hl
    refine ⟨?_, hne⟩
    rw [List.all_eq_true]
    intro t ht
    obtain ⟨x, _, rfl⟩ := List.mem_map.mp (hmem t ht)
    rfl
  · exact ⟨by simpa [resTokOKB] using h.1 x hx, by simp⟩
  · simp only [entityLines, List.mem_cons] at hl
    rcases hl with rfl | hl
    · exact ⟨by simp [resTokOKB], by simp⟩
    · obtain ⟨hne, hmem⟩ := chunks_mem wv hwv _ l hl
      refine ⟨?_, hne⟩
      rw [List.all_eq_true]
      intro t ht
      obtain ⟨x, hx, rfl⟩ := List.mem_map.mp (hmem t ht)
      exact h.2 r hr x hx

theorem renderBody_ok (wcN wvN wcE wvE : Nat) (f : ResFile Str)
    (hN : 1 ≤ wcN ∧ 1 ≤ wvN) (hE : f.elemental ≠ none → 1 ≤ wcE ∧ 1 ≤ wvE) (h : fileOKB f = true) :
    ∀ l ∈ renderBody wcN wvN wcE wvE f, l.all resTokOKB = true ∧ l ≠ [] := by
  simp only [fileOKB, Bool.and_eq_true] at h
  intro l hl
  simp only [renderBody, List.mem_append] at hl
  rcases hl with hl | hl
  · exact renderSec_ok _ _ _ hN.1 hN.2 h.1 l hl
  · cases he : f.elemental with
    | none => simp [he] at hl
    | some e =>
      rw [he] at hl h
      have := hE (by simp [he])
      exact renderSec_ok _ _ _ this.1 this.2 h.2 l hl

theorem map_lex_print_id (trail : Bool) (ls : List (Line Str)) (h : ∀ l ∈ ls, l.all resTokOKB = true) :
    (ls.map (printLine trail)).map lexLine = ls := by
  rw [List.map_map]
  conv => rhs; rw [← List.map_id ls]
  apply List.map_congr_left
  intro l hl
  exact lexLine_printLine trail l (h l hl)

end Femio.C02
