import Femio.Model.Convert
import Femio.Lemmas.CoreProps
import Femio.Lemmas.Misc1
import Femio.Lemmas.LinAlg
import Mathlib.Algebra.BigOperators.Group.Finset.Basic
import Mathlib.Algebra.BigOperators.Field
import Mathlib.Algebra.Order.BigOperators.Group.Finset
import Mathlib.Algebra.Order.Field.Basic
import Mathlib.Algebra.CharZero.Defs
import Mathlib.Data.Nat.Cast.Field
import Mathlib.Tactic.Ring
import Mathlib.Tactic.FieldSimp
import Mathlib.Tactic.Linarith
import Mathlib.Tactic.Positivity

/-! Helper lemmas for C14 (`Femio/Props/C14.lean`): bridges from the list-based executable model of
    `Femio/Model/Convert.lean` to `Finset` sums, and the algebra of the two weightings. -/
namespace Femio.C14
open Core BigOperators

/-! ### nodal → elemental -/

/-- gathering the values of an element's own nodes, when the nodal column is a function of the id -/
theorem gatherVals_of_fun {R : Type} (nodeIds : List Nat) (vals : List R) (conn : List Nat) (g : Nat → R)
    (hlen : vals.length = nodeIds.length)
    (hg : ∀ k (h : k < nodeIds.length), vals[k]'(hlen ▸ h) = g nodeIds[k])
    (hconn : ∀ i ∈ conn, i ∈ nodeIds) :
    gatherVals nodeIds vals conn = some (conn.map g) := by
  unfold gatherVals
  induction conn with
  | nil => simp
  | cons a t ih =>
    obtain ⟨k, hk⟩ := idPos_of_mem (hconn a (by simp))
    obtain ⟨hlt, hget⟩ := idPos_some hk
    have hv : vals[k]? = some (g a) := by
      rw [List.getElem?_eq_getElem (hlen ▸ hlt), hg k hlt, hget]
    have iht := ih (fun i hi => hconn i (List.mem_cons_of_mem _ hi))
    simp [List.mapM_cons, hk, hv, iht]

/-- an id that is not a node id makes the gather fail -/
theorem gatherVals_none {R : Type} (nodeIds : List Nat) (vals : List R) (conn : List Nat)
    (h : ∃ i ∈ conn, i ∉ nodeIds) : gatherVals nodeIds vals conn = none := by
  unfold gatherVals
  induction conn with
  | nil => simp at h
  | cons a t ih =>
    by_cases ha : a ∈ nodeIds
    · have ht : ∃ i ∈ t, i ∉ nodeIds := by
        obtain ⟨i, hi, hni⟩ := h
        rcases List.mem_cons.mp hi with rfl | hi'
        · exact absurd ha hni
        · exact ⟨i, hi', hni⟩
      simp [List.mapM_cons, ih ht]
    · have : idPos nodeIds a = none := by
        cases hp : idPos nodeIds a with
        | none => rfl
        | some k => obtain ⟨hk, hget⟩ := idPos_some hp; exact absurd (hget ▸ List.getElem_mem hk) ha
      simp [List.mapM_cons, this]

section Field
variable {K : Type} [Field K]

/-- Σ over a list of an affine combination of three coordinate functions -/
theorem sum_map_affine (conn : List Nat) (px py pz : Nat → K) (a b c d : K) :
    (conn.map fun i => a * px i + b * py i + c * pz i + d).sum
      = a * (conn.map px).sum + b * (conn.map py).sum + c * (conn.map pz).sum + (conn.length : K) * d := by
  induction conn with
  | nil => simp
  | cons x t ih => simp only [List.map_cons, List.sum_cons, List.length_cons, Nat.cast_succ, ih]; ring

/-! ### `sumTo` is a `Finset.range` sum -/

theorem sumTo_eq_sum (n : Nat) (f : Nat → K) : sumTo n f = ∑ j ∈ Finset.range n, f j := by
  unfold sumTo
  induction n with
  | zero => simp
  | succ k ih => rw [List.range_succ, List.map_append, List.sum_append, ih, Finset.sum_range_succ]; simp

theorem metricInc_eq (inc : Nat → Nat → Bool) (m : Nat → K) (i j : Nat) :
    metricInc inc m i j = if inc i j = true then m j else 0 := rfl

/-- the row sum of `metricInc` is the total size of the touching elements -/
theorem sumTo_metricInc (e : Nat) (inc : Nat → Nat → Bool) (m : Nat → K) (i : Nat) :
    sumTo e (metricInc inc m i) = ∑ j ∈ (Finset.range e).filter (fun j => inc i j = true), m j := by
  rw [sumTo_eq_sum, Finset.sum_filter]; rfl

/-- the column sum of the 0/1 incidence is the number of nodes of the element -/
theorem sumTo_ind (n : Nat) (inc : Nat → Nat → Bool) (j : Nat) :
    sumTo n (fun k => (ind (inc k j) : K)) = (((Finset.range n).filter (fun k => inc k j = true)).card : K) := by
  rw [sumTo_eq_sum, Finset.natCast_card_filter]; rfl

theorem meanWeight_eq_div (e : Nat) (inc : Nat → Nat → Bool) (m : Nat → K) (i j : Nat) :
    meanWeight e inc m i j = metricInc inc m i j / sumTo e (metricInc inc m i) := by
  unfold meanWeight; rw [mul_one_div]

theorem effWeight_eq_div (n : Nat) (inc : Nat → Nat → Bool) (i j : Nat) :
    (effWeight n inc i j : K) = ind (inc i j) / sumTo n (fun k => (ind (inc k j) : K)) := by
  unfold effWeight; rw [mul_one_div]

/-- the weights of one row of the 'mean' matrix sum to one as soon as the row sum is non-zero -/
theorem sumTo_meanWeight (e : Nat) (inc : Nat → Nat → Bool) (m : Nat → K) (i : Nat)
    (h : sumTo e (metricInc inc m i) ≠ 0) : sumTo e (meanWeight e inc m i) = 1 := by
  have : meanWeight e inc m i = fun j => metricInc inc m i j / sumTo e (metricInc inc m i) := by
    funext j; exact meanWeight_eq_div e inc m i j
  rw [this, sumTo_eq_sum, ← Finset.sum_div, ← sumTo_eq_sum, div_self h]

/-- the weights of one column of the 'effective' matrix sum to one as soon as the column is non-empty -/
theorem sumTo_effWeight (n : Nat) (inc : Nat → Nat → Bool) (j : Nat)
    (h : sumTo n (fun k => (ind (inc k j) : K)) ≠ 0) : sumTo n (fun i => (effWeight n inc i j : K)) = 1 := by
  have : (fun i => (effWeight n inc i j : K)) = fun i => ind (inc i j) / sumTo n (fun k => (ind (inc k j) : K)) := by
    funext i; exact effWeight_eq_div n inc i j
  rw [this, sumTo_eq_sum, ← Finset.sum_div, ← sumTo_eq_sum, div_self h]

/-- a non-empty column has a non-zero node count (characteristic 0) -/
theorem sumTo_ind_ne_zero [CharZero K] (n : Nat) (inc : Nat → Nat → Bool) (j : Nat)
    (h : ∃ i < n, inc i j = true) : sumTo n (fun k => (ind (inc k j) : K)) ≠ 0 := by
  rw [sumTo_ind]
  obtain ⟨i, hi, hij⟩ := h
  have : ((Finset.range n).filter (fun k => inc k j = true)).card ≠ 0 :=
    Finset.card_ne_zero.mpr ⟨i, by simp [hi, hij]⟩
  exact_mod_cast this

/-- grand total of the 'effective' conversion, from `effective_total` of `Lemmas/LinAlg.lean` -/
theorem sumTo_e2nEffective (n e : Nat) (inc : Nat → Nat → Bool) (x : Nat → K)
    (h : ∀ j < e, sumTo n (fun k => (ind (inc k j) : K)) ≠ 0) :
    sumTo n (fun i => e2nEffective n e inc x i) = sumTo e x := by
  have hcol : ∀ j ∈ Finset.range e, (∑ k ∈ Finset.range n, (ind (inc k j) : K)) ≠ 0 := by
    intro j hj; rw [← sumTo_eq_sum]; exact h j (Finset.mem_range.mp hj)
  have := effective_total (Finset.range n) (Finset.range e) (fun k j => (ind (inc k j) : K)) x hcol
  rw [sumTo_eq_sum, sumTo_eq_sum, ← this]
  apply Finset.sum_congr rfl
  intro i _
  unfold e2nEffective
  rw [sumTo_eq_sum]
  apply Finset.sum_congr rfl
  intro j _
  rw [effWeight_eq_div, sumTo_eq_sum]

end Field

section Ordered
variable {K : Type} [Field K] [LinearOrder K] [IsStrictOrderedRing K]

/-- positive sizes on the touching elements and at least one touching element: positive row sum -/
theorem sumTo_metricInc_pos (e : Nat) (inc : Nat → Nat → Bool) (m : Nat → K) (i : Nat)
    (hm : ∀ j < e, inc i j = true → 0 < m j) (ht : ∃ j < e, inc i j = true) :
    0 < sumTo e (metricInc inc m i) := by
  rw [sumTo_metricInc]
  obtain ⟨j, hj, hij⟩ := ht
  apply Finset.sum_pos
  · intro k hk
    rw [Finset.mem_filter, Finset.mem_range] at hk
    exact hm k hk.1 hk.2
  · exact ⟨j, by simp [hj, hij]⟩

theorem meanWeight_nonneg (e : Nat) (inc : Nat → Nat → Bool) (m : Nat → K) (i : Nat)
    (hm : ∀ j < e, inc i j = true → 0 < m j) (ht : ∃ j < e, inc i j = true) (j : Nat) (hj : j < e) :
    0 ≤ meanWeight e inc m i j := by
  rw [meanWeight_eq_div]
  apply div_nonneg _ (sumTo_metricInc_pos e inc m i hm ht).le
  rw [metricInc_eq]
  split
  · rename_i h; exact (hm j hj h).le
  · exact le_refl _

end Ordered

end Femio.C14
