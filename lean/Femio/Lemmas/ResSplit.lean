import Femio.Lemmas.ResProps

open Res
variable {V : Type} {α : Type}

theorem findIdx?_none_of_all (p : α → Bool) (A : List α) (hA : ∀ a ∈ A, p a = false) : A.findIdx? p = none := by
  rw [List.findIdx?_eq_none_iff]; intro a ha; simp [hA a ha]

theorem findIdx?_append_stop (p : α → Bool) (A B : List α) (b : α) (hA : ∀ a ∈ A, p a = false)
    (hB : B.head? = some b) (hb : p b = true) : (A ++ B).findIdx? p = some A.length := by
  induction A with
  | nil =>
    cases B with
    | nil => simp at hB
    | cons x t => simp at hB; subst hB; simp [List.findIdx?_cons, hb]
  | cons a t ih =>
    simp only [List.cons_append, List.findIdx?_cons, hA a (by simp), Bool.false_eq_true, if_false]
    rw [ih (fun x hx => hA x (List.mem_cons_of_mem _ hx))]; simp

/-! facts about the lines of one rendered section -/
section Lines
variable (wc wv : Nat) (s : Sec V)

def Cc : List (Line V) := chunks wc (s.vars.map fun x => Tok.n x.width)
def NMc : List (Line V) := s.vars.map fun x => [Tok.w x.name]
def Rc : List (Line V) := s.rows.flatMap (entityLines wv)

theorem render_eq : renderSec wc wv s = Cc wc s ++ (NMc s ++ Rc wv s) := by simp [renderSec, Cc, NMc, Rc]

theorem C_noname (eNot : V → Bool) (hwc : 1 ≤ wc) : ∀ c ∈ Cc wc s, isName c = false ∧ hasVal eNot c = false := by
  intro c hc
  obtain ⟨hne, hmem⟩ := chunks_mem wc hwc _ c hc
  constructor
  · cases c with
    | nil => exact absurd rfl hne
    | cons t ts =>
      have := hmem t (by simp)
      simp only [List.mem_map] at this
      obtain ⟨x, _, rfl⟩ := this; rfl
  · simp only [hasVal, List.any_eq_false]
    intro t ht
    have := hmem t ht
    simp only [List.mem_map] at this
    obtain ⟨x, _, rfl⟩ := this; simp [isVal]

theorem NM_names : ∀ c ∈ NMc s, isName c = true := by
  intro c hc; simp only [NMc, List.mem_map] at hc; obtain ⟨x, _, rfl⟩ := hc; rfl

theorem R_noname (hwv : 1 ≤ wv) : ∀ c ∈ Rc wv s, isName c = false := by
  intro c hc
  simp only [Rc, List.mem_flatMap] at hc
  obtain ⟨r, _, hc⟩ := hc
  simp only [entityLines, List.mem_cons] at hc
  rcases hc with rfl | hc
  · rfl
  · obtain ⟨hne, hmem⟩ := chunks_mem wv hwv _ c hc
    cases c with
    | nil => exact absurd rfl hne
    | cons t ts =>
      have := hmem t (by simp)
      simp only [List.mem_map] at this
      obtain ⟨x, _, rfl⟩ := this; rfl

theorem R_head (hr : s.rows ≠ []) : ∃ b, (Rc wv s).head? = some b ∧ isName b = false := by
  cases hs : s.rows with
  | nil => exact absurd hs hr
  | cons r t => exact ⟨[Tok.n r.1], by simp [Rc, hs, entityLines], rfl⟩

/-- the last line of the data part carries a value -/
theorem R_last (eNot : V → Bool) (hwv : 1 ≤ wv) (hr : s.rows ≠ []) (hw : ∀ r ∈ s.rows, r.2 ≠ [])
    (he : ∀ r ∈ s.rows, ∀ x ∈ r.2, eNot x = true) :
    ∃ b, (Rc wv s).getLast? = some b ∧ hasVal eNot b = true := by
  obtain ⟨init, rl, hrl⟩ : ∃ init rl, s.rows = init ++ [rl] := ⟨s.rows.dropLast, s.rows.getLast hr, (List.dropLast_concat_getLast hr).symm⟩
  have hrlmem : rl ∈ s.rows := by rw [hrl]; simp
  have hvals : rl.2 ≠ [] := hw rl hrlmem
  -- the chunks of the last row are non-empty
  have hch : chunks wv (rl.2.map (Tok.v : V → Tok V)) ≠ [] := by
    intro h
    have := chunks_flatten wv hwv (rl.2.map (Tok.v : V → Tok V))
    rw [h] at this; simp at this; exact hvals this
  set cl := (chunks wv (rl.2.map (Tok.v : V → Tok V))).getLast hch with hcl
  refine ⟨cl, ?_, ?_⟩
  · simp only [Rc, hrl, List.flatMap_append, List.flatMap_cons, List.flatMap_nil, List.append_nil, entityLines]
    rw [List.getLast?_append, List.getLast?_cons_of_ne_nil hch, List.getLast?_eq_getLast hch]
    simp [hcl]
  · obtain ⟨hne, hmem⟩ := chunks_mem wv hwv _ cl (List.getLast_mem hch)
    cases hc : cl with
    | nil => exact absurd hc hne
    | cons t ts =>
      have := hmem t (by rw [hc]; simp)
      simp only [List.mem_map] at this
      obtain ⟨x, hx, rfl⟩ := this
      simp [hasVal, isVal, he rl hrlmem x hx]
end Lines

/-! ### `_split_series` -/
structure WFSec' (wc wv : Nat) (s : Sec V) : Prop extends WFSec wc wv s where
  vals_ne : ∀ r ∈ s.rows, r.2 ≠ []

theorem findFrom_spec (p : Line V → Bool) (pre A B : List (Line V)) (b : Line V)
    (hA : ∀ a ∈ A, p a = false) (hB : B.head? = some b) (hb : p b = true) :
    findFrom p (pre ++ (A ++ B)) pre.length = some (pre.length + A.length) := by
  unfold findFrom
  rw [List.drop_left, findIdx?_append_stop p A B b hA hB hb]
  simp [Nat.add_comm]

theorem findFrom_none (p : Line V → Bool) (pre A : List (Line V)) (hA : ∀ a ∈ A, p a = false) :
    findFrom p (pre ++ A) pre.length = none := by
  unfold findFrom
  rw [List.drop_left, findIdx?_none_of_all p A hA]; rfl

/-- **C02_split_point**: the nodal/elemental boundary found by walking back from the second cluster of
    name lines is exactly the end of the nodal section; with no elemental section everything is nodal. -/
theorem split_two (eNot : V → Bool) (wc wv wc' wv' : Nat) (sN sE : Sec V) (hN : WFSec' wc wv sN) (hE : WFSec' wc' wv' sE)
    (he : ∀ r ∈ sN.rows, ∀ x ∈ r.2, eNot x = true) :
    splitSeries eNot (renderSec wc wv sN ++ renderSec wc' wv' sE)
      = some (renderSec wc wv sN, some (renderSec wc' wv' sE)) := by
  set C := Cc wc sN; set NM := NMc sN; set R := Rc wv sN
  set C' := Cc wc' sE; set NM' := NMc sE; set R' := Rc wv' sE
  have hSN : renderSec wc wv sN = C ++ (NM ++ R) := render_eq wc wv sN
  have hSE : renderSec wc' wv' sE = C' ++ (NM' ++ R') := render_eq wc' wv' sE
  have hNMne : NM ≠ [] := by
    simp only [NM, NMc, ne_eq, List.map_eq_nil_iff]; exact hN.vars_ne
  have hNM'ne : NM' ≠ [] := by
    simp only [NM', NMc, ne_eq, List.map_eq_nil_iff]; exact hE.vars_ne
  obtain ⟨nm0, hnm0⟩ : ∃ b, NM.head? = some b := by
    cases h : NM with
    | nil => exact absurd h hNMne
    | cons x t => exact ⟨x, rfl⟩
  obtain ⟨nm0', hnm0'⟩ : ∃ b, NM'.head? = some b := by
    cases h : NM' with
    | nil => exact absurd h hNM'ne
    | cons x t => exact ⟨x, rfl⟩
  have hnm0n : isName nm0 = true := NM_names sN nm0 (List.mem_of_mem_head? hnm0)
  have hnm0n' : isName nm0' = true := NM_names sE nm0' (List.mem_of_mem_head? hnm0')
  obtain ⟨r0, hr0, hr0n⟩ := R_head wv sN hN.rows_ne
  set ls := renderSec wc wv sN ++ renderSec wc' wv' sE with hls
  have hfile : ls = C ++ (NM ++ (R ++ (C' ++ (NM' ++ R')))) := by rw [hls, hSN, hSE]; simp
  -- a : first name line
  have ha : findFrom isName ls 0 = some C.length := by
    have := findFrom_spec isName [] C (NM ++ (R ++ (C' ++ (NM' ++ R')))) nm0
      (fun a h => (C_noname wc sN eNot hN.wc a h).1) (by simp [List.head?_append, hnm0]) hnm0n
    simpa [hfile] using this
  -- b : end of the first cluster
  have htw : ((ls.drop C.length).takeWhile isName) = NM := by
    rw [hfile, List.drop_left]
    apply takeWhile_append_stop isName NM _ (NM_names sN)
    intro b hb
    obtain ⟨t, hRt⟩ : ∃ t, R = r0 :: t := by
      cases hR' : R with
      | nil => rw [show Rc wv sN = R from rfl, hR'] at hr0; simp at hr0
      | cons x t => rw [show Rc wv sN = R from rfl, hR'] at hr0; simp at hr0; exact ⟨t, by rw [hr0]⟩
    rw [hRt] at hb
    simp at hb; subst hb; exact hr0n
  -- c : next name line
  have hc : findFrom isName ls (C.length + NM.length) = some (C.length + NM.length + (R.length + C'.length)) := by
    have hA : ∀ a ∈ R ++ C', isName a = false := by
      intro a h
      rcases List.mem_append.mp h with h | h
      · exact R_noname wv sN hN.wv a h
      · exact (C_noname wc' sE eNot hE.wc a h).1
    have := findFrom_spec isName (C ++ NM) (R ++ C') (NM' ++ R') nm0' hA (by simp [List.head?_append, hnm0']) hnm0n'
    simpa [hfile, List.append_assoc] using this
  -- walk back
  obtain ⟨rl, hrl, hrlv⟩ := R_last wv sN eNot hN.wv hN.rows_ne hN.vals_ne he
  have hback : (((ls.take (C.length + NM.length + (R.length + C'.length))).reverse.takeWhile fun l => !hasVal eNot l)).length = C'.length := by
    have htake : ls.take (C.length + NM.length + (R.length + C'.length)) = (C ++ (NM ++ R)) ++ C' := by
      rw [hfile]
      have : C ++ (NM ++ (R ++ (C' ++ (NM' ++ R')))) = ((C ++ (NM ++ R)) ++ C') ++ (NM' ++ R') := by simp
      rw [this, List.take_left' (by simp; omega)]
    rw [htake, List.reverse_append]
    have : (C'.reverse ++ (C ++ (NM ++ R)).reverse).takeWhile (fun l => !hasVal eNot l) = C'.reverse := by
      apply takeWhile_append_stop
      · intro a h; simp [(C_noname wc' sE eNot hE.wc a (List.mem_reverse.mp h)).2]
      · intro b hb
        rw [List.head?_reverse] at hb
        have : (C ++ (NM ++ R)).getLast? = some rl := by
          have hrl' : R.getLast? = some rl := hrl
          rw [List.getLast?_append, List.getLast?_append, hrl']; rfl
        rw [this] at hb; cases hb; simp [hrlv]
    rw [this]; simp
  have hNMpos : 1 ≤ NM.length := List.length_pos_iff.mpr hNMne
  unfold splitSeries
  rw [ha]; simp only [htw, hc, hback]
  rw [if_neg (by omega)]
  have hstart : C.length + NM.length + (R.length + C'.length) - C'.length = (C ++ (NM ++ R)).length := by simp; omega
  rw [hstart, hSN, hSE]
  have hsplit : ls = (C ++ (NM ++ R)) ++ (C' ++ (NM' ++ R')) := by rw [hfile]; simp
  rw [hsplit, List.take_left, List.drop_left]


/-- with no elemental section (a single cluster of name lines) everything is nodal -/
theorem split_one (eNot : V → Bool) (wc wv : Nat) (sN : Sec V) (hN : WFSec wc wv sN) :
    splitSeries eNot (renderSec wc wv sN) = some (renderSec wc wv sN, none) := by
  set C := Cc wc sN; set NM := NMc sN; set R := Rc wv sN
  have hSN : renderSec wc wv sN = C ++ (NM ++ R) := render_eq wc wv sN
  have hNMne : NM ≠ [] := by
    simp only [NM, NMc, ne_eq, List.map_eq_nil_iff]; exact hN.vars_ne
  obtain ⟨nm0, hnm0⟩ : ∃ b, NM.head? = some b := by
    cases h : NM with
    | nil => exact absurd h hNMne
    | cons x t => exact ⟨x, rfl⟩
  have hnm0n : isName nm0 = true := NM_names sN nm0 (List.mem_of_mem_head? hnm0)
  obtain ⟨r0, hr0, hr0n⟩ := R_head wv sN hN.rows_ne
  have ha : findFrom isName (C ++ (NM ++ R)) 0 = some C.length := by
    have := findFrom_spec isName [] C (NM ++ R) nm0
      (fun a h => (C_noname wc sN eNot hN.wc a h).1) (by simp [List.head?_append, hnm0]) hnm0n
    simpa using this
  have htw : (((C ++ (NM ++ R)).drop C.length).takeWhile isName) = NM := by
    rw [List.drop_left]
    apply takeWhile_append_stop isName NM _ (NM_names sN)
    intro b hb
    rw [show Rc wv sN = R from rfl] at hr0
    rw [hr0] at hb; cases hb; exact hr0n
  have hc : findFrom isName (C ++ (NM ++ R)) (C.length + NM.length) = none := by
    have := findFrom_none isName (C ++ NM) R (R_noname wv sN hN.wv)
    simpa [List.append_assoc] using this
  rw [hSN]
  unfold splitSeries
  rw [ha]; simp only [htw, hc]
