import Femio.Model.Geom2
import Femio.Lemmas.GeomProps
import Mathlib.Tactic.Ring

open V3 Geom
variable {R : Type} [CommRing R]

macro "geom_unfold2" : tactic =>
  `(tactic| simp only [hexGauss512, quadLinCross1, quadLinCross2, quadGaussCross, tetPermuted6,
      tet6, hexLin6, hexC24, quadC4, pyrLin6, pyrC24, prismLin6, prismC24, triCross, fluxTri6,
      V3.det, V3.sub, V3.add, V3.smul, V3.cross, V3.dot, V3.normSq, M3.app, M3.det])

/-- the remaining three collapse patterns of `resolve_degeneracy` (pattern 01 is in GeomProps) -/
theorem degenerate12 (p0 p1 p3 p4 p5 p7 : V3 R) : hexC24 p0 p1 p1 p3 p4 p5 p5 p7 = prismC24 4 p0 p3 p1 p4 p7 p5 := by
  geom_unfold2; ring
theorem degenerate23 (p0 p1 p2 p4 p5 p6 : V3 R) : hexC24 p0 p1 p2 p2 p4 p5 p6 p6 = prismC24 4 p0 p2 p1 p4 p6 p5 := by
  geom_unfold2; ring
theorem degenerate30 (p0 p1 p2 p4 p5 p6 : V3 R) : hexC24 p0 p1 p2 p0 p4 p5 p6 p4 = prismC24 4 p0 p2 p1 p4 p6 p5 := by
  geom_unfold2; ring

/-- C18_positive: the permutation negates the signed volume -/
theorem tet_permute_neg (p0 p1 p2 p3 : V3 R) : tetPermuted6 p0 p1 p2 p3 = - tet6 p0 p1 p2 p3 := by
  geom_unfold2; ring

/-- Gaussian hex mode on an affine hex, for ANY abscissa `p` (so the truncated literal is harmless there) -/
theorem hexGauss_affine (p : R) (o e1 e2 e3 : V3 R) :
    hexGauss512 1 p o (add o e1) (add (add o e1) e2) (add o e2) (add o e3) (add (add o e1) e3)
      (add (add (add o e1) e2) e3) (add (add o e2) e3) = 512 * V3.det e1 e2 e3 := by
  geom_unfold2; ring

theorem sub_add_add (a b t : V3 R) : sub (add a t) (add b t) = sub a b := by
  simp only [V3.sub, V3.add]; congr 1 <;> ring

/-- translation invariance needs no expansion: the kernel only looks at differences of nodes -/
theorem hexGauss_translate (p : R) (t q0 q1 q2 q3 q4 q5 q6 q7 : V3 R) :
    hexGauss512 1 p (add q0 t) (add q1 t) (add q2 t) (add q3 t) (add q4 t) (add q5 t) (add q6 t) (add q7 t)
      = hexGauss512 1 p q0 q1 q2 q3 q4 q5 q6 q7 := by
  simp only [hexGauss512, sub_add_add]

/-- on a planar parallelogram all three quad area modes give the same (doubled) area vector -/
theorem quad_modes_affine (xi eta : R) (o e1 e2 : V3 R) :
    quadGaussCross 1 xi eta o (add o e1) (add (add o e1) e2) (add o e2) = smul 4 (cross e1 e2) ∧
    add (quadLinCross1 o (add o e1) (add (add o e1) e2) (add o e2)) (quadLinCross2 o (add o e1) (add (add o e1) e2) (add o e2))
      = smul 2 (cross e1 e2) := by
  constructor
  · geom_unfold2; congr 1 <;> ring
  · geom_unfold2; congr 1 <;> ring
