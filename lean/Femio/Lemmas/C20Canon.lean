import Femio.Lemmas.C20Lemmas

/-! C20 — `canon` (the key of `calc_face_hash`) on faces without repeated nodes: `canon` is a complete rotation
    invariant, hence the reversed class is well defined and reversal is an involution on classes. -/
namespace Femio.C20
open Faces

/-- the entry at `argMin f` is a minimum of `f` -/
theorem argMin_spec (f : List Nat) (hf : f ≠ []) :
    f.getD (argMin f) 0 ∈ f ∧ ∀ b ∈ f, f.getD (argMin f) 0 ≤ b := by
  induction f with
  | nil => exact absurd rfl hf
  | cons a t ih =>
    unfold argMin
    split
    · rename_i h
      simp only [List.all_eq_true, decide_eq_true_eq] at h
      refine ⟨by simp, fun b hb => ?_⟩
      simp only [List.getD_cons_zero]
      rcases List.mem_cons.mp hb with rfl | hb
      · exact Nat.le_refl _
      · exact h b hb
    · rename_i h
      have ht : t ≠ [] := by
        rintro rfl
        simp at h
      obtain ⟨hm, hle⟩ := ih ht
      simp only [List.getD_cons_succ]
      refine ⟨List.mem_cons_of_mem _ hm, fun b hb => ?_⟩
      rcases List.mem_cons.mp hb with rfl | hb
      · simp only [List.all_eq_true, decide_eq_true_eq, not_forall, Nat.not_le] at h
        obtain ⟨c, hc, hlt⟩ := h
        exact Nat.le_of_lt (Nat.lt_of_le_of_lt (hle c hc) hlt)
      · exact hle b hb

/-- `canon f` starts with a minimum of `f` -/
theorem canon_head (f : Face) (hf : f ≠ []) :
    ∃ m, (canon f).head? = some m ∧ m ∈ f ∧ ∀ b ∈ f, m ≤ b := by
  obtain ⟨hm, hle⟩ := argMin_spec f hf
  refine ⟨f.getD (argMin f) 0, ?_, hm, hle⟩
  have hpos : 0 < f.length := List.length_pos_iff.mpr hf
  have h0 := argMin_lt f hf
  obtain ⟨n, hn⟩ : ∃ n, f.length = n + 1 := ⟨f.length - 1, by omega⟩
  have hmod : (argMin f + (n + 1) - 0) % (n + 1) = argMin f := by
    rw [Nat.sub_zero, Nat.add_mod_right, Nat.mod_eq_of_lt (by omega)]
  simp only [canon, hn, List.range_succ_eq_map, List.map_cons, List.head?_cons, hmod]

theorem canon_isRotated (f : Face) : canon f ~r f.reverse := by
  obtain ⟨k, hk⟩ := canon_eq_rotate_reverse f
  rw [hk]
  exact (List.IsRotated.symm ⟨k, rfl⟩)

/-- two rotations of a list without repetition that start with the same element are equal -/
theorem rot_unique {l₁ l₂ : List Nat} (h : l₁ ~r l₂) (hn : l₁.Nodup) (hh : l₁.head? = l₂.head?) : l₁ = l₂ := by
  obtain ⟨k, rfl⟩ := h
  by_cases hl : l₁ = []
  · subst hl
    simp
  have hpos : 0 < l₁.length := List.length_pos_iff.mpr hl
  have hk : k % l₁.length < l₁.length := Nat.mod_lt _ hpos
  rw [← List.rotate_mod] at hh ⊢
  rw [List.head?_rotate hk, List.head?_eq_getElem?, List.getElem?_eq_getElem hpos,
    List.getElem?_eq_getElem hk, Option.some_inj] at hh
  have := (List.Nodup.getElem_inj_iff hn).mp hh
  rw [← this, List.rotate_zero]

/-- on faces without repeated nodes `canon` is a rotation invariant -/
theorem canon_eq_of_isRotated {f g : Face} (hf : f.Nodup) (h : f ~r g) : canon f = canon g := by
  by_cases hfe : f = []
  · subst hfe
    have : g = [] := by simpa using h.symm
    rw [this]
  have hge : g ≠ [] := by
    rintro rfl
    exact hfe (by simpa using h)
  have hr : canon f ~r canon g :=
    ((canon_isRotated f).trans h.reverse).trans (canon_isRotated g).symm
  have hnd : (canon f).Nodup := (canon_isRotated f).nodup_iff.mpr (List.nodup_reverse.mpr hf)
  obtain ⟨m, hm, hmf, hlf⟩ := canon_head f hfe
  obtain ⟨m', hm', hmg, hlg⟩ := canon_head g hge
  have e : m = m' := Nat.le_antisymm (hlf _ (h.mem_iff.mpr hmg)) (hlg _ (h.mem_iff.mp hmf))
  apply rot_unique hr hnd
  rw [hm, hm', e]

/-- `canon f` determines `f` up to rotation (any face) -/
theorem isRotated_of_canon_eq {f g : Face} (h : canon f = canon g) : f ~r g := by
  have : f.reverse ~r g.reverse := by
    have h1 := (canon_isRotated f).symm
    rw [h] at h1
    exact h1.trans (canon_isRotated g)
  exact List.isRotated_reverse_iff.mp this

/-- the reversed class is well defined -/
theorem canon_reverse_congr {f g : Face} (hf : f.Nodup) (_hg : g.Nodup) (h : canon f = canon g) :
    canon f.reverse = canon g.reverse :=
  canon_eq_of_isRotated (List.nodup_reverse.mpr hf) (isRotated_of_canon_eq h).reverse

/-- reversal is an involution on classes -/
theorem canon_reverse_symm {f g : Face} (_hf : f.Nodup) (hg : g.Nodup) (h : canon f.reverse = canon g) :
    canon g.reverse = canon f := by
  have h1 : f.reverse ~r g := isRotated_of_canon_eq h
  have h2 : g.reverse ~r f := by simpa using h1.reverse.symm
  exact canon_eq_of_isRotated (List.nodup_reverse.mpr hg) h2

end Femio.C20
