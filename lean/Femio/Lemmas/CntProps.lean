import Femio.Model.Cnt
import Mathlib.Tactic.Linarith
import Mathlib.Tactic.IntervalCases

open Cnt
variable {V : Type}

theorem mem_gen (width : Nat) (t : List (Row V)) (i d : Nat) (x : V) :
    (i, d, x) ∈ genConstraints width t ↔ ∃ r ∈ t, r.1 = i ∧ 1 ≤ d ∧ d ≤ width ∧ r.2[d - 1]? = some (some x) := by
  simp only [genConstraints, List.mem_flatMap, List.mem_range, List.mem_filterMap]
  constructor
  · rintro ⟨k, hk, r, hr, h⟩
    split at h
    · rename_i y hc
      simp only [Option.some.injEq, Prod.mk.injEq] at h
      obtain ⟨rfl, rfl, rfl⟩ := h
      exact ⟨r, hr, rfl, by omega, by omega, by simpa using hc⟩
    · cases h
  · rintro ⟨r, hr, rfl, h1, h2, hc⟩
    refine ⟨d - 1, by omega, r, hr, ?_⟩
    rw [hc]
    simp only [Option.some.injEq, Prod.mk.injEq, true_and, and_true]
    omega

theorem presc_readBLine (l : BLine V) (p : Nat × Nat × V) :
    Presc [readBLine l] p ↔ (p.1 = l.id ∧ l.first ≤ p.2.1 ∧ p.2.1 ≤ l.last ∧ 1 ≤ p.2.1 ∧ p.2.1 ≤ 3 ∧ p.2.2 = l.val) := by
  obtain ⟨i, d, x⟩ := p
  simp only [Presc, List.mem_singleton, exists_eq_left, readBLine, List.getElem?_map, List.getElem?_range]
  constructor
  · rintro ⟨hid, h1, hc⟩
    by_cases hd : d - 1 < 3
    · rw [List.getElem?_range hd] at hc
      simp only [Option.map_some, Option.some.injEq] at hc
      split at hc
      · cases hc; exact ⟨hid.symm, by omega, by omega, h1, by omega, rfl⟩
      · cases hc
    · rw [List.getElem?_eq_none (by simpa using hd)] at hc; simp at hc
  · rintro ⟨rfl, h1, h2, h3, h4, rfl⟩
    refine ⟨rfl, h3, ?_⟩
    rw [List.getElem?_range (by omega)]
    simp only [Option.map_some, Option.some.injEq]
    rw [if_pos (by omega)]

theorem presc_map (f : α → Row V) (ls : List α) (p : Nat × Nat × V) :
    Presc (ls.map f) p ↔ ∃ l ∈ ls, Presc [f l] p := by
  simp only [Presc, List.mem_map, List.mem_singleton]
  constructor
  · rintro ⟨r, ⟨l, hl, rfl⟩, h⟩; exact ⟨l, hl, _, rfl, h⟩
  · rintro ⟨l, hl, r, rfl, h⟩; exact ⟨_, ⟨l, hl, rfl⟩, h⟩

/-- **C03_boundary_roundtrip**: writing a boundary table and reading it back denotes exactly the same
    set of (node, dof, value) prescriptions, for every NaN pattern and node subset (3 dofs). -/
theorem boundary_roundtrip (t : List (Row V)) (hw : ∀ r ∈ t, r.2.length = 3) (p : Nat × Nat × V) :
    Presc (readBoundary (writeBoundary t)) p ↔ Presc t p := by
  obtain ⟨i, d, x⟩ := p
  unfold readBoundary writeBoundary
  rw [presc_map]
  simp only [List.mem_map, Prod.exists]
  constructor
  · rintro ⟨l, ⟨i', d', x', hmem, rfl⟩, hp⟩
    rw [presc_readBLine] at hp
    simp only at hp
    obtain ⟨rfl, h1, h2, h3, h4, rfl⟩ := hp
    have hd : d = d' := by omega
    subst hd
    obtain ⟨r, hr, hid, _, _, hc⟩ := (mem_gen 3 t _ _ _).mp hmem
    exact ⟨r, hr, hid, h3, hc⟩
  · rintro ⟨r, hr, hid, h1, hc⟩
    simp only at hid h1 hc
    have hd3 : d ≤ 3 := by
      by_contra hgt
      rw [List.getElem?_eq_none (by rw [hw r hr]; omega)] at hc; cases hc
    refine ⟨⟨i, d, d, x⟩, ⟨i, d, x, (mem_gen 3 t i d x).mpr ⟨r, hr, hid, h1, hd3, hc⟩, rfl⟩, ?_⟩
    rw [presc_readBLine]; simp; omega

/-- **C03_group_expansion**: a condition on a node-group name denotes exactly the prescriptions of the
    same condition listed for each member (the reordering done by the reader is immaterial). -/
theorem group_expansion (groups : Nat → List Nat) (ls : List (GLine V)) (p : Nat × Nat × V) :
    Presc (readBoundary (extend groups ls)) p ↔ Presc (readBoundary (explicit groups ls)) p := by
  unfold readBoundary
  rw [presc_map, presc_map]
  have hmem : ∀ b : BLine V, b ∈ extend groups ls ↔ b ∈ explicit groups ls := by
    intro b
    simp only [extend, explicit, List.mem_append, List.mem_flatMap, List.mem_filterMap]
    constructor
    · rintro (⟨l, hl, hb⟩ | ⟨l, hl, hb⟩)
      · refine ⟨l, hl, ?_⟩; cases ht : l.target <;> simp_all
      · refine ⟨l, hl, ?_⟩; cases ht : l.target <;> simp_all
    · rintro ⟨l, hl, hb⟩
      cases ht : l.target with
      | node i => right; exact ⟨l, hl, by simp_all⟩
      | group g => left; exact ⟨l, hl, by simp_all⟩
  constructor
  · rintro ⟨b, hb, h⟩; exact ⟨b, (hmem b).mp hb, h⟩
  · rintro ⟨b, hb, h⟩; exact ⟨b, (hmem b).mpr hb, h⟩

#print axioms boundary_roundtrip
#print axioms group_expansion
