import Femio.Lemmas.C20Lemmas

/-! `merge_polyhedrons` preserves the total of a face weight with values in an arbitrary commutative ring
(the development of `C20Lemmas.lean`, section "merge_polyhedrons", with `ℤ` replaced by `R`). -/
namespace Femio.C20
open Faces

variable {R : Type} [CommRing R]

/-- potential: the last face of every `canon`-class carries the surplus of its class over the reversed class -/
def psiR (φ : Face → R) (N : Face → Nat) : List Face → R
  | [] => 0
  | f :: t => (if t.any (fun g => decide (canon g = canon f)) then 0
      else (((N (canon f) - N (canon f.reverse) : Nat) : ℤ) : R) * φ f) + psiR φ N t

/-- effect on the potential of changing the table at one key `x` (reverse key `y`) -/
theorem psi_updateR (φ : Face → R) (N N' : Face → Nat) (x y : Face) (v : Nat) (φf : R)
    (hx : N' x = v) (hne : ∀ k, k ≠ x → N' k = N k) (hxy : x = y → φf = 0) (s : List Face)
    (h1 : ∀ g ∈ s, canon g = x → canon g.reverse = y ∧ φ g = φf)
    (h2 : ∀ g ∈ s, canon g.reverse = x → canon g = y)
    (h3 : ∀ g ∈ s, canon g = y → canon g.reverse = x ∧ φ g = -φf) :
    psiR φ N' s = psiR φ N s
      + (if s.any (fun g => decide (canon g = x))
          then ((((v - N y : ℕ) : ℤ) : R) - (((N x - N y : ℕ) : ℤ) : R)) * φf else 0)
      + (if s.any (fun g => decide (canon g = y))
          then ((((N y - v : ℕ) : ℤ) : R) - (((N y - N x : ℕ) : ℤ) : R)) * (-φf) else 0) := by
  induction s with
  | nil => simp [psiR]
  | cons g s ih =>
    have ih' := ih (fun g hg => h1 g (List.mem_cons_of_mem _ hg)) (fun g hg => h2 g (List.mem_cons_of_mem _ hg))
      (fun g hg => h3 g (List.mem_cons_of_mem _ hg))
    have g1 := h1 g List.mem_cons_self
    have g2 := h2 g List.mem_cons_self
    have g3 := h3 g List.mem_cons_self
    have hany : ∀ k, ((g :: s).any fun g => decide (canon g = k)) = (decide (canon g = k) || s.any fun g => decide (canon g = k)) :=
      fun k => rfl
    rw [psiR, psiR, ih', hany x, hany y]
    by_cases hk : canon g = x
    · obtain ⟨hr, hφ⟩ := g1 hk
      subst hk hr hφ hx
      by_cases hxy' : canon g = canon g.reverse
      · have := hxy hxy'; simp [this]
      · have hy : N' (canon g.reverse) = N (canon g.reverse) := hne _ (fun h => hxy' h.symm)
        rw [hy]
        simp only [decide_true, Bool.true_or, if_true, hxy', decide_false, Bool.false_or]
        by_cases ha : (s.any fun g' => decide (canon g' = canon g)) = true
        · simp only [ha, if_true]; ring
        · simp only [ha]; simp only [Bool.false_eq_true, if_false]; ring
    · have hkN : N' (canon g) = N (canon g) := hne _ hk
      rw [hkN]
      by_cases hr : canon g.reverse = x
      · have hky := g2 hr
        obtain ⟨_, hφ⟩ := g3 hky
        have hxy' : ¬ y = x := fun h => hk (hky.trans h)
        subst hr hky hx
        rw [hφ]
        have hk' : ¬ canon g = canon g.reverse := hk
        simp only [decide_true, Bool.true_or, if_true, hk', decide_false, Bool.false_or]
        by_cases ha : (s.any fun g' => decide (canon g' = canon g)) = true
        · simp only [ha, if_true]; ring
        · simp only [ha]; simp only [Bool.false_eq_true, if_false]; ring
      · have hrN : N' (canon g.reverse) = N (canon g.reverse) := hne _ hr
        have hky : ¬ canon g = y := fun h => hr (g3 h).1
        rw [hrN]
        simp only [hk, hky, decide_false, Bool.false_or]
        ring

/-- as `MergeOK`, plus: a face whose class equals its reversed class has weight 0 (over ℤ this follows from
oddness; in a ring where 2 may be a zero divisor it must be required) -/
def MergeOKR (φ : Face → R) (fs : List Face) : Prop :=
  (∀ f ∈ fs, ∀ g ∈ fs, canon f = canon g → canon f.reverse = canon g.reverse ∧ φ f = φ g) ∧
  (∀ f ∈ fs, ∀ g ∈ fs, canon f.reverse = canon g → canon g.reverse = canon f ∧ φ g = -φ f) ∧
  (∀ f ∈ fs, canon f = canon f.reverse → φ f = 0)

theorem MergeOKR.tail {φ : Face → R} {f : Face} {t : List Face} (h : MergeOKR φ (f :: t)) : MergeOKR φ t :=
  ⟨fun a ha b hb => h.1 a (List.mem_cons_of_mem _ ha) b (List.mem_cons_of_mem _ hb),
   fun a ha b hb => h.2.1 a (List.mem_cons_of_mem _ ha) b (List.mem_cons_of_mem _ hb),
   fun a ha => h.2.2 a (List.mem_cons_of_mem _ ha)⟩

theorem MergeOKR.head {φ : Face → R} {f : Face} {t : List Face} (h : MergeOKR φ (f :: t)) :
    (canon f = canon f.reverse → φ f = 0) ∧
    (∀ g ∈ t, canon g = canon f → canon g.reverse = canon f.reverse ∧ φ g = φ f) ∧
    (∀ g ∈ t, canon g.reverse = canon f → canon g = canon f.reverse) ∧
    (∀ g ∈ t, canon g = canon f.reverse → canon g.reverse = canon f ∧ φ g = -φ f) := by
  have hf : f ∈ f :: t := List.mem_cons_self
  refine ⟨fun e => ?_, fun g hg e => ?_, fun g hg e => ?_, fun g hg e => ?_⟩
  · exact h.2.2 f hf e
  · exact h.1 g (List.mem_cons_of_mem _ hg) f hf e
  · exact (h.2.1 g (List.mem_cons_of_mem _ hg) f hf e).1.symm
  · exact h.2.1 f hf g (List.mem_cons_of_mem _ hg) e.symm

theorem sum_replicate_mapR (φ : Face → R) (n : Nat) (f : Face) :
    ((List.replicate n f).map φ).sum = ((n : ℤ) : R) * φ f := by
  simp

theorem mergeLoop_sumR (φ : Face → R) (fs : List Face) (T : Tbl) (h : MergeOKR φ fs) :
    ((mergeLoop fs T).map φ).sum = psiR φ (getC T) fs := by
  induction fs generalizing T with
  | nil => simp [mergeLoop, psiR]
  | cons f t ih =>
    obtain ⟨h0, h1, h2, h3⟩ := h.head
    simp only [mergeLoop, psiR]
    by_cases hlt : getC T (canon f.reverse) < getC T (canon f)
    · rw [if_pos hlt, List.map_append, List.sum_append, sum_replicate_mapR, ih _ h.tail]
      rw [psi_updateR φ (getC T) (getC (setC T (canon f) (getC T (canon f.reverse)))) (canon f) (canon f.reverse)
        (getC T (canon f.reverse)) (φ f) (by rw [getC_setC]; simp)
        (fun k hk => by rw [getC_setC]; simp [Ne.symm hk]) h0 t h1 h2 h3]
      have e1 : getC T (canon f.reverse) - getC T (canon f.reverse) = 0 := by omega
      have e2 : getC T (canon f.reverse) - getC T (canon f) = 0 := by omega
      rw [e1, e2]
      simp only [Nat.cast_zero, Int.cast_zero]
      by_cases ha : (t.any fun g => decide (canon g = canon f)) = true
      · simp only [ha, if_true]; split <;> ring
      · simp only [ha]; simp only [Bool.false_eq_true, if_false]; split <;> ring
    · rw [if_neg hlt, ih _ h.tail]
      have e : getC T (canon f) - getC T (canon f.reverse) = 0 := by omega
      rw [e]; simp

theorem psi_cntKR (φ : Face → R) (fs : List Face) (h : MergeOKR φ fs) : psiR φ (cntK fs) fs = (fs.map φ).sum := by
  induction fs with
  | nil => simp [psiR]
  | cons f t ih =>
    obtain ⟨h0, h1, h2, h3⟩ := h.head
    simp only [psiR, List.map_cons, List.sum_cons]
    rw [psi_updateR φ (cntK t) (cntK (f :: t)) (canon f) (canon f.reverse) (cntK t (canon f) + 1) (φ f)
      (by simp [cntK]) (fun k hk => by simp [cntK, Ne.symm hk]) h0 t h1 h2 h3,
      ih h.tail]
    by_cases hxy : canon f = canon f.reverse
    · rw [h0 hxy]; simp
    · have hx : cntK (f :: t) (canon f) = cntK t (canon f) + 1 := by simp [cntK]
      have hy : cntK (f :: t) (canon f.reverse) = cntK t (canon f.reverse) := by
        simp [cntK, hxy]
      rw [hx, hy]
      have px := cntK_pos_iff t (canon f)
      have py := cntK_pos_iff t (canon f.reverse)
      generalize cntK t (canon f) = a at *
      generalize cntK t (canon f.reverse) = b at *
      by_cases ha : (t.any fun g => decide (canon g = canon f)) = true <;>
      by_cases hb : (t.any fun g => decide (canon g = canon f.reverse)) = true
      · simp only [ha, hb, if_true]
        have hC : (((a + 1 - b : ℕ) : ℤ) - ((a - b : ℕ) : ℤ)) - ((((b - (a + 1) : ℕ) : ℤ)) - ((b - a : ℕ) : ℤ)) = 1 := by
          omega
        have hC' := congrArg (Int.cast : ℤ → R) hC
        simp only [Int.cast_sub, Int.cast_one] at hC'
        linear_combination (φ f) * hC'
      · have hb0 : b = 0 := by have := py.not.mpr hb; omega
        simp only [ha, hb, if_true]
        simp only [Bool.false_eq_true, if_false]
        have hC : (((a + 1 - b : ℕ) : ℤ) - ((a - b : ℕ) : ℤ)) = 1 := by omega
        have hC' := congrArg (Int.cast : ℤ → R) hC
        simp only [Int.cast_sub, Int.cast_one] at hC'
        linear_combination (φ f) * hC'
      · have ha0 : a = 0 := by have := px.not.mpr ha; omega
        have hb1 : 0 < b := py.mpr hb
        simp only [ha, hb, if_true]
        simp only [Bool.false_eq_true, if_false]
        have hC : ((a + 1 - b : ℕ) : ℤ) - ((((b - (a + 1) : ℕ) : ℤ)) - ((b - a : ℕ) : ℤ)) = 1 := by omega
        have hC' := congrArg (Int.cast : ℤ → R) hC
        simp only [Int.cast_sub, Int.cast_one] at hC'
        linear_combination (φ f) * hC'
      · have ha0 : a = 0 := by have := px.not.mpr ha; omega
        have hb0 : b = 0 := by have := py.not.mpr hb; omega
        simp only [ha, hb]
        simp only [Bool.false_eq_true, if_false]
        have hC : ((a + 1 - b : ℕ) : ℤ) = 1 := by omega
        have hC' := congrArg (Int.cast : ℤ → R) hC
        simp only [Int.cast_one] at hC'
        linear_combination (φ f) * hC'

theorem mergeCells_sumR (φ : Face → R) (cells : List Cell) (h : MergeOKR φ cells.flatten) :
    ((mergeCells cells).map φ).sum = (cells.flatten.map φ).sum := by
  unfold mergeCells
  rw [mergeLoop_sumR φ _ _ h]
  have : getC (countTbl cells.flatten) = cntK cells.flatten := funext (getC_countTbl _)
  rw [this, psi_cntKR φ _ h]

end Femio.C20
