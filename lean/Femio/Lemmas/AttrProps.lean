import Femio.Model.Attr
import Mathlib.Tactic.Linarith

open Attr

def AInv (s : State) : Prop :=
  s.frame = s.data ∧ s.ids.length = s.frame.length ∧ (∀ m, s.id2index = some m → m = enumIds s.ids)

theorem setRow_length (ids : List Id) (rows : List Row) (i : Id) (r : Row) :
    (setRow ids rows i r).length = rows.length := by
  induction ids generalizing rows with
  | nil => simp [setRow]
  | cons a as ih =>
    cases rows with
    | nil => simp [setRow]
    | cons q qs => simp [setRow, ih]

theorem foldl_setRow_length (ids : List Id) (ps : List (Id × Row)) (fr : List Row) :
    (ps.foldl (fun fr (p : Id × Row) => setRow ids fr p.1 p.2) fr).length = fr.length := by
  induction ps generalizing fr with
  | nil => rfl
  | cons p ps ih => simp [List.foldl_cons, ih, setRow_length]

theorem inv_mk (ids : List Id) (rows : List Row) (b : Bool) (s : State) (h : mk ids rows b = .ok s) : AInv s := by
  unfold mk at h
  split at h
  · cases h
  · rename_i hl
    cases h
    refine ⟨rfl, by simpa using hl, ?_⟩
    intro m hm; cases b <;> simp at hm; exact hm.symm

/-- the write-through of a slice preserves the invariant (repaired code) -/
theorem inv_locWrite_fixed (s : State) (sel : List Id) (v : List Row) (h : AInv s) :
    AInv (step Cfg.fixed s (.locWrite sel v)) := by
  obtain ⟨hfd, hlen, hidx⟩ := h
  simp only [step, locWrite]
  split
  · rename_i t ht
    split at ht
    · cases ht
    · split at ht
      · cases ht
      · cases ht
        refine ⟨by simp [Cfg.fixed], ?_, hidx⟩
        simp only
        rw [show (fun fr (x : Id × Row) => match x with | (i, r) => setRow s.ids fr i r)
              = (fun fr (p : Id × Row) => setRow s.ids fr p.1 p.2) from by funext fr ⟨i, r⟩; rfl]
        rw [foldl_setRow_length]; exact hlen
  · exact ⟨hfd, hlen, hidx⟩

/-- **C08_inv (step)** for the repaired code: every public update preserves the invariant. -/
theorem inv_step_fixed (s : State) (op : Op) (h : AInv s) : AInv (step Cfg.fixed s op) := by
  obtain ⟨hfd, hlen, hidx⟩ := h
  cases op with
  | setData v =>
    simp only [step, setData]
    split
    · rename_i t ht
      split at ht
      · cases ht
      · rename_i hl; cases ht
        exact ⟨rfl, by simpa using hl, hidx⟩
    · exact ⟨hfd, hlen, hidx⟩
  | update ids' rows ow =>
    cases ow with
    | false => simp only [step, updateAppend]; exact ⟨hfd, hlen, hidx⟩
    | true =>
      simp only [step, updateOverwrite]
      split
      · rename_i t ht
        split at ht
        · cases ht
        · cases ht
          refine ⟨rfl, by simp, ?_⟩
          intro m hm
          cases hs : s.id2index with
          | none => simp [hs, Cfg.fixed] at hm
          | some m0 =>
            simp only [hs, Cfg.fixed, if_true, Option.map_some, Option.some.injEq] at hm
            exact hm.symm
      · exact ⟨hfd, hlen, hidx⟩
  | locWrite sel v =>
    simp only [step, locWrite]
    split
    · rename_i t ht
      split at ht
      · cases ht
      · split at ht
        · cases ht
        · cases ht
          refine ⟨by simp [Cfg.fixed], ?_, hidx⟩
          simp only
          rw [show (fun fr (x : Id × Row) => match x with | (i, r) => setRow s.ids fr i r)
                = (fun fr (p : Id × Row) => setRow s.ids fr p.1 p.2) from by funext fr ⟨i, r⟩; rfl]
          rw [foldl_setRow_length]; exact hlen
    · exact ⟨hfd, hlen, hidx⟩
  | overwrite v =>
    simp only [step, overwrite, Cfg.fixed, if_true, setData]
    split
    · rename_i t ht
      split at ht
      · cases ht
      · rename_i hl; cases ht
        exact ⟨rfl, by simpa using hl, hidx⟩
    · exact ⟨hfd, hlen, hidx⟩
  | ilocWrite pos v =>
    simp only [step, ilocWrite]
    cases hm : pos.mapM (fun k => s.ids[k]?) with
    | none => exact ⟨hfd, hlen, hidx⟩
    | some sel =>
      simp only
      have := inv_locWrite_fixed s sel v ⟨hfd, hlen, hidx⟩
      simpa [step] using this
  | overwriteIds ids v =>
    simp only [step, overwriteIds]
    cases hm : mk ids v false with
    | error e => exact ⟨hfd, hlen, hidx⟩
    | ok t => exact inv_mk ids v false t hm

/-- **C08_reachable**: any finite sequence of public updates. -/
theorem inv_reachable_fixed (s : State) (ops : List Op) (h : AInv s) : AInv (ops.foldl (step Cfg.fixed) s) := by
  induction ops generalizing s with
  | nil => exact h
  | cons op ops ih => exact ih _ (inv_step_fixed s op h)

/-! counterexamples for the code as it is (each is replayed on the implementation by the harness) -/
def s0 : State := ⟨[5, 3, 9], [[some 1], [some 3], [some 5]], [[some 1], [some 3], [some 5]], some (enumIds [5, 3, 9])⟩

/-- F2: write through `.loc` leaves the positional view behind -/
theorem locWrite_breaks_current : InvB (step Cfg.current s0 (.locWrite [3, 9] [[some 30], [some 50]])) = false := by decide
/-- F3: `overwrite` without ids leaves the id-keyed view behind -/
theorem overwrite_breaks_current : InvB (step Cfg.current s0 (.overwrite [[some 7], [some 8], [some 9]])) = false := by decide
/-- F4: `update` re-sorts the ids but keeps the old id→position map -/
theorem update_breaks_current : InvB (step Cfg.current s0 (.update [1] [[some 0]] true)) = false := by decide
/-- …and the same three histories are fine for the repaired code -/
example : InvB (step Cfg.fixed s0 (.locWrite [3, 9] [[some 30], [some 50]])) = true := by decide
example : InvB (step Cfg.fixed s0 (.update [1] [[some 0]] true)) = true := by decide

