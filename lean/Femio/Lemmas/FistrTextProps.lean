import Femio.Model.FistrText
import Femio.Lemmas.NumeralProps
import Mathlib.Tactic.Linarith
import Mathlib.Tactic.IntervalCases
import Mathlib.Tactic.Ring

/-! String-level lemmas for the FrontISTR text models (C01, C03): `split ∘ join`, decimal numerals,
`%.pE` rendering vs `float()` parsing, blank-insensitivity of field parsers. -/
namespace Femio.Fistr
open Numeral

/-! ### split / join -/
theorem splitOn_noSep (sep : Char) (f : List Char) (h : sep ∉ f) : splitOn sep f = [f] := by
  induction f with
  | nil => rfl
  | cons c t ih =>
    have hc : c ≠ sep := fun e => h (e ▸ List.mem_cons_self)
    have ht : sep ∉ t := fun m => h (List.mem_cons_of_mem _ m)
    simp [splitOn, hc, ih ht]

theorem splitOn_append (sep : Char) (f rest : List Char) (h : sep ∉ f) :
    splitOn sep (f ++ sep :: rest) = f :: splitOn sep rest := by
  induction f with
  | nil => simp [splitOn]
  | cons c t ih =>
    have hc : c ≠ sep := fun e => h (e ▸ List.mem_cons_self)
    have ht : sep ∉ t := fun m => h (List.mem_cons_of_mem _ m)
    simp [splitOn, hc, ih ht]

/-- `sep.join(fields).split(sep) = fields` for fields that do not contain the separator -/
theorem split_join (sep : Char) (fs : List (List Char)) (hne : fs ≠ []) (h : ∀ f ∈ fs, sep ∉ f) :
    splitOn sep (joinSep sep fs) = fs := by
  induction fs with
  | nil => exact absurd rfl hne
  | cons f t ih =>
    cases t with
    | nil => simpa [joinSep] using splitOn_noSep sep f (h f (by simp))
    | cons g t =>
      have := ih (by simp) (fun x hx => h x (List.mem_cons_of_mem _ hx))
      simp only [joinSep]
      rw [splitOn_append sep f _ (h f (by simp)), this]

/-! ### characters of numerals -/
theorem isDigit_digitChar (d : Nat) (h : d < 10) : isDigit (digitChar d) = true := by
  interval_cases d <;> decide

theorem toNat_digitChar (d : Nat) (h : d < 10) : (digitChar d).toNat - 48 = d := by
  interval_cases d <;> decide

theorem natDigits_lt (n : Nat) : ∀ d ∈ natDigits n, d < 10 := aux_lt (n + 1) n [] (by simp)

theorem showNat_isDigit (n : Nat) : ∀ c ∈ showNat n, isDigit c = true := by
  intro c hc
  simp only [showNat, List.mem_map] at hc
  obtain ⟨d, hd, rfl⟩ := hc
  exact isDigit_digitChar d (natDigits_lt n d hd)

theorem showNat_ne_nil (n : Nat) : showNat n ≠ [] := by
  simp only [showNat, ne_eq, List.map_eq_nil_iff]
  exact aux_ne_nil (n + 1) n [] (by omega)

theorem not_mem_of_digits {s : List Char} (hs : ∀ c ∈ s, isDigit c = true) (x : Char) (hx : isDigit x = false) :
    x ∉ s := fun m => by simp [hs x m] at hx

theorem comma_not_mem_showNat (n : Nat) : ',' ∉ showNat n :=
  not_mem_of_digits (showNat_isDigit n) ',' (by decide)

theorem fixDigits_isDigit (k n : Nat) : ∀ c ∈ fixDigits k n, isDigit c = true := by
  induction k generalizing n with
  | zero => simp [fixDigits]
  | succ k ih =>
    intro c hc
    simp only [fixDigits, List.mem_append, List.mem_singleton] at hc
    rcases hc with hc | rfl
    · exact ih _ c hc
    · exact isDigit_digitChar _ (Nat.mod_lt _ (by omega))

theorem length_fixDigits (k n : Nat) : (fixDigits k n).length = k := by
  induction k generalizing n with
  | zero => rfl
  | succ k ih => simp [fixDigits, ih]

/-! ### evaluation of digit strings -/
theorem evalChars_foldl (l : List Char) (acc : Nat) :
    l.foldl (fun x c => x * 10 + (c.toNat - 48)) acc = acc * 10 ^ l.length + evalChars l := by
  induction l generalizing acc with
  | nil => simp [evalChars]
  | cons c t ih =>
    simp only [List.foldl_cons, List.length_cons, evalChars]
    rw [ih, ih (0 * 10 + (c.toNat - 48))]
    ring

theorem evalChars_append (l r : List Char) : evalChars (l ++ r) = evalChars l * 10 ^ r.length + evalChars r := by
  unfold evalChars
  rw [List.foldl_append, evalChars_foldl]
  rfl

theorem evalChars_map_digitChar (ds : List Nat) (h : ∀ d ∈ ds, d < 10) (acc : Nat) :
    (ds.map digitChar).foldl (fun x c => x * 10 + (c.toNat - 48)) acc = evalDigits acc ds := by
  induction ds generalizing acc with
  | nil => rfl
  | cons d t ih =>
    simp only [List.map_cons, List.foldl_cons, evalDigits]
    rw [toNat_digitChar d (h d (by simp)), ih (fun x hx => h x (List.mem_cons_of_mem _ hx))]
    rfl

theorem evalChars_showNat (n : Nat) : evalChars (showNat n) = n := by
  unfold evalChars showNat
  rw [evalChars_map_digitChar _ (natDigits_lt n)]
  unfold natDigits
  rw [aux_eval (n + 1) n [] (by omega)]
  rfl

theorem evalChars_fixDigits (k n : Nat) : evalChars (fixDigits k n) = n % 10 ^ k := by
  induction k generalizing n with
  | zero => simp [fixDigits, evalChars, Nat.mod_one]
  | succ k ih =>
    simp only [fixDigits]
    rw [evalChars_append, ih]
    simp only [List.length_singleton, pow_one, evalChars, List.foldl_cons, List.foldl_nil, zero_mul, zero_add]
    rw [toNat_digitChar _ (Nat.mod_lt _ (by omega)), pow_succ, Nat.mul_comm (10 ^ k) 10, Nat.mod_mul]
    omega

/-! ### takeWhile / dropWhile on a run of digits -/
theorem span_all (p : Char → Bool) (l : List Char) (hl : ∀ c ∈ l, p c = true) :
    l.takeWhile p = l ∧ l.dropWhile p = [] := by
  induction l with
  | nil => simp
  | cons c t ih =>
    have := ih (fun x hx => hl x (List.mem_cons_of_mem _ hx))
    simp [List.takeWhile, List.dropWhile, hl c (by simp), this.1, this.2]

theorem span_stop (p : Char → Bool) (l : List Char) (c : Char) (t : List Char) (hl : ∀ c ∈ l, p c = true)
    (hc : p c = false) : (l ++ c :: t).takeWhile p = l ∧ (l ++ c :: t).dropWhile p = c :: t := by
  induction l with
  | nil => simp [List.takeWhile, List.dropWhile, hc]
  | cons a u ih =>
    have := ih (fun x hx => hl x (List.mem_cons_of_mem _ hx))
    simp [List.takeWhile, List.dropWhile, hl a (by simp), this.1, this.2]

/-! ### trim -/
theorem trimLeft_of_noWs (s : List Char) (h : ∀ c ∈ s, isWs c = false) : trimLeft s = s := by
  cases s with
  | nil => rfl
  | cons c t => simp [trimLeft, List.dropWhile, h c (by simp)]

theorem trim_of_noWs (s : List Char) (h : ∀ c ∈ s, isWs c = false) : trim s = s := by
  unfold trim
  rw [trimLeft_of_noWs s h, trimLeft_of_noWs s.reverse (fun c hc => h c (List.mem_reverse.mp hc)), List.reverse_reverse]

theorem noWs_of_digits {s : List Char} (hs : ∀ c ∈ s, isDigit c = true) : ∀ c ∈ s, isWs c = false := by
  intro c hc
  have hd := hs c hc
  by_contra hw
  have hw' : isWs c = true := by simpa using hw
  simp only [isWs, Bool.or_eq_true, beq_iff_eq] at hw'
  rcases hw' with ((((rfl | rfl) | rfl) | rfl) | rfl) | rfl <;> simp [isDigit] at hd

/-- blanks around a field are ignored by `trim` (G3) -/
theorem trim_pad (a b s : List Char) (ha : ∀ c ∈ a, isWs c = true) (hb : ∀ c ∈ b, isWs c = true)
    (hs : ∀ c ∈ s, isWs c = false) : trim (a ++ s ++ b) = s := by
  have hl : ∀ (a s : List Char), (∀ c ∈ a, isWs c = true) → (s = [] ∨ ∃ c t, s = c :: t ∧ isWs c = false) →
      trimLeft (a ++ s) = s := by
    intro a s ha hs
    rcases hs with rfl | ⟨c, t, rfl, hc⟩
    · simpa [trimLeft] using (span_all isWs a ha).2
    · simpa [trimLeft] using (span_stop isWs a c t ha hc).2
  cases s with
  | nil =>
    unfold trim
    have h1 : trimLeft (a ++ [] ++ b) = [] := by
      simpa [trimLeft] using (span_all isWs (a ++ b) (by
        intro c hc; rcases List.mem_append.mp hc with h | h
        · exact ha c h
        · exact hb c h)).2
    rw [h1]; rfl
  | cons c t =>
    unfold trim
    have h1 : trimLeft (a ++ (c :: t) ++ b) = (c :: t) ++ b := by
      rw [List.append_assoc]
      exact hl a ((c :: t) ++ b) ha (Or.inr ⟨c, t ++ b, rfl, hs c (by simp)⟩)
    rw [h1, List.reverse_append]
    have hne : (c :: t).reverse ≠ [] := by simp
    obtain ⟨z, u, hzu⟩ := List.exists_cons_of_ne_nil hne
    have hz : isWs z = false := hs z (by
      have : z ∈ (c :: t).reverse := by rw [hzu]; simp
      exact List.mem_reverse.mp this)
    rw [hzu, hl b.reverse (z :: u) (fun x hx => hb x (List.mem_reverse.mp hx)) (Or.inr ⟨z, u, rfl, hz⟩), ← hzu,
      List.reverse_reverse]

/-! ### integers -/
theorem parseNatTok_showNat (n : Nat) : parseNatTok (showNat n) = some n := by
  unfold parseNatTok
  rw [trim_of_noWs _ (noWs_of_digits (showNat_isDigit n)), parseNat_showNat]

/-- `int(' 12 ') = 12` (G3) -/
theorem parseNatTok_pad (a b : List Char) (n : Nat) (ha : ∀ c ∈ a, isWs c = true) (hb : ∀ c ∈ b, isWs c = true) :
    parseNatTok (a ++ showNat n ++ b) = some n := by
  unfold parseNatTok
  rw [trim_pad a b _ ha hb (noWs_of_digits (showNat_isDigit n)), parseNat_showNat]

theorem splitSign_digit (c : Char) (t : List Char) (h : isDigit c = true) : splitSign (c :: t) = (false, c :: t) := by
  have h1 : c ≠ '-' := by rintro rfl; simp [isDigit] at h
  have h2 : c ≠ '+' := by rintro rfl; simp [isDigit] at h
  unfold splitSign
  split
  · rename_i heq; cases heq; exact absurd rfl h1
  · rename_i heq; cases heq; exact absurd rfl h2
  · rfl

theorem showNat_cons (n : Nat) : ∃ c t, showNat n = c :: t ∧ isDigit c = true := by
  obtain ⟨c, t, h⟩ := List.exists_cons_of_ne_nil (showNat_ne_nil n)
  exact ⟨c, t, h, showNat_isDigit n c (by rw [h]; simp)⟩

theorem parseUnsigned_digits (s : List Char) (hne : s ≠ []) (hs : ∀ c ∈ s, isDigit c = true) :
    parseUnsigned s = some (evalChars s, 0) := by
  unfold parseUnsigned
  rw [(span_all isDigit _ hs).1, (span_all isDigit _ hs).2]
  simp [parseFrac, parseExp, hne]

theorem parseDec_digits (s : List Char) (hne : s ≠ []) (hs : ∀ c ∈ s, isDigit c = true) :
    parseDec s = some ⟨false, evalChars s, 0⟩ := by
  obtain ⟨c, t, rfl⟩ := List.exists_cons_of_ne_nil hne
  unfold parseDec
  rw [trim_of_noWs _ (noWs_of_digits hs), splitSign_digit c t (hs c (by simp))]
  simp only
  rw [parseUnsigned_digits _ hne hs]
  rfl

/-- the id column read through `float` then `int` gives back the printed integer -/
theorem parseIdF_showNat (n : Nat) : parseIdF (showNat n) = some n := by
  unfold parseIdF
  rw [parseDec_digits _ (showNat_ne_nil n) (showNat_isDigit n), evalChars_showNat]
  simp [Dec.toNat?]

/-! ### `%.pE` -> `float()` -/
theorem expDigits_isDigit (x : Nat) : ∀ c ∈ expDigits x, isDigit c = true := by
  unfold expDigits; split
  · exact fixDigits_isDigit 2 x
  · exact showNat_isDigit x

theorem expDigits_ne_nil (x : Nat) : expDigits x ≠ [] := by
  unfold expDigits; split
  · intro h; have := length_fixDigits 2 x; rw [h] at this; simp at this
  · exact showNat_ne_nil x

theorem evalChars_expDigits (x : Nat) : evalChars (expDigits x) = x := by
  unfold expDigits; split
  · rename_i h; rw [evalChars_fixDigits]; exact Nat.mod_eq_of_lt (by simpa using h)
  · exact evalChars_showNat x

theorem parseExp_render (x : Int) :
    parseExp ('E' :: (if x < 0 then '-' else '+') :: expDigits x.natAbs) = some x := by
  have hall : (expDigits x.natAbs).all isDigit = true := List.all_eq_true.mpr (expDigits_isDigit _)
  by_cases hx : x < 0
  · simp only [parseExp, hx, if_true, true_or, splitSign, ne_eq, expDigits_ne_nil, not_false_eq_true, hall, and_self,
      evalChars_expDigits]
    congr 1; omega
  · simp only [parseExp, hx, if_false, true_or, if_true, splitSign, ne_eq, expDigits_ne_nil, not_false_eq_true, hall,
      and_self, evalChars_expDigits, Bool.false_eq_true]
    congr 1; omega

theorem parseUnsigned_render (p a b : Nat) (x : Int) :
    parseUnsigned (showNat a ++ '.' :: (fixDigits p b ++ 'E' :: (if x < 0 then '-' else '+') :: expDigits x.natAbs))
      = some (a * 10 ^ p + b % 10 ^ p, x - p) := by
  unfold parseUnsigned
  have h1 := span_stop isDigit (showNat a) '.' (fixDigits p b ++ 'E' :: (if x < 0 then '-' else '+') :: expDigits x.natAbs)
    (showNat_isDigit a) (by decide)
  rw [h1.1, h1.2]
  have h2 := span_stop isDigit (fixDigits p b) 'E' ((if x < 0 then '-' else '+') :: expDigits x.natAbs)
    (fixDigits_isDigit p b) (by decide)
  simp only [parseFrac, h2.1, h2.2, showNat_ne_nil, false_and, if_false, parseExp_render, Option.map_some,
    evalChars_append, evalChars_showNat, evalChars_fixDigits, length_fixDigits]

/-- **float round trip**: the text `'%.pE'` prints for a decimal datum is read back by `float()` as exactly
    that decimal value (any `p`, any mantissa, any exponent, both signs, signed zero) -/
theorem parseDec_renderSci (p : Nat) (s : Sci) : parseDec (renderSci p s) = some (s.toDec p) := by
  obtain ⟨neg, m, x⟩ := s
  have hnows : ∀ c ∈ renderSci p ⟨neg, m, x⟩, isWs c = false := by
    intro c hc
    simp only [renderSci, List.mem_append, List.mem_cons] at hc
    rcases hc with ((hc | hc) | hc | hc) | hc | hc | hc
    · cases neg <;> simp at hc; subst hc; decide
    · exact noWs_of_digits (showNat_isDigit _) c hc
    · subst hc; decide
    · exact noWs_of_digits (fixDigits_isDigit _ _) c hc
    · subst hc; decide
    · split at hc <;> (subst hc; decide)
    · exact noWs_of_digits (expDigits_isDigit _) c hc
  unfold parseDec
  rw [trim_of_noWs _ hnows]
  have hsplit : splitSign (renderSci p ⟨neg, m, x⟩) = (neg, showNat (m / 10 ^ p) ++ '.' :: (fixDigits p (m % 10 ^ p) ++
      'E' :: (if x < 0 then '-' else '+') :: expDigits x.natAbs)) := by
    cases neg
    · obtain ⟨c, t, hct, hcd⟩ := showNat_cons (m / 10 ^ p)
      simp only [renderSci, Bool.false_eq_true, if_false, List.nil_append, List.append_assoc, List.cons_append]
      rw [hct, List.cons_append, splitSign_digit c _ hcd]
    · simp [renderSci, splitSign]
  rw [hsplit]
  simp only [parseUnsigned_render, Option.map_some, Sci.toDec, Nat.mod_mod]
  congr 2
  exact Nat.div_add_mod' m (10 ^ p)

/-- blanks around a float field are ignored (G3) -/
theorem parseDec_pad (a b : List Char) (p : Nat) (s : Sci) (ha : ∀ c ∈ a, isWs c = true) (hb : ∀ c ∈ b, isWs c = true) :
    parseDec (a ++ renderSci p s ++ b) = parseDec (renderSci p s) := by
  have hnows : ∀ c ∈ renderSci p s, isWs c = false := by
    intro c hc
    simp only [renderSci, List.mem_append, List.mem_cons] at hc
    rcases hc with ((hc | hc) | hc | hc) | hc | hc | hc
    · cases hn : s.neg <;> simp [hn] at hc; subst hc; decide
    · exact noWs_of_digits (showNat_isDigit _) c hc
    · subst hc; decide
    · exact noWs_of_digits (fixDigits_isDigit _ _) c hc
    · subst hc; decide
    · split at hc <;> (subst hc; decide)
    · exact noWs_of_digits (expDigits_isDigit _) c hc
  unfold parseDec
  rw [trim_pad a b _ ha hb hnows, trim_of_noWs _ hnows]

end Femio.Fistr
