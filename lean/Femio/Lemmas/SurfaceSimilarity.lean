import Femio.Lemmas.VolumeD
import Mathlib.Tactic.Ring

/-! Behaviour of the flux / volume kernels of C10 under a change of ABSOLUTE SCALE (`p ↦ s • p`) and under a FAR
    OFFSET (`p ↦ p + t`): per face the flux of `x/3` scales with `s³`; per element the "centroid" volume kernel
    (which femio evaluates in absolute coordinates) does not depend on the offset. -/
namespace Femio.C10
open Core Faces V3 Geom

variable {R : Type} [CommRing R]

/-- the flux (×24) through one face scales with the cube of the scale factor; faces of other arities carry flux 0 -/
theorem faceFlux24_smul (s : R) (pt : Nat → V3 R) (f : Face) :
    faceFlux24 4 0 (fun i => V3.smul s (pt i)) f = s ^ 3 * faceFlux24 4 0 pt f := by
  rcases f with _ | ⟨a, _ | ⟨b, _ | ⟨c, _ | ⟨d, _ | ⟨e, t⟩⟩⟩⟩⟩
  · simp [faceFlux24]
  · simp [faceFlux24]
  · simp [faceFlux24]
  · simp only [faceFlux24]; geom_unfold; ring
  · simp only [faceFlux24]; geom_unfold; ring
  · simp [faceFlux24]

theorem sum_faceFlux24_smul (s : R) (pt : Nat → V3 R) (fs : List Face) :
    (fs.map (faceFlux24 4 0 (fun i => V3.smul s (pt i)))).sum = s ^ 3 * (fs.map (faceFlux24 4 0 pt)).sum := by
  induction fs with
  | nil => simp
  | cons f t ih => simp only [List.map_cons, List.sum_cons, ih, faceFlux24_smul]; ring

/-- the "centroid" volume kernel (×24) of a solid element does not see a translation of all nodes -/
theorem elemVol24_translate (pt : Nat → V3 R) (t : V3 R) (e : Elem) (h : solidB e = true) :
    elemVol24 4 0 (fun i => V3.add (pt i) t) e = elemVol24 4 0 pt e := by
  obtain ⟨id, ty, conn⟩ := e
  simp only [solidB, Bool.and_eq_true, Bool.or_eq_true, beq_iff_eq] at h
  obtain ⟨hty, hlen⟩ := h
  rcases hty with (((h8 | h9) | h10) | h12) | h14
  · subst h8
    obtain ⟨a, b, c, d, rfl⟩ := len4 conn (by simpa [arity] using hlen)
    simp only [elemVol24]; geom_unfold; ring
  · subst h9
    obtain ⟨a, b, c, d, r, rfl⟩ := len_ge4 conn (by simp [arity] at hlen; omega)
    simp only [elemVol24]; geom_unfold; ring
  · subst h10
    obtain ⟨a, b, c, d, e, rfl⟩ := len5 conn (by simpa [arity] using hlen)
    simp only [elemVol24]; geom_unfold; ring
  · subst h12
    obtain ⟨a, b, c, d, e, f, rfl⟩ := len6 conn (by simpa [arity] using hlen)
    simp only [elemVol24]; geom_unfold; ring
  · subst h14
    obtain ⟨a, b, c, d, e, f, g, i, rfl⟩ := len8 conn (by simpa [arity] using hlen)
    simp only [elemVol24]; geom_unfold; ring

theorem totalVol24_translate (pt : Nat → V3 R) (t : V3 R) (blocks : List (List Elem))
    (h : solidMeshB blocks = true) :
    totalVol24 4 0 (fun i => V3.add (pt i) t) blocks = totalVol24 4 0 pt blocks := by
  unfold totalVol24
  congr 1
  apply List.map_congr_left
  intro e he
  simp only [solidMeshB, List.all_eq_true] at h
  obtain ⟨b, hb, heb⟩ := List.mem_flatten.mp he
  exact elemVol24_translate pt t e (h b hb e heb)

end Femio.C10
