import Femio.Lemmas.FistrMshProps
import Mathlib.Logic.Relation

/-! C01, format insensitivity G4 lifted to whole files: repeating the header line of a `!NODE` / `!ELEMENT` block
between two of its data rows does not change what `readMsh` (and `readMshCfg cfg`) returns. -/
namespace Femio.Fistr.G4
open Femio.Fistr Numeral Femio.Gen

/-! ### 1. header scan of a text with a repeated header -/

/-- the comment / blank filter of `toBlocks` -/
def keepLine (l : Line) : Bool := !ignoreLine l

theorem toBlocks_eq_keep (t : List Line) : toBlocks t = (toBlocksAux (t.filter keepLine)).2 := rfl

/-- the scan of `P ++ X` when `X` starts with a header: the blocks of `P` followed by the blocks of `X` -/
theorem toBlocksAux_append_header (P X : List Line) (hd : Line) (hhd : isHeader hd = true) :
    toBlocksAux (P ++ hd :: X) = ((toBlocksAux P).1, (toBlocksAux P).2 ++ (toBlocksAux (hd :: X)).2) := by
  induction P with
  | nil => simp [toBlocksAux, hhd]
  | cons l t ih =>
    by_cases hl : isHeader l = true
    · simp [toBlocksAux, hl, ih]
    · simp [toBlocksAux, hl, ih]

/-- a header followed by header-free rows `d` and anything -/
theorem toBlocksAux_header_data (h : Line) (d R : List Line) (hh : isHeader h = true)
    (hd : ∀ l ∈ d, isHeader l = false) :
    toBlocksAux (h :: (d ++ R)) = ([], (h, d ++ (toBlocksAux R).1) :: (toBlocksAux R).2) := by
  simp [toBlocksAux, hh, toBlocksAux_data d R hd]

theorem filter_keep_headerfree (d : List Line) (hd : ∀ l ∈ d, isHeader l = false) :
    ∀ l ∈ d.filter keepLine, isHeader l = false :=
  fun l hl => hd l (List.mem_filter.mp hl).1

theorem filter_keep_ne_nil (d : List Line) (hne : ∃ l ∈ d, ignoreLine l = false) : d.filter keepLine ≠ [] := by
  obtain ⟨l, hl, hi⟩ := hne
  intro hnil
  have : l ∈ d.filter keepLine := List.mem_filter.mpr ⟨hl, by simp [keepLine, hi]⟩
  rw [hnil] at this
  cases this

/-- blocks of the text in which the header `h` is repeated after the rows `d1` -/
theorem toBlocks_split_text (pre d1 R : List Line) (h : Line) (hh : isHeader h = true) (hi : ignoreLine h = false)
    (h1 : ∀ l ∈ d1, isHeader l = false) :
    toBlocks (pre ++ h :: (d1 ++ h :: R)) =
      (toBlocksAux (pre.filter keepLine)).2 ++ (h, d1.filter keepLine) ::
        (h, (toBlocksAux (R.filter keepLine)).1) :: (toBlocksAux (R.filter keepLine)).2 := by
  have hk : keepLine h = true := by simp [keepLine, hi]
  rw [toBlocks_eq_keep]
  simp only [List.filter_append, List.filter_cons, hk, if_true]
  rw [toBlocksAux_append_header _ _ _ hh,
    toBlocksAux_header_data h _ _ hh (filter_keep_headerfree d1 h1)]
  simp [toBlocksAux, hh]

/-- blocks of the text without the repeated header -/
theorem toBlocks_unsplit_text (pre d1 R : List Line) (h : Line) (hh : isHeader h = true) (hi : ignoreLine h = false)
    (h1 : ∀ l ∈ d1, isHeader l = false) :
    toBlocks (pre ++ h :: (d1 ++ R)) =
      (toBlocksAux (pre.filter keepLine)).2 ++
        (h, d1.filter keepLine ++ (toBlocksAux (R.filter keepLine)).1) :: (toBlocksAux (R.filter keepLine)).2 := by
  have hk : keepLine h = true := by simp [keepLine, hi]
  rw [toBlocks_eq_keep]
  simp only [List.filter_append, List.filter_cons, hk, if_true]
  rw [toBlocksAux_append_header _ _ _ hh,
    toBlocksAux_header_data h _ _ hh (filter_keep_headerfree d1 h1)]

/-! ### 2. the `!ELEMENT` section, restated with named pieces -/

def capType (b : Line × List Line) : Option (List Char) := capture c!"TYPE=" b.1

/-- rows of one `!ELEMENT` block in the mixed branch -/
def perBlock (b : Line × List Line) : Option (List (Nat × List Nat)) :=
  if b.2.isEmpty then none else b.2.mapM fun l => (parseRowI l).bind headTail

def uniformRaw (ebs : List (Line × List Line)) (c0 : List Char) : Option (List (Nat × List (Nat × List Nat))) := do
  let ty ← codeToType c0
  let rows ← (ebs.flatMap (·.2)).mapM (parseRowF parseNatTok)
  if rows.isEmpty then none else pure [(ty, rows)]

def byCodeOf (codes : List (List Char)) (per : List (List (Nat × List Nat))) : List (List Char × List (Nat × List Nat)) :=
  (codes.zip per).foldl (fun d p => dictAppend p.1 p.2 d) []

def mixedRaw (ebs : List (Line × List Line)) (codes : List (List Char)) :
    Option (List (Nat × List (Nat × List Nat))) := do
  let per ← ebs.mapM perBlock
  let typed ← (byCodeOf codes per).mapM fun p => (codeToType p.1).map fun ty => (ty, p.2)
  pure (sortByKey (typed.foldl (fun d p => natDictSet p.1 p.2 d) []))

def rawOf (ebs : List (Line × List Line)) (codes : List (List Char)) : Option (List (Nat × List (Nat × List Nat))) :=
  match codes with
  | [] => none
  | c0 :: _ => (if codes.all (· == c0) then uniformRaw ebs c0 else mixedRaw ebs codes).bind fun raw => raw.mapM reorderPrism

def elemsOf (ebs : List (Line × List Line)) : Option (List (Nat × List (Nat × List Nat))) :=
  (ebs.mapM capType).bind (rawOf ebs)

theorem readElements_eq (bs : List (Line × List Line)) : readElements bs = elemsOf (blocksOf c!"!ELEMENT" bs) := by
  unfold readElements elemsOf
  generalize blocksOf c!"!ELEMENT" bs = ebs
  change Option.bind (ebs.mapM capType) _ = _
  cases hc : ebs.mapM capType with
  | none => rfl
  | some codes =>
    cases codes with
    | nil => rfl
    | cons c0 cs =>
      simp only [Option.bind_some, rawOf]
      by_cases hall : (c0 :: cs).all (· == c0) = true
      · simp only [hall, if_true, uniformRaw]
        cases codeToType c0 with
        | none => rfl
        | some ty =>
          cases hr : (ebs.flatMap (·.2)).mapM (parseRowF parseNatTok) with
          | none => simp
          | some rows => cases rows <;> simp [List.mapM_cons, List.mapM_nil]
      · simp only [hall, mixedRaw]
        unfold perBlock byCodeOf
        cases List.mapM (fun b : Line × List Line =>
          if b.2.isEmpty then none else b.2.mapM fun l => (parseRowI l).bind headTail) ebs with
        | none => rfl
        | some per =>
          simp only [Option.bind_eq_bind, Option.bind_some, pure]
          cases List.mapM (fun p : List Char × List (Nat × List Nat) => Option.map (fun ty => (ty, p.2)) (codeToType p.1))
            (List.foldl (fun d p => dictAppend p.1 p.2 d) [] ((c0 :: cs).zip per)) <;> rfl

/-! ### 3. the `!ELEMENT` section does not see the cut -/

theorem mapM_length_eq {α β} (f : α → Option β) :
    ∀ (l : List α) (r : List β), l.mapM f = some r → r.length = l.length := by
  intro l
  induction l with
  | nil => intro r hr; simp at hr; subst hr; rfl
  | cons a t ih =>
    intro r hr
    rw [List.mapM_cons] at hr
    cases hfa : f a with
    | none => simp [hfa] at hr
    | some b =>
      cases ht : t.mapM f with
      | none => simp [hfa, ht] at hr
      | some bs =>
        simp [hfa, ht] at hr
        subst hr
        simp [ih bs ht]

theorem mapM_split2 {α β} (f : α → Option β) (E₁ E₂ : List α) (x y : α) :
    (E₁ ++ x :: y :: E₂).mapM f =
      (E₁.mapM f).bind fun a => (f x).bind fun u => (f y).bind fun v => (E₂.mapM f).bind fun b =>
        some (a ++ u :: v :: b) := by
  rw [List.mapM_append, List.mapM_cons, List.mapM_cons]
  cases E₁.mapM f <;> cases f x <;> cases f y <;> cases E₂.mapM f <;> rfl

theorem mapM_split1 {α β} (f : α → Option β) (E₁ E₂ : List α) (x : α) :
    (E₁ ++ x :: E₂).mapM f =
      (E₁.mapM f).bind fun a => (f x).bind fun u => (E₂.mapM f).bind fun b => some (a ++ u :: b) := by
  rw [List.mapM_append, List.mapM_cons]
  cases E₁.mapM f <;> cases f x <;> cases E₂.mapM f <;> rfl

theorem mapM_append_opt {α β} (f : α → Option β) (l₁ l₂ : List α) :
    (l₁ ++ l₂).mapM f = (l₁.mapM f).bind fun a => (l₂.mapM f).bind fun b => some (a ++ b) := by
  rw [List.mapM_append]
  cases l₁.mapM f <;> cases l₂.mapM f <;> rfl

/-- appending twice under the same key = appending the concatenation -/
theorem dictAppend_dictAppend {β} (k : List Char) (r1 r2 : List β) (D : List (List Char × List β)) :
    dictAppend k r2 (dictAppend k r1 D) = dictAppend k (r1 ++ r2) D := by
  induction D with
  | nil => simp [dictAppend]
  | cons p t ih =>
    obtain ⟨a, b⟩ := p
    by_cases hak : a = k
    · simp [dictAppend, hak]
    · simp [dictAppend, hak, ih]

theorem byCodeOf_split (c₁ c₂ : List (List Char)) (c : List Char) (p₁ p₂ : List (List (Nat × List Nat)))
    (r1 r2 : List (Nat × List Nat)) (hlen : c₁.length = p₁.length) :
    byCodeOf (c₁ ++ c :: c :: c₂) (p₁ ++ r1 :: r2 :: p₂) = byCodeOf (c₁ ++ c :: c₂) (p₁ ++ (r1 ++ r2) :: p₂) := by
  unfold byCodeOf
  rw [List.zip_append hlen, List.zip_append hlen]
  simp only [List.zip_cons_cons, List.foldl_append, List.foldl_cons, dictAppend_dictAppend]

theorem perBlock_append (h : Line) (e1 e2 : List Line) (h1 : e1 ≠ []) (h2 : e2 ≠ []) :
    perBlock (h, e1 ++ e2) =
      (perBlock (h, e1)).bind fun r1 => (perBlock (h, e2)).bind fun r2 => some (r1 ++ r2) := by
  have h12 : e1 ++ e2 ≠ [] := by simp [h1]
  simp only [perBlock, List.isEmpty_iff, h1, h2, h12, if_false, mapM_append_opt]

theorem uniformRaw_split (E₁ E₂ : List (Line × List Line)) (h : Line) (e1 e2 : List Line) (c0 : List Char) :
    uniformRaw (E₁ ++ (h, e1) :: (h, e2) :: E₂) c0 = uniformRaw (E₁ ++ (h, e1 ++ e2) :: E₂) c0 := by
  unfold uniformRaw
  simp

theorem mixedRaw_split (E₁ E₂ : List (Line × List Line)) (h : Line) (e1 e2 : List Line)
    (c₁ c₂ : List (List Char)) (c : List Char) (h1 : e1 ≠ []) (h2 : e2 ≠ [])
    (hc1 : E₁.mapM capType = some c₁) :
    mixedRaw (E₁ ++ (h, e1) :: (h, e2) :: E₂) (c₁ ++ c :: c :: c₂) =
      mixedRaw (E₁ ++ (h, e1 ++ e2) :: E₂) (c₁ ++ c :: c₂) := by
  unfold mixedRaw
  rw [mapM_split2, mapM_split1, perBlock_append h e1 e2 h1 h2]
  cases hp1 : E₁.mapM perBlock with
  | none => rfl
  | some p₁ =>
    have hlen : c₁.length = p₁.length := by
      rw [mapM_length_eq _ _ _ hc1, mapM_length_eq _ _ _ hp1]
    cases perBlock (h, e1) with
    | none => rfl
    | some r1 =>
      cases perBlock (h, e2) with
      | none => rfl
      | some r2 =>
        cases E₂.mapM perBlock with
        | none => rfl
        | some p₂ =>
          simp only [Option.bind_eq_bind, Option.bind_some, byCodeOf_split c₁ c₂ c p₁ p₂ r1 r2 hlen]

theorem all_split (c₁ c₂ : List (List Char)) (c c0 : List Char) :
    (c₁ ++ c :: c :: c₂).all (· == c0) = (c₁ ++ c :: c₂).all (· == c0) := by
  simp only [List.all_append, List.all_cons]
  cases (c == c0) <;> simp

theorem rawOf_split (E₁ E₂ : List (Line × List Line)) (h : Line) (e1 e2 : List Line)
    (c₁ c₂ : List (List Char)) (c : List Char) (h1 : e1 ≠ []) (h2 : e2 ≠ [])
    (hc1 : E₁.mapM capType = some c₁) :
    rawOf (E₁ ++ (h, e1) :: (h, e2) :: E₂) (c₁ ++ c :: c :: c₂) =
      rawOf (E₁ ++ (h, e1 ++ e2) :: E₂) (c₁ ++ c :: c₂) := by
  have key : ∀ c0 : List Char,
      (if (c₁ ++ c :: c :: c₂).all (· == c0) then uniformRaw (E₁ ++ (h, e1) :: (h, e2) :: E₂) c0
        else mixedRaw (E₁ ++ (h, e1) :: (h, e2) :: E₂) (c₁ ++ c :: c :: c₂)) =
      (if (c₁ ++ c :: c₂).all (· == c0) then uniformRaw (E₁ ++ (h, e1 ++ e2) :: E₂) c0
        else mixedRaw (E₁ ++ (h, e1 ++ e2) :: E₂) (c₁ ++ c :: c₂)) := by
    intro c0
    rw [all_split, uniformRaw_split, mixedRaw_split E₁ E₂ h e1 e2 c₁ c₂ c h1 h2 hc1]
  cases c₁ with
  | nil =>
    have hk := key c
    simp only [List.nil_append] at hk ⊢
    simp only [rawOf, hk]
  | cons a t =>
    have hk := key a
    simp only [List.cons_append] at hk ⊢
    simp only [rawOf, hk]

/-- **the `!ELEMENT` section (uniform and mixed branch) does not see a cut with a non-empty part on each side** -/
theorem elemsOf_split (E₁ E₂ : List (Line × List Line)) (h : Line) (e1 e2 : List Line) (h1 : e1 ≠ []) (h2 : e2 ≠ []) :
    elemsOf (E₁ ++ (h, e1) :: (h, e2) :: E₂) = elemsOf (E₁ ++ (h, e1 ++ e2) :: E₂) := by
  unfold elemsOf
  rw [mapM_split2, mapM_split1]
  have hcap : ∀ e : List Line, capType (h, e) = capture c!"TYPE=" h := fun _ => rfl
  simp only [hcap]
  cases hc1 : E₁.mapM capType with
  | none => rfl
  | some c₁ =>
    cases capture c!"TYPE=" h with
    | none => rfl
    | some c =>
      cases E₂.mapM capType with
      | none => rfl
      | some c₂ =>
        simp only [Option.bind_some]
        exact rawOf_split E₁ E₂ h e1 e2 c₁ c₂ c h1 h2 hc1

/-! ### 4. block level: `readBlocks` does not see the cut -/

/-- the section keys the reader looks for besides `!NODE` / `!ELEMENT` -/
def otherKeys : List (List Char) :=
  [c!"!NGROUP", c!"!EGROUP", c!"!MATERIAL", c!"!SECTION", c!"!INITIAL CONDITION"]

/-- `h` is a header line that belongs to the `!NODE` section only, or to the `!ELEMENT` section only -/
def SplitHeader (h : Line) : Prop :=
  isHeader h = true ∧ ignoreLine h = false ∧ isItem1 h = false ∧ (∀ k ∈ otherKeys, hasSub k h = false) ∧
  (hasSub c!"!NODE" h = true ∧ hasSub c!"!ELEMENT" h = false ∨
   hasSub c!"!NODE" h = false ∧ hasSub c!"!ELEMENT" h = true)

instance (h : Line) : Decidable (SplitHeader h) := by unfold SplitHeader; infer_instance

theorem blocksOf_split_false (key h : Line) (e1 e2 : List Line) (B C : List (Line × List Line))
    (hk : hasSub key h = false) :
    blocksOf key (B ++ (h, e1) :: (h, e2) :: C) = blocksOf key (B ++ (h, e1 ++ e2) :: C) := by
  simp [blocksOf, List.filter_append, hk]

theorem blocksOf_split_true (key h : Line) (e1 e2 : List Line) (B C : List (Line × List Line))
    (hk : hasSub key h = true) :
    blocksOf key (B ++ (h, e1) :: (h, e2) :: C) = blocksOf key B ++ (h, e1) :: (h, e2) :: blocksOf key C ∧
    blocksOf key (B ++ (h, e1 ++ e2) :: C) = blocksOf key B ++ (h, e1 ++ e2) :: blocksOf key C := by
  simp [blocksOf, List.filter_append, hk]

theorem filterItem_split (h : Line) (e1 e2 : List Line) (B C : List (Line × List Line)) (hk : isItem1 h = false) :
    List.filter (fun b : Line × List Line => isItem1 b.1) (B ++ (h, e1) :: (h, e2) :: C) =
      List.filter (fun b : Line × List Line => isItem1 b.1) (B ++ (h, e1 ++ e2) :: C) := by
  simp [List.filter_append, hk]

theorem readNodes_split (h : Line) (e1 e2 : List Line) (B C : List (Line × List Line)) :
    readNodes (B ++ (h, e1) :: (h, e2) :: C) = readNodes (B ++ (h, e1 ++ e2) :: C) := by
  unfold readNodes; rw [extractData_split]

/-- the `!ELEMENT` section: a `!NODE`-only header is invisible, an `!ELEMENT` header needs non-empty parts -/
theorem readElements_split (h : Line) (e1 e2 : List Line) (B C : List (Line × List Line))
    (hne : hasSub c!"!ELEMENT" h = true → e1 ≠ [] ∧ e2 ≠ []) :
    readElements (B ++ (h, e1) :: (h, e2) :: C) = readElements (B ++ (h, e1 ++ e2) :: C) := by
  rw [readElements_eq, readElements_eq]
  cases hk : hasSub c!"!ELEMENT" h with
  | false => rw [blocksOf_split_false _ h e1 e2 B C hk]
  | true =>
    obtain ⟨a, b⟩ := blocksOf_split_true _ h e1 e2 B C hk
    rw [a, b]
    exact elemsOf_split _ _ h e1 e2 (hne hk).1 (hne hk).2

theorem anyEgrp_split (h : Line) (e1 e2 : List Line) (B C : List (Line × List Line)) :
    (blocksOf c!"!ELEMENT" (B ++ (h, e1) :: (h, e2) :: C)).any (fun b => (capture c!"EGRP=" b.1).isSome) =
      (blocksOf c!"!ELEMENT" (B ++ (h, e1 ++ e2) :: C)).any (fun b => (capture c!"EGRP=" b.1).isSome) := by
  cases hk : hasSub c!"!ELEMENT" h with
  | false => rw [blocksOf_split_false _ h e1 e2 B C hk]
  | true =>
    obtain ⟨a, b⟩ := blocksOf_split_true _ h e1 e2 B C hk
    rw [a, b]
    simp only [List.any_append, List.any_cons]
    cases (capture c!"EGRP=" h).isSome <;> simp

theorem readGroups_split (merge : Bool) (hdr key : List Char) (all : List Nat) (h : Line) (e1 e2 : List Line)
    (B C : List (Line × List Line)) (hk : hasSub hdr h = false) :
    readGroups merge hdr key all (B ++ (h, e1) :: (h, e2) :: C) =
      readGroups merge hdr key all (B ++ (h, e1 ++ e2) :: C) := by
  unfold readGroups; rw [blocksOf_split_false _ h e1 e2 B C hk]

theorem readMaterials_split (n : Nat) (h : Line) (e1 e2 : List Line) (B C : List (Line × List Line))
    (hk : hasSub c!"!MATERIAL" h = false) (hi : isItem1 h = false) :
    readMaterials n (B ++ (h, e1) :: (h, e2) :: C) = readMaterials n (B ++ (h, e1 ++ e2) :: C) := by
  unfold readMaterials; rw [blocksOf_split_false _ h e1 e2 B C hk, filterItem_split h e1 e2 B C hi]

theorem readSections_split (h : Line) (e1 e2 : List Line) (B C : List (Line × List Line))
    (hk : hasSub c!"!SECTION" h = false) :
    readSections (B ++ (h, e1) :: (h, e2) :: C) = readSections (B ++ (h, e1 ++ e2) :: C) := by
  unfold readSections; rw [blocksOf_split_false _ h e1 e2 B C hk]

theorem readInitial_split (ng : List (Name × List Nat)) (ids : List Nat) (h : Line) (e1 e2 : List Line)
    (B C : List (Line × List Line)) (hk : hasSub c!"!INITIAL CONDITION" h = false) :
    readInitial ng ids (B ++ (h, e1) :: (h, e2) :: C) = readInitial ng ids (B ++ (h, e1 ++ e2) :: C) := by
  unfold readInitial; rw [blocksOf_split_false _ h e1 e2 B C hk]

/-- **block level**: two consecutive blocks with the same `!NODE`-only / `!ELEMENT`-only header read as the merged
    block (for an `!ELEMENT` header both parts must have a data row: an empty `!ELEMENT` block makes the mixed
    branch of the real reader raise) -/
theorem readBlocks_split (merge : Bool) (h : Line) (e1 e2 : List Line) (B C : List (Line × List Line))
    (hh : SplitHeader h) (hne : hasSub c!"!ELEMENT" h = true → e1 ≠ [] ∧ e2 ≠ []) :
    readBlocks merge (B ++ (h, e1) :: (h, e2) :: C) = readBlocks merge (B ++ (h, e1 ++ e2) :: C) := by
  obtain ⟨-, -, hitem, hother, -⟩ := hh
  have hng := hother c!"!NGROUP" (by simp [otherKeys])
  have heg := hother c!"!EGROUP" (by simp [otherKeys])
  have hma := hother c!"!MATERIAL" (by simp [otherKeys])
  have hse := hother c!"!SECTION" (by simp [otherKeys])
  have hin := hother c!"!INITIAL CONDITION" (by simp [otherKeys])
  unfold readBlocks
  simp only [readNodes_split, readElements_split h e1 e2 B C hne, anyEgrp_split,
    fun key all => readGroups_split merge c!"!NGROUP" key all h e1 e2 B C hng,
    fun key all => readGroups_split merge c!"!EGROUP" key all h e1 e2 B C heg,
    fun n => readMaterials_split n h e1 e2 B C hma hitem,
    readSections_split h e1 e2 B C hse,
    fun ng ids => readInitial_split ng ids h e1 e2 B C hin]

/-! ### 5. whole files -/

/-- general text form: the header `h` is repeated after the header-free rows `d1`; `pre` and `R` are arbitrary text.
    For an `!ELEMENT` header both parts of the cut must keep a data row after the comment / blank filter
    (the second part is the header-free prefix of the filtered `R`). -/
theorem readBlocks_text_split_gen (merge : Bool) (pre d1 R : List Line) (h : Line) (hh : SplitHeader h)
    (h1 : ∀ l ∈ d1, isHeader l = false)
    (hne : hasSub c!"!ELEMENT" h = true →
      (∃ l ∈ d1, ignoreLine l = false) ∧ (toBlocksAux (R.filter keepLine)).1 ≠ []) :
    readBlocks merge (toBlocks (pre ++ h :: (d1 ++ h :: R))) = readBlocks merge (toBlocks (pre ++ h :: (d1 ++ R))) := by
  rw [toBlocks_split_text pre d1 R h hh.1 hh.2.1 h1, toBlocks_unsplit_text pre d1 R h hh.1 hh.2.1 h1]
  exact readBlocks_split merge h _ _ _ _ hh fun hk => ⟨filter_keep_ne_nil d1 (hne hk).1, (hne hk).2⟩

theorem prefix_ne_nil (d2 post : List Line) (h2 : ∀ l ∈ d2, isHeader l = false)
    (hne : ∃ l ∈ d2, ignoreLine l = false) : (toBlocksAux ((d2 ++ post).filter keepLine)).1 ≠ [] := by
  rw [List.filter_append, toBlocksAux_data _ _ (filter_keep_headerfree d2 h2)]
  simp [filter_keep_ne_nil d2 hne]

/-- text form with the second part `d2` of the block made explicit (`post` is arbitrary text: the block of the
    repeated header is `d2` followed by the header-free prefix of `post`) -/
theorem readBlocks_text_split (merge : Bool) (pre d1 d2 post : List Line) (h : Line) (hh : SplitHeader h)
    (h1 : ∀ l ∈ d1, isHeader l = false) (h2 : ∀ l ∈ d2, isHeader l = false)
    (hne : hasSub c!"!ELEMENT" h = true → (∃ l ∈ d1, ignoreLine l = false) ∧ (∃ l ∈ d2, ignoreLine l = false)) :
    readBlocks merge (toBlocks (pre ++ h :: d1 ++ h :: d2 ++ post)) =
      readBlocks merge (toBlocks (pre ++ h :: d1 ++ d2 ++ post)) := by
  have := readBlocks_text_split_gen merge pre d1 (d2 ++ post) h hh h1
    fun hk => ⟨(hne hk).1, prefix_ne_nil d2 post h2 (hne hk).2⟩
  simpa only [List.append_assoc, List.cons_append] using this

/-- **G4 for a `!NODE` block, whole file**: no non-emptiness condition, `pre` and `R` arbitrary text -/
theorem readMsh_split_node (pre d1 R : List Line) (h : Line) (hh : SplitHeader h)
    (hn : hasSub c!"!ELEMENT" h = false) (h1 : ∀ l ∈ d1, isHeader l = false) :
    readMsh (pre ++ h :: d1 ++ h :: R) = readMsh (pre ++ h :: d1 ++ R) := by
  have := readBlocks_text_split_gen false pre d1 R h hh h1 (fun hk => by rw [hn] at hk; cases hk)
  simpa only [readMsh, List.append_assoc, List.cons_append] using this

/-- **G4 for an `!ELEMENT` block (uniform or mixed mesh), whole file**: each part of the cut has a data row that
    survives the comment / blank filter -/
theorem readMsh_split_element (pre d1 d2 post : List Line) (h : Line) (hh : SplitHeader h)
    (h1 : ∀ l ∈ d1, isHeader l = false) (h2 : ∀ l ∈ d2, isHeader l = false)
    (hne1 : ∃ l ∈ d1, ignoreLine l = false) (hne2 : ∃ l ∈ d2, ignoreLine l = false) :
    readMsh (pre ++ h :: d1 ++ h :: d2 ++ post) = readMsh (pre ++ h :: d1 ++ d2 ++ post) :=
  readBlocks_text_split false pre d1 d2 post h hh h1 h2 fun _ => ⟨hne1, hne2⟩

/-- **G4, whole file (combined)**: repeating the header `h` of a `!NODE` / `!ELEMENT` block between two of its rows
    does not change what `readMsh` returns; `pre`, `post` are arbitrary text. -/
theorem readMsh_split (pre d1 d2 post : List Line) (h : Line) (hh : SplitHeader h)
    (h1 : ∀ l ∈ d1, isHeader l = false) (h2 : ∀ l ∈ d2, isHeader l = false)
    (hne : hasSub c!"!ELEMENT" h = true → (∃ l ∈ d1, ignoreLine l = false) ∧ (∃ l ∈ d2, ignoreLine l = false)) :
    readMsh (pre ++ h :: d1 ++ h :: d2 ++ post) = readMsh (pre ++ h :: d1 ++ d2 ++ post) :=
  readBlocks_text_split false pre d1 d2 post h hh h1 h2 hne

/-! #### repaired configurations -/

/-- the `!!` comment filter of the repaired reader (`cfg.bang`) -/
def keepBang (l : Line) : Bool := !isPrefix c!"!!" l

theorem keepBang_of_not_header (l : Line) (hl : isHeader l = false) : keepBang l = true := by
  cases l with
  | nil => rfl
  | cons c t =>
    have hc : ('!' == c) = false := by
      cases hcc : ('!' == c) with
      | false => rfl
      | true =>
        have : c = '!' := (beq_iff_eq.mp hcc).symm
        subst this
        simp [isHeader] at hl
    simp [keepBang, isPrefix, hc]

theorem filter_keepBang_headerfree (d : List Line) (hd : ∀ l ∈ d, isHeader l = false) : d.filter keepBang = d :=
  List.filter_eq_self.mpr fun l hl => keepBang_of_not_header l (hd l hl)

theorem readMshCfg_eq (cfg : ReadCfg) (t : List Line) :
    readMshCfg cfg t = readBlocks cfg.merge (toBlocks (if cfg.bang then t.filter keepBang else t)) := rfl

/-- **G4, whole file, every repair configuration** (`bang`: `!!` lines are comments, `merge`: group blocks are united).
    No extra hypothesis for `bang = true`: header-free rows never start with `!!`, and if `h` itself starts with
    `!!` both texts are filtered to the same text. -/
theorem readMshCfg_split (cfg : ReadCfg) (pre d1 d2 post : List Line) (h : Line) (hh : SplitHeader h)
    (h1 : ∀ l ∈ d1, isHeader l = false) (h2 : ∀ l ∈ d2, isHeader l = false)
    (hne : hasSub c!"!ELEMENT" h = true → (∃ l ∈ d1, ignoreLine l = false) ∧ (∃ l ∈ d2, ignoreLine l = false)) :
    readMshCfg cfg (pre ++ h :: d1 ++ h :: d2 ++ post) = readMshCfg cfg (pre ++ h :: d1 ++ d2 ++ post) := by
  rw [readMshCfg_eq, readMshCfg_eq]
  cases hb : cfg.bang with
  | false => exact readBlocks_text_split cfg.merge pre d1 d2 post h hh h1 h2 hne
  | true =>
    simp only [if_true, List.filter_append, List.filter_cons,
      filter_keepBang_headerfree d1 h1, filter_keepBang_headerfree d2 h2]
    cases hk : keepBang h with
    | false => simp
    | true =>
      simp only [if_true]
      exact readBlocks_text_split cfg.merge _ d1 d2 _ h hh h1 h2 hne

/-! #### a block split into several blocks -/

/-- `Split1 t t'`: `t'` is `t` with the header of one `!NODE` / `!ELEMENT` block repeated between two of its rows -/
inductive Split1 : List Line → List Line → Prop
  | cut (pre d1 d2 post : List Line) (h : Line) (hh : SplitHeader h)
      (h1 : ∀ l ∈ d1, isHeader l = false) (h2 : ∀ l ∈ d2, isHeader l = false)
      (hne : hasSub c!"!ELEMENT" h = true →
        (∃ l ∈ d1, ignoreLine l = false) ∧ (∃ l ∈ d2, ignoreLine l = false)) :
      Split1 (pre ++ h :: d1 ++ d2 ++ post) (pre ++ h :: d1 ++ h :: d2 ++ post)

theorem readMshCfg_split1 (cfg : ReadCfg) {t t' : List Line} (hs : Split1 t t') :
    readMshCfg cfg t' = readMshCfg cfg t := by
  cases hs with
  | cut pre d1 d2 post h hh h1 h2 hne => exact readMshCfg_split cfg pre d1 d2 post h hh h1 h2 hne

/-- **G4 iterated**: any number of cuts (blocks split into several blocks), every configuration -/
theorem readMshCfg_splits (cfg : ReadCfg) {t t' : List Line} (hs : Relation.ReflTransGen Split1 t t') :
    readMshCfg cfg t' = readMshCfg cfg t := by
  induction hs with
  | refl => rfl
  | tail _ hstep ih => rw [readMshCfg_split1 cfg hstep, ih]

theorem readMsh_eq_cfg (t : List Line) : readMsh t = readMshCfg ⟨false, false⟩ t := rfl

/-- **G4 iterated, upstream reader** -/
theorem readMsh_splits {t t' : List Line} (hs : Relation.ReflTransGen Split1 t t') : readMsh t' = readMsh t := by
  rw [readMsh_eq_cfg, readMsh_eq_cfg]; exact readMshCfg_splits _ hs

/-! #### non-vacuity: a mixed mesh (tetrahedron + two triangles), the triangle block split in two -/

def g4Pre : List Line :=
  [c!"!NODE", c!"1,0,0,0", c!"2,1,0,0", c!"# a comment", c!"3,0,1,0", c!"4,0,0,1",
   c!"!ELEMENT,TYPE=341", c!"1,1,2,3,4"]
def g4Hdr : Line := c!"!ELEMENT,TYPE=731"
def g4Text : List Line := g4Pre ++ g4Hdr :: [c!"2,1,2,3"] ++ [c!"3,2,3,4"] ++ [c!"!END"]
def g4TextSplit : List Line := g4Pre ++ g4Hdr :: [c!"2,1,2,3"] ++ g4Hdr :: [c!"3,2,3,4"] ++ [c!"!END"]

theorem g4_split1 : Split1 g4Text g4TextSplit :=
  Split1.cut g4Pre [c!"2,1,2,3"] [c!"3,2,3,4"] [c!"!END"] g4Hdr (by decide) (by decide) (by decide) (by decide)

example : readMsh g4TextSplit = readMsh g4Text ∧
    (readMsh g4Text).isSome = true ∧
    (readMsh g4Text).map (fun r => r.elems.map fun b => (b.1, b.2)) =
      some [(3, [(2, [1, 2, 3]), (3, [2, 3, 4])]), (8, [(1, [1, 2, 3, 4])])] ∧
    toBlocks g4TextSplit ≠ toBlocks g4Text :=
  ⟨readMsh_splits (Relation.ReflTransGen.single g4_split1), by decide, by decide, by decide⟩

/-- two cuts in a row (the `!NODE` block after its second row, then the triangle block): the iterated statement -/
def g4TextSplit2 : List Line :=
  [] ++ c!"!NODE" :: [c!"1,0,0,0", c!"2,1,0,0"] ++ c!"!NODE" ::
    [c!"# a comment", c!"3,0,1,0", c!"4,0,0,1", c!"!ELEMENT,TYPE=341", c!"1,1,2,3,4"] ++
    (g4Hdr :: [c!"2,1,2,3"] ++ g4Hdr :: [c!"3,2,3,4"] ++ [c!"!END"])

theorem g4_split2 : Split1 g4TextSplit g4TextSplit2 :=
  Split1.cut [] [c!"1,0,0,0", c!"2,1,0,0"] [] _ c!"!NODE" (by decide) (by decide) (by decide) (by decide)

example : Relation.ReflTransGen Split1 g4Text g4TextSplit2 ∧ readMsh g4TextSplit2 = readMsh g4Text ∧
    readMshCfg ⟨true, true⟩ g4TextSplit2 = readMshCfg ⟨true, true⟩ g4Text :=
  have hs := (Relation.ReflTransGen.single g4_split1).tail g4_split2
  ⟨hs, readMsh_splits hs, readMshCfg_splits _ hs⟩

/-- the non-emptiness condition of the `!ELEMENT` case is necessary: with a part of the cut that has no data row
    (here: only a comment) the mixed branch raises on the split file, while the unsplit file reads -/
example :
    readMsh (g4Pre ++ g4Hdr :: [c!"# only a comment"] ++ g4Hdr :: [c!"2,1,2,3", c!"3,2,3,4"] ++ [c!"!END"]) = none ∧
    (readMsh (g4Pre ++ g4Hdr :: [c!"# only a comment"] ++ [c!"2,1,2,3", c!"3,2,3,4"] ++ [c!"!END"])).isSome = true := by
  decide

end Femio.Fistr.G4
