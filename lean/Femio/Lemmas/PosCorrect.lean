import Femio.Model.Retype
import Femio.Lemmas.ScanPos
import Mathlib.Data.List.Sort
import Mathlib.Data.List.Nodup

/-! `to_polyhedron` (C18): `argsort[np.searchsorted(sorted_ids, id)]` is the storage position of `id`
    when the node ids are distinct. -/
namespace Femio.C18

/-- order on (id, position) pairs used by `insertPair` -/
abbrev pairLe : Nat × Nat → Nat × Nat → Prop := fun p q => p.1 ≤ q.1

instance pairLe_total : Std.Total pairLe := ⟨fun p q => Nat.le_total p.1 q.1⟩
instance pairLe_trans : IsTrans (Nat × Nat) pairLe := ⟨fun _ _ _ h1 h2 => Nat.le_trans h1 h2⟩

theorem insertPair_eq_orderedInsert (p : Nat × Nat) (l : List (Nat × Nat)) :
    insertPair p l = List.orderedInsert pairLe p l := by
  induction l with
  | nil => rfl
  | cons q t ih =>
    by_cases h : p.1 ≤ q.1
    · simp [insertPair, List.orderedInsert, h]
    · simp [insertPair, List.orderedInsert, h, ih]

theorem sortedPairs_eq_insertionSort (ids : List Nat) :
    sortedPairs ids = List.insertionSort pairLe (ids.zip (List.range ids.length)) := by
  unfold sortedPairs
  generalize ids.zip (List.range ids.length) = l
  induction l with
  | nil => rfl
  | cons x t ih =>
    rw [List.foldr_cons, ih, insertPair_eq_orderedInsert]
    rfl

theorem sortedPairs_perm (ids : List Nat) : (sortedPairs ids).Perm (ids.zip (List.range ids.length)) := by
  rw [sortedPairs_eq_insertionSort]
  exact List.perm_insertionSort _ _

theorem sortedPairs_fst_perm (ids : List Nat) : ((sortedPairs ids).map Prod.fst).Perm ids := by
  have h := (sortedPairs_perm ids).map Prod.fst
  rwa [List.map_fst_zip (by simp)] at h

/-- the sorted ids are strictly ascending when the ids are distinct -/
theorem sortedPairs_fst_lt (ids : List Nat) (hn : ids.Nodup) :
    ((sortedPairs ids).map Prod.fst).Pairwise (· < ·) := by
  have hle : ((sortedPairs ids).map Prod.fst).Pairwise (· ≤ ·) := by
    rw [List.pairwise_map, sortedPairs_eq_insertionSort]
    exact List.pairwise_insertionSort pairLe _
  have hne : ((sortedPairs ids).map Prod.fst).Pairwise (· ≠ ·) :=
    (sortedPairs_fst_perm ids).nodup_iff.mpr hn
  exact (hle.and hne).imp fun h => Nat.lt_of_le_of_ne h.1 h.2

theorem searchsorted_eq_root (l : List Nat) (x : Nat) : searchsorted l x = _root_.searchsorted l x := rfl

theorem mem_sortedPairs (ids : List Nat) (k : Nat) (hk : k < ids.length) : (ids[k], k) ∈ sortedPairs ids := by
  rw [(sortedPairs_perm ids).mem_iff, List.mem_iff_getElem]
  exact ⟨k, by simpa using hk, by simp⟩

theorem posOf_correct (ids : List Nat) (hn : ids.Nodup) (k : Nat) (hk : k < ids.length) :
    posOf ids ids[k] = some k := by
  have h := getElem_searchsorted (sortedPairs ids) (sortedPairs_fst_lt ids hn) ids[k] k (mem_sortedPairs ids k hk)
  unfold posOf rankOf
  rw [searchsorted_eq_root, h]
  rfl

theorem posOf_none_or_own (ids : List Nat) (hn : ids.Nodup) (x p : Nat) (h : posOf ids x = some p) (hx : x ∈ ids) :
    ids[p]? = some x := by
  obtain ⟨k, hk, rfl⟩ := List.mem_iff_getElem.mp hx
  rw [posOf_correct ids hn k hk] at h
  cases h
  exact List.getElem?_eq_getElem hk

end Femio.C18
