import Femio.Model.Core
import Mathlib.Data.List.Perm.Basic
import Mathlib.Data.List.Nodup
import Mathlib.Data.List.Sort
import Mathlib.Tactic.Linarith

open Core

theorem idPos_some {ids : List Id} {i : Id} {k : Nat} (h : idPos ids i = some k) :
    ∃ hk : k < ids.length, ids[k] = i := by
  induction ids generalizing k with
  | nil => simp [idPos] at h
  | cons a t ih =>
    simp only [idPos] at h
    split at h
    · rename_i hai; cases h; exact ⟨by simp, by simpa using hai⟩
    · cases hp : idPos t i with
      | none => simp [hp] at h
      | some j =>
        simp [hp] at h; subst h
        obtain ⟨hj, hji⟩ := ih hp
        exact ⟨by simp; omega, by simpa using hji⟩

theorem idPos_of_mem {ids : List Id} {i : Id} (h : i ∈ ids) : ∃ k, idPos ids i = some k := by
  induction ids with
  | nil => simp at h
  | cons a t ih =>
    by_cases hai : a = i
    · exact ⟨0, by simp [idPos, hai]⟩
    · rcases List.mem_cons.mp h with h | h
      · exact absurd h.symm hai
      · obtain ⟨k, hk⟩ := ih h
        exact ⟨k + 1, by simp [idPos, hai, hk]⟩

/-- with distinct ids the position map inverts indexing -/
theorem idPos_get {ids : List Id} (hn : ids.Nodup) (k : Nat) (hk : k < ids.length) :
    idPos ids ids[k] = some k := by
  induction ids generalizing k with
  | nil => simp at hk
  | cons a t ih =>
    rw [List.nodup_cons] at hn
    cases k with
    | zero => simp [idPos]
    | succ j =>
      have hj : j < t.length := by simpa using hk
      have hne : a ≠ t[j] := fun h => hn.1 (h ▸ List.getElem_mem hj)
      simp [idPos, hne, ih hn.2 j hj]

theorem insertElem_perm (e : Elem) (l : List Elem) : (insertElem e l).Perm (e :: l) := by
  induction l with
  | nil => simp [insertElem]
  | cons f t ih =>
    simp only [insertElem]
    split
    · exact List.Perm.refl _
    · exact (List.Perm.cons f ih).trans (List.Perm.swap e f t)

theorem sortElems_perm (l : List Elem) : (sortElems l).Perm l := by
  induction l with
  | nil => exact List.Perm.refl _
  | cons e t ih => exact (insertElem_perm e _).trans (List.Perm.cons e ih)

theorem flatten_perm (blocks : List (List Elem)) : (flatten blocks).Perm blocks.flatten := by
  unfold flatten
  split
  · simp
  · exact sortElems_perm _

/-- **C13_incidence** (uniform and mixed branch at once): with distinct node ids and distinct element
    ids, `(i, j)` is an entry iff the node stored at position `i` belongs to the `j`-th element of the
    flattened (id-sorted when mixed) element list. -/
theorem incidence_spec (nodeIds : List Id) (blocks : List (List Elem))
    (hn : nodeIds.Nodup) (he : (blocks.flatten.map Elem.id).Nodup) (i j : Nat) :
    (i, j) ∈ incidence nodeIds blocks ↔
      ∃ (hi : i < nodeIds.length) (hj : j < (flatten blocks).length), nodeIds[i] ∈ ((flatten blocks)[j]).conn := by
  have hperm := flatten_perm blocks
  have hflatNodup : ((flatten blocks).map Elem.id).Nodup := (hperm.map Elem.id).nodup_iff.mpr he
  unfold incidence
  simp only [List.mem_flatMap]
  constructor
  · rintro ⟨e, hemem, hmem⟩
    cases hpos : elemPos (flatten blocks) e.id with
    | none => simp [hpos] at hmem
    | some j' =>
      simp only [hpos, List.mem_filterMap, Option.map_eq_some_iff] at hmem
      obtain ⟨n, hnconn, i', hi', hpair⟩ := hmem
      have hij : i' = i ∧ j' = j := by simpa using hpair
      obtain ⟨rfl, rfl⟩ := hij
      obtain ⟨hi, hgi⟩ := idPos_some hi'
      obtain ⟨hj, hgj⟩ := idPos_some hpos
      have hj' : j' < (flatten blocks).length := by simpa using hj
      refine ⟨hi, hj', ?_⟩
      -- the j'-th flattened element has id e.id, hence is e (ids distinct)
      have hid : ((flatten blocks)[j']).id = e.id := by simpa using hgj
      have heq : (flatten blocks)[j'] = e := by
        have h1 : (flatten blocks)[j'] ∈ flatten blocks := List.getElem_mem hj'
        have h2 : e ∈ flatten blocks := hperm.symm.subset hemem
        exact List.inj_on_of_nodup_map hflatNodup h1 h2 hid
      rw [heq, hgi]; exact hnconn
  · rintro ⟨hi, hj, hmem⟩
    set e := (flatten blocks)[j] with he_def
    have hemem : e ∈ blocks.flatten := hperm.subset (List.getElem_mem hj)
    refine ⟨e, hemem, ?_⟩
    have hpos : elemPos (flatten blocks) e.id = some j := by
      unfold elemPos
      have := idPos_get hflatNodup j (by simpa using hj)
      simpa [he_def] using this
    simp only [hpos, List.mem_filterMap, Option.map_eq_some_iff]
    exact ⟨nodeIds[i], hmem, i, idPos_get hn i hi, rfl⟩

#print axioms incidence_spec
