import Femio.Lemmas.C20Steps

/-! C20 — the invariant of the transition system, part 2: `merge(a, b)` of `merge_vertices`
    (`mergeVertexFace` / `mergeVertexCell`), for ANY pair of nodes `a`, `b`.

    The overwrite `F[ib] = a` is the renaming `b ↦ a` of a simple cycle; a renaming keeps a cell closed (`bal_map`);
    cutting a cycle that visits `a` twice at these two visits splits its directed edges into those of the two pieces;
    the pieces that are dropped have at most two nodes and so carry a balanced set of edges (`bal_short`). -/
namespace Femio.C20
open Faces

/-! ### `lastIdx` -/

theorem lastIdx_fold (x : Nat) (f : Face) (n : Nat) :
    ((List.range n).foldl (fun acc i => if f.getD i 0 = x then some i else acc) none = none ↔
        ∀ i < n, f.getD i 0 ≠ x) ∧
    (∀ i, (List.range n).foldl (fun acc i => if f.getD i 0 = x then some i else acc) none = some i →
        i < n ∧ f.getD i 0 = x) := by
  induction n with
  | zero => simp
  | succ n ih =>
    rw [List.range_succ, List.foldl_append]
    simp only [List.foldl_cons, List.foldl_nil]
    by_cases h : f.getD n 0 = x
    · rw [if_pos h]
      refine ⟨⟨fun hh => (by cases hh), fun hh => absurd h (hh n (Nat.lt_succ_self n))⟩, ?_⟩
      intro i hi
      cases hi
      exact ⟨Nat.lt_succ_self _, h⟩
    · rw [if_neg h]
      refine ⟨?_, ?_⟩
      · rw [ih.1]
        constructor
        · intro hh i hi
          rcases Nat.lt_succ_iff_lt_or_eq.mp hi with h' | rfl
          · exact hh i h'
          · exact h
        · intro hh i hi
          exact hh i (Nat.lt_succ_of_lt hi)
      · intro i hi
        obtain ⟨h1, h2⟩ := ih.2 i hi
        exact ⟨Nat.lt_succ_of_lt h1, h2⟩

theorem lastIdx_none {x : Nat} {f : Face} : lastIdx x f = none ↔ x ∉ f := by
  unfold lastIdx
  rw [(lastIdx_fold x f f.length).1, List.mem_iff_getElem]
  constructor
  · rintro h ⟨i, hi, hx⟩
    apply h i hi
    rw [List.getD_eq_getElem?_getD, List.getElem?_eq_getElem hi]
    exact hx
  · intro h i hi hx
    apply h
    refine ⟨i, hi, ?_⟩
    rw [List.getD_eq_getElem?_getD, List.getElem?_eq_getElem hi] at hx
    exact hx

theorem lastIdx_some {x : Nat} {f : Face} {i : Nat} (h : lastIdx x f = some i) : f[i]? = some x := by
  unfold lastIdx at h
  obtain ⟨hi, hx⟩ := (lastIdx_fold x f f.length).2 i h
  rw [List.getD_eq_getElem?_getD, List.getElem?_eq_getElem hi] at hx
  rw [List.getElem?_eq_getElem hi]
  exact congrArg some hx

/-- the three shapes of the result of `merge(a, b)` on one face -/
theorem mergeVertexFace_cases (a b : Nat) (f : Face) :
    (b ∉ f ∧ mergeVertexFace a b f = [f]) ∨
    (∃ j, f[j]? = some b ∧ a ∉ f ∧ mergeVertexFace a b f = [f.set j a]) ∨
    (∃ i j, f[i]? = some a ∧ f[j]? = some b ∧
      mergeVertexFace a b f =
        [((f.set j a).take (max i j)).drop (min i j),
          (f.set j a).drop (max i j) ++ (f.set j a).take (min i j)].filter fun g => decide (3 ≤ g.length)) := by
  unfold mergeVertexFace
  cases hb : lastIdx b f with
  | none =>
    left
    refine ⟨lastIdx_none.mp hb, ?_⟩
    cases lastIdx a f <;> rfl
  | some j =>
    right
    cases ha : lastIdx a f with
    | none => left; exact ⟨j, lastIdx_some hb, lastIdx_none.mp ha, rfl⟩
    | some i => right; exact ⟨i, j, lastIdx_some ha, lastIdx_some hb, rfl⟩

/-! ### the renaming `b ↦ a` -/

/-- `b ↦ a` -/
def subNode (a b : Nat) : Nat → Nat := fun v => if v = b then a else v

theorem map_sub_of_not_mem {a b : Nat} {f : Face} (hb : b ∉ f) : f.map (subNode a b) = f := by
  conv_rhs => rw [← List.map_id f]
  apply List.map_congr_left
  intro v hv
  have : v ≠ b := fun h => hb (h ▸ hv)
  simp [subNode, this]

theorem set_eq_map_sub {f : Face} (hf : f.Nodup) {j b : Nat} (hj : f[j]? = some b) (a : Nat) :
    f.set j a = f.map (subNode a b) := by
  obtain ⟨hjl, hjb⟩ := List.getElem?_eq_some_iff.mp hj
  apply List.ext_getElem (by simp)
  intro k h1 h2
  have hk : k < f.length := by simpa using h1
  rw [List.getElem_set, List.getElem_map]
  unfold subNode
  by_cases hjk : j = k
  · subst hjk
    rw [if_pos rfl, if_pos hjb]
  · rw [if_neg hjk, if_neg]
    intro h
    exact hjk ((hf.getElem_inj_iff).mp (h.trans hjb.symm)).symm

theorem mem_map_sub {a b v : Nat} {f : Face} (h : v ∈ f.map (subNode a b)) : (v ∈ f ∨ v = a) ∧ (a ≠ b → v ≠ b) := by
  obtain ⟨w, hw, rfl⟩ := List.mem_map.mp h
  unfold subNode
  by_cases hwb : w = b
  · rw [if_pos hwb]; exact ⟨Or.inr rfl, fun h => h⟩
  · rw [if_neg hwb]; exact ⟨Or.inl hw, fun _ => hwb⟩

/-! ### cutting a cycle at two visits of the same node -/

theorem exists_cons_of_getElem?_zero {l : List Nat} {a : Nat} (h : l[0]? = some a) : ∃ t, l = a :: t := by
  cases l with
  | nil => simp at h
  | cons x t => simp at h; exact ⟨t, by rw [h]⟩

theorem dirEdges_glue (a : Nat) (mid rest : List Nat) :
    dirEdges (a :: mid ++ a :: rest) = dirEdges (a :: mid) ++ dirEdges (a :: rest) := by
  rw [show a :: mid ++ a :: rest = a :: (mid ++ a :: rest) from rfl, dirEdges_eq_pathEdges, dirEdges_eq_pathEdges,
    dirEdges_eq_pathEdges]
  have : a :: (mid ++ a :: rest) ++ [a] = (a :: mid) ++ a :: (rest ++ [a]) := by simp
  rw [this, pathEdges_split]
  rfl

theorem cut_rotate (g : Face) {lo hi : Nat} (hle : lo ≤ hi) (hh : hi ≤ g.length) :
    (g.take hi).drop lo ++ (g.drop hi ++ g.take lo) = g.rotate lo := by
  rw [List.rotate_eq_drop_append_take (Nat.le_trans hle hh), ← List.append_assoc]
  congr 1
  conv_rhs => rw [← List.take_append_drop hi g, List.drop_append]
  have : lo - (List.take hi g).length = 0 := by
    rw [List.length_take]; omega
  rw [this, List.drop_zero]

theorem cut_head_left {g : Face} {lo hi a : Nat} (hlt : lo < hi) (hlo : g[lo]? = some a) :
    ∃ t, (g.take hi).drop lo = a :: t := by
  apply exists_cons_of_getElem?_zero
  rw [List.getElem?_drop, List.getElem?_take, if_pos (by omega)]
  exact hlo

theorem cut_head_right {g : Face} {hi a : Nat} (hhi : g[hi]? = some a) : ∃ t, g.drop hi = a :: t := by
  apply exists_cons_of_getElem?_zero
  rw [List.getElem?_drop]
  exact hhi

theorem dirEdges_cut (g : Face) {lo hi a : Nat} (hle : lo ≤ hi) (hlo : g[lo]? = some a) (hhi : g[hi]? = some a) :
    (dirEdges ((g.take hi).drop lo) ++ dirEdges (g.drop hi ++ g.take lo)).Perm (dirEdges g) := by
  have hh : hi < g.length := (List.getElem?_eq_some_iff.mp hhi).1
  refine List.Perm.trans ?_ (dirEdges_rotate_perm g lo)
  rw [← cut_rotate g hle (Nat.le_of_lt hh)]
  rcases Nat.eq_or_lt_of_le hle with rfl | hlt
  · have : (g.take lo).drop lo = [] := by
      apply List.drop_eq_nil_of_le; rw [List.length_take]; omega
    rw [this]
    simp [dirEdges]
  · obtain ⟨P, hP⟩ := cut_head_left (hi := hi) hlt hlo
    obtain ⟨R, hR⟩ := cut_head_right hhi
    rw [hP, hR, List.cons_append, dirEdges_glue]

/-- the two pieces are simple again -/
theorem cut_nodup {f : Face} (hf : f.Nodup) {a b i j lo hi : Nat} (hi' : f[i]? = some a) (hj : f[j]? = some b)
    (hm : (lo = i ∧ hi = j) ∨ (lo = j ∧ hi = i)) (hle : lo ≤ hi) :
    (((f.set j a).take hi).drop lo).Nodup ∧ ((f.set j a).drop hi ++ (f.set j a).take lo).Nodup := by
  obtain ⟨hil, hia⟩ := List.getElem?_eq_some_iff.mp hi'
  obtain ⟨hjl, hjb⟩ := List.getElem?_eq_some_iff.mp hj
  have hgi : (f.set j a)[i]? = some a := by
    rw [List.getElem?_set]
    split_ifs <;> first | rfl | exact hi'
  have hgj : (f.set j a)[j]? = some a := by
    rw [List.getElem?_set, if_pos rfl, if_pos hjl]
  have hlo : (f.set j a)[lo]? = some a := by
    rcases hm with ⟨rfl, rfl⟩ | ⟨rfl, rfl⟩ <;> assumption
  have hhi : (f.set j a)[hi]? = some a := by
    rcases hm with ⟨rfl, rfl⟩ | ⟨rfl, rfl⟩ <;> assumption
  have hh : hi ≤ (f.set j a).length := by
    rw [List.length_set]; rcases hm with ⟨rfl, rfl⟩ | ⟨rfl, rfl⟩ <;> omega
  have hcnt : ∀ x, List.count x (((f.set j a).take hi).drop lo) +
      List.count x ((f.set j a).drop hi ++ (f.set j a).take lo) = List.count x (f.set j a) := by
    intro x
    rw [← List.count_append, cut_rotate _ hle hh]
    exact (List.rotate_perm _ _).count_eq x
  have hf1 := List.nodup_iff_count_le_one.mp hf
  rw [List.nodup_iff_count_le_one, List.nodup_iff_count_le_one]
  suffices h : ∀ x, List.count x (((f.set j a).take hi).drop lo) ≤ 1 ∧
      List.count x ((f.set j a).drop hi ++ (f.set j a).take lo) ≤ 1 from ⟨fun x => (h x).1, fun x => (h x).2⟩
  intro x
  have h1 := hcnt x
  have h2 := hf1 x
  rw [List.count_set hjl] at h1
  by_cases hxa : a = x
  · subst hxa
    rcases Nat.eq_or_lt_of_le hle with rfl | hlt
    · -- `i = j`, hence `a = b`
      have hij : i = j := by rcases hm with ⟨rfl, rfl⟩ | ⟨rfl, rfl⟩ <;> rfl
      subst hij
      have hab : a = b := by rw [← hia, ← hjb]
      subst hab
      have : List.count a f = 1 := by
        have := List.one_le_count_iff.mpr (List.mem_of_getElem? hi')
        omega
      simp only [hjb, beq_self_eq_true, if_true] at h1
      omega
    · obtain ⟨P, hP⟩ := cut_head_left (hi := hi) hlt hlo
      obtain ⟨R, hR⟩ := cut_head_right hhi
      have c1 : 1 ≤ List.count a (((f.set j a).take hi).drop lo) := by
        rw [hP]; exact List.one_le_count_iff.mpr List.mem_cons_self
      have c2 : 1 ≤ List.count a ((f.set j a).drop hi ++ (f.set j a).take lo) := by
        rw [hR]; exact List.one_le_count_iff.mpr (by simp)
      simp only [beq_self_eq_true, if_true] at h1
      split_ifs at h1 <;> omega
  · have : (a == x) = false := by simpa using hxa
    simp only [this, Bool.false_eq_true, if_false, Nat.add_zero] at h1
    have h3 := Nat.sub_le (List.count x f) (if (f[j] == x) = true then 1 else 0)
    omega

/-! ### one face -/

theorem mergeVertexFace_spec {f : Face} (hf : FaceOK f) (a b : Nat) :
    (∀ g ∈ mergeVertexFace a b f, FaceOK g ∧ ∀ v ∈ g, v ∈ f.map (subNode a b)) ∧
    ∃ D, Bal D ∧ (edgesOf (mergeVertexFace a b f) ++ D).Perm (dirEdges (f.map (subNode a b))) := by
  rcases mergeVertexFace_cases a b f with ⟨hb, he⟩ | ⟨j, hj, ha, he⟩ | ⟨i, j, hi, hj, he⟩
  · rw [he, map_sub_of_not_mem hb]
    refine ⟨?_, [], fun e => rfl, by simp [edgesOf]⟩
    intro g hg
    rw [List.mem_singleton] at hg
    subst hg
    exact ⟨hf, fun v hv => hv⟩
  · rw [he, ← set_eq_map_sub hf.1 hj a]
    refine ⟨?_, [], fun e => rfl, by simp [edgesOf]⟩
    intro g hg
    rw [List.mem_singleton] at hg
    subst hg
    refine ⟨⟨hf.1.set ha, ?_⟩, fun v hv => hv⟩
    rw [List.length_set]; exact hf.2
  · have hm : (min i j = i ∧ max i j = j) ∨ (min i j = j ∧ max i j = i) := by omega
    have hle : min i j ≤ max i j := by omega
    have hgi : (f.set j a)[i]? = some a := by
      rw [List.getElem?_set]
      split_ifs with h1 h2
      · rfl
      · exact absurd (List.getElem?_eq_some_iff.mp hj).1 h2
      · exact hi
    have hgj : (f.set j a)[j]? = some a := by
      rw [List.getElem?_set, if_pos rfl, if_pos (List.getElem?_eq_some_iff.mp hj).1]
    have hlo : (f.set j a)[min i j]? = some a := by
      rcases hm with ⟨h1, _⟩ | ⟨h1, _⟩ <;> rw [h1] <;> assumption
    have hhi : (f.set j a)[max i j]? = some a := by
      rcases hm with ⟨_, h1⟩ | ⟨_, h1⟩ <;> rw [h1] <;> assumption
    have hnd := cut_nodup hf.1 hi hj hm hle
    have hcut := dirEdges_cut (f.set j a) hle hlo hhi
    have hrot := cut_rotate (f.set j a) hle (Nat.le_of_lt (List.getElem?_eq_some_iff.mp hhi).1)
    rw [he, ← set_eq_map_sub hf.1 hj a]
    refine ⟨?_, ?_⟩
    · intro g hg
      obtain ⟨hg1, hg2⟩ := List.mem_filter.mp hg
      have hlen : 3 ≤ g.length := by simpa using hg2
      have hsub : ∀ v ∈ ((f.set j a).take (max i j)).drop (min i j) ++
          ((f.set j a).drop (max i j) ++ (f.set j a).take (min i j)), v ∈ f.set j a := by
        intro v hv
        rw [hrot] at hv
        exact List.mem_rotate.mp hv
      simp only [List.mem_cons, List.not_mem_nil, or_false] at hg1
      rcases hg1 with rfl | rfl
      · exact ⟨⟨hnd.1, hlen⟩, fun v hv => hsub v (List.mem_append_left _ hv)⟩
      · exact ⟨⟨hnd.2, hlen⟩, fun v hv => hsub v (List.mem_append_right _ hv)⟩
    · obtain ⟨D, hD, hp⟩ := filter_len_split
        [((f.set j a).take (max i j)).drop (min i j), (f.set j a).drop (max i j) ++ (f.set j a).take (min i j)]
      refine ⟨D, hD, hp.trans ?_⟩
      simpa [edgesOf] using hcut

/-! ### one cell -/

theorem mergeVertexCell_cons (a b : Nat) (f : Face) (t : Cell) :
    mergeVertexCell a b (f :: t) = mergeVertexFace a b f ++ mergeVertexCell a b t := by
  simp [mergeVertexCell]

theorem mergeVertexCell_edges {c : Cell} (hc : ∀ f ∈ c, FaceOK f) (a b : Nat) :
    ∃ D, Bal D ∧ (edgesOf (mergeVertexCell a b c) ++ D).Perm (edgesOf (c.map fun f => f.map (subNode a b))) := by
  induction c with
  | nil => exact ⟨[], fun e => rfl, by simp [mergeVertexCell, edgesOf]⟩
  | cons f t ih =>
    obtain ⟨D2, hD2, hp2⟩ := ih fun g hg => hc g (List.mem_cons_of_mem _ hg)
    obtain ⟨D1, hD1, hp1⟩ := (mergeVertexFace_spec (hc f List.mem_cons_self) a b).2
    refine ⟨D1 ++ D2, bal_append hD1 hD2, ?_⟩
    rw [mergeVertexCell_cons, edgesOf_append, List.map_cons, edgesOf_cons]
    refine List.Perm.trans ?_ (hp1.append hp2)
    rw [List.perm_iff_count]
    intro e
    simp only [List.count_append]
    omega

theorem mem_mergeVertexCell {a b : Nat} {c : Cell} {g : Face} (h : g ∈ mergeVertexCell a b c) :
    ∃ f ∈ c, g ∈ mergeVertexFace a b f := by
  simpa [mergeVertexCell] using h

/-- `merge(a, b)` keeps a cell closed and its faces simple cycles of at least three nodes — for any `a`, `b` -/
theorem mergeVertexCell_cellOK {c : Cell} (hc : CellOK c) (a b : Nat) : CellOK (mergeVertexCell a b c) := by
  refine ⟨?_, ?_⟩
  · obtain ⟨D, hD, hp⟩ := mergeVertexCell_edges hc.2 a b
    have hb : Bal (edgesOf (c.map fun f => f.map (subNode a b))) := by
      rw [edgesOf_map]; exact bal_map _ hc.1
    exact bal_of_append_right (bal_of_perm hp.symm hb) hD
  · intro g hg
    obtain ⟨f, hf, hgf⟩ := mem_mergeVertexCell hg
    exact ((mergeVertexFace_spec (hc.2 f hf) a b).1 g hgf).1

theorem mergeVertexCell_mem_map {c : Cell} (hc : CellOK c) (a b : Nat) :
    ∀ v ∈ (mergeVertexCell a b c).flatten, ∃ f ∈ c, v ∈ f.map (subNode a b) := by
  intro v hv
  obtain ⟨g, hg, hvg⟩ := List.mem_flatten.mp hv
  obtain ⟨f, hf, hgf⟩ := mem_mergeVertexCell hg
  exact ⟨f, hf, ((mergeVertexFace_spec (hc.2 f hf) a b).1 g hgf).2 v hvg⟩

/-- no new node except `a` -/
theorem mergeVertexCell_nodes {c : Cell} (hc : CellOK c) (a b : Nat) :
    ∀ v ∈ (mergeVertexCell a b c).flatten, v ∈ c.flatten ∨ v = a := by
  intro v hv
  obtain ⟨f, hf, hvf⟩ := mergeVertexCell_mem_map hc a b v hv
  rcases (mem_map_sub hvf).1 with h | h
  · exact Or.inl (List.mem_flatten.mpr ⟨f, hf, h⟩)
  · exact Or.inr h

/-- `b` is gone -/
theorem mergeVertexCell_not_mem {c : Cell} (hc : CellOK c) {a b : Nat} (hab : a ≠ b) :
    b ∉ (mergeVertexCell a b c).flatten := by
  intro hv
  obtain ⟨f, _, hvf⟩ := mergeVertexCell_mem_map hc a b b hv
  exact (mem_map_sub hvf).2 hab rfl

/-- cells touching neither `a` nor `b` are unchanged -/
theorem mergeVertexCell_id {c : Cell} {a b : Nat} (ha : a ∉ c.flatten) (hb : b ∉ c.flatten) :
    mergeVertexCell a b c = c := by
  induction c with
  | nil => rfl
  | cons f t ih =>
    rw [List.flatten_cons, List.mem_append, not_or] at ha hb
    rw [mergeVertexCell_cons, ih ha.2 hb.2]
    rcases mergeVertexFace_cases a b f with ⟨_, he⟩ | ⟨j, hj, _, _⟩ | ⟨i, j, _, hj, _⟩
    · rw [he]; rfl
    · exact absurd (List.mem_of_getElem? hj) hb.1
    · exact absurd (List.mem_of_getElem? hj) hb.1

end Femio.C20
