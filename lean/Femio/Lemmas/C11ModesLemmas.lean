import Femio.Lemmas.KernelProps
import Mathlib.Algebra.Ring.MinimalAxioms
import Mathlib.Algebra.Ring.Rat
import Mathlib.Tactic.NormNum
/-! C11 (second part): helper lemmas for `Props/C11Modes.lean`.

  * the polyhedron *centroid* kernel under a translation (`polyC6_add`): cyclic pair sums as a path sum plus the
    closing pair (`cycPairs_cons`), telescoping (`sum_consecPairs_sub`), the per-pair determinant expansion
    (`det_shift`);
  * the *defect identities* between the volume kernels of one cell type: the decompositions differ, per quad face, by
    the tetrahedron spanned by the four corners of that face (`twist`), so `4·linear − centroid` and
    `linear − face fan` are fixed integer combinations of the face twists; and the 2×2×2 Gauss rule with abscissa `g`
    differs from the centroid kernel by a multiple of `3g² − 1`. All are polynomial identities (`ring`). -/
open V3 Geom
namespace Femio.C11
variable {R : Type} [CommRing R]

/-! ### cyclic pairs = closing pair + path -/

theorem zip_dropLast_cons {α : Type} (a : α) (r : List α) :
    List.zip (List.dropLast (a :: r)) r = List.zip (a :: r) r := by
  induction r generalizing a with
  | nil => simp
  | cons b r ih => rw [List.dropLast_cons_cons, List.zip_cons_cons, ih b, List.zip_cons_cons]

/-- `cycPairs (a :: r) = (last, a) :: consecPairs (a :: r)` -/
theorem cycPairs_cons {α : Type} (a : α) (r : List α) :
    cycPairs (a :: r) = ((a :: r).getLast (List.cons_ne_nil a r), a) :: consecPairs (a :: r) := by
  unfold cycPairs consecPairs
  rw [List.getLast?_eq_some_getLast (List.cons_ne_nil a r)]
  simp only [List.zip_cons_cons, List.tail_cons, zip_dropLast_cons]

/-- telescoping along a path -/
theorem sum_consecPairs_sub {α : Type} (χ : α → R) (b : α) (r : List α) :
    ((consecPairs (b :: r)).map fun p => χ p.1 - χ p.2).sum
      = χ b - χ ((b :: r).getLast (List.cons_ne_nil b r)) := by
  induction r generalizing b with
  | nil => simp [consecPairs]
  | cons c r ih =>
    have h := ih c
    simp only [consecPairs, List.tail_cons, List.zip_cons_cons, List.map_cons, List.sum_cons] at h ⊢
    rw [List.getLast_cons_cons]
    rw [h]; ring

/-- … and around a cycle: every element is once a first and once a second component -/
theorem sum_cycPairs_sub {α : Type} (χ : α → R) (l : List α) :
    ((cycPairs l).map fun p => χ p.1 - χ p.2).sum = 0 := by
  cases l with
  | nil => simp [cycPairs]
  | cons a r =>
    rw [cycPairs_cons, List.map_cons, List.sum_cons, sum_consecPairs_sub]; ring

/-! ### Σ_cyc det(t,u,v) = t · (fan area vector) -/

theorem dot_vsum_map {α : Type} (t : V3 R) (h : α → V3 R) (l : List α) :
    dot t (vsum (l.map h)) = (l.map fun x => dot t (h x)).sum := by
  induction l with
  | nil => simp [vsum, dot_vzero]
  | cons a r ih => simp only [List.map_cons, List.sum_cons, vsum_cons, dot_add, ih]

theorem dot_triCross (t a b c : V3 R) :
    dot t (triCross a b c) = V3.det t b c + (V3.det t a b - V3.det t a c) := by
  simp only [V3.det, V3.dot, triCross, V3.cross, V3.sub]; ring

theorem det_self_right (t a : V3 R) : V3.det t a a = 0 := by simp only [V3.det]; ring
theorem det_swap_right (t a b : V3 R) : V3.det t b a = - V3.det t a b := by simp only [V3.det]; ring

theorem sum_map_add' {α : Type} (g h : α → R) (l : List α) :
    (l.map fun x => g x + h x).sum = (l.map g).sum + (l.map h).sum := by
  induction l with
  | nil => simp
  | cons a r ih => simp only [List.map_cons, List.sum_cons, ih]; ring

/-- the cyclic sum of `u × v` over a polygon is its fan area vector (dotted with any `t`) -/
theorem sum_cycPairs_det (t : V3 R) (l : List (V3 R)) :
    ((cycPairs l).map fun p => V3.det t p.1 p.2).sum = dot t (polyFanCross l) := by
  cases l with
  | nil => simp [cycPairs, polyFanCross, dot_vzero]
  | cons a rest =>
    rw [cycPairs_cons]
    simp only [polyFanCross, dot_vsum_map, dot_triCross]
    rw [sum_map_add' (fun p : V3 R × V3 R => V3.det t p.1 p.2) (fun p => V3.det t a p.1 - V3.det t a p.2)]
    cases rest with
    | nil => simp [consecPairs, det_self_right]
    | cons b r =>
      rw [sum_consecPairs_sub (fun x => V3.det t a x) b r]
      simp only [List.map_cons, List.sum_cons, consecPairs, List.tail_cons, List.zip_cons_cons,
        List.getLast_cons_cons]
      rw [det_swap_right t a ((b :: r).getLast (List.cons_ne_nil b r))]
      ring

/-! ### the centroid polyhedron kernel under a translation -/

/-- one pair of one face: terms with two `t`s vanish -/
theorem det_shift (k : R) (s t u v : V3 R) :
    V3.det (V3.add s (smul k t)) (V3.add u t) (V3.add v t)
      = V3.det s u v + (V3.det s u t - V3.det s v t) + k * V3.det t u v := by
  simp only [V3.det, V3.add, V3.smul]; ring

/-- a face of `k` nodes contributes `k · t · (its doubled fan area vector)` -/
theorem faceCentroidK_add (t : V3 R) (f : List (V3 R)) :
    faceCentroidK (f.map (V3.add · t)) = faceCentroidK f + (f.length : R) * dot t (polyFanCross f) := by
  simp only [faceCentroidK, cycPairs_map, List.map_map, vsum_map_add]
  have hterm : ∀ p : V3 R × V3 R,
      ((fun x : V3 R × V3 R => V3.det (V3.add (vsum f) (smul (f.length : R) t)) x.1 x.2)
          ∘ Prod.map (fun x => V3.add x t) (fun x => V3.add x t)) p
        = (V3.det (vsum f) p.1 p.2 + (f.length : R) * V3.det t p.1 p.2)
          + (V3.det (vsum f) p.1 t - V3.det (vsum f) p.2 t) := by
    intro p
    simp only [Function.comp, Prod.map, det_shift]; ring
  rw [List.map_congr_left (fun p _ => hterm p)]
  rw [sum_map_add' (fun p : V3 R × V3 R => V3.det (vsum f) p.1 p.2 + (f.length : R) * V3.det t p.1 p.2)
        (fun p => V3.det (vsum f) p.1 t - V3.det (vsum f) p.2 t),
      sum_cycPairs_sub (fun x => V3.det (vsum f) x t),
      sum_map_add' (fun p : V3 R × V3 R => V3.det (vsum f) p.1 p.2) (fun p => (f.length : R) * V3.det t p.1 p.2),
      sum_map_mul_left', sum_cycPairs_det t f]
  ring

/-- `polyC6` under a translation when `kinv k = 1/k` for the face sizes present: the same extra term as for the fan
    kernel (`polyFan6_add`) -/
theorem polyC6_add (t : V3 R) (kinv : Nat → R) (faces : List (List (V3 R)))
    (hk : ∀ f ∈ faces, kinv f.length * (f.length : R) = 1) :
    polyC6 kinv (faces.map (·.map (V3.add · t)))
      = polyC6 kinv faces + dot t (vsum (faces.map polyFanCross)) := by
  simp only [polyC6, List.map_map]
  rw [← sum_add_dot]
  apply congrArg
  apply List.map_congr_left
  intro f hf
  simp only [Function.comp, faceCentroidK_add, List.length_map]
  have := hk f hf
  linear_combination (dot t (polyFanCross f)) * this

/-! ### face twists and the defect identities -/

/-- the planarity determinant of a quad face `a b c d`: 6 × the volume of the tetrahedron on its corners -/
def twist (a b c d : V3 R) : R := V3.det (V3.sub b a) (V3.sub c a) (V3.sub d a)

/-- hex: `4·linear − centroid` in terms of the six face twists (faces in the order of femio's face table) -/
theorem hex_lin_centroid_defect (p0 p1 p2 p3 p4 p5 p6 p7 : V3 R) :
    4 * hexLin6 p0 p1 p2 p3 p4 p5 p6 p7 = hexC24 p0 p1 p2 p3 p4 p5 p6 p7
      + 2 * (twist p0 p1 p5 p4 + twist p0 p3 p2 p1 - twist p1 p2 p6 p5 + twist p2 p3 p7 p6
             - twist p3 p0 p4 p7 - twist p4 p5 p6 p7) := by
  simp only [twist]; geom_unfold; ring

theorem prism_lin_centroid_defect (p0 p1 p2 p3 p4 p5 : V3 R) :
    4 * prismLin6 p0 p1 p2 p3 p4 p5 = prismC24 4 p0 p1 p2 p3 p4 p5
      + 2 * (twist p0 p3 p4 p1 + twist p1 p4 p5 p2 + twist p0 p2 p5 p3) := by
  simp only [twist]; geom_unfold; ring

theorem pyr_lin_centroid_defect (p0 p1 p2 p3 p4 : V3 R) :
    4 * pyrLin6 p0 p1 p2 p3 p4 = pyrC24 4 p0 p1 p2 p3 p4 - 2 * twist p0 p3 p2 p1 := by
  simp only [twist]; geom_unfold; ring

/-- unfold `polyFan6` on explicit face lists -/
macro "fan_unfold" : tactic =>
  `(tactic| simp only [polyFan6, faceFan6, consecPairs, List.map_cons, List.map_nil, List.sum_cons, List.sum_nil,
      List.tail_cons, List.zip_cons_cons, List.zip_nil_right, List.zip_nil_left])

theorem hex_lin_fan_defect (p0 p1 p2 p3 p4 p5 p6 p7 : V3 R) :
    hexLin6 p0 p1 p2 p3 p4 p5 p6 p7
      = polyFan6 [[p0, p1, p5, p4], [p0, p3, p2, p1], [p1, p2, p6, p5], [p2, p3, p7, p6], [p3, p0, p4, p7], [p4, p5, p6, p7]]
        + (twist p0 p1 p5 p4 + twist p0 p3 p2 p1 + twist p2 p3 p7 p6) := by
  simp only [twist]; fan_unfold; geom_unfold; ring

theorem prism_lin_fan_defect (p0 p1 p2 p3 p4 p5 : V3 R) :
    prismLin6 p0 p1 p2 p3 p4 p5
      = polyFan6 [[p0, p1, p2], [p3, p5, p4], [p0, p3, p4, p1], [p1, p4, p5, p2], [p0, p2, p5, p3]]
        + (twist p0 p3 p4 p1 + twist p1 p4 p5 p2 + twist p0 p2 p5 p3) := by
  simp only [twist]; fan_unfold; geom_unfold; ring

theorem pyr_lin_fan (p0 p1 p2 p3 p4 : V3 R) :
    pyrLin6 p0 p1 p2 p3 p4 = polyFan6 [[p0, p1, p4], [p1, p2, p4], [p2, p3, p4], [p3, p0, p4], [p0, p3, p2, p1]] := by
  fan_unfold; geom_unfold; ring

/-! ### the 2×2×2 Gauss rule: trilinear coefficient vectors

  `8·x(ξ,η,ζ) = m + ξ·mx + η·my + ζ·mz + ξη·mxy + ξζ·mxz + ηζ·myz + ξηζ·w`; the three Jacobian columns the kernel forms are
  `∂ξ, ∂η, ∂ζ` of this (times 8), so they share the mixed coefficients — which is why the `g⁴` and `g⁶` terms of the rule
  cancel and the rule is affine in `g²`. -/

/-- `A0 + s·A1 + t·A2 + st·W` -/
def lin4 (a0 : V3 R) (s : R) (a1 : V3 R) (t : R) (a2 : V3 R) (st : R) (w : V3 R) : V3 R :=
  ⟨a0.x + s * a1.x + t * a2.x + st * w.x, a0.y + s * a1.y + t * a2.y + st * w.y, a0.z + s * a1.z + t * a2.z + st * w.z⟩

/-- `Σ ε_i q_i` for the eight sign patterns that occur, written as (sum of the `+` nodes) − (sum of the `−` nodes) -/
def pm (a b c d e f g h : V3 R) : V3 R := V3.sub (V3.add (V3.add a b) (V3.add c d)) (V3.add (V3.add e f) (V3.add g h))

/-- the determinant as it is written in the kernel -/
def det6 (a b c : V3 R) : R :=
  a.x * b.y * c.z + a.y * b.z * c.x + a.z * b.x * c.y - (a.x * b.z * c.y + a.y * b.x * c.z + a.z * b.y * c.x)

theorem j0form (u v : R) (q0 q1 q2 q3 q4 q5 q6 q7 : V3 R) :
    V3.add (V3.add (smul ((1 - u) * (1 - v)) (V3.sub q1 q0)) (smul ((1 - u) * (1 + v)) (V3.sub q5 q4)))
        (V3.add (smul ((1 + u) * (1 - v)) (V3.sub q2 q3)) (smul ((1 + u) * (1 + v)) (V3.sub q6 q7)))
      = lin4 (pm q1 q2 q5 q6 q0 q3 q4 q7) u (pm q0 q2 q4 q6 q1 q3 q5 q7) v (pm q0 q3 q5 q6 q1 q2 q4 q7)
          (u * v) (pm q1 q3 q4 q6 q0 q2 q5 q7) := by
  simp only [lin4, pm, V3.add, V3.sub, V3.smul]; congr 1 <;> ring

theorem j1form (u v : R) (q0 q1 q2 q3 q4 q5 q6 q7 : V3 R) :
    V3.add (V3.add (smul ((1 - u) * (1 - v)) (V3.sub q3 q0)) (smul ((1 - u) * (1 + v)) (V3.sub q7 q4)))
        (V3.add (smul ((1 + u) * (1 - v)) (V3.sub q2 q1)) (smul ((1 + u) * (1 + v)) (V3.sub q6 q5)))
      = lin4 (pm q2 q3 q6 q7 q0 q1 q4 q5) u (pm q0 q2 q4 q6 q1 q3 q5 q7) v (pm q0 q1 q6 q7 q2 q3 q4 q5)
          (u * v) (pm q1 q3 q4 q6 q0 q2 q5 q7) := by
  simp only [lin4, pm, V3.add, V3.sub, V3.smul]; congr 1 <;> ring

theorem j2form (u v : R) (q0 q1 q2 q3 q4 q5 q6 q7 : V3 R) :
    V3.add (V3.add (smul ((1 - u) * (1 - v)) (V3.sub q4 q0)) (smul ((1 - u) * (1 + v)) (V3.sub q7 q3)))
        (V3.add (smul ((1 + u) * (1 - v)) (V3.sub q5 q1)) (smul ((1 + u) * (1 + v)) (V3.sub q6 q2)))
      = lin4 (pm q4 q5 q6 q7 q0 q1 q2 q3) u (pm q0 q3 q5 q6 q1 q2 q4 q7) v (pm q0 q1 q6 q7 q2 q3 q4 q5)
          (u * v) (pm q1 q3 q4 q6 q0 q2 q5 q7) := by
  simp only [lin4, pm, V3.add, V3.sub, V3.smul]; congr 1 <;> ring

/-- the integrand of the rule at `(ξ,η,ζ)` in terms of the coefficient vectors -/
def gaussJ (mx my mz mxy mxz myz w : V3 R) (xi eta zeta : R) : R :=
  det6 (lin4 mx eta mxy zeta mxz (eta * zeta) w) (lin4 my xi mxy zeta myz (xi * zeta) w)
    (lin4 mz xi mxz eta myz (xi * eta) w)

/-- summed over the eight points `(±g, ±g, ±g)`: only the constant and the `g²` terms survive -/
theorem gaussJ_sum (g : R) (mx my mz mxy mxz myz w : V3 R) :
    gaussJ mx my mz mxy mxz myz w (-g) (-g) (-g) + gaussJ mx my mz mxy mxz myz w (-g) (-g) g
      + gaussJ mx my mz mxy mxz myz w (-g) g (-g) + gaussJ mx my mz mxy mxz myz w (-g) g g
      + gaussJ mx my mz mxy mxz myz w g (-g) (-g) + gaussJ mx my mz mxy mxz myz w g (-g) g
      + gaussJ mx my mz mxy mxz myz w g g (-g) + gaussJ mx my mz mxy mxz myz w g g g
    = 8 * det6 mx my mz + 8 * (g * g) * (det6 mx mxy mxz + det6 mxy my myz + det6 mxz myz mz) := by
  simp only [gaussJ, det6, lin4]; ring

theorem hexGauss512_eq_gaussJ (g : R) (q0 q1 q2 q3 q4 q5 q6 q7 : V3 R) :
    hexGauss512 1 g q0 q1 q2 q3 q4 q5 q6 q7 =
      let mx := pm q1 q2 q5 q6 q0 q3 q4 q7; let my := pm q2 q3 q6 q7 q0 q1 q4 q5; let mz := pm q4 q5 q6 q7 q0 q1 q2 q3
      let mxy := pm q0 q2 q4 q6 q1 q3 q5 q7; let mxz := pm q0 q3 q5 q6 q1 q2 q4 q7; let myz := pm q0 q1 q6 q7 q2 q3 q4 q5
      let w := pm q1 q3 q4 q6 q0 q2 q5 q7
      gaussJ mx my mz mxy mxz myz w (-g) (-g) (-g) + gaussJ mx my mz mxy mxz myz w (-g) (-g) g
      + gaussJ mx my mz mxy mxz myz w (-g) g (-g) + gaussJ mx my mz mxy mxz myz w (-g) g g
      + gaussJ mx my mz mxy mxz myz w g (-g) (-g) + gaussJ mx my mz mxy mxz myz w g (-g) g
      + gaussJ mx my mz mxy mxz myz w g g (-g) + gaussJ mx my mz mxy mxz myz w g g g := by
  have hm : (1 - 1 : R) - g = -g := by ring
  have h0 := fun u v : R => j0form u v q0 q1 q2 q3 q4 q5 q6 q7
  have h1 := fun u v : R => j1form u v q0 q1 q2 q3 q4 q5 q6 q7
  have h2 := fun u v : R => j2form u v q0 q1 q2 q3 q4 q5 q6 q7
  simp only [hexGauss512, hm, h0, h1, h2, gaussJ, det6]

/-- the rule in closed form: `8·det(mx,my,mz) + 8g²·(…)` -/
theorem hexGauss512_closed (g : R) (q0 q1 q2 q3 q4 q5 q6 q7 : V3 R) :
    hexGauss512 1 g q0 q1 q2 q3 q4 q5 q6 q7 =
      8 * det6 (pm q1 q2 q5 q6 q0 q3 q4 q7) (pm q2 q3 q6 q7 q0 q1 q4 q5) (pm q4 q5 q6 q7 q0 q1 q2 q3)
      + 8 * (g * g) * (det6 (pm q1 q2 q5 q6 q0 q3 q4 q7) (pm q0 q2 q4 q6 q1 q3 q5 q7) (pm q0 q3 q5 q6 q1 q2 q4 q7)
        + det6 (pm q0 q2 q4 q6 q1 q3 q5 q7) (pm q2 q3 q6 q7 q0 q1 q4 q5) (pm q0 q1 q6 q7 q2 q3 q4 q5)
        + det6 (pm q0 q3 q5 q6 q1 q2 q4 q7) (pm q0 q1 q6 q7 q2 q3 q4 q5) (pm q4 q5 q6 q7 q0 q1 q2 q3)) := by
  rw [hexGauss512_eq_gaussJ]; exact gaussJ_sum g _ _ _ _ _ _ _

/-- exact integration (`g² = 1/3`): `3·det + (…) = 8·(centroid kernel)` -/
theorem gauss_exact_centroid (q0 q1 q2 q3 q4 q5 q6 q7 : V3 R) :
    3 * det6 (pm q1 q2 q5 q6 q0 q3 q4 q7) (pm q2 q3 q6 q7 q0 q1 q4 q5) (pm q4 q5 q6 q7 q0 q1 q2 q3)
      + (det6 (pm q1 q2 q5 q6 q0 q3 q4 q7) (pm q0 q2 q4 q6 q1 q3 q5 q7) (pm q0 q3 q5 q6 q1 q2 q4 q7)
        + det6 (pm q0 q2 q4 q6 q1 q3 q5 q7) (pm q2 q3 q6 q7 q0 q1 q4 q5) (pm q0 q1 q6 q7 q2 q3 q4 q5)
        + det6 (pm q0 q3 q5 q6 q1 q2 q4 q7) (pm q0 q1 q6 q7 q2 q3 q4 q5) (pm q4 q5 q6 q7 q0 q1 q2 q3))
      = 8 * hexC24 q0 q1 q2 q3 q4 q5 q6 q7 := by
  simp only [det6, pm]; geom_unfold; ring

/-- the 2×2×2 Gauss rule is affine in `g²`; at `3g² = 1` it equals the centroid kernel — for EVERY hex -/
theorem hexGauss_centroid_defect (g : R) (p0 p1 p2 p3 p4 p5 p6 p7 : V3 R) :
    3 * hexGauss512 1 g p0 p1 p2 p3 p4 p5 p6 p7 - 64 * hexC24 p0 p1 p2 p3 p4 p5 p6 p7
      = (3 * g * g - 1) * (64 * hexC24 p0 p1 p2 p3 p4 p5 p6 p7 - 3 * hexGauss512 1 0 p0 p1 p2 p3 p4 p5 p6 p7) := by
  rw [hexGauss512_closed g, hexGauss512_closed 0]
  linear_combination (24 * g * g) * gauss_exact_centroid p0 p1 p2 p3 p4 p5 p6 p7

/-! ### a commutative ring that contains the exact Gauss abscissa: `ℚ(√3)`, elements `a + b·√3`

  (used for the non-vacuity examples of the theorems with the hypothesis `3·g·g = 1`; `g = √3/3 = ⟨0, 1/3⟩`) -/

@[ext] structure QS3 where
  a : Rat
  b : Rat

namespace QS3
instance : Zero QS3 := ⟨⟨0, 0⟩⟩
instance : One QS3 := ⟨⟨1, 0⟩⟩
instance : Add QS3 := ⟨fun x y => ⟨x.a + y.a, x.b + y.b⟩⟩
instance : Neg QS3 := ⟨fun x => ⟨-x.a, -x.b⟩⟩
instance : Mul QS3 := ⟨fun x y => ⟨x.a * y.a + 3 * x.b * y.b, x.a * y.b + x.b * y.a⟩⟩
@[simp] theorem zero_a : (0 : QS3).a = 0 := rfl
@[simp] theorem zero_b : (0 : QS3).b = 0 := rfl
@[simp] theorem one_a : (1 : QS3).a = 1 := rfl
@[simp] theorem one_b : (1 : QS3).b = 0 := rfl
@[simp] theorem add_a (x y : QS3) : (x + y).a = x.a + y.a := rfl
@[simp] theorem add_b (x y : QS3) : (x + y).b = x.b + y.b := rfl
@[simp] theorem neg_a (x : QS3) : (-x).a = -x.a := rfl
@[simp] theorem neg_b (x : QS3) : (-x).b = -x.b := rfl
@[simp] theorem mul_a (x y : QS3) : (x * y).a = x.a * y.a + 3 * x.b * y.b := rfl
@[simp] theorem mul_b (x y : QS3) : (x * y).b = x.a * y.b + x.b * y.a := rfl

instance : CommRing QS3 :=
  CommRing.ofMinimalAxioms
    (by intro x y z; ext <;> simp only [add_a, add_b] <;> ring)
    (by intro x; ext <;> simp only [add_a, add_b, zero_a, zero_b] <;> ring)
    (by intro x; ext <;> simp only [add_a, add_b, neg_a, neg_b, zero_a, zero_b] <;> ring)
    (by intro x y z; ext <;> simp only [mul_a, mul_b] <;> ring)
    (by intro x y; ext <;> simp only [mul_a, mul_b] <;> ring)
    (by intro x; ext <;> simp only [mul_a, mul_b, one_a, one_b] <;> ring)
    (by intro x y z; ext <;> simp only [mul_a, mul_b, add_a, add_b] <;> ring)

/-- `√3/3` -/
def gauss : QS3 := ⟨0, 1 / 3⟩

theorem three_gauss_sq : 3 * gauss * gauss = 1 := by
  have h3 : (3 : QS3) = 1 + 1 + 1 := by norm_num
  rw [h3]
  ext <;> simp only [mul_a, mul_b, add_a, add_b, one_a, one_b, gauss] <;> norm_num

end QS3

end Femio.C11
