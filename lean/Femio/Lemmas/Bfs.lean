import Mathlib.Data.List.Nodup
import Mathlib.Data.List.Perm.Subperm
import Mathlib.Data.List.Dedup
import Mathlib.Data.List.Range
import Mathlib.Logic.Relation
import Mathlib.Tactic.Linarith

/-! Worklist BFS with a fuel bound = reachability (C16_hop_graph). -/

structure G where
  succ : Nat → List Nat
  allowed : Nat → Bool

def bfsStep (g : G) : List Nat × List Nat → List Nat × List Nat
  | ([], vis) => ([], vis)
  | (x :: q, vis) =>
    let new := ((g.succ x).filter (fun y => g.allowed y && !vis.contains y)).dedup
    (q ++ new, vis ++ new)

def bfs (g : G) (fuel : Nat) (v : Nat) : List Nat × List Nat := (bfsStep g)^[fuel] ([v], [v])

def R (g : G) (x y : Nat) : Prop := y ∈ g.succ x ∧ g.allowed y = true

/-- invariant: `vis = popped ++ queue`, no duplicates, sound, and popped vertices are closed -/
structure BInv (g : G) (v : Nat) (popped : List Nat) (s : List Nat × List Nat) : Prop where
  split : s.2 = popped ++ s.1
  nodup : s.2.Nodup
  sound : ∀ w ∈ s.2, Relation.ReflTransGen (R g) v w
  closed : ∀ x ∈ popped, ∀ y, R g x y → y ∈ s.2
  start : v ∈ s.2

theorem inv_init (g : G) (v : Nat) : BInv g v [] ([v], [v]) :=
  ⟨rfl, by simp, by intro w hw; simp at hw; subst hw; exact Relation.ReflTransGen.refl, by simp, by simp⟩

theorem inv_step (g : G) (v : Nat) (popped : List Nat) (x : Nat) (q vis : List Nat)
    (h : BInv g v popped (x :: q, vis)) : BInv g v (popped ++ [x]) (bfsStep g (x :: q, vis)) := by
  obtain ⟨hs, hn, hsound, hclosed, hstart⟩ := h
  simp only at hs hn hsound hclosed hstart
  set new := ((g.succ x).filter (fun y => g.allowed y && !vis.contains y)).dedup with hnew
  have hx : x ∈ vis := by rw [hs]; simp
  have hnew_mem : ∀ y, y ∈ new ↔ y ∈ g.succ x ∧ g.allowed y = true ∧ y ∉ vis := by
    intro y; simp [hnew, List.mem_dedup, List.mem_filter]
  refine ⟨?_, ?_, ?_, ?_, ?_⟩
  · simp only [bfsStep]; rw [hs]; simp
  · simp only [bfsStep]
    rw [List.nodup_append]
    refine ⟨hn, List.nodup_dedup _, ?_⟩
    intro a ha b hb hab
    subst hab
    exact ((hnew_mem a).mp hb).2.2 ha
  · simp only [bfsStep]
    intro w hw
    rcases List.mem_append.mp hw with hw | hw
    · exact hsound w hw
    · have := (hnew_mem w).mp hw
      exact Relation.ReflTransGen.tail (hsound x hx) ⟨this.1, this.2.1⟩
  · simp only [bfsStep]
    intro p hp y hy
    rcases List.mem_append.mp hp with hp | hp
    · exact List.mem_append_left _ (hclosed p hp y hy)
    · have : p = x := by simpa using hp
      subst this
      by_cases hyv : y ∈ vis
      · exact List.mem_append_left _ hyv
      · exact List.mem_append_right _ ((hnew_mem y).mpr ⟨hy.1, hy.2, hyv⟩)
  · simp only [bfsStep]; exact List.mem_append_left _ hstart

/-- after `k` steps: either the queue ran empty earlier (state is a fixpoint) or exactly `k` vertices were popped -/
theorem inv_iter (g : G) (v : Nat) (k : Nat) :
    ∃ popped, BInv g v popped ((bfsStep g)^[k] ([v], [v])) ∧
      (((bfsStep g)^[k] ([v], [v])).1 = [] ∨ popped.length = k) := by
  induction k with
  | zero => exact ⟨[], inv_init g v, Or.inr rfl⟩
  | succ k ih =>
    obtain ⟨popped, hinv, hk⟩ := ih
    rw [Function.iterate_succ_apply']
    set s := (bfsStep g)^[k] ([v], [v]) with hs
    obtain ⟨q, vis⟩ := s
    cases q with
    | nil => exact ⟨popped, by simpa [bfsStep] using hinv, Or.inl (by simp [bfsStep])⟩
    | cons x q =>
      refine ⟨popped ++ [x], inv_step g v popped x q vis hinv, Or.inr ?_⟩
      rcases hk with hk | hk
      · simp at hk
      · simp [hk]

/-- **C16_hop_graph (core)**: with all vertices `< n` and fuel `n`, the visited list is exactly the set
    of vertices reachable from `v` through allowed vertices. -/
theorem bfs_correct (g : G) (n v : Nat) (hv : v < n)
    (hsucc : ∀ x y, y ∈ g.succ x → y < n) (w : Nat) :
    w ∈ (bfs g n v).2 ↔ Relation.ReflTransGen (R g) v w := by
  obtain ⟨popped, hinv, hk⟩ := inv_iter g v n
  unfold bfs
  set s := (bfsStep g)^[n] ([v], [v]) with hs
  constructor
  · exact hinv.sound w
  · intro hreach
    -- all visited vertices are < n
    have hbound : ∀ u ∈ s.2, u < n := by
      intro u hu
      have := hinv.sound u hu
      induction this with
      | refl => exact hv
      | tail _ hr _ => exact hsucc _ _ hr.1
    -- the queue is empty after n steps (pigeonhole)
    have hq : s.1 = [] := by
      rcases hk with hk | hk
      · exact hk
      · by_contra hne
        have hlen : s.2.length ≤ n := by
          have hsub : s.2 ⊆ List.range n := fun u hu => List.mem_range.mpr (hbound u hu)
          have := (List.subperm_of_subset hinv.nodup hsub).length_le
          simpa using this
        have : s.2.length = popped.length + s.1.length := by rw [hinv.split]; simp
        have hpos : 0 < s.1.length := List.length_pos_iff.mpr hne
        omega
    -- visited = popped, which is closed under R and contains v
    have hvp : s.2 = popped := by rw [hinv.split, hq]; simp
    induction hreach with
    | refl => exact hinv.start
    | tail _ hr ih => exact hinv.closed _ (hvp ▸ ih) _ hr

#print axioms bfs_correct
