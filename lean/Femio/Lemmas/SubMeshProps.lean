import Femio.Model.SubMesh
import Femio.Lemmas.CoreProps
import Mathlib.Data.List.Basic
import Mathlib.Data.List.Nodup
import Mathlib.Data.List.Perm.Basic
import Mathlib.Tactic.Linarith

/-! Helper lemmas for C09 (sub-mesh extraction). -/
namespace Femio.SubMesh
open Core

variable {α β ι : Type}

/-! ### gather -/

theorem gather_some {f : ι → Option α} {l : List ι} {r : List α} (h : gather f l = some r) :
    l.map f = r.map some := by
  induction l generalizing r with
  | nil => simp [gather] at h; subst h; rfl
  | cons i t ih =>
    simp only [gather] at h
    split at h
    · rename_i a r' hfi hgt
      cases h
      simp [hfi, ih hgt]
    · cases h

theorem gather_length {f : ι → Option α} {l : List ι} {r : List α} (h : gather f l = some r) :
    r.length = l.length := by
  have := congrArg List.length (gather_some h); simpa using this.symm

theorem gather_isSome {f : ι → Option α} {l : List ι} (h : ∀ i ∈ l, (f i).isSome) : ∃ r, gather f l = some r := by
  induction l with
  | nil => exact ⟨[], rfl⟩
  | cons i t ih =>
    obtain ⟨r, hr⟩ := ih (fun j hj => h j (List.mem_cons_of_mem _ hj))
    obtain ⟨a, ha⟩ := Option.isSome_iff_exists.mp (h i (by simp))
    exact ⟨a :: r, by simp [gather, ha, hr]⟩

theorem gather_none_of {f : ι → Option α} {l : List ι} {i : ι} (hi : i ∈ l) (h : f i = none) : gather f l = none := by
  induction l with
  | nil => simp at hi
  | cons j t ih =>
    rcases List.mem_cons.mp hi with rfl | hm
    · simp [gather, h]
    · simp only [gather, ih hm]
      split <;> simp_all

/-- element-wise reading of a successful `gather` -/
theorem gather_getElem {f : ι → Option α} {l : List ι} {r : List α} (h : gather f l = some r)
    (k : Nat) (hk : k < l.length) : f l[k] = some (r[k]'(by rw [gather_length h]; exact hk)) := by
  have := congrArg (·[k]?) (gather_some h)
  simp only [List.getElem?_map] at this
  rw [List.getElem?_eq_getElem hk, List.getElem?_eq_getElem (by rw [gather_length h]; exact hk)] at this
  simpa using this

theorem gather_mem {f : ι → Option α} {l : List ι} {r : List α} (h : gather f l = some r) {a : α} (ha : a ∈ r) :
    ∃ i ∈ l, f i = some a := by
  obtain ⟨k, hk, rfl⟩ := List.getElem_of_mem ha
  have hk' : k < l.length := by rw [← gather_length h]; exact hk
  exact ⟨l[k], List.getElem_mem hk', gather_getElem h k hk'⟩

theorem gather_mem' {f : ι → Option α} {l : List ι} {r : List α} (h : gather f l = some r) {i : ι} (hi : i ∈ l) :
    ∃ a ∈ r, f i = some a := by
  obtain ⟨k, hk, rfl⟩ := List.getElem_of_mem hi
  exact ⟨r[k]'(by rw [gather_length h]; exact hk), List.getElem_mem _, gather_getElem h k hk⟩

/-! ### Attr -/

theorem filterWithIds_ids {a b : Attr α} {ids : List Id} (h : a.filterWithIds ids = some b) : b.ids = ids := by
  unfold Attr.filterWithIds at h
  cases hg : gather a.lookup ids with
  | none => simp [hg] at h
  | some d => simp [hg] at h; subst h; rfl

/-- `.loc[ids]` keeps every value bound to its id -/
theorem filterWithIds_lookup {a b : Attr α} {ids : List Id} (h : a.filterWithIds ids = some b) {i : Id}
    (hi : i ∈ ids) : b.lookup i = a.lookup i ∧ (a.lookup i).isSome := by
  unfold Attr.filterWithIds at h
  cases hg : gather a.lookup ids with
  | none => simp [hg] at h
  | some d =>
    simp [hg] at h; subst h
    obtain ⟨k, hk⟩ := idPos_of_mem hi
    obtain ⟨hkl, hki⟩ := idPos_some hk
    have := gather_getElem hg k hkl
    rw [hki] at this
    have hb : (⟨ids, d⟩ : Attr α).lookup i = some (d[k]'(by rw [gather_length hg]; exact hkl)) := by
      simp [Attr.lookup, hk]
    rw [hb, this]; simp

theorem filterWithIds_isSome {a : Attr α} {ids : List Id} (h : ∀ i ∈ ids, (a.lookup i).isSome) :
    ∃ b, a.filterWithIds ids = some b := by
  obtain ⟨d, hd⟩ := gather_isSome h
  exact ⟨⟨ids, d⟩, by simp [Attr.filterWithIds, hd]⟩

/-! ### np.unique -/

theorem mem_insertU {x y : Nat} {l : List Nat} : y ∈ insertU x l ↔ y = x ∨ y ∈ l := by
  induction l with
  | nil => simp [insertU]
  | cons z t ih =>
    simp only [insertU]
    split
    · simp
    · split
      · rename_i h1 h2; subst h2; simp
      · simp [ih]; tauto

theorem mem_uniqueSorted {y : Nat} {l : List Nat} : y ∈ uniqueSorted l ↔ y ∈ l := by
  induction l with
  | nil => simp [uniqueSorted]
  | cons x t ih =>
    have : uniqueSorted (x :: t) = insertU x (uniqueSorted t) := rfl
    rw [this, mem_insertU, ih]; simp

theorem insertU_sorted {x : Nat} {l : List Nat} (h : l.Pairwise (· < ·)) : (insertU x l).Pairwise (· < ·) := by
  induction l with
  | nil => simp [insertU]
  | cons z t ih =>
    simp only [insertU]
    rw [List.pairwise_cons] at h
    split
    · rename_i hxz
      refine List.pairwise_cons.mpr ⟨?_, List.pairwise_cons.mpr h⟩
      intro a ha
      rcases List.mem_cons.mp ha with rfl | ha
      · exact hxz
      · exact lt_trans hxz (h.1 a ha)
    · split
      · exact List.pairwise_cons.mpr h
      · rename_i h1 h2
        refine List.pairwise_cons.mpr ⟨?_, ih h.2⟩
        intro a ha
        rcases mem_insertU.mp ha with rfl | ha
        · omega
        · exact h.1 a ha

theorem uniqueSorted_sorted (l : List Nat) : (uniqueSorted l).Pairwise (· < ·) := by
  induction l with
  | nil => simp [uniqueSorted]
  | cons x t ih => exact insertU_sorted ih

theorem uniqueSorted_nodup (l : List Nat) : (uniqueSorted l).Nodup :=
  (uniqueSorted_sorted l).imp (fun h => Nat.ne_of_lt h)

/-! ### FEMElementalAttribute -/

theorem insertEnt_perm (e : Ent β) (l : List (Ent β)) : (insertEnt e l).Perm (e :: l) := by
  induction l with
  | nil => simp [insertEnt]
  | cons f t ih =>
    simp only [insertEnt]
    split
    · exact List.Perm.refl _
    · exact (List.Perm.cons f ih).trans (List.Perm.swap e f t)

theorem sortEnts_perm (l : List (Ent β)) : (sortEnts l).Perm l := by
  induction l with
  | nil => exact List.Perm.refl _
  | cons e t ih => exact (insertEnt_perm e _).trans (List.Perm.cons e ih)

theorem flattenE_perm (blocks : EBlocks β) : (flattenE blocks).Perm blocks.flatten := by
  unfold flattenE
  split
  · simp
  · exact sortEnts_perm _

theorem mem_flattenE {blocks : EBlocks β} {e : Ent β} : e ∈ flattenE blocks ↔ e ∈ blocks.flatten :=
  (flattenE_perm blocks).mem_iff

/-- entities have pairwise distinct ids -/
def IdsNodup (l : List (Ent β)) : Prop := (l.map (·.id)).Nodup

theorem idsNodup_flattenE {blocks : EBlocks β} (h : IdsNodup blocks.flatten) : IdsNodup (flattenE blocks) :=
  ((flattenE_perm blocks).map _).nodup_iff.mpr h

theorem ent_unique {l : List (Ent β)} (h : IdsNodup l) {e f : Ent β} (he : e ∈ l) (hf : f ∈ l) (hid : e.id = f.id) :
    e = f := List.inj_on_of_nodup_map h he hf hid

theorem entAt_some {flat : List (Ent β)} {i : Id} {e : Ent β} (h : entAt flat i = some e) : e ∈ flat ∧ e.id = i := by
  unfold entAt at h
  cases hp : idPos (flat.map (·.id)) i with
  | none => simp [hp] at h
  | some k =>
    obtain ⟨hk, hki⟩ := idPos_some hp
    simp only [hp, Option.bind_some] at h
    have hk' : k < flat.length := by simpa using hk
    rw [List.getElem?_eq_getElem hk'] at h
    cases h
    exact ⟨List.getElem_mem hk', by simpa using hki⟩

theorem entAt_of_mem {flat : List (Ent β)} (hn : IdsNodup flat) {e : Ent β} (he : e ∈ flat) : entAt flat e.id = some e := by
  have hm : e.id ∈ flat.map (·.id) := List.mem_map.mpr ⟨e, he, rfl⟩
  obtain ⟨k, hk⟩ := idPos_of_mem hm
  obtain ⟨hkl, hki⟩ := idPos_some hk
  have hk' : k < flat.length := by simpa using hkl
  have : flat[k] = e := ent_unique hn (List.getElem_mem hk') he (by simpa using hki)
  simp [entAt, hk, List.getElem?_eq_getElem hk', this]

theorem find_id_eq_some {l : List (Ent β)} (h : IdsNodup l) {i : Id} {e : Ent β} :
    l.find? (·.id == i) = some e ↔ e ∈ l ∧ e.id = i := by
  constructor
  · intro hf
    exact ⟨List.mem_of_find?_eq_some hf, by simpa using List.find?_some hf⟩
  · rintro ⟨he, rfl⟩
    cases hf : l.find? (·.id == e.id) with
    | none =>
      rw [List.find?_eq_none] at hf
      exact absurd (hf e he) (by simp)
    | some f =>
      have := ent_unique h (List.mem_of_find?_eq_some hf) he (by simpa using List.find?_some hf)
      rw [this]

/-- a sub-collection of an id-unique collection answers id look-ups like the collection itself -/
theorem find_id_sub {l₁ l₂ : List (Ent β)} (h : IdsNodup l₁) (P : Id → Prop)
    (hsub : ∀ e, e ∈ l₂ ↔ e ∈ l₁ ∧ P e.id) {i : Id} (hi : P i) :
    l₂.find? (·.id == i) = l₁.find? (·.id == i) := by
  cases h1 : l₁.find? (·.id == i) with
  | none =>
    rw [List.find?_eq_none] at h1 ⊢
    intro e he
    exact h1 e ((hsub e).mp he).1
  | some e =>
    obtain ⟨he, hei⟩ := (find_id_eq_some h).mp h1
    cases h2 : l₂.find? (·.id == i) with
    | none =>
      rw [List.find?_eq_none] at h2
      exact absurd (h2 e ((hsub e).mpr ⟨he, hei ▸ hi⟩)) (by simp [hei])
    | some f =>
      have hf := List.mem_of_find?_eq_some h2
      have hfi : f.id = i := by simpa using List.find?_some h2
      rw [ent_unique h ((hsub f).mp hf).1 he (hfi.trans hei.symm)]

theorem mem_groupByType {es : List (Ent β)} {e : Ent β} :
    e ∈ (groupByType es).flatten ↔ e ∈ es ∧ e.ty < nTypes := by
  unfold groupByType
  simp only [List.mem_flatten, List.mem_filterMap, List.mem_range]
  constructor
  · rintro ⟨b, ⟨t, ht, hb⟩, heb⟩
    split at hb
    · cases hb
    · cases hb
      have := List.mem_filter.mp heb
      have hty : e.ty = t := by simpa using this.2
      exact ⟨this.1, hty ▸ ht⟩
  · rintro ⟨he, ht⟩
    refine ⟨es.filter (·.ty == e.ty), ⟨e.ty, ht, ?_⟩, List.mem_filter.mpr ⟨he, by simp⟩⟩
    have : (es.filter (·.ty == e.ty)).isEmpty = false := by
      cases hf : es.filter (·.ty == e.ty) with
      | nil =>
        have : e ∈ es.filter (·.ty == e.ty) := List.mem_filter.mpr ⟨he, by simp⟩
        rw [hf] at this; simp at this
      | cons _ _ => rfl
    simp [this]

/-- well-typed blocks: every type tag is an index into `ELEMENT_TYPES` -/
def TypesOk (blocks : EBlocks β) : Prop := ∀ e ∈ blocks.flatten, e.ty < nTypes

/-- **`filter_with_ids` keeps exactly the requested entities that exist** -/
theorem mem_filterElems {blocks : EBlocks β} (hn : IdsNodup blocks.flatten) (ht : TypesOk blocks)
    {ids : List Id} {e : Ent β} :
    e ∈ (filterElems blocks ids).flatten ↔ e ∈ blocks.flatten ∧ e.id ∈ ids := by
  have hnf := idsNodup_flattenE hn
  unfold filterElems
  simp only [mem_groupByType, List.mem_filterMap, List.mem_filter]
  constructor
  · rintro ⟨⟨i, ⟨hi, _⟩, hat⟩, _⟩
    obtain ⟨hef, hid⟩ := entAt_some hat
    exact ⟨mem_flattenE.mp hef, hid ▸ hi⟩
  · rintro ⟨he, hi⟩
    have hef := mem_flattenE.mpr he
    refine ⟨⟨e.id, ⟨hi, ?_⟩, entAt_of_mem hnf hef⟩, ht e he⟩
    simp only [List.contains_eq_mem, List.mem_map, decide_eq_true_eq]
    exact ⟨e, hef, rfl⟩

theorem isEmpty_false_of_mem_flatten {L : List (List β)} {e : β} (h : e ∈ L.flatten) : L.isEmpty = false := by
  cases L with
  | nil => simp at h
  | cons _ _ => rfl

/-! ### assemble (common tail of the cuts) -/

theorem assemble_ok {m r : FEM α} {nodeIds eids : List Id} (h : assemble m nodeIds eids = .ok r) :
    m.nodes.filterWithIds nodeIds = some r.nodes ∧ filterNodal m.nodal nodeIds = some r.nodal ∧
    r.elems = filterElems m.elems eids ∧ r.elemental = filterElemental m.elemental eids := by
  unfold assemble at h
  cases h1 : m.nodes.filterWithIds nodeIds with
  | none => simp [h1] at h
  | some ns =>
    cases h2 : filterNodal m.nodal nodeIds with
    | none => simp [h1, h2] at h
    | some nd =>
      simp only [h1, h2] at h
      cases h
      exact ⟨rfl, rfl, rfl, rfl⟩

/-- nodal variables after `.loc[ids]`, looked up by name and id -/
theorem filterNodal_at {vars nd : List (Nat × Attr α)} {ids : List Id} (h : filterNodal vars ids = some nd)
    (name : Nat) {i : Id} (hi : i ∈ ids) :
    ((nd.find? (·.1 == name)).bind fun kv => kv.2.lookup i) = ((vars.find? (·.1 == name)).bind fun kv => kv.2.lookup i) := by
  induction vars generalizing nd with
  | nil => simp [filterNodal, gather] at h; subst h; rfl
  | cons kv t ih =>
    simp only [filterNodal, gather] at h
    split at h
    · rename_i a r' hfi hgt
      cases h
      cases hf : kv.2.filterWithIds ids with
      | none => simp [hf] at hfi
      | some b =>
        simp only [hf, Option.map_some, Option.some.injEq] at hfi
        subst hfi
        simp only [List.find?_cons]
        by_cases hn : (kv.1 == name) = true
        · simp only [hn, Option.bind_some]
          exact (filterWithIds_lookup hf hi).1
        · simp only [hn]
          exact ih hgt
    · cases h

theorem filterElemental_find (vars : List (Nat × EBlocks β)) (ids : List Id) (name : Nat) :
    (filterElemental vars ids).find? (·.1 == name) =
      (vars.find? (·.1 == name)).map fun kv => (kv.1, filterElems kv.2 ids) := by
  induction vars with
  | nil => rfl
  | cons kv t ih =>
    simp only [filterElemental, List.map_cons, List.find?_cons] at ih ⊢
    by_cases hn : (kv.1 == name) = true
    · simp [hn]
    · simp only [hn]; exact ih

/-! ### positional operations: masks and index lists -/

theorem maskFilter_map (p : α → Bool) (l : List α) : maskFilter (l.map p) l = l.filter p := by
  induction l with
  | nil => rfl
  | cons x t ih => simp only [List.map_cons, maskFilter, List.filter_cons, ih]

theorem lookup_cons (x : Id) (xs : List Id) (d : α) (ds : List α) (i : Id) :
    (⟨x :: xs, d :: ds⟩ : Attr α).lookup i = if x = i then some d else (⟨xs, ds⟩ : Attr α).lookup i := by
  simp only [Attr.lookup, idPos]
  split
  · simp
  · cases idPos xs i <;> simp

/-- boolean-mask slicing of parallel arrays keeps the value of every id whose mask bit is set -/
theorem lookup_maskFilter (mask : List Bool) (ids : List Id) (data : List α) (hl : data.length = ids.length) (i : Id)
    (hm : ∀ k, idPos ids i = some k → mask[k]? = some true) :
    (⟨maskFilter mask ids, maskFilter mask data⟩ : Attr α).lookup i = (⟨ids, data⟩ : Attr α).lookup i := by
  induction mask generalizing ids data with
  | nil =>
    cases hp : idPos ids i with
    | none => simp [Attr.lookup, hp, maskFilter, idPos]
    | some k => simpa using hm k hp
  | cons b bs ih =>
    cases ids with
    | nil => cases data with
      | nil => simp [maskFilter]
      | cons _ _ => simp at hl
    | cons x xs =>
      cases data with
      | nil => simp at hl
      | cons d ds =>
        have hl' : ds.length = xs.length := by simpa using hl
        have hrec : x ≠ i → ∀ k, idPos xs i = some k → bs[k]? = some true := by
          intro hx k hk
          have := hm (k + 1) (by simp [idPos, hx, hk])
          simpa using this
        rw [lookup_cons]
        by_cases hx : x = i
        · have h0 := hm 0 (by simp [idPos, hx])
          simp only [List.getElem?_cons_zero, Option.some.injEq] at h0
          subst h0
          simp only [maskFilter, if_true, lookup_cons, hx]
        · simp only [hx, if_false]
          cases b with
          | true => simp only [maskFilter, if_true, lookup_cons, hx, if_false]; exact ih xs ds hl' (hrec hx)
          | false => simp only [maskFilter, Bool.false_eq_true, if_false]; exact ih xs ds hl' (hrec hx)

theorem gather_maskFilter {f : ι → Option α} {l : List ι} {r : List α} (h : gather f l = some r) (mask : List Bool) :
    gather f (maskFilter mask l) = some (maskFilter mask r) := by
  induction mask generalizing l r with
  | nil => simp [maskFilter, gather]
  | cons b bs ih =>
    cases l with
    | nil => simp [gather] at h; subst h; simp [maskFilter, gather]
    | cons i t =>
      simp only [gather] at h
      split at h
      · rename_i a r' hfi hgt
        cases h
        cases b with
        | true => simp [maskFilter, gather, hfi, ih hgt]
        | false => simp [maskFilter, ih hgt]
      · cases h

/-- fancy indexing of parallel arrays (`ids[idx]`, `data[idx]`) keeps the value of every id it selects -/
theorem reslice_lookup {a : Attr α} (hn : a.ids.Nodup) {idx : List Nat} {ids' : List Id} {data' : List α}
    (h1 : gatherPos a.ids idx = some ids') (h2 : gatherPos a.data idx = some data') {i : Id} (hi : i ∈ ids') :
    (⟨ids', data'⟩ : Attr α).lookup i = a.lookup i ∧ (a.lookup i).isSome := by
  obtain ⟨j, hj⟩ := idPos_of_mem hi
  obtain ⟨hjl, hji⟩ := idPos_some hj
  have hjx : j < idx.length := by rw [← gather_length h1]; exact hjl
  have e1 := gather_getElem h1 j hjx
  have e2 := gather_getElem h2 j hjx
  rw [hji] at e1
  obtain ⟨hk, hki⟩ := List.getElem?_eq_some_iff.mp e1
  have hpos : idPos a.ids i = some idx[j] := by rw [← hki]; exact idPos_get hn _ hk
  simp only [Attr.lookup, hj, hpos, Option.bind_some, e2]
  rw [List.getElem?_eq_getElem (by rw [gather_length h2]; exact hjx)]
  simp

theorem gatherPos_mem {l : List α} {idx : List Nat} {r : List α} (h : gatherPos l idx = some r) {a : α} :
    a ∈ r ↔ ∃ k ∈ idx, l[k]? = some a := by
  constructor
  · intro ha; exact gather_mem h ha
  · rintro ⟨k, hk, hka⟩
    obtain ⟨b, hb, hkb⟩ := gather_mem' h hk
    rw [hka] at hkb; cases hkb; exact hb

theorem gatherPos_nodup {l : List Id} (hn : l.Nodup) {idx : List Nat} (hx : idx.Nodup) {r : List Id}
    (h : gatherPos l idx = some r) : r.Nodup := by
  rw [List.nodup_iff_injective_getElem]
  intro ⟨j, hj⟩ ⟨k, hk⟩ hjk
  simp only at hjk
  have hj' : j < idx.length := by rw [← gather_length h]; exact hj
  have hk' : k < idx.length := by rw [← gather_length h]; exact hk
  have e1 := gather_getElem h j hj'
  have e2 := gather_getElem h k hk'
  obtain ⟨a1, b1⟩ := List.getElem?_eq_some_iff.mp e1
  obtain ⟨a2, b2⟩ := List.getElem?_eq_some_iff.mp e2
  have : idx[j] = idx[k] := by
    apply (List.Nodup.getElem_inj_iff hn).mp
    rw [b1, b2]; exact hjk
  have := (List.Nodup.getElem_inj_iff hx).mp this
  exact Fin.ext this

/-! ### argsort and the two-pointer sweep -/

theorem insertPair_perm (p : Nat × Nat) (l : List (Nat × Nat)) : (insertPair p l).Perm (p :: l) := by
  induction l with
  | nil => simp [insertPair]
  | cons q t ih =>
    simp only [insertPair]
    split
    · exact List.Perm.refl _
    · exact (List.Perm.cons q ih).trans (List.Perm.swap p q t)

theorem sortedPairs_perm (ids : List Id) : (sortedPairs ids).Perm ids.zipIdx := by
  unfold sortedPairs
  induction ids.zipIdx with
  | nil => exact List.Perm.refl _
  | cons p t ih => exact (insertPair_perm p _).trans (List.Perm.cons p ih)

theorem insertPair_sorted {p : Nat × Nat} {l : List (Nat × Nat)} (h : l.Pairwise (fun a b => a.1 ≤ b.1)) :
    (insertPair p l).Pairwise (fun a b => a.1 ≤ b.1) := by
  induction l with
  | nil => simp [insertPair]
  | cons q t ih =>
    simp only [insertPair]
    rw [List.pairwise_cons] at h
    split
    · rename_i hpq
      refine List.pairwise_cons.mpr ⟨?_, List.pairwise_cons.mpr h⟩
      intro a ha
      rcases List.mem_cons.mp ha with rfl | ha
      · exact hpq
      · exact le_trans hpq (h.1 a ha)
    · rename_i hpq
      refine List.pairwise_cons.mpr ⟨?_, ih h.2⟩
      intro a ha
      rcases List.mem_cons.mp ((insertPair_perm p t).mem_iff.mp ha) with rfl | ha
      · omega
      · exact h.1 a ha

theorem sortedPairs_sorted (ids : List Id) : (sortedPairs ids).Pairwise (fun a b => a.1 ≤ b.1) := by
  unfold sortedPairs
  induction ids.zipIdx with
  | nil => simp
  | cons p t ih => exact insertPair_sorted ih

theorem mem_zipIdx_getElem {ids : List Id} {p : Nat × Nat} (h : p ∈ ids.zipIdx) : ids[p.2]? = some p.1 := by
  obtain ⟨x, k⟩ := p
  have := List.mem_zipIdx h
  simp only [Nat.zero_le, Nat.sub_zero, true_and] at this
  obtain ⟨hk, hx⟩ := this
  simp only [zero_add] at hk
  rw [List.getElem?_eq_getElem hk, hx]

/-- the ids in ascending order: `ids[argsort(ids)]` -/
theorem sortedIds_perm (ids : List Id) : ((sortedPairs ids).map (·.1)).Perm ids := by
  have := (sortedPairs_perm ids).map (·.1)
  refine this.trans ?_
  rw [List.zipIdx_map_fst]

theorem sortedIds_strict {ids : List Id} (hn : ids.Nodup) : ((sortedPairs ids).map (·.1)).Pairwise (· < ·) := by
  have h1 : ((sortedPairs ids).map (·.1)).Pairwise (· ≤ ·) := by
    rw [List.pairwise_map]; exact sortedPairs_sorted ids
  have h2 : ((sortedPairs ids).map (·.1)).Nodup := (sortedIds_perm ids).nodup_iff.mpr hn
  exact (h1.and h2).imp (fun ⟨a, b⟩ => lt_of_le_of_ne a b)

/-- `ids[argsort ids] = sorted ids` -/
theorem gatherPos_argsort (ids : List Id) : gatherPos ids (argsort ids) = some ((sortedPairs ids).map (·.1)) := by
  have hall : ∀ p ∈ sortedPairs ids, ids[p.2]? = some p.1 :=
    fun p hp => mem_zipIdx_getElem ((sortedPairs_perm ids).mem_iff.mp hp)
  unfold argsort gatherPos
  revert hall
  generalize sortedPairs ids = L
  intro hall
  induction L with
  | nil => rfl
  | cons p t ih =>
    simp only [List.map_cons, gather, hall p (by simp), ih (fun q hq => hall q (List.mem_cons_of_mem _ hq))]

theorem sweepE_nil (os : List Nat) : sweepE os [] = some (os.map fun _ => false) := by
  cases os <;> simp [sweepE]

/-- the two-pointer sweep computes the membership mask (and does not run off the end) when both lists are
    strictly ascending and every useful id is a node id -/
theorem sweepE_correct (orig useful : List Nat)
    (ho : orig.Pairwise (· < ·)) (hu : useful.Pairwise (· < ·)) (hsub : ∀ u ∈ useful, u ∈ orig) :
    sweepE orig useful = some (orig.map fun o => decide (o ∈ useful)) := by
  induction orig generalizing useful with
  | nil =>
    cases useful with
    | nil => simp [sweepE]
    | cons u us => exact absurd (hsub u (by simp)) (by simp)
  | cons o os ih =>
    cases useful with
    | nil => simp [sweepE_nil]
    | cons u us =>
      simp only [List.pairwise_cons] at ho hu
      by_cases hou : o = u
      · subst hou
        have hrec := ih us ho.2 hu.2 (by
          intro v hv
          have hvo : v ∈ o :: os := hsub v (List.mem_cons_of_mem _ hv)
          rcases List.mem_cons.mp hvo with h | h
          · exact absurd h (ne_of_gt (hu.1 v hv))
          · exact h)
        simp only [sweepE, ne_eq, not_true_eq_false, if_false, hrec, Option.map_some, List.map_cons, List.mem_cons,
          true_or, decide_true, Option.some.injEq, List.cons.injEq, true_and]
        apply List.map_congr_left
        intro x hx
        have : x ≠ o := ne_of_gt (ho.1 x hx)
        simp [this]
      · have hnot : o ∉ u :: us := by
          intro hmem
          rcases List.mem_cons.mp hmem with h | h
          · exact hou h
          · have hu_lt : u < o := hu.1 o h
            have : u ∈ o :: os := hsub u (by simp)
            rcases List.mem_cons.mp this with h' | h'
            · omega
            · have := ho.1 u h'; omega
        have hrec := ih (u :: us) ho.2 (List.pairwise_cons.mpr hu) (by
          intro v hv
          have hvo := hsub v hv
          rcases List.mem_cons.mp hvo with h | h
          · exact absurd (h ▸ hv) hnot
          · exact h)
        simp only [sweepE, ne_eq, hou, not_false_eq_true, if_true, hrec, Option.map_some, List.map_cons, hnot,
          decide_false]

/-- conversely the sweep raises (`IndexError`) whenever some useful id is not a node id (ascending lists) -/
theorem sweepE_none (orig useful : List Nat) (hu : useful.Pairwise (· < ·)) (ho : orig.Pairwise (· < ·))
    (h : ∃ u ∈ useful, u ∉ orig) : sweepE orig useful = none := by
  induction orig generalizing useful with
  | nil =>
    cases useful with
    | nil => simp at h
    | cons u us => simp [sweepE]
  | cons o os ih =>
    cases useful with
    | nil => simp at h
    | cons u us =>
      simp only [List.pairwise_cons] at ho hu
      obtain ⟨v, hv, hvo⟩ := h
      by_cases hou : o = u
      · subst hou
        have : sweepE os us = none := by
          apply ih us hu.2 ho.2
          rcases List.mem_cons.mp hv with h | h
          · exact absurd (h ▸ List.mem_cons_self) hvo
          · exact ⟨v, h, fun hm => hvo (List.mem_cons_of_mem _ hm)⟩
        simp [sweepE, this]
      · have : sweepE os (u :: us) = none := by
          apply ih (u :: us) (List.pairwise_cons.mpr hu) ho.2
          exact ⟨v, hv, fun hm => hvo (List.mem_cons_of_mem _ hm)⟩
        simp [sweepE, hou, this]

/-! ### facets -/

theorem mem_insertFacet {f g : List Nat} {l : List (List Nat)} : g ∈ insertFacet f l ↔ g = f ∨ g ∈ l := by
  induction l with
  | nil => simp [insertFacet]
  | cons h t ih =>
    simp only [insertFacet]
    split
    · simp [ih]; tauto
    · simp

theorem mem_sortFacets {g : List Nat} {fs : List (List Nat)} : g ∈ sortFacets fs ↔ g ∈ fs := by
  induction fs with
  | nil => simp [sortFacets]
  | cons f t ih =>
    have : sortFacets (f :: t) = insertFacet f (sortFacets t) := rfl
    rw [this, mem_insertFacet, ih]; simp

theorem mem_firstOccurrences {seen fs : List (List Nat)} {g : List Nat} (h : g ∈ firstOccurrences seen fs) : g ∈ fs := by
  induction fs generalizing seen with
  | nil => simp [firstOccurrences] at h
  | cons f t ih =>
    simp only [firstOccurrences] at h
    split at h
    · exact List.mem_cons_of_mem _ (ih h)
    · rcases List.mem_cons.mp h with rfl | h
      · simp
      · exact List.mem_cons_of_mem _ (ih h)

theorem firstOccurrences_complete {seen fs : List (List Nat)} {f : List Nat} (hf : f ∈ fs) :
    faceKey f ∈ seen ∨ ∃ g ∈ firstOccurrences seen fs, faceKey g = faceKey f := by
  induction fs generalizing seen with
  | nil => simp at hf
  | cons h t ih =>
    simp only [firstOccurrences]
    rcases List.mem_cons.mp hf with rfl | hft
    · split
      · rename_i hs; exact Or.inl (by simpa using hs)
      · exact Or.inr ⟨f, by simp, rfl⟩
    · split
      · exact ih hft
      · rcases ih (seen := faceKey h :: seen) hft with hs | ⟨g, hg, hk⟩
        · rcases List.mem_cons.mp hs with hs | hs
          · exact Or.inr ⟨h, by simp, hs.symm⟩
          · exact Or.inl hs
        · exact Or.inr ⟨g, List.mem_cons_of_mem _ hg, hk⟩

theorem mem_removeDuplicates {fs : List (List Nat)} {g : List Nat} (h : g ∈ removeDuplicates fs) : g ∈ fs :=
  mem_firstOccurrences (mem_sortFacets.mp h)

theorem removeDuplicates_complete {fs : List (List Nat)} {f : List Nat} (hf : f ∈ fs) :
    ∃ g ∈ removeDuplicates fs, faceKey g = faceKey f := by
  rcases firstOccurrences_complete (seen := []) hf with h | ⟨g, hg, hk⟩
  · simp at h
  · exact ⟨g, mem_sortFacets.mpr hg, hk⟩

theorem mem_onceOnly {fs : List (List Nat)} {g : List Nat} :
    g ∈ onceOnly fs ↔ g ∈ fs ∧ (fs.map faceKey).count (faceKey g) = 1 := by
  simp [onceOnly, mem_sortFacets, List.mem_filter]

/-- `row` is one of the `w`-vertex faces of an element of the mesh (per-type face table `ft`) -/
def IsFacetOf (ft : Nat → Option (List (List Nat))) (blocks : EBlocks (List Id)) (w : Nat) (row : List Id) : Prop :=
  ∃ e ∈ blocks.flatten, ∃ tbl, ft e.ty = some tbl ∧ ∃ f ∈ tbl, f.length = w ∧ row = f.filterMap (e.val[·]?)

theorem mem_facetsOfWidth {ft : Nat → Option (List (List Nat))} {blocks : EBlocks (List Id)} {w : Nat}
    {t : List (List Id)} (h : facetsOfWidth ft blocks w = some t) {row : List Id} :
    row ∈ t ↔ IsFacetOf ft blocks w row := by
  unfold facetsOfWidth at h
  cases hg : gather (fun (e : Ent (List Id)) => (ft e.ty).map fun tbl =>
      (tbl.filter (·.length == w)).map fun f => f.filterMap (e.val[·]?)) blocks.flatten with
  | none => simp [hg] at h
  | some L =>
    simp only [hg, Option.map_some, Option.some.injEq] at h
    subst h
    simp only [List.mem_flatten]
    constructor
    · rintro ⟨rows, hrows, hrow⟩
      obtain ⟨e, he, hfe⟩ := gather_mem hg hrows
      cases hft : ft e.ty with
      | none => simp [hft] at hfe
      | some tbl =>
        simp only [hft, Option.map_some, Option.some.injEq] at hfe
        subst hfe
        obtain ⟨f, hf, rfl⟩ := List.mem_map.mp hrow
        obtain ⟨hft', hlen⟩ := List.mem_filter.mp hf
        exact ⟨e, he, tbl, hft, f, hft', by simpa using hlen, rfl⟩
    · rintro ⟨e, he, tbl, hft, f, hf, hlen, rfl⟩
      obtain ⟨rows, hrows, hfe⟩ := gather_mem' hg he
      simp only [hft, Option.map_some, Option.some.injEq] at hfe
      subst hfe
      exact ⟨_, hrows, List.mem_map.mpr ⟨f, List.mem_filter.mpr ⟨hf, by simpa using hlen⟩, rfl⟩⟩

theorem facet_nodes {ft : Nat → Option (List (List Nat))} {blocks : EBlocks (List Id)} {w : Nat} {row : List Id}
    (h : IsFacetOf ft blocks w row) {n : Id} (hn : n ∈ row) : ∃ e ∈ blocks.flatten, n ∈ e.val := by
  obtain ⟨e, he, tbl, _, f, _, _, rfl⟩ := h
  obtain ⟨k, _, hk⟩ := List.mem_filterMap.mp hn
  exact ⟨e, he, List.mem_of_getElem? hk⟩

theorem mem_numberFrom {s ty : Nat} {rows : List β} {e : Ent β} (h : e ∈ numberFrom s ty rows) : e.val ∈ rows ∧ e.ty = ty := by
  unfold numberFrom at h
  obtain ⟨⟨r, k⟩, hp, rfl⟩ := List.mem_map.mp h
  have := List.mem_zipIdx hp
  simp only [Nat.zero_le, Nat.sub_zero, true_and, zero_add] at this
  exact ⟨this.2 ▸ List.getElem_mem this.1, rfl⟩

theorem numberFrom_complete {s ty : Nat} {rows : List β} {row : β} (h : row ∈ rows) :
    ∃ e ∈ numberFrom s ty rows, e.val = row := by
  obtain ⟨k, hk, rfl⟩ := List.getElem_of_mem h
  refine ⟨⟨s + k + 1, ty, rows[k]⟩, ?_, rfl⟩
  unfold numberFrom
  refine List.mem_map.mpr ⟨(rows[k], k), ?_, rfl⟩
  rw [List.mem_zipIdx_iff_getElem?]
  simp [hk]

theorem mem_surfaceElems {tris quads : List (List Id)} {e : Ent (List Id)} (h : e ∈ (surfaceElems tris quads).flatten) :
    e.val ∈ tris ∨ e.val ∈ quads := by
  obtain ⟨b, hb, heb⟩ := List.mem_flatten.mp h
  unfold surfaceElems at hb
  have hb' := (List.mem_filter.mp hb).1
  simp only [List.mem_cons, List.not_mem_nil, or_false] at hb'
  rcases hb' with rfl | rfl
  · exact Or.inl (mem_numberFrom heb).1
  · exact Or.inr (mem_numberFrom heb).1

theorem surfaceElems_complete {tris quads : List (List Id)} {row : List Id} (h : row ∈ tris ∨ row ∈ quads) :
    ∃ e ∈ (surfaceElems tris quads).flatten, e.val = row := by
  have key : ∀ b ∈ [numberFrom 0 3 tris, numberFrom tris.length 5 quads], ∀ e ∈ b,
      e ∈ (surfaceElems tris quads).flatten := by
    intro b hb e he
    refine List.mem_flatten.mpr ⟨b, List.mem_filter.mpr ⟨hb, ?_⟩, he⟩
    cases b with
    | nil => simp at he
    | cons _ _ => rfl
  rcases h with h | h
  · obtain ⟨e, he, hv⟩ := numberFrom_complete (s := 0) (ty := 3) h
    exact ⟨e, key _ (by simp) e he, hv⟩
  · obtain ⟨e, he, hv⟩ := numberFrom_complete (s := tris.length) (ty := 5) h
    exact ⟨e, key _ (by simp) e he, hv⟩

/-- translating ids to positions and back gives the ids again (`nodes.ids[nodes.ids2indices(x)] = x`) -/
theorem gather_roundtrip {γ : Type} {f : ι → Option γ} {g : γ → Option ι} {l s : List ι} {r : List γ}
    (h1 : gather f l = some r) (h2 : gather g r = some s)
    (hfg : ∀ i a, f i = some a → ∀ j, g a = some j → j = i) : s = l := by
  induction l generalizing r s with
  | nil => simp [gather] at h1; subst h1; simp [gather] at h2; exact h2
  | cons i t ih =>
    simp only [gather] at h1
    split at h1
    · rename_i a r' hfi hgt
      cases h1
      simp only [gather] at h2
      split at h2
      · rename_i j s' hgj hgs
        cases h2
        rw [hfg i a hfi j hgj, ih hgt hgs]
      · cases h2
    · cases h1

theorem ids_roundtrip {ids : List Id} {rows st : List (List Id)} {pt : List (List Nat)}
    (h1 : gather (gather (idPos ids)) rows = some pt) (h2 : gather (gatherPos ids) pt = some st) : st = rows := by
  apply gather_roundtrip h1 h2
  intro row pr hrow row' hrow'
  apply gather_roundtrip hrow hrow'
  intro n k hk j hj
  obtain ⟨hkl, hki⟩ := idPos_some hk
  rw [List.getElem?_eq_getElem hkl, hki] at hj
  exact (Option.some.inj hj).symm

/-! ### once-only facets, facet level (added for `C09_surface_once_only`) -/

theorem insertFacet_perm (f : List Nat) (l : List (List Nat)) : (insertFacet f l).Perm (f :: l) := by
  induction l with
  | nil => simp [insertFacet]
  | cons g t ih =>
    simp only [insertFacet]
    split
    · exact (List.Perm.cons g ih).trans (List.Perm.swap f g t)
    · exact List.Perm.refl _

theorem sortFacets_perm (fs : List (List Nat)) : (sortFacets fs).Perm fs := by
  induction fs with
  | nil => simp [sortFacets]
  | cons f t ih =>
    have : sortFacets (f :: t) = insertFacet f (sortFacets t) := rfl
    rw [this]
    exact (insertFacet_perm f _).trans (List.Perm.cons f ih)

/-- the entries that occur exactly once in a list are pairwise distinct -/
theorem nodup_filter_count_one {κ : Type} [BEq κ] [LawfulBEq κ] (l : List κ) :
    (l.filter fun k => l.count k == 1).Nodup := by
  rw [List.nodup_iff_count_le_one]
  intro a
  by_cases ha : (l.count a == 1) = true
  · rw [List.count_filter (p := fun k => l.count k == 1) ha]; exact Nat.le_of_eq (by simpa using ha)
  · have : a ∉ l.filter fun k => l.count k == 1 := fun hm => ha (List.mem_filter.mp hm).2
    rw [List.count_eq_zero_of_not_mem this]; exact Nat.zero_le _

/-- the rows kept by `_extract_surface` have pairwise different vertex sets -/
theorem onceOnly_keys_nodup (fs : List (List Nat)) : ((onceOnly fs).map faceKey).Nodup := by
  have hperm : ((onceOnly fs).map faceKey).Perm
      ((fs.filter fun f => (fs.map faceKey).count (faceKey f) == 1).map faceKey) :=
    (sortFacets_perm _).map _
  rw [hperm.nodup_iff]
  have : (fs.filter fun f => (fs.map faceKey).count (faceKey f) == 1).map faceKey =
      (fs.map faceKey).filter fun k => (fs.map faceKey).count k == 1 := by
    rw [List.filter_map]; rfl
  rw [this]
  exact nodup_filter_count_one (fs.map faceKey)

theorem numberFrom_vals {s ty : Nat} (rows : List β) : (numberFrom s ty rows).map (·.val) = rows := by
  unfold numberFrom
  rw [List.map_map]
  have : ((fun e : Ent β => e.val) ∘ fun (p : β × Nat) => (⟨s + p.2 + 1, ty, p.1⟩ : Ent β)) = Prod.fst := rfl
  rw [this]
  exact List.zipIdx_map_fst _ _

/-- the payloads of the new surface elements, in element-id order: the triangle rows, then the quadrangle rows -/
theorem surfaceElems_vals (tris quads : List (List Id)) :
    (surfaceElems tris quads).flatten.map (·.val) = tris ++ quads := by
  have hflat : (surfaceElems tris quads).flatten = numberFrom 0 3 tris ++ numberFrom tris.length 5 quads := by
    unfold surfaceElems
    cases h1 : numberFrom 0 3 tris with
    | nil => cases h2 : numberFrom tris.length 5 quads <;> simp [List.filter]
    | cons a t => cases h2 : numberFrom tris.length 5 quads <;> simp [List.filter]
  rw [hflat, List.map_append, numberFrom_vals, numberFrom_vals]

/-- Horner keys with digits below the base determine the digits -/
theorem radixKey_aux {B : Nat} : ∀ (r s : List Nat) (k k' : Nat), r.length = s.length →
    (∀ x ∈ r, x < B) → (∀ x ∈ s, x < B) →
    r.foldl (fun k d => k * B + d) k = s.foldl (fun k d => k * B + d) k' → k = k' ∧ r = s
  | [], [], _, _, _, _, _, h => ⟨h, rfl⟩
  | x :: t, y :: u, k, k', hl, hr, hs, h => by
    simp only [List.foldl_cons] at h
    obtain ⟨hk, htu⟩ := radixKey_aux t u _ _ (by simpa using hl)
      (fun z hz => hr z (List.mem_cons_of_mem _ hz)) (fun z hz => hs z (List.mem_cons_of_mem _ hz)) h
    have hx := hr x (by simp)
    have hy := hs y (by simp)
    have hB : 0 < B := by omega
    have h1 : (B * k + x) / B = (B * k' + y) / B := by rw [Nat.mul_comm B k, Nat.mul_comm B k', hk]
    have h2 : (B * k + x) % B = (B * k' + y) % B := by rw [Nat.mul_comm B k, Nat.mul_comm B k', hk]
    rw [Nat.mul_add_div hB, Nat.mul_add_div hB, Nat.div_eq_of_lt hx, Nat.div_eq_of_lt hy] at h1
    rw [Nat.mul_add_mod, Nat.mul_add_mod, Nat.mod_eq_of_lt hx, Nat.mod_eq_of_lt hy] at h2
    exact ⟨by omega, by rw [h2, htu]⟩
  | [], _ :: _, _, _, hl, _, _, _ => by simp at hl
  | _ :: _, [], _, _, hl, _, _, _ => by simp at hl

end Femio.SubMesh
