import Femio.Model.Compress
import Femio.Lemmas.SurfaceProps
import Mathlib.Algebra.BigOperators.Group.List.Basic
import Mathlib.Algebra.BigOperators.Group.Finset.Basic
import Mathlib.Algebra.Order.Field.Rat
import Mathlib.Data.Rat.Defs
import Mathlib.Data.List.Range
import Mathlib.Tactic.Ring
import Mathlib.Tactic.FieldSimp
import Mathlib.Tactic.Linarith
import Mathlib.Tactic.LinearCombination
import Mathlib.Tactic.SplitIfs
import Mathlib.Data.List.Rotate
import Femio.Model.Geom

/-! Helper lemmas for property C20 (mesh_compressor). -/
namespace Femio.C20
open Faces

/-! ### checker -/
theorem nodupB_iff (f : Face) : nodupB f = true ↔ f.Nodup := by
  induction f with
  | nil => simp [nodupB]
  | cons a t ih => simp [nodupB, ih, List.nodup_cons]

/-! ### sums -/
theorem sumL_eq_sum (l : List Rat) : sumL l = l.sum := by
  induction l with
  | nil => rfl
  | cons a t ih => simp only [sumL, List.foldr_cons, List.sum_cons] at ih ⊢; rw [ih]

theorem sum_map_const (r : List Nat) (c : Rat) : (r.map fun _ => c).sum = (r.length : Rat) * c := by
  induction r with
  | nil => simp
  | cons a t ih => simp only [List.map_cons, List.sum_cons, ih, List.length_cons]; push_cast; ring

/-- a duplicate-free list of indices `< n` summed directly = indicator sum over `range n` -/
theorem sum_nodup_eq_range (r : List Nat) (n : Nat) (g : Nat → Rat) (hn : r.Nodup) (hlt : ∀ j ∈ r, j < n) :
    (r.map g).sum = ((List.range n).map fun j => if r.contains j then g j else 0).sum := by
  have hr : (List.range n).toFinset = Finset.range n := by ext; simp
  rw [← List.sum_toFinset g hn, ← List.sum_toFinset _ (List.nodup_range), hr]
  rw [← Finset.sum_filter]
  apply Finset.sum_congr _ (fun _ _ => rfl)
  ext j
  simp only [List.mem_toFinset, Finset.mem_filter, Finset.mem_range, List.contains_iff_mem]
  exact ⟨fun h => ⟨hlt j h, h⟩, fun h => h.2⟩

theorem sum_rows_eq (rows : List (List Nat)) (n : Nat) (g : Nat → Rat)
    (hn : ∀ r ∈ rows, r.Nodup) (hlt : ∀ r ∈ rows, ∀ j ∈ r, j < n) :
    (rows.map fun r => (r.map g).sum).sum
      = ((List.range n).map fun j => ((rows.filter fun r => r.contains j).length : Rat) * g j).sum := by
  induction rows with
  | nil => simp
  | cons r t ih =>
    rw [List.map_cons, List.sum_cons, ih (fun r hr => hn r (List.mem_cons_of_mem _ hr))
      (fun r hr => hlt r (List.mem_cons_of_mem _ hr)),
      sum_nodup_eq_range r n g (hn r List.mem_cons_self) (hlt r List.mem_cons_self), ← List.sum_map_add]
    congr 1
    apply List.map_congr_left
    intro j _
    by_cases h : j ∈ r
    · simp only [List.contains_iff_mem, h, if_true, List.filter_cons, List.length_cons]; push_cast; ring
    · simp [h]

/-! ### transpose -/
theorem mem_transpose_rows (m : Mat) (r : List Nat) (h : r ∈ m.transpose.rows) :
    ∃ j, j < m.ncols ∧ r = (List.range m.rows.length).filter fun i => (m.rows.getD i []).contains j := by
  simp only [Mat.transpose, List.mem_map, List.mem_range] at h
  obtain ⟨j, hj, rfl⟩ := h
  exact ⟨j, hj, rfl⟩

theorem transpose_rows_nodup (m : Mat) : ∀ r ∈ m.transpose.rows, r.Nodup := by
  intro r h
  obtain ⟨j, _, rfl⟩ := mem_transpose_rows m r h
  exact List.Nodup.filter _ List.nodup_range

theorem transpose_rows_lt (m : Mat) : ∀ r ∈ m.transpose.rows, ∀ i ∈ r, i < m.transpose.ncols := by
  intro r h i hi
  obtain ⟨j, _, rfl⟩ := mem_transpose_rows m r h
  simp only [List.mem_filter, List.mem_range] at hi
  exact hi.1

theorem colCount_pos_iff (m : Mat) (j : Nat) : 0 < colCount m j ↔ ∃ r ∈ m.rows, j ∈ r := by
  simp [colCount, List.length_pos_iff_exists_mem, List.mem_filter]

theorem transpose_colCount_pos (m : Mat) (i : Nat) (hi : i < m.rows.length) (j : Nat) (hj : j < m.ncols)
    (hmem : j ∈ m.rows[i]) : 0 < colCount m.transpose i := by
  rw [colCount_pos_iff]
  refine ⟨(List.range m.rows.length).filter fun i => (m.rows.getD i []).contains j, ?_, ?_⟩
  · simp only [Mat.transpose, List.mem_map, List.mem_range]
    exact ⟨j, hj, rfl⟩
  · simp only [List.mem_filter, List.mem_range, List.contains_iff_mem]
    refine ⟨hi, ?_⟩
    simpa [List.getD_eq_getElem?_getD, hi] using hmem

theorem transpose_rows_ne_nil (m : Mat) (h : ∀ j < m.ncols, ∃ r ∈ m.rows, j ∈ r) :
    ∀ r ∈ m.transpose.rows, r ≠ [] := by
  intro r hr
  obtain ⟨j, hj, rfl⟩ := mem_transpose_rows m r hr
  obtain ⟨r0, hr0, hj0⟩ := h j hj
  obtain ⟨i, hi, rfl⟩ := List.getElem_of_mem hr0
  apply List.ne_nil_of_mem (a := i)
  simp only [List.mem_filter, List.mem_range, List.contains_iff_mem]
  refine ⟨hi, ?_⟩
  simpa [List.getD_eq_getElem?_getD, hi] using hj0

/-- model of the nodal conversion matrix: rows = compressed nodes `i < M`, columns = original nodes `v`,
    entry 1 iff `i ∈ nbd[v]` (`calculate_nodal_knn` after dropping the `-1` entries) -/
def matOfNbd (M : Nat) (nbd : List (List Nat)) : Mat :=
  ⟨nbd.length, (List.range M).map fun i => (List.range nbd.length).filter fun v => (nbd.getD v []).contains i⟩

theorem matOfNbd_eq_transpose (M : Nat) (nbd : List (List Nat)) : matOfNbd M nbd = (Mat.mk M nbd).transpose := rfl

/-! ### reindex -/
theorem newId_spec (l : List Nat) (v : Nat) (hv : v ∈ l) :
    ∃ h : (l.idxOf? v).getD 0 < l.length, l[(l.idxOf? v).getD 0] = v := by
  cases hi : l.idxOf? v with
  | none => exact absurd hv (List.idxOf?_eq_none_iff.mp hi)
  | some i =>
    obtain ⟨h, hv', _⟩ := List.idxOf?_eq_some_iff.mp hi
    exact ⟨h, hv'⟩

theorem newId_getElem (l : List Nat) (hn : l.Nodup) (k : Nat) (hk : k < l.length) :
    (l.idxOf? l[k]).getD 0 = k := by
  have : l.idxOf? l[k] = some k := by
    rw [List.idxOf?_eq_some_iff]
    refine ⟨hk, rfl, fun j hj h => ?_⟩
    have := (hn.getElem_inj_iff (hi := by omega) (hj := hk)).mp h
    omega
  rw [this]; rfl

theorem reindex_kept (cells : List Cell) (conv : List Nat) :
    (reindex cells conv).kept = (List.range conv.length).filter fun v => cells.flatten.flatten.contains v := rfl

theorem reindex_cells (cells : List Cell) (conv : List Nat) :
    (reindex cells conv).cells
      = cells.map fun c => c.map fun f => f.map fun v => (((reindex cells conv).kept).idxOf? v).getD 0 := rfl

theorem mem_flat_map3 (cells : List Cell) (g : Nat → Nat) (k : Nat) :
    k ∈ (cells.map fun c => c.map fun f => f.map g).flatten.flatten ↔ ∃ v ∈ cells.flatten.flatten, g v = k := by
  simp only [List.mem_flatten, List.mem_map]
  constructor
  · rintro ⟨f', ⟨c', ⟨c, hc, rfl⟩, hf'⟩, hk⟩
    obtain ⟨f, hf, rfl⟩ := List.mem_map.mp hf'
    obtain ⟨v, hv, rfl⟩ := List.mem_map.mp hk
    exact ⟨v, ⟨f, ⟨c, hc, hf⟩, hv⟩, rfl⟩
  · rintro ⟨v, ⟨f, ⟨c, hc, hf⟩, hv⟩, rfl⟩
    exact ⟨f.map g, ⟨c.map (fun f => f.map g), ⟨c, hc, rfl⟩, List.mem_map.mpr ⟨f, hf, rfl⟩⟩, List.mem_map.mpr ⟨v, hv, rfl⟩⟩


/-! ### merge_polyhedrons -/
theorem getC_setC (t : Tbl) (k k' : Face) (c : Nat) :
    getC (setC t k c) k' = if k = k' then c else getC t k' := by
  induction t with
  | nil => simp [setC, getC]
  | cons p t ih =>
    obtain ⟨k0, c0⟩ := p
    simp only [setC]
    split
    · subst_vars; simp only [getC]; split <;> simp_all
    · rename_i h
      simp only [getC, ih]
      by_cases h1 : k0 = k'
      · subst h1
        have : ¬ k = k0 := fun e => h e.symm
        simp [this]
      · simp [h1]

/-- number of faces of the list in the `canon`-class `k` -/
def cntK (fs : List Face) (k : Face) : Nat := fs.countP fun g => decide (canon g = k)

theorem getC_countFold (fs : List Face) (T : Tbl) (k : Face) :
    getC (fs.foldl (fun t f => setC t (canon f) (getC t (canon f) + 1)) T) k = getC T k + cntK fs k := by
  induction fs generalizing T with
  | nil => simp [cntK]
  | cons f t ih =>
    rw [List.foldl_cons, ih, getC_setC]
    by_cases h : canon f = k
    · subst h; simp [cntK]; omega
    · simp [cntK, h]

theorem getC_countTbl (fs : List Face) (k : Face) : getC (countTbl fs) k = cntK fs k := by
  unfold countTbl; rw [getC_countFold]; simp [getC]

/-- potential: the last face of every `canon`-class carries the surplus of its class over the reversed class -/
def psi (φ : Face → ℤ) (N : Face → Nat) : List Face → ℤ
  | [] => 0
  | f :: t => (if t.any (fun g => decide (canon g = canon f)) then 0
      else ((N (canon f) - N (canon f.reverse) : Nat) : ℤ) * φ f) + psi φ N t

/-- effect on the potential of changing the table at one key `x` (reverse key `y`) -/
theorem psi_update (φ : Face → ℤ) (N N' : Face → Nat) (x y : Face) (v : Nat) (φf : ℤ)
    (hx : N' x = v) (hne : ∀ k, k ≠ x → N' k = N k) (hxy : x = y → φf = 0) (s : List Face)
    (h1 : ∀ g ∈ s, canon g = x → canon g.reverse = y ∧ φ g = φf)
    (h2 : ∀ g ∈ s, canon g.reverse = x → canon g = y)
    (h3 : ∀ g ∈ s, canon g = y → canon g.reverse = x ∧ φ g = -φf) :
    psi φ N' s = psi φ N s
      + (if s.any (fun g => decide (canon g = x)) then (((v - N y : ℕ) : ℤ) - ((N x - N y : ℕ) : ℤ)) * φf else 0)
      + (if s.any (fun g => decide (canon g = y)) then (((N y - v : ℕ) : ℤ) - ((N y - N x : ℕ) : ℤ)) * (-φf) else 0) := by
  induction s with
  | nil => simp [psi]
  | cons g s ih =>
    have ih' := ih (fun g hg => h1 g (List.mem_cons_of_mem _ hg)) (fun g hg => h2 g (List.mem_cons_of_mem _ hg))
      (fun g hg => h3 g (List.mem_cons_of_mem _ hg))
    have g1 := h1 g List.mem_cons_self
    have g2 := h2 g List.mem_cons_self
    have g3 := h3 g List.mem_cons_self
    have hany : ∀ k, ((g :: s).any fun g => decide (canon g = k)) = (decide (canon g = k) || s.any fun g => decide (canon g = k)) :=
      fun k => rfl
    rw [psi, psi, ih', hany x, hany y]
    by_cases hk : canon g = x
    · obtain ⟨hr, hφ⟩ := g1 hk
      subst hk hr hφ hx
      by_cases hxy' : canon g = canon g.reverse
      · have := hxy hxy'; simp [this]
      · have hy : N' (canon g.reverse) = N (canon g.reverse) := hne _ (fun h => hxy' h.symm)
        rw [hy]
        simp only [decide_true, Bool.true_or, if_true, hxy', decide_false, Bool.false_or]
        by_cases ha : (s.any fun g' => decide (canon g' = canon g)) = true
        · simp only [ha, if_true]; ring
        · simp only [ha]; simp only [Bool.false_eq_true, if_false]; ring
    · have hkN : N' (canon g) = N (canon g) := hne _ hk
      rw [hkN]
      by_cases hr : canon g.reverse = x
      · have hky := g2 hr
        obtain ⟨_, hφ⟩ := g3 hky
        have hxy' : ¬ y = x := fun h => hk (hky.trans h)
        subst hr hky hx
        rw [hφ]
        have hk' : ¬ canon g = canon g.reverse := hk
        simp only [decide_true, Bool.true_or, if_true, hk', decide_false, Bool.false_or]
        by_cases ha : (s.any fun g' => decide (canon g' = canon g)) = true
        · simp only [ha, if_true]; ring
        · simp only [ha]; simp only [Bool.false_eq_true, if_false]; ring
      · have hrN : N' (canon g.reverse) = N (canon g.reverse) := hne _ hr
        have hky : ¬ canon g = y := fun h => hr (g3 h).1
        rw [hrN]
        simp only [hk, hky, decide_false, Bool.false_or]
        ring

/-- the consistency the face list must satisfy: `canon`-classes have a well defined reversed class, reversal is an
involution on the classes present, and the weight is a class function that is odd under reversal -/
def MergeOK (φ : Face → ℤ) (fs : List Face) : Prop :=
  (∀ f ∈ fs, ∀ g ∈ fs, canon f = canon g → canon f.reverse = canon g.reverse ∧ φ f = φ g) ∧
  (∀ f ∈ fs, ∀ g ∈ fs, canon f.reverse = canon g → canon g.reverse = canon f ∧ φ g = -φ f)

theorem MergeOK.tail {φ : Face → ℤ} {f : Face} {t : List Face} (h : MergeOK φ (f :: t)) : MergeOK φ t :=
  ⟨fun a ha b hb => h.1 a (List.mem_cons_of_mem _ ha) b (List.mem_cons_of_mem _ hb),
   fun a ha b hb => h.2 a (List.mem_cons_of_mem _ ha) b (List.mem_cons_of_mem _ hb)⟩

theorem MergeOK.head {φ : Face → ℤ} {f : Face} {t : List Face} (h : MergeOK φ (f :: t)) :
    (canon f = canon f.reverse → φ f = 0) ∧
    (∀ g ∈ t, canon g = canon f → canon g.reverse = canon f.reverse ∧ φ g = φ f) ∧
    (∀ g ∈ t, canon g.reverse = canon f → canon g = canon f.reverse) ∧
    (∀ g ∈ t, canon g = canon f.reverse → canon g.reverse = canon f ∧ φ g = -φ f) := by
  have hf : f ∈ f :: t := List.mem_cons_self
  refine ⟨fun e => ?_, fun g hg e => ?_, fun g hg e => ?_, fun g hg e => ?_⟩
  · have := (h.2 f hf f hf e.symm).2; omega
  · exact h.1 g (List.mem_cons_of_mem _ hg) f hf e
  · exact (h.2 g (List.mem_cons_of_mem _ hg) f hf e).1.symm
  · exact h.2 f hf g (List.mem_cons_of_mem _ hg) e.symm

theorem sum_replicate_map (φ : Face → ℤ) (n : Nat) (f : Face) :
    ((List.replicate n f).map φ).sum = (n : ℤ) * φ f := by
  simp

theorem mergeLoop_sum (φ : Face → ℤ) (fs : List Face) (T : Tbl) (h : MergeOK φ fs) :
    ((mergeLoop fs T).map φ).sum = psi φ (getC T) fs := by
  induction fs generalizing T with
  | nil => simp [mergeLoop, psi]
  | cons f t ih =>
    obtain ⟨h0, h1, h2, h3⟩ := h.head
    simp only [mergeLoop, psi]
    by_cases hlt : getC T (canon f.reverse) < getC T (canon f)
    · rw [if_pos hlt, List.map_append, List.sum_append, sum_replicate_map, ih _ h.tail]
      rw [psi_update φ (getC T) (getC (setC T (canon f) (getC T (canon f.reverse)))) (canon f) (canon f.reverse)
        (getC T (canon f.reverse)) (φ f) (by rw [getC_setC]; simp)
        (fun k hk => by rw [getC_setC]; simp [Ne.symm hk]) h0 t h1 h2 h3]
      have e1 : (((getC T (canon f.reverse) - getC T (canon f.reverse) : ℕ) : ℤ)) = 0 := by omega
      have e2 : (((getC T (canon f.reverse) - getC T (canon f) : ℕ) : ℤ)) = 0 := by omega
      rw [e1, e2]
      by_cases ha : (t.any fun g => decide (canon g = canon f)) = true
      · simp only [ha, if_true]; split <;> ring
      · simp only [ha]; simp only [Bool.false_eq_true, if_false]; split <;> ring
    · rw [if_neg hlt, ih _ h.tail]
      have e : getC T (canon f) - getC T (canon f.reverse) = 0 := by omega
      rw [e]; simp

theorem cntK_pos_iff (t : List Face) (k : Face) : 0 < cntK t k ↔ (t.any fun g => decide (canon g = k)) = true := by
  simp [cntK, List.countP_pos_iff]

theorem psi_cntK (φ : Face → ℤ) (fs : List Face) (h : MergeOK φ fs) : psi φ (cntK fs) fs = (fs.map φ).sum := by
  induction fs with
  | nil => simp [psi]
  | cons f t ih =>
    obtain ⟨h0, h1, h2, h3⟩ := h.head
    simp only [psi, List.map_cons, List.sum_cons]
    rw [psi_update φ (cntK t) (cntK (f :: t)) (canon f) (canon f.reverse) (cntK t (canon f) + 1) (φ f)
      (by simp [cntK]) (fun k hk => by simp [cntK, Ne.symm hk]) h0 t h1 h2 h3,
      ih h.tail]
    by_cases hxy : canon f = canon f.reverse
    · rw [h0 hxy]; simp
    · have hx : cntK (f :: t) (canon f) = cntK t (canon f) + 1 := by simp [cntK]
      have hy : cntK (f :: t) (canon f.reverse) = cntK t (canon f.reverse) := by
        simp [cntK, hxy]
      rw [hx, hy]
      have px := cntK_pos_iff t (canon f)
      have py := cntK_pos_iff t (canon f.reverse)
      generalize cntK t (canon f) = a at *
      generalize cntK t (canon f.reverse) = b at *
      by_cases ha : (t.any fun g => decide (canon g = canon f)) = true <;>
      by_cases hb : (t.any fun g => decide (canon g = canon f.reverse)) = true
      · simp only [ha, hb, if_true]
        have hC : (((a + 1 - b : ℕ) : ℤ) - ((a - b : ℕ) : ℤ)) - ((((b - (a + 1) : ℕ) : ℤ)) - ((b - a : ℕ) : ℤ)) = 1 := by
          omega
        linear_combination (φ f) * hC
      · have hb0 : b = 0 := by have := py.not.mpr hb; omega
        simp only [ha, hb, if_true]
        simp only [Bool.false_eq_true, if_false]
        have hC : (((a + 1 - b : ℕ) : ℤ) - ((a - b : ℕ) : ℤ)) = 1 := by omega
        linear_combination (φ f) * hC
      · have ha0 : a = 0 := by have := px.not.mpr ha; omega
        have hb1 : 0 < b := py.mpr hb
        simp only [ha, hb, if_true]
        simp only [Bool.false_eq_true, if_false]
        have hC : ((a + 1 - b : ℕ) : ℤ) - ((((b - (a + 1) : ℕ) : ℤ)) - ((b - a : ℕ) : ℤ)) = 1 := by omega
        linear_combination (φ f) * hC
      · have ha0 : a = 0 := by have := px.not.mpr ha; omega
        have hb0 : b = 0 := by have := py.not.mpr hb; omega
        simp only [ha, hb]
        simp only [Bool.false_eq_true, if_false]
        have hC : ((a + 1 - b : ℕ) : ℤ) = 1 := by omega
        linear_combination (φ f) * hC

theorem mergeCells_sum (φ : Face → ℤ) (cells : List Cell) (h : MergeOK φ cells.flatten) :
    ((mergeCells cells).map φ).sum = (cells.flatten.map φ).sum := by
  unfold mergeCells
  rw [mergeLoop_sum φ _ _ h]
  have : getC (countTbl cells.flatten) = cntK cells.flatten := funext (getC_countTbl _)
  rw [this, psi_cntK φ _ h]


theorem bal_flatten (cells : List Cell) (h : ∀ c ∈ cells, Bal (edgesOf c)) : Bal (edgesOf cells.flatten) := by
  induction cells with
  | nil => intro e; simp [edgesOf]
  | cons c t ih =>
    intro e
    have h1 := h c List.mem_cons_self e
    have h2 := ih (fun c hc => h c (List.mem_cons_of_mem _ hc)) e
    simp only [edgesOf, List.flatten_cons, List.flatMap_append, List.count_append] at h1 h2 ⊢
    omega

/-! ### edge weights under rotation, reversal and `canon` -/

theorem dirEdges_eq_zip_rotate (f : Face) : dirEdges f = f.zip (f.rotate 1) := by
  cases f with
  | nil => simp [dirEdges]
  | cons a t => simp [dirEdges, List.rotate_cons_succ]

theorem dirEdges_rotate_perm (f : Face) (k : Nat) : (dirEdges (f.rotate k)).Perm (dirEdges f) := by
  rw [dirEdges_eq_zip_rotate, dirEdges_eq_zip_rotate, List.rotate_rotate, Nat.add_comm,
    ← List.rotate_rotate, List.zip, ← List.zipWith_rotate_distrib _ _ _ _ (by simp)]
  exact List.rotate_perm _ _

theorem map_swap_zip (l₁ l₂ : List Nat) : (l₁.zip l₂).map Prod.swap = l₂.zip l₁ := by
  induction l₁ generalizing l₂ with
  | nil => cases l₂ <;> simp
  | cons a t ih => cases l₂ <;> simp [ih]

theorem dirEdges_reverse_perm (f : Face) : (dirEdges f.reverse).Perm ((dirEdges f).map Prod.swap) := by
  cases f with
  | nil => simp [dirEdges]
  | cons a t =>
    have h1 : (a :: t).reverse = (a :: t.reverse).rotate 1 := by
      simp [List.rotate_cons_succ]
    rw [h1]
    refine (dirEdges_rotate_perm _ 1).trans ?_
    have h2 : dirEdges (a :: t.reverse) = ((dirEdges (a :: t)).map Prod.swap).reverse := by
      simp only [dirEdges, map_swap_zip]
      rw [List.zip_eq_zipWith, List.zip_eq_zipWith, List.reverse_zipWith (by simp)]
      simp
    rw [h2]
    exact List.reverse_perm _

theorem count_map_swap (l : List (Nat × Nat)) (e : Nat × Nat) :
    (l.map Prod.swap).count e = l.count (e.2, e.1) := by
  induction l with
  | nil => simp
  | cons x t ih =>
    obtain ⟨a, b⟩ := x
    obtain ⟨c, d⟩ := e
    simp only [List.map_cons, List.count_cons, ih, Prod.swap_prod_mk, beq_iff_eq, Prod.mk.injEq]
    congr 1
    by_cases h : b = c ∧ a = d
    · rw [if_pos h, if_pos ⟨h.2, h.1⟩]
    · rw [if_neg h, if_neg (fun h' => h ⟨h'.2, h'.1⟩)]

theorem wt_rotate (e : Nat × Nat) (f : Face) (k : Nat) : wt e (f.rotate k) = wt e f := by
  unfold wt
  rw [(dirEdges_rotate_perm f k).count_eq, (dirEdges_rotate_perm f k).count_eq]

theorem wt_reverse (e : Nat × Nat) (f : Face) : wt e f.reverse = - wt e f := by
  unfold wt
  rw [(dirEdges_reverse_perm f).count_eq, (dirEdges_reverse_perm f).count_eq,
    count_map_swap, count_map_swap]
  simp

theorem argMin_lt (f : Face) (hf : f ≠ []) : argMin f < f.length := by
  induction f with
  | nil => exact absurd rfl hf
  | cons a t ih =>
    unfold argMin
    split
    · simp
    · rename_i h
      have ht : t ≠ [] := by
        rintro rfl
        simp at h
      have := ih ht
      simp only [List.length_cons]
      omega

theorem canon_eq_rotate_reverse (f : Face) : ∃ k, canon f = f.reverse.rotate k := by
  by_cases hf : f = []
  · subst hf
    exact ⟨0, by simp [canon]⟩
  have h0 := argMin_lt f hf
  refine ⟨f.length - 1 - argMin f, ?_⟩
  apply List.ext_getElem
  · simp [canon]
  intro i h1 h2
  have hi : i < f.length := by simpa [canon] using h1
  have hmod : (argMin f + f.length - i) % f.length
      = f.length - 1 - (i + (f.length - 1 - argMin f)) % f.length := by
    by_cases hc : i ≤ argMin f
    · have e1 : argMin f + f.length - i = (argMin f - i) + f.length := by omega
      rw [e1, Nat.add_mod_right, Nat.mod_eq_of_lt (by omega), Nat.mod_eq_of_lt (by omega)]
      omega
    · have e2 : i + (f.length - 1 - argMin f) = (i - 1 - argMin f) + f.length := by omega
      rw [e2, Nat.add_mod_right, Nat.mod_eq_of_lt (by omega), Nat.mod_eq_of_lt (by omega)]
      omega
  have hlt : (argMin f + f.length - i) % f.length < f.length := Nat.mod_lt _ (by omega)
  simp only [canon, List.getElem_map, List.getElem_range, List.getElem_rotate,
    List.getElem_reverse, List.length_reverse]
  rw [List.getD_eq_getElem?_getD, List.getElem?_eq_getElem hlt, Option.getD_some]
  congr 1

theorem wt_canon (e : Nat × Nat) (f : Face) : wt e (canon f) = - wt e f := by
  obtain ⟨k, hk⟩ := canon_eq_rotate_reverse f
  rw [hk, wt_rotate, wt_reverse]

theorem wt_canon_class (e : Nat × Nat) (f g : Face) (h : canon f = canon g) : wt e f = wt e g := by
  have hf := wt_canon e f
  have hg := wt_canon e g
  rw [h] at hf
  omega


/-! ### mergeAlong: edges and flux -/

/-! ### directed edges of a path -/
/-- consecutive pairs of a list -/
def pathEdges : List Nat → List (Nat × Nat)
  | a :: b :: t => (a, b) :: pathEdges (b :: t)
  | _ => []

theorem zip_eq_pathEdges (a : Nat) (t : List Nat) (x : Nat) :
    (a :: t).zip (t ++ [x]) = pathEdges (a :: t ++ [x]) := by
  induction t generalizing a with
  | nil => simp [pathEdges]
  | cons b t ih =>
    have := ih b
    simp only [List.cons_append] at this ⊢
    rw [List.zip_cons_cons, this, pathEdges]

theorem dirEdges_eq_pathEdges (a : Nat) (t : List Nat) : dirEdges (a :: t) = pathEdges (a :: t ++ [a]) := by
  rw [dirEdges]; exact zip_eq_pathEdges a t a

theorem pathEdges_split (l : List Nat) (x : Nat) (r : List Nat) :
    pathEdges (l ++ x :: r) = pathEdges (l ++ [x]) ++ pathEdges (x :: r) := by
  induction l with
  | nil => simp [pathEdges]
  | cons a l ih =>
    cases l with
    | nil => simp [pathEdges]
    | cons b l =>
      simp only [List.cons_append] at ih ⊢
      rw [pathEdges, ih, pathEdges, List.cons_append]

theorem dirEdges_mergeAlong (A B : Nat) (p q : List Nat) :
    dirEdges (mergeAlong A B p q) = pathEdges (B :: p ++ [A]) ++ pathEdges (A :: q ++ [B]) := by
  show dirEdges (B :: (p ++ A :: q)) = _
  rw [dirEdges_eq_pathEdges]
  have : B :: (p ++ A :: q) ++ [B] = (B :: p) ++ A :: (q ++ [B]) := by simp
  rw [this, pathEdges_split]
  rfl

theorem dirEdges_cons_cons (A B : Nat) (p : List Nat) :
    dirEdges (A :: B :: p) = (A, B) :: pathEdges (B :: p ++ [A]) := by
  rw [dirEdges_eq_pathEdges]; rfl

/-- (1) the merged face has the edges of the two faces minus the shared pair -/
theorem edge_merge_perm (A B : Nat) (p q : List Nat) :
    (dirEdges (mergeAlong A B p q) ++ [(A,B),(B,A)]).Perm (dirEdges (A :: B :: p) ++ dirEdges (B :: A :: q)) := by
  rw [dirEdges_mergeAlong, dirEdges_cons_cons, dirEdges_cons_cons]
  rw [List.perm_iff_count]
  intro e
  simp only [List.count_append, List.count_cons, List.count_nil]
  omega

theorem pair_bal (A B : Nat) (e : Nat × Nat) :
    [(A,B),(B,A)].count e = [(A,B),(B,A)].count (e.2, e.1) := by
  obtain ⟨a, b⟩ := e
  simp only [List.count_cons, List.count_nil, beq_iff_eq, Prod.mk.injEq]
  split_ifs <;> omega

/-- (2) merging two faces along a shared edge keeps the cell edge-balanced -/
theorem edge_merge_bal (A B : Nat) (p q : List Nat) (rest : List Face)
    (h : Bal (edgesOf (rest ++ [A :: B :: p, B :: A :: q]))) :
    Bal (edgesOf (rest ++ [mergeAlong A B p q])) := by
  intro e
  have hc := fun e' => (edge_merge_perm A B p q).count_eq e'
  have h1 := h e
  have hp := pair_bal A B e
  have e1 := hc e
  have e2 := hc (e.2, e.1)
  simp only [edgesOf, List.flatMap_append, List.flatMap_cons, List.flatMap_nil, List.append_nil,
    List.count_append] at h1 e1 e2 ⊢
  omega

/-! ### fan flux of a planar polygon -/
section Flux
open V3
variable {R : Type} [CommRing R]

/-- `Σ_{i ≥ 1} det p0 l[i-1] l[i]` -/
def fanAux (p0 : V3 R) : List (V3 R) → R
  | a :: b :: t => det p0 a b + fanAux p0 (b :: t)
  | _ => 0

/-- `Σ_{i ≥ 2} det P[0] P[i-1] P[i]`: six times the flux of `x/3` through the fan triangulation of `P` -/
def fanFlux : List (V3 R) → R
  | [] => 0
  | p0 :: rest => fanAux p0 rest

/-- `Σ cross a b` over the cyclic consecutive pairs `(a, b)` of `P`: twice the area vector -/
def cycArea2 : List (V3 R) → V3 R
  | [] => ⟨0, 0, 0⟩
  | p0 :: t => (((p0 :: t).zip (t ++ [p0])).map fun e => cross e.1 e.2).foldr (· + ·) ⟨0, 0, 0⟩

/-- `Σ cross a b` over the consecutive pairs of a path -/
def pathCross : List (V3 R) → V3 R
  | a :: b :: t => cross a b + pathCross (b :: t)
  | _ => ⟨0, 0, 0⟩

theorem zip_eq_pathCross (a : V3 R) (t : List (V3 R)) (x : V3 R) :
    (((a :: t).zip (t ++ [x])).map fun e => cross e.1 e.2).foldr (· + ·) ⟨0, 0, 0⟩
      = pathCross (a :: t ++ [x]) := by
  induction t generalizing a with
  | nil => simp [pathCross]
  | cons b t ih =>
    have := ih b
    simp only [List.cons_append] at this ⊢
    rw [List.zip_cons_cons, List.map_cons, List.foldr_cons, this, pathCross]

theorem cycArea2_cons (p0 : V3 R) (t : List (V3 R)) : cycArea2 (p0 :: t) = pathCross (p0 :: t ++ [p0]) := by
  rw [cycArea2]; exact zip_eq_pathCross p0 t p0

theorem dot_add (v a b : V3 R) : dot v (a + b) = dot v a + dot v b := by
  show dot v (V3.add a b) = _
  simp only [dot, V3.add]; ring

theorem sub_dot (v w n : V3 R) : dot (v - w) n = dot v n - dot w n := by
  show dot (V3.sub v w) n = _
  simp only [dot, V3.sub]; ring

theorem dot_zero (v : V3 R) : dot v (⟨0, 0, 0⟩ : V3 R) = 0 := by
  simp only [dot]; ring

theorem det_eq_dot_cross (p a b : V3 R) : det p a b = dot p (cross a b) := by
  simp only [det, dot, cross]; ring

theorem dot_cross_self_left (p a : V3 R) : dot p (cross p a) = 0 := by
  simp only [dot, cross]; ring

theorem dot_cross_self_right (p a : V3 R) : dot p (cross a p) = 0 := by
  simp only [dot, cross]; ring

theorem dot_cross_swap (v a b : V3 R) : dot v (cross a b) + dot v (cross b a) = 0 := by
  simp only [dot, cross]; ring

theorem dot_pathCross_split (v : V3 R) (l : List (V3 R)) (x : V3 R) (r : List (V3 R)) :
    dot v (pathCross (l ++ x :: r)) = dot v (pathCross (l ++ [x])) + dot v (pathCross (x :: r)) := by
  induction l with
  | nil => simp [pathCross, dot_zero]
  | cons a l ih =>
    cases l with
    | nil => simp [pathCross, dot_add, dot_zero]
    | cons b l =>
      simp only [List.cons_append] at ih ⊢
      rw [pathCross, dot_add, ih, pathCross, dot_add, add_assoc]

theorem fanAux_eq (p0 : V3 R) (l : List (V3 R)) : fanAux p0 l = dot p0 (pathCross l) := by
  induction l with
  | nil => simp [fanAux, pathCross, dot_zero]
  | cons a l ih =>
    cases l with
    | nil => simp [fanAux, pathCross, dot_zero]
    | cons b l => rw [fanAux, pathCross, dot_add, ih, det_eq_dot_cross]

theorem dot_pathCross_snoc (x : V3 R) (l : List (V3 R)) :
    dot x (pathCross (l ++ [x])) = dot x (pathCross l) := by
  induction l with
  | nil => simp [pathCross]
  | cons a l ih =>
    cases l with
    | nil => simp [pathCross, dot_add, dot_zero, dot_cross_self_right]
    | cons b l =>
      simp only [List.cons_append] at ih ⊢
      rw [pathCross, dot_add, ih, pathCross, dot_add]

/-- the fan flux is the base point dotted with twice the area vector -/
theorem fanFlux_eq_dot (p0 : V3 R) (t : List (V3 R)) : fanFlux (p0 :: t) = dot p0 (cycArea2 (p0 :: t)) := by
  rw [fanFlux, cycArea2_cons, fanAux_eq, dot_pathCross_snoc]
  cases t with
  | nil => simp [pathCross]
  | cons a t => rw [pathCross, dot_add, dot_cross_self_left, zero_add]

/-- twice the area vector of the merged face is the sum of those of the two faces (tested against any `v`) -/
theorem dot_cycArea2_merge (v A B : V3 R) (p q : List (V3 R)) :
    dot v (cycArea2 (B :: p ++ A :: q)) = dot v (cycArea2 (A :: B :: p)) + dot v (cycArea2 (B :: A :: q)) := by
  show dot v (cycArea2 (B :: (p ++ A :: q))) = _
  rw [cycArea2_cons, cycArea2_cons, cycArea2_cons]
  have h : B :: (p ++ A :: q) ++ [B] = (B :: p) ++ A :: (q ++ [B]) := by simp
  rw [h, dot_pathCross_split]
  simp only [List.cons_append]
  rw [pathCross, pathCross, dot_add, dot_add]
  linear_combination (-1 : R) * dot_cross_swap v A B

/-- (3), minimal hypothesis: only `A - B ⟂ area vector of the first face` is needed -/
theorem fanFlux_merge_of_edge (A B : V3 R) (p q : List (V3 R))
    (hAB : dot (A - B) (cycArea2 (A :: B :: p)) = 0) :
    fanFlux (B :: p ++ A :: q) = fanFlux (A :: B :: p) + fanFlux (B :: A :: q) := by
  rw [sub_dot] at hAB
  show fanFlux (B :: (p ++ A :: q)) = _
  rw [fanFlux_eq_dot, fanFlux_eq_dot, fanFlux_eq_dot]
  have := dot_cycArea2_merge B A B p q
  simp only [List.cons_append] at this
  rw [this]
  linear_combination (-1 : R) * hAB

/-- (3) the fan flux of the merged face is the sum of the fan fluxes of the two (coplanar) faces -/
theorem fanFlux_merge (A B : V3 R) (p q : List (V3 R))
    (hcop : ∀ v ∈ A :: B :: p ++ q, ∀ w ∈ A :: B :: p ++ q,
      dot (v - w) (cycArea2 (A :: B :: p)) = 0 ∧ dot (v - w) (cycArea2 (B :: A :: q)) = 0) :
    fanFlux (B :: p ++ A :: q) = fanFlux (A :: B :: p) + fanFlux (B :: A :: q) :=
  fanFlux_merge_of_edge A B p q (hcop A (by simp) B (by simp)).1

end Flux


end Femio.C20
