import Femio.Lemmas.C20Flux
import Femio.Lemmas.C20Pipeline

/-! C20 — conservation of the total flux (6 × volume) by the steps that merge no vertices, on cells whose faces
    are planar: `removeOneEdge` (two faces merged along an edge, coplanar by hypothesis), `remove_vertices_2`
    (no hypothesis beyond planar faces), `shrink` (the dropped cells are flat), and the final renumbering. -/
namespace Femio.C20
open Faces V3

section
variable {R : Type} [CommRing R]

theorem cellFlux_cons (pos : Nat → V3 R) (f : Face) (c : Cell) :
    cellFlux pos (f :: c) = faceFlux pos f + cellFlux pos c := by simp [cellFlux]

theorem cellFlux_append (pos : Nat → V3 R) (c1 c2 : Cell) :
    cellFlux pos (c1 ++ c2) = cellFlux pos c1 + cellFlux pos c2 := by simp [cellFlux]

theorem cellFlux_perm (pos : Nat → V3 R) {c1 c2 : Cell} (h : c1.Perm c2) : cellFlux pos c1 = cellFlux pos c2 :=
  (h.map _).sum_eq

/-! ### merging two faces along an edge -/

/-- the flux of the merged face is the sum of the two fluxes as soon as the first face is planar -/
theorem faceFlux_mergeAlong (pos : Nat → V3 R) (A B : Nat) (p q : List Nat) (h1 : Cop pos (A :: B :: p)) :
    faceFlux pos (mergeAlong A B p q) = faceFlux pos (A :: B :: p) + faceFlux pos (B :: A :: q) := by
  have hperm := edge_merge_perm A B p q
  have e := esum_perm (ωu pos (pos B)) hperm
  rw [esum_append, esum_append, esum_cons, esum_cons, esum_nil, ωu_anti pos (pos B) A B] at e
  have hg : faceFlux pos (mergeAlong A B p q) = esum (ωu pos (pos B)) (dirEdges (mergeAlong A B p q)) :=
    faceFlux_eq_esum pos B (p ++ A :: q)
  rw [hg, faceFlux_eq_esum_of_mem h1 (by simp : B ∈ A :: B :: p), faceFlux_eq_esum pos B (A :: q)]
  linear_combination e

theorem removeOneEdge_flux (pos : Nat → V3 R) {A B : Nat} {c c' : Cell} (hc : CellOK c)
    (hcop : ∀ f ∈ c, Cop pos f)
    (hmerge : ∀ f1 ∈ c, ∀ f2 ∈ c, hasE A B f1 = true → hasE B A f2 = true → Cop pos (f1 ++ f2))
    (h : removeOneEdge A B c = some c') :
    cellFlux pos c' = cellFlux pos c ∧ ∀ f ∈ c', Cop pos f := by
  unfold removeOneEdge at h
  split at h
  · cases h; exact ⟨rfl, hcop⟩
  · rename_i f1 f2 hf1 hf2
    split at h
    · rename_i x y p x' y' q hr1 hr2
      split at h
      · cases h
        obtain ⟨⟨t1, ht1⟩, hrot1⟩ := rotateTo_spec hr1
        obtain ⟨⟨t2, ht2⟩, hrot2⟩ := rotateTo_spec hr2
        have e1 : x = A ∧ y = B := by
          simp only [List.cons.injEq] at ht1; exact ⟨ht1.1, ht1.2.1⟩
        have e2 : x' = B ∧ y' = A := by
          simp only [List.cons.injEq] at ht2; exact ⟨ht2.1, ht2.2.1⟩
        rw [e1.1, e1.2] at hrot1
        rw [e2.1, e2.2] at hrot2
        clear ht1 ht2 hr1 hr2 e1 e2 t1 t2
        have hm1 : f1 ∈ c ∧ hasE A B f1 = true := by
          have : f1 ∈ c.filter (hasE A B) := by rw [hf1]; simp
          simpa [List.mem_filter] using this
        have hm2 : f2 ∈ c ∧ hasE B A f2 = true := by
          have : f2 ∈ c.filter (hasE B A) := by rw [hf2]; simp
          simpa [List.mem_filter] using this
        set rest := c.filter fun f => !hasE A B f && !hasE B A f with hrest
        have hperm : c.Perm (rest ++ [f1, f2]) := by
          have := filter3_perm c (hasE A B) (hasE B A) (fun f hf ⟨h1, h2⟩ =>
            not_both_dirs (hc.2 f hf) ((hasE_iff _ _ _).mp h1) ((hasE_iff _ _ _).mp h2))
          rw [hf1, hf2] at this
          exact this
        have hc12 : Cop pos (f1 ++ f2) := hmerge f1 hm1.1 f2 hm2.1 hm1.2 hm2.2
        have hcg : Cop pos (mergeAlong A B p q) := by
          apply cop_of_sub hc12
          intro v hv
          have hv' : v ∈ B :: (p ++ A :: q) := hv
          rw [List.mem_append]
          rcases List.mem_cons.mp hv' with h | h
          · exact Or.inl (hrot1.perm.mem_iff.mpr (by rw [h]; simp))
          · rcases List.mem_append.mp h with h | h
            · exact Or.inl (hrot1.perm.mem_iff.mpr (by simp [h]))
            · rcases List.mem_cons.mp h with h | h
              · exact Or.inl (hrot1.perm.mem_iff.mpr (by rw [h]; simp))
              · exact Or.inr (hrot2.perm.mem_iff.mpr (by simp [h]))
        have hrotg := rotMin_isRotated (mergeAlong A B p q)
        constructor
        · rw [cellFlux_perm pos hperm, cellFlux_append, cellFlux_append, cellFlux_cons, cellFlux_cons, cellFlux_cons]
          rw [← faceFlux_rot hcg hrotg, faceFlux_mergeAlong pos A B p q (cop_rot (hcop f1 hm1.1) hrot1),
            ← faceFlux_rot (hcop f1 hm1.1) hrot1, ← faceFlux_rot (hcop f2 hm2.1) hrot2]
          simp [cellFlux]
        · intro f hf
          rcases List.mem_append.mp hf with hf | hf
          · exact hcop f (List.mem_filter.mp hf).1
          · have : f = rotMin (mergeAlong A B p q) := by simpa using hf
            rw [this]; exact cop_rot hcg hrotg
      · cases h
    · cases h
  · cases h

/-! ### removing a node with at most two neighbours -/

theorem faceFlux_rmF (pos : Nat → V3 R) {v : Nat} {f : Face} (hn : f.Nodup) (hcop : Cop pos f) :
    faceFlux pos (rmF v f) = faceFlux pos f - br (fun x y => det (pos x) (pos v) (pos y)) v f := by
  by_cases hv : v ∈ f
  · obtain ⟨hvr, _, hrot⟩ := restOf_spec hn hv
    have hrf := rot_restOf hv
    cases hr : restOf v f with
    | nil =>
      rw [hr] at hrot hrf
      have e1 : rmF v f = [] := List.isRotated_nil_iff.mp hrot
      have e2 : f = [v] := List.isRotated_singleton_iff.mp hrf
      have hb : br (fun x y => det (pos x) (pos v) (pos y)) v f = 0 := by
        unfold br; rw [if_pos hv, hr]
      rw [e1, hb, e2]
      simp [faceFlux, fanFlux, fanAux]
    | cons h m =>
      rw [hr] at hrot hrf hvr
      have hb : br (fun x y => det (pos x) (pos v) (pos y)) v f = det (pos (lastOf h m)) (pos v) (pos h) := by
        unfold br; rw [if_pos hv, hr]
      have hh1 : h ∈ rmF v f := hrot.perm.mem_iff.mpr List.mem_cons_self
      have hh2 : h ∈ f := rmF_sub hh1
      have hcop' : Cop pos (rmF v f) := cop_of_sub hcop fun _ hx => rmF_sub hx
      rw [hb, faceFlux_eq_esum_of_mem hcop' hh1, faceFlux_eq_esum_of_mem hcop hh2,
        face_remove (ωu pos (pos h)) hn hv, hr]
      simp only [corr, ωu, det]
      ring
  · rw [rmF_of_not_mem hv]; simp [br, hv]

theorem rmV_flux (pos : Nat → V3 R) {v a b : Nat} {c : Cell} (hn : ∀ f ∈ c, f.Nodup) (hbal : Bal (edgesOf c))
    (hcop : ∀ f ∈ c, Cop pos f) (hnb : NbrIn (edgesOf c) v a b) :
    cellFlux pos (rmV v c) = cellFlux pos c := by
  have key : ∀ c' : Cell, (∀ f ∈ c', f.Nodup) → (∀ f ∈ c', Cop pos f) →
      cellFlux pos (rmV v c') = cellFlux pos c' - (c'.map (br (fun x y => det (pos x) (pos v) (pos y)) v)).sum := by
    intro c'
    induction c' with
    | nil => intro _ _; simp [rmV, cellFlux]
    | cons f t ih =>
      intro hn' hc'
      have := ih (fun g hg => hn' g (List.mem_cons_of_mem _ hg)) (fun g hg => hc' g (List.mem_cons_of_mem _ hg))
      simp only [rmV, List.map_cons, cellFlux_cons, List.sum_cons] at this ⊢
      rw [this, faceFlux_rmF pos (hn' f List.mem_cons_self) (hc' f List.mem_cons_self)]
      ring
  rw [key c hn hcop, bridge_sum (fun x y => det (pos x) (pos v) (pos y)) (fun x y => by simp only [det]; ring)
    (fun x => by simp only [det]; ring) hn hbal hnb]
  ring

theorem rmV_cop (pos : Nat → V3 R) {v : Nat} {c : Cell} (hcop : ∀ f ∈ c, Cop pos f) : ∀ f ∈ rmV v c, Cop pos f := by
  intro f hf
  obtain ⟨g, hg, rfl⟩ := List.mem_map.mp hf
  exact cop_of_sub (hcop g hg) fun _ hx => rmF_sub hx

theorem rmL_flux (pos : Nat → V3 R) (S : List Nat) : ∀ c : Cell, (∀ f ∈ c, f.Nodup) → Bal (edgesOf c) →
    (∀ f ∈ c, Cop pos f) → (∀ w ∈ S, ∃ a b, NbrIn (edgesOf c) w a b) →
    cellFlux pos (rmL S c) = cellFlux pos c ∧ ∀ f ∈ rmL S c, Cop pos f := by
  induction S with
  | nil => intro c _ _ hc _; exact ⟨rfl, hc⟩
  | cons v S ih =>
    intro c hn hb hc hnb
    obtain ⟨a', b', hv⟩ := hnb v List.mem_cons_self
    have : rmL (v :: S) c = rmL S (rmV v c) := rfl
    rw [this]
    obtain ⟨h1, h2⟩ := ih _ (rmV_nodup hn) (rmV_bal hn hb hv) (rmV_cop pos hc) (fun w hw => by
      obtain ⟨a, b, hwn⟩ := hnb w (List.mem_cons_of_mem _ hw)
      exact nbrIn_rmV hn hwn hv)
    exact ⟨h1.trans (rmV_flux pos hn hb hc hv), h2⟩

theorem cellFlux_drop_short (pos : Nat → V3 R) (c : Cell) :
    cellFlux pos (c.filter fun f => decide (3 ≤ f.length)) = cellFlux pos c := by
  induction c with
  | nil => rfl
  | cons f t ih =>
    by_cases hf : 3 ≤ f.length
    · rw [List.filter_cons, if_pos (by simpa using hf), cellFlux_cons, cellFlux_cons, ih]
    · rw [List.filter_cons, if_neg (by simpa using hf), cellFlux_cons, ih, faceFlux_short pos (by omega)]
      ring

theorem rv2Cell_flux (pos : Nat → V3 R) {rm : Nat → Bool} {c : Cell} (hc : CellOK c) (hcop : ∀ f ∈ c, Cop pos f)
    (hrm : ∀ w, rm w = true → ∃ a b, NbrIn (edgesOf c) w a b) :
    cellFlux pos (rv2Cell rm c) = cellFlux pos c ∧ ∀ f ∈ rv2Cell rm c, Cop pos f := by
  rw [rv2Cell_eq]
  obtain ⟨h1, h2⟩ := rmL_flux pos (c.flatten.filter rm) c (fun f hf => (hc.2 f hf).1) hc.1 hcop
    (fun w hw => hrm w (List.mem_filter.mp hw).2)
  exact ⟨(cellFlux_drop_short pos _).trans h1, fun f hf => h2 f (List.mem_filter.mp hf).1⟩

/-! ### shrink: the dropped cells are flat -/

theorem mem_rev_of_bal {es : List (Nat × Nat)} (h : Bal es) {e : Nat × Nat} (he : e ∈ es) : (e.2, e.1) ∈ es := by
  have := h e
  have hpos : 0 < es.count e := List.count_pos_iff.mpr he
  exact List.count_pos_iff.mp (by omega)

theorem cellFlux_thin (pos : Nat → V3 R) {c : Cell} (hc : CellOK c) (hcop : ∀ f ∈ c, Cop pos f)
    (hlen : c.length ≤ 2) : cellFlux pos c = 0 := by
  have hfirst : ∀ f ∈ c, ∃ a b t, f = a :: b :: t := by
    intro f hf
    have := (hc.2 f hf).2
    match f, this with
    | a :: b :: t, _ => exact ⟨a, b, t, rfl⟩
  match c, hlen with
  | [], _ => rfl
  | [f], _ =>
    exfalso
    obtain ⟨a, b, t, rfl⟩ := hfirst f (by simp)
    have hab : (a, b) ∈ edgesOf [a :: b :: t] := by simp [edgesOf, dirEdges_cons_cons]
    have hba := mem_rev_of_bal hc.1 hab
    simp only [edgesOf, List.flatMap_cons, List.flatMap_nil, List.append_nil] at hab hba
    exact not_both_dirs (hc.2 _ (by simp)) hab hba
  | [f, g], _ =>
    obtain ⟨a, b, t, rfl⟩ := hfirst f (by simp)
    have hab : (a, b) ∈ edgesOf [a :: b :: t, g] := by simp [edgesOf, dirEdges_cons_cons]
    have hba := mem_rev_of_bal hc.1 hab
    have hag : a ∈ g := by
      simp only [edgesOf, List.flatMap_cons, List.flatMap_nil, List.append_nil, List.mem_append] at hba
      rcases hba with hba | hba
      · exact absurd hba fun hba => not_both_dirs (hc.2 _ (by simp)) (by simp [dirEdges_cons_cons]) hba
      · exact (mem_of_mem_dirEdges hba).2
    have h0 := esum_bal_zero (ωu pos (pos a)) (fun x y => ωu_anti pos (pos a) x y) (fun x => ωu_diag pos (pos a) x) hc.1
    simp only [edgesOf, List.flatMap_cons, List.flatMap_nil, List.append_nil, esum_append] at h0
    rw [cellFlux_cons, cellFlux_cons, faceFlux_eq_esum, faceFlux_eq_esum_of_mem (hcop g (by simp)) hag]
    simp only [cellFlux, List.map_nil, List.sum_nil, add_zero]
    exact h0

theorem totalFlux_cons (pos : Nat → V3 R) (c : Cell) (cells : List Cell) :
    totalFlux pos (c :: cells) = cellFlux pos c + totalFlux pos cells := by simp [totalFlux]

theorem shrink_flux (pos : Nat → V3 R) {cells : List Cell} (h : Inv cells) (hcop : ∀ c ∈ cells, ∀ f ∈ c, Cop pos f) :
    totalFlux pos (shrink cells) = totalFlux pos cells := by
  rw [shrink_eq_filter h]
  induction cells with
  | nil => rfl
  | cons c t ih =>
    have iht := ih (fun c' hc' => h c' (List.mem_cons_of_mem _ hc')) (fun c' hc' => hcop c' (List.mem_cons_of_mem _ hc'))
    by_cases hl : 2 < c.length
    · rw [List.filter_cons, if_pos (by simpa using hl), totalFlux_cons, totalFlux_cons, iht]
    · rw [List.filter_cons, if_neg (by simpa using hl), totalFlux_cons, iht,
        cellFlux_thin pos (h c List.mem_cons_self) (hcop c List.mem_cons_self) (by omega)]
      ring

theorem shrink_cop (pos : Nat → V3 R) {cells : List Cell} (hcop : ∀ c ∈ cells, ∀ f ∈ c, Cop pos f) :
    ∀ c ∈ shrink cells, ∀ f ∈ c, Cop pos f := by
  intro c' hc' f hf
  simp only [shrink, List.mem_filter, List.mem_map] at hc'
  obtain ⟨⟨c, hc, rfl⟩, _⟩ := hc'
  exact hcop c hc f (List.mem_filter.mp hf).1

/-! ### remove_vertices_2 and one iteration of the edge loop -/

theorem removeVertices2_flux (pos : Nat → V3 R) {cells cells' : List Cell} (h : Inv cells)
    (hcop : ∀ c ∈ cells, ∀ f ∈ c, Cop pos f) (hr : removeVertices2 cells = some cells') :
    totalFlux pos cells' = totalFlux pos cells ∧ ∀ c ∈ cells', ∀ f ∈ c, Cop pos f := by
  have hguard : ∀ c ∈ cells, ∀ w, canRm cells w = true → ∃ a b, NbrIn (edgesOf c) w a b := fun c hc w hw => by
    obtain ⟨a, b, hab⟩ := canRm_nbrIn hw
    exact ⟨a, b, hab c hc⟩
  have hcells' : cells' = shrink (cells.map (rv2Cell (canRm cells))) := by
    unfold removeVertices2 at hr
    split at hr
    · cases hr
    · dsimp only at hr
      split at hr
      · cases hr; rfl
      · cases hr
  have hinv' : Inv (cells.map (rv2Cell (canRm cells))) := by
    intro c' hc'
    obtain ⟨c, hc, rfl⟩ := List.mem_map.mp hc'
    exact rv2Cell_cellOK (h c hc) (hguard c hc)
  have hcop' : ∀ c ∈ cells.map (rv2Cell (canRm cells)), ∀ f ∈ c, Cop pos f := by
    intro c' hc'
    obtain ⟨c, hc, rfl⟩ := List.mem_map.mp hc'
    exact (rv2Cell_flux pos (h c hc) (hcop c hc) (hguard c hc)).2
  rw [hcells']
  refine ⟨?_, shrink_cop pos hcop'⟩
  rw [shrink_flux pos hinv' hcop']
  have : ∀ cs : List Cell, (∀ c ∈ cs, c ∈ cells) →
      totalFlux pos (cs.map (rv2Cell (canRm cells))) = totalFlux pos cs := by
    intro cs
    induction cs with
    | nil => intro _; rfl
    | cons c t ih =>
      intro hs
      have hc := hs c List.mem_cons_self
      rw [List.map_cons, totalFlux_cons, totalFlux_cons, ih fun c' hc' => hs c' (List.mem_cons_of_mem _ hc'),
        (rv2Cell_flux pos (h c hc) (hcop c hc) (hguard c hc)).1]
  exact this cells fun c hc => hc

theorem cells_eq_range_map (cells : List Cell) : cells = (List.range cells.length).map fun i => cells.getD i [] := by
  apply List.ext_getElem
  · simp
  · intro i h1 h2
    simp only [List.getElem_map, List.getElem_range]
    rw [List.getD_eq_getElem?_getD, List.getElem?_eq_getElem h1, Option.getD_some]

theorem removeEdgeStep_flux (pos : Nat → V3 R) {cells : List Cell} (h : Inv cells)
    (hcop : ∀ c ∈ cells, ∀ f ∈ c, Cop pos f) (A B : Nat) (ps : List Nat)
    (hmerge : ∀ p ∈ ps, ∀ f1 ∈ cells.getD p [], ∀ f2 ∈ cells.getD p [],
      hasE A B f1 = true → hasE B A f2 = true → Cop pos (f1 ++ f2)) :
    totalFlux pos (removeEdgeStep A B ps cells) = totalFlux pos cells ∧
    ∀ c ∈ removeEdgeStep A B ps cells, ∀ f ∈ c, Cop pos f := by
  have hcopD : ∀ i, ∀ f ∈ cells.getD i [], Cop pos f := by
    intro i f hf
    rw [List.getD_eq_getElem?_getD] at hf
    cases hi : cells[i]? with
    | none => rw [hi] at hf; simp at hf
    | some c => rw [hi] at hf; exact hcop c (List.mem_of_getElem? hi) f hf
  have hone : ∀ i, (cellFlux pos (if ps.contains i then (removeOneEdge A B (cells.getD i [])).getD (cells.getD i [])
        else cells.getD i []) = cellFlux pos (cells.getD i [])) ∧
      ∀ f ∈ (if ps.contains i then (removeOneEdge A B (cells.getD i [])).getD (cells.getD i [])
        else cells.getD i []), Cop pos f := by
    intro i
    split
    · rename_i hin
      cases hr : removeOneEdge A B (cells.getD i []) with
      | none => exact ⟨rfl, hcopD i⟩
      | some c' =>
        have := removeOneEdge_flux pos (getD_cellOK h i) (hcopD i)
          (hmerge i (List.contains_iff_mem.mp hin)) hr
        exact ⟨this.1, this.2⟩
    · exact ⟨rfl, hcopD i⟩
  unfold removeEdgeStep
  split
  · constructor
    · conv_rhs => rw [cells_eq_range_map cells]
      simp only [totalFlux, List.map_map]
      congr 1
      apply List.map_congr_left
      intro i _
      exact (hone i).1
    · intro c hc f hf
      obtain ⟨i, _, rfl⟩ := List.mem_map.mp hc
      exact (hone i).2 f hf
  · exact ⟨rfl, hcop⟩

/-! ### renumbering -/

theorem map_flux (pos pos' : Nat → V3 R) (σ : Nat → Nat) (cells : List Cell)
    (h : ∀ v ∈ cells.flatten.flatten, pos' (σ v) = pos v) :
    totalFlux pos' (cells.map fun c => c.map fun f => f.map σ) = totalFlux pos cells := by
  simp only [totalFlux, List.map_map]
  congr 1
  apply List.map_congr_left
  intro c hc
  simp only [Function.comp, cellFlux, List.map_map]
  congr 1
  apply List.map_congr_left
  intro f hf
  simp only [Function.comp, faceFlux, List.map_map]
  congr 1
  apply List.map_congr_left
  intro v hv
  exact h v (mem_nodes.mpr ⟨c, hc, f, hf, hv⟩)

end

end Femio.C20
