import Femio.Model.FistrMsh
import Femio.Lemmas.FistrMshProps

/-! Generic lemmas about header keys (`hasSub`, `capture`, `isItem1`) and about the characters of written data
lines, used by the whole-file round trip of C01 (`Lemmas/FistrRoundtrip.lean`). -/
namespace Femio.Fistr.RT
open Numeral Femio.Gen

/-! ### `isPrefix` -/
theorem isPrefix_mem (key s : List Char) (h : isPrefix key s = true) : ∀ x ∈ key, x ∈ s := by
  induction key generalizing s with
  | nil => intro x hx; cases hx
  | cons a k ih =>
    cases s with
    | nil => simp [isPrefix] at h
    | cons b s =>
      simp only [isPrefix, Bool.and_eq_true, beq_iff_eq] at h
      intro x hx
      rcases List.mem_cons.mp hx with rfl | hx
      · rw [h.1]; exact List.mem_cons_self
      · exact List.mem_cons_of_mem _ (ih s h.2 x hx)

/-- a key that does not contain `r0` cannot match across the boundary `s | r0` -/
theorem isPrefix_cut (key s : List Char) (r0 : Char) (rest : List Char) (hr : r0 ∉ key)
    (h : isPrefix key (s ++ r0 :: rest) = true) : isPrefix key s = true := by
  induction key generalizing s with
  | nil => rfl
  | cons a k ih =>
    cases s with
    | nil =>
      simp only [List.nil_append, isPrefix, Bool.and_eq_true, beq_iff_eq] at h
      exact absurd (h.1 ▸ List.mem_cons_self) hr
    | cons b s =>
      simp only [List.cons_append, isPrefix, Bool.and_eq_true, beq_iff_eq] at h ⊢
      exact ⟨h.1, ih s (fun m => hr (List.mem_cons_of_mem _ m)) h.2⟩

theorem isPrefix_sep_false (key s : List Char) (r0 : Char) (rest : List Char) (x : Char)
    (hx : x ∈ key) (hxs : x ∉ s) (hr : r0 ∉ key) : isPrefix key (s ++ r0 :: rest) = false := by
  cases h : isPrefix key (s ++ r0 :: rest) with
  | false => rfl
  | true => exact absurd (isPrefix_mem key s (isPrefix_cut key s r0 rest hr h) x hx) hxs

theorem isPrefix_end_false (key s : List Char) (x : Char) (hx : x ∈ key) (hxs : x ∉ s) : isPrefix key s = false := by
  cases h : isPrefix key s with
  | false => rfl
  | true => exact absurd (isPrefix_mem key s h x hx) hxs

/-! ### `hasSub` for keys that start with a character occurring only at the head of the line -/
theorem hasSub_no_first (x : Char) (k s : List Char) (h : x ∉ s) : hasSub (x :: k) s = false := by
  induction s with
  | nil => simp [hasSub]
  | cons c t ih =>
    have hc : x ≠ c := fun e => h (e ▸ List.mem_cons_self)
    simp [hasSub, isPrefix, hc, ih (fun m => h (List.mem_cons_of_mem _ m))]

theorem hasSub_bang (x : Char) (k rest : List Char) (h : x ∉ rest) :
    hasSub (x :: k) (x :: rest) = isPrefix k rest := by
  simp [hasSub, isPrefix, hasSub_no_first x k rest h]

/-! ### `capture` -/
theorem capture_eq_captureP (key s : List Char) : capture key s = captureP key isWord s := by
  induction s with
  | nil => rfl
  | cons c t ih => simp only [capture, captureP, ih]

/-- the scan passes over a token `s` that lacks a character of the key, when the separator after it is not in the key -/
theorem captureP_skip (key : List Char) (p : Char → Bool) (s : List Char) (r0 : Char) (rest : List Char) (x : Char)
    (hx : x ∈ key) (hxs : x ∉ s) (hr : r0 ∉ key) :
    captureP key p (s ++ r0 :: rest) = captureP key p (r0 :: rest) := by
  induction s with
  | nil => rfl
  | cons c t ih =>
    have hf : isPrefix key ((c :: t) ++ r0 :: rest) = false := isPrefix_sep_false key (c :: t) r0 rest x hx hxs hr
    simp only [List.cons_append] at hf ⊢
    rw [captureP, if_neg (by simp [hf])]
    exact ih (fun m => hxs (List.mem_cons_of_mem _ m))

theorem captureP_none_of_not_mem (key : List Char) (p : Char → Bool) (s : List Char) (x : Char)
    (hx : x ∈ key) (hxs : x ∉ s) : captureP key p s = none := by
  induction s with
  | nil => rfl
  | cons c t ih =>
    have hf : isPrefix key (c :: t) = false := isPrefix_end_false key (c :: t) x hx hxs
    rw [captureP, if_neg (by simp [hf])]
    exact ih (fun m => hxs (List.mem_cons_of_mem _ m))

theorem capture_skip (key s : List Char) (r0 : Char) (rest : List Char) (x : Char)
    (hx : x ∈ key) (hxs : x ∉ s) (hr : r0 ∉ key) : capture key (s ++ r0 :: rest) = capture key (r0 :: rest) := by
  rw [capture_eq_captureP, capture_eq_captureP]; exact captureP_skip key isWord s r0 rest x hx hxs hr

/-! ### `isItem1` -/
theorem isItem1_go_no_bang (s : List Char) (h : '!' ∉ s) : isItem1.go s = false := by
  induction s with
  | nil => rfl
  | cons c t ih =>
    have hc : ('!' == c) = false := by
      simp only [beq_eq_false_iff_ne, ne_eq]; exact fun e => h (e ▸ List.mem_cons_self)
    simp [isItem1.go, isPrefix, hc, ih (fun m => h (List.mem_cons_of_mem _ m))]

/-! ### characters of written data lines -/
def isDataCh (c : Char) : Bool := isDigit c || c == ',' || c == '-' || c == '.' || c == 'E' || c == '+'

theorem isDataCh_of_digit {c : Char} (h : isDigit c = true) : isDataCh c = true := by simp [isDataCh, h]

theorem dataCh_not_ws {c : Char} (h : isDataCh c = true) : isWs c = false := by
  by_contra hw
  have hw' : isWs c = true := by simpa using hw
  simp only [isWs, Bool.or_eq_true, beq_iff_eq] at hw'
  rcases hw' with ((((rfl | rfl) | rfl) | rfl) | rfl) | rfl <;> revert h <;> decide

theorem dataLine_ok (l : Line) (hne : l ≠ []) (h : ∀ c ∈ l, isDataCh c = true) :
    isHeader l = false ∧ ignoreLine l = false := by
  obtain ⟨c, t, rfl⟩ := List.exists_cons_of_ne_nil hne
  have hc := h c List.mem_cons_self
  have hbang : c ≠ '!' := by rintro rfl; revert hc; decide
  have hhash : '#' ∉ (c :: t) := fun m => by have := h '#' m; revert this; decide
  refine ⟨by simp [isHeader, hbang], ?_⟩
  simp only [ignoreLine, Bool.or_eq_false_iff]
  refine ⟨by simpa using hhash, ?_⟩
  simp [dataCh_not_ws hc]

theorem mem_joinSep (sep : Char) (fs : List (List Char)) (c : Char) (h : c ∈ joinSep sep fs) :
    c = sep ∨ ∃ f ∈ fs, c ∈ f := by
  induction fs with
  | nil => simp [joinSep] at h
  | cons f t ih =>
    cases t with
    | nil => exact Or.inr ⟨f, by simp, by simpa [joinSep] using h⟩
    | cons g t =>
      simp only [joinSep, List.mem_append, List.mem_cons] at h
      rcases h with h | rfl | h
      · exact Or.inr ⟨f, by simp, h⟩
      · exact Or.inl rfl
      · rcases ih h with h | ⟨f', hf', hc⟩
        · exact Or.inl h
        · exact Or.inr ⟨f', List.mem_cons_of_mem _ hf', hc⟩

theorem joinSep_ne_nil (sep : Char) (f : List Char) (fs : List (List Char)) (hf : f ≠ []) : joinSep sep (f :: fs) ≠ [] := by
  cases fs with
  | nil => simpa [joinSep] using hf
  | cons g t => simp [joinSep, hf]

theorem dataCh_showNat (n : Nat) : ∀ c ∈ showNat n, isDataCh c = true :=
  fun c hc => isDataCh_of_digit (showNat_isDigit n c hc)

theorem dataCh_renderSci (p : Nat) (s : Sci) : ∀ c ∈ renderSci p s, isDataCh c = true := by
  intro c hc
  simp only [renderSci, List.mem_append, List.mem_cons] at hc
  rcases hc with ((hc | hc) | hc | hc) | hc | hc | hc
  · cases hn : s.neg <;> simp [hn] at hc; subst hc; decide
  · exact dataCh_showNat _ c hc
  · subst hc; decide
  · exact isDataCh_of_digit (fixDigits_isDigit _ _ c hc)
  · subst hc; decide
  · split at hc <;> (subst hc; decide)
  · exact isDataCh_of_digit (expDigits_isDigit _ c hc)

theorem dataCh_natRow (xs : List Nat) : ∀ c ∈ renderNatRow xs, isDataCh c = true := by
  intro c hc
  rcases mem_joinSep ',' _ c hc with rfl | ⟨f, hf, hcf⟩
  · decide
  · obtain ⟨n, _, rfl⟩ := List.mem_map.mp hf; exact dataCh_showNat n c hcf

theorem dataCh_nodeLine (r : Nat × List Sci) : ∀ c ∈ nodeLine r, isDataCh c = true := by
  intro c hc
  rcases mem_joinSep ',' _ c hc with rfl | ⟨f, hf, hcf⟩
  · decide
  · rcases List.mem_cons.mp hf with rfl | hf
    · exact dataCh_showNat _ c hcf
    · obtain ⟨s, _, rfl⟩ := List.mem_map.mp hf; exact dataCh_renderSci 12 s c hcf

theorem nodeLine_ok (r : Nat × List Sci) : isHeader (nodeLine r) = false ∧ ignoreLine (nodeLine r) = false :=
  dataLine_ok _ (joinSep_ne_nil _ _ _ (showNat_ne_nil _)) (dataCh_nodeLine r)

theorem elemLine_ok (r : Nat × List Nat) : isHeader (elemLine r) = false ∧ ignoreLine (elemLine r) = false :=
  dataLine_ok _ (by unfold elemLine renderNatRow; exact joinSep_ne_nil _ _ _ (showNat_ne_nil _)) (dataCh_natRow _)

theorem showNat_ok (n : Nat) : isHeader (showNat n) = false ∧ ignoreLine (showNat n) = false :=
  dataLine_ok _ (showNat_ne_nil n) (dataCh_showNat n)

theorem tempLine_ok (r : Nat × Sci) : isHeader (tempLine r) = false ∧ ignoreLine (tempLine r) = false :=
  nodeLine_ok (r.1, [r.2])

/-- a written data row starts with a digit -/
theorem startsWith_showNat (p : Char → Bool) (n : Nat) (rest : List Char) :
    startsWithP p (showNat n ++ rest) = (match showNat n with | c :: _ => p c | [] => false) := by
  obtain ⟨c, t, hct, hcd⟩ := showNat_cons n
  have hw : isWs c = false := noWs_of_digits (showNat_isDigit n) c (by rw [hct]; simp)
  rw [hct]
  simp [startsWithP, trimLeft, hw]

theorem startsWith_alpha_showNat (n : Nat) (rest : List Char) : startsWithP isAlpha (showNat n ++ rest) = false := by
  obtain ⟨c, t, hct, hcd⟩ := showNat_cons n
  rw [startsWith_showNat, hct]
  simp only [isDigit, Bool.and_eq_true, decide_eq_true_eq] at hcd
  simp only [isAlpha, Bool.or_eq_false_iff, Bool.and_eq_false_iff, decide_eq_false_iff_not]
  omega

end Femio.Fistr.RT
