import Femio.Model.TextTok
import Femio.Model.Numeral
import Femio.Lemmas.NumeralProps
import Mathlib.Tactic.IntervalCases

/-! Character-level lexer / printer lemmas shared by C02, C04, C10:
    `splitBlank (joinBlank toks ++ trailing whitespace) = toks` for non-empty whitespace-free tokens,
    `fileLines (unlines ls) = non-empty ls` for newline-free lines, decimal numerals are such tokens. -/
namespace Femio.Text
open Numeral

/-- a token the whitespace lexer gives back unchanged: not empty, no whitespace character -/
def TokOK (t : Str) : Prop := t ≠ [] ∧ ∀ c ∈ t, isWs c = false

theorem noWsB_iff (t : Str) : noWsB t = true ↔ ∀ c ∈ t, isWs c = false := by
  simp [noWsB, List.all_eq_true]

theorem tokOKB_iff (t : Str) : tokOKB t = true ↔ TokOK t := by
  unfold tokOKB TokOK
  rw [Bool.and_eq_true, noWsB_iff]
  cases t <;> simp

theorem splitBlankAux_noWs (t rest cur : Str) (h : ∀ c ∈ t, isWs c = false) :
    splitBlankAux (t ++ rest) cur = splitBlankAux rest (t.reverse ++ cur) := by
  induction t generalizing cur with
  | nil => rfl
  | cons c t ih =>
    have hc : isWs c = false := h c (by simp)
    simp only [List.cons_append, splitBlankAux, hc, Bool.false_eq_true, if_false]
    rw [ih _ (fun c hc => h c (by simp [hc]))]
    simp

theorem splitBlankAux_ws (trail cur : Str) (h : ∀ c ∈ trail, isWs c = true) :
    splitBlankAux trail cur = if cur.isEmpty then [] else [cur.reverse] := by
  induction trail generalizing cur with
  | nil => rfl
  | cons c t ih =>
    have hc : isWs c = true := h c (by simp)
    have ht := ih [] (fun c hc => h c (by simp [hc]))
    simp only [List.isEmpty_nil, if_true] at ht
    simp only [splitBlankAux, hc, if_true, ht]

/-- **lexer ∘ printer**: `(' '.join(toks) + trailing whitespace).split() = toks` -/
theorem splitBlank_joinBlank (ts : List Str) (h : ∀ t ∈ ts, TokOK t) (trail : Str) (htr : ∀ c ∈ trail, isWs c = true) :
    splitBlank (joinBlank ts ++ trail) = ts := by
  unfold splitBlank
  induction ts with
  | nil => simp [joinBlank, splitBlankAux_ws trail [] htr]
  | cons a t ih =>
    have ha := h a (by simp)
    cases t with
    | nil =>
      simp only [joinBlank]
      rw [splitBlankAux_noWs a trail [] ha.2, splitBlankAux_ws _ _ htr]
      simp [ha.1]
    | cons b t =>
      have ih' := ih (fun x hx => h x (by simp [hx]))
      simp only [joinBlank, List.append_assoc, List.cons_append]
      rw [splitBlankAux_noWs a _ [] ha.2]
      have hb : isWs ' ' = true := by decide
      have : a.reverse ≠ [] := by simpa using ha.1
      simp only [splitBlankAux, hb, if_true, List.append_nil, List.isEmpty_iff, this, if_false, List.reverse_reverse]
      rw [ih']

theorem splitBlank_joinBlank' (ts : List Str) (h : ∀ t ∈ ts, TokOK t) : splitBlank (joinBlank ts) = ts := by
  simpa using splitBlank_joinBlank ts h [] (by simp)

/-- a character that occurs in no token and is not the blank does not occur in the joined line -/
theorem not_mem_joinBlank (x : Char) (hx : x ≠ ' ') (ts : List Str) (h : ∀ t ∈ ts, x ∉ t) : x ∉ joinBlank ts := by
  induction ts with
  | nil => simp [joinBlank]
  | cons a t ih =>
    cases t with
    | nil => simpa [joinBlank] using h a (by simp)
    | cons b t =>
      have := ih (fun y hy => h y (by simp [hy]))
      simp only [joinBlank, List.mem_append, List.mem_cons, not_or]
      exact ⟨h a (by simp), hx, this⟩

theorem joinBlank_ne_nil (ts : List Str) (hne : ts ≠ []) (h : ∀ t ∈ ts, t ≠ []) : joinBlank ts ≠ [] := by
  cases ts with
  | nil => exact absurd rfl hne
  | cons a t =>
    have ha := h a (by simp)
    cases t with
    | nil => simpa [joinBlank] using ha
    | cons b t => simp [joinBlank, ha]

/-! ### lines -/
theorem splitLinesAux_line (l rest cur : Str) (h : '\n' ∉ l) :
    splitLinesAux (l ++ '\n' :: rest) cur = (cur.reverse ++ l) :: splitLinesAux rest [] := by
  induction l generalizing cur with
  | nil => simp [splitLinesAux]
  | cons c t ih =>
    have hc : c ≠ '\n' := fun e => h (by simp [e])
    have ht : '\n' ∉ t := fun m => h (by simp [m])
    simp only [List.cons_append, splitLinesAux, hc, if_false]
    rw [ih _ ht]; simp

theorem splitLines_unlines (ls : List Str) (h : ∀ l ∈ ls, '\n' ∉ l) : splitLines (unlines ls) = ls ++ [[]] := by
  unfold splitLines
  induction ls with
  | nil => rfl
  | cons a t ih =>
    have : unlines (a :: t) = a ++ '\n' :: unlines t := by simp [unlines]
    rw [this, splitLinesAux_line a _ [] (h a (by simp)), ih (fun l hl => h l (by simp [hl]))]
    simp

/-- **lines ∘ unlines**: reading a file written line by line gives the non-empty lines back, in order -/
theorem fileLines_unlines (ls : List Str) (h : ∀ l ∈ ls, '\n' ∉ l) :
    fileLines (unlines ls) = ls.filter fun l => !l.isEmpty := by
  unfold fileLines
  rw [splitLines_unlines ls h]
  simp

theorem fileLines_unlines_nonempty (ls : List Str) (h : ∀ l ∈ ls, '\n' ∉ l) (hne : ∀ l ∈ ls, l ≠ []) :
    fileLines (unlines ls) = ls := by
  rw [fileLines_unlines ls h, List.filter_eq_self]
  intro l hl
  have := hne l hl
  cases l <;> simp_all

theorem newline_isWs : isWs '\n' = true := by decide

theorem not_newline_of_noWs {t : Str} (h : ∀ c ∈ t, isWs c = false) : '\n' ∉ t := by
  intro hm
  have := h _ hm
  rw [newline_isWs] at this
  exact absurd this (by decide)

/-! ### decimal numerals are tokens -/
theorem isWs_digitChar (d : Nat) (h : d < 10) : isWs (digitChar d) = false := by
  interval_cases d <;> decide

theorem natDigits_lt' (n : Nat) : ∀ d ∈ natDigits n, d < 10 := aux_lt (n + 1) n [] (by simp)

theorem showNat_ne_nil' (n : Nat) : showNat n ≠ [] := by
  unfold showNat natDigits
  intro h
  exact aux_ne_nil (n + 1) n [] (by omega) (List.map_eq_nil_iff.mp h)

theorem showNat_tokOK (n : Nat) : TokOK (showNat n) := by
  refine ⟨showNat_ne_nil' n, ?_⟩
  intro c hc
  simp only [showNat, List.mem_map] at hc
  obtain ⟨d, hd, rfl⟩ := hc
  exact isWs_digitChar d (natDigits_lt' n d hd)

theorem not_mem_showNat (x : Char) (hx : charDigit x = none) (n : Nat) : x ∉ showNat n := by
  intro hm
  simp only [showNat, List.mem_map] at hm
  obtain ⟨d, hd, rfl⟩ := hm
  rw [charDigit_digitChar d (natDigits_lt' n d hd)] at hx
  exact absurd hx (by simp)

end Femio.Text
