import Femio.Model.Surface
import Femio.Lemmas.ScanPos
import Mathlib.Data.List.Sort
import Mathlib.Data.List.Count

/-! `extract_surface_fistr` (C10): the structural insertion sort `sortBy` is Mathlib's `insertionSort`, `lexLe` is a
    total order on rows, a `lexLe`-sorted list has contiguous equal keys, and therefore the neighbour scan of
    `boundaryLexScan` keeps exactly the rows whose 3-node key occurs once. -/
namespace Femio.C10
open Core Faces

/-! ### 1. `sortBy` is `List.insertionSort` -/

theorem insertBy_eq_orderedInsert {α} (le : α → α → Bool) (x : α) (l : List α) :
    insertBy le x l = List.orderedInsert (fun a b => le a b = true) x l := by
  induction l with
  | nil => rfl
  | cons y t ih =>
    by_cases h : le x y = true
    · simp [insertBy, List.orderedInsert, h]
    · simp [insertBy, List.orderedInsert, h, ih]

theorem sortBy_eq_insertionSort {α} (le : α → α → Bool) (l : List α) :
    sortBy le l = List.insertionSort (fun a b => le a b = true) l := by
  induction l with
  | nil => rfl
  | cons x t ih =>
    have : sortBy le (x :: t) = insertBy le x (sortBy le t) := rfl
    rw [this, ih, insertBy_eq_orderedInsert]
    rfl

theorem sortBy_perm {α} (le : α → α → Bool) (l : List α) : (sortBy le l).Perm l := by
  rw [sortBy_eq_insertionSort]
  exact List.perm_insertionSort _ l

/-! ### 2. `lexLe` is a total order -/

theorem lexLe_refl (a : List Nat) : lexLe a a = true := by
  induction a with
  | nil => rfl
  | cons x s ih => simp [lexLe, ih]

theorem lexLe_total (a b : List Nat) : lexLe a b = true ∨ lexLe b a = true := by
  induction a generalizing b with
  | nil => left; rfl
  | cons x s ih =>
    cases b with
    | nil => right; rfl
    | cons y t =>
      simp only [lexLe, Bool.or_eq_true, Bool.and_eq_true, decide_eq_true_eq, beq_iff_eq]
      rcases Nat.lt_trichotomy x y with h | h | h
      · left; left; exact h
      · rcases ih t with h' | h'
        · left; right; exact ⟨h, h'⟩
        · right; right; exact ⟨h.symm, h'⟩
      · right; left; exact h

theorem lexLe_trans (a b c : List Nat) : lexLe a b = true → lexLe b c = true → lexLe a c = true := by
  induction a generalizing b c with
  | nil => intros; rfl
  | cons x s ih =>
    cases b with
    | nil => intro h; simp [lexLe] at h
    | cons y t =>
      cases c with
      | nil => intro _ h; simp [lexLe] at h
      | cons z u =>
        simp only [lexLe, Bool.or_eq_true, Bool.and_eq_true, decide_eq_true_eq, beq_iff_eq]
        rintro (h1 | ⟨h1, h1'⟩) (h2 | ⟨h2, h2'⟩)
        · left; omega
        · left; omega
        · left; omega
        · right; exact ⟨h1.trans h2, ih t u h1' h2'⟩

theorem lexLe_antisymm (a b : List Nat) : lexLe a b = true → lexLe b a = true → a = b := by
  induction a generalizing b with
  | nil =>
    cases b with
    | nil => intros; rfl
    | cons y t => intro _ h; simp [lexLe] at h
  | cons x s ih =>
    cases b with
    | nil => intro h; simp [lexLe] at h
    | cons y t =>
      simp only [lexLe, Bool.or_eq_true, Bool.and_eq_true, decide_eq_true_eq, beq_iff_eq]
      rintro (h1 | ⟨h1, h1'⟩) (h2 | ⟨h2, h2'⟩)
      · omega
      · omega
      · omega
      · rw [h1, ih t h1' h2']

instance lexLe_isTotal : Std.Total (fun a b : List Nat => lexLe a b = true) := ⟨lexLe_total⟩
instance lexLe_isTrans : IsTrans (List Nat) (fun a b => lexLe a b = true) := ⟨lexLe_trans⟩

theorem sortBy_lexLe_pairwise (l : List (List Nat)) :
    (sortBy lexLe l).Pairwise (fun a b => lexLe a b = true) := by
  rw [sortBy_eq_insertionSort]
  exact List.pairwise_insertionSort _ l

instance keyLe_isTotal : Std.Total (fun f g : Faces.Face => keyLe f g = true) :=
  ⟨fun f g => lexLe_total (key f) (key g)⟩
instance keyLe_isTrans : IsTrans Faces.Face (fun f g => keyLe f g = true) :=
  ⟨fun f g h => lexLe_trans (key f) (key g) (key h)⟩

theorem sortBy_keyLe_pairwise (fs : List Faces.Face) :
    (sortBy keyLe fs).Pairwise (fun f g => keyLe f g = true) := by
  rw [sortBy_eq_insertionSort]
  exact List.pairwise_insertionSort _ fs

/-! ### 3. prefixes -/

theorem lexLe_take (n : Nat) (a b : List Nat) : lexLe a b = true → lexLe (a.take n) (b.take n) = true := by
  induction n generalizing a b with
  | zero => intro _; simp [lexLe]
  | succ n ih =>
    cases a with
    | nil => intro _; simp [lexLe]
    | cons x s =>
      cases b with
      | nil => intro h; simp [lexLe] at h
      | cons y t =>
        simp only [List.take_succ_cons, lexLe, Bool.or_eq_true, Bool.and_eq_true, decide_eq_true_eq, beq_iff_eq]
        rintro (h | ⟨h, h'⟩)
        · left; exact h
        · right; exact ⟨h, ih s t h'⟩

/-! ### 4. sorted ⇒ grouped -/

theorem grouped_of_pairwise (l : List (List Nat)) (h : l.Pairwise (fun a b => lexLe a b = true)) : Grouped l := by
  induction l with
  | nil => trivial
  | cons a t ih =>
    rw [List.pairwise_cons] at h
    refine ⟨?_, ih h.2⟩
    intro b hb hba
    subst hba
    cases t with
    | nil => simp at hb
    | cons c u =>
      have hbc : lexLe b c = true := h.1 c (by simp)
      have hcb : lexLe c b = true := by
        rcases List.mem_cons.mp hb with hb | hb
        · rw [hb]; exact lexLe_refl c
        · exact (List.pairwise_cons.mp h.2).1 b hb
      simp [lexLe_antisymm b c hbc hcb]

/-! ### 5. the scan -/

theorem scanAux_eq_root (prev : Option (List Nat)) (l : List (List Nat)) :
    Femio.C10.scanAux prev l = _root_.scanAux prev l := by
  induction l generalizing prev with
  | nil => rfl
  | cons a t ih =>
    simp only [Femio.C10.scanAux, _root_.scanAux, ih]
    congr 1
    rw [Bool.eq_iff_iff]
    cases t <;> simp

theorem scan_eq_root (l : List (List Nat)) : Femio.C10.scan l = _root_.scan l := scanAux_eq_root none l

/-- `List.count` does not depend on the (lawful) `BEq` instance -/
theorem count_inst (α : Type) (i1 i2 : BEq α) [h1 : @LawfulBEq α i1] [h2 : @LawfulBEq α i2] (a : α) (l : List α) :
    @List.count α i1 a l = @List.count α i2 a l := by
  induction l with
  | nil => rfl
  | cons b t ih =>
    rw [@List.count_cons α i1, @List.count_cons α i2, ih]
    have : (@BEq.beq α i1 b a) = (@BEq.beq α i2 b a) := by
      rw [Bool.eq_iff_iff, @beq_iff_eq α i1, @beq_iff_eq α i2]
    rw [this]

/-- on a grouped key list the neighbour scan marks exactly the keys that occur once -/
theorem scan_of_grouped (ks : List (List Nat)) (hg : Grouped ks) :
    Femio.C10.scan ks = ks.map (fun k => decide (ks.count k = 1)) := by
  rw [scan_eq_root]
  apply List.ext_getElem
  · simp [_root_.scan, scanAux_length]
  · intro i h1 h2
    have hi : i < ks.length := by simpa using h2
    have := scanAux_spec (none : Option (List Nat)) ks hg i hi
    have hc := count_inst (List Nat) instBEqOfDecidableEq List.instBEq ks[i] ks
    simp only [ne_eq, reduceCtorEq, not_false_eq_true, and_true] at this
    rw [hc] at this
    rw [List.getElem_map, Bool.eq_iff_iff, decide_eq_true_eq]
    exact this

/-- filtering by a mask that was computed element-wise is `filter` -/
theorem filter_zip_mask {α : Type} (p : α → Bool) (s : List α) :
    ((s.zip (s.map p)).filter (·.2)).map (·.1) = s.filter p := by
  induction s with
  | nil => rfl
  | cons a t ih =>
    by_cases h : p a = true
    · simp [h, ih]
    · simp [h, ih]

theorem lexScan_of_sorted (s : List (List Nat)) (hs : s.Pairwise (fun a b => lexLe a b = true)) :
    ((s.zip (scan (s.map (·.take 3)))).filter (·.2)).map (fun r => r.1.drop 3) =
      (s.filter fun r => decide ((s.map (·.take 3)).count (r.take 3) = 1)).map (·.drop 3) := by
  have hg : Grouped (s.map (·.take 3)) :=
    grouped_of_pairwise _ (List.Pairwise.map _ (fun a b h => lexLe_take 3 a b h) hs)
  rw [scan_of_grouped _ hg, List.map_map]
  rw [← filter_zip_mask (fun r => decide ((s.map (·.take 3)).count (r.take 3) = 1)) s, List.map_map]
  rfl

/-- `extract_surface_fistr`: the lexsorted rows whose 3-node key occurs exactly once, in sorted order,
    projected to `[element id, face number]` -/
theorem boundaryLexScan_spec (es : List Core.Elem) :
    boundaryLexScan es =
      let s := sortBy lexLe (fistrRows es)
      (s.filter fun r => decide ((s.map (·.take 3)).count (r.take 3) = 1)).map (·.drop 3) :=
  lexScan_of_sorted _ (sortBy_lexLe_pairwise _)

/-- the same statement without the local definition (convenient for `rw`) -/
theorem boundaryLexScan_eq (es : List Core.Elem) :
    boundaryLexScan es =
      ((sortBy lexLe (fistrRows es)).filter fun r =>
        decide (((sortBy lexLe (fistrRows es)).map (·.take 3)).count (r.take 3) = 1)).map (·.drop 3) :=
  boundaryLexScan_spec es

end Femio.C10
