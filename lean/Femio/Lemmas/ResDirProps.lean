import Femio.Model.ResDir
/-! C02 — lemmas about the literal-infix test used by the model of `glob('*.res.*')` (`Model/ResDir.lean`). -/
namespace Femio.C02

theorem isPrefix_append (p s : List Char) : isPrefix p (p ++ s) = true := by
  induction p with
  | nil => cases s <;> rfl
  | cons a p ih => simp [isPrefix, ih]

theorem hasInfix_append (pat a b : List Char) : hasInfix pat (a ++ pat ++ b) = true := by
  induction a with
  | nil =>
    cases h : pat ++ b with
    | nil =>
      obtain ⟨hp, _⟩ := List.append_eq_nil_iff.mp h
      subst hp
      simp only [List.nil_append, h]
      rfl
    | cons c s =>
      simp only [List.nil_append, h, hasInfix]
      rw [← h, isPrefix_append]; rfl
  | cons c a ih =>
    simp only [List.cons_append, hasInfix]
    rw [List.append_assoc] at ih
    simp [ih]

end Femio.C02
