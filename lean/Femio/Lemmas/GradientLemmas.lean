import Femio.Model.Gradient
import Mathlib.Tactic.Ring
import Mathlib.Tactic.FieldSimp
import Mathlib.Algebra.Field.Basic
import Mathlib.Data.List.Basic
import Mathlib.Data.List.Range
import Mathlib.LinearAlgebra.Matrix.Determinant.Basic

/-! Helper lemmas for C15 (list sums of vectors / matrices, adjugate inverse, COO row extraction). -/
namespace Femio.Gradient
open V3

variable {K : Type} [Field K]

theorem v3_ext {a b : V3 K} (hx : a.x = b.x) (hy : a.y = b.y) (hz : a.z = b.z) : a = b := by
  cases a; cases b; simp_all

@[simp] theorem sumV_nil : sumV ([] : List (V3 K)) = vzero := rfl
@[simp] theorem sumV_cons (a : V3 K) (l : List (V3 K)) : sumV (a :: l) = V3.add a (sumV l) := rfl
@[simp] theorem sumM_nil : sumM ([] : List (M3 K)) = mzero := rfl
@[simp] theorem sumM_cons (a : M3 K) (l : List (M3 K)) : sumM (a :: l) = madd a (sumM l) := rfl
@[simp] theorem sumR_nil : sumR ([] : List K) = 0 := rfl
@[simp] theorem sumR_cons (a : K) (l : List K) : sumR (a :: l) = a + sumR l := rfl

theorem sumV_append (a b : List (V3 K)) : sumV (a ++ b) = V3.add (sumV a) (sumV b) := by
  induction a with
  | nil => simp [V3.add, vzero]
  | cons h t ih =>
    simp only [List.cons_append, sumV_cons, ih]
    apply v3_ext <;> simp [V3.add] <;> ring

/-- `Σ c • g_e = c • Σ g_e` -/
theorem sumV_smul {α : Type} (c : K) (g : α → V3 K) (l : List α) :
    sumV (l.map fun e => smul c (g e)) = smul c (sumV (l.map g)) := by
  induction l with
  | nil => simp [smul, vzero]
  | cons h t ih =>
    simp only [List.map_cons, sumV_cons, ih]
    apply v3_ext <;> simp [V3.add, smul] <;> ring

/-- subtracting a constant from the field = adding the diagonal entry `−Σ g` times the constant -/
theorem sumV_shift {α : Type} (f : α → K) (g : α → V3 K) (c : K) (l : List α) :
    sumV (l.map fun e => smul (f e - c) (g e))
      = V3.add (sumV (l.map fun e => smul (f e) (g e))) (smul c (vneg (sumV (l.map g)))) := by
  induction l with
  | nil => simp [smul, vzero, vneg, V3.add]
  | cons h t ih =>
    simp only [List.map_cons, sumV_cons, ih]
    apply v3_ext <;> simp [V3.add, smul, vneg] <;> ring

/-- the heart of the moment-matrix correction: `Σ_j (a·d_j) B (s_j d_j) = B ((Σ_j s_j d_j d_jᵀ) a)` -/
theorem sum_moment (B : M3 K) (a : V3 K) (s : Nat → K) (d : Nat → V3 K) (l : List Nat) :
    sumV (l.map fun j => smul (dot a (d j)) (mulVec B (smul (s j) (d j))))
      = mulVec B (mulVec (sumM (l.map fun j => msmul (s j) (outer (d j) (d j)))) a) := by
  induction l with
  | nil => simp [mulVec, mzero, vzero, dot]
  | cons h t ih =>
    simp only [List.map_cons, sumV_cons, sumM_cons, ih]
    generalize sumM (t.map fun j => msmul (s j) (outer (d j) (d j))) = T
    obtain ⟨⟨t00, t01, t02⟩, ⟨t10, t11, t12⟩, ⟨t20, t21, t22⟩⟩ := T
    obtain ⟨⟨b00, b01, b02⟩, ⟨b10, b11, b12⟩, ⟨b20, b21, b22⟩⟩ := B
    obtain ⟨a0, a1, a2⟩ := a
    generalize d h = dh
    obtain ⟨d0, d1, d2⟩ := dh
    apply v3_ext <;> simp [V3.add, smul, mulVec, dot, madd, msmul, outer] <;> ring

/-- adjugate / determinant is a left inverse -/
theorem inv3_mulVec (M : M3 K) (a : V3 K) (h : det3 M ≠ 0) : mulVec (inv3 M) (mulVec M a) = a := by
  obtain ⟨⟨m00, m01, m02⟩, ⟨m10, m11, m12⟩, ⟨m20, m21, m22⟩⟩ := M
  obtain ⟨a0, a1, a2⟩ := a
  generalize hD : det3 (⟨⟨m00, m01, m02⟩, ⟨m10, m11, m12⟩, ⟨m20, m21, m22⟩⟩ : M3 K) = D at h
  have hD' : D = m00 * (m11 * m22 - m12 * m21) - m01 * (m10 * m22 - m12 * m20) + m02 * (m10 * m21 - m11 * m20) := by
    rw [← hD]; rfl
  apply v3_ext <;> simp only [inv3, adj3, vdiv, mulVec, dot, cross, hD] <;> field_simp <;> rw [hD'] <;> ring

theorem comp_sumV (k : Nat) (l : List (V3 K)) : comp k (sumV l) = sumR (l.map (comp k)) := by
  induction l with
  | nil => rcases k with _ | _ | k <;> simp [comp, vzero]
  | cons h t ih =>
    simp only [sumV_cons, List.map_cons, sumR_cons, ← ih]
    rcases k with _ | _ | k <;> simp [comp, V3.add]

theorem comp_smul (k : Nat) (c : K) (v : V3 K) : comp k (smul c v) = comp k v * c := by
  rcases k with _ | _ | k <;> simp [comp, smul] <;> ring

/-- the entries of row `i` of a COO matrix assembled row block by row block are exactly block `i` -/
theorem flatMap_pick {α : Type} (F : Nat → List α) (i n : Nat) :
    (List.range n).flatMap (fun i' => if i' = i then F i' else []) = if i < n then F i else [] := by
  induction n with
  | zero => simp
  | succ n ih =>
    rw [List.range_succ, List.flatMap_append, ih]
    by_cases h1 : i < n
    · have : n ≠ i := by omega
      simp [h1, this, Nat.lt_succ_of_lt h1]
    · by_cases h2 : n = i
      · subst h2; simp
      · have : ¬ i < n + 1 := by omega
        simp [h1, h2, this]

theorem dotCoo_gradAdj (I : Inp K) (k : Nat) (data : Nat → K) (i : Nat) (hi : i < I.n) :
    dotCoo (gradAdj I k) data i = comp k (applyRow (opRow I i) data) := by
  unfold dotCoo gradAdj applyRow
  rw [List.filter_flatMap]
  have hblk : ∀ i', List.filter (fun e : Nat × Nat × K => e.1 == i) ((opRow I i').map fun e => (i', e.1, comp k e.2))
      = if i' = i then (opRow I i').map (fun e => (i', e.1, comp k e.2)) else [] := by
    intro i'
    by_cases h : i' = i
    · subst h; simp [List.filter_eq_self]
      rintro _ _ _ _ _ _ rfl _ _; rfl
    · simp [h, List.filter_eq_nil_iff]
      rintro _ _ _ _ _ _ rfl _ _; exact h
  simp only [hblk]
  rw [flatMap_pick (fun i' => (opRow I i').map fun e => (i', e.1, comp k e.2)) i I.n, if_pos hi,
    comp_sumV, List.map_map, List.map_map]
  congr 1
  apply List.map_congr_left
  intro e _
  simp [comp_smul]

/-- the model's row-wise 3×3 matrix as a Mathlib matrix -/
def toMatrix (M : M3 K) : Matrix (Fin 3) (Fin 3) K :=
  !![M.r0.x, M.r0.y, M.r0.z; M.r1.x, M.r1.y, M.r1.z; M.r2.x, M.r2.y, M.r2.z]

theorem det3_eq_det (M : M3 K) : det3 M = (toMatrix M).det := by
  obtain ⟨⟨m00, m01, m02⟩, ⟨m10, m11, m12⟩, ⟨m20, m21, m22⟩⟩ := M
  simp [toMatrix, det3, V3.det, Matrix.det_fin_three]
  ring

end Femio.Gradient
