import Femio.Model.Search
import Mathlib.Data.List.Nodup
import Mathlib.Data.List.Perm.Subperm
import Mathlib.Data.List.Dedup
import Mathlib.Data.List.Range
import Mathlib.Logic.Relation
import Mathlib.Tactic.Linarith

/-! The two BFS kernels of `calculate_euclidean_hop_graph`: visited = reachable (C16_hop_graph). -/
namespace Femio.C16

theorem dedupNat_eq_dedup (l : List Nat) : dedupNat l = l.dedup := by
  induction l with
  | nil => rfl
  | cons a t ih =>
    simp only [dedupNat]
    by_cases h : a ∈ t
    · rw [List.dedup_cons_of_mem h]; simp [h, ih]
    · rw [List.dedup_cons_of_notMem h]; simp [h, ih]

theorem iter_eq_iterate {σ : Type} (f : σ → σ) (n : Nat) (s : σ) : iter f n s = f^[n] s := by
  induction n generalizing s with
  | zero => rfl
  | succ n ih => simp only [iter, Function.iterate_succ_apply, ih]

/-- one edge of the search: `y` is listed for `x` and may be entered -/
def hopR (h : Hop) (nbd : Nat → Bool) (x y : Nat) : Prop := y ∈ hopSucc h x ∧ hopAllowed h nbd y = true

/-- invariant: `vis = popped ++ queue`, no duplicates, sound, and popped vertices are closed -/
structure HInv (h : Hop) (nbd : Nat → Bool) (v : Nat) (popped : List Nat) (s : List Nat × List Nat) : Prop where
  split : s.2 = popped ++ s.1
  nodup : s.2.Nodup
  sound : ∀ w ∈ s.2, Relation.ReflTransGen (hopR h nbd) v w
  closed : ∀ x ∈ popped, ∀ y, hopR h nbd x y → y ∈ s.2
  start : v ∈ s.2

theorem hinv_init (h : Hop) (nbd : Nat → Bool) (v : Nat) : HInv h nbd v [] ([v], [v]) :=
  ⟨rfl, by simp, by intro w hw; simp at hw; subst hw; exact Relation.ReflTransGen.refl, by simp, by simp⟩

theorem hinv_step (h : Hop) (nbd : Nat → Bool) (v : Nat) (popped : List Nat) (x : Nat) (q vis : List Nat)
    (hI : HInv h nbd v popped (x :: q, vis)) : HInv h nbd v (popped ++ [x]) (hopStep h nbd (x :: q, vis)) := by
  obtain ⟨hs, hn, hsound, hclosed, hstart⟩ := hI
  simp only at hs hn hsound hclosed hstart
  have hstep : hopStep h nbd (x :: q, vis) =
      (q ++ ((hopSucc h x).filter fun y => hopAllowed h nbd y && !vis.contains y).dedup,
       vis ++ ((hopSucc h x).filter fun y => hopAllowed h nbd y && !vis.contains y).dedup) := by
    simp only [hopStep, dedupNat_eq_dedup]
  rw [hstep]
  set new := ((hopSucc h x).filter (fun y => hopAllowed h nbd y && !vis.contains y)).dedup with hnew
  have hx : x ∈ vis := by rw [hs]; simp
  have hnew_mem : ∀ y, y ∈ new ↔ y ∈ hopSucc h x ∧ hopAllowed h nbd y = true ∧ y ∉ vis := by
    intro y; simp [hnew, List.mem_dedup, List.mem_filter]
  refine ⟨?_, ?_, ?_, ?_, ?_⟩
  · show vis ++ new = popped ++ [x] ++ (q ++ new)
    rw [hs]; simp
  · show (vis ++ new).Nodup
    rw [List.nodup_append]
    refine ⟨hn, List.nodup_dedup _, ?_⟩
    intro a ha b hb hab
    subst hab
    exact ((hnew_mem a).mp hb).2.2 ha
  · intro w hw
    rcases List.mem_append.mp hw with hw | hw
    · exact hsound w hw
    · have := (hnew_mem w).mp hw
      exact Relation.ReflTransGen.tail (hsound x hx) ⟨this.1, this.2.1⟩
  · intro p hp y hy
    rcases List.mem_append.mp hp with hp | hp
    · exact List.mem_append_left _ (hclosed p hp y hy)
    · have : p = x := by simpa using hp
      subst this
      by_cases hyv : y ∈ vis
      · exact List.mem_append_left _ hyv
      · exact List.mem_append_right _ ((hnew_mem y).mpr ⟨hy.1, hy.2, hyv⟩)
  · exact List.mem_append_left _ hstart

/-- after `k` steps: either the queue ran empty earlier (state is a fixpoint) or exactly `k` vertices were popped -/
theorem hinv_iter (h : Hop) (nbd : Nat → Bool) (v : Nat) (k : Nat) :
    ∃ popped, HInv h nbd v popped ((hopStep h nbd)^[k] ([v], [v])) ∧
      (((hopStep h nbd)^[k] ([v], [v])).1 = [] ∨ popped.length = k) := by
  induction k with
  | zero => exact ⟨[], hinv_init h nbd v, Or.inr rfl⟩
  | succ k ih =>
    obtain ⟨popped, hinv, hk⟩ := ih
    rw [Function.iterate_succ_apply']
    set s := (hopStep h nbd)^[k] ([v], [v]) with hs
    obtain ⟨q, vis⟩ := s
    cases q with
    | nil => exact ⟨popped, by simpa [hopStep] using hinv, Or.inl (by simp [hopStep])⟩
    | cons x q =>
      refine ⟨popped ++ [x], hinv_step h nbd v popped x q vis hinv, Or.inr ?_⟩
      rcases hk with hk | hk
      · simp at hk
      · simp [hk]

/-- **C16_hop_graph (core)**: with all vertices `< n` and fuel `n`, the visited list is exactly the set of
    vertices reachable from `start` through allowed vertices. -/
theorem hopVisited_correct (h : Hop) (nbd : Nat → Bool) (n start : Nat) (hstart : start < n)
    (hsucc : ∀ x y, y ∈ hopSucc h x → y < n) (w : Nat) :
    w ∈ hopVisited h nbd n start ↔
      Relation.ReflTransGen (fun x y => y ∈ hopSucc h x ∧ hopAllowed h nbd y = true) start w := by
  show w ∈ hopVisited h nbd n start ↔ Relation.ReflTransGen (hopR h nbd) start w
  obtain ⟨popped, hinv, hk⟩ := hinv_iter h nbd start n
  unfold hopVisited
  rw [iter_eq_iterate]
  set s := (hopStep h nbd)^[n] ([start], [start]) with hs
  constructor
  · exact hinv.sound w
  · intro hreach
    have hbound : ∀ u ∈ s.2, u < n := by
      intro u hu
      have := hinv.sound u hu
      induction this with
      | refl => exact hstart
      | tail _ hr _ => exact hsucc _ _ hr.1
    have hq : s.1 = [] := by
      rcases hk with hk | hk
      · exact hk
      · by_contra hne
        have hlen : s.2.length ≤ n := by
          have hsub : s.2 ⊆ List.range n := fun u hu => List.mem_range.mpr (hbound u hu)
          have := (List.subperm_of_subset hinv.nodup hsub).length_le
          simpa using this
        have : s.2.length = popped.length + s.1.length := by rw [hinv.split]; simp
        have hpos : 0 < s.1.length := List.length_pos_iff.mpr hne
        omega
    have hvp : s.2 = popped := by rw [hinv.split, hq]; simp
    induction hreach with
    | refl => exact hinv.start
    | tail _ hr ih => exact hinv.closed _ (hvp ▸ ih) _ hr

/-- nodal mode: the row of node `v` lists exactly the other nodes reachable from it -/
theorem hopNodal_correct (h : Hop) (nbd : Nat → Bool) (n v : Nat) (hv : v < n)
    (hsucc : ∀ x y, y ∈ hopSucc h x → y < n) (w : Nat) :
    w ∈ hopNodal h nbd n v ↔ w < h.V ∧ w ≠ v ∧
      Relation.ReflTransGen (fun x y => y ∈ hopSucc h x ∧ hopAllowed h nbd y = true) v w := by
  unfold hopNodal
  rw [List.mem_filter, hopVisited_correct h nbd n v hv hsucc w]
  simp only [Bool.and_eq_true, decide_eq_true_eq]
  tauto

/-- elemental mode: the row of element `e` lists exactly the other elements reachable from it -/
theorem hopElemental_correct (h : Hop) (nbd : Nat → Bool) (n e : Nat) (he : h.V + e < n)
    (hsucc : ∀ x y, y ∈ hopSucc h x → y < n) (f : Nat) :
    f ∈ hopElemental h nbd n e ↔ f ≠ e ∧
      Relation.ReflTransGen (fun x y => y ∈ hopSucc h x ∧ hopAllowed h nbd y = true) (h.V + e) (h.V + f) := by
  unfold hopElemental
  simp only [List.mem_map, List.mem_filter, Bool.and_eq_true, decide_eq_true_eq]
  constructor
  · rintro ⟨w, ⟨hw, hV, hne⟩, rfl⟩
    have hwe : h.V + (w - h.V) = w := by omega
    refine ⟨by omega, ?_⟩
    rw [hwe]
    exact (hopVisited_correct h nbd n (h.V + e) he hsucc w).mp hw
  · rintro ⟨hne, hr⟩
    refine ⟨h.V + f, ⟨(hopVisited_correct h nbd n (h.V + e) he hsucc _).mpr hr, by omega, by omega⟩, by omega⟩

/-! ### nodal mode as in the docstring: chains of nodes sharing elements -/

/-- one hop between nodes: `w` shares an element with `v` and is within the radius (`nbd`) -/
def nodeR (h : Hop) (nbd : Nat → Bool) (v w : Nat) : Prop :=
  (∃ e, e ∈ h.elemsOf v ∧ w ∈ h.nodesOf e) ∧ nbd w = true

theorem hopSucc_node (h : Hop) (x : Nat) (hx : x < h.V) : hopSucc h x = (h.elemsOf x).map (· + h.V) := by
  simp [hopSucc, hx]

theorem hopSucc_elem (h : Hop) (x : Nat) (hx : h.V ≤ x) : hopSucc h x = h.nodesOf (x - h.V) := by
  have : ¬ x < h.V := by omega
  simp [hopSucc, this]

theorem nodeR_to_hop (h : Hop) (nbd : Nat → Bool) (hN : ∀ e w, w ∈ h.nodesOf e → w < h.V) (v : Nat) (hv : v < h.V)
    (w : Nat) (hr : Relation.ReflTransGen (nodeR h nbd) v w) :
    w < h.V ∧ Relation.ReflTransGen (hopR h nbd) v w := by
  induction hr with
  | refl => exact ⟨hv, Relation.ReflTransGen.refl⟩
  | @tail y z _ hstep ih =>
    obtain ⟨⟨e, he, hz⟩, hnbd⟩ := hstep
    obtain ⟨hy, hreach⟩ := ih
    have hzV : z < h.V := hN e z hz
    refine ⟨hzV, ?_⟩
    have h1 : hopR h nbd y (e + h.V) := by
      refine ⟨?_, ?_⟩
      · rw [hopSucc_node h y hy]; exact List.mem_map.mpr ⟨e, he, rfl⟩
      · have : ¬ e + h.V < h.V := by omega
        simp [hopAllowed, this]
    have h2 : hopR h nbd (e + h.V) z := by
      refine ⟨?_, ?_⟩
      · rw [hopSucc_elem h (e + h.V) (by omega)]
        have : e + h.V - h.V = e := by omega
        rw [this]; exact hz
      · simp [hopAllowed, hzV, hnbd]
    exact (hreach.tail h1).tail h2

theorem hop_to_nodeR (h : Hop) (nbd : Nat → Bool) (hN : ∀ e w, w ∈ h.nodesOf e → w < h.V) (v : Nat) (hv : v < h.V)
    (x : Nat) (hr : Relation.ReflTransGen (hopR h nbd) v x) :
    (x < h.V → Relation.ReflTransGen (nodeR h nbd) v x) ∧
    (h.V ≤ x → ∃ u, u < h.V ∧ Relation.ReflTransGen (nodeR h nbd) v u ∧ (x - h.V) ∈ h.elemsOf u) := by
  induction hr with
  | refl => exact ⟨fun _ => Relation.ReflTransGen.refl, fun hc => by omega⟩
  | @tail y z _ hstep ih =>
    obtain ⟨hz, hallow⟩ := hstep
    by_cases hy : y < h.V
    · rw [hopSucc_node h y hy] at hz
      obtain ⟨e, he, rfl⟩ := List.mem_map.mp hz
      refine ⟨fun hc => by omega, fun _ => ⟨y, hy, ih.1 hy, ?_⟩⟩
      have : e + h.V - h.V = e := by omega
      rw [this]; exact he
    · have hy' : h.V ≤ y := by omega
      rw [hopSucc_elem h y hy'] at hz
      have hzV : z < h.V := hN _ z hz
      refine ⟨fun _ => ?_, fun hc => by omega⟩
      obtain ⟨u, _, hreach, hmem⟩ := ih.2 hy'
      have hnbd : nbd z = true := by simpa [hopAllowed, hzV] using hallow
      exact hreach.tail ⟨⟨y - h.V, hmem, hz⟩, hnbd⟩

/-- reachability between nodes in the bipartite graph = reachability through chains of nodes, consecutive ones
    sharing an element, all but the first within the radius -/
theorem hop_reach_iff_nodeR (h : Hop) (nbd : Nat → Bool) (hN : ∀ e w, w ∈ h.nodesOf e → w < h.V)
    (v w : Nat) (hv : v < h.V) (hw : w < h.V) :
    Relation.ReflTransGen (fun x y => y ∈ hopSucc h x ∧ hopAllowed h nbd y = true) v w ↔
      Relation.ReflTransGen (nodeR h nbd) v w :=
  ⟨fun hr => (hop_to_nodeR h nbd hN v hv w hr).1 hw, fun hr => (nodeR_to_hop h nbd hN v hv w hr).2⟩

/-- **nodal mode, docstring form**: row `v` lists exactly the other nodes linked to `v` by a chain of nodes in
    which consecutive nodes share an element and every node after `v` satisfies `nbd` -/
theorem hopNodal_chain (h : Hop) (nbd : Nat → Bool) (n v : Nat) (hv : v < h.V) (hVn : h.V ≤ n)
    (hsucc : ∀ x y, y ∈ hopSucc h x → y < n) (hN : ∀ e w, w ∈ h.nodesOf e → w < h.V) (w : Nat) :
    w ∈ hopNodal h nbd n v ↔ w ≠ v ∧ Relation.ReflTransGen (nodeR h nbd) v w := by
  rw [hopNodal_correct h nbd n v (by omega) hsucc w]
  constructor
  · rintro ⟨hw, hne, hr⟩
    exact ⟨hne, (hop_reach_iff_nodeR h nbd hN v w hv hw).mp hr⟩
  · rintro ⟨hne, hr⟩
    have hw := (nodeR_to_hop h nbd hN v hv w hr).1
    exact ⟨hw, hne, (hop_reach_iff_nodeR h nbd hN v w hv hw).mpr hr⟩

end Femio.C16

#print axioms Femio.C16.hopVisited_correct
#print axioms Femio.C16.hopNodal_correct
#print axioms Femio.C16.hopElemental_correct
#print axioms Femio.C16.hopNodal_chain
