import Femio.Model.Res
import Mathlib.Tactic.Linarith
import Mathlib.Tactic.Ring

open Res
variable {V : Type} {α : Type}

/-! ### wrapping -/
theorem chunksAux_flatten (k : Nat) (hk : 1 ≤ k) (fuel : Nat) (l : List α) (h : l.length ≤ fuel) :
    (chunksAux k fuel l).flatten = l := by
  induction fuel generalizing l with
  | zero =>
    have : l = [] := List.length_eq_zero_iff.mp (Nat.le_zero.mp h)
    subst this; rfl
  | succ fuel ih =>
    cases l with
    | nil => rfl
    | cons a t =>
      simp only [chunksAux, List.flatten_cons]
      rw [ih _ (by simp only [List.length_drop, List.length_cons] at h ⊢; omega)]
      exact List.take_append_drop k (a :: t)

theorem chunks_flatten (k : Nat) (hk : 1 ≤ k) (l : List α) : (chunks k l).flatten = l :=
  chunksAux_flatten k hk _ l le_rfl

theorem chunksAux_mem (k : Nat) (hk : 1 ≤ k) (fuel : Nat) (l : List α) :
    ∀ c ∈ chunksAux k fuel l, c ≠ [] ∧ ∀ x ∈ c, x ∈ l := by
  induction fuel generalizing l with
  | zero => intro c hc; simp [chunksAux] at hc
  | succ fuel ih =>
    cases l with
    | nil => intro c hc; simp [chunksAux] at hc
    | cons a t =>
      intro c hc
      simp only [chunksAux, List.mem_cons] at hc
      rcases hc with rfl | hc
      · refine ⟨?_, fun x hx => List.mem_of_mem_take hx⟩
        cases k with
        | zero => omega
        | succ k => simp
      · obtain ⟨h1, h2⟩ := ih _ c hc
        exact ⟨h1, fun x hx => List.mem_of_mem_drop (h2 x hx)⟩

theorem chunks_mem (k : Nat) (hk : 1 ≤ k) (l : List α) : ∀ c ∈ chunks k l, c ≠ [] ∧ ∀ x ∈ c, x ∈ l :=
  chunksAux_mem k hk _ l

/-- the number of lines depends only on the number of items -/
theorem chunksAux_length_congr {β : Type} (k fuel : Nat) (l : List α) (l' : List β) (h : l.length = l'.length) :
    (chunksAux k fuel l).length = (chunksAux k fuel l').length := by
  induction fuel generalizing l l' with
  | zero => rfl
  | succ fuel ih =>
    cases l with
    | nil =>
      have : l' = [] := List.length_eq_zero_iff.mp (by simpa using h.symm)
      subst this; rfl
    | cons a t =>
      cases l' with
      | nil => simp at h
      | cons a' t' =>
        simp only [chunksAux, List.length_cons]
        rw [ih ((a :: t).drop k) ((a' :: t').drop k) (by simp only [List.length_drop, h])]

theorem chunks_length_congr {β : Type} (k : Nat) (l : List α) (l' : List β) (h : l.length = l'.length) :
    (chunks k l).length = (chunks k l').length := by
  unfold chunks; rw [h]; exact chunksAux_length_congr k _ l l' h

/-! ### blocks of constant length inside a flatMap -/
theorem flatMap_const_length {β : Type} (rows : List α) (f : α → List β) (L : Nat)
    (hL : ∀ r ∈ rows, (f r).length = L) : (rows.flatMap f).length = L * rows.length := by
  induction rows with
  | nil => simp
  | cons r t ih =>
    simp only [List.flatMap_cons, List.length_append, List.length_cons]
    rw [hL r (by simp), ih (fun x hx => hL x (List.mem_cons_of_mem _ hx))]; ring

theorem flatMap_block {β : Type} (rows : List α) (f : α → List β) (L : Nat)
    (hL : ∀ r ∈ rows, (f r).length = L) (k : Nat) (hk : k < rows.length) :
    ((rows.flatMap f).drop (k * L)).take L = f rows[k] := by
  induction rows generalizing k with
  | nil => simp at hk
  | cons r t ih =>
    have hr : (f r).length = L := hL r (by simp)
    cases k with
    | zero =>
      simp only [Nat.zero_mul, List.drop_zero, List.flatMap_cons, List.getElem_cons_zero]
      rw [← hr]; simp
    | succ j =>
      simp only [List.flatMap_cons, List.getElem_cons_succ]
      have : (j + 1) * L = (f r).length + j * L := by rw [hr]; ring
      rw [this, List.drop_append, show (f r).length + j * L - (f r).length = j * L by omega,
        List.drop_eq_nil_of_le (by omega : (f r).length ≤ (f r).length + j * L), List.nil_append]
      exact ih (fun x hx => hL x (List.mem_cons_of_mem _ hx)) j (by simpa using hk)

#print axioms flatMap_block
#print axioms chunks_flatten

/-! ### helper lemmas for the parser -/
theorem takeWhile_append_stop (p : α → Bool) (A B : List α) (hA : ∀ a ∈ A, p a = true)
    (hB : ∀ b, B.head? = some b → p b = false) : (A ++ B).takeWhile p = A := by
  induction A with
  | nil =>
    cases B with
    | nil => rfl
    | cons b t => simp [List.takeWhile_cons, hB b rfl]
  | cons a t ih =>
    simp only [List.cons_append, List.takeWhile_cons, hA a (by simp), if_true]
    rw [ih (fun x hx => hA x (List.mem_cons_of_mem _ hx))]

theorem mapM_range_aux {β : Type} (g : Nat → Option β) (rows : List β) (off : Nat)
    (h : ∀ k (hk : k < rows.length), g (off + k) = some rows[k]) :
    ((List.range rows.length).map (off + ·)).mapM g = some rows := by
  induction rows generalizing off with
  | nil => rfl
  | cons r t ih =>
    rw [List.length_cons, List.range_succ_eq_map, List.map_cons, List.map_map, List.mapM_cons]
    have h0 := h 0 (by simp)
    simp only [Nat.add_zero, List.getElem_cons_zero] at h0
    simp only [Nat.add_zero]
    rw [h0]
    have := ih (off + 1) (fun k hk => by
      have := h (k + 1) (by simpa using hk)
      simpa [Nat.add_assoc, Nat.add_comm 1 k] using this)
    have hfun : ((fun x => off + x) ∘ Nat.succ) = (fun x => off + 1 + x) := by
      funext x; simp [Nat.succ_eq_add_one]; omega
    rw [hfun, this]; rfl

theorem mapM_range {β : Type} (g : Nat → Option β) (rows : List β)
    (h : ∀ k (hk : k < rows.length), g k = some rows[k]) : (List.range rows.length).mapM g = some rows := by
  have := mapM_range_aux g rows 0 (by simpa using h)
  simpa using this

@[simp] theorem mapM_asNat_n (xs : List Nat) : List.mapM ((asNat : Tok V → Option Nat) ∘ Tok.n) xs = some xs := by
  induction xs with
  | nil => rfl
  | cons x t ih => simp [List.mapM_cons, asNat, ih]

@[simp] theorem mapM_asVal_v (xs : List V) : List.mapM (asVal ∘ (Tok.v : V → Tok V)) xs = some xs := by
  induction xs with
  | nil => rfl
  | cons x t ih => simp [List.mapM_cons, asVal, ih]

theorem zip_name_width (vs : List Var) :
    ((vs.map Var.name).zip (vs.map Var.width)).map (fun (p : List Char × Nat) => (⟨p.1, p.2⟩ : Var)) = vs := by
  induction vs with
  | nil => rfl
  | cons a t ih => simp [ih]

theorem take_succ_tail (l : List α) (n : Nat) : (l.take (n + 1)).tail = l.tail.take n := by
  cases l <;> simp

@[simp] theorem mapM_widths (vars : List Var) :
    List.mapM ((asNat : Tok V → Option Nat) ∘ fun (x : Var) => Tok.n x.width) vars = some (vars.map Var.width) := by
  induction vars with
  | nil => rfl
  | cons x t ih => simp [List.mapM_cons, asNat, ih]

@[simp] theorem mapM_nameLines (vars : List Var) :
    List.mapM ((firstWord : Line V → Option (List Char)) ∘ fun (x : Var) => [Tok.w x.name]) vars = some (vars.map Var.name) := by
  induction vars with
  | nil => rfl
  | cons x t ih => simp [List.mapM_cons, firstWord, ih]

/-! ### one section: `_parse_res ∘ render = id` -/
structure WFSec (wc wv : Nat) (s : Sec V) : Prop where
  wc : 1 ≤ wc
  wv : 1 ≤ wv
  vars_ne : s.vars ≠ []
  rows_ne : s.rows ≠ []
  width : ∀ r ∈ s.rows, r.2.length = sumW s.vars

theorem entity_length (wv : Nat) (r r' : Nat × List V) (h : r.2.length = r'.2.length) :
    (entityLines wv r).length = (entityLines wv r').length := by
  simp only [entityLines, List.length_cons]
  rw [chunks_length_congr wv (r.2.map Tok.v) (r'.2.map (Tok.v : V → Tok V)) (by simp [h])]

theorem parse_render (wc wv : Nat) (s : Sec V) (h : WFSec wc wv s) :
    parseSec (renderSec wc wv s) s.rows.length = some s := by
  obtain ⟨vars, rows⟩ := s
  obtain ⟨hwc, hwv, hvne, hrne, hwidth⟩ := h
  simp only at hvne hrne hwidth
  set C : List (Line V) := chunks wc (vars.map fun x => Tok.n x.width) with hC
  set NM : List (Line V) := vars.map (fun x => [Tok.w x.name]) with hNM
  set R : List (Line V) := rows.flatMap (entityLines wv) with hR
  have hls : renderSec wc wv ⟨vars, rows⟩ = C ++ (NM ++ R) := by simp [renderSec, hC, hNM, hR]
  -- (1) the leading non-name lines are exactly the count lines
  have hCnon : ∀ c ∈ C, (!isName c) = true := by
    intro c hc
    obtain ⟨hne, hmem⟩ := chunks_mem wc hwc _ c hc
    cases c with
    | nil => exact absurd rfl hne
    | cons t ts =>
      have := hmem t (by simp)
      simp only [List.mem_map] at this
      obtain ⟨x, _, rfl⟩ := this
      rfl
  have hNMhead : ∀ b, (NM ++ R).head? = some b → (!isName b) = false := by
    intro b hb
    cases vars with
    | nil => exact absurd rfl hvne
    | cons x t => simp [hNM] at hb; subst hb; rfl
  have htw : ((C ++ (NM ++ R)).takeWhile fun l => !isName l) = C := takeWhile_append_stop _ C _ hCnon hNMhead
  have hNMl : NM.length = vars.length := by simp [hNM]
  -- (5) every entity occupies the same number of lines
  obtain ⟨r0, hr0⟩ := List.exists_mem_of_ne_nil rows hrne
  set L := (entityLines wv r0).length with hL
  have hLall : ∀ r ∈ rows, (entityLines wv r).length = L := by
    intro r hr; exact entity_length wv r r0 (by rw [hwidth r hr, hwidth r0 hr0])
  have hLpos : 1 ≤ L := by simp [hL, entityLines]
  have hRlen : R.length = L * rows.length := flatMap_const_length rows _ L hLall
  have hnpos : 0 < rows.length := List.length_pos_iff.mpr hrne
  have hstride : R.length / rows.length = L := by rw [hRlen]; exact Nat.mul_div_cancel _ hnpos
  -- (6) row k
  have hrow : ∀ k (hk : k < rows.length),
      (do let i ← (R[k * L]?).bind firstNat
          let vals ← ((R.drop (k * L + 1)).take (L - 1)).flatten.mapM asVal
          pure (i, vals) : Option (Nat × List V)) = some rows[k] := by
    intro k hk
    have hb := flatMap_block rows (entityLines wv) L hLall k hk
    rw [← hR] at hb
    have hblock : (R.drop (k * L)).take L = [Tok.n rows[k].1] :: chunks wv (rows[k].2.map Tok.v) := by
      rw [hb]; rfl
    have hhead : R[k * L]? = some [Tok.n rows[k].1] := by
      have h1 : ((R.drop (k * L)).take L)[0]? = R[k * L]? := by
        rw [List.getElem?_take_of_lt (by omega), List.getElem?_drop]; simp
      rw [← h1, hblock]; rfl
    have htail : (R.drop (k * L + 1)).take (L - 1) = chunks wv (rows[k].2.map Tok.v) := by
      have h2 : (R.drop (k * L + 1)).take (L - 1) = ((R.drop (k * L)).take L).tail := by
        obtain ⟨L', hL'⟩ : ∃ L', L = L' + 1 := ⟨L - 1, by omega⟩
        rw [hL', take_succ_tail, List.tail_drop]; simp
      rw [h2, hblock]; rfl
    rw [hhead, htail, chunks_flatten wv hwv]
    simp [firstNat, List.mapM_map]
  -- assemble
  unfold parseSec
  rw [hls, htw]
  have hdrop1 : (C ++ (NM ++ R)).take C.length = C := by simp
  have hflat : C.flatten = vars.map fun x => Tok.n x.width := chunks_flatten wc hwc _
  have hnames : ((C ++ (NM ++ R)).drop C.length).take vars.length = NM := by
    rw [List.drop_left]; rw [← hNMl]; simp
  have hraw : (C ++ (NM ++ R)).drop (C.length + vars.length) = R := by
    rw [← List.drop_drop, List.drop_left, ← hNMl, List.drop_left]
  have hnm : NM.mapM firstWord = some (vars.map Var.name) := by
    rw [hNM, List.mapM_map]; exact mapM_nameLines vars
  simp only [hdrop1, hflat, List.mapM_map, mapM_widths, Option.bind_eq_bind, Option.bind_some,
    List.length_map, hnames, hraw, hnm]
  rw [if_neg (by omega), hstride]
  rw [if_neg (by rw [hRlen]; simp)]
  have h := mapM_range (fun k => (R[k * L]?.bind fun a => firstNat a).bind fun a =>
      (List.mapM asVal (List.take (L - 1) (List.drop (k * L + 1) R)).flatten).bind fun a_1 => pure (a, a_1))
    rows (fun k hk => hrow k hk)
  rw [h]
  simp only [Option.bind_some, Option.pure_def, zip_name_width]

#print axioms parse_render
