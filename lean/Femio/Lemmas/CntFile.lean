import Femio.Model.FistrCnt
import Femio.Lemmas.FistrMshProps
import Femio.Lemmas.FistrTextProps

/-! Lemmas for C03 (whole file): the header scan of a written FrontISTR control file.

* `GoodRow`: what every data row the writer prints looks like (starts with a digit, characters of
  `%d` / `%.pE` / `,` only) and what follows for the comment filter, the header test, the key search and
  `_extend_assignments`;
* `optSec` / `optL`: an optional section as blocks / as lines; `GoodBlocks`;
* `cntText` (the written lines), `cntBlocks` (what the scan must return), `toBlocks_cntText`;
* `blocksOf` / `extractData` of `cntBlocks` for every key the reader uses;
* `readSection_rows`: the generic section reader on written rows. -/
namespace Femio.Fistr.CntFile
open Numeral Cnt

/-! ### characters of a data row -/
def rowChar (c : Char) : Bool := isDigit c || c == ',' || c == '.' || c == 'E' || c == '+' || c == '-'

theorem rowChar_of_isDigit {c : Char} (h : isDigit c = true) : rowChar c = true := by simp [rowChar, h]

theorem isAlpha_of_isDigit {c : Char} (h : isDigit c = true) : isAlpha c = false := by
  simp only [isDigit, Bool.and_eq_true, decide_eq_true_eq] at h
  simp only [isAlpha, Bool.or_eq_false_iff, Bool.and_eq_false_iff, decide_eq_false_iff_not]
  omega

theorem isWs_of_isDigit {c : Char} (h : isDigit c = true) : isWs c = false :=
  noWs_of_digits (s := [c]) (by simpa using h) c (by simp)

theorem rowChar_showNat (n : Nat) : ∀ c ∈ showNat n, rowChar c = true :=
  fun c hc => rowChar_of_isDigit (showNat_isDigit n c hc)

theorem rowChar_renderSci (p : Nat) (s : Sci) : ∀ c ∈ renderSci p s, rowChar c = true := by
  intro c hc
  simp only [renderSci, List.mem_append, List.mem_cons] at hc
  rcases hc with ((hc | hc) | hc | hc) | hc | hc | hc
  · cases hn : s.neg <;> simp [hn] at hc; subst hc; decide
  · exact rowChar_of_isDigit (showNat_isDigit _ c hc)
  · subst hc; decide
  · exact rowChar_of_isDigit (fixDigits_isDigit _ _ c hc)
  · subst hc; decide
  · split at hc <;> (subst hc; decide)
  · exact rowChar_of_isDigit (expDigits_isDigit _ c hc)

/-- a data row of a constraint section: starts with a digit, consists of `0-9 , . E + -` -/
def GoodRow (l : Line) : Prop := (∃ c t, l = c :: t ∧ isDigit c = true) ∧ ∀ c ∈ l, rowChar c = true

theorem goodRow_of (n : Nat) (rest : List Char) (h : ∀ c ∈ rest, rowChar c = true) : GoodRow (showNat n ++ rest) := by
  obtain ⟨c, t, hct, hd⟩ := showNat_cons n
  refine ⟨⟨c, t ++ rest, by rw [hct]; rfl, hd⟩, ?_⟩
  intro x hx
  rcases List.mem_append.mp hx with hx | hx
  · exact rowChar_showNat n x hx
  · exact h x hx

theorem goodRow_bLine (l : BLine Sci) : GoodRow (bLineText l) := by
  have : bLineText l = showNat l.id ++ (',' :: (showNat l.first ++ ',' :: (showNat l.last ++ ',' :: renderSci 5 l.val))) := by
    simp [bLineText, joinSep]
  rw [this]
  apply goodRow_of
  intro c hc
  simp only [List.mem_cons, List.mem_append] at hc
  rcases hc with rfl | hc | rfl | hc | rfl | hc
  · decide
  · exact rowChar_showNat _ c hc
  · decide
  · exact rowChar_showNat _ c hc
  · decide
  · exact rowChar_renderSci _ _ c hc

theorem goodRow_dLine (l : DLine Sci) : GoodRow (dLineText l) := by
  have : dLineText l = showNat l.id ++ (',' :: (showNat l.dof ++ ',' :: renderSci 6 l.val)) := by
    simp [dLineText, joinSep]
  rw [this]
  apply goodRow_of
  intro c hc
  simp only [List.mem_cons, List.mem_append] at hc
  rcases hc with rfl | hc | rfl | hc
  · decide
  · exact rowChar_showNat _ c hc
  · decide
  · exact rowChar_renderSci _ _ c hc

theorem goodRow_sLine (r : Nat × Sci) : GoodRow (sLineText r) := by
  have : sLineText r = showNat r.1 ++ (',' :: renderSci 12 r.2) := by
    simp [sLineText, joinSep]
  rw [this]
  apply goodRow_of
  intro c hc
  simp only [List.mem_cons] at hc
  rcases hc with rfl | hc
  · decide
  · exact rowChar_renderSci _ _ c hc

/-! ### what a good row means for the scanners -/
theorem not_mem_of_rowChar {l : Line} (h : ∀ c ∈ l, rowChar c = true) (x : Char) (hx : rowChar x = false) : x ∉ l :=
  fun m => by simp [h x m] at hx

theorem GoodRow.isHeader {l : Line} (h : GoodRow l) : isHeader l = false := by
  obtain ⟨⟨c, t, rfl, hd⟩, _⟩ := h
  have : c ≠ '!' := by rintro rfl; simp [isDigit] at hd
  simp [Femio.Fistr.isHeader, this]

theorem GoodRow.ignoreLine {l : Line} (h : GoodRow l) : ignoreLine l = false := by
  obtain ⟨⟨c, t, rfl, hd⟩, hall⟩ := h
  have h1 : '#' ∉ c :: t := not_mem_of_rowChar hall '#' (by decide)
  have h2 : isWs c = false := isWs_of_isDigit hd
  simp only [Femio.Fistr.ignoreLine, Bool.or_eq_false_iff]
  refine ⟨?_, ?_⟩
  · simpa using h1
  · simp [h2]

/-- a key starting with `!` does not occur in a text without `!` -/
theorem hasSub_bang_of_not_mem (k s : List Char) (h : '!' ∉ s) : hasSub ('!' :: k) s = false := by
  induction s with
  | nil => rfl
  | cons c t ih =>
    have hc : ('!' == c) = false := by
      have : c ≠ '!' := fun e => h (e ▸ List.mem_cons_self)
      simp [Ne.symm this]
    have ht : '!' ∉ t := fun m => h (List.mem_cons_of_mem _ m)
    simp [hasSub, isPrefix, hc, ih ht]

theorem GoodRow.hasSub {l : Line} (h : GoodRow l) (k : List Char) : hasSub ('!' :: k) l = false :=
  hasSub_bang_of_not_mem k l (not_mem_of_rowChar h.2 '!' (by decide))

theorem GoodRow.startsAlpha {l : Line} (h : GoodRow l) : startsWithP isAlpha l = false := by
  obtain ⟨⟨c, t, rfl, hd⟩, _⟩ := h
  have h2 : isWs c = false := isWs_of_isDigit hd
  simp [startsWithP, trimLeft, List.dropWhile, h2, isAlpha_of_isDigit hd]

/-- `_extend_assignments` leaves rows addressed by numeric ids alone, whatever the node groups are -/
theorem extendAssignments_good (ng : List (Name × List Nat)) (rows : List Line) (h : ∀ l ∈ rows, GoodRow l) :
    extendAssignments ng rows = some rows := by
  have : rows.filter (startsWithP isAlpha) = [] := by
    rw [List.filter_eq_nil_iff]
    intro l hl; simp [(h l hl).startsAlpha]
  simp [extendAssignments, this]

/-! ### optional sections as lines and as blocks -/
/-- lines / rows of an optional section (`none` = not written) -/
def optL {α β} (o : Option α) (f : α → List β) : List β := match o with | none => [] | some a => f a

/-- an optional section as a block -/
def optSec {α} (o : Option α) (hdr : Line) (rows : α → List Line) : List (Line × List Line) :=
  match o with | none => [] | some a => [(hdr, rows a)]

theorem optBlock_some {α} (o : Option α) (f : α → List Line) : optBlock o (fun a => some (f a)) = some (optL o f) := by
  cases o <;> rfl

theorem optL_map {α β γ} (o : Option α) (f : α → List β) (g : β → γ) : optL o (fun a => (f a).map g) = (optL o f).map g := by
  cases o <;> rfl

/-- headers start with `!` and survive the comment filter; data lines do not start with `!`, survive the
    filter and do not contain `!SOLUTION` -/
def GoodBlocks (bs : List (Line × List Line)) : Prop :=
  ∀ b ∈ bs, isHeader b.1 = true ∧ ignoreLine b.1 = false ∧
    ∀ l ∈ b.2, isHeader l = false ∧ ignoreLine l = false ∧ hasSub c!"!SOLUTION" l = false

theorem GoodBlocks.append {a b : List (Line × List Line)} (ha : GoodBlocks a) (hb : GoodBlocks b) : GoodBlocks (a ++ b) := by
  intro x hx
  rcases List.mem_append.mp hx with h | h
  · exact ha x h
  · exact hb x h

theorem GoodBlocks.wf {bs : List (Line × List Line)} (h : GoodBlocks bs) : WFBlocks bs :=
  fun b hb => ⟨(h b hb).1, fun l hl => ((h b hb).2.2 l hl).1⟩

theorem GoodBlocks.clean {bs : List (Line × List Line)} (h : GoodBlocks bs) : ∀ l ∈ renderBlocks bs, ignoreLine l = false := by
  intro l hl
  simp only [renderBlocks, List.mem_flatMap, List.mem_cons] at hl
  obtain ⟨b, hb, rfl | hl⟩ := hl
  · exact (h b hb).2.1
  · exact ((h b hb).2.2 l hl).2.1

theorem goodBlocks_optSec {α} (o : Option α) (hdr : Line) (rows : α → List Line) (hh : isHeader hdr = true)
    (hi : ignoreLine hdr = false) (hr : ∀ a, ∀ l ∈ rows a, GoodRow l) : GoodBlocks (optSec o hdr rows) := by
  cases o with
  | none => intro b hb; cases hb
  | some a =>
    intro b hb
    simp only [optSec, List.mem_singleton] at hb
    subst hb
    exact ⟨hh, hi, fun l hl => ⟨(hr a l hl).isHeader, (hr a l hl).ignoreLine, (hr a l hl).hasSub _⟩⟩

theorem renderBlocks_append (a b : List (Line × List Line)) : renderBlocks (a ++ b) = renderBlocks a ++ renderBlocks b := by
  simp [renderBlocks]

theorem filter_clean (t : List Line) (h : ∀ l ∈ t, ignoreLine l = false) : t.filter (fun l => !ignoreLine l) = t :=
  List.filter_eq_self.mpr (by intro l hl; simp [h l hl])

/-- an empty table is written as the header followed by one empty line, which the filter removes -/
theorem filter_blockLines (hdr : Line) (rows : List Line) (hh : ignoreLine hdr = false) (hr : ∀ l ∈ rows, ignoreLine l = false) :
    (blockLines hdr rows).filter (fun l => !ignoreLine l) = hdr :: rows := by
  cases rows with
  | nil =>
    have he : ignoreLine ([] : Line) = true := by decide
    simp [blockLines, hh, he]
  | cons r t =>
    have : blockLines hdr (r :: t) = hdr :: r :: t := by simp [blockLines]
    rw [this]
    exact filter_clean _ (by
      intro l hl
      rcases List.mem_cons.mp hl with rfl | hl
      · exact hh
      · exact hr l hl)

/-- header scan of filtered lines: the lines matching `p` are the matching headers when no data line matches -/
theorem filter_renderBlocks (p : Line → Bool) (bs : List (Line × List Line)) (h : ∀ b ∈ bs, ∀ l ∈ b.2, p l = false) :
    (renderBlocks bs).filter p = (bs.filter fun b => p b.1).map (·.1) := by
  induction bs with
  | nil => rfl
  | cons b t ih =>
    have hb : b.2.filter p = [] := by
      rw [List.filter_eq_nil_iff]; intro l hl; simp [h b (by simp) l hl]
    have ht := ih (fun x hx => h x (List.mem_cons_of_mem _ hx))
    have hr : renderBlocks (b :: t) = b.1 :: (b.2 ++ renderBlocks t) := by simp [renderBlocks]
    rw [hr, List.filter_cons, List.filter_append, hb, List.nil_append, ht, List.filter_cons]
    cases p b.1 <;> simp

/-! ### key search -/
theorem blocksOf_append (k : List Char) (a b : List (Line × List Line)) : blocksOf k (a ++ b) = blocksOf k a ++ blocksOf k b := by
  simp [blocksOf]

theorem blocksOf_optSec_pos {α} (k : List Char) (o : Option α) (hdr : Line) (rows : α → List Line) (h : hasSub k hdr = true) :
    blocksOf k (optSec o hdr rows) = optSec o hdr rows := by
  cases o <;> simp [optSec, blocksOf, h]

theorem blocksOf_optSec_neg {α} (k : List Char) (o : Option α) (hdr : Line) (rows : α → List Line) (h : hasSub k hdr = false) :
    blocksOf k (optSec o hdr rows) = [] := by
  cases o <;> simp [optSec, blocksOf, h]

theorem flatMap_optSec {α} (o : Option α) (hdr : Line) (rows : α → List Line) :
    (optSec o hdr rows).flatMap (·.2) = optL o rows := by
  cases o <;> simp [optSec, optL]

theorem renderBlocks_optSec {α} (o : Option α) (hdr : Line) (rows : α → List Line) :
    renderBlocks (optSec o hdr rows) = optL o (fun a => hdr :: rows a) := by
  cases o <;> simp [optSec, optL, renderBlocks]

/-! ### the written file -/
def bRowsText (t : List (Row Sci)) : List Line := (boundaryRows t).map bLineText
def sRowsText (t : List (Row Sci)) : List Line := (springRows t).map dLineText
def lRowsText (t : List (Row Sci)) : List Line := (cloadRows t).map dLineText
def scRowsText (t : List (Nat × Sci)) : List Line := t.map sLineText

/-- the lines `write_cnt` emits when it does not raise -/
def cntText (c : CntIn) : List Line :=
  cntHead c
  ++ optL c.boundary (fun t => c!"!BOUNDARY" :: bRowsText t)
  ++ optL c.spring springLines
  ++ optL c.cload (fun t => c!"!CLOAD" :: lRowsText t)
  ++ optL c.fixtemp (scalarLines c!"!FIXTEMP")
  ++ optL c.cflux (scalarLines c!"!CFLUX")
  ++ optL c.pureCflux (scalarLines c!"!CFLUX, TYPE=PURE")
  ++ cntTail

theorem writeCnt_eq (c : CntIn) (hb : ∀ t, c.boundary = some t → boundaryRows t ≠ [])
    (hl : ∀ t, c.cload = some t → cloadRows t ≠ []) : writeCnt c = some (cntText c) := by
  have h1 : optBlock c.boundary boundaryLines = some (optL c.boundary (fun t => c!"!BOUNDARY" :: bRowsText t)) := by
    cases h : c.boundary with
    | none => rfl
    | some t =>
      have := hb t h
      simp [optBlock, optL, boundaryLines, nonemptyOr, bRowsText, this]
  have h3 : optBlock c.cload cloadLines = some (optL c.cload (fun t => c!"!CLOAD" :: lRowsText t)) := by
    cases h : c.cload with
    | none => rfl
    | some t =>
      have := hl t h
      simp [optBlock, optL, cloadLines, nonemptyOr, lRowsText, this]
  simp only [writeCnt, h1, h3, optBlock_some, cntText]
  rfl

/-- the boilerplate after the `!SOLUTION` line, as blocks -/
def headRest (heat solid : Bool) : List (Line × List Line) :=
  (if heat then [(c!"!HEAT", [])] else [])
  ++ [(c!"!WRITE,RESULT, FREQUENCY=1", []), (c!"!WRITE,VISUAL, FREQUENCY=1", [])]
  ++ (if solid then
        [(c!"!OUTPUT_RES", [c!"ESTRAIN,ON", c!"ESTRESS,ON", c!"EMISES,ON", c!"ISTRAIN,ON", c!"ITEMP,ON"]),
         (c!"!OUTPUT_VIS", [c!"ESTRAIN,ON", c!"ESTRESS,ON", c!"EMISES,ON", c!"TEMPERATURE,ON"])]
      else [(c!"!OUTPUT_RES", [c!"DISP,ON"])])

def tailBlocks : List (Line × List Line) :=
  [(c!"!SOLVER,METHOD=MUMPS,PRECOND=1,ITERLOG=YES,TIMELOG=YES", [c!"100000000, 1", c!"1.0e-08, 1.0, 0.0"]),
   (c!"!VISUAL, method=PSR", []), (c!"!surface_num = 1", []), (c!"!surface 1", []),
   (c!"!output_type = COMPLETE_REORDER_AVS", []), (c!"!END", [])]

def headBlocks (c : CntIn) : List (Line × List Line) :=
  [(c!"!VERSION", [c!"5"])] ++ [(solutionLine c.solution, [])] ++ headRest (decide (c.solution = c!"HEAT")) c.onlySolid

/-- what the header scan of the written file must return -/
def cntBlocks (c : CntIn) : List (Line × List Line) :=
  headBlocks c
  ++ optSec c.boundary c!"!BOUNDARY" bRowsText
  ++ optSec c.spring c!"!SPRING" sRowsText
  ++ optSec c.cload c!"!CLOAD" lRowsText
  ++ optSec c.fixtemp c!"!FIXTEMP" scRowsText
  ++ optSec c.cflux c!"!CFLUX" scRowsText
  ++ optSec c.pureCflux c!"!CFLUX, TYPE=PURE" scRowsText
  ++ tailBlocks

theorem renderBlocks_headBlocks (c : CntIn) : renderBlocks (headBlocks c) = cntHead c := by
  by_cases hh : c.solution = c!"HEAT" <;> cases hs : c.onlySolid <;>
    simp [headBlocks, headRest, cntHead, renderBlocks, hh, hs]

theorem renderBlocks_tailBlocks : renderBlocks tailBlocks = cntTail := by decide

/-- a solution-type token: non-empty, `\w` characters -/
def IsWordTok (s : Name) : Prop := s ≠ [] ∧ ∀ ch ∈ s, isWord ch = true

instance (s : Name) : Decidable (IsWordTok s) := by unfold IsWordTok; infer_instance

theorem not_mem_of_word {s : Name} (hs : ∀ ch ∈ s, isWord ch = true) (x : Char) (hx : isWord x = false) : x ∉ s :=
  fun m => by simp [hs x m] at hx

theorem goodRows_b (t : List (Row Sci)) : ∀ l ∈ bRowsText t, GoodRow l := by
  intro l hl; obtain ⟨r, _, rfl⟩ := List.mem_map.mp hl; exact goodRow_bLine r
theorem goodRows_s (t : List (Row Sci)) : ∀ l ∈ sRowsText t, GoodRow l := by
  intro l hl; obtain ⟨r, _, rfl⟩ := List.mem_map.mp hl; exact goodRow_dLine r
theorem goodRows_l (t : List (Row Sci)) : ∀ l ∈ lRowsText t, GoodRow l := by
  intro l hl; obtain ⟨r, _, rfl⟩ := List.mem_map.mp hl; exact goodRow_dLine r
theorem goodRows_sc (t : List (Nat × Sci)) : ∀ l ∈ scRowsText t, GoodRow l := by
  intro l hl; obtain ⟨r, _, rfl⟩ := List.mem_map.mp hl; exact goodRow_sLine r

theorem goodBlocks_version : GoodBlocks [(c!"!VERSION", [c!"5"])] := by unfold GoodBlocks; decide
theorem goodBlocks_headRest : ∀ heat solid : Bool, GoodBlocks (headRest heat solid) := by
  intro heat solid; cases heat <;> cases solid <;> (unfold GoodBlocks; decide)
theorem goodBlocks_tail : GoodBlocks tailBlocks := by unfold GoodBlocks; decide

theorem ignoreLine_solutionLine (s : Name) (hs : ∀ ch ∈ s, isWord ch = true) : ignoreLine (solutionLine s) = false := by
  have h1 : '#' ∉ s := not_mem_of_word hs '#' (by decide)
  simp [ignoreLine, solutionLine, h1, isWs]

theorem goodBlocks_solution (s : Name) (hs : ∀ ch ∈ s, isWord ch = true) : GoodBlocks [(solutionLine s, [])] := by
  intro b hb
  simp only [List.mem_singleton] at hb
  subst hb
  exact ⟨rfl, ignoreLine_solutionLine s hs, fun l hl => by cases hl⟩

theorem goodBlocks_head (c : CntIn) (hs : ∀ ch ∈ c.solution, isWord ch = true) : GoodBlocks (headBlocks c) :=
  (goodBlocks_version.append (goodBlocks_solution _ hs)).append (goodBlocks_headRest _ _)

theorem goodBlocks_cntBlocks (c : CntIn) (hs : ∀ ch ∈ c.solution, isWord ch = true) : GoodBlocks (cntBlocks c) := by
  unfold cntBlocks
  refine (((((((goodBlocks_head c hs).append ?_).append ?_).append ?_).append ?_).append ?_).append ?_).append goodBlocks_tail
  · exact goodBlocks_optSec _ _ _ (by decide) (by decide) goodRows_b
  · exact goodBlocks_optSec _ _ _ (by decide) (by decide) goodRows_s
  · exact goodBlocks_optSec _ _ _ (by decide) (by decide) goodRows_l
  · exact goodBlocks_optSec _ _ _ (by decide) (by decide) goodRows_sc
  · exact goodBlocks_optSec _ _ _ (by decide) (by decide) goodRows_sc
  · exact goodBlocks_optSec _ _ _ (by decide) (by decide) goodRows_sc

theorem filter_optL {α} (o : Option α) (p : Line → Bool) (f g : α → List Line) (h : ∀ a, (f a).filter p = g a) :
    (optL o f).filter p = optL o g := by
  cases o with
  | none => rfl
  | some a => exact h a

theorem ignore_of_good {rows : List Line} (h : ∀ l ∈ rows, GoodRow l) : ∀ l ∈ rows, ignoreLine l = false :=
  fun l hl => (h l hl).ignoreLine

theorem filter_hdr_rows (hdr : Line) (rows : List Line) (hh : ignoreLine hdr = false) (hr : ∀ l ∈ rows, GoodRow l) :
    (hdr :: rows).filter (fun l => !ignoreLine l) = hdr :: rows :=
  filter_clean _ (by
    intro l hl
    rcases List.mem_cons.mp hl with rfl | hl
    · exact hh
    · exact (hr l hl).ignoreLine)

/-- after the comment / blank filter the written file is exactly the rendering of `cntBlocks` -/
theorem filter_cntText (c : CntIn) (hs : ∀ ch ∈ c.solution, isWord ch = true) :
    (cntText c).filter (fun l => !ignoreLine l) = renderBlocks (cntBlocks c) := by
  have hhead : (cntHead c).filter (fun l => !ignoreLine l) = cntHead c :=
    filter_clean _ (by rw [← renderBlocks_headBlocks]; exact (goodBlocks_head c hs).clean)
  have htail : cntTail.filter (fun l => !ignoreLine l) = cntTail :=
    filter_clean _ (by rw [← renderBlocks_tailBlocks]; exact goodBlocks_tail.clean)
  have hb := filter_optL c.boundary (fun l => !ignoreLine l) (fun t => c!"!BOUNDARY" :: bRowsText t)
    (fun t => c!"!BOUNDARY" :: bRowsText t) (fun t => filter_hdr_rows _ _ (by decide) (goodRows_b t))
  have hsp := filter_optL c.spring (fun l => !ignoreLine l) springLines (fun t => c!"!SPRING" :: sRowsText t)
    (fun t => filter_blockLines _ _ (by decide) (ignore_of_good (goodRows_s t)))
  have hl := filter_optL c.cload (fun l => !ignoreLine l) (fun t => c!"!CLOAD" :: lRowsText t)
    (fun t => c!"!CLOAD" :: lRowsText t) (fun t => filter_hdr_rows _ _ (by decide) (goodRows_l t))
  have hft := filter_optL c.fixtemp (fun l => !ignoreLine l) (scalarLines c!"!FIXTEMP") (fun t => c!"!FIXTEMP" :: scRowsText t)
    (fun t => filter_blockLines _ _ (by decide) (ignore_of_good (goodRows_sc t)))
  have hcf := filter_optL c.cflux (fun l => !ignoreLine l) (scalarLines c!"!CFLUX") (fun t => c!"!CFLUX" :: scRowsText t)
    (fun t => filter_blockLines _ _ (by decide) (ignore_of_good (goodRows_sc t)))
  have hpf := filter_optL c.pureCflux (fun l => !ignoreLine l) (scalarLines c!"!CFLUX, TYPE=PURE")
    (fun t => c!"!CFLUX, TYPE=PURE" :: scRowsText t)
    (fun t => filter_blockLines _ _ (by decide) (ignore_of_good (goodRows_sc t)))
  simp only [cntText, cntBlocks, List.filter_append, renderBlocks_append, renderBlocks_optSec, renderBlocks_headBlocks,
    renderBlocks_tailBlocks, hhead, htail, hb, hsp, hl, hft, hcf, hpf]

/-- **header scan of the written file** -/
theorem toBlocks_cntText (c : CntIn) (hs : ∀ ch ∈ c.solution, isWord ch = true) : toBlocks (cntText c) = cntBlocks c := by
  unfold toBlocks
  rw [filter_cntText c hs, toBlocksAux_render _ (goodBlocks_cntBlocks c hs).wf]

/-! ### key search in the written file -/
/-- the keys of the constraint sections -/
def dataKeys : List (List Char) := [c!"!BOUNDARY", c!"!SPRING", c!"!CLOAD", c!"!FIXTEMP", c!"!CFLUX"]

theorem hasSub_solutionLine_pos (s : Name) : hasSub c!"!SOLUTION" (solutionLine s) = true := by
  simp [hasSub, isPrefix, solutionLine]

theorem hasSub_solutionLine_neg (s : Name) (hs : ∀ ch ∈ s, isWord ch = true) :
    ∀ k ∈ dataKeys, hasSub k (solutionLine s) = false := by
  have h1 : '!' ∉ s := not_mem_of_word hs '!' (by decide)
  have h2 : '!' ∉ c!"SOLUTION, TYPE=" ++ s := by simp [h1]
  have hsl : solutionLine s = '!' :: (c!"SOLUTION, TYPE=" ++ s) := rfl
  intro k hk
  simp only [dataKeys, List.mem_cons, List.not_mem_nil, or_false] at hk
  rcases hk with rfl | rfl | rfl | rfl | rfl <;>
    (rw [hsl, hasSub, hasSub_bang_of_not_mem _ _ h2]; simp [isPrefix])

theorem blocksOf_head_data (c : CntIn) (hs : ∀ ch ∈ c.solution, isWord ch = true) :
    ∀ k ∈ dataKeys, blocksOf k (headBlocks c) = [] := by
  have h0 : ∀ k ∈ dataKeys, blocksOf k [(c!"!VERSION", [c!"5"])] = [] := by decide
  have h2 : ∀ heat solid : Bool, ∀ k ∈ dataKeys, blocksOf k (headRest heat solid) = [] := by decide
  intro k hk
  have h1 : blocksOf k [(solutionLine c.solution, [])] = [] := by
    simp [blocksOf, hasSub_solutionLine_neg _ hs k hk]
  simp only [headBlocks, blocksOf_append, h0 k hk, h1, h2 _ _ k hk, List.append_nil]

theorem blocksOf_tail_data : ∀ k ∈ dataKeys, blocksOf k tailBlocks = [] := by decide

theorem blocksOf_head_solution (c : CntIn) : blocksOf c!"!SOLUTION" (headBlocks c) = [(solutionLine c.solution, [])] := by
  have h0 : blocksOf c!"!SOLUTION" [(c!"!VERSION", [c!"5"])] = [] := by decide
  have h2 : ∀ heat solid : Bool, blocksOf c!"!SOLUTION" (headRest heat solid) = [] := by decide
  have h1 : blocksOf c!"!SOLUTION" [(solutionLine c.solution, [])] = [(solutionLine c.solution, [])] := by
    simp [blocksOf, hasSub_solutionLine_pos]
  simp only [headBlocks, blocksOf_append, h0, h1, h2, List.append_nil, List.nil_append]

theorem blocksOf_cnt_solution (c : CntIn) : blocksOf c!"!SOLUTION" (cntBlocks c) = [(solutionLine c.solution, [])] := by
  have ht : blocksOf c!"!SOLUTION" tailBlocks = [] := by decide
  simp (disch := decide) only [cntBlocks, blocksOf_append, blocksOf_head_solution, ht, blocksOf_optSec_neg, List.append_nil]

theorem blocksOf_cnt_boundary (c : CntIn) (hs : ∀ ch ∈ c.solution, isWord ch = true) :
    blocksOf c!"!BOUNDARY" (cntBlocks c) = optSec c.boundary c!"!BOUNDARY" bRowsText := by
  simp (disch := decide) only [cntBlocks, blocksOf_append, blocksOf_head_data c hs _ (by decide : c!"!BOUNDARY" ∈ dataKeys),
    blocksOf_tail_data _ (by decide : c!"!BOUNDARY" ∈ dataKeys), blocksOf_optSec_neg, blocksOf_optSec_pos,
    List.append_nil, List.nil_append]

theorem blocksOf_cnt_spring (c : CntIn) (hs : ∀ ch ∈ c.solution, isWord ch = true) :
    blocksOf c!"!SPRING" (cntBlocks c) = optSec c.spring c!"!SPRING" sRowsText := by
  simp (disch := decide) only [cntBlocks, blocksOf_append, blocksOf_head_data c hs _ (by decide : c!"!SPRING" ∈ dataKeys),
    blocksOf_tail_data _ (by decide : c!"!SPRING" ∈ dataKeys), blocksOf_optSec_neg, blocksOf_optSec_pos,
    List.append_nil, List.nil_append]

theorem blocksOf_cnt_cload (c : CntIn) (hs : ∀ ch ∈ c.solution, isWord ch = true) :
    blocksOf c!"!CLOAD" (cntBlocks c) = optSec c.cload c!"!CLOAD" lRowsText := by
  simp (disch := decide) only [cntBlocks, blocksOf_append, blocksOf_head_data c hs _ (by decide : c!"!CLOAD" ∈ dataKeys),
    blocksOf_tail_data _ (by decide : c!"!CLOAD" ∈ dataKeys), blocksOf_optSec_neg, blocksOf_optSec_pos,
    List.append_nil, List.nil_append]

theorem blocksOf_cnt_fixtemp (c : CntIn) (hs : ∀ ch ∈ c.solution, isWord ch = true) :
    blocksOf c!"!FIXTEMP" (cntBlocks c) = optSec c.fixtemp c!"!FIXTEMP" scRowsText := by
  simp (disch := decide) only [cntBlocks, blocksOf_append, blocksOf_head_data c hs _ (by decide : c!"!FIXTEMP" ∈ dataKeys),
    blocksOf_tail_data _ (by decide : c!"!FIXTEMP" ∈ dataKeys), blocksOf_optSec_neg, blocksOf_optSec_pos,
    List.append_nil, List.nil_append]

/-- `!CFLUX` is a substring of both the `!CFLUX` and the `!CFLUX, TYPE=PURE` header -/
theorem blocksOf_cnt_cflux (c : CntIn) (hs : ∀ ch ∈ c.solution, isWord ch = true) :
    blocksOf c!"!CFLUX" (cntBlocks c) =
      optSec c.cflux c!"!CFLUX" scRowsText ++ optSec c.pureCflux c!"!CFLUX, TYPE=PURE" scRowsText := by
  simp (disch := decide) only [cntBlocks, blocksOf_append, blocksOf_head_data c hs _ (by decide : c!"!CFLUX" ∈ dataKeys),
    blocksOf_tail_data _ (by decide : c!"!CFLUX" ∈ dataKeys), blocksOf_optSec_neg, blocksOf_optSec_pos,
    List.append_nil, List.nil_append]

/-- the `TYPE=` captures of the `!CFLUX…` headers: `PURE` iff the pure section is written -/
theorem cflux_types (c : CntIn) (hs : ∀ ch ∈ c.solution, isWord ch = true) :
    (blocksOf c!"!CFLUX" (cntBlocks c)).filterMap (fun b => capture c!"TYPE=" b.1) =
      optL c.pureCflux (fun _ => [c!"PURE"]) := by
  have h1 : capture c!"TYPE=" c!"!CFLUX" = none := by decide
  have h2 : capture c!"TYPE=" c!"!CFLUX, TYPE=PURE" = some c!"PURE" := by decide
  rw [blocksOf_cnt_cflux c hs, List.filterMap_append]
  cases c.cflux <;> cases c.pureCflux <;> simp [optSec, optL, h1, h2]

/-- `_read_cnt_solution_type` on the written file looks at the `!SOLUTION` line only -/
theorem readSolution_cntText (c : CntIn) (hs : ∀ ch ∈ c.solution, isWord ch = true) :
    readSolution (cntText c) = capture c!"TYPE=" (solutionLine c.solution) := by
  have hno : ∀ b ∈ cntBlocks c, ∀ l ∈ b.2, hasSub c!"!SOLUTION" l = false :=
    fun b hb l hl => ((goodBlocks_cntBlocks c hs b hb).2.2 l hl).2.2
  have hf : (renderBlocks (cntBlocks c)).filter (hasSub c!"!SOLUTION") = [solutionLine c.solution] := by
    rw [filter_renderBlocks _ _ hno]
    show (blocksOf c!"!SOLUTION" (cntBlocks c)).map (·.1) = _
    rw [blocksOf_cnt_solution]; rfl
  unfold readSolution
  rw [filter_cntText c hs, hf]

/-! ### the section reader on written rows -/
theorem mapM_map_of_forall_mem {α β γ} (g : α → γ) (f : γ → Option β) (k : α → β) (l : List α)
    (h : ∀ a ∈ l, f (g a) = some (k a)) : (l.map g).mapM f = some (l.map k) := by
  induction l with
  | nil => rfl
  | cons a t ih =>
    simp [List.mapM_cons, h a (by simp), ih (fun x hx => h x (List.mem_cons_of_mem _ hx))]

/-- a section whose data lines are the written rows `rows.map txt`: `_extend_assignments` is the identity, every row
    parses (`hp`) and converts (`hc`); a section without data lines is absent -/
theorem readSection_rows {ρ α β} (ng : List (Name × List Nat)) (key : List Char) (parse : Line → Option α)
    (conv : α → Option β) (bs : List (Line × List Line)) (rows : List ρ) (txt : ρ → Line) (g : ρ → α) (h : ρ → β)
    (hd : extractData key bs = rows.map txt) (hgood : ∀ r, GoodRow (txt r)) (hp : ∀ r, parse (txt r) = some (g r))
    (hc : ∀ r ∈ rows, conv (g r) = some (h r)) :
    readSection ng key parse conv bs = some (nonemptyOr (rows.map h)) := by
  unfold readSection
  rw [hd]
  cases rows with
  | nil => simp [nonemptyOr]
  | cons r t =>
    have hg : ∀ l ∈ (r :: t).map txt, GoodRow l := by
      intro l hl; obtain ⟨x, _, rfl⟩ := List.mem_map.mp hl; exact hgood x
    have h1 := extendAssignments_good ng _ hg
    have h2 := mapM_map_of_forall txt parse g hp (r :: t)
    have h3 := mapM_map_of_forall_mem g conv h (r :: t) hc
    have hne : ((r :: t).map txt).isEmpty = false := rfl
    have hne' : ((r :: t).map h).isEmpty = false := rfl
    simp only [hne, Bool.false_eq_true, if_false, h1, Option.bind_eq_bind, Option.bind_some, h2, h3, Option.pure_def,
      nonemptyOr, hne']

theorem extractData_eq (k : List Char) (bs : List (Line × List Line)) : extractData k bs = (blocksOf k bs).flatMap (·.2) := rfl

/-! ### data lines of each section of the written file -/
theorem extractData_cnt_boundary (c : CntIn) (hs : ∀ ch ∈ c.solution, isWord ch = true) :
    extractData c!"!BOUNDARY" (cntBlocks c) = (optL c.boundary boundaryRows).map bLineText := by
  rw [extractData_eq, blocksOf_cnt_boundary c hs, flatMap_optSec]; exact optL_map _ _ _

theorem extractData_cnt_spring (c : CntIn) (hs : ∀ ch ∈ c.solution, isWord ch = true) :
    extractData c!"!SPRING" (cntBlocks c) = (optL c.spring springRows).map dLineText := by
  rw [extractData_eq, blocksOf_cnt_spring c hs, flatMap_optSec]; exact optL_map _ _ _

theorem extractData_cnt_cload (c : CntIn) (hs : ∀ ch ∈ c.solution, isWord ch = true) :
    extractData c!"!CLOAD" (cntBlocks c) = (optL c.cload cloadRows).map dLineText := by
  rw [extractData_eq, blocksOf_cnt_cload c hs, flatMap_optSec]; exact optL_map _ _ _

theorem extractData_cnt_fixtemp (c : CntIn) (hs : ∀ ch ∈ c.solution, isWord ch = true) :
    extractData c!"!FIXTEMP" (cntBlocks c) = (optL c.fixtemp id).map sLineText := by
  rw [extractData_eq, blocksOf_cnt_fixtemp c hs, flatMap_optSec]; exact optL_map _ _ _

/-- the reader sees the rows of `!CFLUX` and `!CFLUX, TYPE=PURE` as one table -/
theorem extractData_cnt_cflux (c : CntIn) (hs : ∀ ch ∈ c.solution, isWord ch = true) :
    extractData c!"!CFLUX" (cntBlocks c) = (optL c.cflux id ++ optL c.pureCflux id).map sLineText := by
  rw [extractData_eq, blocksOf_cnt_cflux c hs, List.flatMap_append, flatMap_optSec, flatMap_optSec, List.map_append]
  congr 1 <;> exact optL_map _ _ _

/-! ### tables of decimal values -/
/-- apply `f` to every value of a table -/
def mapTable {V W} (f : V → W) (t : List (Row V)) : List (Row W) := t.map fun r => (r.1, r.2.map (Option.map f))

theorem tableWidth_mapTable {V W} (f : V → W) (t : List (Row V)) : tableWidth (mapTable f t) = tableWidth t := by
  cases t <;> simp [tableWidth, mapTable]

theorem genConstraints_mapTable {V W} (f : V → W) (w : Nat) (t : List (Row V)) :
    genConstraints w (mapTable f t) = (genConstraints w t).map fun p => (p.1, p.2.1, f p.2.2) := by
  simp only [genConstraints, mapTable, List.map_flatMap, List.filterMap_map, List.map_filterMap]
  congr 1; funext k; congr 1; funext r
  simp only [Function.comp, List.getElem?_map]
  rcases r.2[k]? with _ | _ | x <;> rfl

theorem boundaryRows_mapTable {V W} (f : V → W) (t : List (Row V)) :
    boundaryRows (mapTable f t) = (boundaryRows t).map fun l => ⟨l.id, l.first, l.last, f l.val⟩ := by
  simp [boundaryRows, tableWidth_mapTable, genConstraints_mapTable]

theorem cloadRows_mapTable {V W} (f : V → W) (t : List (Row V)) :
    cloadRows (mapTable f t) = (cloadRows t).map fun l => ⟨l.id, l.dof, f l.val⟩ := by
  simp [cloadRows, tableWidth_mapTable, genConstraints_mapTable]

theorem springRows_mapTable {V W} (f : V → W) (t : List (Row V)) :
    springRows (mapTable f t) = (springRows t).map fun l => ⟨l.id, l.dof, f l.val⟩ := by
  simp only [springRows, mapTable, List.flatMap_map, List.map_flatMap, List.map_filterMap, List.length_map]
  congr 1; funext r; congr 1; funext k
  simp only [List.getElem?_map]
  rcases r.2[k]? with _ | _ | x <;> rfl

theorem mapTable_width {V W} (f : V → W) (t : List (Row V)) (w : Nat) (hw : ∀ r ∈ t, r.2.length = w) :
    ∀ r ∈ mapTable f t, r.2.length = w := by
  intro r hr
  obtain ⟨r0, h0, rfl⟩ := List.mem_map.mp hr
  simpa using hw r0 h0

theorem mem_optL {α β} (o : Option α) (f : α → List β) (x : β) : x ∈ optL o f ↔ ∃ a, o = some a ∧ x ∈ f a := by
  cases o <;> simp [optL]

theorem nonemptyOr_optL {α β γ} (o : Option α) (f : α → List β) (h : β → γ) :
    nonemptyOr ((optL o f).map h) = o.bind fun t => nonemptyOr ((f t).map h) := by
  cases o <;> rfl

theorem nonemptyOr_of_ne {α} (l : List α) (h : l ≠ []) : nonemptyOr l = some l := by
  cases l with
  | nil => exact absurd rfl h
  | cons a t => rfl

/-! ### the reader, given what its parts return -/
/-- the last step of `_read_cnt`: the `!CFLUX…` rows go to `cflux` or `pure_cflux` according to the captured types -/
def finishCflux (sol : Name) (b s l : Option (List (Row Dec))) (ft cfAll : Option (List (Nat × Dec)))
    (types : List Name) : Option CntRead :=
  match cfAll with
  | none => some ⟨sol, b, s, l, ft, none, none⟩
  | some rows =>
    if types.isEmpty then some ⟨sol, b, s, l, ft, some rows, none⟩
    else if types = [c!"PURE"] then some ⟨sol, b, s, l, ft, none, some rows⟩
    else none

theorem readCnt_eq (ng : List (Name × List Nat)) (text : List Line) (sol : Name) (bs : List (Line × List Line))
    (b s l : Option (List (Row Dec))) (ft cf : Option (List (Nat × Dec)))
    (h1 : readSolution text = some sol) (h2 : toBlocks text = bs)
    (hb : readSection ng c!"!BOUNDARY" parseBLine readBLineG bs = some b)
    (hs : readSection ng c!"!SPRING" parseDLine readDLineG bs = some s)
    (hl : readSection ng c!"!CLOAD" parseDLine readDLineG bs = some l)
    (hft : readSection ng c!"!FIXTEMP" parseSLine some bs = some ft)
    (hcf : readSection ng c!"!CFLUX" parseSLine some bs = some cf) :
    readCnt ng text = finishCflux sol b s l ft cf ((blocksOf c!"!CFLUX" bs).filterMap fun b => capture c!"TYPE=" b.1) := by
  unfold readCnt finishCflux
  simp only [h1, h2, hb, hs, hl, hft, hcf, Option.bind_eq_bind, Option.bind_some]
  cases cf <;> rfl

end Femio.Fistr.CntFile
