import Femio.Model.Faces
import Mathlib.Data.List.Nodup
import Mathlib.Data.List.Count
import Mathlib.Tactic.Linarith

/-! C12_structure: which cells a facet is incident to, in `calculate_relative_incidence_metrix_element`
    (cell ⊇ all nodes of the facet), for the facet list `to_facets(remove_duplicates=True)`. -/
open Faces

structure Cell where
  nodes : List Nat           -- node ids of the cell
  faces : List Face          -- its own faces (from the per-type table)

/-- the code's incidence test: every node of the facet is a node of the cell -/
def incident (c : Cell) (f : Face) : Bool := f.all fun n => c.nodes.contains n

/-- a facet whose nodes all lie in a cell is one of that cell's faces (as a node set) — true for
    non-overlapping meshes; an explicit, decidable hypothesis here -/
def faceDeterminedB (cells : List Cell) (facets : List Face) : Bool :=
  cells.all fun c => facets.all fun f => !incident c f || c.faces.any fun g => key g == key f

/-- each face of a cell uses only nodes of the cell -/
def ownNodesB (cells : List Cell) : Bool :=
  cells.all fun c => c.faces.all fun g => g.all fun n => c.nodes.contains n

theorem incident_of_key_eq (c : Cell) (f g : Face) (hk : key g = key f) (hg : incident c g = true) :
    incident c f = true := by
  -- `key` is a permutation of the face, so both faces have the same nodes
  have hperm : ∀ h : Face, (key h).Perm h := by
    intro h
    unfold key
    induction h with
    | nil => exact List.Perm.refl _
    | cons a t ih =>
      simp only [List.foldr_cons]
      have : ∀ (x : Nat) (l : List Nat), (insertNat x l).Perm (x :: l) := by
        intro x l
        induction l with
        | nil => exact List.Perm.refl _
        | cons y u ihu =>
          simp only [insertNat]
          split
          · exact List.Perm.refl _
          · exact (List.Perm.cons y ihu).trans (List.Perm.swap x y u)
      exact (this a _).trans (List.Perm.cons a ih)
  have hfg : ∀ n, n ∈ f → n ∈ g := by
    intro n hn
    have : n ∈ key f := (hperm f).symm.subset hn
    rw [← hk] at this
    exact (hperm g).subset this
  simp only [incident, List.all_eq_true] at hg ⊢
  intro n hn; exact hg n (hfg n hn)

/-- **C12_structure (incidence)**: under the two Boolean hypotheses, a cell is incident to a facet iff the
    facet is (as a node set) one of the cell's own faces. Hence a cell is incident to exactly its own
    faces, an interior facet (key shared by two cells) to those two cells, a boundary facet to one. -/
theorem incident_iff_own_face (cells : List Cell) (facets : List Face)
    (hfd : faceDeterminedB cells facets = true) (hown : ownNodesB cells = true)
    (c : Cell) (hc : c ∈ cells) (f : Face) (hf : f ∈ facets) :
    incident c f = true ↔ ∃ g ∈ c.faces, key g = key f := by
  constructor
  · intro hinc
    simp only [faceDeterminedB, List.all_eq_true, Bool.or_eq_true, Bool.not_eq_true', List.any_eq_true, beq_iff_eq] at hfd
    rcases hfd c hc f hf with h | h
    · rw [hinc] at h; cases h
    · exact h
  · rintro ⟨g, hg, hk⟩
    simp only [ownNodesB, List.all_eq_true] at hown
    have hgc : incident c g = true := by
      simp only [incident, List.all_eq_true]; exact hown c hc g hg
    exact incident_of_key_eq c f g hk hgc

#print axioms incident_iff_own_face
