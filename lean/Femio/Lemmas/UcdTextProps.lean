import Femio.Model.UcdText
import Femio.Lemmas.TextLexProps
import Femio.Lemmas.UcdProps

/-! C04 — character level: `lexLine (lineText l) = l` for every line the UCD writer emits, hence the lines (and
    the whole file text) lex back to the token lines the token-level round trip is about. -/
namespace Femio.C04
open Ucd Femio.Text Numeral

theorem contains_comma_false {s : Str} : s.contains ',' = false ↔ ',' ∉ s := by
  simp

theorem classify_showNat (n : Nat) : classify (showNat n) = .n n := by
  simp [classify, parseNat_showNat]

theorem classify_val (x : Str) (h : valOKB x = true) : classify x = .v x := by
  simp only [valOKB, Bool.and_eq_true, Option.isNone_iff_eq_none] at h
  simp [classify, h.1.2, h.2]

/-- every element type name of the source table is a token that lexes back to its index -/
theorem typeName_ok : ∀ k, k < Femio.Gen.elementTypes.length →
    (tokOKB (typeName k) && !(typeName k).contains ',' && (parseNat (typeName k)).isNone
      && (typeIndex (typeName k) == some k)) = true := by
  decide

theorem showTok_ok (t : Tok Str) (h : ucdTokOKB t = true) :
    classify (showTok t) = t ∧ TokOK (showTok t) ∧ ',' ∉ showTok t := by
  cases t with
  | n k => exact ⟨classify_showNat k, showNat_tokOK k, not_mem_showNat ',' (by decide) k⟩
  | v x =>
    have h' := h
    simp only [ucdTokOKB, valOKB, Bool.and_eq_true, Bool.not_eq_true'] at h'
    exact ⟨classify_val x h, (tokOKB_iff x).mp h'.1.1.1, contains_comma_false.mp h'.1.1.2⟩
  | w s => simp [ucdTokOKB] at h
  | t k =>
    have hk : k < Femio.Gen.elementTypes.length := by simpa [ucdTokOKB] using h
    have := typeName_ok k hk
    simp only [Bool.and_eq_true, Bool.not_eq_true', Option.isNone_iff_eq_none, beq_iff_eq] at this
    obtain ⟨⟨⟨h1, h2⟩, h3⟩, h4⟩ := this
    refine ⟨?_, (tokOKB_iff _).mp h1, contains_comma_false.mp h2⟩
    simp [showTok, classify, h3, h4]

theorem takeWhile_comma (s rest : Str) (h : ',' ∉ s) : (s ++ ',' :: rest).takeWhile (· ≠ ',') = s := by
  induction s with
  | nil => simp
  | cons c t ih =>
    have hc : c ≠ ',' := fun e => h (by simp [e])
    have := ih (fun m => h (by simp [m]))
    simp only [List.cons_append, List.takeWhile_cons, hc, ne_eq, not_false_eq_true, decide_true, if_true]
    exact congrArg (c :: ·) this

/-- **lexer ∘ printer on one line** -/
theorem lexLine_lineText (l : Line Str) (h : lineOKB l = true) : lexLine (lineText l) = l := by
  unfold lineOKB at h
  rw [Bool.or_eq_true] at h
  rcases h with h | h
  · rw [List.all_eq_true] at h
    have hs := fun t ht => showTok_ok t (h t ht)
    have hcomma : ',' ∉ lineText l := by
      apply not_mem_joinBlank ',' (by decide)
      intro t ht
      obtain ⟨tok, htok, rfl⟩ := List.mem_map.mp ht
      exact (hs tok htok).2.2
    unfold lexLine
    rw [contains_comma_false.mpr hcomma]
    simp only [Bool.false_eq_true, if_false, lineText]
    rw [splitBlank_joinBlank' _ (by
      intro t ht
      obtain ⟨tok, htok, rfl⟩ := List.mem_map.mp ht
      exact (hs tok htok).2.1), List.map_map]
    conv => rhs; rw [← List.map_id l]
    apply List.map_congr_left
    intro t ht
    exact (hs t ht).1
  · match l, h with
    | [.w s], h =>
      simp only [nameOKB, Bool.and_eq_true, Bool.not_eq_true'] at h
      have hc := contains_comma_false.mp h.2
      have : lineText [.w s] = s ++ ',' :: unitSuffix.tail := by simp [lineText, joinBlank, showTok, unitSuffix]
      rw [this]
      unfold lexLine
      have hcont : (s ++ ',' :: unitSuffix.tail).contains ',' = true := by simp
      rw [hcont]
      simp only [if_true, takeWhile_comma s _ hc]

/-- the printed line has no newline and is not empty -/
theorem lineText_props (l : Line Str) (hne : l ≠ []) (h : lineOKB l = true) : '\n' ∉ lineText l ∧ lineText l ≠ [] := by
  unfold lineOKB at h
  rw [Bool.or_eq_true] at h
  rcases h with h | h
  · rw [List.all_eq_true] at h
    have hs := fun t ht => showTok_ok t (h t ht)
    constructor
    · apply not_mem_joinBlank '\n' (by decide)
      intro t ht
      obtain ⟨tok, htok, rfl⟩ := List.mem_map.mp ht
      exact not_newline_of_noWs (hs tok htok).2.1.2
    · apply joinBlank_ne_nil _ (by simpa using hne)
      intro t ht
      obtain ⟨tok, htok, rfl⟩ := List.mem_map.mp ht
      exact (hs tok htok).2.1.1
  · match l, h with
    | [.w s], h =>
      simp only [nameOKB, Bool.and_eq_true, Bool.not_eq_true'] at h
      have hn := not_newline_of_noWs ((noWsB_iff s).mp h.1)
      have : lineText [.w s] = s ++ unitSuffix := by simp [lineText, joinBlank, showTok]
      rw [this]
      refine ⟨?_, by simp [unitSuffix]⟩
      simp only [List.mem_append, not_or]
      exact ⟨hn, by decide⟩

/-! ### every line the writer emits is such a line -/
theorem allVal_line (i : Nat) (xs : List Str) (h : xs.all valOKB = true) :
    lineOKB (Tok.n i :: xs.map Tok.v) = true := by
  unfold lineOKB
  rw [Bool.or_eq_true]; left
  rw [List.all_eq_true] at h ⊢
  intro t ht
  rcases List.mem_cons.mp ht with rfl | ht
  · rfl
  · obtain ⟨x, hx, rfl⟩ := List.mem_map.mp ht
    exact h x hx

theorem allNat_line (xs : List Nat) : lineOKB (xs.map (Tok.n : Nat → Tok Str)) = true := by
  unfold lineOKB
  rw [Bool.or_eq_true]; left
  rw [List.all_eq_true]
  intro t ht
  obtain ⟨x, _, rfl⟩ := List.mem_map.mp ht
  rfl

theorem elemLine_ok (ty : Nat) (e : Elem) (h : ty < Femio.Gen.elementTypes.length) :
    lineOKB (elemLine ty e : Line Str) = true := by
  unfold lineOKB elemLine
  rw [Bool.or_eq_true]; left
  have hty : (firstOrder ty e).1 < Femio.Gen.elementTypes.length := by
    unfold firstOrder
    split
    · show tet < Femio.Gen.elementTypes.length
      decide
    · exact h
  rw [List.all_eq_true]
  intro t ht
  simp only [List.mem_cons, List.mem_map] at ht
  rcases ht with rfl | rfl | rfl | ⟨x, _, rfl⟩
  · rfl
  · rfl
  · simpa [ucdTokOKB] using hty
  · rfl

theorem dataBlock_ok (vars : List Var) (rows : List (Nat × List Str))
    (hv : vars.all (fun x => nameOKB x.name) = true) (hr : ∀ p ∈ rows, p.2.all valOKB = true) :
    ∀ l ∈ (dataBlock vars rows : List (Line Str)), lineOKB l = true ∧ l ≠ [] := by
  intro l hl
  unfold dataBlock at hl
  split at hl
  · simp at hl
  · simp only [List.mem_cons, List.mem_append, List.mem_map] at hl
    rcases hl with rfl | ⟨x, hx, rfl⟩ | ⟨p, hp, rfl⟩
    · refine ⟨?_, by simp [blockHeader]⟩
      have : blockHeader vars = (vars.length :: vars.map Var.width).map (Tok.n : Nat → Tok Str) := by
        simp [blockHeader, List.map_map, Function.comp_def]
      rw [this]; exact allNat_line _
    · refine ⟨?_, by simp [nameLine]⟩
      rw [List.all_eq_true] at hv
      simp [lineOKB, nameLine, ucdTokOKB, hv x hx]
    · exact ⟨allVal_line _ _ (hr p hp), by simp [dataLine]⟩

theorem write_lines_ok (m : Mesh Str) (h : meshOKB m = true) : ∀ l ∈ write m, lineOKB l = true ∧ l ≠ [] := by
  simp only [meshOKB, Bool.and_eq_true] at h
  obtain ⟨⟨⟨⟨⟨h1, h2⟩, h3⟩, h4⟩, h5⟩, h6⟩ := h
  intro l hl
  simp only [write, List.mem_append, List.mem_singleton, List.mem_map] at hl
  rcases hl with (((rfl | ⟨p, hp, rfl⟩) | hl) | hl) | hl
  · refine ⟨allNat_line [m.nodes.length, nElem m, sumW m.nodalVars, sumW m.elemVars, 0], by simp⟩
  · rw [List.all_eq_true] at h1
    exact ⟨allVal_line _ _ (h1 p hp), by simp [nodeLine]⟩
  · simp only [elemLines, List.mem_flatMap, List.mem_map] at hl
    obtain ⟨b, hb, e, _, rfl⟩ := hl
    rw [List.all_eq_true] at h2
    exact ⟨elemLine_ok _ _ (by simpa using h2 b hb), by simp [elemLine]⟩
  · refine dataBlock_ok _ _ h3 ?_ l hl
    intro p hp
    rw [List.all_eq_true] at h4
    exact h4 _ (List.of_mem_zip hp).2
  · refine dataBlock_ok _ _ h5 ?_ l hl
    intro p hp
    rw [List.all_eq_true] at h6
    exact h6 _ (List.of_mem_zip hp).2

/-- the written lines, printed and lexed, are the written lines -/
theorem lex_print_write (m : Mesh Str) (h : meshOKB m = true) : ((write m).map lineText).map lexLine = write m := by
  rw [List.map_map]
  conv => rhs; rw [← List.map_id (write m)]
  apply List.map_congr_left
  intro l hl
  exact lexLine_lineText l (write_lines_ok m h l hl).1

theorem fileLines_fileText (m : Mesh Str) (h : meshOKB m = true) : fileLines (fileText m) = (write m).map lineText := by
  unfold fileText
  apply fileLines_unlines_nonempty
  · intro s hs
    obtain ⟨l, hl, rfl⟩ := List.mem_map.mp hs
    have := write_lines_ok m h l hl
    exact (lineText_props l this.2 this.1).1
  · intro s hs
    obtain ⟨l, hl, rfl⟩ := List.mem_map.mp hs
    have := write_lines_ok m h l hl
    exact (lineText_props l this.2 this.1).2

end Femio.C04
