import Femio.Lemmas.FistrMshProps
import Mathlib.Data.List.Forall2

/-! G3 (whitespace insensitivity of the `.msh` reader), part a: text-level lemmas.
`trim`/`trimLeft` on arbitrary fields, `splitOn`/`joinSep`, a generic leftmost-match scanner `scan`
that `hasSub`, `capture`, `captureP`, `isItem1` are instances of, and the line relations. -/
namespace Femio.Fistr.G3
open Femio.Fistr Numeral

/-- all characters are blanks -/
def AllWs (a : List Char) : Prop := ∀ c ∈ a, isWs c = true

theorem allWs_nil : AllWs [] := fun _ h => by cases h

theorem allWs_append {a b : List Char} (ha : AllWs a) (hb : AllWs b) : AllWs (a ++ b) := by
  intro c hc
  rcases List.mem_append.mp hc with h | h
  · exact ha c h
  · exact hb c h

theorem allWs_reverse {a : List Char} (ha : AllWs a) : AllWs a.reverse :=
  fun c hc => ha c (List.mem_reverse.mp hc)

/-! ### trimLeft / trim on arbitrary fields -/
theorem trimLeft_cons_ws (c : Char) (t : List Char) (h : isWs c = true) : trimLeft (c :: t) = trimLeft t := by
  simp [trimLeft, List.dropWhile, h]

theorem trimLeft_cons_nonws (c : Char) (t : List Char) (h : isWs c = false) : trimLeft (c :: t) = c :: t := by
  simp [trimLeft, List.dropWhile, h]

theorem trimLeft_append_ws (a x : List Char) (ha : AllWs a) : trimLeft (a ++ x) = trimLeft x := by
  induction a with
  | nil => rfl
  | cons c t ih =>
    rw [List.cons_append, trimLeft_cons_ws _ _ (ha c (by simp))]
    exact ih (fun y hy => ha y (List.mem_cons_of_mem _ hy))

theorem takeWhile_all (p : Char → Bool) (f : List Char) : ∀ c ∈ f.takeWhile p, p c = true := by
  induction f with
  | nil => intro c hc; cases hc
  | cons a t ih =>
    intro c hc
    cases h : p a with
    | true =>
      rw [List.takeWhile_cons, h] at hc
      rcases List.mem_cons.mp hc with rfl | hc
      · exact h
      · exact ih c hc
    | false => rw [List.takeWhile_cons, h] at hc; cases hc

theorem trimLeft_split (f : List Char) : ∃ a, AllWs a ∧ f = a ++ trimLeft f :=
  ⟨f.takeWhile isWs, takeWhile_all isWs f, (List.takeWhile_append_dropWhile).symm⟩

theorem trimLeft_head (f : List Char) : trimLeft f = [] ∨ ∃ c t, trimLeft f = c :: t ∧ isWs c = false := by
  induction f with
  | nil => exact Or.inl rfl
  | cons c t ih =>
    cases h : isWs c with
    | true => rw [trimLeft_cons_ws _ _ h]; exact ih
    | false => rw [trimLeft_cons_nonws _ _ h]; exact Or.inr ⟨c, t, rfl, h⟩

theorem trimLeft_eq_nil_iff (f : List Char) : trimLeft f = [] ↔ AllWs f := by
  constructor
  · intro h
    obtain ⟨a, ha, hf⟩ := trimLeft_split f
    rw [h, List.append_nil] at hf
    rw [hf]; exact ha
  · intro h
    have := trimLeft_append_ws f [] h
    simpa [trimLeft] using this

theorem trimLeft_append_of_cons (f x : List Char) (c : Char) (t : List Char) (h : trimLeft f = c :: t) :
    trimLeft (f ++ x) = c :: (t ++ x) := by
  obtain ⟨a, ha, hf⟩ := trimLeft_split f
  have hc : isWs c = false := by
    rcases trimLeft_head f with h0 | ⟨c', t', h1, h2⟩
    · rw [h0] at h; cases h
    · rw [h1] at h; cases h; exact h2
  rw [hf, h, List.append_assoc, trimLeft_append_ws _ _ ha, List.cons_append, trimLeft_cons_nonws _ _ hc]

theorem trimLeft_snoc_nonws (x : List Char) (c : Char) (hc : isWs c = false) :
    trimLeft (x ++ [c]) = trimLeft x ++ [c] := by
  rcases trimLeft_head x with h0 | ⟨d, t, h1, _⟩
  · rw [h0, trimLeft_append_ws _ _ ((trimLeft_eq_nil_iff x).mp h0), trimLeft_cons_nonws _ _ hc]; rfl
  · rw [trimLeft_append_of_cons x [c] d t h1, h1]; rfl

theorem trim_of_trimLeft_nil (f : List Char) (h : trimLeft f = []) : trim f = [] := by
  unfold trim; rw [h]; rfl

theorem trim_of_trimLeft_cons (f : List Char) (c : Char) (t : List Char) (h : trimLeft f = c :: t) :
    trim f = c :: (trimLeft t.reverse).reverse := by
  have hc : isWs c = false := by
    rcases trimLeft_head f with h0 | ⟨c', t', h1, h2⟩
    · rw [h0] at h; cases h
    · rw [h1] at h; cases h; exact h2
  unfold trim
  rw [h, List.reverse_cons, trimLeft_snoc_nonws _ _ hc, List.reverse_append]
  rfl

theorem trim_eq_nil_iff (f : List Char) : trim f = [] ↔ AllWs f := by
  constructor
  · intro h
    rcases trimLeft_head f with h0 | ⟨c, t, h1, _⟩
    · exact (trimLeft_eq_nil_iff f).mp h0
    · rw [trim_of_trimLeft_cons f c t h1] at h; cases h
  · intro h
    exact trim_of_trimLeft_nil f ((trimLeft_eq_nil_iff f).mpr h)

/-- **general padding lemma**: blanks around an ARBITRARY field are invisible to `trim` -/
theorem trim_pad_gen (a f b : List Char) (ha : AllWs a) (hb : AllWs b) : trim (a ++ f ++ b) = trim f := by
  rcases trimLeft_head f with h0 | ⟨c, t, h1, _⟩
  · have hf := (trimLeft_eq_nil_iff f).mp h0
    rw [(trim_eq_nil_iff f).mpr hf, (trim_eq_nil_iff _).mpr (allWs_append (allWs_append ha hf) hb)]
  · have h2 : trimLeft (a ++ f ++ b) = c :: (t ++ b) := by
      rw [List.append_assoc, trimLeft_append_ws _ _ ha, trimLeft_append_of_cons f b c t h1]
    rw [trim_of_trimLeft_cons _ c _ h2, trim_of_trimLeft_cons f c t h1, List.reverse_append,
      trimLeft_append_ws _ _ (allWs_reverse hb)]

theorem trimLeft_pad_gen (a f : List Char) (ha : AllWs a) : trimLeft (a ++ f) = trimLeft f :=
  trimLeft_append_ws a f ha

theorem mem_trimLeft_iff (x : Char) (hx : isWs x = false) (f : List Char) : x ∈ trimLeft f ↔ x ∈ f := by
  obtain ⟨a, ha, hf⟩ := trimLeft_split f
  constructor
  · intro h; rw [hf]; exact List.mem_append_right _ h
  · intro h
    rw [hf] at h
    rcases List.mem_append.mp h with h | h
    · rw [ha x h] at hx; cases hx
    · exact h

theorem mem_trim_iff (x : Char) (hx : isWs x = false) (f : List Char) : x ∈ trim f ↔ x ∈ f := by
  unfold trim
  rw [List.mem_reverse, mem_trimLeft_iff x hx, List.mem_reverse, mem_trimLeft_iff x hx]

/-- `head?` of `trim` and of `trimLeft` agree -/
theorem head_trim (f : List Char) : (trim f).head? = (trimLeft f).head? := by
  rcases trimLeft_head f with h0 | ⟨c, t, h1, _⟩
  · rw [h0, trim_of_trimLeft_nil f h0]
  · rw [h1, trim_of_trimLeft_cons f c t h1]; rfl

/-! ### splitOn / joinSep on arbitrary lines -/
theorem splitOn_ne_nil (sep : Char) (l : List Char) : splitOn sep l ≠ [] := by
  induction l with
  | nil => simp [splitOn]
  | cons c t ih =>
    unfold splitOn
    split
    · simp
    · split
      · simp
      · simp

theorem joinSep_cons_ne (sep : Char) (f : List Char) (rest : List (List Char)) (h : rest ≠ []) :
    joinSep sep (f :: rest) = f ++ sep :: joinSep sep rest := by
  cases rest with
  | nil => exact absurd rfl h
  | cons g t => rfl

/-- `sep.join(l.split(sep)) = l` for every line -/
theorem joinSep_splitOn (sep : Char) (l : List Char) : joinSep sep (splitOn sep l) = l := by
  induction l with
  | nil => rfl
  | cons c t ih =>
    unfold splitOn
    split
    · rename_i hc
      rw [joinSep_cons_ne _ _ _ (splitOn_ne_nil sep t), ih, hc]; rfl
    · split
      · rename_i h; exact absurd h (splitOn_ne_nil sep t)
      · rename_i f fs h
        rw [h] at ih
        cases fs with
        | nil => simp only [joinSep] at ih ⊢; rw [ih]
        | cons g r => simp only [joinSep, List.cons_append] at ih ⊢; rw [ih]

/-- first-field decomposition of a line, together with `splitFirst` -/
theorem split_cases (sep : Char) (l : List Char) :
    (sep ∉ l ∧ splitOn sep l = [l] ∧ splitFirst sep l = none) ∨
    ∃ g v, l = g ++ sep :: v ∧ sep ∉ g ∧ splitOn sep l = g :: splitOn sep v ∧ splitFirst sep l = some (g, v) := by
  induction l with
  | nil => exact Or.inl ⟨by simp, rfl, rfl⟩
  | cons c t ih =>
    by_cases hc : c = sep
    · refine Or.inr ⟨[], t, by simp [hc], by simp, by simp [splitOn, hc], by simp [splitFirst, hc]⟩
    · rcases ih with ⟨h1, h2, h3⟩ | ⟨g, v, h1, h2, h3, h4⟩
      · refine Or.inl ⟨?_, by simp [splitOn, hc, h2], by simp [splitFirst, hc, h3]⟩
        intro hm
        rcases List.mem_cons.mp hm with h | h
        · exact hc h.symm
        · exact h1 h
      · refine Or.inr ⟨c :: g, v, by simp [h1], ?_, by simp [splitOn, hc, h3], by simp [splitFirst, hc, h4]⟩
        intro hm
        rcases List.mem_cons.mp hm with h | h
        · exact hc h.symm
        · exact h2 h

theorem splitOn_fields_noSep (sep : Char) (l : List Char) : ∀ f ∈ splitOn sep l, sep ∉ f := by
  induction l with
  | nil => intro f hf; simp [splitOn] at hf; subst hf; simp
  | cons c t ih =>
    by_cases hc : c = sep
    · intro f hf
      simp only [splitOn, hc, if_true, List.mem_cons] at hf
      rcases hf with rfl | hf
      · simp
      · exact ih f hf
    · obtain ⟨g, r, hgr⟩ := List.exists_cons_of_ne_nil (splitOn_ne_nil sep t)
      intro f hf
      simp only [splitOn, hc, if_false, hgr, List.mem_cons] at hf
      rcases hf with rfl | hf
      · intro hm
        rcases List.mem_cons.mp hm with h | h
        · exact hc h.symm
        · exact ih g (by rw [hgr]; simp) h
      · exact ih f (by rw [hgr]; simp [hf])

/-! ### the line relations -/
/-- data lines: neither is a header, and they have the same comma-separated fields up to surrounding blanks -/
def DataRel (l l' : Line) : Prop :=
  isHeader l = false ∧ isHeader l' = false ∧ (splitOn ',' l).map trim = (splitOn ',' l').map trim

/-- header lines: same first field (it starts with `!`), the other fields equal up to blanks after the comma -/
def HdrRel (h h' : Line) : Prop :=
  isHeader h = true ∧ ∃ f0 fs fs', splitOn ',' h = f0 :: fs ∧ splitOn ',' h' = f0 :: fs' ∧
    fs.map trimLeft = fs'.map trimLeft

def LineRel (l l' : Line) : Prop := HdrRel l l' ∨ DataRel l l'

set_option linter.dupNamespace false in
/-- the G3 relation on texts: line by line, blanks around the commas of data rows / after the commas of headers -/
def G3 (t t' : List Line) : Prop := List.Forall₂ LineRel t t'

/-! ### leftmost-match scanner -/
/-- leftmost suffix on which the matcher `m` succeeds -/
def scan {β} (m : List Char → Option β) : List Char → Option β
  | [] => none
  | c :: t => match m (c :: t) with
    | some b => some b
    | none => scan m t

/-- a matcher that never looks past a comma and never starts on a blank -/
structure Local {β} (m : List Char → Option β) : Prop where
  comma : ∀ v r, m (v ++ ',' :: r) = m v
  nil : m [] = none
  ws : ∀ w t, isWs w = true → m (w :: t) = none

theorem scan_comma {β} {m : List Char → Option β} (hm : Local m) (u r : List Char) :
    scan m (u ++ ',' :: r) = match scan m u with | some b => some b | none => scan m r := by
  induction u with
  | nil =>
    have : m (',' :: r) = none := by have := hm.comma [] r; rw [hm.nil] at this; exact this
    simp [scan, this]
  | cons c u ih =>
    have h1 : m (c :: (u ++ ',' :: r)) = m (c :: u) := hm.comma (c :: u) r
    simp only [List.cons_append, scan, h1]
    cases m (c :: u) with
    | some b => rfl
    | none => exact ih

theorem scan_join {β} {m : List Char → Option β} (hm : Local m) (fs : List (List Char)) :
    scan m (joinSep ',' fs) = fs.findSome? (scan m) := by
  induction fs with
  | nil => rfl
  | cons f t ih =>
    cases t with
    | nil =>
      simp only [joinSep, List.findSome?]
      cases scan m f <;> rfl
    | cons g t =>
      rw [joinSep_cons_ne _ _ _ (by simp), scan_comma hm, ih]
      simp only [List.findSome?]
      cases scan m f with
      | some b => rfl
      | none => cases scan m g <;> rfl

theorem scan_ws {β} {m : List Char → Option β} (hm : Local m) (a g : List Char) (ha : AllWs a) :
    scan m (a ++ g) = scan m g := by
  induction a with
  | nil => rfl
  | cons c t ih =>
    simp only [List.cons_append, scan, hm.ws c _ (ha c (by simp))]
    exact ih (fun y hy => ha y (List.mem_cons_of_mem _ hy))

theorem scan_trimLeft {β} {m : List Char → Option β} (hm : Local m) (f : List Char) :
    scan m f = scan m (trimLeft f) := by
  obtain ⟨a, ha, hf⟩ := trimLeft_split f
  conv_lhs => rw [hf]
  exact scan_ws hm a _ ha

theorem findSome_trimLeft {β} {m : List Char → Option β} (hm : Local m) (fs : List (List Char)) :
    fs.findSome? (scan m) = (fs.map trimLeft).findSome? (scan m) := by
  induction fs with
  | nil => rfl
  | cons f t ih => simp only [List.map_cons, List.findSome?, ← scan_trimLeft hm, ih]

/-- every local scanner is invariant under the header relation -/
theorem scan_hdr {β} {m : List Char → Option β} (hm : Local m) {h h' : Line} (hr : HdrRel h h') :
    scan m h = scan m h' := by
  obtain ⟨_, f0, fs, fs', h1, h2, h3⟩ := hr
  rw [← joinSep_splitOn ',' h, ← joinSep_splitOn ',' h', h1, h2, scan_join hm, scan_join hm]
  simp only [List.findSome?, findSome_trimLeft hm fs, findSome_trimLeft hm fs', h3]

end Femio.Fistr.G3
