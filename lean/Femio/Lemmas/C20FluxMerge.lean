import Femio.Lemmas.C20Flux
import Femio.Lemmas.C20MergeR

/-! C20 — `merge_polyhedrons` (`Op.merge`) keeps the total flux (6 × volume) of cells whose faces are planar simple
    cycles: the face flux is a `MergeOKR` weight, hence the flux of a merged cell is the sum of the fluxes of the
    cells of its group, and a partition of the cells into groups keeps the total. -/
namespace Femio.C20
open Faces

variable {R : Type} [CommRing R]

/-- a simple cycle of ≥ 3 nodes is not a rotation of its own reverse -/
theorem not_rot_reverse {f : Face} (hf : FaceOK f) : ¬ (f ~r f.reverse) := by
  intro hr
  obtain ⟨hnd, hlen⟩ := hf
  match f, hnd, hlen, hr with
  | a :: b :: t, hnd, hlen, hr =>
    have hab : (a, b) ∈ dirEdges (a :: b :: t) := by
      simp [dirEdges]
    have hba' : (b, a) ∈ dirEdges (a :: b :: t).reverse := by
      rw [(dirEdges_reverse_perm _).mem_iff]
      exact List.mem_map.mpr ⟨(a, b), hab, rfl⟩
    have hba : (b, a) ∈ dirEdges (a :: b :: t) := (isRotated_dirEdges hr).mem_iff.mpr hba'
    exact not_both_dirs ⟨hnd, hlen⟩ hab hba

/-- the face flux of planar simple faces is a weight that `mergeCells` sums correctly -/
theorem mergeOKR_faceFlux (pos : Nat → V3 R) (fs : List Face) (hok : ∀ f ∈ fs, FaceOK f)
    (hcop : ∀ f ∈ fs, Cop pos f) : MergeOKR (faceFlux pos) fs := by
  refine ⟨fun f hf g hg h => ⟨canon_reverse_congr (hok f hf).1 (hok g hg).1 h, ?_⟩,
    fun f hf g hg h => ⟨canon_reverse_symm (hok f hf).1 (hok g hg).1 h, ?_⟩,
    fun f hf h => ?_⟩
  · exact faceFlux_rot (hcop f hf) (isRotated_of_canon_eq h)
  · have hr : f.reverse ~r g := isRotated_of_canon_eq h
    have hc : Cop pos f.reverse := cop_of_sub (hcop f hf) fun v hv => List.mem_reverse.mp hv
    rw [← faceFlux_rot hc hr, faceFlux_reverse (hcop f hf)]
  · exact absurd (isRotated_of_canon_eq h) (not_rot_reverse (hok f hf))

theorem sum_map_flatten (φ : Face → R) (cells : List Cell) :
    (cells.flatten.map φ).sum = (cells.map fun c => (c.map φ).sum).sum := by
  induction cells with
  | nil => simp
  | cons c t ih =>
    rw [List.flatten_cons, List.map_append, List.sum_append, ih, List.map_cons, List.sum_cons]

/-- merging closed cells with planar simple faces: the flux of the merged cell is the sum of the fluxes -/
theorem mergeCells_flux (pos : Nat → V3 R) (cells : List Cell) (hok : ∀ c ∈ cells, CellOK c)
    (hcop : ∀ c ∈ cells, ∀ f ∈ c, Cop pos f) :
    cellFlux pos (mergeCells cells) = (cells.map (cellFlux pos)).sum := by
  have hfaces : ∀ f ∈ cells.flatten, FaceOK f := by
    intro f hf
    obtain ⟨c, hc, hfc⟩ := List.mem_flatten.mp hf
    exact (hok c hc).2 f hfc
  have hcops : ∀ f ∈ cells.flatten, Cop pos f := by
    intro f hf
    obtain ⟨c, hc, hfc⟩ := List.mem_flatten.mp hf
    exact hcop c hc f hfc
  unfold cellFlux
  rw [mergeCells_sumR (faceFlux pos) cells (mergeOKR_faceFlux pos _ hfaces hcops), sum_map_flatten]

theorem getD_cop (pos : Nat → V3 R) {cells : List Cell} (hcop : ∀ c ∈ cells, ∀ f ∈ c, Cop pos f) (i : Nat) :
    ∀ f ∈ cells.getD i [], Cop pos f := by
  rw [List.getD_eq_getElem?_getD]
  cases hi : cells[i]? with
  | none => intro f hf; simp at hf
  | some c => exact hcop c (List.mem_of_getElem? hi)

theorem eq_map_range_getD (cells : List Cell) :
    cells = (List.range cells.length).map fun i => cells.getD i [] := by
  apply List.ext_getElem
  · simp
  · intro i h1 h2
    simp [List.getD_eq_getElem?_getD, List.getElem?_eq_getElem h1]

theorem sum_map_flatten_nat (ψ : Nat → R) (groups : List (List Nat)) :
    (groups.map fun g => (g.map ψ).sum).sum = (groups.flatten.map ψ).sum := by
  induction groups with
  | nil => simp
  | cons g t ih =>
    rw [List.flatten_cons, List.map_append, List.sum_append, ← ih, List.map_cons, List.sum_cons]

/-- `Op.merge groups` with `groups` a partition of the cell indices keeps the total flux -/
theorem merge_step_flux (pos : Nat → V3 R) {cells : List Cell} (h : Inv cells)
    (hcop : ∀ c ∈ cells, ∀ f ∈ c, Cop pos f)
    (groups : List (List Nat)) (hpart : groups.flatten.Perm (List.range cells.length)) :
    totalFlux pos (groups.map fun g => mergeCells (g.map fun i => cells.getD i [])) = totalFlux pos cells := by
  have hg : ∀ g : List Nat, cellFlux pos (mergeCells (g.map fun i => cells.getD i []))
      = (g.map fun i => cellFlux pos (cells.getD i [])).sum := by
    intro g
    rw [mergeCells_flux pos _ ?_ ?_, List.map_map]
    · rfl
    · intro c hc
      obtain ⟨i, _, rfl⟩ := List.mem_map.mp hc
      exact getD_cellOK h i
    · intro c hc
      obtain ⟨i, _, rfl⟩ := List.mem_map.mp hc
      exact getD_cop pos hcop i
  unfold totalFlux
  rw [List.map_map]
  have e1 : (groups.map (cellFlux pos ∘ fun g => mergeCells (g.map fun i => cells.getD i [])))
      = groups.map fun g => (g.map fun i => cellFlux pos (cells.getD i [])).sum :=
    List.map_congr_left fun g _ => hg g
  rw [e1, sum_map_flatten_nat (fun i => cellFlux pos (cells.getD i [])), (hpart.map _).sum_eq]
  conv_rhs => rw [eq_map_range_getD cells]
  rw [List.map_map]
  rfl

/-- the faces of the merged cells are faces of the input, hence still planar -/
theorem merge_step_cop (pos : Nat → V3 R) {cells : List Cell} (hcop : ∀ c ∈ cells, ∀ f ∈ c, Cop pos f)
    (groups : List (List Nat)) :
    ∀ c ∈ (groups.map fun g => mergeCells (g.map fun i => cells.getD i [])), ∀ f ∈ c, Cop pos f := by
  intro c hc f hf
  obtain ⟨g, _, rfl⟩ := List.mem_map.mp hc
  obtain ⟨c', hc', hfc⟩ := List.mem_flatten.mp (mem_mergeCells _ f hf)
  obtain ⟨i, _, rfl⟩ := List.mem_map.mp hc'
  exact getD_cop pos hcop i f hfc

end Femio.C20
