import Femio.Lemmas.KnnGeom
import Femio.Lemmas.BnB
import Mathlib.Data.Prod.Lex
import Mathlib.Data.List.FinRange
import Mathlib.Data.List.Perm.Lattice
import Mathlib.Tactic.FinCases
import Mathlib.Tactic.IntervalCases

open Knn

/-! ### the order on keys is the heap order of the code -/
def keyEmb (k : Key) : ℚ ×ₗ ℕᵒᵈ := toLex (k.d, OrderDual.toDual k.idx)
theorem keyEmb_inj : Function.Injective keyEmb := by
  intro a b h
  have := congrArg ofLex h
  simp only [keyEmb, ofLex_toLex, Prod.mk.injEq] at this
  cases a; cases b; simp_all
instance : LinearOrder Key := LinearOrder.lift' keyEmb keyEmb_inj

theorem key_le_iff (a b : Key) : a ≤ b ↔ a.d < b.d ∨ (a.d = b.d ∧ b.idx ≤ a.idx) := by
  show keyEmb a ≤ keyEmb b ↔ _
  simp only [keyEmb, Prod.Lex.le_iff, ofLex_toLex, OrderDual.toDual_le_toDual]

theorem keyLe_iff (a b : Key) : keyLe a b = true ↔ a ≤ b := by
  rw [key_le_iff]; simp [keyLe]

theorem insKeySorted_eq (x : Key) (r : List Key) : insKeySorted x r = r.orderedInsert (· ≤ ·) x := by
  induction r with
  | nil => rfl
  | cons y t ih =>
    simp only [insKeySorted, List.orderedInsert_cons]
    by_cases h : x ≤ y
    · simp [(keyLe_iff x y).mpr h, h]
    · have : keyLe x y = false := by
        cases hk : keyLe x y with
        | false => rfl
        | true => exact absurd ((keyLe_iff x y).mp hk) h
      simp [this, h, ih]

theorem insKey_eq (k : Nat) (x : Key) (r : List Key) : insKey k x r = ins k x r := by
  simp only [insKey, ins, insKeySorted_eq]

/-! ### the octree as an abstract search tree -/
variable (pt : Nat → P3) (q : P3)

theorem idxs_of_isEmpty (t : Oct) (h : t.isEmpty = true) : t.idxs = [] := by
  cases t <;> simp_all [Oct.isEmpty, Oct.idxs]

def octTree : SearchTree (Box × Oct) Key where
  pts := fun bt => keysOf pt q bt.2.idxs
  children := fun bt => kidList bt.1 bt.2
  children_pts := by
    rintro ⟨b, t⟩ cs h
    cases t with
    | empty => simp [kidList] at h; subst h; simp [keysOf, Oct.idxs]
    | leaf is => simp [kidList] at h
    | node kids =>
      simp only [kidList, Option.some.injEq] at h
      subst h
      simp only [Oct.idxs, keysOf]
      -- dropping the empty children does not change the concatenation
      have : ∀ l : List (Box × Oct),
          (l.filter fun bt => !bt.2.isEmpty).flatMap (fun bt => bt.2.idxs.map fun i => (⟨dist2 q (pt i), i⟩ : Key))
            = l.flatMap (fun bt => bt.2.idxs.map fun i => (⟨dist2 q (pt i), i⟩ : Key)) := by
        intro l
        induction l with
        | nil => rfl
        | cons a t ih =>
          by_cases ha : a.2.isEmpty = true
          · simp [List.filter_cons, ha, idxs_of_isEmpty a.2 ha, ih]
          · simp [List.filter_cons, ha, ih]
      rw [this, List.flatMap_map, List.map_flatMap]

/-! ### every point stored under a box lies in the box -/
def WB : Box → Oct → Prop
  | _, .empty => True
  | b, .leaf is => ∀ i ∈ is, inBox b (pt i) = true
  | b, .node kids => ∀ r : Fin 8, WB (child b r.val) (kids r)

theorem child_sub (b : Box) (r : Nat) (p : P3) (hw : 0 ≤ b.w) (h : inBox (child b r) p = true) : inBox b p = true := by
  rw [inBox_iff] at h ⊢
  simp only [child] at h
  obtain ⟨⟨hx1, hx2⟩, ⟨hy1, hy2⟩, ⟨hz1, hz2⟩⟩ := h
  by_cases h4 : r / 4 % 2 = 1 <;> by_cases h2 : r / 2 % 2 = 1 <;> by_cases h1 : r % 2 = 1 <;>
    simp only [h4, h2, h1, if_true, if_false] at hx1 hx2 hy1 hy2 hz1 hz2 <;>
    refine ⟨⟨?_, ?_⟩, ⟨?_, ?_⟩, ⟨?_, ?_⟩⟩ <;> linarith

theorem WB_idxs (b : Box) (t : Oct) (hw : 0 ≤ b.w) (h : WB pt b t) : ∀ i ∈ t.idxs, inBox b (pt i) = true := by
  induction t generalizing b with
  | empty => intro i hi; simp [Oct.idxs] at hi
  | leaf is => exact h
  | node kids ih =>
    intro i hi
    simp only [Oct.idxs, List.mem_flatMap] at hi
    obtain ⟨r, _, hir⟩ := hi
    exact child_sub b r.val (pt i) hw (ih r (child b r.val) (child_w_nonneg b _ hw) (h r) i hir)

theorem WB_build (d : Nat) (b : Box) (is : List Nat) (hw : 0 ≤ b.w) (h : ∀ i ∈ is, inBox b (pt i) = true) :
    WB pt b (build pt d b is) := by
  induction d generalizing b is with
  | zero => exact h
  | succ d ih =>
    intro r
    simp only []
    split
    · trivial
    · apply ih _ _ (child_w_nonneg b _ hw)
      intro i hi
      have hmem := List.mem_filter.mp hi
      have hp : pick b (pt i) = r.val := by simpa using hmem.2
      have := (pick_spec b (pt i) hw (h i hmem.1)).2
      rwa [hp] at this

#print axioms WB_build

/-! ### the root holds every target: `build` only redistributes indices -/
theorem pick_lt (b : Box) (p : P3) : pick b p < 8 := by
  unfold pick
  cases hf : (List.range 8).find? (fun r => inBox (child b r) p) with
  | none => simp
  | some r => simpa using List.mem_range.mp (List.mem_of_find?_eq_some hf)

theorem classes_perm (is : List Nat) (f : Nat → Nat) (hf : ∀ i, f i < 8) :
    ((List.finRange 8).flatMap fun r => is.filter fun i => f i = r.val).Perm is := by
  induction is with
  | nil => simp
  | cons a t ih =>
    have hone : ((List.finRange 8).flatMap fun r : Fin 8 => if f a = r.val then [a] else []) = [a] := by
      have hv := hf a
      have h8 : List.finRange 8 = [0, 1, 2, 3, 4, 5, 6, 7] := by decide
      rw [h8]
      generalize f a = v at hv
      interval_cases v <;> simp
    have hsplit : ∀ r : Fin 8, ((a :: t).filter fun i => f i = r.val)
        = (if f a = r.val then [a] else []) ++ t.filter fun i => f i = r.val := by
      intro r; by_cases h : f a = r.val <;> simp [List.filter_cons, h]
    simp only [hsplit]
    refine (List.flatMap_append_perm _ _ _).symm.trans ?_
    rw [hone]
    exact List.Perm.cons a ih

theorem build_idxs_perm (d : Nat) (b : Box) (is : List Nat) : (build pt d b is).idxs.Perm is := by
  induction d generalizing b is with
  | zero => exact List.Perm.refl _
  | succ d ih =>
    simp only [build, Oct.idxs]
    have hkid : ∀ r : Fin 8,
        (if (is.filter fun i => pick b (pt i) = r.val).isEmpty then Oct.empty
          else build pt d (child b r.val) (is.filter fun i => pick b (pt i) = r.val)).idxs.Perm
        (is.filter fun i => pick b (pt i) = r.val) := by
      intro r
      split
      · rename_i he
        simp only [Oct.idxs]
        rw [List.isEmpty_iff.mp he]
      · exact ih _ _
    refine (List.Perm.flatMap_left _ (fun r _ => hkid r)).trans ?_
    exact classes_perm is (fun i => pick b (pt i)) (fun i => pick_lt b (pt i))

/-! ### simulation of the concrete loop by the abstract transition system -/
theorem le_last_of_pairwise (l : List Key) (hs : l.Pairwise (· ≤ ·)) (m : Key) (hm : l.getLast? = some m) :
    ∀ y ∈ l, y ≤ m := by
  induction l with
  | nil => simp at hm
  | cons a t ih =>
    intro y hy
    rw [List.pairwise_cons] at hs
    cases t with
    | nil =>
      simp at hm hy; subst hm; subst hy; exact le_refl _
    | cons b u =>
      have hm' : (b :: u).getLast? = some m := by simpa [List.getLast?_cons_cons] using hm
      rcases List.mem_cons.mp hy with rfl | hy'
      · have hmem : m ∈ b :: u := List.mem_of_getLast? hm'
        exact hs.1 m hmem
      · exact ih hs.2 hm' y hy'

theorem insQ_perm (e : QEntry) (l : List QEntry) : (insQ e l).Perm (e :: l) := by
  induction l with
  | nil => exact List.Perm.refl _
  | cons f t ih =>
    simp only [insQ]; split
    · exact List.Perm.refl _
    · exact (List.Perm.cons f ih).trans (List.Perm.swap e f t)

theorem foldr_insQ_perm (kids : List (Box × Oct)) (rest : List QEntry) :
    (kids.foldr (fun bt acc => insQ (lb2 bt.1 q, bt) acc) rest).Perm ((kids.map fun bt => (lb2 bt.1 q, bt)) ++ rest) := by
  induction kids with
  | nil => exact List.Perm.refl _
  | cons a t ih => exact (insQ_perm _ _).trans (List.Perm.cons _ ih)

theorem lb2_nonneg (b : Box) : 0 ≤ lb2 b q := by
  unfold lb2 Knn.sq
  nlinarith [mul_self_nonneg (q.x - Knn.clamp (b.c.x - b.w) (b.c.x + b.w) q.x),
    mul_self_nonneg (q.y - Knn.clamp (b.c.y - b.w) (b.c.y + b.w) q.y),
    mul_self_nonneg (q.z - Knn.clamp (b.c.z - b.w) (b.c.z + b.w) q.z)]

structure Sim (k : Nat) (all : List Key) (s : CSt) : Prop where
  abs : ∃ seen disc, SInv (octTree pt q) k all ⟨s.queue.map Prod.snd, s.res, seen, disc⟩
  wb : ∀ e ∈ s.queue, 0 ≤ e.2.1.w ∧ WB pt e.2.1 e.2.2 ∧ e.1 ≤ lb2 e.2.1 q

theorem sim_step (k : Nat) (all : List Key) (s : CSt) (h : Sim pt q k all s) : Sim pt q k all (step pt k q s) := by
  obtain ⟨⟨seen, disc, hinv⟩, hwb⟩ := h
  obtain ⟨queue, res⟩ := s
  cases queue with
  | nil => exact ⟨⟨seen, disc, hinv⟩, hwb⟩
  | cons e rest =>
    obtain ⟨d, b, t⟩ := e
    obtain ⟨hw, hWB, hd⟩ := hwb (d, (b, t)) (by simp)
    have hwb_rest : ∀ e ∈ rest, 0 ≤ e.2.1.w ∧ WB pt e.2.1 e.2.2 ∧ e.1 ≤ lb2 e.2.1 q :=
      fun e he => hwb e (List.mem_cons_of_mem _ he)
    simp only [step]
    split
    · -- prune
      rename_i hcond
      obtain ⟨hfull, hk⟩ := hcond
      refine ⟨⟨seen, _, step_inv hinv (Step.skip (b, t) (rest.map Prod.snd) res seen disc hfull ?_)⟩, hwb_rest⟩
      intro x hx y hy
      simp only [octTree, keysOf, List.mem_map] at hx
      obtain ⟨i, hi, rfl⟩ := hx
      have hin := WB_idxs pt b t hw hWB i hi
      have hlb := lb2_le b q (pt i) hin
      simp only [kthLt] at hk
      cases hm : res.getLast? with
      | none => simp [hm] at hk
      | some m =>
        simp only [hm, decide_eq_true_eq] at hk
        have hym := le_last_of_pairwise res hinv.best.sorted m hm y hy
        rw [key_le_iff] at hym ⊢
        left
        have : y.d ≤ m.d := by rcases hym with h | h; exact le_of_lt h; exact le_of_eq h.1
        linarith
    · cases hkl : kidList b t with
      | some kids =>
        -- expand, then account for the sorted insertion by a reordering of the multiset queue
        simp only [hkl]
        have hexp := step_inv hinv (Step.expand (b, t) kids (rest.map Prod.snd) res seen disc (by simpa [octTree] using hkl))
        have hperm := foldr_insQ_perm q kids rest
        have hre : (kids ++ rest.map Prod.snd).Perm
            ((kids.foldr (fun bt acc => insQ (lb2 bt.1 q, bt) acc) rest).map Prod.snd) := by
          have := (hperm.map Prod.snd).symm
          simpa [List.map_append, List.map_map, Function.comp_def] using this
        refine ⟨⟨seen, disc, step_inv hexp (Step.reorder _ _ res seen disc hre)⟩, ?_⟩
        intro e he
        rcases List.mem_append.mp (hperm.subset he) with he | he
        · simp only [List.mem_map] at he
          obtain ⟨bt, hbt, rfl⟩ := he
          -- children of a well-boxed node are well-boxed, in non-negative boxes
          cases t with
          | empty => simp [kidList] at hkl; subst hkl; simp at hbt
          | leaf is => simp [kidList] at hkl
          | node ks =>
            simp only [kidList, Option.some.injEq] at hkl
            subst hkl
            simp only [List.mem_filter, List.mem_map] at hbt
            obtain ⟨⟨r, _, rfl⟩, _⟩ := hbt
            exact ⟨child_w_nonneg b _ hw, hWB r, le_refl _⟩
        · exact hwb_rest e he
      | none =>
        simp only [hkl]
        have hscan := step_inv hinv (Step.scan (b, t) (rest.map Prod.snd) res seen disc (by simpa [octTree] using hkl))
        have hfun : (fun r x => insKey k x r) = (fun r x => ins k x r) := by
          funext r x; exact insKey_eq k x r
        refine ⟨⟨((octTree pt q).pts (b, t)).reverse ++ seen, disc, ?_⟩, hwb_rest⟩
        simpa [octTree, hfun] using hscan

theorem sim_iter (k : Nat) (all : List Key) (fuel : Nat) (s : CSt) (h : Sim pt q k all s) :
    Sim pt q k all (iter (step pt k q) fuel s) := by
  induction fuel generalizing s with
  | zero => exact h
  | succ n ih => exact ih _ (sim_step pt q k all s h)

/-- **C16_knn_refines**: whenever the concrete best-first loop over the octree has emptied its queue, its
    result heap holds the `k` nearest targets in the heap's own order (distance ascending, larger index
    first on ties) — for every point set inside the root box, every depth and every `k`. -/
theorem knn_correct (n depth k : Nat) (root : Box) (hw : 0 ≤ root.w)
    (hall : ∀ i, i < n → inBox root (pt i) = true) (fuel : Nat)
    (hq : (run pt n depth k root q fuel).queue = []) :
    IsBest k (keysOf pt q (List.range n)) (run pt n depth k root q fuel).res := by
  have hinit : Sim pt q k (keysOf pt q (List.range n)) ⟨[(0, (root, build pt depth root (List.range n)))], []⟩ := by
    refine ⟨⟨[], [], ⟨?_, isBest_nil k, by simp⟩⟩, ?_⟩
    · simp only [List.map_cons, List.map_nil, List.flatMap_cons, List.flatMap_nil, List.append_nil, List.nil_append,
        octTree, keysOf]
      exact ((build_idxs_perm pt depth root (List.range n)).map _).symm
    · intro e he
      simp only [List.mem_singleton] at he
      subst he
      exact ⟨hw, WB_build pt depth root _ hw (fun i hi => hall i (List.mem_range.mp hi)), lb2_nonneg q root⟩
  have hfin := sim_iter pt q k _ fuel _ hinit
  obtain ⟨⟨seen, disc, hinv⟩, _⟩ := hfin
  have := final_best hinv (by simpa [run] using congrArg (List.map Prod.snd) hq)
  simpa [run] using this

#print axioms knn_correct
