import Femio.Model.GeomKernels
import Femio.Lemmas.GeomProps
import Femio.Lemmas.GeomProps2
import Mathlib.Tactic.Ring
import Mathlib.Tactic.LinearCombination
import Mathlib.Algebra.BigOperators.Group.List.Basic
/-! C11: algebra of the geometry kernels (ring identities, proved structurally where the kernel is large). -/
open V3 Geom
namespace Femio.C11
variable {R : Type} [CommRing R]

/-! ### 3×3 matrices: cofactor matrix, orthogonality -/

/-- cofactor matrix: `cross (A v) (A w) = cof A (cross v w)` -/
def cof (m : M3 R) : M3 R :=
  ⟨m.e*m.i - m.f*m.h, -(m.d*m.i - m.f*m.g), m.d*m.h - m.e*m.g,
   -(m.b*m.i - m.c*m.h), m.a*m.i - m.c*m.g, -(m.a*m.h - m.b*m.g),
   m.b*m.f - m.c*m.e, -(m.a*m.f - m.c*m.d), m.a*m.e - m.b*m.d⟩

/-- `AᵀA = I` (the six equations) -/
structure Orthogonal (m : M3 R) : Prop where
  c11 : m.a*m.a + m.d*m.d + m.g*m.g = 1
  c22 : m.b*m.b + m.e*m.e + m.h*m.h = 1
  c33 : m.c*m.c + m.f*m.f + m.i*m.i = 1
  c12 : m.a*m.b + m.d*m.e + m.g*m.h = 0
  c13 : m.a*m.c + m.d*m.f + m.g*m.i = 0
  c23 : m.b*m.c + m.e*m.f + m.h*m.i = 0

/-- uniform scaling `s·I` -/
def scaleM (s : R) : M3 R := ⟨s, 0, 0, 0, s, 0, 0, 0, s⟩

theorem scaleM_det (s : R) : (scaleM s).det = s * s * s := by simp only [scaleM, M3.det]; ring
theorem scaleM_app (s : R) (v : V3 R) : (scaleM s).app v = smul s v := by
  simp only [scaleM, M3.app, V3.smul]; congr 1 <;> ring
theorem scaleM_cof_app (s : R) (v : V3 R) : (cof (scaleM s)).app v = smul (s * s) v := by
  simp only [scaleM, cof, M3.app, V3.smul]; congr 1 <;> ring

theorem app_sub (m : M3 R) (a b : V3 R) : m.app (V3.sub a b) = V3.sub (m.app a) (m.app b) := by
  simp only [M3.app, V3.sub]; congr 1 <;> ring
theorem app_add (m : M3 R) (a b : V3 R) : m.app (V3.add a b) = V3.add (m.app a) (m.app b) := by
  simp only [M3.app, V3.add]; congr 1 <;> ring
theorem app_smul (m : M3 R) (s : R) (a : V3 R) : m.app (smul s a) = smul s (m.app a) := by
  simp only [M3.app, V3.smul]; congr 1 <;> ring

theorem det_app (m : M3 R) (a b c : V3 R) :
    V3.det (m.app a) (m.app b) (m.app c) = m.det * V3.det a b c := by
  simp only [V3.det, M3.app, M3.det]; ring

theorem cross_app (m : M3 R) (v w : V3 R) : cross (m.app v) (m.app w) = (cof m).app (cross v w) :=
  cross_linear m v w

theorem normSq_smul (s : R) (v : V3 R) : normSq (smul s v) = s * s * normSq v := by
  simp only [V3.normSq, V3.dot, V3.smul]; ring

/-- `det A · det A = 1` for an orthogonal matrix -/
theorem det_sq_of_orthogonal (m : M3 R) (h : Orthogonal m) : m.det * m.det = 1 := by
  simp only [M3.det]
  linear_combination ((m.b*m.b + m.e*m.e + m.h*m.h)*(m.c*m.c + m.f*m.f + m.i*m.i)) * h.c11 + (m.c*m.c + m.f*m.f + m.i*m.i) * h.c22 + h.c33 - ((m.a*m.a + m.d*m.d + m.g*m.g)*(m.b*m.c + m.e*m.f + m.h*m.i)) * h.c23 - ((m.a*m.b + m.d*m.e + m.g*m.h)*(m.c*m.c + m.f*m.f + m.i*m.i) - (m.b*m.c + m.e*m.f + m.h*m.i)*(m.a*m.c + m.d*m.f + m.g*m.i)) * h.c12 + ((m.a*m.b + m.d*m.e + m.g*m.h)*(m.b*m.c + m.e*m.f + m.h*m.i) - (m.b*m.b + m.e*m.e + m.h*m.h)*(m.a*m.c + m.d*m.f + m.g*m.i)) * h.c13

/-- for an orthogonal matrix the cofactor matrix is `det A · A`: area vectors (normals) rotate with the body -/
theorem cof_app_of_orthogonal (m : M3 R) (h : Orthogonal m) (v : V3 R) :
    (cof m).app v = smul m.det (m.app v) := by
  simp only [cof, M3.app, M3.det, V3.smul]
  congr 1
  · linear_combination -(((m.e*m.i - m.f*m.h) * v.x) * h.c11 + ((m.e*m.i - m.f*m.h) * v.y) * h.c12 + ((m.e*m.i - m.f*m.h) * v.z) * h.c13 + ((-(m.d*m.i - m.f*m.g)) * v.x) * h.c12 + ((-(m.d*m.i - m.f*m.g)) * v.y) * h.c22 + ((-(m.d*m.i - m.f*m.g)) * v.z) * h.c23 + ((m.d*m.h - m.e*m.g) * v.x) * h.c13 + ((m.d*m.h - m.e*m.g) * v.y) * h.c23 + ((m.d*m.h - m.e*m.g) * v.z) * h.c33)
  · linear_combination -(((-(m.b*m.i - m.c*m.h)) * v.x) * h.c11 + ((-(m.b*m.i - m.c*m.h)) * v.y) * h.c12 + ((-(m.b*m.i - m.c*m.h)) * v.z) * h.c13 + ((m.a*m.i - m.c*m.g) * v.x) * h.c12 + ((m.a*m.i - m.c*m.g) * v.y) * h.c22 + ((m.a*m.i - m.c*m.g) * v.z) * h.c23 + ((-(m.a*m.h - m.b*m.g)) * v.x) * h.c13 + ((-(m.a*m.h - m.b*m.g)) * v.y) * h.c23 + ((-(m.a*m.h - m.b*m.g)) * v.z) * h.c33)
  · linear_combination -(((m.b*m.f - m.c*m.e) * v.x) * h.c11 + ((m.b*m.f - m.c*m.e) * v.y) * h.c12 + ((m.b*m.f - m.c*m.e) * v.z) * h.c13 + ((-(m.a*m.f - m.c*m.d)) * v.x) * h.c12 + ((-(m.a*m.f - m.c*m.d)) * v.y) * h.c22 + ((-(m.a*m.f - m.c*m.d)) * v.z) * h.c23 + ((m.a*m.e - m.b*m.d) * v.x) * h.c13 + ((m.a*m.e - m.b*m.d) * v.y) * h.c23 + ((m.a*m.e - m.b*m.d) * v.z) * h.c33)

/-- rigid motions preserve the squared length of area vectors: the radicands of the areas are invariant -/
theorem normSq_cof_of_orthogonal (m : M3 R) (h : Orthogonal m) (v : V3 R) :
    normSq ((cof m).app v) = normSq v := by
  rw [cof_app_of_orthogonal m h, normSq_smul, det_sq_of_orthogonal m h, one_mul]
  exact normSq_orthogonal m v h.c11 h.c22 h.c33 h.c12 h.c13 h.c23

/-! ### kernels that only see differences of nodes: translation and linear maps, structurally -/

theorem sub_add_add' (a b t : V3 R) : V3.sub (V3.add a t) (V3.add b t) = V3.sub a b := sub_add_add a b t

theorem tet6_app (m : M3 R) (p0 p1 p2 p3 : V3 R) :
    tet6 (m.app p0) (m.app p1) (m.app p2) (m.app p3) = m.det * tet6 p0 p1 p2 p3 := by
  simp only [tet6, ← app_sub, det_app]
theorem tet6_add (t p0 p1 p2 p3 : V3 R) :
    tet6 (V3.add p0 t) (V3.add p1 t) (V3.add p2 t) (V3.add p3 t) = tet6 p0 p1 p2 p3 := by
  simp only [tet6, sub_add_add]

theorem hexLin6_app (m : M3 R) (p0 p1 p2 p3 p4 p5 p6 p7 : V3 R) :
    hexLin6 (m.app p0) (m.app p1) (m.app p2) (m.app p3) (m.app p4) (m.app p5) (m.app p6) (m.app p7)
      = m.det * hexLin6 p0 p1 p2 p3 p4 p5 p6 p7 := by
  simp only [hexLin6, ← app_sub, det_app]; ring
theorem hexLin6_add (t p0 p1 p2 p3 p4 p5 p6 p7 : V3 R) :
    hexLin6 (V3.add p0 t) (V3.add p1 t) (V3.add p2 t) (V3.add p3 t) (V3.add p4 t) (V3.add p5 t) (V3.add p6 t) (V3.add p7 t)
      = hexLin6 p0 p1 p2 p3 p4 p5 p6 p7 := by
  simp only [hexLin6, sub_add_add]

theorem pyrLin6_app (m : M3 R) (p0 p1 p2 p3 p4 : V3 R) :
    pyrLin6 (m.app p0) (m.app p1) (m.app p2) (m.app p3) (m.app p4) = m.det * pyrLin6 p0 p1 p2 p3 p4 := by
  simp only [pyrLin6, tet6_app]; ring
theorem pyrLin6_add (t p0 p1 p2 p3 p4 : V3 R) :
    pyrLin6 (V3.add p0 t) (V3.add p1 t) (V3.add p2 t) (V3.add p3 t) (V3.add p4 t) = pyrLin6 p0 p1 p2 p3 p4 := by
  simp only [pyrLin6, tet6_add]

theorem prismLin6_app (m : M3 R) (p0 p1 p2 p3 p4 p5 : V3 R) :
    prismLin6 (m.app p0) (m.app p1) (m.app p2) (m.app p3) (m.app p4) (m.app p5)
      = m.det * prismLin6 p0 p1 p2 p3 p4 p5 := by
  simp only [prismLin6, tet6_app]; ring
theorem prismLin6_add (t p0 p1 p2 p3 p4 p5 : V3 R) :
    prismLin6 (V3.add p0 t) (V3.add p1 t) (V3.add p2 t) (V3.add p3 t) (V3.add p4 t) (V3.add p5 t)
      = prismLin6 p0 p1 p2 p3 p4 p5 := by
  simp only [prismLin6, tet6_add]

/-! ### centroid kernels (absolute positions): `quadC4` is linear in `det`, translation by `ring` -/

theorem quadC4_app (m : M3 R) (p0 p1 p2 p3 : V3 R) :
    quadC4 (m.app p0) (m.app p1) (m.app p2) (m.app p3) = m.det * quadC4 p0 p1 p2 p3 := by
  simp only [quadC4, ← app_add, det_app]; ring

theorem hexC24_app (m : M3 R) (p0 p1 p2 p3 p4 p5 p6 p7 : V3 R) :
    hexC24 (m.app p0) (m.app p1) (m.app p2) (m.app p3) (m.app p4) (m.app p5) (m.app p6) (m.app p7)
      = m.det * hexC24 p0 p1 p2 p3 p4 p5 p6 p7 := by
  simp only [hexC24, quadC4_app]; ring

theorem pyrC24_app (m : M3 R) (p0 p1 p2 p3 p4 : V3 R) :
    pyrC24 4 (m.app p0) (m.app p1) (m.app p2) (m.app p3) (m.app p4) = m.det * pyrC24 4 p0 p1 p2 p3 p4 := by
  simp only [pyrC24, quadC4_app, det_app]; ring
theorem pyrC24_add (t p0 p1 p2 p3 p4 : V3 R) :
    pyrC24 4 (V3.add p0 t) (V3.add p1 t) (V3.add p2 t) (V3.add p3 t) (V3.add p4 t) = pyrC24 4 p0 p1 p2 p3 p4 := by
  geom_unfold; ring

theorem prismC24_app (m : M3 R) (p0 p1 p2 p3 p4 p5 : V3 R) :
    prismC24 4 (m.app p0) (m.app p1) (m.app p2) (m.app p3) (m.app p4) (m.app p5)
      = m.det * prismC24 4 p0 p1 p2 p3 p4 p5 := by
  simp only [prismC24, quadC4_app, det_app]; ring
theorem prismC24_add (t p0 p1 p2 p3 p4 p5 : V3 R) :
    prismC24 4 (V3.add p0 t) (V3.add p1 t) (V3.add p2 t) (V3.add p3 t) (V3.add p4 t) (V3.add p5 t)
      = prismC24 4 p0 p1 p2 p3 p4 p5 := by
  geom_unfold; ring


/-! ### the 8-point Gaussian hex kernel, structurally: every Jacobian column is linear in the nodes -/

theorem smul_app' (m : M3 R) (s : R) (a : V3 R) : smul s (m.app a) = m.app (smul s a) := (app_smul m s a).symm
theorem add_app' (m : M3 R) (a b : V3 R) : V3.add (m.app a) (m.app b) = m.app (V3.add a b) := (app_add m a b).symm
theorem sub_app' (m : M3 R) (a b : V3 R) : V3.sub (m.app a) (m.app b) = m.app (V3.sub a b) := (app_sub m a b).symm

/-- the 6-term determinant as it is written in `_calculate_element_volumes_hex_gaussian` -/
theorem det6_app (m : M3 R) (a b c : V3 R) :
    (m.app a).x * (m.app b).y * (m.app c).z + (m.app a).y * (m.app b).z * (m.app c).x
        + (m.app a).z * (m.app b).x * (m.app c).y
      - ((m.app a).x * (m.app b).z * (m.app c).y + (m.app a).y * (m.app b).x * (m.app c).z
        + (m.app a).z * (m.app b).y * (m.app c).x)
    = m.det * (a.x * b.y * c.z + a.y * b.z * c.x + a.z * b.x * c.y
      - (a.x * b.z * c.y + a.y * b.x * c.z + a.z * b.y * c.x)) := by
  simp only [M3.app, M3.det]; ring

theorem hexGauss512_app (m : M3 R) (p : R) (q0 q1 q2 q3 q4 q5 q6 q7 : V3 R) :
    hexGauss512 1 p (m.app q0) (m.app q1) (m.app q2) (m.app q3) (m.app q4) (m.app q5) (m.app q6) (m.app q7)
      = m.det * hexGauss512 1 p q0 q1 q2 q3 q4 q5 q6 q7 := by
  simp only [hexGauss512, sub_app', smul_app', add_app', det6_app, ← mul_add]

/-! ### modes agree on affine cells and equal the closed form -/

/-- hex = parallelepiped `o + {0,1}e1 + {0,1}e2 + {0,1}e3`: all three modes give `det(e1,e2,e3)` -/
theorem hex_modes_affine (p : R) (o e1 e2 e3 : V3 R) :
    hexLin6 o (V3.add o e1) (V3.add (V3.add o e1) e2) (V3.add o e2) (V3.add o e3) (V3.add (V3.add o e1) e3)
      (V3.add (V3.add (V3.add o e1) e2) e3) (V3.add (V3.add o e2) e3) = 6 * V3.det e1 e2 e3 ∧
    hexC24 o (V3.add o e1) (V3.add (V3.add o e1) e2) (V3.add o e2) (V3.add o e3) (V3.add (V3.add o e1) e3)
      (V3.add (V3.add (V3.add o e1) e2) e3) (V3.add (V3.add o e2) e3) = 24 * V3.det e1 e2 e3 ∧
    hexGauss512 1 p o (V3.add o e1) (V3.add (V3.add o e1) e2) (V3.add o e2) (V3.add o e3) (V3.add (V3.add o e1) e3)
      (V3.add (V3.add (V3.add o e1) e2) e3) (V3.add (V3.add o e2) e3) = 512 * V3.det e1 e2 e3 := by
  refine ⟨?_, ?_, hexGauss_affine p o e1 e2 e3⟩
  · geom_unfold; ring
  · geom_unfold; ring

/-- prism `(o, o+e1, o+e2) + {0,1}e3`: both modes give `det(e2,e1,e3)/2` (femio's prism orientation) -/
theorem prism_modes_affine' (o e1 e2 e3 : V3 R) :
    prismLin6 o (V3.add o e1) (V3.add o e2) (V3.add o e3) (V3.add (V3.add o e1) e3) (V3.add (V3.add o e2) e3)
      = 3 * V3.det e2 e1 e3 ∧
    prismC24 4 o (V3.add o e1) (V3.add o e2) (V3.add o e3) (V3.add (V3.add o e1) e3) (V3.add (V3.add o e2) e3)
      = 12 * V3.det e2 e1 e3 := by
  constructor
  · geom_unfold; ring
  · geom_unfold; ring

/-- pyramid over a parallelogram base `o, o+e1, o+e1+e2, o+e2` with apex `o+a`: both modes give `det(e1,e2,a)/3` -/
theorem pyr_modes_affine (o e1 e2 a : V3 R) :
    pyrLin6 o (V3.add o e1) (V3.add (V3.add o e1) e2) (V3.add o e2) (V3.add o a) = 2 * V3.det e1 e2 a ∧
    pyrC24 4 o (V3.add o e1) (V3.add (V3.add o e1) e2) (V3.add o e2) (V3.add o a) = 8 * V3.det e1 e2 a := by
  constructor
  · geom_unfold; ring
  · geom_unfold; ring

/-- a "quad prism" `b0 b1 b2 b3` + `e`: `hexLin6 = 3 · ((b2−b0) × (b3−b1)) · e` minus the twist `det(b1−b0, b2−b0, b3−b0)` of the base, which vanishes for a planar base -/
theorem hexLin6_extruded (b0 b1 b2 b3 e : V3 R) :
    hexLin6 b0 b1 b2 b3 (V3.add b0 e) (V3.add b1 e) (V3.add b2 e) (V3.add b3 e)
      = 3 * dot (cross (V3.sub b2 b0) (V3.sub b3 b1)) e - V3.det (V3.sub b1 b0) (V3.sub b2 b0) (V3.sub b3 b0) := by
  geom_unfold; ring


/-! ### area vectors: translation invariant, transformed by the cofactor matrix -/

theorem triCross_app (m : M3 R) (p0 p1 p2 : V3 R) :
    triCross (m.app p0) (m.app p1) (m.app p2) = (cof m).app (triCross p0 p1 p2) := by
  simp only [triCross, ← app_sub, cross_app]
theorem triCross_add (t p0 p1 p2 : V3 R) :
    triCross (V3.add p0 t) (V3.add p1 t) (V3.add p2 t) = triCross p0 p1 p2 := by
  simp only [triCross, sub_add_add]

theorem quadLinCross1_app (m : M3 R) (p0 p1 p2 p3 : V3 R) :
    quadLinCross1 (m.app p0) (m.app p1) (m.app p2) (m.app p3) = (cof m).app (quadLinCross1 p0 p1 p2 p3) := by
  simp only [quadLinCross1, ← app_sub, cross_app]
theorem quadLinCross2_app (m : M3 R) (p0 p1 p2 p3 : V3 R) :
    quadLinCross2 (m.app p0) (m.app p1) (m.app p2) (m.app p3) = (cof m).app (quadLinCross2 p0 p1 p2 p3) := by
  simp only [quadLinCross2, ← app_sub, cross_app]
theorem quadLinCross1_add (t p0 p1 p2 p3 : V3 R) :
    quadLinCross1 (V3.add p0 t) (V3.add p1 t) (V3.add p2 t) (V3.add p3 t) = quadLinCross1 p0 p1 p2 p3 := by
  simp only [quadLinCross1, sub_add_add]
theorem quadLinCross2_add (t p0 p1 p2 p3 : V3 R) :
    quadLinCross2 (V3.add p0 t) (V3.add p1 t) (V3.add p2 t) (V3.add p3 t) = quadLinCross2 p0 p1 p2 p3 := by
  simp only [quadLinCross2, sub_add_add]

theorem quadGaussCross_app (m : M3 R) (xi eta : R) (p0 p1 p2 p3 : V3 R) :
    quadGaussCross 1 xi eta (m.app p0) (m.app p1) (m.app p2) (m.app p3)
      = (cof m).app (quadGaussCross 1 xi eta p0 p1 p2 p3) := by
  simp only [quadGaussCross, sub_app', smul_app', add_app', cross_app]
theorem quadGaussCross_add (t : V3 R) (xi eta : R) (p0 p1 p2 p3 : V3 R) :
    quadGaussCross 1 xi eta (V3.add p0 t) (V3.add p1 t) (V3.add p2 t) (V3.add p3 t)
      = quadGaussCross 1 xi eta p0 p1 p2 p3 := by
  simp only [quadGaussCross, sub_add_add]

theorem quadCrossC_app (m : M3 R) (p0 p1 p2 p3 : V3 R) :
    quadCrossC (m.app p0) (m.app p1) (m.app p2) (m.app p3) 4 = (cof m).app (quadCrossC p0 p1 p2 p3 4) := by
  simp only [quadCrossC, smul_app', add_app', sub_app', cross_app]
theorem quadCrossC_add (t p0 p1 p2 p3 : V3 R) :
    quadCrossC (V3.add p0 t) (V3.add p1 t) (V3.add p2 t) (V3.add p3 t) 4 = quadCrossC p0 p1 p2 p3 4 := by
  simp only [quadCrossC, V3.add, V3.sub, V3.smul, V3.cross]; congr 1 <;> ring

theorem quadLinNormal_app (m : M3 R) (p0 p1 p2 p3 : V3 R) :
    quadLinNormal (m.app p0) (m.app p1) (m.app p2) (m.app p3) = (cof m).app (quadLinNormal p0 p1 p2 p3) := by
  simp only [quadLinNormal, quadLinCross1_app, quadLinCross2_app, add_app']
theorem quadLinNormal_add (t p0 p1 p2 p3 : V3 R) :
    quadLinNormal (V3.add p0 t) (V3.add p1 t) (V3.add p2 t) (V3.add p3 t) = quadLinNormal p0 p1 p2 p3 := by
  simp only [quadLinNormal, quadLinCross1_add, quadLinCross2_add]

/-- parallelogram `o, o+e1, o+e1+e2, o+e2`: every quad kernel is a multiple of `e1 × e2`, and so is the triangle -/
theorem shell_modes_affine (xi eta : R) (o e1 e2 : V3 R) :
    triCross o (V3.add o e1) (V3.add o e2) = cross e1 e2 ∧
    quadLinCross1 o (V3.add o e1) (V3.add (V3.add o e1) e2) (V3.add o e2) = cross e1 e2 ∧
    quadLinCross2 o (V3.add o e1) (V3.add (V3.add o e1) e2) (V3.add o e2) = cross e1 e2 ∧
    quadGaussCross 1 xi eta o (V3.add o e1) (V3.add (V3.add o e1) e2) (V3.add o e2) = smul 4 (cross e1 e2) ∧
    quadCrossC o (V3.add o e1) (V3.add (V3.add o e1) e2) (V3.add o e2) 4 = smul 32 (cross e1 e2) := by
  refine ⟨?_, ?_, ?_, (quad_modes_affine xi eta o e1 e2).1, ?_⟩
  · simp only [triCross, V3.add, V3.sub, V3.cross]; congr 1 <;> ring
  · simp only [quadLinCross1, V3.add, V3.sub, V3.cross]; congr 1 <;> ring
  · simp only [quadLinCross2, V3.add, V3.sub, V3.cross]; congr 1 <;> ring
  · simp only [quadCrossC, V3.add, V3.sub, V3.smul, V3.cross]; congr 1 <;> ring


/-! ### kernels over lists of points (polygon, polyhedron) -/

theorem sum_map_mul_left' {α : Type} (c : R) (g : α → R) (l : List α) :
    (l.map fun x => c * g x).sum = c * (l.map g).sum := by
  induction l with
  | nil => simp
  | cons a t ih => simp only [List.map_cons, List.sum_cons, ih]; ring

theorem app_vzero (m : M3 R) : m.app (vzero : V3 R) = vzero := by
  simp only [vzero, M3.app]; congr 1 <;> ring

theorem vsum_cons (a : V3 R) (l : List (V3 R)) : vsum (a :: l) = V3.add a (vsum l) := rfl

theorem vsum_map_app {α : Type} (m : M3 R) (g : α → V3 R) (l : List α) :
    vsum (l.map fun x => m.app (g x)) = m.app (vsum (l.map g)) := by
  induction l with
  | nil => simp only [List.map_nil, vsum, List.foldr_nil, app_vzero]
  | cons a t ih => simp only [List.map_cons, vsum_cons, ih, app_add]

theorem consecPairs_map {α β : Type} (g : α → β) (l : List α) :
    consecPairs (l.map g) = (consecPairs l).map (Prod.map g g) := by
  simp only [consecPairs, ← List.map_tail, List.zip_map]

theorem cycPairs_map {α β : Type} (g : α → β) (l : List α) :
    cycPairs (l.map g) = (cycPairs l).map (Prod.map g g) := by
  unfold cycPairs
  rw [List.getLast?_map]
  cases h : l.getLast? with
  | none => simp
  | some z => simp only [Option.map_some, ← List.map_dropLast, ← List.map_cons, List.zip_map]

theorem polyFanCross_app (m : M3 R) (l : List (V3 R)) :
    polyFanCross (l.map m.app) = (cof m).app (polyFanCross l) := by
  cases l with
  | nil => simp only [List.map_nil, polyFanCross, app_vzero]
  | cons a t =>
    simp only [List.map_cons, polyFanCross, consecPairs_map, List.map_map]
    rw [← vsum_map_app]
    congr 1
    apply List.map_congr_left
    intro p _
    simp only [Function.comp, Prod.map, triCross_app]

theorem polyFanCross_add (t : V3 R) (l : List (V3 R)) :
    polyFanCross (l.map (V3.add · t)) = polyFanCross l := by
  cases l with
  | nil => rfl
  | cons a r =>
    simp only [List.map_cons, polyFanCross, consecPairs_map, List.map_map]
    congr 1
    apply List.map_congr_left
    intro p _
    simp only [Function.comp, Prod.map, triCross_add]

theorem faceFan6_app (m : M3 R) (l : List (V3 R)) : faceFan6 (l.map m.app) = m.det * faceFan6 l := by
  cases l with
  | nil => simp [faceFan6]
  | cons a t =>
    simp only [List.map_cons, faceFan6, consecPairs_map, List.map_map]
    rw [← sum_map_mul_left']
    congr 1
    apply List.map_congr_left
    intro p _
    simp only [Function.comp, Prod.map, det_app]

/-- linear maps multiply the polyhedron (fan) volume by `det A` -/
theorem polyFan6_app (m : M3 R) (faces : List (List (V3 R))) :
    polyFan6 (faces.map (·.map m.app)) = m.det * polyFan6 faces := by
  simp only [polyFan6, List.map_map]
  rw [← sum_map_mul_left']
  congr 1
  apply List.map_congr_left
  intro f _
  simp only [Function.comp, faceFan6_app]

theorem faceCentroidK_app (m : M3 R) (l : List (V3 R)) :
    faceCentroidK (l.map m.app) = m.det * faceCentroidK l := by
  simp only [faceCentroidK, cycPairs_map, List.map_map]
  have hs : vsum (l.map m.app) = m.app (vsum l) := by
    have := vsum_map_app m (fun x => x) l
    simpa using this
  rw [hs, ← sum_map_mul_left']
  congr 1
  apply List.map_congr_left
  intro p _
  simp only [Function.comp, Prod.map, det_app]

/-- linear maps multiply the polyhedron (centroid) volume by `det A`, whatever `kinv` is -/
theorem polyC6_app (m : M3 R) (kinv : Nat → R) (faces : List (List (V3 R))) :
    polyC6 kinv (faces.map (·.map m.app)) = m.det * polyC6 kinv faces := by
  simp only [polyC6, List.map_map]
  rw [← sum_map_mul_left']
  congr 1
  apply List.map_congr_left
  intro f _
  simp only [Function.comp, faceCentroidK_app, List.length_map]; ring

theorem polyCentroidCross_app (m : M3 R) (n : R) (l : List (V3 R)) :
    polyCentroidCross n (l.map m.app) = (cof m).app (polyCentroidCross n l) := by
  simp only [polyCentroidCross, cycPairs_map, List.map_map]
  have hs : vsum (l.map m.app) = m.app (vsum l) := by
    have := vsum_map_app m (fun x => x) l
    simpa using this
  rw [hs, ← vsum_map_app]
  congr 1
  apply List.map_congr_left
  intro p _
  simp only [Function.comp, Prod.map, smul_app', sub_app', cross_app]

/-! translation of the face-list kernels: each face contributes `t · (its doubled area vector)`, so the volume of a
    *closed* polyhedron (area vectors sum to zero) is translation invariant -/

theorem det_add_add_add (t a b c : V3 R) :
    V3.det (V3.add a t) (V3.add b t) (V3.add c t) = V3.det a b c + dot t (triCross a b c) := by
  simp only [V3.det, V3.add, V3.dot, triCross, V3.cross, V3.sub]; ring

theorem dot_vzero (t : V3 R) : dot t (vzero : V3 R) = 0 := by simp only [V3.dot, vzero]; ring
theorem dot_add (t a b : V3 R) : dot t (V3.add a b) = dot t a + dot t b := by
  simp only [V3.dot, V3.add]; ring

theorem sum_add_dot {α : Type} (t : V3 R) (g : α → R) (h : α → V3 R) (l : List α) :
    (l.map fun x => g x + dot t (h x)).sum = (l.map g).sum + dot t (vsum (l.map h)) := by
  induction l with
  | nil => simp [vsum, dot_vzero]
  | cons a r ih => simp only [List.map_cons, List.sum_cons, vsum_cons, ih, dot_add]; ring

theorem faceFan6_add (t : V3 R) (l : List (V3 R)) :
    faceFan6 (l.map (V3.add · t)) = faceFan6 l + dot t (polyFanCross l) := by
  cases l with
  | nil => simp [faceFan6, polyFanCross, dot_vzero]
  | cons a r =>
    simp only [List.map_cons, faceFan6, polyFanCross, consecPairs_map, List.map_map]
    rw [← sum_add_dot]
    congr 1
    apply List.map_congr_left
    intro p _
    simp only [Function.comp, Prod.map, det_add_add_add]

theorem polyFan6_add (t : V3 R) (faces : List (List (V3 R))) :
    polyFan6 (faces.map (·.map (V3.add · t))) = polyFan6 faces + dot t (vsum (faces.map polyFanCross)) := by
  simp only [polyFan6, List.map_map]
  rw [← sum_add_dot]
  congr 1
  apply List.map_congr_left
  intro f _
  simp only [Function.comp, faceFan6_add]


/-! translation of the polygon centroid kernel: `n·(p + t) − Σ(p + t) = n·p − Σp` when `n` is the number of nodes -/

theorem vsum_map_add (t : V3 R) (l : List (V3 R)) :
    vsum (l.map (V3.add · t)) = V3.add (vsum l) (smul (l.length : R) t) := by
  induction l with
  | nil => simp only [List.map_nil, vsum, List.foldr_nil, List.length_nil, Nat.cast_zero, vzero, V3.add, V3.smul]; congr 1 <;> ring
  | cons a r ih =>
    rw [List.map_cons, vsum_cons, ih, vsum_cons, List.length_cons, Nat.cast_succ]
    simp only [V3.add, V3.smul]; congr 1 <;> ring

theorem sub_smul_add (n : R) (u s t : V3 R) :
    V3.sub (smul n (V3.add u t)) (V3.add s (smul n t)) = V3.sub (smul n u) s := by
  simp only [V3.sub, V3.add, V3.smul]; congr 1 <;> ring

theorem polyCentroidCross_add (t : V3 R) (l : List (V3 R)) :
    polyCentroidCross (l.length : R) (l.map (V3.add · t)) = polyCentroidCross (l.length : R) l := by
  simp only [polyCentroidCross, cycPairs_map, List.map_map, vsum_map_add]
  congr 1
  apply List.map_congr_left
  intro p _
  simp only [Function.comp, Prod.map, sub_smul_add]


end Femio.C11
