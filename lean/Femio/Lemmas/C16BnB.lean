import Mathlib.Data.List.Sort
import Mathlib.Data.List.Perm.Basic
import Mathlib.Order.Basic
import Mathlib.Tactic.Linarith

/-! Abstract, order-independent branch-and-bound for k-nearest search (C16), with the extra *drop* step
    (a subtree without admissible points leaves the queue at any time). -/
namespace Femio.C16

variable {α : Type} [LinearOrder α]

/-- model of `heapq.heappushpop(res_q, x)` on a result heap of capacity `k`, kept as a sorted list -/
def ins (k : ℕ) (x : α) (r : List α) : List α := (r.orderedInsert (· ≤ ·) x).take k

/-- `r` is a list of the `k` smallest elements of `S`, ascending -/
structure IsBest (k : ℕ) (S r : List α) : Prop where
  sorted : r.Pairwise (· ≤ ·)
  len : r.length = min k S.length
  split : ∃ rest, S.Perm (r ++ rest) ∧ ∀ x ∈ rest, ∀ y ∈ r, y ≤ x

theorem isBest_nil (k : ℕ) : IsBest k ([] : List α) [] :=
  ⟨List.Pairwise.nil, by simp, ⟨[], by simp, by simp⟩⟩

theorem sorted_take_le_drop {l : List α} (h : l.Pairwise (· ≤ ·)) (n : ℕ) :
    ∀ y ∈ l.take n, ∀ z ∈ l.drop n, y ≤ z := by
  have h' : (l.take n ++ l.drop n).Pairwise (· ≤ ·) := by rwa [List.take_append_drop]
  have := (List.pairwise_append.mp h').2.2
  intro y hy z hz; exact this y hy z hz

theorem ins_best {k : ℕ} {S r : List α} {x : α} (h : IsBest k S r) : IsBest k (x :: S) (ins k x r) := by
  obtain ⟨hs, hl, rest, hperm, hrest⟩ := h
  set oi := r.orderedInsert (· ≤ ·) x with hoi
  have hsoi : oi.Pairwise (· ≤ ·) := List.Pairwise.orderedInsert x r hs
  have hpoi : oi.Perm (x :: r) := List.perm_orderedInsert (· ≤ ·) x r
  have hloi : oi.length = r.length + 1 := by rw [hpoi.length_eq]; simp
  have hSlen : S.length = r.length + rest.length := by rw [hperm.length_eq]; simp
  refine ⟨?_, ?_, ?_⟩
  · exact List.Pairwise.sublist (List.take_sublist k oi) hsoi
  · simp only [ins, List.length_take, List.length_cons, ← hoi, hloi]
    rw [hl]; omega
  · refine ⟨oi.drop k ++ rest, ?_, ?_⟩
    · calc (x :: S).Perm (x :: (r ++ rest)) := hperm.cons x
        _ = (x :: r) ++ rest := rfl
        _ |>.Perm (oi ++ rest) := hpoi.symm.append_right rest
        _ = (oi.take k ++ oi.drop k) ++ rest := by rw [List.take_append_drop]
        _ = ins k x r ++ (oi.drop k ++ rest) := by rw [List.append_assoc]; rfl
    · intro z hz y hy
      have hy' : y ∈ oi.take k := hy
      rcases List.mem_append.mp hz with hzd | hzr
      · exact sorted_take_le_drop hsoi k y hy' z hzd
      · -- z ∈ rest
        have hyoi : y ∈ oi := List.mem_of_mem_take hy'
        rcases (List.mem_cons.mp (hpoi.subset hyoi)) with hyx | hyr
        · -- y = x : need x ≤ z
          by_cases hk : r.length < k
          · -- then rest = []
            have h0 : rest.length = 0 := by
              have : r.length = S.length := by rw [hl]; omega
              omega
            have hnil : rest = [] := List.length_eq_zero_iff.mp h0
            rw [hnil] at hzr; simp at hzr
          · -- r.length = k, oi has k+1 elements; the dropped one dominates y and lies in r (or equals y ∈ r)
            have hrk : r.length = k := by
              have : r.length ≤ k := by rw [hl]; exact Nat.min_le_left _ _
              omega
            have hdl : (oi.drop k).length = 1 := by simp [hloi, hrk]
            obtain ⟨m, hm⟩ := List.length_eq_one_iff.mp hdl
            have hmoi : m ∈ oi := List.mem_of_mem_drop (by rw [hm]; simp)
            have hym : y ≤ m := sorted_take_le_drop hsoi k y hy' m (by rw [hm]; simp)
            rcases (List.mem_cons.mp (hpoi.subset hmoi)) with hmx | hmr
            · -- m = x: then take k oi ~ r, so y ∈ r
              have hp : (oi.take k ++ [m]).Perm (x :: r) := by
                rw [← hm, List.take_append_drop]; exact hpoi
              have hp' : (oi.take k).Perm r := by
                have h3 : (m :: oi.take k).Perm (x :: r) :=
                  (List.perm_append_comm (l₁ := [m]) (l₂ := oi.take k)).trans hp
                rw [hmx] at h3
                exact (List.perm_cons x).mp h3
              exact hrest z hzr y (hp'.subset hy')
            · exact le_trans hym (hrest z hzr m hmr)
        · exact hrest z hzr y hyr

theorem foldl_ins_best {k : ℕ} (pts : List α) {S r : List α} (h : IsBest k S r) :
    IsBest k (pts.reverse ++ S) (pts.foldl (fun r x => ins k x r) r) := by
  induction pts generalizing S r with
  | nil => simpa using h
  | cons p ps ih =>
    have := ih (ins_best (x := p) h)
    simpa [List.foldl_cons, List.reverse_cons, List.append_assoc] using this

/-- if at least `k` elements of `S` are `≤ x`, every element of a best-`k` list of `S` is `≤ x` -/
theorem best_le_of_many {k : ℕ} {S r : List α} (h : IsBest k S r) {x : α}
    (hx : k ≤ (S.filter (fun s => decide (s ≤ x))).length) : ∀ y ∈ r, y ≤ x := by
  obtain ⟨_, hl, rest, hperm, hrest⟩ := h
  intro y hy
  by_contra hlt
  push_neg at hlt
  -- nothing in rest is ≤ x
  have hrest0 : rest.filter (fun s => decide (s ≤ x)) = [] := by
    apply List.filter_eq_nil_iff.mpr
    intro z hz; have := hrest z hz y hy
    simp only [decide_eq_true_eq, not_le]; exact lt_of_lt_of_le hlt this
  have hcount : (S.filter (fun s => decide (s ≤ x))).length
      = (r.filter (fun s => decide (s ≤ x))).length := by
    rw [(hperm.filter _).length_eq, List.filter_append, hrest0]; simp
  -- y ∈ r is not ≤ x, so fewer than r.length elements of r pass the filter
  have hlt' : (r.filter (fun s => decide (s ≤ x))).length < r.length := by
    apply List.length_filter_lt_length_iff_exists.mpr
    exact ⟨y, hy, by simp [hlt]⟩
  have : r.length ≤ k := by rw [hl]; exact Nat.min_le_left _ _
  omega

/-! ### the search as a nondeterministic transition system over an abstract tree type -/

structure SearchTree (T α : Type) where
  pts : T → List α
  children : T → Option (List T)
  children_pts : ∀ t cs, children t = some cs → (pts t).Perm (cs.flatMap pts)

structure St (T α : Type) where
  queue : List T
  res : List α
  seen : List α      -- ghost
  disc : List α      -- ghost: points under skipped subtrees

variable {T : Type}

inductive Step (tr : SearchTree T α) (k : ℕ) : St T α → St T α → Prop
  /-- prune: the result heap is full and nothing under `t` beats its worst entry -/
  | skip (t : T) (q : List T) (res seen disc : List α)
      (hfull : res.length = k) (hlb : ∀ x ∈ tr.pts t, ∀ y ∈ res, y ≤ x) :
      Step tr k ⟨t :: q, res, seen, disc⟩ ⟨q, res, seen, tr.pts t ++ disc⟩
  | expand (t : T) (cs q : List T) (res seen disc : List α) (h : tr.children t = some cs) :
      Step tr k ⟨t :: q, res, seen, disc⟩ ⟨cs ++ q, res, seen, disc⟩
  | scan (t : T) (q : List T) (res seen disc : List α) (h : tr.children t = none) :
      Step tr k ⟨t :: q, res, seen, disc⟩
        ⟨q, (tr.pts t).foldl (fun r x => ins k x r) res, (tr.pts t).reverse ++ seen, disc⟩
  /-- drop: nothing admissible lies under `t` (`lb > distance_upper_bound`) -/
  | drop (t : T) (q : List T) (res seen disc : List α) (h : tr.pts t = []) :
      Step tr k ⟨t :: q, res, seen, disc⟩ ⟨q, res, seen, disc⟩
  /-- the queue is a multiset: any element may be popped next -/
  | reorder (q q' : List T) (res seen disc : List α) (h : q.Perm q') :
      Step tr k ⟨q, res, seen, disc⟩ ⟨q', res, seen, disc⟩

structure SInv (tr : SearchTree T α) (k : ℕ) (all : List α) (s : St T α) : Prop where
  cover : all.Perm (s.seen ++ s.disc ++ s.queue.flatMap tr.pts)
  best : IsBest k s.seen s.res
  disc : ∀ x ∈ s.disc, k ≤ (s.seen.filter (fun z => decide (z ≤ x))).length

theorem many_of_full {k : ℕ} {S r : List α} (h : IsBest k S r) (hfull : r.length = k) {x : α}
    (hx : ∀ y ∈ r, y ≤ x) : k ≤ (S.filter (fun z => decide (z ≤ x))).length := by
  obtain ⟨_, _, rest, hperm, _⟩ := h
  rw [(hperm.filter _).length_eq, List.filter_append, List.length_append]
  have : r.filter (fun z => decide (z ≤ x)) = r := by
    apply List.filter_eq_self.mpr; intro y hy; simpa using hx y hy
  rw [this]; omega

theorem step_inv {tr : SearchTree T α} {k : ℕ} {all : List α} {s s' : St T α}
    (hI : SInv tr k all s) (hs : Step tr k s s') : SInv tr k all s' := by
  cases hs with
  | skip t q res seen disc hfull hlb =>
    obtain ⟨hc, hb, hd⟩ := hI
    refine ⟨?_, hb, ?_⟩
    · simp only [List.flatMap_cons] at hc ⊢
      refine hc.trans ?_
      -- seen ++ disc ++ (pts t ++ rest) ~ seen ++ (pts t ++ disc) ++ rest
      simp only [List.append_assoc]
      apply List.Perm.append_left
      rw [← List.append_assoc, ← List.append_assoc]
      exact List.Perm.append_right _ List.perm_append_comm
    · intro x hx
      rcases List.mem_append.mp hx with hx | hx
      · exact many_of_full hb hfull (fun y hy => hlb x hx y hy)
      · exact hd x hx
  | expand t cs q res seen disc h =>
    obtain ⟨hc, hb, hd⟩ := hI
    refine ⟨?_, hb, hd⟩
    simp only [List.flatMap_cons, List.flatMap_append] at hc ⊢
    exact hc.trans (List.Perm.append_left _ (List.Perm.append_right _ (tr.children_pts t cs h)))
  | scan t q res seen disc h =>
    obtain ⟨hc, hb, hd⟩ := hI
    refine ⟨?_, foldl_ins_best _ hb, ?_⟩
    · simp only [List.flatMap_cons] at hc ⊢
      refine hc.trans ?_
      -- seen ++ disc ++ (pts ++ rest) ~ (pts.reverse ++ seen) ++ disc ++ rest
      have h1 : (seen ++ disc ++ (tr.pts t ++ q.flatMap tr.pts)).Perm
          (tr.pts t ++ (seen ++ disc ++ q.flatMap tr.pts)) := by
        rw [← List.append_assoc (seen ++ disc)]
        exact (List.Perm.append_right _ List.perm_append_comm).trans (by simp [List.append_assoc])
      refine h1.trans ?_
      simp only [List.append_assoc]
      exact List.Perm.append_right _ (List.reverse_perm _).symm
    · intro x hx
      have h5 : k ≤ (seen.filter (fun z => decide (z ≤ x))).length := hd x hx
      show k ≤ (((tr.pts t).reverse ++ seen).filter (fun z => decide (z ≤ x))).length
      simp only [List.filter_append, List.length_append]
      omega
  | drop t q res seen disc h =>
    obtain ⟨hc, hb, hd⟩ := hI
    refine ⟨?_, hb, hd⟩
    simpa [List.flatMap_cons, h] using hc
  | reorder q q' res seen disc h =>
    obtain ⟨hc, hb, hd⟩ := hI
    exact ⟨hc.trans (List.Perm.append_left _ (h.flatMap_right _)), hb, hd⟩

/-- **Correctness, independent of the processing order**: whenever the queue is exhausted the result
    heap holds the `k` smallest keys of all points, ascending. -/
theorem final_best {tr : SearchTree T α} {k : ℕ} {all : List α} {s : St T α}
    (hI : SInv tr k all s) (hq : s.queue = []) : IsBest k all s.res := by
  obtain ⟨hc, hb, hd⟩ := hI
  rw [hq] at hc
  simp only [List.flatMap_nil, List.append_nil] at hc
  obtain ⟨hs, hl, rest, hperm, hrest⟩ := hb
  have hb' : IsBest k s.seen s.res := ⟨hs, hl, rest, hperm, hrest⟩
  refine ⟨hs, ?_, ⟨rest ++ s.disc, ?_, ?_⟩⟩
  · -- length
    rw [hc.length_eq, List.length_append, hl]
    by_cases hd0 : s.disc = []
    · simp [hd0]
    · obtain ⟨x, hx⟩ := List.exists_mem_of_ne_nil _ hd0
      have h1 := hd x hx
      have h2 : (s.seen.filter (fun z => decide (z ≤ x))).length ≤ s.seen.length := List.length_filter_le _ _
      omega
  · calc all.Perm (s.seen ++ s.disc) := hc
      _ |>.Perm ((s.res ++ rest) ++ s.disc) := hperm.append_right _
      _ = s.res ++ (rest ++ s.disc) := by simp
  · intro x hx y hy
    rcases List.mem_append.mp hx with hx | hx
    · exact hrest x hx y hy
    · exact best_le_of_many hb' (hd x hx) y hy

end Femio.C16
