import Femio.Lemmas.FistrG3b

/-! G3, part c: blocks, `extendAssignments`, one invariance lemma per reader function. -/
namespace Femio.Fistr.G3
open Femio.Fistr Numeral
open List (Forall₂)

/-! ### `Forall₂` helpers -/
theorem forall₂_filter {α β} {R : α → β → Prop} {p : α → Bool} {q : β → Bool} (hpq : ∀ a b, R a b → p a = q b)
    {l : List α} {l' : List β} (h : Forall₂ R l l') : Forall₂ R (l.filter p) (l'.filter q) := by
  induction h with
  | nil => exact .nil
  | cons hab _ ih =>
    simp only [List.filter_cons, ← hpq _ _ hab]
    split
    · exact .cons hab ih
    · exact ih

theorem forall₂_isEmpty {α β} {R : α → β → Prop} {l : List α} {l' : List β} (h : Forall₂ R l l') :
    l.isEmpty = l'.isEmpty := by cases h <;> rfl

theorem forall₂_flatMap {α β γ δ} {R : α → β → Prop} {S : γ → δ → Prop} {f : α → List γ} {g : β → List δ}
    {l : List α} {l' : List β} (h : Forall₂ R l l') (hfg : ∀ a b, R a b → Forall₂ S (f a) (g b)) :
    Forall₂ S (l.flatMap f) (l'.flatMap g) := by
  induction h with
  | nil => exact .nil
  | cons hab _ ih =>
    simp only [List.flatMap_cons]
    exact List.rel_append (hfg _ _ hab) ih

theorem forall₂_any {α β} {R : α → β → Prop} {p : α → Bool} {q : β → Bool} (hpq : ∀ a b, R a b → p a = q b)
    {l : List α} {l' : List β} (h : Forall₂ R l l') : l.any p = l'.any q := by
  induction h with
  | nil => rfl
  | cons hab _ ih => simp only [List.any_cons, hpq _ _ hab, ih]

theorem mapM_congr_same {α α' β} {R : α → α' → Prop} {l : List α} {l' : List α'} (h : Forall₂ R l l')
    (f : α → Option β) (g : α' → Option β) (hfg : ∀ a b, R a b → f a = g b) : l.mapM f = l'.mapM g := by
  induction h with
  | nil => rfl
  | cons hab _ ih => rw [List.mapM_cons, List.mapM_cons, hfg _ _ hab, ih]

/-- both fail, or both succeed with related values -/
def ORel {α β} (S : α → β → Prop) : Option α → Option β → Prop
  | none, none => True
  | some a, some b => S a b
  | _, _ => False

theorem mapM_orel {α α' β β'} {R : α → α' → Prop} {S : β → β' → Prop} {f : α → Option β} {g : α' → Option β'}
    {l : List α} {l' : List α'} (h : Forall₂ R l l') (hfg : ∀ a b, R a b → ORel S (f a) (g b)) :
    ORel (Forall₂ S) (l.mapM f) (l'.mapM g) := by
  induction h with
  | nil => exact Forall₂.nil
  | @cons a b t t' hab _ ih =>
    rw [List.mapM_cons, List.mapM_cons]
    have h1 := hfg a b hab
    cases hfa : f a with
    | none =>
      cases hgb : g b with
      | none => exact True.intro
      | some y => rw [hfa, hgb] at h1; exact h1.elim
    | some x =>
      cases hgb : g b with
      | none => rw [hfa, hgb] at h1; exact h1.elim
      | some y =>
        rw [hfa, hgb] at h1
        cases hft : t.mapM f with
        | none =>
          cases hgt : t'.mapM g with
          | none => exact True.intro
          | some ys => rw [hft, hgt] at ih; exact ih.elim
        | some xs =>
          cases hgt : t'.mapM g with
          | none => rw [hft, hgt] at ih; exact ih.elim
          | some ys => rw [hft, hgt] at ih; exact Forall₂.cons h1 ih

/-! ### blocks -/
def BlockRel (b b' : Line × List Line) : Prop := HdrRel b.1 b'.1 ∧ Forall₂ DataRel b.2 b'.2

theorem toBlocksAux_rel {t t' : List Line} (h : Forall₂ LineRel t t') :
    Forall₂ DataRel (toBlocksAux t).1 (toBlocksAux t').1 ∧ Forall₂ BlockRel (toBlocksAux t).2 (toBlocksAux t').2 := by
  induction h with
  | nil => exact ⟨.nil, .nil⟩
  | cons hab _ ih =>
    rcases hab with hh | hd
    · have h1 := hh.1
      have h2 := isHeader_hdr hh
      simp only [toBlocksAux, h1, h2, if_true]
      exact ⟨.nil, .cons ⟨hh, ih.1⟩ ih.2⟩
    · simp only [toBlocksAux, hd.1, hd.2.1, Bool.false_eq_true, if_false]
      exact ⟨.cons hd ih.1, ih.2⟩

theorem ignoreLine_rel {l l' : Line} (h : LineRel l l') : ignoreLine l = ignoreLine l' := by
  rcases h with h | h
  · exact ignoreLine_hdr h
  · exact ignoreLine_data h

theorem toBlocks_rel {t t' : List Line} (h : G3 t t') : Forall₂ BlockRel (toBlocks t) (toBlocks t') := by
  unfold toBlocks
  exact (toBlocksAux_rel (forall₂_filter (fun a b hab => by rw [ignoreLine_rel hab]) h)).2

theorem blocksOf_rel (key : List Char) (hk : keyOK key = true) {bs bs' : List (Line × List Line)}
    (h : Forall₂ BlockRel bs bs') : Forall₂ BlockRel (blocksOf key bs) (blocksOf key bs') :=
  forall₂_filter (fun _ _ hab => hasSub_hdr key hk hab.1) h

theorem blockData_rel {bs bs' : List (Line × List Line)} (h : Forall₂ BlockRel bs bs') :
    Forall₂ DataRel (bs.flatMap (·.2)) (bs'.flatMap (·.2)) :=
  forall₂_flatMap h (fun _ _ hab => hab.2)

theorem extractData_rel (key : List Char) (hk : keyOK key = true) {bs bs' : List (Line × List Line)}
    (h : Forall₂ BlockRel bs bs') : Forall₂ DataRel (extractData key bs) (extractData key bs') :=
  blockData_rel (blocksOf_rel key hk h)

/-! ### `_extend_assignments` -/
/-- one group-name row of an `!INITIAL CONDITION` block, expanded -/
def expandRow (ng : List (Name × List Nat)) (l : Line) : Option (List Line) := do
  let (g, v) ← splitFirst ',' l
  let ids ← lookupS (trim g) ng
  pure (ids.map fun i => showNat i ++ ',' :: v)

theorem extendAssignments_eq (ng : List (Name × List Nat)) (rows : List Line) :
    extendAssignments ng rows =
      if (rows.filter (startsWithP isAlpha)).isEmpty then some rows else
        ((rows.filter (startsWithP isAlpha)).mapM (expandRow ng)).bind fun ex =>
          some (ex.flatten ++ rows.filter (startsWithP isDigit)) := rfl

theorem expandRow_of_none (ng : List (Name × List Nat)) {l : Line} (h : splitFirst ',' l = none) :
    expandRow ng l = none := by
  unfold expandRow; rw [h]; rfl

theorem expandRow_of_some (ng : List (Name × List Nat)) {l g v : List Char} (h : splitFirst ',' l = some (g, v)) :
    expandRow ng l = (lookupS (trim g) ng).map fun ids => ids.map fun i => showNat i ++ ',' :: v := by
  unfold expandRow; rw [h]
  show ((lookupS (trim g) ng).bind fun ids => some (ids.map fun i => showNat i ++ ',' :: v)) = _
  cases lookupS (trim g) ng <;> rfl

theorem dataRel_idRow (i : Nat) {v v' : List Char}
    (h : (splitOn ',' v).map trim = (splitOn ',' v').map trim) :
    DataRel (showNat i ++ ',' :: v) (showNat i ++ ',' :: v') := by
  obtain ⟨c, t, hct, hcd⟩ := showNat_cons i
  have hc : c ≠ '!' := by rintro rfl; revert hcd; decide
  refine ⟨?_, ?_, ?_⟩
  · rw [hct]; simp [isHeader, hc]
  · rw [hct]; simp [isHeader, hc]
  · rw [splitOn_append ',' _ _ (comma_not_mem_showNat i), splitOn_append ',' _ _ (comma_not_mem_showNat i),
      List.map_cons, List.map_cons, h]

theorem expandRow_data (ng : List (Name × List Nat)) {l l' : Line} (hr : DataRel l l') :
    ORel (Forall₂ DataRel) (expandRow ng l) (expandRow ng l') := by
  obtain ⟨_, _, h⟩ := hr
  rcases split_cases ',' l with ⟨_, a2, a3⟩ | ⟨g, v, _, _, a3, a4⟩ <;>
    rcases split_cases ',' l' with ⟨_, b2, b3⟩ | ⟨g', v', _, _, b3, b4⟩
  · rw [expandRow_of_none ng a3, expandRow_of_none ng b3]; exact True.intro
  · rw [a2, b3] at h
    have := congrArg List.length h
    obtain ⟨x, r, hx⟩ := List.exists_cons_of_ne_nil (splitOn_ne_nil ',' v')
    simp [hx] at this
  · rw [a3, b2] at h
    have := congrArg List.length h
    obtain ⟨x, r, hx⟩ := List.exists_cons_of_ne_nil (splitOn_ne_nil ',' v)
    simp [hx] at this
  · rw [a3, b3] at h
    simp only [List.map_cons, List.cons.injEq] at h
    rw [expandRow_of_some ng a4, expandRow_of_some ng b4, h.1]
    cases lookupS (trim g') ng with
    | none => exact True.intro
    | some ids =>
      show Forall₂ DataRel (ids.map _) (ids.map _)
      rw [List.forall₂_map_left_iff, List.forall₂_map_right_iff, List.forall₂_same]
      intro i _
      exact dataRel_idRow i h.2

theorem extendAssignments_data (ng : List (Name × List Nat)) {rows rows' : List Line}
    (h : Forall₂ DataRel rows rows') :
    ORel (Forall₂ DataRel) (extendAssignments ng rows) (extendAssignments ng rows') := by
  have hg : Forall₂ DataRel (rows.filter (startsWithP isAlpha)) (rows'.filter (startsWithP isAlpha)) :=
    forall₂_filter (fun _ _ hab => startsWithP_data isAlpha (by decide) hab) h
  have hd : Forall₂ DataRel (rows.filter (startsWithP isDigit)) (rows'.filter (startsWithP isDigit)) :=
    forall₂_filter (fun _ _ hab => startsWithP_data isDigit (by decide) hab) h
  rw [extendAssignments_eq, extendAssignments_eq, forall₂_isEmpty hg]
  split
  · exact h
  · have hm := mapM_orel (f := expandRow ng) (g := expandRow ng) hg (fun _ _ hab => expandRow_data ng hab)
    cases h1 : (rows.filter (startsWithP isAlpha)).mapM (expandRow ng) with
    | none =>
      cases h2 : (rows'.filter (startsWithP isAlpha)).mapM (expandRow ng) with
      | none => exact True.intro
      | some y => rw [h1, h2] at hm; exact hm.elim
    | some x =>
      cases h2 : (rows'.filter (startsWithP isAlpha)).mapM (expandRow ng) with
      | none => rw [h1, h2] at hm; exact hm.elim
      | some y =>
        rw [h1, h2] at hm
        exact List.rel_append (List.rel_flatten hm) hd

/-- the table of one `!INITIAL CONDITION` block -/
theorem initTab_data (ng : List (Name × List Nat)) {d d' : List Line} (h : Forall₂ DataRel d d') :
    (do let rows ← extendAssignments ng d
        if rows.isEmpty then none else rows.mapM (parseRowF parseDec)) =
    (do let rows ← extendAssignments ng d'
        if rows.isEmpty then none else rows.mapM (parseRowF parseDec)) := by
  have hm := extendAssignments_data ng h
  cases h1 : extendAssignments ng d with
  | none =>
    cases h2 : extendAssignments ng d' with
    | none => rfl
    | some y => rw [h1, h2] at hm; exact hm.elim
  | some x =>
    cases h2 : extendAssignments ng d' with
    | none => rw [h1, h2] at hm; exact hm.elim
    | some y =>
      rw [h1, h2] at hm
      have hm' : Forall₂ DataRel x y := hm
      show (if x.isEmpty then none else x.mapM (parseRowF parseDec)) =
        (if y.isEmpty then none else y.mapM (parseRowF parseDec))
      rw [forall₂_isEmpty hm', mapM_congr_same hm' _ _ (fun _ _ hab => parseRowF_data parseDec parseDec_tc hab)]

/-! ### the reader functions -/
variable {bs bs' : List (Line × List Line)}

theorem readNodes_g3 (h : Forall₂ BlockRel bs bs') : readNodes bs = readNodes bs' := by
  have hd := extractData_rel c!"!NODE" (by decide) h
  unfold readNodes
  rw [forall₂_isEmpty hd]
  rw [mapM_congr_same hd _ _ (fun a b hab => by rw [parseRowF_data parseDec parseDec_tc hab])]

theorem readElements_g3 (h : Forall₂ BlockRel bs bs') : readElements bs = readElements bs' := by
  have hebs := blocksOf_rel c!"!ELEMENT" (by decide) h
  have e1 := mapM_congr_same hebs (fun b => capture c!"TYPE=" b.1) (fun b => capture c!"TYPE=" b.1)
    (fun a b hab => capture_hdr _ (by decide) hab.1)
  have e2 := mapM_congr_same (blockData_rel hebs) (parseRowF parseNatTok) (parseRowF parseNatTok)
    (fun a b hab => parseRowF_data _ parseNatTok_tc hab)
  have e3 := mapM_congr_same hebs
    (fun b => if b.2.isEmpty then none else b.2.mapM fun l => (parseRowI l).bind headTail)
    (fun b => if b.2.isEmpty then none else b.2.mapM fun l => (parseRowI l).bind headTail)
    (fun a b hab => by
      rw [forall₂_isEmpty hab.2, mapM_congr_same hab.2 _ _ (fun x y hxy => by rw [parseRowI_data hxy])])
  unfold readElements
  simp only []
  rw [e1, e2, e3]

theorem readGroups_g3 (merge : Bool) (hdr key : List Char) (hk1 : keyOK hdr = true) (hk2 : keyOK key = true)
    (h : Forall₂ BlockRel bs bs') (all : List Nat) :
    readGroups merge hdr key all bs = readGroups merge hdr key all bs' := by
  have hg := blocksOf_rel hdr hk1 h
  have e1 := mapM_congr_same hg (fun b => capture key b.1) (fun b => capture key b.1)
    (fun a b hab => capture_hdr _ hk2 hab.1)
  have e2 := mapM_congr_same hg
    (fun b => if b.2.isEmpty then none else (b.2.mapM parseRowI).map List.flatten)
    (fun b => if b.2.isEmpty then none else (b.2.mapM parseRowI).map List.flatten)
    (fun a b hab => by
      rw [forall₂_isEmpty hab.2, mapM_congr_same hab.2 _ _ (fun x y hxy => parseRowI_data hxy)])
  unfold readGroups
  simp only []
  rw [e1, e2]

theorem readSections_g3 (h : Forall₂ BlockRel bs bs') : readSections bs = readSections bs' := by
  unfold readSections
  exact mapM_congr_same (blocksOf_rel c!"!SECTION" (by decide) h) _ _ (fun a b hab => by
    rw [capture_hdr c!"TYPE=" (by decide) hab.1, capture_hdr c!"EGRP=" (by decide) hab.1,
      capture_hdr c!"MATERIAL=" (by decide) hab.1])

theorem readInitial_g3 (h : Forall₂ BlockRel bs bs') (ng : List (Name × List Nat)) (nodeIds : List Nat) :
    readInitial ng nodeIds bs = readInitial ng nodeIds bs' := by
  have hi := blocksOf_rel c!"!INITIAL CONDITION" (by decide) h
  have e1 := mapM_congr_same hi (fun b => capture c!"TYPE=" b.1) (fun b => capture c!"TYPE=" b.1)
    (fun a b hab => capture_hdr _ (by decide) hab.1)
  have e2 := mapM_congr_same hi
    (fun b => do
      let rows ← extendAssignments ng b.2
      if rows.isEmpty then none else rows.mapM (parseRowF parseDec))
    (fun b => do
      let rows ← extendAssignments ng b.2
      if rows.isEmpty then none else rows.mapM (parseRowF parseDec))
    (fun a b hab => initTab_data ng hab.2)
  unfold readInitial
  simp only []
  rw [e1, e2]

end Femio.Fistr.G3
