import Femio.Model.ResFile
import Femio.Lemmas.ResSplit
import Femio.Lemmas.NumeralProps
import Mathlib.Data.List.Perm.Basic

/-! helper lemmas for C02 beyond one section: layout detection, whole-file round trip -/
namespace Femio.C02
open Res

variable {V : Type} {α : Type}

/-- no line of a rendered section contains the layout marker when no variable name does -/
theorem sec_noMarker (wc wv : Nat) (s : Sec V) (hwc : 1 ≤ wc) (hwv : 1 ≤ wv)
    (hn : ∀ x ∈ s.vars, hasInfix marker x.name = false) :
    (renderSec wc wv s).any lineHasMarker = false := by
  rw [List.any_eq_false]
  intro l hl
  rw [render_eq, List.mem_append, List.mem_append] at hl
  simp only [lineHasMarker, Bool.not_eq_true, List.any_eq_false]
  intro t ht
  rcases hl with hl | hl | hl
  · obtain ⟨_, hmem⟩ := chunks_mem wc hwc _ l hl
    have := hmem t ht
    simp only [List.mem_map] at this
    obtain ⟨x, _, rfl⟩ := this
    rfl
  · simp only [NMc, List.mem_map] at hl
    obtain ⟨x, hx, rfl⟩ := hl
    simp only [List.mem_singleton] at ht
    subst ht
    exact hn x hx
  · simp only [Rc, List.mem_flatMap] at hl
    obtain ⟨r, _, hl⟩ := hl
    simp only [entityLines, List.mem_cons] at hl
    rcases hl with rfl | hl
    · simp only [List.mem_singleton] at ht; subst ht; rfl
    · obtain ⟨_, hmem⟩ := chunks_mem wv hwv _ l hl
      have := hmem t ht
      simp only [List.mem_map] at this
      obtain ⟨x, _, rfl⟩ := this
      rfl

/-- what the reader needs from the header: its length and whether it carries the marker -/
def HeaderOK (L : Layout) (hdr : List (Line V)) : Prop :=
  match L with
  | .old => hdr.length = skipOld ∧ hdr.any lineHasMarker = false
  | .v2 => hdr.length = skipV2 ∧ hdr.any lineHasMarker = true

theorem parse_render_file (L : Layout) (hdr : List (Line V)) (hH : HeaderOK L hdr) (eNot : V → Bool)
    (wcN wvN wcE wvE : Nat) (f : ResFile V)
    (hN : WFSec' wcN wvN f.nodal) (he : ∀ r ∈ f.nodal.rows, ∀ x ∈ r.2, eNot x = true)
    (hE : ∀ e, f.elemental = some e → WFSec' wcE wvE e)
    (hnm : L = .old → (∀ x ∈ f.nodal.vars, hasInfix marker x.name = false) ∧
      ∀ e, f.elemental = some e → ∀ x ∈ e.vars, hasInfix marker x.name = false)
    (nE : Nat) (hnE : ∀ e, f.elemental = some e → nE = e.rows.length) :
    readRes eNot (hdr ++ renderBody wcN wvN wcE wvE f) f.nodal.rows.length nE = some f := by
  have hstart : contentStart (hdr ++ renderBody wcN wvN wcE wvE f) = hdr.length := by
    unfold contentStart
    rw [List.any_append]
    cases L with
    | old =>
      obtain ⟨hl, ha⟩ := hH
      have hb : (renderBody wcN wvN wcE wvE f).any lineHasMarker = false := by
        unfold renderBody
        rw [List.any_append, sec_noMarker _ _ _ hN.wc hN.wv (hnm rfl).1]
        cases hfe : f.elemental with
        | none => simp
        | some e => simp [sec_noMarker _ _ _ (hE e hfe).wc (hE e hfe).wv ((hnm rfl).2 e hfe)]
      simp [ha, hb, hl]
    | v2 => obtain ⟨hl, ha⟩ := hH; simp [ha, hl]
  unfold readRes
  rw [hstart, List.drop_left]
  obtain ⟨sn, se⟩ := f
  cases se with
  | none =>
    simp only [renderBody, List.append_nil]
    rw [split_one eNot wcN wvN sn hN.toWFSec]
    simp [parse_render wcN wvN sn hN.toWFSec]
  | some e =>
    simp only [renderBody]
    rw [split_two eNot wcN wvN wcE wvE sn e hN (hE e rfl) he]
    have h2 := parse_render wcE wvE e (hE e rfl).toWFSec
    rw [← hnE e rfl] at h2
    simp [parse_render wcN wvN sn hN.toWFSec, h2]

/-! ### sorting by key -/
theorem insertKey_perm (x : Nat × α) (l : List (Nat × α)) : (insertKey x l).Perm (x :: l) := by
  induction l with
  | nil => exact List.Perm.refl _
  | cons a t ih =>
    simp only [insertKey]
    split
    · exact List.Perm.refl _
    · exact (List.Perm.cons a ih).trans (List.Perm.swap x a t)

theorem sortByKey_perm (l : List (Nat × α)) : (sortByKey l).Perm l := by
  induction l with
  | nil => exact List.Perm.refl _
  | cons a t ih =>
    simp only [sortByKey, List.foldr_cons]
    exact (insertKey_perm a _).trans (List.Perm.cons a ih)

theorem insertKey_sorted (x : Nat × α) (l : List (Nat × α)) (h : l.Pairwise fun a b => a.1 ≤ b.1) :
    (insertKey x l).Pairwise fun a b => a.1 ≤ b.1 := by
  induction l with
  | nil => simp [insertKey]
  | cons a t ih =>
    simp only [insertKey]
    rw [List.pairwise_cons] at h
    split
    · rename_i hlt
      refine List.Pairwise.cons ?_ (List.Pairwise.cons h.1 h.2)
      intro b hb
      rcases List.mem_cons.mp hb with rfl | hb
      · omega
      · have := h.1 b hb; omega
    · rename_i hge
      refine List.Pairwise.cons ?_ (ih h.2)
      intro b hb
      rcases List.mem_cons.mp ((insertKey_perm x t).mem_iff.mp hb) with rfl | hb
      · omega
      · exact h.1 b hb

theorem sortByKey_sorted (l : List (Nat × α)) : (sortByKey l).Pairwise fun a b => a.1 ≤ b.1 := by
  induction l with
  | nil => simp [sortByKey]
  | cons a t ih => simp only [sortByKey, List.foldr_cons]; exact insertKey_sorted a _ ih

theorem le_getLast_of_sorted {l : List (Nat × α)} {x : Nat × α} (h : l.Pairwise fun a b => a.1 ≤ b.1)
    (hx : l.getLast? = some x) : ∀ y ∈ l, y.1 ≤ x.1 := by
  obtain ⟨ys, rfl⟩ := List.getLast?_eq_some_iff.mp hx
  intro y hy
  rcases List.mem_append.mp hy with hy | hy
  · exact (List.pairwise_append.mp h).2.2 y hy x (by simp)
  · simp only [List.mem_singleton] at hy; subst hy; exact Nat.le_refl _

/-! ### ids: sort + dedup, intersection -/
theorem mem_insertId {i j : Nat} {l : List Nat} : j ∈ insertId i l ↔ j = i ∨ j ∈ l := by
  induction l with
  | nil => simp [insertId]
  | cons a t ih =>
    simp only [insertId]
    split
    · simp
    · split
      · rename_i h; subst h; simp
      · simp only [List.mem_cons, ih]; tauto

theorem mem_sortDedup {j : Nat} {l : List Nat} : j ∈ sortDedup l ↔ j ∈ l := by
  induction l with
  | nil => simp [sortDedup]
  | cons a t ih =>
    simp only [sortDedup, List.foldr_cons, mem_insertId, List.mem_cons]
    simp only [sortDedup] at ih
    rw [ih]

theorem insertId_sorted (i : Nat) (l : List Nat) (h : l.Pairwise (· < ·)) : (insertId i l).Pairwise (· < ·) := by
  induction l with
  | nil => simp [insertId]
  | cons a t ih =>
    simp only [insertId]
    rw [List.pairwise_cons] at h
    split
    · rename_i hlt
      refine List.Pairwise.cons ?_ (List.Pairwise.cons h.1 h.2)
      intro b hb
      rcases List.mem_cons.mp hb with rfl | hb
      · exact hlt
      · have := h.1 b hb; omega
    · split
      · exact List.Pairwise.cons h.1 h.2
      · rename_i h1 h2
        refine List.Pairwise.cons ?_ (ih h.2)
        intro b hb
        rcases mem_insertId.mp hb with rfl | hb
        · omega
        · exact h.1 b hb

theorem sortDedup_sorted (l : List Nat) : (sortDedup l).Pairwise (· < ·) := by
  induction l with
  | nil => simp [sortDedup]
  | cons a t ih => simp only [sortDedup, List.foldr_cons]; exact insertId_sorted a _ ih

theorem mem_intersect1d {j : Nat} {a b : List Nat} : j ∈ intersect1d a b ↔ j ∈ a ∧ j ∈ b := by
  simp [intersect1d, mem_sortDedup, List.mem_filter]

/-! ### lookup -/
theorem lookup_mem {l : List (Nat × α)} {i : Nat} {d : α} (h : l.lookup i = some d) : (i, d) ∈ l := by
  induction l with
  | nil => simp at h
  | cons a t ih =>
    obtain ⟨k, b⟩ := a
    rw [List.lookup_cons] at h
    split at h
    · rename_i hk
      have : i = k := by simpa using hk
      cases h; subst this; simp
    · exact List.mem_cons_of_mem _ (ih h)

theorem lookup_isSome_of_mem {l : List (Nat × α)} {i : Nat} {d : α} (h : (i, d) ∈ l) : ∃ d', l.lookup i = some d' := by
  induction l with
  | nil => simp at h
  | cons a t ih =>
    obtain ⟨k, b⟩ := a
    rw [List.lookup_cons]
    by_cases hk : i = k
    · subst hk; exact ⟨b, by simp⟩
    · rcases List.mem_cons.mp h with h | h
      · cases h; exact absurd rfl hk
      · have : (i == k) = false := by simpa using hk
        rw [this]; exact ih h

theorem lookupRow_isSome {ids : List Nat} {data : List α} {i : Nat} (hi : i ∈ ids) (hl : ids.length ≤ data.length) :
    ∃ d, lookupRow ids data i = some d := by
  unfold lookupRow
  induction ids generalizing data with
  | nil => simp at hi
  | cons a t ih =>
    cases data with
    | nil => simp at hl
    | cons d ds =>
      simp only [List.zip_cons_cons, List.lookup_cons]
      by_cases hk : i = a
      · subst hk; exact ⟨d, by simp⟩
      · have : (i == a) = false := by simpa using hk
        rw [this]
        rcases List.mem_cons.mp hi with h | h
        · exact absurd h hk
        · exact ih h (by simpa using hl)

/-! ### `generate_elemental_attribute` -/
theorem mem_genElemAttr {typeIds : List (Nat × List Nat)} {ids : List Nat} {data : List α} {j : Nat} {d : α} :
    (∃ blk ∈ genElemAttr typeIds ids data, (j, d) ∈ blk.2) ↔
      (∃ b ∈ typeIds, j ∈ b.2) ∧ j ∈ ids ∧ lookupRow ids data j = some d := by
  unfold genElemAttr
  constructor
  · rintro ⟨blk, hblk, hjd⟩
    obtain ⟨b, hb, hfb⟩ := List.mem_filterMap.mp hblk
    simp only at hfb
    split at hfb
    · cases hfb
    · cases hfb
      obtain ⟨i, hi, hm⟩ := List.mem_filterMap.mp hjd
      cases hl : lookupRow ids data i with
      | none => rw [hl] at hm; cases hm
      | some d' =>
        rw [hl] at hm
        simp only [Option.map_some, Option.some.injEq, Prod.mk.injEq] at hm
        obtain ⟨rfl, rfl⟩ := hm
        obtain ⟨h1, h2⟩ := mem_intersect1d.mp hi
        exact ⟨⟨b, hb, h1⟩, h2, hl⟩
  · rintro ⟨⟨b, hb, hjb⟩, hji, hl⟩
    have hin : j ∈ intersect1d b.2 ids := mem_intersect1d.mpr ⟨hjb, hji⟩
    have hne : (intersect1d b.2 ids).isEmpty = false := by
      cases h : intersect1d b.2 ids with
      | nil => rw [h] at hin; simp at hin
      | cons _ _ => rfl
    refine ⟨(b.1, (intersect1d b.2 ids).filterMap fun i => (lookupRow ids data i).map fun d => (i, d)), ?_, ?_⟩
    · exact List.mem_filterMap.mpr ⟨b, hb, by simp [hne]⟩
    · exact List.mem_filterMap.mpr ⟨j, hin, by simp [hl]⟩

theorem mem_flattenBlocks {bs : List (Nat × List (Nat × α))} {p : Nat × α} :
    p ∈ flattenBlocks bs ↔ ∃ blk ∈ bs, p ∈ blk.2 := by
  unfold flattenBlocks
  split
  · simp
  · rw [sortRows, (sortByKey_perm _).mem_iff, List.mem_flatMap]

theorem mem_rebindRows {typeIds : List (Nat × List Nat)} {ids : List Nat} {data : List α} {j : Nat} {d : α} :
    (j, d) ∈ rebindRows typeIds ids data ↔
      (∃ b ∈ typeIds, j ∈ b.2) ∧ j ∈ ids ∧ lookupRow ids data j = some d := by
  unfold rebindRows
  rw [mem_flattenBlocks]
  exact mem_genElemAttr

/-- keys of a `filterMap` that keeps the key are a sublist of the keys -/
theorem keys_filterMap_sublist (g : Nat → Option α) (l : List Nat) :
    ((l.filterMap fun i => (g i).map fun d => (i, d)).map Prod.fst).Sublist l := by
  induction l with
  | nil => simp
  | cons a t ih =>
    simp only [List.filterMap_cons]
    cases g a with
    | none => simpa using ih.cons a
    | some d => simpa using ih.cons₂ a

theorem rebindRows_sorted (typeIds : List (Nat × List Nat)) (ids : List Nat) (data : List α) :
    ((rebindRows typeIds ids data).map Prod.fst).Pairwise (· ≤ ·) := by
  unfold rebindRows flattenBlocks
  split
  · rename_i b hb
    -- the single block is an id-ascending `intersect1d`
    have hmem : b ∈ genElemAttr typeIds ids data := by rw [hb]; simp
    unfold genElemAttr at hmem
    obtain ⟨b0, _, hfb⟩ := List.mem_filterMap.mp hmem
    simp only at hfb
    split at hfb
    · cases hfb
    · cases hfb
      simp only
      exact ((sortDedup_sorted _).sublist (keys_filterMap_sublist _ _)).imp Nat.le_of_lt
  · rw [List.pairwise_map]
    exact sortByKey_sorted _

/-! ### column slicing -/
theorem slice_parts (parts : List (List V)) (k : Nat) (p : List V) (rest : List (List V))
    (h : parts.drop k = p :: rest) :
    (parts.flatten.drop ((parts.take k).flatten.length)).take p.length = p := by
  have h1 : parts.flatten = ((parts.take k) ++ p :: rest).flatten := by rw [← h, List.take_append_drop]
  rw [h1]
  simp

/-- `attrsFrom` started at the offset of variable `k` returns, at position `j`, variable `k + j` with the
    `k + j`-th part of every row -/
theorem attrsFrom_get (rows : List (Nat × List (List V))) :
    ∀ (vs : List Var) (k : Nat) (j : Nat) (x : Var), vs[j]? = some x →
      (∀ r ∈ rows, (r.2.drop k).map List.length = vs.map Var.width) →
      ∀ off, (∀ r ∈ rows, off = ((r.2.take k).flatten).length) →
      (attrsFrom (rows.map fun r => (r.1, r.2.flatten)) off vs)[j]? =
        some ⟨x.name, rows.map (·.1), rows.map fun r => (r.2[k + j]?).getD []⟩ := by
  intro vs
  induction vs with
  | nil => intro k j x hx; simp at hx
  | cons v vs ih =>
    intro k j x hx hw off hoff
    have hhead : ∀ r ∈ rows, ∃ p rest, r.2.drop k = p :: rest ∧ p.length = v.width ∧
        rest.map List.length = vs.map Var.width := by
      intro r hr
      have := hw r hr
      cases hd : r.2.drop k with
      | nil => rw [hd] at this; simp at this
      | cons p rest =>
        rw [hd] at this
        simp only [List.map_cons, List.cons.injEq] at this
        exact ⟨p, rest, rfl, this.1, this.2⟩
    cases j with
    | zero =>
      simp only [List.getElem?_cons_zero, Option.some.injEq] at hx
      subst hx
      simp only [attrsFrom, List.getElem?_cons_zero, List.map_map, Option.some.injEq, Attr.mk.injEq, true_and]
      refine ⟨by simp [Function.comp_def], ?_⟩
      apply List.map_congr_left
      intro r hr
      obtain ⟨p, rest, hd, hp, _⟩ := hhead r hr
      simp only [Function.comp_apply, Nat.add_zero]
      rw [hoff r hr, ← hp, slice_parts r.2 k p rest hd]
      have : r.2[k]? = some p := by
        have := congrArg (fun l => l[0]?) hd
        simpa [List.getElem?_drop] using this
      simp [this]
    | succ j =>
      simp only [List.getElem?_cons_succ] at hx
      simp only [attrsFrom, List.getElem?_cons_succ]
      have := ih (k + 1) j x hx
        (by
          intro r hr
          obtain ⟨p, rest, hd, _, hrest⟩ := hhead r hr
          have : r.2.drop (k + 1) = rest := by
            rw [← List.drop_drop, hd]; rfl
          rw [this]; exact hrest)
        (off + v.width)
        (by
          intro r hr
          obtain ⟨p, rest, hd, hp, _⟩ := hhead r hr
          have hk : r.2[k]? = some p := by
            have := congrArg (fun l => l[0]?) hd
            simpa [List.getElem?_drop] using this
          rw [List.take_succ, hk, hoff r hr]
          simp [hp])
      rw [this]
      simp [Nat.add_assoc, Nat.add_comm 1 j]

/-! ### stacking -/
theorem mapM_some_forall₂ {β : Type} (f : α → Option β) (l : List α) (out : List β) (h : l.mapM f = some out) :
    List.Forall₂ (fun a b => f a = some b) l out := by
  induction l generalizing out with
  | nil => simp at h; subst h; exact List.Forall₂.nil
  | cons a t ih =>
    rw [List.mapM_cons] at h
    cases hfa : f a with
    | none => simp [hfa] at h
    | some b =>
      cases ht : t.mapM f with
      | none => simp [hfa, ht] at h
      | some bs =>
        simp [hfa, ht] at h
        subst h
        exact List.Forall₂.cons hfa (ih bs ht)

end Femio.C02
