import Femio.Model.CompressSteps
import Femio.Lemmas.C20Lemmas
import Femio.Lemmas.C20Canon

/-! C20 — the invariant of the transition system of `Model/CompressSteps.lean`: every cell stays closed (`Bal`), every
    face keeps at least three pairwise distinct nodes.  Part 1: generalities, `shrink`, `merge`, `removeOneEdge`,
    `reindex`. -/
namespace Femio.C20
open Faces

/-- a face of the invariant: a simple cycle through at least three nodes -/
def FaceOK (f : Face) : Prop := f.Nodup ∧ 3 ≤ f.length

/-- a cell of the invariant: every directed edge as often as its reverse, every face a simple cycle of ≥ 3 nodes -/
def CellOK (c : Cell) : Prop := Bal (edgesOf c) ∧ ∀ f ∈ c, FaceOK f

/-- the invariant of the pipeline -/
def Inv (cells : List Cell) : Prop := ∀ c ∈ cells, CellOK c

theorem cellOK_nil : CellOK [] := ⟨fun e => by simp [edgesOf], fun f hf => by simp at hf⟩

/-! ### `Bal` as a permutation statement -/

theorem bal_iff_perm (es : List (Nat × Nat)) : Bal es ↔ es.Perm (es.map Prod.swap) := by
  rw [List.perm_iff_count]
  constructor
  · intro h e; rw [count_map_swap]; exact h e
  · intro h e; have := h e; rw [count_map_swap] at this; exact this

theorem bal_of_perm {es es' : List (Nat × Nat)} (hp : es.Perm es') (h : Bal es) : Bal es' := by
  intro e; rw [← hp.count_eq, ← hp.count_eq]; exact h e

theorem bal_append {e1 e2 : List (Nat × Nat)} (h1 : Bal e1) (h2 : Bal e2) : Bal (e1 ++ e2) := by
  intro e; have a := h1 e; have b := h2 e; simp only [List.count_append]; omega

theorem bal_of_append_left {e1 e2 : List (Nat × Nat)} (h : Bal (e1 ++ e2)) (h1 : Bal e1) : Bal e2 := by
  intro e; have a := h e; have b := h1 e; simp only [List.count_append] at a; omega

theorem bal_of_append_right {e1 e2 : List (Nat × Nat)} (h : Bal (e1 ++ e2)) (h2 : Bal e2) : Bal e1 := by
  intro e; have a := h e; have b := h2 e; simp only [List.count_append] at a; omega

/-- any renaming of the nodes keeps a cell closed -/
theorem bal_map (σ : Nat → Nat) {es : List (Nat × Nat)} (h : Bal es) :
    Bal (es.map fun e => (σ e.1, σ e.2)) := by
  rw [bal_iff_perm] at h ⊢
  have := h.map (fun e : Nat × Nat => (σ e.1, σ e.2))
  refine this.trans ?_
  rw [List.map_map, List.map_map]
  exact List.Perm.of_eq (List.map_congr_left fun e _ => rfl)

theorem edgesOf_append (a b : List Face) : edgesOf (a ++ b) = edgesOf a ++ edgesOf b := by
  simp [edgesOf]

theorem edgesOf_cons (f : Face) (t : List Face) : edgesOf (f :: t) = dirEdges f ++ edgesOf t := by
  simp [edgesOf]

theorem edgesOf_perm {a b : List Face} (h : a.Perm b) : (edgesOf a).Perm (edgesOf b) := by
  unfold edgesOf; exact h.flatMap_right _

theorem dirEdges_map (σ : Nat → Nat) (f : Face) : dirEdges (f.map σ) = (dirEdges f).map fun e => (σ e.1, σ e.2) := by
  cases f with
  | nil => simp [dirEdges]
  | cons a t =>
    simp only [List.map_cons, dirEdges]
    rw [show σ a :: List.map σ t = List.map σ (a :: t) from rfl,
      show List.map σ t ++ [σ a] = List.map σ (t ++ [a]) by simp, List.zip_map]
    simp [List.map_map, Function.comp_def]

theorem edgesOf_map (σ : Nat → Nat) (c : Cell) :
    edgesOf (c.map fun f => f.map σ) = (edgesOf c).map fun e => (σ e.1, σ e.2) := by
  induction c with
  | nil => simp [edgesOf]
  | cons f t ih => simp only [List.map_cons, edgesOf_cons, ih, dirEdges_map, List.map_append]

/-- faces with at most two (distinct) nodes carry a balanced set of edges -/
theorem bal_short (f : Face) (h : f.length ≤ 2) : Bal (dirEdges f) := by
  match f, h with
  | [], _ => intro e; simp [dirEdges]
  | [a], _ =>
    intro e
    obtain ⟨x, y⟩ := e
    simp only [dirEdges, List.nil_append, List.zip_cons_cons, List.zip_nil_right, List.count_cons, List.count_nil,
      beq_iff_eq, Prod.mk.injEq]
    by_cases h : a = x ∧ a = y
    · rw [if_pos h, if_pos ⟨h.2, h.1⟩]
    · rw [if_neg h, if_neg fun h' => h ⟨h'.2, h'.1⟩]
  | [a, b], _ => exact fun e => pair_bal a b e

theorem isRotated_dirEdges {f g : Face} (h : f ~r g) : (dirEdges f).Perm (dirEdges g) := by
  obtain ⟨k, rfl⟩ := h
  exact (dirEdges_rotate_perm f k).symm

/-! ### the dropped pieces -/

theorem filter_len_split (L : List Face) :
    ∃ D, Bal D ∧ (edgesOf (L.filter fun g => decide (3 ≤ g.length)) ++ D).Perm (edgesOf L) := by
  induction L with
  | nil => exact ⟨[], fun e => rfl, by simp [edgesOf]⟩
  | cons g t ih =>
    obtain ⟨D, hD, hp⟩ := ih
    by_cases hg : 3 ≤ g.length
    · refine ⟨D, hD, ?_⟩
      rw [List.filter_cons, if_pos (by simpa using hg), edgesOf_cons, edgesOf_cons, List.append_assoc]
      exact hp.append_left _
    · refine ⟨dirEdges g ++ D, bal_append (bal_short g (by omega)) hD, ?_⟩
      rw [List.filter_cons, if_neg (by simpa using hg), edgesOf_cons]
      rw [List.perm_iff_count] at hp ⊢
      intro e
      have := hp e
      simp only [List.count_append] at this ⊢
      omega

/-! ### shrink -/

theorem shrinkCell_eq {c : Cell} (h : ∀ f ∈ c, FaceOK f) : shrinkCell c = c := by
  unfold shrinkCell
  rw [List.filter_eq_self]
  intro f hf
  simpa using (h f hf).2

theorem shrink_inv {cells : List Cell} (h : Inv cells) : Inv (shrink cells) := by
  intro c hc
  simp only [shrink, List.mem_filter, List.mem_map] at hc
  obtain ⟨⟨c0, hc0, rfl⟩, _⟩ := hc
  rw [shrinkCell_eq (h c0 hc0).2]
  exact h c0 hc0

/-- on a state of the invariant `shrink` only drops cells (those with fewer than three faces) -/
theorem shrink_eq_filter {cells : List Cell} (h : Inv cells) :
    shrink cells = cells.filter fun c => decide (2 < c.length) := by
  unfold shrink
  congr 1
  conv_rhs => rw [← List.map_id cells]
  exact List.map_congr_left fun c hc => shrinkCell_eq (h c hc).2

/-! ### merge -/

theorem mem_mergeLoop (fs : List Face) (T : Tbl) (g : Face) (h : g ∈ mergeLoop fs T) : g ∈ fs := by
  induction fs generalizing T with
  | nil => simp [mergeLoop] at h
  | cons f t ih =>
    simp only [mergeLoop] at h
    split at h
    · rcases List.mem_append.mp h with h | h
      · rw [(List.mem_replicate.mp h).2]; exact List.mem_cons_self
      · exact List.mem_cons_of_mem _ (ih _ h)
    · exact List.mem_cons_of_mem _ (ih _ h)

theorem mem_mergeCells (cells : List Cell) (g : Face) (h : g ∈ mergeCells cells) : g ∈ cells.flatten :=
  mem_mergeLoop _ _ g h

theorem mergeOK_wt (e : Nat × Nat) (fs : List Face) (hnd : ∀ f ∈ fs, f.Nodup) : MergeOK (wt e) fs := by
  refine ⟨fun f hf g hg h => ⟨canon_reverse_congr (hnd f hf) (hnd g hg) h, wt_canon_class e f g h⟩,
    fun f hf g hg h => ⟨canon_reverse_symm (hnd f hf) (hnd g hg) h, ?_⟩⟩
  rw [← wt_canon_class e _ _ h, wt_reverse]

theorem mergeCells_cellOK (cells : List Cell) (h : ∀ c ∈ cells, CellOK c) : CellOK (mergeCells cells) := by
  have hfaces : ∀ f ∈ cells.flatten, FaceOK f := by
    intro f hf
    obtain ⟨c, hc, hfc⟩ := List.mem_flatten.mp hf
    exact (h c hc).2 f hfc
  refine ⟨?_, fun f hf => hfaces f (mem_mergeCells cells f hf)⟩
  intro e
  have hs := mergeCells_sum (wt e) cells (mergeOK_wt e _ fun f hf => (hfaces f hf).1)
  rw [sum_wt, sum_wt] at hs
  have hb := bal_flatten cells (fun c hc => (h c hc).1) e
  omega

theorem getD_cellOK {cells : List Cell} (h : Inv cells) (i : Nat) : CellOK (cells.getD i []) := by
  rw [List.getD_eq_getElem?_getD]
  cases hi : cells[i]? with
  | none => exact cellOK_nil
  | some c => exact h c (List.mem_of_getElem? hi)

theorem merge_step_inv {cells : List Cell} (h : Inv cells) (groups : List (List Nat)) :
    Inv (groups.map fun g => mergeCells (g.map fun i => cells.getD i [])) := by
  intro c hc
  obtain ⟨g, _, rfl⟩ := List.mem_map.mp hc
  apply mergeCells_cellOK
  intro c' hc'
  obtain ⟨i, _, rfl⟩ := List.mem_map.mp hc'
  exact getD_cellOK h i

/-! ### directed edges of a simple cycle -/

theorem mem_pathEdges {x y : Nat} {l : List Nat} :
    (x, y) ∈ pathEdges l ↔ ∃ l1 l2, l = l1 ++ x :: y :: l2 := by
  induction l with
  | nil => simp [pathEdges]
  | cons a t ih =>
    cases t with
    | nil =>
      simp only [pathEdges, List.not_mem_nil, false_iff]
      rintro ⟨l1, l2, h⟩
      have := congrArg List.length h
      simp at this
      omega
    | cons b t =>
      rw [pathEdges, List.mem_cons, ih]
      constructor
      · rintro (h | ⟨l1, l2, h⟩)
        · obtain ⟨rfl, rfl⟩ := Prod.mk.inj h
          exact ⟨[], t, rfl⟩
        · exact ⟨a :: l1, l2, by rw [h]; rfl⟩
      · rintro ⟨l1, l2, h⟩
        cases l1 with
        | nil =>
          simp only [List.nil_append, List.cons.injEq] at h
          obtain ⟨rfl, rfl, _⟩ := h
          exact Or.inl rfl
        | cons c l1 =>
          simp only [List.cons_append, List.cons.injEq] at h
          exact Or.inr ⟨l1, l2, h.2⟩

/-- a face with the directed edge `x → y` is a rotation of `x :: y :: t` -/
theorem rot_of_mem_dirEdges {x y : Nat} {f : Face} (h2 : 2 ≤ f.length) (h : (x, y) ∈ dirEdges f) :
    ∃ t, f ~r x :: y :: t := by
  cases f with
  | nil => simp at h2
  | cons a t =>
    rw [dirEdges_eq_pathEdges, mem_pathEdges] at h
    obtain ⟨l1, l2, h⟩ := h
    rcases List.eq_nil_or_concat l2 with rfl | ⟨l2', z, rfl⟩
    · -- the closing edge: `a :: t = l1 ++ [x]`, `y = a`
      have h' : (a :: t) ++ [a] = (l1 ++ [x]) ++ [y] := by simpa using h
      obtain ⟨h1, h3⟩ := List.append_inj' h' rfl
      have hy : a = y := by simpa using h3
      cases l1 with
      | nil => simp at h1; simp [h1.2] at h2
      | cons c l1 =>
        simp only [List.cons_append, List.cons.injEq] at h1
        refine ⟨l1, ?_⟩
        rw [h1.2, ← hy]
        exact ⟨(a :: l1).length, by
          rw [show a :: (l1 ++ [x]) = (a :: l1) ++ [x] from rfl, List.rotate_append_length_eq]; rfl⟩
    · have h' : (a :: t) ++ [a] = (l1 ++ x :: y :: l2') ++ [z] := by simpa using h
      obtain ⟨h1, _⟩ := List.append_inj' h' rfl
      refine ⟨l2' ++ l1, ?_⟩
      rw [h1]
      exact ⟨l1.length, by rw [List.rotate_append_length_eq]; simp⟩

theorem hasE_iff (a b : Nat) (f : Face) : hasE a b f = true ↔ (a, b) ∈ dirEdges f := by
  simp [hasE]

/-- a simple cycle of at least three nodes does not run through an edge in both directions -/
theorem not_both_dirs {f : Face} (hf : FaceOK f) {A B : Nat} (h1 : (A, B) ∈ dirEdges f) (h2 : (B, A) ∈ dirEdges f) :
    False := by
  obtain ⟨t, hr⟩ := rot_of_mem_dirEdges (by have := hf.2; omega) h1
  have hnd : (A :: B :: t).Nodup := hr.nodup_iff.mp hf.1
  have hlen : (A :: B :: t).length = f.length := hr.perm.length_eq.symm
  have ht : t ≠ [] := by
    rintro rfl
    have := hf.2
    simp at hlen; omega
  have h2' : (B, A) ∈ dirEdges (A :: B :: t) := (isRotated_dirEdges hr).mem_iff.mp h2
  rw [dirEdges_eq_pathEdges, mem_pathEdges] at h2'
  obtain ⟨l1, l2, h⟩ := h2'
  simp only [List.nodup_cons, List.mem_cons, not_or] at hnd
  obtain ⟨⟨hAB, hAt⟩, hBt, _⟩ := hnd
  cases l1 with
  | nil =>
    simp only [List.cons_append, List.nil_append, List.cons.injEq] at h
    exact hAB h.1
  | cons c l1 =>
    simp only [List.cons_append, List.cons.injEq] at h
    obtain ⟨_, h⟩ := h
    cases l1 with
    | nil =>
      simp only [List.nil_append, List.cons.injEq, true_and] at h
      cases t with
      | nil => exact ht rfl
      | cons d t =>
        simp only [List.cons_append, List.cons.injEq] at h
        exact hAt (by rw [h.1]; exact List.mem_cons_self)
    | cons d l1 =>
      simp only [List.cons_append, List.cons.injEq] at h
      have hm : B ∈ t ++ [A] := by rw [h.2]; simp
      rcases List.mem_append.mp hm with hm | hm
      · exact hBt hm
      · have hBA : B = A := by simpa using hm
        exact hAB hBA.symm

/-! ### remove_one_edge_from_polyhedron -/

theorem rotAt_eq_rotate (i : Nat) (f : Face) (hi : i ≤ f.length) : rotAt i f = f.rotate i := by
  unfold rotAt; rw [List.rotate_eq_drop_append_take hi]

theorem rotMin_isRotated (f : Face) : f ~r rotMin f := by
  by_cases hf : f = []
  · subst hf; exact ⟨0, by simp [rotMin, rotAt]⟩
  · exact ⟨argMin f, (rotAt_eq_rotate _ f (Nat.le_of_lt (argMin_lt f hf))).symm⟩

theorem rotateTo_spec {a b : Nat} {f g : Face} (h : rotateTo a b f = some g) :
    (∃ t, g = a :: b :: t) ∧ f ~r g := by
  unfold rotateTo at h
  obtain ⟨i, hi, hg⟩ := List.exists_of_findSome?_eq_some h
  have hi' : i ≤ f.length := Nat.le_of_lt (List.mem_range.mp hi)
  dsimp only at hg
  split at hg
  · rename_i x y t heq
    split at hg
    · rename_i hxy
      obtain ⟨rfl, rfl⟩ := hxy
      have : f.drop i ++ f.take i = g := by simpa using hg
      refine ⟨⟨t, by rw [← this, heq]⟩, ⟨i, ?_⟩⟩
      rw [List.rotate_eq_drop_append_take hi', this]
    · cases hg
  · cases hg

theorem filter3_perm (c : Cell) (p1 p2 : Face → Bool) (hex : ∀ f ∈ c, ¬ (p1 f = true ∧ p2 f = true)) :
    c.Perm ((c.filter fun f => !p1 f && !p2 f) ++ (c.filter p1 ++ c.filter p2)) := by
  induction c with
  | nil => simp
  | cons f t ih =>
    have ih' := ih fun g hg => hex g (List.mem_cons_of_mem _ hg)
    have hf := hex f List.mem_cons_self
    cases h1 : p1 f <;> cases h2 : p2 f
    · simp only [List.filter_cons, h1, h2, Bool.not_false, Bool.and_self, if_true, Bool.false_eq_true, if_false,
        List.cons_append]
      exact ih'.cons f
    · simp only [List.filter_cons, h1, h2, Bool.not_false, Bool.not_true, Bool.and_false, Bool.false_eq_true, if_false,
        if_true]
      refine (ih'.cons f).trans ?_
      refine List.perm_middle.symm.trans ?_
      refine List.Perm.append_left _ ?_
      exact List.perm_middle.symm
    · simp only [List.filter_cons, h1, h2, Bool.not_false, Bool.not_true, Bool.false_and, Bool.false_eq_true, if_false,
        if_true, List.cons_append]
      refine (ih'.cons f).trans ?_
      exact List.perm_middle.symm
    · exact absurd ⟨h1, h2⟩ hf

theorem removeOneEdge_cellOK {A B : Nat} {c c' : Cell} (hc : CellOK c) (h : removeOneEdge A B c = some c') :
    CellOK c' := by
  unfold removeOneEdge at h
  split at h
  · cases h; exact hc
  · rename_i f1 f2 hf1 hf2
    split at h
    · rename_i x y p x' y' q hr1 hr2
      split at h
      · rename_i hnd
        cases h
        obtain ⟨⟨t1, ht1⟩, hrot1⟩ := rotateTo_spec hr1
        obtain ⟨⟨t2, ht2⟩, hrot2⟩ := rotateTo_spec hr2
        have e1 : x = A ∧ y = B := by
          simp only [List.cons.injEq] at ht1; exact ⟨ht1.1, ht1.2.1⟩
        have e2 : x' = B ∧ y' = A := by
          simp only [List.cons.injEq] at ht2; exact ⟨ht2.1, ht2.2.1⟩
        rw [e1.1, e1.2] at hrot1
        rw [e2.1, e2.2] at hrot2
        clear ht1 ht2 hr1 hr2 e1 e2 t1 t2
        have hm1 : f1 ∈ c ∧ hasE A B f1 = true := by
          have : f1 ∈ c.filter (hasE A B) := by rw [hf1]; simp
          simpa [List.mem_filter] using this
        have hm2 : f2 ∈ c ∧ hasE B A f2 = true := by
          have : f2 ∈ c.filter (hasE B A) := by rw [hf2]; simp
          simpa [List.mem_filter] using this
        set rest := c.filter fun f => !hasE A B f && !hasE B A f with hrest
        have hperm : c.Perm (rest ++ [f1, f2]) := by
          have := filter3_perm c (hasE A B) (hasE B A) (fun f hf ⟨h1, h2⟩ =>
            not_both_dirs (hc.2 f hf) ((hasE_iff _ _ _).mp h1) ((hasE_iff _ _ _).mp h2))
          rw [hf1, hf2] at this
          exact this
        have hg : (mergeAlong A B p q).Nodup := (nodupB_iff _).mp hnd
        have hrotg := rotMin_isRotated (mergeAlong A B p q)
        refine ⟨?_, ?_⟩
        · -- closedness
          have hb1 : Bal (edgesOf (rest ++ [f1, f2])) := bal_of_perm (edgesOf_perm hperm) hc.1
          have hb2 : Bal (edgesOf (rest ++ [A :: B :: p, B :: A :: q])) := by
            refine bal_of_perm ?_ hb1
            simp only [edgesOf_append, edgesOf_cons]
            refine List.Perm.append_left _ ?_
            refine List.Perm.append (isRotated_dirEdges hrot1) ?_
            exact List.Perm.append (isRotated_dirEdges hrot2) (List.Perm.refl _)
          have hb3 := edge_merge_bal A B p q rest hb2
          refine bal_of_perm ?_ hb3
          simp only [edgesOf_append, edgesOf_cons]
          refine List.Perm.append_left _ ?_
          exact List.Perm.append (isRotated_dirEdges hrotg) (List.Perm.refl _)
        · intro f hf
          rcases List.mem_append.mp hf with hf | hf
          · exact hc.2 f (List.mem_filter.mp hf).1
          · have : f = rotMin (mergeAlong A B p q) := by simpa using hf
            subst this
            refine ⟨hrotg.nodup_iff.mp hg, ?_⟩
            rw [← hrotg.perm.length_eq]
            have h3 := (hc.2 f1 hm1.1).2
            have := hrot1.perm.length_eq
            simp only [mergeAlong, List.length_cons, List.length_append] at this ⊢
            omega
      · cases h
    · cases h
  · cases h

theorem removeEdgeStep_inv {cells : List Cell} (h : Inv cells) (A B : Nat) (ps : List Nat) :
    Inv (removeEdgeStep A B ps cells) := by
  unfold removeEdgeStep
  split
  · intro c hc
    obtain ⟨i, _, rfl⟩ := List.mem_map.mp hc
    split
    · cases hr : removeOneEdge A B (cells.getD i []) with
      | none => simpa using getD_cellOK h i
      | some c' => simpa using removeOneEdge_cellOK (getD_cellOK h i) hr
    · exact getD_cellOK h i
  · exact h

end Femio.C20
