import Femio.Lemmas.FistrG3c

/-! G3 (format insensitivity to whitespace) as a WHOLE-FILE theorem for ARBITRARY text:
`G3 t t' → readMsh t = readMsh t'` (and for every repair configuration), the constructors that show the relation
contains "blanks around the commas of data rows" / "blanks after the commas of header lines", and a concrete
non-vacuity example. -/
namespace Femio.Fistr.G3
open Femio.Fistr Numeral
open List (Forall₂)

variable {bs bs' : List (Line × List Line)}

theorem readMaterials_g3 (h : Forall₂ BlockRel bs bs') (nElem : Nat) :
    readMaterials nElem bs = readMaterials nElem bs' := by
  have hm := blocksOf_rel c!"!MATERIAL" (by decide) h
  have hi : Forall₂ BlockRel (bs.filter fun b => isItem1 b.1) (bs'.filter fun b => isItem1 b.1) :=
    forall₂_filter (fun _ _ hab => isItem1_hdr hab.1) h
  have e0 := forall₂_isEmpty (blockData_rel hi)
  have e1 := mapM_congr_same (blockData_rel hi) (fun l => (splitOn ',' l).mapM parseDec)
    (fun l => (splitOn ',' l).mapM parseDec) (fun _ _ hab => splitDec_data hab)
  have e2 := mapM_congr_same hi
    (fun b => if b.2.isEmpty then none else (b.2.flatMap (splitOn ',')).mapM parseDec)
    (fun b => if b.2.isEmpty then none else (b.2.flatMap (splitOn ',')).mapM parseDec)
    (fun a b hab => by
      rw [forall₂_isEmpty hab.2, mapM_tc parseDec parseDec_tc _ _ (flatSplit_data hab.2)])
  unfold readMaterials
  simp only []
  rw [e0, e1, e2]
  generalize blocksOf c!"!MATERIAL" bs = mbs at hm ⊢
  generalize blocksOf c!"!MATERIAL" bs' = mbs' at hm ⊢
  cases hm with
  | nil => rfl
  | cons hab ht =>
    simp only []
    rw [captureP_hdr c!"ITEM=" isDigit (by decide) (by decide) hab.1,
      mapM_congr_same (Forall₂.cons hab ht) (fun b => capture c!"NAME=" b.1) (fun b => capture c!"NAME=" b.1)
        (fun a b hab => capture_hdr _ (by decide) hab.1)]

/-- the reader on scanned blocks sees related block lists as equal -/
theorem readBlocks_g3 (merge : Bool) (h : Forall₂ BlockRel bs bs') : readBlocks merge bs = readBlocks merge bs' := by
  have e1 := readNodes_g3 h
  have e2 := readElements_g3 h
  have e3 : (blocksOf c!"!ELEMENT" bs).any (fun b => (capture c!"EGRP=" b.1).isSome) =
      (blocksOf c!"!ELEMENT" bs').any (fun b => (capture c!"EGRP=" b.1).isSome) :=
    forall₂_any (fun a b hab => by rw [capture_hdr c!"EGRP=" (by decide) hab.1])
      (blocksOf_rel c!"!ELEMENT" (by decide) h)
  have e4 := readGroups_g3 merge c!"!NGROUP" c!"NGRP=" (by decide) (by decide) h
  have e5 := readGroups_g3 merge c!"!EGROUP" c!"EGRP=" (by decide) (by decide) h
  have e6 := readMaterials_g3 h
  have e7 := readSections_g3 h
  have e8 := readInitial_g3 h
  unfold readBlocks
  simp only [e1, e2, e3, e4, e5, e6, e7, e8]

/-- **G3, whole file, arbitrary text**: two texts that are line-by-line equal up to blanks around the commas of
    data rows and blanks after the commas of header lines are read identically (same value, or both rejected) -/
theorem readMsh_g3 (t t' : List Line) (h : G3 t t') : readMsh t = readMsh t' := by
  unfold readMsh
  exact readBlocks_g3 false (toBlocks_rel h)

theorem notBang_of_data {l : Line} (h : isHeader l = false) : isPrefix c!"!!" l = false := by
  cases l with
  | nil => rfl
  | cons c t =>
    have hc : ¬ (c = '!') := by simpa [isHeader] using h
    have hc' : ¬ ('!' = c) := fun e => hc e.symm
    simp [isPrefix, hc']

theorem bang_rel {l l' : Line} (h : LineRel l l') : (!isPrefix c!"!!" l) = (!isPrefix c!"!!" l') := by
  rcases h with h | h
  · rw [isPrefix_hdr c!"!!" (by decide) h]
  · rw [notBang_of_data h.1, notBang_of_data h.2.1]

/-- G3 for every repair configuration (`bang`: the `!!`-comment filter looks at the first field only) -/
theorem readMshCfg_g3 (cfg : ReadCfg) (t t' : List Line) (h : G3 t t') : readMshCfg cfg t = readMshCfg cfg t' := by
  unfold readMshCfg
  apply readBlocks_g3
  apply toBlocks_rel
  split
  · exact forall₂_filter (fun _ _ hab => bang_rel hab) h
  · exact h

/-! ### the relation is what the informal text says -/
instance : DecidablePred AllWs := fun a => inferInstanceAs (Decidable (∀ c ∈ a, isWs c = true))

/-- `f'` is `f` with blanks added on both sides -/
def PadBoth (f f' : List Char) : Prop := ∃ a b, AllWs a ∧ AllWs b ∧ f' = a ++ f ++ b

/-- `f` and `f'` differ only in their leading blanks -/
def PadLeft (f f' : List Char) : Prop := ∃ a a' g, AllWs a ∧ AllWs a' ∧ f = a ++ g ∧ f' = a' ++ g

theorem forall₂_right_all {α β} {R : α → β → Prop} {P : β → Prop} {l : List α} {l' : List β} (h : Forall₂ R l l')
    (hP : ∀ a b, a ∈ l → R a b → P b) : ∀ b ∈ l', P b := by
  induction h with
  | nil => intro b hb; cases hb
  | @cons a b t t' hab _ ih =>
    intro x hx
    rcases List.mem_cons.mp hx with rfl | hx
    · exact hP a x (by simp) hab
    · exact ih (fun a b ha => hP a b (List.mem_cons_of_mem _ ha)) x hx

theorem forall₂_map_eq {α β γ} {R : α → β → Prop} {f : α → γ} {g : β → γ} {l : List α} {l' : List β}
    (h : Forall₂ R l l') (hfg : ∀ a b, R a b → f a = g b) : l.map f = l'.map g := by
  induction h with
  | nil => rfl
  | cons hab _ ih => rw [List.map_cons, List.map_cons, hfg _ _ hab, ih]

theorem comma_not_allWs {a : List Char} (ha : AllWs a) : ',' ∉ a :=
  fun m => by have := ha ',' m; revert this; decide

theorem isPrefix_bang_pad (f a b : List Char) (ha : AllWs a) (hb : AllWs b) (h : isPrefix ['!'] f = false) :
    isPrefix ['!'] (a ++ f ++ b) = false := by
  cases a with
  | cons w t => exact isPrefix_ws '!' [] w _ (by decide) (ha w (by simp))
  | nil =>
    cases f with
    | cons c u => simpa [isPrefix] using h
    | nil =>
      cases b with
      | nil => rfl
      | cons w t => exact isPrefix_ws '!' [] w _ (by decide) (hb w (by simp))

/-- **data rows**: every field `f` of a comma-joined row replaced by `a ++ f ++ b` (blanks `a`, `b`) -/
theorem dataRel_pad (fs fs' : List (List Char)) (hne : fs ≠ []) (hc : ∀ f ∈ fs, ',' ∉ f)
    (hp : Forall₂ PadBoth fs fs') (hh : isHeader (joinSep ',' fs) = false) :
    DataRel (joinSep ',' fs) (joinSep ',' fs') := by
  have hc' : ∀ f' ∈ fs', ',' ∉ f' := forall₂_right_all hp (fun f f' hf hff' => by
    obtain ⟨a, b, ha, hb, rfl⟩ := hff'
    intro hm
    rcases List.mem_append.mp hm with hm | hm
    · rcases List.mem_append.mp hm with hm | hm
      · exact comma_not_allWs ha hm
      · exact hc f hf hm
    · exact comma_not_allWs hb hm)
  have hne' : fs' ≠ [] := by rintro rfl; cases hp; exact hne rfl
  refine ⟨hh, ?_, ?_⟩
  · cases hp with
    | nil => exact absurd rfl hne
    | @cons f0 f0' r r' h0 _ =>
      obtain ⟨a, b, ha, hb, rfl⟩ := h0
      rw [isHeader_eq_isPrefix, isPrefix_join _ (by decide)] at hh ⊢
      exact isPrefix_bang_pad f0 a b ha hb hh
  · rw [split_join ',' fs hne hc, split_join ',' fs' hne' hc']
    exact forall₂_map_eq hp (fun f f' hff' => by
      obtain ⟨a, b, ha, hb, rfl⟩ := hff'
      exact (trim_pad_gen a f b ha hb).symm)

/-- data rows, stated on an arbitrary non-header line: `','.join(ws + p + ws' for p in line.split(','))` -/
theorem dataRel_pad_line (l : Line) (hh : isHeader l = false) (fs' : List (List Char))
    (hp : Forall₂ PadBoth (splitOn ',' l) fs') : DataRel l (joinSep ',' fs') := by
  have := dataRel_pad (splitOn ',' l) fs' (splitOn_ne_nil ',' l) (splitOn_fields_noSep ',' l) hp
    (by rw [joinSep_splitOn]; exact hh)
  rwa [joinSep_splitOn] at this

/-- **header lines**: the first field kept, the leading blanks of every other field changed -/
theorem hdrRel_pad (f0 : List Char) (fs fs' : List (List Char)) (hc0 : ',' ∉ f0) (hc : ∀ f ∈ fs, ',' ∉ f)
    (hp : Forall₂ PadLeft fs fs') (hh : isHeader (joinSep ',' (f0 :: fs)) = true) :
    HdrRel (joinSep ',' (f0 :: fs)) (joinSep ',' (f0 :: fs')) := by
  have hc' : ∀ f' ∈ fs', ',' ∉ f' := forall₂_right_all hp (fun f f' hf hff' => by
    obtain ⟨a, a', g, ha, ha', rfl, rfl⟩ := hff'
    intro hm
    rcases List.mem_append.mp hm with hm | hm
    · exact comma_not_allWs ha' hm
    · exact hc _ hf (List.mem_append_right _ hm))
  refine ⟨hh, f0, fs, fs', ?_, ?_, ?_⟩
  · exact split_join ',' _ (by simp) (fun f hf => by
      rcases List.mem_cons.mp hf with rfl | hf
      · exact hc0
      · exact hc f hf)
  · exact split_join ',' _ (by simp) (fun f hf => by
      rcases List.mem_cons.mp hf with rfl | hf
      · exact hc0
      · exact hc' f hf)
  · exact forall₂_map_eq hp (fun f f' hff' => by
      obtain ⟨a, a', g, ha, ha', rfl, rfl⟩ := hff'
      rw [trimLeft_append_ws _ _ ha, trimLeft_append_ws _ _ ha'])

/-- header lines, stated on an arbitrary header line:
    `','.join([p if j == 0 else ws + p.lstrip(' ') for j, p in enumerate(line.split(','))])` -/
theorem hdrRel_pad_line (h : Line) (hh : isHeader h = true) (f0 : List Char) (fs fs' : List (List Char))
    (hs : splitOn ',' h = f0 :: fs) (hp : Forall₂ PadLeft fs fs') : HdrRel h (joinSep ',' (f0 :: fs')) := by
  have hall := splitOn_fields_noSep ',' h
  rw [hs] at hall
  have := hdrRel_pad f0 fs fs' (hall f0 (by simp)) (fun f hf => hall f (List.mem_cons_of_mem _ hf)) hp
    (by rw [← hs, joinSep_splitOn]; exact hh)
  rwa [← hs, joinSep_splitOn] at this

/-- the harness mutation of one line: a header keeps its first field and changes the leading blanks of the others,
    a data line gets blanks around each field -/
def PadLine (l l' : Line) : Prop :=
  (isHeader l = true ∧ ∃ f0 fs fs', splitOn ',' l = f0 :: fs ∧ Forall₂ PadLeft fs fs' ∧ l' = joinSep ',' (f0 :: fs')) ∨
  (isHeader l = false ∧ ∃ fs', Forall₂ PadBoth (splitOn ',' l) fs' ∧ l' = joinSep ',' fs')

theorem lineRel_of_padLine {l l' : Line} (h : PadLine l l') : LineRel l l' := by
  rcases h with ⟨hh, f0, fs, fs', hs, hp, rfl⟩ | ⟨hh, fs', hp, rfl⟩
  · exact Or.inl (hdrRel_pad_line l hh f0 fs fs' hs hp)
  · exact Or.inr (dataRel_pad_line l hh fs' hp)

theorem g3_of_padLines {t t' : List Line} (h : Forall₂ PadLine t t') : G3 t t' :=
  List.Forall₂.imp (fun _ _ hab => lineRel_of_padLine hab) h

/-- **G3 in the form the test harness applies it**: padding the fields of ARBITRARY lines does not change what the
    reader returns -/
theorem readMsh_padded (t t' : List Line) (h : Forall₂ PadLine t t') : readMsh t = readMsh t' :=
  readMsh_g3 t t' (g3_of_padLines h)

theorem readMshCfg_padded (cfg : ReadCfg) (t t' : List Line) (h : Forall₂ PadLine t t') :
    readMshCfg cfg t = readMshCfg cfg t' :=
  readMshCfg_g3 cfg t t' (g3_of_padLines h)

/-- every line is related to itself: `G3` is reflexive -/
theorem lineRel_refl (l : Line) : LineRel l l := by
  cases h : isHeader l with
  | true =>
    obtain ⟨f0, fs, hs⟩ := List.exists_cons_of_ne_nil (splitOn_ne_nil ',' l)
    exact Or.inl ⟨h, f0, fs, fs, hs, hs, rfl⟩
  | false => exact Or.inr ⟨h, h, rfl⟩

theorem g3_refl (t : List Line) : G3 t t := List.forall₂_same.mpr (fun l _ => lineRel_refl l)

theorem lineRel_symm {l l' : Line} (h : LineRel l l') : LineRel l' l := by
  rcases h with h | h
  · have h' := isHeader_hdr h
    obtain ⟨_, f0, fs, fs', h1, h2, h3⟩ := h
    exact Or.inl ⟨h', f0, fs', fs, h2, h1, h3.symm⟩
  · exact Or.inr ⟨h.2.1, h.1, h.2.2.symm⟩

theorem g3_symm {t t' : List Line} (h : G3 t t') : G3 t' t :=
  List.Forall₂.flip (List.Forall₂.imp (fun _ _ hab => lineRel_symm hab) h)

/-! ### non-vacuity -/
/-- nodes, one tet block, a node group, an element group, a temperature table addressed by group name and by id -/
def g3Text : List Line :=
  [c!"!HEADER", c!"!NODE", c!"1,0.0,0.0,0.0", c!"2,1.0,0.0,0.0", c!"3,0.0,1.0,0.0", c!"4,0.0,0.0,1.5E+00",
   c!"!ELEMENT, TYPE=341", c!"1,1,2,3,4",
   c!"!NGROUP, NGRP=N1", c!"1,2",
   c!"!EGROUP,  EGRP=A", c!"1",
   c!"!INITIAL CONDITION, TYPE=TEMPERATURE", c!"N1,10.0", c!"3,1.0", c!"4,2.0",
   c!"!END"]

/-- the same file after the harness mutation (blanks / tabs around data commas, after header commas) -/
def g3TextPadded : List Line :=
  [c!"!HEADER", c!"!NODE", c!" 1 , 0.0 , 0.0 , 0.0 ", c!"\t2\t,\t1.0\t,\t0.0\t,\t0.0\t", c!"3,  0.0,  1.0,  0.0",
   c!"  4  ,0.0  ,0.0  ,1.5E+00  ",
   c!"!ELEMENT,\tTYPE=341", c!" 1, 1 ,2 ,  3,4 ",
   c!"!NGROUP,NGRP=N1", c!" 1 , 2 ",
   c!"!EGROUP,EGRP=A", c!"\t1",
   c!"!INITIAL CONDITION,   TYPE=TEMPERATURE", c!" N1 , 10.0 ", c!"3 ,1.0 ", c!" 4, 2.0",
   c!"!END"]

/-- `HdrRel` without the existential (decidable form) -/
theorem hdrRel_iff (h h' : Line) : HdrRel h h' ↔
    (isHeader h = true ∧ (splitOn ',' h).head? = (splitOn ',' h').head? ∧
      (splitOn ',' h).tail.map trimLeft = (splitOn ',' h').tail.map trimLeft) := by
  constructor
  · rintro ⟨hh, f0, fs, fs', h1, h2, h3⟩
    rw [h1, h2]; exact ⟨hh, rfl, h3⟩
  · rintro ⟨hh, h1, h2⟩
    obtain ⟨f0, fs, e1⟩ := List.exists_cons_of_ne_nil (splitOn_ne_nil ',' h)
    obtain ⟨f0', fs', e2⟩ := List.exists_cons_of_ne_nil (splitOn_ne_nil ',' h')
    rw [e1, e2] at h1 h2
    simp only [List.head?_cons, Option.some.injEq] at h1
    subst h1
    exact ⟨hh, f0, fs, fs', e1, e2, h2⟩

instance (h h' : Line) : Decidable (HdrRel h h') := decidable_of_iff _ (hdrRel_iff h h').symm
instance (l l' : Line) : Decidable (DataRel l l') := by unfold DataRel; infer_instance
instance (l l' : Line) : Decidable (LineRel l l') := by unfold LineRel; infer_instance

theorem g3Text_rel : G3 g3Text g3TextPadded := by
  unfold G3 g3Text g3TextPadded
  repeat' first
    | exact List.Forall₂.nil
    | refine List.Forall₂.cons (by decide) ?_

example : (readMsh g3Text).isSome = true := by decide

example : readMsh g3TextPadded = readMsh g3Text := (readMsh_g3 _ _ g3Text_rel).symm

example : readMshCfg ⟨true, true⟩ g3TextPadded = readMshCfg ⟨true, true⟩ g3Text :=
  (readMshCfg_g3 _ _ _ g3Text_rel).symm

/-- a padded data row built with the constructor, on fields that contain inner blanks -/
example : DataRel c!"N 1,1.0" c!"  N 1\t, 1.0 " :=
  dataRel_pad_line c!"N 1,1.0" (by decide) [c!"  N 1\t", c!" 1.0 "]
    (.cons ⟨c!"  ", c!"\t", by decide, by decide, rfl⟩ (.cons ⟨c!" ", c!" ", by decide, by decide, rfl⟩ .nil))

/-- a header with the blanks after its commas changed, built with the constructor -/
example : HdrRel c!"!SECTION, TYPE=SOLID,  EGRP=A" c!"!SECTION,\tTYPE=SOLID,EGRP=A" :=
  hdrRel_pad_line c!"!SECTION, TYPE=SOLID,  EGRP=A" (by decide) c!"!SECTION" [c!" TYPE=SOLID", c!"  EGRP=A"]
    [c!"\tTYPE=SOLID", c!"EGRP=A"] (by decide)
    (.cons ⟨c!" ", c!"\t", c!"TYPE=SOLID", by decide, by decide, rfl, rfl⟩
      (.cons ⟨c!"  ", [], c!"EGRP=A", by decide, by decide, rfl, rfl⟩ .nil))

end Femio.Fistr.G3
