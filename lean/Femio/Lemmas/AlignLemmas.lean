import Femio.Model.Tensor
import Mathlib.Algebra.Order.Field.Basic
import Mathlib.Tactic.Linarith
import Mathlib.Data.List.Basic

/-! Helper lemmas for `C17_align_nnz` (ordered field). -/
namespace Femio.Tensor

variable {K : Type} [Field K] [LinearOrder K] [IsStrictOrderedRing K]

theorem minList_le (x : K) (l : List K) : minList x l ≤ x ∧ ∀ y ∈ l, minList x l ≤ y := by
  induction l generalizing x with
  | nil => simp [minList]
  | cons y t ih =>
    have h := ih (if y < x then y else x)
    have e : minList x (y :: t) = minList (if y < x then y else x) t := rfl
    rw [e]
    constructor
    · refine le_trans h.1 ?_
      split_ifs with hy
      · exact le_of_lt hy
      · exact le_refl _
    · intro z hz
      rcases List.mem_cons.mp hz with rfl | hz
      · refine le_trans h.1 ?_
        split_ifs with hy
        · exact le_refl _
        · exact not_lt.mp hy
      · exact h.2 z hz

theorem absR_nonneg (x : K) : 0 ≤ absR x := by
  unfold absR; split_ifs with h
  · linarith
  · exact not_lt.mp h
theorem neg_le_absR (x : K) : -x ≤ absR x := by
  unfold absR; split_ifs with h
  · exact le_refl _
  · have := not_lt.mp h; linarith

theorem lookup_mem (s : Sp K) (k : Nat × Nat) :
    (s.any (·.1 == k) = false ∧ lookup s k = 0) ∨ (s.any (·.1 == k) = true ∧ lookup s k ∈ s.map (·.2)) := by
  induction s with
  | nil => left; simp [lookup]
  | cons e t ih =>
    by_cases h : e.1 = k
    · right
      simp [lookup, List.find?, h]
    · have hb : (e.1 == k) = false := by simpa using h
      have hl : lookup (e :: t) k = lookup t k := by
        simp [lookup, List.find?, hb]
      rcases ih with ⟨h1, h2⟩ | ⟨h1, h2⟩
      · left
        refine ⟨?_, by rw [hl, h2]⟩
        rw [List.any_cons, hb, h1]; rfl
      · right
        rw [hl]
        refine ⟨?_, List.mem_cons_of_mem _ h2⟩
        rw [List.any_cons, h1]; simp

/-- `np.min(s)` bounds every value the matrix can show at a cell of the union pattern -/
theorem spMin_le_lookup (cells : Nat) (s : Sp K) (k : Nat × Nat)
    (hfull : cells ≤ s.length → s.any (·.1 == k) = true) : spMin cells s ≤ lookup s k := by
  unfold spMin
  split_ifs with hlt
  · have h := minList_le (0 : K) (s.map (·.2))
    rcases lookup_mem s k with ⟨_, h2⟩ | ⟨_, h2⟩
    · rw [h2]; exact h.1
    · exact h.2 _ h2
  · have hk := hfull (not_lt.mp hlt)
    rcases lookup_mem s k with ⟨h1, _⟩ | ⟨_, h2⟩
    · rw [hk] at h1; cases h1
    · match s, h2 with
      | e :: t, h2 =>
        have h := minList_le e.2 (t.map (·.2))
        rcases List.mem_cons.mp h2 with h3 | h3
        · rw [h3]; exact h.1
        · exact h.2 _ h3

theorem mem_insertKey (x k : Nat × Nat) (l : List (Nat × Nat)) : x ∈ insertKey k l ↔ x = k ∨ x ∈ l := by
  induction l with
  | nil => simp [insertKey]
  | cons h t ih =>
    unfold insertKey
    split_ifs with h1 h2
    · subst h1; simp
    · simp
    · simp [ih]; tauto

theorem mem_unionKeys (ms : List (Sp K)) (x : Nat × Nat) :
    x ∈ unionKeys ms ↔ ∃ s ∈ ms, x ∈ s.map (·.1) := by
  unfold unionKeys
  have : ∀ l : List (Nat × Nat), x ∈ l.foldr insertKey [] ↔ x ∈ l := by
    intro l
    induction l with
    | nil => simp
    | cons h t ih => simp [List.foldr, mem_insertKey, ih]
  rw [this]
  simp [List.mem_flatMap]

theorem cnt_pos (ms : List (Sp K)) (k : Nat × Nat) (hk : k ∈ unionKeys ms) : 1 ≤ cnt ms k := by
  obtain ⟨s, hs, hx⟩ := (mem_unionKeys ms k).mp hk
  unfold cnt
  apply List.length_pos_of_mem (a := s)
  rw [List.mem_filter]
  refine ⟨hs, ?_⟩
  obtain ⟨e, he, rfl⟩ := List.mem_map.mp hx
  exact List.any_eq_true.mpr ⟨e, he, by simp⟩

/-- the positional subtraction re-aligns: no sum `s + c·D` vanishes, so nothing was dropped -/
theorem align_row (s : Sp K) (pat : List (Nat × Nat)) (h : Nat × Nat → K)
    (hnz : ∀ k ∈ pat, lookup s k + h k ≠ 0) :
    pat.zip (List.zipWith (fun a d => a - d)
      ((pat.zip (pat.map h)).filterMap fun e =>
        let v := lookup s e.1 + e.2
        if v = 0 then none else some v) (pat.map h))
      = pat.map fun k => (k, lookup s k) := by
  induction pat with
  | nil => simp
  | cons k t ih =>
    have hk := hnz k (List.mem_cons_self ..)
    have ht := ih (fun k' hk' => hnz k' (List.mem_cons_of_mem _ hk'))
    simp only [List.map_cons, List.zip_cons_cons, List.filterMap_cons, hk, if_false, List.zipWith_cons_cons,
      add_sub_cancel_right]
    simp only [] at ht
    rw [ht]

end Femio.Tensor
