import Femio.Lemmas.Boundary
import Mathlib.Tactic.Abel

/-! The cancellation lemma of Lemmas/Boundary.lean generalised from `ℤ` to any additive commutative group
    (fluxes, area vectors): used by `C10_volume`. -/

variable {α κ M : Type} [DecidableEq κ] [AddCommGroup M]

theorem sum_filter_splitG (w : α → M) (p : α → Bool) (l : List α) :
    (l.map w).sum = ((l.filter p).map w).sum + ((l.filter (fun a => !p a)).map w).sum := by
  induction l with
  | nil => simp
  | cons a t ih =>
    by_cases h : p a <;> simp [List.filter_cons, h, ih] <;> abel

/-- sum of weights over the non-boundary faces vanishes if it vanishes on every non-singleton fibre -/
theorem interior_sum_zeroG (key : α → κ) (w : α → M) :
    ∀ (n : ℕ) (l : List α), l.length ≤ n →
      (∀ k, (fiber key l k).length ≠ 1 → ((fiber key l k).map w).sum = 0) →
      ((interior key l).map w).sum = 0 := by
  intro n
  induction n with
  | zero =>
    intro l hl _
    have : l = [] := List.length_eq_zero_iff.mp (Nat.le_zero.mp hl)
    subst this; simp [interior]
  | succ n ih =>
    intro l hl hfib
    cases l with
    | nil => simp [interior]
    | cons a t =>
      set l := a :: t with hl_def
      set k0 := key a with hk0
      -- split the interior by "key = k0"
      have hsplit := sum_filter_splitG w (fun f => decide (key f = k0)) (interior key l)
      rw [hsplit]
      -- part 1: interior faces with key k0
      have h1 : (((interior key l).filter (fun f => decide (key f = k0))).map w).sum = 0 := by
        unfold interior
        rw [List.filter_filter]
        by_cases hlen : (fiber key l k0).length = 1
        · have : l.filter (fun f => (decide (key f = k0)) && decide (¬ (fiber key l (key f)).length = 1)) = [] := by
            apply List.filter_eq_nil_iff.mpr
            intro f _
            by_cases hk : key f = k0
            · simp [hk, hlen]
            · simp [hk]
          rw [this]; simp
        · have : l.filter (fun f => (decide (key f = k0)) && decide (¬ (fiber key l (key f)).length = 1))
              = fiber key l k0 := by
            unfold fiber
            apply List.filter_congr
            intro f _
            by_cases hk : key f = k0
            · simp only [hk, decide_true, Bool.true_and]
              simpa [fiber] using hlen
            · simp [hk]
          rw [this]; exact hfib k0 hlen
      -- part 2: the rest, by induction on the list with fibre k0 removed
      set B := l.filter (fun f => !decide (key f = k0)) with hB
      have hBlen : B.length ≤ n := by
        have : B.length < l.length := by
          have hlt : (l.filter (fun f => !decide (key f = k0))).length < l.length := by
            apply List.length_filter_lt_length_iff_exists.mpr
            exact ⟨a, by simp [hl_def], by simp [hk0]⟩
          simpa [hB] using hlt
        have : l.length ≤ n + 1 := hl
        omega
      have hBfib : ∀ k, (fiber key B k).length ≠ 1 → ((fiber key B k).map w).sum = 0 := by
        intro k hk
        by_cases hkk : k = k0
        · subst hkk
          have : fiber key B k0 = [] := by
            unfold fiber
            rw [hB, List.filter_filter]
            apply List.filter_eq_nil_iff.mpr
            intro f _; by_cases h : key f = k0 <;> simp [h]
          simp [this]
        · rw [hB, fiber_filter_ne key l k0 k hkk] at hk ⊢
          exact hfib k hk
      have h2 : (((interior key l).filter (fun f => !decide (key f = k0))).map w).sum
          = ((interior key B).map w).sum := by
        unfold interior
        rw [List.filter_filter, hB, List.filter_filter]
        congr 2
        apply List.filter_congr
        intro f _
        by_cases hk : key f = k0
        · simp [hk]
        · have := fiber_filter_ne key l k0 (key f) hk
          simp only [hk, decide_false, Bool.not_false, Bool.true_and, Bool.and_true]
          rw [this]
      rw [h1, h2, ih B hBlen hBfib]; simp

/-- **Cancellation theorem.** If the weights sum to zero over all faces (every element is closed) and
    over every shared (non-singleton) fibre (opposite faces cancel), they sum to zero over the boundary. -/
theorem boundary_sum_zeroG (key : α → κ) (w : α → M) (l : List α)
    (hall : (l.map w).sum = 0)
    (hfib : ∀ k, (fiber key l k).length ≠ 1 → ((fiber key l k).map w).sum = 0) :
    ((boundary key l).map w).sum = 0 := by
  have hs := sum_filter_splitG w (fun f => decide ((fiber key l (key f)).length = 1)) l
  have hi := interior_sum_zeroG key w l.length l le_rfl hfib
  unfold boundary
  unfold interior at hi
  have : (l.filter (fun a => !decide ((fiber key l (key a)).length = 1)))
       = (l.filter (fun f => decide (¬ (fiber key l (key f)).length = 1))) := by
    apply List.filter_congr; intro f _; simp
  rw [this] at hs
  rw [hi, add_zero] at hs
  rw [← hs]; exact hall



/-- if the weights cancel on every shared (non-singleton) fibre, the boundary carries the whole sum -/
theorem boundary_sum_eq_total (key : α → κ) (w : α → M) (l : List α)
    (hfib : ∀ k, (fiber key l k).length ≠ 1 → ((fiber key l k).map w).sum = 0) :
    ((boundary key l).map w).sum = (l.map w).sum := by
  have hs := sum_filter_splitG w (fun f => decide ((fiber key l (key f)).length = 1)) l
  have hi := interior_sum_zeroG key w l.length l le_rfl hfib
  unfold boundary
  unfold interior at hi
  have : (l.filter (fun a => !decide ((fiber key l (key a)).length = 1)))
       = (l.filter (fun f => decide (¬ (fiber key l (key f)).length = 1))) := by
    apply List.filter_congr; intro f _; simp
  rw [this] at hs
  rw [hi, add_zero] at hs
  exact hs.symm
