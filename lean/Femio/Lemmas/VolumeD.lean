import Femio.Lemmas.FluxD

/-! `C10_volume`: on a (mirror-)conforming mesh the flux through the extracted boundary equals the sum of the
    element volumes. -/
namespace Femio.C10
open Core Faces V3 Geom

variable {R : Type} [CommRing R]

theorem sum_map_flatMap {α β : Type} (f : α → List β) (w : β → R) (l : List α) :
    ((l.flatMap f).map w).sum = (l.map fun a => ((f a).map w).sum).sum := by
  induction l with
  | nil => simp
  | cons a t ih => simp [List.flatMap_cons, List.map_append, List.sum_append, ih]

/-- every element is a tet / tet2 / pyr / prism / hex of the right arity -/
def solidMeshB (blocks : List (List Elem)) : Bool := blocks.all fun b => b.all solidB

theorem total_flux (pt : Nat → V3 R) (blocks : List (List Elem)) (h : solidMeshB blocks = true) :
    ((allFaces blocks).map (faceFlux24 4 0 pt)).sum = totalVol24 4 0 pt blocks := by
  unfold allFaces totalVol24
  rw [sumR_eq_sum, sum_map_flatMap]
  simp only [solidMeshB, List.all_eq_true] at h
  induction blocks with
  | nil => simp
  | cons b bs ih =>
    have hb := h b (by simp)
    have hbs : ∀ x ∈ bs, ∀ y ∈ x, solidB y = true := fun x hx => h x (by simp [hx])
    simp only [List.map_cons, List.sum_cons, List.flatten_cons, List.map_append, List.sum_append, ih hbs]
    congr 1
    rw [sum_map_flatMap]
    congr 1
    apply List.map_congr_left
    intro e he
    rw [← sumR_eq_sum, elem_flux pt e (hb e he)]

theorem volume_of_conforming (pt : Nat → V3 R) (blocks : List (List Elem))
    (hsolid : solidMeshB blocks = true) (hconf : mirrorConformingB (allFaces blocks) = true) :
    surfaceFlux24 4 0 pt (allFaces blocks) = totalVol24 4 0 pt blocks := by
  unfold surfaceFlux24
  rw [sumR_eq_sum, ← boundary_eq, ← total_flux pt blocks hsolid]
  apply boundary_sum_eq_total
  intro k hk
  rw [fiber_eq] at hk ⊢
  set fs := allFaces blocks with hfs
  cases hfb : fiberB fs k with
  | nil => simp
  | cons f0 rest =>
    have hf0 : f0 ∈ fiberB fs k := by rw [hfb]; simp
    have hf0' : f0 ∈ fs ∧ key f0 = k := by simpa [fiberB] using hf0
    simp only [mirrorConformingB, List.all_eq_true] at hconf
    have h0 := hconf f0 hf0'.1
    rw [hf0'.2, hfb] at h0
    rw [hfb] at hk
    split at h0
    · rename_i x heq
      rw [heq] at hk; simp at hk
    · rename_i g h heq
      rw [heq]
      simp only [List.map_cons, List.map_nil, List.sum_cons, List.sum_nil, add_zero]
      rw [flux_mirror pt g h h0]; ring
    · cases h0

end Femio.C10
