import Femio.Model.Ucd
import Mathlib.Tactic.Linarith

open Ucd
variable {V : Type}

/-! parser lemmas in simp-normal form -/
@[simp] theorem mapM_asVal' (xs : List V) : List.mapM (asVal ∘ (Tok.v : V → Tok V)) xs = some xs := by
  induction xs with
  | nil => rfl
  | cons x t ih => simp [List.mapM_cons, asVal, ih]

@[simp] theorem mapM_asNat' (xs : List Nat) : List.mapM ((asNat : Tok V → Option Nat) ∘ Tok.n) xs = some xs := by
  induction xs with
  | nil => rfl
  | cons x t ih => simp [List.mapM_cons, asNat, ih]

@[simp] theorem readRow_nodeLine (p : Nat × List V) : readRow (nodeLine p) = some p := by
  obtain ⟨i, xs⟩ := p
  simp [readRow, nodeLine, asNat, List.mapM_map]

@[simp] theorem readRow_dataLine (p : Nat × List V) : readRow (dataLine p) = some p := by
  obtain ⟨i, xs⟩ := p
  simp [readRow, dataLine, asNat, List.mapM_map]

@[simp] theorem mapM_readRow_node (rows : List (Nat × List V)) :
    List.mapM (readRow ∘ nodeLine) rows = some rows := by
  induction rows with
  | nil => rfl
  | cons r t ih => simp [List.mapM_cons, ih]

@[simp] theorem mapM_readRow_data (rows : List (Nat × List V)) :
    List.mapM (readRow ∘ dataLine) rows = some rows := by
  induction rows with
  | nil => rfl
  | cons r t ih => simp [List.mapM_cons, ih]

theorem readElem_elemLine (ty : Nat) (e : Elem) :
    readElem (elemLine ty e : Line V) = some (firstOrder ty e) := by
  unfold elemLine
  simp only [readElem, asNat, asTy, List.mapM_map]
  simp

/-- what the element rows of the file decode to -/
def written (blocks : List (Nat × List Elem)) : List (Nat × Elem) :=
  blocks.flatMap fun b => b.2.map (firstOrder b.1)

theorem mapM_readElem (blocks : List (Nat × List Elem)) :
    (blocks.flatMap fun (b : Nat × List Elem) => b.2.map (elemLine (V := V) b.1)).mapM readElem = some (written blocks) := by
  induction blocks with
  | nil => rfl
  | cons b bs ih =>
    obtain ⟨ty, es⟩ := b
    simp only [List.flatMap_cons, written]
    rw [List.mapM_append]
    have h1 : (es.map (elemLine (V := V) ty)).mapM readElem = some (es.map (firstOrder ty)) := by
      induction es with
      | nil => rfl
      | cons e t ihe =>
        simp only [List.map_cons, List.mapM_cons, readElem_elemLine, ihe]
        rfl
    rw [h1]
    simp only [written] at ih
    rw [ih]; rfl

theorem length_elemLines (m : Mesh V) : (elemLines m).length = nElem m := by
  unfold elemLines nElem
  induction m.blocks with
  | nil => rfl
  | cons b bs ih =>
    obtain ⟨ty, es⟩ := b
    simp [List.flatMap_cons, ih]

@[simp] theorem mapM_names' (vs : List Var) :
    List.mapM ((fun (l : Line V) => (l[0]?).bind asWord) ∘ nameLine) vs = some (vs.map Var.name) := by
  induction vs with
  | nil => rfl
  | cons r t ih => simp [List.mapM_cons, nameLine, asWord, ih]

@[simp] theorem ucd_mapM_widths (vs : List Var) :
    List.mapM ((asNat : Tok V → Option Nat) ∘ fun (x : Var) => Tok.n x.width) vs = some (vs.map Var.width) := by
  induction vs with
  | nil => rfl
  | cons r t ih => simp [List.mapM_cons, asNat, ih]

theorem ucd_zip_name_width (vs : List Var) :
    ((vs.map Var.name).zip (vs.map Var.width)).map (fun (p : List Char × Nat) => (⟨p.1, p.2⟩ : Var)) = vs := by
  induction vs with
  | nil => rfl
  | cons a t ih => simp [ih]

theorem seg {α : Type} (A B rest : List α) (a b : Nat) (ha : A.length = a) (hb : B.length = b) :
    ((A ++ (B ++ rest)).drop a).take b = B := by
  subst ha; subst hb; simp

theorem seg_get {α : Type} (A : List α) (x : α) (rest : List α) (a : Nat) (ha : A.length = a) :
    (A ++ (x :: rest))[a]? = some x := by
  subst ha; simp

/-- reading a data block that sits at line `pre.length` of the file -/
theorem readDataBlock_spec (pre post : List (Line V)) (vars : List Var) (rows : List (Nat × List V))
    (hw : sumW vars ≠ 0) (hp np : Nat) (hhp : hp = pre.length) (hnp : np = pre.length + 1) :
    readDataBlock (pre ++ (dataBlock vars rows ++ post)) hp np rows.length = some (vars, rows, vars.length) := by
  subst hhp; subst hnp
  have hdb : dataBlock vars rows = blockHeader vars :: (vars.map nameLine ++ rows.map dataLine) := by
    simp [dataBlock, hw]
  set NM : List (Line V) := vars.map nameLine with hNM
  set R : List (Line V) := rows.map dataLine with hR
  have hfile : pre ++ (dataBlock vars rows ++ post) = pre ++ (blockHeader vars :: (NM ++ (R ++ post))) := by
    rw [hdb]; simp
  have hh : (pre ++ (dataBlock vars rows ++ post))[pre.length]? = some (blockHeader vars) := by
    rw [hfile]; exact seg_get pre _ _ _ rfl
  have hn : ((pre ++ (dataBlock vars rows ++ post)).drop (pre.length + 1)).take vars.length = NM := by
    rw [hfile]
    have : pre ++ (blockHeader vars :: (NM ++ (R ++ post))) = (pre ++ [blockHeader vars]) ++ (NM ++ (R ++ post)) := by simp
    rw [this]; exact seg _ NM _ _ _ (by simp) (by simp [hNM])
  have hr : ((pre ++ (dataBlock vars rows ++ post)).drop (pre.length + 1 + vars.length)).take rows.length = R := by
    rw [hfile]
    have : pre ++ (blockHeader vars :: (NM ++ (R ++ post))) = ((pre ++ [blockHeader vars]) ++ NM) ++ (R ++ post) := by simp
    rw [this]; exact seg _ R _ _ _ (by simp [hNM]; omega) (by simp [hR])
  generalize pre ++ (dataBlock vars rows ++ post) = W at hh hn hr
  simp [readDataBlock, hh, hn, hr, readBlockHeader, blockHeader, asNat, List.mapM_map, hNM, hR, ucd_zip_name_width]

#print axioms readDataBlock_spec

/-! ### the round trip -/

def expData (vars : List Var) (rows : List (Nat × List V)) : List Var × List (Nat × List V) :=
  if sumW vars = 0 then ([], []) else (vars, rows)

def nodalPairs (m : Mesh V) : List (Nat × List V) := (m.nodes.map Prod.fst).zip m.nodalRows

def elemPairs (m : Mesh V) : List (Nat × List V) := (elemIds m.blocks).zip m.elemRows

def expected (m : Mesh V) : Read V :=
  ⟨m.nodes, groupByType (written m.blocks) allTypes,
   (expData m.nodalVars (nodalPairs m)).1, (expData m.nodalVars (nodalPairs m)).2,
   (expData m.elemVars (elemPairs m)).1, (expData m.elemVars (elemPairs m)).2⟩

theorem length_insertIdAsc (i : Nat) (l : List Nat) : (insertIdAsc i l).length = l.length + 1 := by
  induction l with
  | nil => rfl
  | cons a t ih => simp only [insertIdAsc]; split <;> simp [ih]

theorem length_sortIds (l : List Nat) : (sortIds l).length = l.length := by
  induction l with
  | nil => rfl
  | cons a t ih => simp [sortIds, length_insertIdAsc] at ih ⊢; exact ih

theorem length_elemIds (blocks : List (Nat × List Elem)) :
    (elemIds blocks).length = (blocks.map fun b => b.2.length).sum := by
  have hgen : ∀ bs : List (Nat × List Elem),
      (sortIds (bs.flatMap fun b => b.2.map Elem.id)).length = (bs.map fun b => b.2.length).sum := by
    intro bs
    rw [length_sortIds]
    induction bs with
    | nil => rfl
    | cons b t ih => simp [List.flatMap_cons, ih]
  unfold elemIds
  split
  · simp
  · exact hgen _

theorem vars_ne_nil_of_sumW {vars : List Var} (h : sumW vars ≠ 0) : 1 ≤ vars.length := by
  cases vars with
  | nil => simp [sumW] at h
  | cons a t => simp

theorem length_dataBlock (vars : List Var) (rows : List (Nat × List V)) (h : sumW vars ≠ 0) :
    (dataBlock vars rows : List (Line V)).length = 1 + vars.length + rows.length := by
  simp [dataBlock, h]; omega

/-- **C04_roundtrip**: for every mesh (any number of nodes, type blocks, variables of any widths),
    reading the written lines by position recovers the nodes, the (first-order) elements grouped by
    type, and every nodal / elemental variable bound to the ids it was written for. -/
theorem read_write (m : Mesh V)
    (hN : m.nodalRows.length = m.nodes.length) (hE : m.elemRows.length = nElem m) :
    Ucd.read (write m) = some (expected m) := by
  set H : Line V := [.n m.nodes.length, .n (nElem m), .n (sumW m.nodalVars), .n (sumW m.elemVars), .n 0] with hH
  set N : List (Line V) := m.nodes.map nodeLine with hNdef
  set E : List (Line V) := elemLines m with hEdef
  set DN : List (Line V) := dataBlock m.nodalVars (nodalPairs m) with hDN
  set DE : List (Line V) := dataBlock m.elemVars (elemPairs m) with hDE
  have hEP : (elemPairs m).length = nElem m := by
    simp only [elemPairs, List.length_zip, length_elemIds, hE, nElem, Nat.min_self]
  have hNl : N.length = m.nodes.length := by simp [hNdef]
  have hEl : E.length = nElem m := by rw [hEdef, length_elemLines]
  have hpairs : (nodalPairs m).length = m.nodes.length := by simp [nodalPairs, hN]
  have hw : write m = [H] ++ (N ++ (E ++ (DN ++ DE))) := by
    simp [write, hH, hNdef, hEdef, hDN, hDE, nodalPairs, elemPairs]
  have hhead : (write m)[0]? = some H := by rw [hw]; rfl
  have hnodes : ((write m).drop 1).take m.nodes.length = N := by
    rw [hw]; exact seg [H] N _ 1 _ rfl hNl
  have helems : ((write m).drop (1 + m.nodes.length)).take (nElem m) = E := by
    rw [hw, ← List.append_assoc]; exact seg ([H] ++ N) E _ _ _ (by simp [hNl]; omega) hEl
  have hrdH : readHeader H = some ⟨m.nodes.length, nElem m, sumW m.nodalVars, sumW m.elemVars⟩ := by
    simp [readHeader, hH, asNat]
  -- nodal block
  have hnodal : sumW m.nodalVars ≠ 0 →
      readDataBlock (write m) (m.nodes.length + nElem m + 1) (m.nodes.length + 1 + nElem m + 1) m.nodes.length
        = some (m.nodalVars, nodalPairs m, m.nodalVars.length) := by
    intro h0
    have : write m = (([H] ++ N) ++ E) ++ (DN ++ DE) := by rw [hw]; simp
    rw [this, hDN, ← hpairs]
    exact readDataBlock_spec _ DE m.nodalVars (nodalPairs m) h0 _ _ (by simp [hNl, hEl]; omega) (by simp [hNl, hEl]; omega)
  -- elemental block, whatever the nodal block was
  have helem : sumW m.elemVars ≠ 0 → ∀ kN : Nat,
      (kN = if sumW m.nodalVars = 0 then 0 else m.nodalVars.length) →
      readDataBlock (write m) (m.nodes.length + nElem m + 1 + kN + (min 1 kN) * (m.nodes.length + 1))
        (m.nodes.length + 1 + nElem m + 1 + (min 1 (sumW m.nodalVars)) * (kN + m.nodes.length + 1)) (nElem m)
        = some (m.elemVars, elemPairs m, m.elemVars.length) := by
    intro h0 kN hk
    have hfile : write m = ((([H] ++ N) ++ E) ++ DN) ++ (DE ++ []) := by rw [hw]; simp
    rw [hfile, hDE, ← hEP]
    by_cases hz : sumW m.nodalVars = 0
    · have hDNnil : DN = [] := by simp [hDN, dataBlock, hz]
      simp only [hz, if_true] at hk
      subst hk
      apply readDataBlock_spec _ [] m.elemVars (elemPairs m) h0
      · simp [hNl, hEl, hDNnil]; omega
      · simp [hNl, hEl, hDNnil, hz]; omega
    · have hlen : DN.length = 1 + m.nodalVars.length + m.nodes.length := by
        rw [hDN, length_dataBlock _ _ hz, hpairs]
      have hk1 := vars_ne_nil_of_sumW hz
      simp only [hz, if_false] at hk
      subst hk
      have hmin1 : min 1 m.nodalVars.length = 1 := by omega
      have hmin2 : min 1 (sumW m.nodalVars) = 1 := by omega
      apply readDataBlock_spec _ [] m.elemVars (elemPairs m) h0
      · simp [hNl, hEl, hlen, hmin1]; omega
      · simp [hNl, hEl, hlen, hmin2]; omega
  have hmapE : E.mapM readElem = some (written m.blocks) := by
    rw [hEdef]; unfold elemLines
    have := mapM_readElem (V := V) m.blocks
    simpa using this
  -- assemble
  unfold Ucd.read expected expData
  rw [hhead]
  simp only [Option.bind_eq_bind, Option.bind_some, hrdH, hnodes, helems, hmapE]
  have hNm : N.mapM readRow = some m.nodes := by simp [hNdef, List.mapM_map]
  simp only [hNm, Option.bind_some]
  by_cases hzN : sumW m.nodalVars = 0 <;> by_cases hzE : sumW m.elemVars = 0
  · simp [hzN, hzE]
  · have := helem hzE 0 (by simp [hzN])
    simp only [hzN, Nat.min_zero, Nat.zero_mul, Nat.add_zero] at this
    simp [hzN, hzE, this]
  · simp [hzN, hzE, hnodal hzN]
  · have h1 := hnodal hzN
    have h2 := helem hzE m.nodalVars.length (by simp [hzN])
    simp [hzN, hzE, h1, h2]

#print axioms read_write
