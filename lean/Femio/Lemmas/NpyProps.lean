import Femio.Model.Npy
import Mathlib.Tactic.IntervalCases
import Mathlib.Tactic.Linarith

open Npy

/-- all cache files stem from one finished save of one object -/
def Coherent (d : Dir) : Prop := ∃ x : Obj, d = expected x

def DInv (d : Dir) : Prop := (d .sentinel).isSome → Coherent d

theorem full_save (d : Dir) (x : Obj) : crashSave Cfg.fixed d x 8 = expected x := by
  funext f
  obtain ⟨t, a, b, c⟩ := x
  cases a <;> cases b <;> cases c <;> cases f <;>
    simp [crashSave, saveSteps, optStep, Cfg.fixed, Step.apply, expected]

/-- **C05_crash_safe (step)**: whatever the directory held, a `save` that dies after any number of
    effects leaves either no sentinel or a complete, coherent cache. -/
theorem crash_inv (d : Dir) (x : Obj) (k : Nat) (h : DInv d) : DInv (crashSave Cfg.fixed d x k) := by
  by_cases hk : 8 ≤ k
  · have : crashSave Cfg.fixed d x k = crashSave Cfg.fixed d x 8 := by
      simp [crashSave, saveSteps, List.take_of_length_le, hk]
    rw [this, full_save]; intro _; exact ⟨x, rfl⟩
  · have hk' : k < 8 := by omega
    obtain ⟨t, a, b, c⟩ := x
    interval_cases k
    · simpa [crashSave] using h
    all_goals
      intro hs
      exfalso
      revert hs
      cases a <;> cases b <;> cases c <;>
        simp [crashSave, saveSteps, optStep, Cfg.fixed, Step.apply]

theorem read_inv (d : Dir) (src : Obj) (h : DInv d) : DInv (read Cfg.fixed d src).2 := by
  unfold Npy.read
  split
  · exact h
  · simp only; rw [full_save]; intro _; exact ⟨src, rfl⟩

/-- a read returns the parse of the source or one complete saved object — never a mixture -/
theorem read_never_partial (d : Dir) (src : Obj) (h : DInv d) : Coherent (read Cfg.fixed d src).1 := by
  unfold Npy.read
  split
  · rename_i hs; exact h hs
  · exact ⟨src, rfl⟩

inductive DOp | read (src : Obj) | save (x : Obj) (k : Nat)
def dstep (d : Dir) : DOp → Dir
  | .read src => (read Cfg.fixed d src).2
  | .save x k => crashSave Cfg.fixed d x k

/-- **C05_crash_safe**: every history of reads, saves and interrupted saves, from the empty directory -/
theorem history_inv (ops : List DOp) : DInv (ops.foldl dstep (fun _ => none)) := by
  suffices ∀ d, DInv d → DInv (ops.foldl dstep d) from this _ (by intro h; simp at h)
  induction ops with
  | nil => intro d h; exact h
  | cons op ops ih =>
    intro d h
    apply ih
    cases op with
    | read src => exact read_inv d src h
    | save x k => exact crash_inv d x k h

/-- **C05_cache_transparent**: second read is served from the first read's cache and equals the parse -/
theorem second_read (src : Obj) :
    (read Cfg.fixed (read Cfg.fixed (fun _ => none) src).2 src).1 = expected src := by
  simp [Npy.read, full_save, expected]

/-! the code as it is: a second save that dies after rewriting the nodes leaves a loadable mixture -/
def A : Obj := ⟨1, true, false, true⟩
def B : Obj := ⟨2, true, false, false⟩
def dirAfter : Dir := crashSave Cfg.current (crashSave Cfg.current (fun _ => none) A 8) B 2
theorem crash_counterexample_current :
    (dirAfter .sentinel).isSome = true ∧ dirAfter .nodes = some 2 ∧ dirAfter .elements = some 1 := by decide
/-- stale optional file survives a complete later save -/
theorem stale_counterexample_current :
    crashSave Cfg.current (crashSave Cfg.current (fun _ => none) A 8) B 8 .constraints = some 1 := by decide

#print axioms history_inv
#print axioms read_never_partial
