import Femio.Lemmas.C20Rv2
import Femio.Lemmas.C20MergeV

/-! C20 — the state invariant of the transition system (`Model/CompressSteps.lean`) and its preservation by every
    step: cells closed with simple faces of ≥ 3 nodes (`Inv`), node indices in range of `node_conv`, and no node that
    is still used has been merged away (`conv[v] = v`). -/
namespace Femio.C20
open Faces

theorem mem_nodes {cells : List Cell} {v : Nat} :
    v ∈ cells.flatten.flatten ↔ ∃ c ∈ cells, ∃ f ∈ c, v ∈ f := by
  simp only [List.mem_flatten]
  constructor
  · rintro ⟨f, ⟨c, hc, hf⟩, hv⟩; exact ⟨c, hc, f, hf, hv⟩
  · rintro ⟨c, hc, f, hf, hv⟩; exact ⟨f, ⟨c, hc, hf⟩, hv⟩

/-- every node of `cells'` is a node of `cells` -/
def NodesSub (cells' cells : List Cell) : Prop := ∀ v ∈ cells'.flatten.flatten, v ∈ cells.flatten.flatten

theorem nodesSub_of_cells {cells' cells : List Cell}
    (h : ∀ c' ∈ cells', ∀ f' ∈ c', ∀ v ∈ f', v ∈ cells.flatten.flatten) : NodesSub cells' cells := by
  intro v hv
  obtain ⟨c', hc', f', hf', hv'⟩ := mem_nodes.mp hv
  exact h c' hc' f' hf' v hv'

theorem getD_nodes {cells : List Cell} (i : Nat) {f : Face} (hf : f ∈ cells.getD i []) {v : Nat} (hv : v ∈ f) :
    v ∈ cells.flatten.flatten := by
  rw [List.getD_eq_getElem?_getD] at hf
  cases hi : cells[i]? with
  | none => rw [hi] at hf; simp at hf
  | some c => rw [hi] at hf; exact mem_nodes.mpr ⟨c, List.mem_of_getElem? hi, f, hf, hv⟩

theorem merge_nodesSub (cells : List Cell) (groups : List (List Nat)) :
    NodesSub (groups.map fun g => mergeCells (g.map fun i => cells.getD i [])) cells := by
  apply nodesSub_of_cells
  intro c' hc' f' hf' v hv
  obtain ⟨g, _, rfl⟩ := List.mem_map.mp hc'
  obtain ⟨c, hc, hfc⟩ := List.mem_flatten.mp (mem_mergeCells _ f' hf')
  obtain ⟨i, _, rfl⟩ := List.mem_map.mp hc
  exact getD_nodes i hfc hv

theorem shrink_nodesSub (cells : List Cell) : NodesSub (shrink cells) cells := by
  apply nodesSub_of_cells
  intro c' hc' f' hf' v hv
  simp only [shrink, List.mem_filter, List.mem_map] at hc'
  obtain ⟨⟨c, hc, rfl⟩, _⟩ := hc'
  exact mem_nodes.mpr ⟨c, hc, f', (List.mem_filter.mp hf').1, hv⟩

theorem removeOneEdge_nodes {A B : Nat} {c c' : Cell} (h : removeOneEdge A B c = some c') :
    ∀ f' ∈ c', ∀ v ∈ f', v ∈ c.flatten := by
  unfold removeOneEdge at h
  split at h
  · cases h; intro f' hf' v hv; exact List.mem_flatten.mpr ⟨f', hf', hv⟩
  · rename_i f1 f2 hf1 hf2
    split at h
    · rename_i x y p x' y' q hr1 hr2
      split at h
      · cases h
        obtain ⟨⟨t1, ht1⟩, hrot1⟩ := rotateTo_spec hr1
        obtain ⟨⟨t2, ht2⟩, hrot2⟩ := rotateTo_spec hr2
        have e1 : x = A ∧ y = B := by
          simp only [List.cons.injEq] at ht1; exact ⟨ht1.1, ht1.2.1⟩
        have e2 : x' = B ∧ y' = A := by
          simp only [List.cons.injEq] at ht2; exact ⟨ht2.1, ht2.2.1⟩
        rw [e1.1, e1.2] at hrot1
        rw [e2.1, e2.2] at hrot2
        have hm1 : f1 ∈ c := by
          have : f1 ∈ c.filter (hasE A B) := by rw [hf1]; simp
          exact (List.mem_filter.mp this).1
        have hm2 : f2 ∈ c := by
          have : f2 ∈ c.filter (hasE B A) := by rw [hf2]; simp
          exact (List.mem_filter.mp this).1
        intro f' hf' v hv
        rcases List.mem_append.mp hf' with hf' | hf'
        · exact List.mem_flatten.mpr ⟨f', (List.mem_filter.mp hf').1, hv⟩
        · have : f' = rotMin (mergeAlong A B p q) := by simpa using hf'
          subst this
          have hv' : v ∈ mergeAlong A B p q := (rotMin_isRotated _).perm.mem_iff.mpr hv
          have : v ∈ A :: B :: p ∨ v ∈ B :: A :: q := by
            have hv'' : v ∈ B :: (p ++ A :: q) := hv'
            rcases List.mem_cons.mp hv'' with h | h
            · exact Or.inl (by rw [h]; simp)
            · rcases List.mem_append.mp h with h | h
              · exact Or.inl (by simp [h])
              · rcases List.mem_cons.mp h with h | h
                · exact Or.inl (by rw [h]; simp)
                · exact Or.inr (by simp [h])
          rcases this with h | h
          · exact List.mem_flatten.mpr ⟨f1, hm1, hrot1.perm.mem_iff.mpr h⟩
          · exact List.mem_flatten.mpr ⟨f2, hm2, hrot2.perm.mem_iff.mpr h⟩
      · cases h
    · cases h
  · cases h

theorem removeEdgeStep_nodesSub (A B : Nat) (ps : List Nat) (cells : List Cell) :
    NodesSub (removeEdgeStep A B ps cells) cells := by
  unfold removeEdgeStep
  split
  · apply nodesSub_of_cells
    intro c' hc' f' hf' v hv
    obtain ⟨i, _, rfl⟩ := List.mem_map.mp hc'
    split at hf'
    · cases hr : removeOneEdge A B (cells.getD i []) with
      | none => rw [hr] at hf'; exact getD_nodes i (by simpa using hf') hv
      | some c'' =>
        rw [hr] at hf'
        have := removeOneEdge_nodes hr f' (by simpa using hf') v hv
        obtain ⟨f, hf, hvf⟩ := List.mem_flatten.mp this
        exact getD_nodes i hf hvf
    · exact getD_nodes i hf' hv
  · exact fun v hv => hv

theorem removeVertices2_nodesSub {cells cells' : List Cell} (h : removeVertices2 cells = some cells') :
    NodesSub cells' cells := by
  unfold removeVertices2 at h
  split at h
  · cases h
  · dsimp only at h
    split at h
    · cases h
      intro v hv
      have hv' := shrink_nodesSub _ v hv
      obtain ⟨c', hc', f', hf', hvf⟩ := mem_nodes.mp hv'
      obtain ⟨c, hc, rfl⟩ := List.mem_map.mp hc'
      simp only [rv2Cell, List.mem_filter, List.mem_map] at hf'
      obtain ⟨⟨f, hf, rfl⟩, _⟩ := hf'
      exact mem_nodes.mpr ⟨c, hc, f, hf, (List.mem_filter.mp hvf).1⟩
    · cases h

/-- the state invariant -/
structure Good (st : St) : Prop where
  inv : Inv st.cells
  range : ∀ v ∈ st.cells.flatten.flatten, v < st.conv.length
  fixed : ∀ v ∈ st.cells.flatten.flatten, st.conv.getD v v = v

theorem good_of_nodesSub {st : St} (hg : Good st) {cells' : List Cell} (hinv : Inv cells')
    (hs : NodesSub cells' st.cells) : Good { st with cells := cells' } :=
  ⟨hinv, fun v hv => hg.range v (hs v hv), fun v hv => hg.fixed v (hs v hv)⟩

theorem mergeVertex_inv {cells : List Cell} (h : Inv cells) (a b : Nat) : Inv (cells.map (mergeVertexCell a b)) := by
  intro c' hc'
  obtain ⟨c, hc, rfl⟩ := List.mem_map.mp hc'
  exact mergeVertexCell_cellOK (h c hc) a b

theorem step_good {st st' : St} (hg : Good st) (op : Op) (h : step st op = some st') :
    Good st' ∧ st'.conv.length = st.conv.length := by
  cases op with
  | merge groups =>
    simp only [step, Option.some.injEq] at h; subst h
    exact ⟨good_of_nodesSub hg (merge_step_inv hg.inv groups) (merge_nodesSub _ _), rfl⟩
  | removeEdge A B ps =>
    simp only [step, Option.some.injEq] at h; subst h
    exact ⟨good_of_nodesSub hg (removeEdgeStep_inv hg.inv A B ps) (removeEdgeStep_nodesSub _ _ _ _), rfl⟩
  | removeVertices2 =>
    simp only [step, Option.map_eq_some_iff] at h
    obtain ⟨cs, hcs, rfl⟩ := h
    obtain ⟨cs', hcs', hinv⟩ := removeVertices2_inv hg.inv
    rw [hcs] at hcs'; cases hcs'
    exact ⟨good_of_nodesSub hg hinv (removeVertices2_nodesSub hcs), rfl⟩
  | mergeVertex a b =>
    simp only [step] at h
    split at h
    · rename_i hguard
      obtain ⟨ha, hb, hab, hfix⟩ := hguard
      cases h
      have hnodes : ∀ v ∈ (st.cells.map (mergeVertexCell a b)).flatten.flatten,
          (v ∈ st.cells.flatten.flatten ∨ v = a) ∧ v ≠ b := by
        intro v hv
        obtain ⟨c', hc', f', hf', hvf⟩ := mem_nodes.mp hv
        obtain ⟨c, hc, rfl⟩ := List.mem_map.mp hc'
        have hvc : v ∈ (mergeVertexCell a b c).flatten := List.mem_flatten.mpr ⟨f', hf', hvf⟩
        refine ⟨?_, fun e => mergeVertexCell_not_mem (hg.inv c hc) hab (e ▸ hvc)⟩
        rcases mergeVertexCell_nodes (hg.inv c hc) a b v hvc with h | h
        · obtain ⟨f, hf, hvf'⟩ := List.mem_flatten.mp h
          exact Or.inl (mem_nodes.mpr ⟨c, hc, f, hf, hvf'⟩)
        · exact Or.inr h
      refine ⟨⟨mergeVertex_inv hg.inv a b, fun v hv => ?_, fun v hv => ?_⟩, by simp⟩
      · simp only [List.length_set]
        rcases (hnodes v hv).1 with h | h
        · exact hg.range v h
        · rw [h]; exact ha
      · have hvb := (hnodes v hv).2
        simp only
        rw [List.getD_eq_getElem?_getD, List.getElem?_set_ne (fun e => hvb e.symm), ← List.getD_eq_getElem?_getD]
        rcases (hnodes v hv).1 with h | h
        · exact hg.fixed v h
        · rw [h]; exact hfix
    · cases h; exact ⟨hg, rfl⟩
  | shrink =>
    simp only [step, Option.some.injEq] at h; subst h
    exact ⟨good_of_nodesSub hg (shrink_inv hg.inv) (shrink_nodesSub _), rfl⟩

/-- no `assert` fires on a state of the invariant -/
theorem step_isSome {st : St} (hg : Good st) (op : Op) : ∃ st', step st op = some st' := by
  cases op with
  | merge groups => exact ⟨_, rfl⟩
  | removeEdge A B ps => exact ⟨_, rfl⟩
  | removeVertices2 =>
    obtain ⟨cs', hcs', _⟩ := removeVertices2_inv hg.inv
    exact ⟨{ st with cells := cs' }, by simp only [step, hcs', Option.map_some]⟩
  | mergeVertex a b => simp only [step]; split <;> exact ⟨_, rfl⟩
  | shrink => exact ⟨_, rfl⟩

theorem runOps_good (ops : List Op) : ∀ st : St, Good st →
    ∃ st', runOps ops st = some st' ∧ Good st' ∧ st'.conv.length = st.conv.length := by
  induction ops with
  | nil => intro st hg; exact ⟨st, rfl, hg, rfl⟩
  | cons op ops ih =>
    intro st hg
    obtain ⟨st1, h1⟩ := step_isSome hg op
    obtain ⟨hg1, hl1⟩ := step_good hg op h1
    obtain ⟨st', h', hg', hl'⟩ := ih st1 hg1
    exact ⟨st', by simp only [runOps, h1, Option.bind_some, h'], hg', hl'.trans hl1⟩

/-! ### reindex: representatives of nodes that were never merged away -/

theorem chaseOnce_length (conv : List Nat) : (chaseOnce conv).length = conv.length := by simp [chaseOnce]

theorem chase_length (n : Nat) (conv : List Nat) : (chase n conv).length = conv.length := by
  induction n generalizing conv with
  | zero => rfl
  | succ n ih =>
    simp only [chase]
    split
    · rfl
    · rw [ih, chaseOnce_length]

theorem chaseOnce_fixed {conv : List Nat} {v : Nat} (hv : v < conv.length) (h : conv.getD v v = v) :
    (chaseOnce conv).getD v v = v := by
  have hcv : conv[v] = v := by
    rw [List.getD_eq_getElem?_getD, List.getElem?_eq_getElem hv, Option.getD_some] at h; exact h
  unfold chaseOnce
  rw [List.getD_eq_getElem?_getD, List.getElem?_map, List.getElem?_eq_getElem hv, Option.map_some, Option.getD_some,
    hcv, h]

theorem chase_fixed (n : Nat) {conv : List Nat} {v : Nat} (hv : v < conv.length) (h : conv.getD v v = v) :
    (chase n conv).getD v v = v := by
  induction n generalizing conv with
  | zero => exact h
  | succ n ih =>
    simp only [chase]
    split
    · exact h
    · exact ih (by rw [chaseOnce_length]; exact hv) (chaseOnce_fixed hv h)

theorem reindex_conv (cells : List Cell) (conv : List Nat) :
    (reindex cells conv).conv = (chase conv.length conv).map fun p =>
      if cells.flatten.flatten.contains p then (reindex cells conv).kept.idxOf? p else none := rfl

/-! ### decidable form of the state invariant (for concrete states) -/
theorem cellOKB_sound {c : Cell} (h : cellOKB c = true) : CellOK c := by
  simp only [cellOKB, Bool.and_eq_true, List.all_eq_true, decide_eq_true_eq] at h
  exact ⟨balB_sound _ h.1, fun f hf => ⟨(nodupB_iff f).mp (h.2 f hf).1, (h.2 f hf).2⟩⟩

theorem goodB_sound {st : St} (h : goodB st = true) : Good st := by
  simp only [goodB, Bool.and_eq_true, List.all_eq_true, decide_eq_true_eq] at h
  exact ⟨fun c hc => cellOKB_sound (h.1 c hc), fun v hv => (h.2 v hv).1, fun v hv => (h.2 v hv).2⟩

end Femio.C20
