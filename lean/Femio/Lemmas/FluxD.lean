import Femio.Model.Surface
import Femio.Lemmas.GeomProps
import Femio.Lemmas.SurfaceProps
import Femio.Lemmas.BoundaryG
import Mathlib.Tactic.Ring

/-! Flux lemmas behind `C10_element_outward` / `C10_volume`: per element the fluxes of the table faces add up to
    the "centroid" volume kernel; a mirrored face has the opposite flux. -/
namespace Femio.C10
open Core Faces V3 Geom Femio.Gen

variable {R : Type} [CommRing R]

theorem sumR_eq_sum (l : List R) : sumR 0 l = l.sum := by
  induction l with
  | nil => rfl
  | cons a t ih => simp only [sumR, List.foldr_cons, List.sum_cons] at ih ⊢; rw [ih]

theorem len4 {α : Type} (l : List α) (h : l.length = 4) : ∃ a b c d, l = [a, b, c, d] := by
  rcases l with _ | ⟨a, _ | ⟨b, _ | ⟨c, _ | ⟨d, _ | ⟨e, t⟩⟩⟩⟩⟩ <;> simp at h
  exact ⟨a, b, c, d, rfl⟩

theorem len5 {α : Type} (l : List α) (h : l.length = 5) : ∃ a b c d e, l = [a, b, c, d, e] := by
  rcases l with _ | ⟨a, _ | ⟨b, _ | ⟨c, _ | ⟨d, _ | ⟨e, _ | ⟨f, t⟩⟩⟩⟩⟩⟩ <;> simp at h
  exact ⟨a, b, c, d, e, rfl⟩

theorem len6 {α : Type} (l : List α) (h : l.length = 6) : ∃ a b c d e f, l = [a, b, c, d, e, f] := by
  rcases l with _ | ⟨a, _ | ⟨b, _ | ⟨c, _ | ⟨d, _ | ⟨e, _ | ⟨f, _ | ⟨g, t⟩⟩⟩⟩⟩⟩⟩ <;> simp at h
  exact ⟨a, b, c, d, e, f, rfl⟩

theorem len8 {α : Type} (l : List α) (h : l.length = 8) : ∃ a b c d e f g i, l = [a, b, c, d, e, f, g, i] := by
  rcases l with _ | ⟨a, _ | ⟨b, _ | ⟨c, _ | ⟨d, _ | ⟨e, _ | ⟨f, _ | ⟨g, _ | ⟨i, _ | ⟨j, t⟩⟩⟩⟩⟩⟩⟩⟩⟩ <;> simp at h
  exact ⟨a, b, c, d, e, f, g, i, rfl⟩

theorem len_ge4 {α : Type} (l : List α) (h : 4 ≤ l.length) : ∃ a b c d t, l = a :: b :: c :: d :: t := by
  rcases l with _ | ⟨a, _ | ⟨b, _ | ⟨c, _ | ⟨d, t⟩⟩⟩⟩ <;> simp at h
  exact ⟨a, b, c, d, t, rfl⟩

/-- the element is of a type whose faces are triangles / quadrilaterals and has that type's arity -/
def solidB (e : Elem) : Bool :=
  (e.ty == 8 || e.ty == 9 || e.ty == 10 || e.ty == 12 || e.ty == 14) && e.conn.length == arity e.ty

/-- **divergence theorem on the regenerated face tables**: per element, the fluxes through its table faces add up
    to the "centroid" volume kernel (×24) -/
theorem elem_flux (pt : Nat → V3 R) (e : Elem) (h : solidB e = true) :
    sumR 0 ((elemFaces e).map (faceFlux24 4 0 pt)) = elemVol24 4 0 pt e := by
  obtain ⟨id, ty, conn⟩ := e
  simp only [solidB, Bool.and_eq_true, Bool.or_eq_true, beq_iff_eq] at h
  obtain ⟨hty, hlen⟩ := h
  rcases hty with (((h8 | h9) | h10) | h12) | h14
  · subst h8
    obtain ⟨a, b, c, d, rfl⟩ := len4 conn (by simpa [arity] using hlen)
    simp [elemFaces, faceTable, faces_tet, pick, faceFlux24, elemVol24, sumR]
    geom_unfold; ring
  · subst h9
    obtain ⟨a, b, c, d, t, rfl⟩ := len_ge4 conn (by simp [arity] at hlen; omega)
    simp [elemFaces, faceTable, faces_tet2, pick, faceFlux24, elemVol24, sumR]
    geom_unfold; ring
  · subst h10
    obtain ⟨a, b, c, d, e, rfl⟩ := len5 conn (by simpa [arity] using hlen)
    simp [elemFaces, faceTable, faces_pyr, pick, faceFlux24, elemVol24, sumR]
    geom_unfold; ring
  · subst h12
    obtain ⟨a, b, c, d, e, f, rfl⟩ := len6 conn (by simpa [arity] using hlen)
    simp [elemFaces, faceTable, faces_prism, pick, faceFlux24, elemVol24, sumR]
    geom_unfold; ring
  · subst h14
    obtain ⟨a, b, c, d, e, f, g, i, rfl⟩ := len8 conn (by simpa [arity] using hlen)
    simp [elemFaces, faceTable, faces_hex, pick, faceFlux24, elemVol24, sumR]
    geom_unfold; ring

/-- a face traversed backwards has the opposite flux -/
theorem flux_mirror (pt : Nat → V3 R) (f g : Face) (h : mirrorB f g = true) :
    faceFlux24 4 0 pt g = - faceFlux24 4 0 pt f := by
  unfold mirrorB at h
  split at h
  · rename_i a b c
    simp only [Bool.or_eq_true, beq_iff_eq] at h
    rcases h with (h | h) | h <;> subst h <;> simp only [faceFlux24] <;> geom_unfold <;> ring
  · rename_i a b c d
    simp only [Bool.or_eq_true, beq_iff_eq] at h
    rcases h with ((h | h) | h) | h <;> subst h <;> simp only [faceFlux24] <;> geom_unfold <;> ring
  · cases h

end Femio.C10
