import Femio.Model.Tensor
import Femio.Lemmas.GradientLemmas
import Mathlib.Tactic.LinearCombination
import Mathlib.Tactic.FinCases
import Mathlib.LinearAlgebra.Matrix.NonsingularInverse

/-! Helper lemmas for C17: bridge `M3` ↔ Mathlib matrices, spectral sums, the cross-product identities. -/
namespace Femio.Tensor
open V3 Femio.Gradient

variable {K : Type} [Field K]

def one3 : M3 K := ⟨⟨1, 0, 0⟩, ⟨0, 1, 0⟩, ⟨0, 0, 1⟩⟩

theorem m3_ext {A B : M3 K} (h0 : A.r0 = B.r0) (h1 : A.r1 = B.r1) (h2 : A.r2 = B.r2) : A = B := by
  cases A; cases B; simp_all

theorem toMatrix_mmul (A B : M3 K) : toMatrix (mmul A B) = toMatrix A * toMatrix B := by
  ext i j; fin_cases i <;> fin_cases j <;>
    simp [toMatrix, mmul, transpose, dot, Matrix.mul_apply, Fin.sum_univ_three]
theorem toMatrix_transpose (A : M3 K) : toMatrix (transpose A) = (toMatrix A).transpose := by
  ext i j; fin_cases i <;> fin_cases j <;> simp [toMatrix, transpose]
theorem toMatrix_one : toMatrix (one3 : M3 K) = 1 := by
  ext i j; fin_cases i <;> fin_cases j <;> simp [toMatrix, one3]
theorem toMatrix_madd (A B : M3 K) : toMatrix (madd A B) = toMatrix A + toMatrix B := by
  ext i j; fin_cases i <;> fin_cases j <;> simp [toMatrix, madd, V3.add]
theorem toMatrix_inj {A B : M3 K} (h : toMatrix A = toMatrix B) : A = B := by
  obtain ⟨⟨a00, a01, a02⟩, ⟨a10, a11, a12⟩, ⟨a20, a21, a22⟩⟩ := A
  obtain ⟨⟨b00, b01, b02⟩, ⟨b10, b11, b12⟩, ⟨b20, b21, b22⟩⟩ := B
  have e := fun i j => congrFun (congrFun h i) j
  have h00 := e 0 0; have h01 := e 0 1; have h02 := e 0 2
  have h10 := e 1 0; have h11 := e 1 1; have h12 := e 1 2
  have h20 := e 2 0; have h21 := e 2 1; have h22 := e 2 2
  simp [toMatrix] at h00 h01 h02 h10 h11 h12 h20 h21 h22
  simp [*]

/-- `V Vᵀ = 1` from `Vᵀ V = 1` (square matrices) -/
theorem orth_comm {V : M3 K} (h : mmul (transpose V) V = one3) : mmul V (transpose V) = one3 := by
  apply toMatrix_inj
  have h' := congrArg toMatrix h
  rw [toMatrix_mmul, toMatrix_transpose, toMatrix_one] at h'
  rw [toMatrix_mmul, toMatrix_transpose, toMatrix_one]
  exact mul_eq_one_comm.mp h'

theorem mmul_assoc (A B C : M3 K) : mmul (mmul A B) C = mmul A (mmul B C) := by
  apply toMatrix_inj; simp only [toMatrix_mmul, Matrix.mul_assoc]

theorem mmul_one (A : M3 K) : mmul A one3 = A := by
  apply toMatrix_inj; rw [toMatrix_mmul, toMatrix_one, Matrix.mul_one]
theorem one_mmul (A : M3 K) : mmul one3 A = A := by
  apply toMatrix_inj; rw [toMatrix_mmul, toMatrix_one, Matrix.one_mul]

theorem ofCols_cols (V : M3 K) : ofCols (col0 V) (col1 V) (col2 V) = V := by
  obtain ⟨⟨a00, a01, a02⟩, ⟨a10, a11, a12⟩, ⟨a20, a21, a22⟩⟩ := V
  rfl

/-- `R diag(w) Rᵀ = Σ_k w_k c_k c_kᵀ` for `R` with columns `c_k` -/
theorem spectral (a b c w : V3 K) :
    mmul (mmul (ofCols a b c) (diag3 w)) (transpose (ofCols a b c))
      = madd (madd (msmul w.x (outer a a)) (msmul w.y (outer b b))) (msmul w.z (outer c c)) := by
  obtain ⟨a0, a1, a2⟩ := a; obtain ⟨b0, b1, b2⟩ := b; obtain ⟨c0, c1, c2⟩ := c; obtain ⟨w0, w1, w2⟩ := w
  apply m3_ext <;> apply v3_ext <;>
    simp [mmul, ofCols, transpose, diag3, dot, madd, msmul, outer, V3.add, V3.smul] <;> ring

/-- `Oᵀ (diag(w) O) = Σ_k w_k r_k r_kᵀ` for `O` with rows `r_k` -/
theorem spectral_rows (a b c w : V3 K) :
    mmul (transpose ⟨a, b, c⟩) (mmul (diag3 w) ⟨a, b, c⟩)
      = madd (madd (msmul w.x (outer a a)) (msmul w.y (outer b b))) (msmul w.z (outer c c)) := by
  obtain ⟨a0, a1, a2⟩ := a; obtain ⟨b0, b1, b2⟩ := b; obtain ⟨c0, c1, c2⟩ := c; obtain ⟨w0, w1, w2⟩ := w
  apply m3_ext <;> apply v3_ext <;>
    simp [mmul, transpose, diag3, dot, madd, msmul, outer, V3.add, V3.smul] <;> ring

/-- Lagrange identity -/
theorem cross_dot_self (a b : V3 K) : dot (cross a b) (cross a b) = dot a a * dot b b - dot a b * dot a b := by
  simp [dot, cross]; ring
theorem cross_dot_left (a b : V3 K) : dot (cross a b) a = 0 := by simp [dot, cross]; ring
theorem cross_dot_right (a b : V3 K) : dot (cross a b) b = 0 := by simp [dot, cross]; ring
theorem dot_comm (a b : V3 K) : dot a b = dot b a := by simp [dot]; ring

/-- `(a×b)(a×b)ᵀ = (|a|²|b|² − (a·b)²) I − |b|² aaᵀ − |a|² bbᵀ + (a·b)(abᵀ + baᵀ)`; with `a, b` orthonormal and
    `aaᵀ + bbᵀ + ccᵀ = I` this is `ccᵀ`: overwriting the third eigenvector by the cross product of the other
    two does not change `Σ λ_k d_k d_kᵀ`. -/
theorem cross_outer (a b c : V3 K) (hI : madd (madd (outer a a) (outer b b)) (outer c c) = one3)
    (haa : dot a a = 1) (hbb : dot b b = 1) (hab : dot a b = 0) :
    outer (cross a b) (cross a b) = outer c c := by
  obtain ⟨a0, a1, a2⟩ := a; obtain ⟨b0, b1, b2⟩ := b; obtain ⟨c0, c1, c2⟩ := c
  simp only [dot] at haa hbb hab
  have e00 := congrArg (fun M : M3 K => M.r0.x) hI
  have e01 := congrArg (fun M : M3 K => M.r0.y) hI
  have e02 := congrArg (fun M : M3 K => M.r0.z) hI
  have e10 := congrArg (fun M : M3 K => M.r1.x) hI
  have e11 := congrArg (fun M : M3 K => M.r1.y) hI
  have e12 := congrArg (fun M : M3 K => M.r1.z) hI
  have e20 := congrArg (fun M : M3 K => M.r2.x) hI
  have e21 := congrArg (fun M : M3 K => M.r2.y) hI
  have e22 := congrArg (fun M : M3 K => M.r2.z) hI
  simp only [madd, outer, V3.add, V3.smul, one3] at e00 e01 e02 e10 e11 e12 e20 e21 e22
  apply m3_ext <;> apply v3_ext <;> simp only [outer, cross, V3.smul]
  · linear_combination (-1 : K) * e00 + ((b0*b0+b1*b1+b2*b2) - b0*b0) * haa + (1 - a0*a0) * hbb - ((a0*b0+a1*b1+a2*b2) - 2*a0*b0) * hab
  · linear_combination (-1 : K) * e01 + (- b0*b1) * haa + (- a0*a1) * hbb + (a0*b1 + b0*a1) * hab
  · linear_combination (-1 : K) * e02 + (- b0*b2) * haa + (- a0*a2) * hbb + (a0*b2 + b0*a2) * hab
  · linear_combination (-1 : K) * e10 + (- b1*b0) * haa + (- a1*a0) * hbb + (a1*b0 + b1*a0) * hab
  · linear_combination (-1 : K) * e11 + ((b0*b0+b1*b1+b2*b2) - b1*b1) * haa + (1 - a1*a1) * hbb - ((a0*b0+a1*b1+a2*b2) - 2*a1*b1) * hab
  · linear_combination (-1 : K) * e12 + (- b1*b2) * haa + (- a1*a2) * hbb + (a1*b2 + b1*a2) * hab
  · linear_combination (-1 : K) * e20 + (- b2*b0) * haa + (- a2*a0) * hbb + (a2*b0 + b2*a0) * hab
  · linear_combination (-1 : K) * e21 + (- b2*b1) * haa + (- a2*a1) * hbb + (a2*b1 + b2*a1) * hab
  · linear_combination (-1 : K) * e22 + ((b0*b0+b1*b1+b2*b2) - b2*b2) * haa + (1 - a2*a2) * hbb - ((a0*b0+a1*b1+a2*b2) - 2*a2*b2) * hab

end Femio.Tensor
