import Femio.Lemmas.FistrG3a

/-! G3, part b: every consumer of a header line is invariant under `HdrRel`, every consumer of a data line under
`DataRel`. -/
namespace Femio.Fistr.G3
open Femio.Fistr Numeral

/-! ### keys -/
/-- keys the scanner lemmas apply to: non-empty, first char not blank, no comma -/
def keyOK (key : List Char) : Bool :=
  match key with
  | [] => false
  | c :: _ => !isWs c && !key.contains ','

theorem keyOK_spec {key : List Char} (h : keyOK key = true) :
    (∃ c k, key = c :: k ∧ isWs c = false) ∧ ',' ∉ key := by
  cases key with
  | nil => simp [keyOK] at h
  | cons c k =>
    simp only [keyOK, Bool.and_eq_true, Bool.not_eq_true', List.contains_eq_mem, decide_eq_false_iff_not] at h
    exact ⟨⟨c, k, rfl, h.1⟩, h.2⟩

theorem isPrefix_nil (s : List Char) : isPrefix [] s = true := by cases s <;> rfl

theorem isPrefix_comma (key : List Char) (hk : ',' ∉ key) (v r : List Char) :
    isPrefix key (v ++ ',' :: r) = isPrefix key v := by
  induction key generalizing v with
  | nil => rw [isPrefix_nil, isPrefix_nil]
  | cons a k ih =>
    have ha : a ≠ ',' := fun e => hk (e ▸ List.mem_cons_self)
    have hk' : ',' ∉ k := fun m => hk (List.mem_cons_of_mem _ m)
    cases v with
    | nil => simp [isPrefix, ha]
    | cons b v => simp only [List.cons_append, isPrefix]; rw [ih hk']

theorem isPrefix_length (key s : List Char) (h : isPrefix key s = true) : key.length ≤ s.length := by
  induction key generalizing s with
  | nil => simp
  | cons a k ih =>
    cases s with
    | nil => simp [isPrefix] at h
    | cons b s =>
      simp only [isPrefix, Bool.and_eq_true] at h
      have := ih s h.2
      simp only [List.length_cons]; omega

theorem isPrefix_ws (c : Char) (k : List Char) (w : Char) (t : List Char) (hc : isWs c = false) (hw : isWs w = true) :
    isPrefix (c :: k) (w :: t) = false := by
  have : c ≠ w := by rintro rfl; rw [hc] at hw; cases hw
  simp [isPrefix, this]

theorem isPrefix_join (key : List Char) (hk : ',' ∉ key) (f0 : List Char) (fs : List (List Char)) :
    isPrefix key (joinSep ',' (f0 :: fs)) = isPrefix key f0 := by
  cases fs with
  | nil => rfl
  | cons g t => rw [joinSep_cons_ne _ _ _ (by simp), isPrefix_comma key hk]

theorem takeWhile_stop (p : Char → Bool) (x : List Char) (c : Char) (r : List Char) (hc : p c = false) :
    (x ++ c :: r).takeWhile p = x.takeWhile p := by
  induction x with
  | nil => simp [List.takeWhile, hc]
  | cons a t ih => simp only [List.cons_append, List.takeWhile_cons, ih]

/-! ### the matchers -/
def mPre (key : List Char) (s : List Char) : Option Unit := if isPrefix key s then some () else none

def mCap (key : List Char) (p : Char → Bool) (s : List Char) : Option (List Char) :=
  if isPrefix key s ∧ ((s.drop key.length).takeWhile p) ≠ [] then some ((s.drop key.length).takeWhile p) else none

def tail1 (u : List Char) : Bool := match trimLeft u with | '1' :: _ => true | _ => false
def itemTail (s : List Char) : Bool := match trimLeft s with | '=' :: u => tail1 u | _ => false
def mItem (s : List Char) : Option Unit :=
  if (isPrefix c!"!ITEM" s && itemTail (s.drop 5)) = true then some () else none

theorem mPre_local (key : List Char) (hk : keyOK key = true) : Local (mPre key) := by
  obtain ⟨⟨c, k, rfl, hc⟩, hcomma⟩ := keyOK_spec hk
  refine ⟨?_, ?_, ?_⟩
  · intro v r; unfold mPre; rw [isPrefix_comma _ hcomma]
  · rfl
  · intro w t hw; unfold mPre; rw [isPrefix_ws c k w t hc hw]; rfl

theorem mCap_local (key : List Char) (p : Char → Bool) (hk : keyOK key = true) (hp : p ',' = false) :
    Local (mCap key p) := by
  obtain ⟨⟨c, k, rfl, hc⟩, hcomma⟩ := keyOK_spec hk
  refine ⟨?_, ?_, ?_⟩
  · intro v r
    unfold mCap
    rw [isPrefix_comma _ hcomma]
    by_cases h : isPrefix (c :: k) v = true
    · have hl := isPrefix_length _ _ h
      rw [List.drop_append_of_le_length hl, takeWhile_stop p _ ',' r hp]
    · simp [h]
  · simp [mCap, isPrefix]
  · intro w t hw; unfold mCap; rw [isPrefix_ws c k w t hc hw]; simp

theorem tail1_comma (x r : List Char) : tail1 (x ++ ',' :: r) = tail1 x := by
  unfold tail1
  rcases trimLeft_head x with h0 | ⟨c, t, h1, _⟩
  · rw [h0, trimLeft_append_ws _ _ ((trimLeft_eq_nil_iff x).mp h0), trimLeft_cons_nonws _ _ (by decide)]
    rfl
  · rw [h1, trimLeft_append_of_cons x _ c t h1]
    split <;> rename_i heq
    · cases heq; rfl
    · split <;> rename_i heq'
      · cases heq'; exact absurd rfl (heq _)
      · rfl

theorem itemTail_comma (x r : List Char) : itemTail (x ++ ',' :: r) = itemTail x := by
  unfold itemTail
  rcases trimLeft_head x with h0 | ⟨c, t, h1, _⟩
  · rw [h0, trimLeft_append_ws _ _ ((trimLeft_eq_nil_iff x).mp h0), trimLeft_cons_nonws _ _ (by decide)]
    rfl
  · rw [h1, trimLeft_append_of_cons x _ c t h1]
    split <;> rename_i heq
    · cases heq; simp only [tail1_comma]
    · split <;> rename_i heq'
      · cases heq'; exact absurd rfl (heq _)
      · rfl

theorem mItem_local : Local mItem := by
  refine ⟨?_, ?_, ?_⟩
  · intro v r
    unfold mItem
    rw [isPrefix_comma _ (by decide)]
    by_cases h : isPrefix c!"!ITEM" v = true
    · have hl : 5 ≤ v.length := isPrefix_length _ _ h
      rw [List.drop_append_of_le_length hl, itemTail_comma]
    · simp [h]
  · rfl
  · intro w t hw
    unfold mItem
    rw [isPrefix_ws '!' _ w t (by decide) hw]; rfl

/-! ### the model's scanners are `scan`s -/
theorem scan_cons_of_some {β} {m : List Char → Option β} {c : Char} {t : List Char} {b : β}
    (h : m (c :: t) = some b) : scan m (c :: t) = some b := by simp [scan, h]

theorem scan_cons_of_none {β} {m : List Char → Option β} {c : Char} {t : List Char}
    (h : m (c :: t) = none) : scan m (c :: t) = scan m t := by simp [scan, h]

theorem hasSub_eq_scan (key : List Char) (hk : key ≠ []) (l : List Char) :
    hasSub key l = (scan (mPre key) l).isSome := by
  induction l with
  | nil => cases key with
    | nil => exact absurd rfl hk
    | cons a k => rfl
  | cons c t ih =>
    cases h : isPrefix key (c :: t) with
    | true =>
      have : mPre key (c :: t) = some () := by simp [mPre, h]
      rw [scan_cons_of_some this]; simp [hasSub, h]
    | false =>
      have : mPre key (c :: t) = none := by simp [mPre, h]
      rw [scan_cons_of_none this, ← ih]; simp [hasSub, h]

theorem captureP_eq_scan (key : List Char) (p : Char → Bool) (l : List Char) :
    captureP key p l = scan (mCap key p) l := by
  induction l with
  | nil => rfl
  | cons c t ih =>
    unfold captureP scan mCap
    split
    · rfl
    · exact ih

theorem capture_eq_scan (key : List Char) (l : List Char) : capture key l = scan (mCap key isWord) l := by
  induction l with
  | nil => rfl
  | cons c t ih =>
    unfold capture scan mCap
    split
    · rfl
    · exact ih

theorem isItem1_go_cons (c : Char) (t : List Char) :
    isItem1.go (c :: t) = ((isPrefix c!"!ITEM" (c :: t) && itemTail ((c :: t).drop 5)) || isItem1.go t) := by
  rw [isItem1.go]
  congr 2

theorem isItem1_eq_scan (l : List Char) : isItem1 l = (scan mItem l).isSome := by
  unfold isItem1
  induction l with
  | nil => rfl
  | cons c t ih =>
    rw [isItem1_go_cons]
    cases h : (isPrefix c!"!ITEM" (c :: t) && itemTail ((c :: t).drop 5)) with
    | true =>
      have : mItem (c :: t) = some () := by simp only [mItem, h]; rfl
      rw [scan_cons_of_some this]; rfl
    | false =>
      have : mItem (c :: t) = none := by simp only [mItem, h]; rfl
      rw [scan_cons_of_none this, ← ih]; rfl

/-! ### header consumers -/
theorem hasSub_hdr (key : List Char) (hk : keyOK key = true) {h h' : Line} (hr : HdrRel h h') :
    hasSub key h = hasSub key h' := by
  have hne : key ≠ [] := by rintro rfl; simp [keyOK] at hk
  rw [hasSub_eq_scan key hne, hasSub_eq_scan key hne, scan_hdr (mPre_local key hk) hr]

theorem capture_hdr (key : List Char) (hk : keyOK key = true) {h h' : Line} (hr : HdrRel h h') :
    capture key h = capture key h' := by
  rw [capture_eq_scan, capture_eq_scan, scan_hdr (mCap_local key isWord hk (by decide)) hr]

theorem captureP_hdr (key : List Char) (p : Char → Bool) (hk : keyOK key = true) (hp : p ',' = false)
    {h h' : Line} (hr : HdrRel h h') : captureP key p h = captureP key p h' := by
  rw [captureP_eq_scan, captureP_eq_scan, scan_hdr (mCap_local key p hk hp) hr]

theorem isItem1_hdr {h h' : Line} (hr : HdrRel h h') : isItem1 h = isItem1 h' := by
  rw [isItem1_eq_scan, isItem1_eq_scan, scan_hdr mItem_local hr]

theorem isPrefix_hdr (key : List Char) (hk : ',' ∉ key) {h h' : Line} (hr : HdrRel h h') :
    isPrefix key h = isPrefix key h' := by
  obtain ⟨_, f0, fs, fs', h1, h2, _⟩ := hr
  rw [← joinSep_splitOn ',' h, ← joinSep_splitOn ',' h', h1, h2, isPrefix_join key hk, isPrefix_join key hk]

theorem isHeader_eq_isPrefix (l : Line) : isHeader l = isPrefix ['!'] l := by
  cases l with
  | nil => rfl
  | cons c t =>
    simp only [isHeader, isPrefix, Bool.and_true, List.head?_cons]
    by_cases h : c = '!'
    · subst h; rfl
    · have h' : ¬ ('!' = c) := fun e => h e.symm
      simp [h, h']

theorem isHeader_hdr {h h' : Line} (hr : HdrRel h h') : isHeader h' = true := by
  rw [isHeader_eq_isPrefix, ← isPrefix_hdr ['!'] (by decide) hr, ← isHeader_eq_isPrefix]; exact hr.1

theorem contains_eq_hasSub (c : Char) (l : List Char) : l.contains c = hasSub [c] l := by
  induction l with
  | nil => rfl
  | cons a t ih =>
    rw [List.contains_cons, ih]
    simp only [hasSub, isPrefix, Bool.and_true]

theorem all_isWs_of_header {l : Line} (h : isHeader l = true) : l.all isWs = false := by
  cases l with
  | nil => cases h
  | cons c t =>
    have : c = '!' := by simpa [isHeader] using h
    subst this
    simp [isWs]

theorem ignoreLine_hdr {h h' : Line} (hr : HdrRel h h') : ignoreLine h = ignoreLine h' := by
  unfold ignoreLine
  rw [all_isWs_of_header hr.1, all_isWs_of_header (isHeader_hdr hr), contains_eq_hasSub, contains_eq_hasSub,
    hasSub_hdr ['#'] (by decide) hr]

/-! ### data-line consumers -/
theorem mem_joinSep (sep x : Char) (hx : x ≠ sep) (fs : List (List Char)) :
    x ∈ joinSep sep fs ↔ ∃ f ∈ fs, x ∈ f := by
  induction fs with
  | nil => simp [joinSep]
  | cons f t ih =>
    cases t with
    | nil => simp [joinSep]
    | cons g t =>
      rw [joinSep_cons_ne _ _ _ (by simp), List.mem_append, List.mem_cons, ih]
      constructor
      · rintro (h | h | ⟨f', hf', hx'⟩)
        · exact ⟨f, by simp, h⟩
        · exact absurd h hx
        · exact ⟨f', List.mem_cons_of_mem _ hf', hx'⟩
      · rintro ⟨f', hf', hx'⟩
        rcases List.mem_cons.mp hf' with rfl | hf'
        · exact Or.inl hx'
        · exact Or.inr (Or.inr ⟨f', hf', hx'⟩)

/-- a visible character occurs in a line iff it occurs in one of its trimmed fields -/
theorem mem_line_iff (x : Char) (hx : x ≠ ',') (hw : isWs x = false) (l : Line) :
    x ∈ l ↔ ∃ g ∈ (splitOn ',' l).map trim, x ∈ g := by
  conv_lhs => rw [← joinSep_splitOn ',' l]
  rw [mem_joinSep ',' x hx]
  constructor
  · rintro ⟨f, hf, h⟩; exact ⟨trim f, List.mem_map_of_mem hf, (mem_trim_iff x hw f).mpr h⟩
  · rintro ⟨g, hg, h⟩
    obtain ⟨f, hf, rfl⟩ := List.mem_map.mp hg
    exact ⟨f, hf, (mem_trim_iff x hw f).mp h⟩

theorem allWs_line_iff (l : Line) : AllWs l ↔ (splitOn ',' l).map trim = [[]] := by
  constructor
  · intro h
    have hc : ',' ∉ l := fun m => by have := h ',' m; revert this; decide
    rw [splitOn_noSep ',' l hc, List.map_singleton, (trim_eq_nil_iff l).mpr h]
  · intro h
    obtain ⟨f, r, hfr⟩ := List.exists_cons_of_ne_nil (splitOn_ne_nil ',' l)
    rw [hfr] at h
    simp only [List.map_cons, List.cons.injEq, List.map_eq_nil_iff] at h
    obtain ⟨h1, rfl⟩ := h
    have : l = f := by rw [← joinSep_splitOn ',' l, hfr]; rfl
    rw [this]; exact (trim_eq_nil_iff f).mp h1

theorem ignoreLine_data {l l' : Line} (hr : DataRel l l') : ignoreLine l = ignoreLine l' := by
  obtain ⟨_, _, h⟩ := hr
  unfold ignoreLine
  have h1 : l.contains '#' = l'.contains '#' := by
    rw [Bool.eq_iff_iff, List.contains_iff_mem, List.contains_iff_mem,
      mem_line_iff '#' (by decide) (by decide) l, mem_line_iff '#' (by decide) (by decide) l', h]
  have h2 : l.all isWs = l'.all isWs := by
    rw [Bool.eq_iff_iff, List.all_eq_true, List.all_eq_true]
    exact (allWs_line_iff l).trans (h ▸ (allWs_line_iff l').symm)
  rw [h1, h2]

/-- field parsers that see only `trim` of the field -/
def TrimCongr {α} (f : List Char → α) : Prop := ∀ s s', trim s = trim s' → f s = f s'

theorem parseDec_tc : TrimCongr parseDec := by intro s s' h; unfold parseDec; rw [h]
theorem parseNatTok_tc : TrimCongr parseNatTok := by intro s s' h; unfold parseNatTok; rw [h]
theorem parseIdF_tc : TrimCongr parseIdF := by intro s s' h; unfold parseIdF; rw [parseDec_tc s s' h]

theorem mapM_tc {α} (f : List Char → Option α) (hf : TrimCongr f) :
    ∀ xs ys : List (List Char), xs.map trim = ys.map trim → xs.mapM f = ys.mapM f := by
  intro xs
  induction xs with
  | nil => intro ys h; cases ys with
    | nil => rfl
    | cons y t => simp at h
  | cons x t ih =>
    intro ys h
    cases ys with
    | nil => simp at h
    | cons y u =>
      simp only [List.map_cons, List.cons.injEq] at h
      rw [List.mapM_cons, List.mapM_cons, hf x y h.1, ih u h.2]

theorem parseRowF_data {α} (f : List Char → Option α) (hf : TrimCongr f) {l l' : Line} (hr : DataRel l l') :
    parseRowF f l = parseRowF f l' := by
  obtain ⟨_, _, h⟩ := hr
  obtain ⟨i, fs, h1⟩ := List.exists_cons_of_ne_nil (splitOn_ne_nil ',' l)
  obtain ⟨i', fs', h2⟩ := List.exists_cons_of_ne_nil (splitOn_ne_nil ',' l')
  rw [h1, h2] at h
  simp only [List.map_cons, List.cons.injEq] at h
  unfold parseRowF
  rw [h1, h2]
  simp only
  rw [parseIdF_tc i i' h.1, mapM_tc f hf fs fs' h.2]

theorem parseRowI_data {l l' : Line} (hr : DataRel l l') : parseRowI l = parseRowI l' :=
  mapM_tc parseNatTok parseNatTok_tc _ _ hr.2.2

theorem splitDec_data {l l' : Line} (hr : DataRel l l') :
    (splitOn ',' l).mapM parseDec = (splitOn ',' l').mapM parseDec :=
  mapM_tc parseDec parseDec_tc _ _ hr.2.2

theorem flatSplit_data {d d' : List Line} (hr : List.Forall₂ DataRel d d') :
    (d.flatMap (splitOn ',')).map trim = (d'.flatMap (splitOn ',')).map trim := by
  induction hr with
  | nil => rfl
  | cons h _ ih => simp only [List.flatMap_cons, List.map_append, ih, h.2.2]

/-! ### first character of a data line -/
def headP (p : Char → Bool) (g : List Char) : Bool := match g with | c :: _ => p c | [] => false

theorem startsWithP_eq (p : Char → Bool) (l : Line) : startsWithP p l = headP p (trimLeft l) := by
  unfold startsWithP headP
  split <;> rename_i heq <;> rw [heq]

theorem headP_congr (p : Char → Bool) {g g' : List Char} (h : g.head? = g'.head?) : headP p g = headP p g' := by
  cases g <;> cases g' <;> simp_all [headP]

theorem startsWithP_first (p : Char → Bool) (hp : p ',' = false) (l f0 : List Char) (rest : List (List Char))
    (h : splitOn ',' l = f0 :: rest) : startsWithP p l = headP p (trim f0) := by
  rw [startsWithP_eq]
  rcases split_cases ',' l with ⟨_, h2, _⟩ | ⟨g, v, h1, _, h3, _⟩
  · rw [h2] at h; cases h
    exact headP_congr p (head_trim l).symm
  · rw [h3] at h; cases h
    rcases trimLeft_head f0 with h0 | ⟨c, t, h4, _⟩
    · rw [h1, trimLeft_append_ws _ _ ((trimLeft_eq_nil_iff f0).mp h0), trimLeft_cons_nonws _ _ (by decide),
        trim_of_trimLeft_nil f0 h0]
      simp [headP, hp]
    · rw [h1, trimLeft_append_of_cons f0 _ c t h4, trim_of_trimLeft_cons f0 c t h4]; rfl

theorem startsWithP_data (p : Char → Bool) (hp : p ',' = false) {l l' : Line} (hr : DataRel l l') :
    startsWithP p l = startsWithP p l' := by
  obtain ⟨_, _, h⟩ := hr
  obtain ⟨i, fs, h1⟩ := List.exists_cons_of_ne_nil (splitOn_ne_nil ',' l)
  obtain ⟨i', fs', h2⟩ := List.exists_cons_of_ne_nil (splitOn_ne_nil ',' l')
  rw [startsWithP_first p hp l i fs h1, startsWithP_first p hp l' i' fs' h2]
  rw [h1, h2] at h
  simp only [List.map_cons, List.cons.injEq] at h
  rw [h.1]

end Femio.Fistr.G3
