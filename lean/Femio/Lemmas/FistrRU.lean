import Femio.Model.FistrMsh
import Femio.Model.FistrCanon
import Mathlib.Data.List.Sort
import Mathlib.Data.List.Nodup
import Mathlib.Data.List.Perm.Subperm

/-! `remove_useless_nodes` (`removeUseless`): on a node table with distinct ids, all referenced nodes present and
    nodal tables aligned with the node table, the result is the table re-bound to `np.unique` of the referenced ids
    (`pick`), or the input itself when the two lengths agree. -/
namespace Femio.Fistr.RU
open Femio.Fistr

/- `pick used tbl` (rows of `tbl` re-bound to the ids `used`, in that order) is defined in `Model/FistrCanon.lean`. -/

def refs (elems : List (Nat × List (Nat × List Nat))) : List Nat := elems.flatMap fun b => b.2.flatMap (·.2)

/-! ### 1. `sortNat` is `List.insertionSort (· ≤ ·)` -/

theorem insertNatAsc_eq_orderedInsert (x : Nat) (l : List Nat) :
    insertNatAsc x l = List.orderedInsert (· ≤ ·) x l := by
  induction l with
  | nil => rfl
  | cons y t ih =>
    by_cases h : x ≤ y
    · simp [insertNatAsc, List.orderedInsert, h]
    · simp [insertNatAsc, List.orderedInsert, h, ih]

theorem sortNat_eq_insertionSort (l : List Nat) : sortNat l = List.insertionSort (· ≤ ·) l := by
  induction l with
  | nil => rfl
  | cons x t ih =>
    have : sortNat (x :: t) = insertNatAsc x (sortNat t) := rfl
    rw [this, ih, insertNatAsc_eq_orderedInsert]
    rfl

theorem sortNat_perm (l : List Nat) : (sortNat l).Perm l := by
  rw [sortNat_eq_insertionSort]
  exact List.perm_insertionSort _ l

theorem mem_sortNat (l : List Nat) (i : Nat) : i ∈ sortNat l ↔ i ∈ l :=
  (sortNat_perm l).mem_iff

theorem sortNat_pairwise (l : List Nat) : (sortNat l).Pairwise (· ≤ ·) := by
  rw [sortNat_eq_insertionSort]
  exact List.pairwise_insertionSort _ l

/-! ### 2. `dedupSorted`, `uniqueNat` -/

theorem mem_dedupSorted (l : List Nat) (i : Nat) : i ∈ dedupSorted l ↔ i ∈ l := by
  induction l using dedupSorted.induct with
  | case1 => simp [dedupSorted]
  | case2 x => simp [dedupSorted]
  | case3 y t ih =>
    rw [dedupSorted, if_pos rfl, ih]
    simp
  | case4 x y t hxy ih =>
    rw [dedupSorted, if_neg hxy, List.mem_cons, ih]
    simp

theorem dedupSorted_pairwise (l : List Nat) (h : l.Pairwise (· ≤ ·)) : (dedupSorted l).Pairwise (· < ·) := by
  induction l using dedupSorted.induct with
  | case1 => simp [dedupSorted]
  | case2 x => simp [dedupSorted]
  | case3 y t ih =>
    rw [dedupSorted, if_pos rfl]
    exact ih (List.pairwise_cons.mp h).2
  | case4 x y t hxy ih =>
    rw [dedupSorted, if_neg hxy, List.pairwise_cons]
    have hc := List.pairwise_cons.mp h
    refine ⟨?_, ih hc.2⟩
    intro z hz
    rw [mem_dedupSorted] at hz
    have hxy' : x ≤ y := hc.1 y (by simp)
    have hxy'' : x < y := by omega
    rcases List.mem_cons.mp hz with rfl | hz
    · exact hxy''
    · have := (List.pairwise_cons.mp hc.2).1 z hz
      omega

theorem mem_uniqueNat (l : List Nat) (i : Nat) : i ∈ uniqueNat l ↔ i ∈ l := by
  unfold uniqueNat
  rw [mem_dedupSorted, mem_sortNat]

theorem uniqueNat_pairwise (l : List Nat) : (uniqueNat l).Pairwise (· < ·) :=
  dedupSorted_pairwise _ (sortNat_pairwise l)

theorem uniqueNat_nodup (l : List Nat) : (uniqueNat l).Nodup :=
  (uniqueNat_pairwise l).imp (fun h => Nat.ne_of_lt h)

/-- a strictly ascending list is a fixed point of `sortNat` -/
theorem sortNat_of_pairwise_lt (l : List Nat) (h : l.Pairwise (· < ·)) : sortNat l = l :=
  (sortNat_perm l).eq_of_pairwise' (r := (· ≤ ·)) (sortNat_pairwise l) (h.imp (fun h => Nat.le_of_lt h))

/-- two strictly ascending lists with the same members are equal -/
theorem eq_of_pairwise_lt_of_mem_iff (l₁ l₂ : List Nat) (h₁ : l₁.Pairwise (· < ·)) (h₂ : l₂.Pairwise (· < ·))
    (h : ∀ i, i ∈ l₁ ↔ i ∈ l₂) : l₁ = l₂ :=
  List.Pairwise.eq_of_mem_iff h₁ h₂ h

/-! ### 3. `lookupN`, `pick` -/

theorem lookupN_some_mem {β} (i : Nat) (tbl : List (Nat × β)) (v : β) (h : lookupN i tbl = some v) :
    (i, v) ∈ tbl := by
  induction tbl with
  | nil => simp [lookupN] at h
  | cons a t ih =>
    obtain ⟨a, b⟩ := a
    by_cases hak : a = i
    · simp only [lookupN, if_pos hak, Option.some.injEq] at h
      subst hak; subst h; simp
    · simp only [lookupN, if_neg hak] at h
      exact List.mem_cons_of_mem _ (ih h)

theorem lookupN_of_mem_nodup {β} (i : Nat) (tbl : List (Nat × β)) (v : β) (hk : (tbl.map (·.1)).Nodup)
    (h : (i, v) ∈ tbl) : lookupN i tbl = some v := by
  induction tbl with
  | nil => simp at h
  | cons a t ih =>
    obtain ⟨a, b⟩ := a
    simp only [List.map_cons, List.nodup_cons] at hk
    rcases List.mem_cons.mp h with heq | hm
    · cases heq
      simp [lookupN]
    · have hak : a ≠ i := by
        rintro rfl
        exact hk.1 (List.mem_map.mpr ⟨(a, v), hm, rfl⟩)
      simp only [lookupN, if_neg hak]
      exact ih hk.2 hm

theorem lookupN_eq_some_iff {β} (i : Nat) (tbl : List (Nat × β)) (v : β) (hk : (tbl.map (·.1)).Nodup) :
    lookupN i tbl = some v ↔ (i, v) ∈ tbl :=
  ⟨lookupN_some_mem i tbl v, lookupN_of_mem_nodup i tbl v hk⟩

theorem mem_pick {β} (used : List Nat) (tbl : List (Nat × β)) (hk : (tbl.map (·.1)).Nodup) (i : Nat) (v : β) :
    (i, v) ∈ pick used tbl ↔ i ∈ used ∧ (i, v) ∈ tbl := by
  unfold pick
  rw [List.mem_filterMap]
  constructor
  · rintro ⟨j, hj, hjv⟩
    rw [Option.map_eq_some_iff] at hjv
    obtain ⟨w, hw, heq⟩ := hjv
    cases heq
    exact ⟨hj, lookupN_some_mem _ _ _ hw⟩
  · rintro ⟨hi, hm⟩
    exact ⟨i, hi, by rw [lookupN_of_mem_nodup i tbl v hk hm]; rfl⟩

theorem pick_nil {β} (tbl : List (Nat × β)) : pick [] tbl = [] := rfl

theorem pick_cons_of_lookup {β} (i : Nat) (us : List Nat) (tbl : List (Nat × β)) (v : β)
    (h : lookupN i tbl = some v) : pick (i :: us) tbl = (i, v) :: pick us tbl := by
  unfold pick
  rw [List.filterMap_cons, h]
  rfl

/-! ### 4. positions -/

/-- `posOf` finds the first row with the given id, and so does `lookupN` -/
theorem posOf_getElem {β} (tbl : List (Nat × β)) (i k : Nat) (h : posOf (tbl.map (·.1)) i = some k) :
    ∃ c, tbl[k]? = some (i, c) ∧ lookupN i tbl = some c := by
  induction tbl generalizing k with
  | nil => simp [posOf] at h
  | cons a t ih =>
    obtain ⟨a, b⟩ := a
    by_cases hai : a = i
    · simp only [List.map_cons, posOf, if_pos hai, Option.some.injEq] at h
      subst h; subst hai
      exact ⟨b, by simp, by simp [lookupN]⟩
    · simp only [List.map_cons, posOf, if_neg hai, Option.map_eq_some_iff] at h
      obtain ⟨k', hk', rfl⟩ := h
      obtain ⟨c, hc1, hc2⟩ := ih k' hk'
      exact ⟨c, by simpa using hc1, by simp [lookupN, hai, hc2]⟩

theorem posOf_isSome (ids : List Nat) (i : Nat) (h : i ∈ ids) : ∃ k, posOf ids i = some k := by
  induction ids with
  | nil => simp at h
  | cons a t ih =>
    by_cases hai : a = i
    · exact ⟨0, by simp [posOf, hai]⟩
    · have : i ∈ t := by
        rcases List.mem_cons.mp h with rfl | h
        · exact absurd rfl hai
        · exact h
      obtain ⟨k, hk⟩ := ih this
      exact ⟨k + 1, by simp [posOf, hai, hk]⟩

theorem mapM_posOf_isSome (ids us : List Nat) (h : ∀ i ∈ us, i ∈ ids) : ∃ idx, us.mapM (posOf ids) = some idx := by
  induction us with
  | nil => exact ⟨[], rfl⟩
  | cons i t ih =>
    obtain ⟨k, hk⟩ := posOf_isSome ids i (h i (by simp))
    obtain ⟨idx, hidx⟩ := ih (fun j hj => h j (List.mem_cons_of_mem _ hj))
    exact ⟨k :: idx, by simp [List.mapM_cons, hk, hidx]⟩

/-- picking rows by position = `pick` -/
theorem mapM_getElem_of_posOf {β} (tbl : List (Nat × β)) (us idx : List Nat)
    (h : us.mapM (posOf (tbl.map (·.1))) = some idx) :
    idx.mapM (fun k => tbl[k]?) = some (pick us tbl) ∧ (pick us tbl).map (·.1) = us := by
  induction us generalizing idx with
  | nil =>
    simp only [List.mapM_nil] at h
    cases h
    exact ⟨rfl, rfl⟩
  | cons i t ih =>
    simp only [List.mapM_cons] at h
    cases hk : posOf (tbl.map (·.1)) i with
    | none => simp [hk] at h
    | some k =>
      cases ht : t.mapM (posOf (tbl.map (·.1))) with
      | none => simp [hk, ht] at h
      | some idx' =>
        simp [hk, ht] at h
        subst h
        obtain ⟨c, hc1, hc2⟩ := posOf_getElem tbl i k hk
        obtain ⟨ih1, ih2⟩ := ih idx' ht
        rw [pick_cons_of_lookup i t tbl c hc2]
        refine ⟨?_, by simp [ih2]⟩
        simp [List.mapM_cons, hc1, ih1]

theorem mapM_map_snd {α β} (f : Nat → Option (α × β)) (idx : List Nat) (l : List (α × β))
    (h : idx.mapM f = some l) : idx.mapM (fun k => (f k).map (·.2)) = some (l.map (·.2)) := by
  induction idx generalizing l with
  | nil =>
    simp only [List.mapM_nil] at h
    cases h; rfl
  | cons k t ih =>
    simp only [List.mapM_cons] at h
    cases hk : f k with
    | none => simp [hk] at h
    | some a =>
      cases ht : t.mapM f with
      | none => simp [hk, ht] at h
      | some l' =>
        simp [hk, ht] at h
        subst h
        simp [List.mapM_cons, hk, ih l' ht]

theorem mapM_of_forall_mem {α β} (f : α → Option β) (g : α → β) (l : List α) (h : ∀ a ∈ l, f a = some (g a)) :
    l.mapM f = some (l.map g) := by
  induction l with
  | nil => rfl
  | cons a t ih =>
    simp [List.mapM_cons, h a (by simp), ih (fun b hb => h b (List.mem_cons_of_mem _ hb))]

/-! ### 5. the specification -/

/-- the per-table step of `removeUseless` -/
def nodalStep (used idx : List Nat) (p : Name × List (Nat × List Dec)) : Option (Name × List (Nat × List Dec)) := do
  let data ← idx.mapM fun k => (p.2[k]?).map (·.2)
  pure (p.1, used.zip data)

theorem nodalStep_eq (ids used idx : List Nat) (p : Name × List (Nat × List Dec))
    (hal : p.2.map (·.1) = ids) (h : used.mapM (posOf ids) = some idx) :
    nodalStep used idx p = some (p.1, pick used p.2) := by
  subst hal
  obtain ⟨h1, h2⟩ := mapM_getElem_of_posOf p.2 used idx h
  have h3 := mapM_map_snd (fun k => p.2[k]?) idx _ h1
  unfold nodalStep
  rw [h3]
  have : used.zip ((pick used p.2).map (·.2)) = pick used p.2 := (List.zip_of_prod h2 rfl).symm
  simp [this]

/-- the specification without the distinct-ids hypothesis: `posOf` and `lookupN` both take the FIRST row with a
    given id, and in the equal-length branch distinctness of the ids follows from the count -/
theorem removeUseless_spec_gen (nodes : List (Nat × List Dec)) (elems : List (Nat × List (Nat × List Nat)))
    (nodal : List (Name × List (Nat × List Dec)))
    (href : ∀ i ∈ refs elems, i ∈ nodes.map (·.1))
    (hal : ∀ p ∈ nodal, p.2.map (·.1) = nodes.map (·.1)) :
    removeUseless nodes elems nodal =
      if nodes.length = (uniqueNat (refs elems)).length then some (nodes, nodal)
      else some (pick (uniqueNat (refs elems)) nodes,
        nodal.map fun p => (p.1, pick (uniqueNat (refs elems)) p.2)) := by
  have hsub : ∀ i ∈ uniqueNat (refs elems), i ∈ nodes.map (·.1) := fun i hi =>
    href i ((mem_uniqueNat _ i).mp hi)
  unfold removeUseless
  dsimp only
  change (if (nodes.map (·.1)).length = (uniqueNat (refs elems)).length then _ else _) = _
  rw [List.length_map]
  by_cases hlen : nodes.length = (uniqueNat (refs elems)).length
  · rw [if_pos hlen, if_pos hlen]
    have hperm : (uniqueNat (refs elems)).Perm (nodes.map (·.1)) :=
      (List.subperm_of_subset (uniqueNat_nodup _) hsub).perm_of_length_le (by simp [hlen])
    have heq : uniqueNat (refs elems) = sortNat (nodes.map (·.1)) :=
      (hperm.trans (sortNat_perm _).symm).eq_of_pairwise' (r := (· ≤ ·))
        ((uniqueNat_pairwise _).imp (fun h => Nat.le_of_lt h)) (sortNat_pairwise _)
    exact if_pos heq
  · rw [if_neg hlen, if_neg hlen]
    obtain ⟨idx, hidx⟩ := mapM_posOf_isSome (nodes.map (·.1)) (uniqueNat (refs elems)) hsub
    obtain ⟨h1, -⟩ := mapM_getElem_of_posOf nodes _ idx hidx
    have h2 : nodal.mapM (nodalStep (uniqueNat (refs elems)) idx) =
        some (nodal.map fun p => (p.1, pick (uniqueNat (refs elems)) p.2)) :=
      mapM_of_forall_mem _ _ nodal (fun p hp => nodalStep_eq _ _ idx p (hal p hp) hidx)
    change (do
      let idx ← (uniqueNat (refs elems)).mapM (posOf (nodes.map Prod.fst))
      let nodes' ← idx.mapM fun k => nodes[k]?
      let nodal' ← nodal.mapM (nodalStep (uniqueNat (refs elems)) idx)
      pure (nodes', nodal')) = _
    rw [hidx]
    simp only [Option.bind_eq_bind, Option.bind_some, h1, h2]
    rfl

/-- MAIN: `remove_useless_nodes` on a table with distinct node ids, all referenced nodes present, and nodal tables
    aligned with the node table -/
theorem removeUseless_spec (nodes : List (Nat × List Dec)) (elems : List (Nat × List (Nat × List Nat)))
    (nodal : List (Name × List (Nat × List Dec)))
    (_ : (nodes.map (·.1)).Nodup)
    (href : ∀ i ∈ refs elems, i ∈ nodes.map (·.1))
    (hal : ∀ p ∈ nodal, p.2.map (·.1) = nodes.map (·.1)) :
    removeUseless nodes elems nodal =
      if nodes.length = (uniqueNat (refs elems)).length then some (nodes, nodal)
      else some (pick (uniqueNat (refs elems)) nodes,
        nodal.map fun p => (p.1, pick (uniqueNat (refs elems)) p.2)) :=
  removeUseless_spec_gen nodes elems nodal href hal

/-- in the "nothing to remove" branch the referenced ids are a permutation of the node ids -/
theorem uniqueNat_perm_of_length_eq (nodes : List (Nat × List Dec)) (elems : List (Nat × List (Nat × List Nat)))
    (href : ∀ i ∈ refs elems, i ∈ nodes.map (·.1))
    (hlen : nodes.length = (uniqueNat (refs elems)).length) :
    (uniqueNat (refs elems)).Perm (nodes.map (·.1)) :=
  (List.subperm_of_subset (uniqueNat_nodup _)
    (fun i hi => href i ((mem_uniqueNat _ i).mp hi))).perm_of_length_le (by simp [hlen])

/-- in the "nothing to remove" branch every node is referenced -/
theorem all_used_of_length_eq (nodes : List (Nat × List Dec)) (elems : List (Nat × List (Nat × List Nat)))
    (_ : (nodes.map (·.1)).Nodup) (href : ∀ i ∈ refs elems, i ∈ nodes.map (·.1))
    (hlen : nodes.length = (uniqueNat (refs elems)).length) : ∀ i ∈ nodes.map (·.1), i ∈ refs elems :=
  fun i hi => (mem_uniqueNat _ i).mp ((uniqueNat_perm_of_length_eq nodes elems href hlen).mem_iff.mpr hi)

/-- in the "nothing to remove" branch the node ids are distinct and `np.unique` of the references is the sorted
    id column -/
theorem uniqueNat_eq_sortNat_of_length_eq (nodes : List (Nat × List Dec)) (elems : List (Nat × List (Nat × List Nat)))
    (href : ∀ i ∈ refs elems, i ∈ nodes.map (·.1))
    (hlen : nodes.length = (uniqueNat (refs elems)).length) :
    (nodes.map (·.1)).Nodup ∧ uniqueNat (refs elems) = sortNat (nodes.map (·.1)) := by
  have hperm := uniqueNat_perm_of_length_eq nodes elems href hlen
  exact ⟨hperm.nodup_iff.mp (uniqueNat_nodup _),
    (hperm.trans (sortNat_perm _).symm).eq_of_pairwise' (r := (· ≤ ·))
      ((uniqueNat_pairwise _).imp (fun h => Nat.le_of_lt h)) (sortNat_pairwise _)⟩


end Femio.Fistr.RU
