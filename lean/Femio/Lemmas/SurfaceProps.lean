import Femio.Model.Faces
import Femio.Lemmas.Boundary

open Faces

def Bal (es : List (Nat × Nat)) : Prop := ∀ e : Nat × Nat, es.count e = es.count (e.2, e.1)

theorem balB_sound (es : List (Nat × Nat)) (h : balB es = true) : Bal es := by
  intro e
  simp only [balB, List.all_eq_true, beq_iff_eq] at h
  by_cases he : e ∈ es
  · exact h e he
  · by_cases he' : (e.2, e.1) ∈ es
    · have := h _ he'
      simp only at this
      rw [this]
    · rw [List.count_eq_zero.mpr he, List.count_eq_zero.mpr he']

/-- weight of a face for a fixed directed edge `e`: (#e − #ē) -/
def wt (e : Nat × Nat) (f : Face) : ℤ := ((dirEdges f).count e : ℤ) - ((dirEdges f).count (e.2, e.1) : ℤ)

theorem sum_wt (e : Nat × Nat) (fs : List Face) :
    (fs.map (wt e)).sum = ((edgesOf fs).count e : ℤ) - ((edgesOf fs).count (e.2, e.1) : ℤ) := by
  induction fs with
  | nil => simp [edgesOf]
  | cons f t ih =>
    simp only [List.map_cons, List.sum_cons, ih, edgesOf, List.flatMap_cons, List.count_append, wt]
    push_cast; ring

theorem fiber_eq (fs : List Face) (k : List Nat) : fiber key fs k = fiberB fs k := by
  unfold fiber fiberB
  apply List.filter_congr
  intro f _
  by_cases h : key f = k <;> simp [h]

theorem boundary_eq (fs : List Face) : boundary key fs = boundaryB fs := by
  unfold boundary boundaryB
  apply List.filter_congr
  intro f _
  rw [fiber_eq]
  by_cases h : (fiberB fs (key f)).length = 1 <;> simp [h]

/-- **C10_closed**: if every element is closed (the edges of all faces are balanced) and the mesh is
    conforming (Boolean check), the extracted surface is closed: each directed edge of the boundary
    occurs as often as its reverse. -/
theorem surface_closed (fs : List Face) (hall : balB (edgesOf fs) = true) (hconf : conformingB fs = true) :
    Bal (edgesOf (boundaryB fs)) := by
  intro e
  have hA := balB_sound _ hall e
  have key1 : ((boundary key fs).map (wt e)).sum = 0 := by
    apply boundary_sum_zero key (wt e) fs
    · rw [sum_wt]; rw [hA]; simp
    · intro k hk
      rw [sum_wt, fiber_eq]
      rw [fiber_eq] at hk
      -- a non-singleton fibre: if empty trivial, else pick a face in it and use the conformity check
      cases hfb : fiberB fs k with
      | nil => simp [edgesOf]
      | cons f0 rest =>
        have hf0 : f0 ∈ fiberB fs k := by rw [hfb]; simp
        have hf0' : f0 ∈ fs ∧ key f0 = k := by
          simpa [fiberB] using hf0
        simp only [conformingB, List.all_eq_true, Bool.or_eq_true, beq_iff_eq] at hconf
        have := hconf f0 hf0'.1
        rw [hf0'.2] at this
        rcases this with h1 | hb
        · exact absurd h1 hk
        · rw [← hfb]
          have := balB_sound _ hb e
          rw [this]; simp
  rw [boundary_eq, sum_wt] at key1
  have : ((edgesOf (boundaryB fs)).count e : ℤ) = ((edgesOf (boundaryB fs)).count (e.2, e.1) : ℤ) := by linarith
  exact_mod_cast this

/-- non-vacuity: two tets glued along a face (femio's own face table, ids 0..4) -/
def twoTets : List Face :=
  [[0,2,1],[0,1,3],[1,2,3],[0,3,2],   -- tet (0,1,2,3)
   [1,3,2],[1,2,4],[2,3,4],[1,4,3]]   -- tet (1,2,3,4) mirrored: shares {1,2,3} with opposite orientation
example : balB (edgesOf twoTets) = true ∧ conformingB twoTets = true ∧ (boundaryB twoTets).length = 6 := by decide

#print axioms surface_closed
