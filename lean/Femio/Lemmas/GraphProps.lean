import Femio.Model.Graph
import Mathlib.Tactic.Linarith
import Mathlib.Logic.Basic

open Graph

/-- walks of exact length `k ≥ 1` inside `{0..n-1}` -/
inductive Walk (n : Nat) (A : BMat) : Nat → Nat → Nat → Prop
  | one {i j} : A i j = true → Walk n A 1 i j
  | snoc {k i m j} : Walk n A k i m → m < n → A m j = true → Walk n A (k + 1) i j

theorem mul_true (n : Nat) (A B : BMat) (i j : Nat) :
    mul n A B i j = true ↔ ∃ k, k < n ∧ A i k = true ∧ B k j = true := by
  simp [mul, List.any_eq_true, List.mem_range]

theorem pow_walk (n : Nat) (A : BMat) (h : Nat) (i j : Nat) :
    (nHopAux n A h).2 i j = true ↔ Walk n A (h + 1) i j := by
  induction h generalizing j with
  | zero =>
    simp only [nHopAux]
    constructor
    · intro hA; exact Walk.one hA
    · intro w; cases w with
      | one hA => exact hA
      | snoc w' _ _ => cases w'
  | succ h ih =>
    simp only [nHopAux]
    rw [mul_true]
    constructor
    · rintro ⟨m, hm, hp, ha⟩
      exact Walk.snoc ((ih m).mp hp) hm ha
    · intro w
      cases w with
      | snoc w' hm ha => exact ⟨_, hm, (ih _).mpr w', ha⟩

theorem ret_walk (n : Nat) (A : BMat) (h : Nat) (i j : Nat) :
    (nHopAux n A h).1 i j = true ↔ ∃ k, 1 ≤ k ∧ k ≤ h + 1 ∧ Walk n A k i j := by
  induction h with
  | zero =>
    simp only [nHopAux]
    constructor
    · intro hA; exact ⟨1, le_refl _, le_refl _, Walk.one hA⟩
    · rintro ⟨k, h1, h2, w⟩
      have : k = 1 := by omega
      subst this
      cases w with
      | one hA => exact hA
      | snoc w' _ _ => cases w'
  | succ h ih =>
    have hp := pow_walk n A (h + 1) i j
    simp only [nHopAux] at hp ⊢
    simp only [add, Bool.or_eq_true]
    constructor
    · rintro (hr | hpw)
      · obtain ⟨k, h1, h2, w⟩ := ih.mp hr
        exact ⟨k, h1, by omega, w⟩
      · exact ⟨h + 2, by omega, by omega, hp.mp hpw⟩
    · rintro ⟨k, h1, h2, w⟩
      by_cases hk : k ≤ h + 1
      · exact Or.inl (ih.mpr ⟨k, h1, hk, w⟩)
      · have : k = h + 2 := by omega
        subst this
        exact Or.inr (hp.mpr w)

/-- **C13_nhop_reach**: the n-hop adjacency is reachability within `hops` steps. -/
theorem nHop_reach (n : Nat) (A : BMat) (hops : Nat) (hh : 1 ≤ hops) (i j : Nat) :
    nHop n A hops i j = true ↔ ∃ k, 1 ≤ k ∧ k ≤ hops ∧ Walk n A k i j := by
  unfold nHop
  rw [ret_walk]
  have : hops - 1 + 1 = hops := by omega
  rw [this]

#print axioms nHop_reach
