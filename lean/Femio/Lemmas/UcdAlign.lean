import Femio.Model.UcdFem
import Femio.Lemmas.UcdProps

/-! C04 — the repaired writer (`Cfg.fixed`: rows looked up by id, `FEMWriter._align_data`) followed by the reader's
    column slicing returns every variable as the id-keyed table it was, whatever private row order it had. -/
namespace Femio.C04
open Ucd

variable {V : Type}

/-- a variable the writer accepts next to the id list `meshIds`: its own ids are a permutation of them (any order),
    one row per id, every row as wide as the variable, at least one column -/
structure VarOK (meshIds : List Nat) (v : VarTab V) : Prop where
  perm : v.ids.Perm meshIds
  rows : v.rows.length = v.ids.length
  width : ∀ r ∈ v.rows, r.length = v.width
  pos : 0 < v.width

theorem nodupB_iff (l : List Nat) : nodupB l = true ↔ l.Nodup := by
  induction l with
  | nil => simp [nodupB]
  | cons a t ih => simp [nodupB, ih]

theorem varOKB_iff (meshIds : List Nat) (v : VarTab V) : varOKB meshIds v = true ↔ VarOK meshIds v := by
  constructor
  · intro h
    simp only [varOKB, Bool.and_eq_true, List.isPerm_iff, beq_iff_eq, List.all_eq_true, decide_eq_true_eq] at h
    exact ⟨h.1.1.1, h.1.1.2, h.1.2, h.2⟩
  · intro h
    simp only [varOKB, Bool.and_eq_true, List.isPerm_iff, beq_iff_eq, List.all_eq_true, decide_eq_true_eq]
    exact ⟨⟨⟨h.perm, h.rows⟩, h.width⟩, h.pos⟩

/-! ### lookup in an id-keyed table without repeated ids -/
theorem map_lookup_self (ids : List Nat) (rows : List (List V)) (hnd : ids.Nodup) (hl : rows.length = ids.length) :
    ids.map (fun i => (i, ((ids.zip rows).lookup i).getD [])) = ids.zip rows := by
  induction ids generalizing rows with
  | nil => simp
  | cons i t ih =>
    cases rows with
    | nil => simp at hl
    | cons r rs =>
      have hnd' := List.nodup_cons.mp hnd
      have htail : t.map (fun j => (j, (((i :: t).zip (r :: rs)).lookup j).getD []))
          = t.map (fun j => (j, ((t.zip rs).lookup j).getD [])) := by
        apply List.map_congr_left
        intro j hj
        have : (j == i) = false := by
          rw [beq_eq_false_iff_ne]; rintro rfl; exact hnd'.1 hj
        simp [List.lookup_cons, this]
      rw [List.map_cons, htail, ih rs hnd'.2 (by simpa using hl)]
      simp [List.lookup_cons]

theorem lookup_own (ids : List Nat) (rows : List (List V)) (hnd : ids.Nodup) (hl : rows.length = ids.length)
    (k : Nat) (hk : k < ids.length) :
    (ids.zip rows).lookup ids[k] = some (rows[k]'(by omega)) := by
  induction ids generalizing rows k with
  | nil => simp at hk
  | cons i t ih =>
    cases rows with
    | nil => simp at hl
    | cons r rs =>
      have hnd' := List.nodup_cons.mp hnd
      cases k with
      | zero => simp [List.lookup_cons]
      | succ k =>
        have hk' : k < t.length := by simpa using hk
        have : (t[k] == i) = false := by
          rw [beq_eq_false_iff_ne]; intro e; exact hnd'.1 (e ▸ List.getElem_mem hk')
        simp only [List.zip_cons_cons, List.getElem_cons_succ, List.lookup_cons, this]
        exact ih rs hnd'.2 (by simpa using hl) k hk'

theorem lookup_map_pair (l : List Nat) (g : Nat → List V) (i : Nat) (hi : i ∈ l) :
    (l.map fun j => (j, g j)).lookup i = some (g i) := by
  induction l with
  | nil => simp at hi
  | cons a t ih =>
    simp only [List.map_cons, List.lookup_cons]
    by_cases h : i = a
    · subst h; simp
    · have : (i == a) = false := by simpa using h
      simp only [this]
      exact ih (by simpa [h] using hi)

theorem zip_map_self (l : List Nat) (g : Nat → List V) : l.zip (l.map g) = l.map fun i => (i, g i) := by
  induction l with
  | nil => rfl
  | cons a t ih => simp [ih]

/-- what the aligned table is: the mesh's id order; as a set of (id, row) pairs the variable's own table; under
    every id the row the variable had for it -/
theorem alignedTab_spec (meshIds : List Nat) (v : VarTab V) (hnd : meshIds.Nodup) (hv : VarOK meshIds v) :
    (alignedTab meshIds v).ids = meshIds ∧ (alignedTab meshIds v).rows.length = meshIds.length ∧
    ((alignedTab meshIds v).ids.zip (alignedTab meshIds v).rows).Perm (v.ids.zip v.rows) ∧
    ∀ (k : Nat) (hk : k < v.ids.length),
      ((alignedTab meshIds v).ids.zip (alignedTab meshIds v).rows).lookup v.ids[k]
        = some (v.rows[k]'(by rw [hv.rows]; exact hk)) := by
  have hvnd : v.ids.Nodup := hv.perm.nodup_iff.mpr hnd
  have hzip : (alignedTab meshIds v).ids.zip (alignedTab meshIds v).rows
      = meshIds.map fun i => (i, ((v.ids.zip v.rows).lookup i).getD []) := by
    simp only [alignedTab, rowsFor, Cfg.fixed, if_true]
    exact zip_map_self meshIds _
  refine ⟨rfl, by simp [alignedTab, rowsFor, Cfg.fixed], ?_, ?_⟩
  · rw [hzip]
    have := (hv.perm.symm).map (fun i => (i, ((v.ids.zip v.rows).lookup i).getD []))
    rwa [map_lookup_self v.ids v.rows hvnd hv.rows] at this
  · intro k hk
    rw [hzip, lookup_map_pair meshIds _ _ (hv.perm.subset (List.getElem_mem hk)), lookup_own v.ids v.rows hvnd hv.rows k hk]
    rfl

theorem lookup_mem_rows (ids : List Nat) (rows : List (List V)) (hl : rows.length = ids.length) (i : Nat) (hi : i ∈ ids) :
    ∃ r ∈ rows, (ids.zip rows).lookup i = some r := by
  induction ids generalizing rows with
  | nil => simp at hi
  | cons a t ih =>
    cases rows with
    | nil => simp at hl
    | cons r rs =>
      by_cases h : i = a
      · subst h; exact ⟨r, by simp, by simp [List.lookup_cons]⟩
      · have hb : (i == a) = false := by simpa using h
        obtain ⟨r', hr', hl'⟩ := ih rs (by simpa using hl) (by simpa [h] using hi)
        exact ⟨r', by simp [hr'], by simp [List.lookup_cons, hb, hl']⟩

/-- every row of the aligned table has the variable's width -/
theorem rowsFor_width (meshIds : List Nat) (v : VarTab V) (hv : VarOK meshIds v) :
    ∀ r ∈ rowsFor Cfg.fixed meshIds v, r.length = v.width := by
  intro r hr
  simp only [rowsFor, Cfg.fixed, if_true, List.mem_map] at hr
  obtain ⟨i, hi, rfl⟩ := hr
  obtain ⟨r, hr, hl⟩ := lookup_mem_rows v.ids v.rows hv.rows i (hv.perm.symm.subset hi)
  rw [hl]; exact hv.width r hr

theorem rowsFor_length (meshIds : List Nat) (v : VarTab V) : (rowsFor Cfg.fixed meshIds v).length = meshIds.length := by
  simp [rowsFor, Cfg.fixed]

/-! ### the reader's column slicing undoes the writer's `np.concatenate(axis=1)` -/
def rowAt (tabs : List (List (List V))) (k : Nat) : List V := tabs.flatMap fun rows => (rows[k]?).getD []

theorem catRows_eq (tabs : List (List (List V))) (n : Nat) : catRows tabs n = (List.range n).map (rowAt tabs) := rfl

theorem range_map_getD (l : List (List V)) (n : Nat) (h : l.length = n) :
    (List.range n).map (fun k => (l[k]?).getD []) = l := by
  subst h
  apply List.ext_getElem
  · simp
  · intro k h1 h2
    simp at h1
    simp [h1]

theorem map_fst_zip' {α β : Type} (a : List α) (b : List β) (h : a.length = b.length) : (a.zip b).map (·.1) = a := by
  induction a generalizing b with
  | nil => simp
  | cons x t ih => cases b with
    | nil => simp at h
    | cons y u => simp [ih u (by simpa using h)]

theorem map_snd_zip' {α β γ : Type} (g : β → γ) (a : List α) (b : List β) (h : a.length = b.length) :
    (a.zip b).map (fun r => g r.2) = b.map g := by
  induction a generalizing b with
  | nil => cases b with
    | nil => rfl
    | cons y u => simp at h
  | cons x t ih => cases b with
    | nil => simp at h
    | cons y u => simp [ih u (by simpa using h)]

def toVar (v : VarTab V) : Var := ⟨v.name, v.width⟩

/-- with `off` columns `P k` in front of row `k`, the tables cut out for `vs` are the tables `T v` that were
    concatenated -/
theorem tablesFrom_cat (ids : List Nat) (T : VarTab V → List (List V)) (vs : List (VarTab V))
    (hlen : ∀ v ∈ vs, (T v).length = ids.length)
    (hw : ∀ v ∈ vs, ∀ r ∈ T v, r.length = v.width) :
    ∀ (off : Nat) (P : Nat → List V), (∀ k, k < ids.length → (P k).length = off) →
      tablesFrom (ids.zip ((List.range ids.length).map fun k => P k ++ rowAt (vs.map T) k)) off (vs.map toVar)
        = vs.map fun v => ⟨v.name, v.width, ids, T v⟩ := by
  induction vs with
  | nil => intro off P _; rfl
  | cons v vs ih =>
    intro off P hP
    have hTl := hlen v (by simp)
    have hrow : ∀ k, k < ids.length → ((T v)[k]?).getD [] ∈ T v := by
      intro k hk
      have : k < (T v).length := by omega
      simp [this]
    simp only [List.map_cons, tablesFrom, toVar]
    congr 1
    · congr 1
      · exact map_fst_zip' _ _ (by simp)
      · rw [map_snd_zip' (fun r : List V => (r.drop off).take v.width) _ _ (by simp), List.map_map]
        conv => rhs; rw [← range_map_getD (T v) ids.length hTl]
        apply List.map_congr_left
        intro k hk
        have hk' : k < ids.length := by simpa using hk
        have h1 := hP k hk'
        have h2 := hw v (by simp) _ (hrow k hk')
        simp only [Function.comp, rowAt, List.map_cons, List.flatMap_cons]
        rw [List.drop_append_of_le_length (by omega), List.drop_of_length_le (by omega), List.nil_append,
          List.take_append_of_le_length (by omega), List.take_of_length_le (by omega)]
    · have := ih (fun x hx => hlen x (by simp [hx])) (fun x hx => hw x (by simp [hx])) (off + v.width)
        (fun k => P k ++ ((T v)[k]?).getD [])
        (by
          intro k hk
          simp [hP k hk, hw v (by simp) _ (hrow k hk)])
      have hfun : (fun k => P k ++ rowAt (T v :: vs.map T) k) = fun k => (P k ++ ((T v)[k]?).getD []) ++ rowAt (vs.map T) k := by
        funext k; simp [rowAt, List.flatMap_cons]
      rw [hfun]
      exact this

theorem sumW_pos_of (vs : List (VarTab V)) (hne : vs ≠ []) (hp : ∀ v ∈ vs, 0 < v.width) : sumW (vs.map toVar) ≠ 0 := by
  cases vs with
  | nil => exact absurd rfl hne
  | cons a t =>
    have := hp a (by simp)
    simp [sumW, toVar]; omega

/-- reading the tables back from the rows the repaired writer emitted next to `ids` -/
theorem readTables_aligned (ids : List Nat) (vs : List (VarTab V)) (hv : ∀ v ∈ vs, VarOK ids v) :
    readTables (expData (vs.map toVar) (ids.zip (catRows (vs.map (rowsFor Cfg.fixed ids)) ids.length))).1
      (expData (vs.map toVar) (ids.zip (catRows (vs.map (rowsFor Cfg.fixed ids)) ids.length))).2
      = vs.map (alignedTab ids) := by
  by_cases hne : vs = []
  · subst hne; simp [expData, sumW, readTables, tablesFrom]
  · have hs := sumW_pos_of vs hne (fun v h => (hv v h).pos)
    simp only [expData, hs, if_false, readTables, catRows_eq]
    have := tablesFrom_cat ids (rowsFor Cfg.fixed ids) vs (fun v _ => rowsFor_length ids v)
      (fun v h => rowsFor_width ids v (hv v h)) 0 (fun _ => []) (by simp)
    have h2 : (fun k => ([] : List V) ++ rowAt (vs.map (rowsFor Cfg.fixed ids)) k) = rowAt (vs.map (rowsFor Cfg.fixed ids)) := by
      funext k; simp
    rw [h2] at this
    exact this

end Femio.C04
