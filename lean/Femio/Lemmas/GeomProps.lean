import Femio.Model.Geom
import Mathlib.Tactic.Ring
import Mathlib.Tactic.LinearCombination

open V3 Geom

variable {R : Type} [CommRing R]

/-- 3×3 matrix as 9 scalars, acting on V3 -/
structure M3 (R : Type) where
  a : R
  b : R
  c : R
  d : R
  e : R
  f : R
  g : R
  h : R
  i : R

def M3.app (m : M3 R) (v : V3 R) : V3 R :=
  ⟨m.a * v.x + m.b * v.y + m.c * v.z, m.d * v.x + m.e * v.y + m.f * v.z, m.g * v.x + m.h * v.y + m.i * v.z⟩
def M3.det (m : M3 R) : R :=
  m.a * (m.e * m.i - m.f * m.h) - m.b * (m.d * m.i - m.f * m.g) + m.c * (m.d * m.h - m.e * m.g)

macro "geom_unfold" : tactic =>
  `(tactic| simp only [tet6, hexLin6, hexC24, quadC4, pyrLin6, pyrC24, prismLin6, prismC24, hexprism6,
      triCross, quadCrossC, fluxTri6, V3.det, V3.sub, V3.add, V3.smul, V3.cross, V3.dot, V3.normSq,
      M3.app, M3.det])

theorem tet6_linear (m : M3 R) (p0 p1 p2 p3 : V3 R) :
    tet6 (m.app p0) (m.app p1) (m.app p2) (m.app p3) = m.det * tet6 p0 p1 p2 p3 := by
  geom_unfold; ring

theorem tet6_translate (t p0 p1 p2 p3 : V3 R) :
    tet6 (add p0 t) (add p1 t) (add p2 t) (add p3 t) = tet6 p0 p1 p2 p3 := by
  geom_unfold; ring

theorem hexC24_linear (m : M3 R) (p0 p1 p2 p3 p4 p5 p6 p7 : V3 R) :
    hexC24 (m.app p0) (m.app p1) (m.app p2) (m.app p3) (m.app p4) (m.app p5) (m.app p6) (m.app p7)
      = m.det * hexC24 p0 p1 p2 p3 p4 p5 p6 p7 := by
  geom_unfold; ring

theorem hexC24_translate (t p0 p1 p2 p3 p4 p5 p6 p7 : V3 R) :
    hexC24 (add p0 t) (add p1 t) (add p2 t) (add p3 t) (add p4 t) (add p5 t) (add p6 t) (add p7 t)
      = hexC24 p0 p1 p2 p3 p4 p5 p6 p7 := by
  geom_unfold; ring

theorem prismC24_linear (m : M3 R) (p0 p1 p2 p3 p4 p5 : V3 R) :
    prismC24 4 (m.app p0) (m.app p1) (m.app p2) (m.app p3) (m.app p4) (m.app p5)
      = m.det * prismC24 4 p0 p1 p2 p3 p4 p5 := by
  geom_unfold; ring

/-- modes agree on affine prisms: p3 = p0 + e, p4 = p1 + e, p5 = p2 + e -/
theorem prism_modes_affine (p0 p1 p2 e : V3 R) :
    prismC24 4 p0 p1 p2 (add p0 e) (add p1 e) (add p2 e) = 4 * prismLin6 p0 p1 p2 (add p0 e) (add p1 e) (add p2 e) := by
  geom_unfold; ring

/-- outward faces of femio's tet sum to the volume (divergence theorem on the face table) -/
theorem tet_faces_outward (p0 p1 p2 p3 : V3 R) :
    fluxTri6 p0 p2 p1 + fluxTri6 p0 p1 p3 + fluxTri6 p1 p2 p3 + fluxTri6 p0 p3 p2 = tet6 p0 p1 p2 p3 := by
  geom_unfold; ring

/-- degenerate hex (nodes 0=1, 4=5) equals the prism [0,3,2,4,7,6] chosen by resolve_degeneracy -/
theorem degenerate01 (p0 p2 p3 p4 p6 p7 : V3 R) :
    hexC24 p0 p0 p2 p3 p4 p4 p6 p7 = prismC24 4 p0 p3 p2 p4 p7 p6 := by
  geom_unfold; ring

/-- cross product under a linear map: cofactor matrix -/
theorem cross_linear (m : M3 R) (v w : V3 R) :
    cross (m.app v) (m.app w) =
      (⟨m.e*m.i - m.f*m.h, -(m.d*m.i - m.f*m.g), m.d*m.h - m.e*m.g,
        -(m.b*m.i - m.c*m.h), m.a*m.i - m.c*m.g, -(m.a*m.h - m.b*m.g),
        m.b*m.f - m.c*m.e, -(m.a*m.f - m.c*m.d), m.a*m.e - m.b*m.d⟩ : M3 R).app (cross v w) := by
  simp only [V3.cross, M3.app]
  congr 1 <;> ring

/-- orthogonal matrices preserve squared norms -/
theorem normSq_orthogonal (m : M3 R) (v : V3 R)
    (h11 : m.a*m.a + m.d*m.d + m.g*m.g = 1) (h22 : m.b*m.b + m.e*m.e + m.h*m.h = 1)
    (h33 : m.c*m.c + m.f*m.f + m.i*m.i = 1) (h12 : m.a*m.b + m.d*m.e + m.g*m.h = 0)
    (h13 : m.a*m.c + m.d*m.f + m.g*m.i = 0) (h23 : m.b*m.c + m.e*m.f + m.h*m.i = 0) :
    normSq (m.app v) = normSq v := by
  simp only [V3.normSq, V3.dot, M3.app]
  linear_combination (v.x*v.x) * h11 + (v.y*v.y) * h22 + (v.z*v.z) * h33
    + (2*v.x*v.y) * h12 + (2*v.x*v.z) * h13 + (2*v.y*v.z) * h23
