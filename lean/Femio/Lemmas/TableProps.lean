import Femio.Gen.Tables
import Femio.Model.Faces
import Femio.Model.Geom
import Mathlib.Tactic.Ring

/-! Obligations on tables regenerated from the working tree (tie T). All by kernel `decide`. -/
open Femio.Gen Faces

/-- every element's own face table is closed: each directed edge once, its reverse once -/
def closedTable (fs : List (List Nat)) : Bool :=
  let es := edgesOf fs
  es.all fun e => es.count e == 1 && es.count (e.2, e.1) == 1

theorem C10_element_closed :
    closedTable faces_tet = true ∧ closedTable faces_tet2 = true ∧ closedTable faces_hex = true ∧
    closedTable faces_pyr = true ∧ closedTable faces_prism = true ∧ closedTable faces_hexprism = true := by decide

def applyPerm (p : List Nat) (l : List Nat) : List Nat := p.map fun i => l.getD i 0

/-- C01: prism reordering on write followed by the one on read is the identity on positions -/
theorem C01_prism_perm_involutive : applyPerm prismPermRead (applyPerm prismPermWrite (List.range 6)) = List.range 6 := by decide
/-- C06: tet2 export and import permutations are mutually inverse -/
theorem C06_tet2_perms_inverse :
    applyPerm tet2FromMeshio (applyPerm tet2ToMeshio (List.range 10)) = List.range 10 ∧
    applyPerm tet2ToMeshio (applyPerm tet2FromMeshio (List.range 10)) = List.range 10 := by decide

def lookupNat (k : Nat) : List (Nat × Nat) → Option Nat
  | [] => none
  | (a, b) :: t => if a = k then some b else lookupNat k t

/-- C01: the two directions of the FrontISTR element-code table are mutually inverse on every type the
    writer accepts, except those the reader deliberately does not know -/
def roundTrips (ty : Nat) : Bool :=
  match lookupNat ty fistrTypeToCode with
  | none => true
  | some c => lookupNat c fistrCodeToType == some ty
-- indices in ELEMENT_TYPES: line 0, line2 1, spring 2, tri 3, quad 5, tet 8, tet2 9, prism 12, hex 14, hex2 15
theorem C01_codes_inverse : [0, 1, 2, 3, 5, 8, 9, 12, 14, 15].all roundTrips = true := by decide
/-- prism2 (index 13) is written as 352 but 352 is not in the reader's table: recorded, outside the property's type list -/
theorem prism2_not_readable : roundTrips 13 = false := by decide

/-- C17: index tables of the array ↔ symmetric-matrix conversion are mutually inverse -/
theorem C17_idx_inverse : applyPerm mat2arrIdx (applyPerm arr2matIdx (List.range 6)) = List.range 6 := by decide
/-- … and the matrix the first table builds is symmetric: entry (i,j) and (j,i) read the same component -/
theorem C17_symmetric : [(1,3),(2,6),(5,7)].all (fun (p : Nat × Nat) => arr2matIdx.getD p.1 0 == arr2matIdx.getD p.2 0) = true := by decide

/-- C10/fistr: (element, face number) rows of one tet list its four faces, numbers 1..4 each once -/
theorem C10_fistr_numbers : key (fistrTetFaceRows.map fun r => r.getD 1 0) = [1, 2, 3, 4] := by decide
