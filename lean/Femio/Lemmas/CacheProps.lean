import Femio.Model.Cache
import Mathlib.Tactic.Linarith

open Cache

/-- every cached value was computed from the current version of its object -/
def Fresh (w : World) : Prop := ∀ m k s, (k, s) ∈ w.lru m → s = w.version k.obj

theorem lookup_mem {k : Key} {l : List (Key × Nat)} {s : Nat} (h : lookup k l = some s) : (k, s) ∈ l := by
  induction l with
  | nil => simp [lookup] at h
  | cons e t ih =>
    obtain ⟨k', s'⟩ := e
    simp only [lookup] at h
    split at h
    · rename_i hk; cases h; subst hk; simp
    · exact List.mem_cons_of_mem _ (ih h)

/-- queries keep the caches fresh; a modification keeps them fresh only if it invalidates -/
theorem fresh_step (w : World) (op : Op) (h : Fresh w)
    (hop : ∀ o, op = .modify o → False) : Fresh (step ⟨false⟩ w op).1 := by
  cases op with
  | modify o => exact absurd rfl (fun hh => hop o hh)
  | query k =>
    intro m k' s' hmem
    simp only [step] at hmem ⊢
    split at hmem
    · rename_i s hs
      simp only at hmem ⊢
      by_cases hm : m = k.meth
      · simp only [hm, if_true] at hmem
        rcases List.mem_cons.mp hmem with he | he
        · have h1 : k' = k := (Prod.mk.inj he).1
          have h2 : s' = s := (Prod.mk.inj he).2
          subst h1; subst h2; exact h k'.meth k' s' (lookup_mem hs)
        · exact h k.meth k' s' (List.mem_filter.mp he).1
      · simp only [hm, if_false] at hmem; exact h m k' s' hmem
    · simp only at hmem ⊢
      by_cases hm : m = k.meth
      · simp only [hm, if_true] at hmem
        rcases List.mem_cons.mp (List.mem_of_mem_take hmem) with he | he
        · cases he; rfl
        · exact h k.meth k' s' he
      · simp only [hm, if_false] at hmem; exact h m k' s' hmem

theorem fresh_step_fixed (w : World) (op : Op) (h : Fresh w) : Fresh (step ⟨true⟩ w op).1 := by
  cases op with
  | modify o => intro m k s hmem; simp [step] at hmem
  | query k =>
    -- queries do not look at the flag
    have : step ⟨true⟩ w (.query k) = step ⟨false⟩ w (.query k) := rfl
    rw [this]; exact fresh_step w _ h (by intro o ho; cases ho)

/-- what a query returns when the caches are fresh: the value for the current mesh -/
theorem query_current (cfg : Cfg) (w : World) (k : Key) (h : Fresh w) :
    (step cfg w (.query k)).2 = .hit (w.version k.obj) ∨ (step cfg w (.query k)).2 = .miss (w.version k.obj) := by
  simp only [step]
  split
  · rename_i s hs; left; simp only; rw [h k.meth k s (lookup_mem hs)]
  · right; rfl

/-- **C19_history_independent** for the repaired configuration: every history, every object -/
theorem history_fresh_fixed (w : World) (ops : List Op) (h : Fresh w) : Fresh (run ⟨true⟩ w ops).1 := by
  induction ops generalizing w with
  | nil => exact h
  | cons op ops ih => simp only [run]; exact ih _ (fresh_step_fixed w op h)

/-! counterexample for the code as it is: query, modify, query → stale hit -/
def w0 : World := ⟨fun _ => 0, fun _ => [], fun _ => 1⟩
theorem stale_counterexample :
    (run ⟨false⟩ w0 [.query ⟨1, 0, 0⟩, .modify 1, .query ⟨1, 0, 0⟩]).2 = [.miss 0, .modified, .hit 0] := by decide
/-- …and an interposed query of another object on the 1-slot cache makes the answer fresh again -/
theorem eviction_refreshes :
    (run ⟨false⟩ w0 [.query ⟨1, 0, 0⟩, .modify 1, .query ⟨2, 0, 0⟩, .query ⟨1, 0, 0⟩]).2
      = [.miss 0, .modified, .miss 0, .miss 1] := by decide

#print axioms history_fresh_fixed
