import Femio.Model.Numeral
import Mathlib.Tactic.Linarith
import Mathlib.Tactic.IntervalCases

open Numeral

theorem charDigit_digitChar (d : Nat) (h : d < 10) : charDigit (digitChar d) = some d := by
  interval_cases d <;> decide

theorem aux_eval (f n : Nat) (acc : List Nat) (hf : n < f) :
    evalDigits 0 (natDigitsAux f n acc) = evalDigits n acc := by
  induction f generalizing n acc with
  | zero => omega
  | succ f ih =>
    simp only [natDigitsAux]
    split
    · simp [evalDigits]
    · rename_i hn
      rw [ih (n / 10) _ (by omega)]
      simp only [evalDigits, List.foldl_cons]
      congr 1
      omega

theorem aux_lt (f n : Nat) (acc : List Nat) (hacc : ∀ d ∈ acc, d < 10) :
    ∀ d ∈ natDigitsAux f n acc, d < 10 := by
  induction f generalizing n acc with
  | zero => exact hacc
  | succ f ih =>
    simp only [natDigitsAux]
    split
    · rename_i hn
      intro d hd
      rcases List.mem_cons.mp hd with rfl | hd
      · exact hn
      · exact hacc d hd
    · apply ih
      intro d hd
      rcases List.mem_cons.mp hd with rfl | hd
      · exact Nat.mod_lt _ (by omega)
      · exact hacc d hd

theorem aux_ne_nil (f n : Nat) (acc : List Nat) (hf : 1 ≤ f) : natDigitsAux f n acc ≠ [] := by
  induction f generalizing n acc with
  | zero => omega
  | succ f ih =>
    simp only [natDigitsAux]
    split
    · simp
    · rename_i hn
      cases f with
      | zero => simp [natDigitsAux]
      | succ f => exact ih _ _ (by omega)

theorem mapM_charDigit (ds : List Nat) (h : ∀ d ∈ ds, d < 10) : (ds.map digitChar).mapM charDigit = some ds := by
  induction ds with
  | nil => rfl
  | cons d t ih =>
    simp only [List.map_cons, List.mapM_cons, charDigit_digitChar d (h d (by simp)),
      ih (fun x hx => h x (List.mem_cons_of_mem _ hx))]
    rfl

/-- **numeral round trip**: every natural number printed in decimal parses back to itself -/
theorem parseNat_showNat (n : Nat) : parseNat (showNat n) = some n := by
  unfold parseNat showNat natDigits
  have hne : natDigitsAux (n + 1) n [] ≠ [] := aux_ne_nil (n + 1) n [] (by omega)
  have hemp : ((natDigitsAux (n + 1) n []).map digitChar).isEmpty = false := by
    cases h : natDigitsAux (n + 1) n [] with
    | nil => exact absurd h hne
    | cons a t => rfl
  rw [hemp]
  simp only [Bool.false_eq_true, if_false]
  rw [mapM_charDigit _ (aux_lt (n + 1) n [] (by simp))]
  simp only [Option.map_some, aux_eval (n + 1) n [] (by omega)]
  rfl

#print axioms parseNat_showNat
example : showNat 1203 = ['1', '2', '0', '3'] := by decide
