import Mathlib.Data.Finset.Card
import Mathlib.Data.Finset.Prod
import Mathlib.Data.Finset.Image
import Mathlib.Data.Nat.ModEq
import Mathlib.Tactic.Linarith
import Mathlib.Tactic.Ring

/-! `_generate_brick_3d`: which start indices `i` produce an element, and how many there are (C11). -/

/-- the three-condition filter of the generator (`n_x = nx+1`, `n_xy = n_x * n_y`) -/
def brickCond (nx ny nz i : Nat) : Prop :=
  (i + 1) % (nx + 1) ≠ 0 ∧ (i + 1) % ((nx + 1) * (ny + 1)) < 1 + (nx + 1) * (ny + 1) - (nx + 1) ∧
  i < (nx + 1) * (ny + 1) * nz

instance (nx ny nz i : Nat) : Decidable (brickCond nx ny nz i) := by unfold brickCond; infer_instance

def enc (nx ny : Nat) (p : Nat × Nat × Nat) : Nat := p.1 + (nx + 1) * p.2.1 + (nx + 1) * (ny + 1) * p.2.2

/-- grid cells ↦ start index satisfies the filter -/
theorem cond_of_cell (nx ny nz x y z : Nat) (hx : x < nx) (hy : y < ny) (hz : z < nz) :
    brickCond nx ny nz (enc nx ny (x, y, z)) ∧ enc nx ny (x, y, z) < (nx + 1) * (ny + 1) * (nz + 1) := by
  have hA : (nx + 1) * y + (nx + 1) ≤ (nx + 1) * ny := by
    have : (nx + 1) * (y + 1) ≤ (nx + 1) * ny := Nat.mul_le_mul_left _ hy
    linarith [Nat.mul_succ (nx + 1) y]
  have hB : (nx + 1) * (ny + 1) * z + (nx + 1) * (ny + 1) ≤ (nx + 1) * (ny + 1) * nz := by
    have : (nx + 1) * (ny + 1) * (z + 1) ≤ (nx + 1) * (ny + 1) * nz := Nat.mul_le_mul_left _ hz
    linarith [Nat.mul_succ ((nx + 1) * (ny + 1)) z]
  have hxy : (nx + 1) * (ny + 1) = (nx + 1) * ny + (nx + 1) := by ring
  have hz' : (nx + 1) * (ny + 1) * (nz + 1) = (nx + 1) * (ny + 1) * nz + (nx + 1) * (ny + 1) := by ring
  unfold brickCond enc
  simp only
  refine ⟨⟨?_, ?_, ?_⟩, ?_⟩
  · -- (i+1) % n_x = x+1 ≠ 0
    have : x + (nx + 1) * y + (nx + 1) * (ny + 1) * z + 1 = (x + 1) + (nx + 1) * (y + (ny + 1) * z) := by ring
    rw [this, Nat.add_mul_mod_self_left, Nat.mod_eq_of_lt (by omega)]; omega
  · have : x + (nx + 1) * y + (nx + 1) * (ny + 1) * z + 1 = ((x + 1) + (nx + 1) * y) + (nx + 1) * (ny + 1) * z := by ring
    rw [this, Nat.add_mul_mod_self_left, Nat.mod_eq_of_lt (by omega)]; omega
  · omega
  · omega

/-- conversely every index passing the filter is the start index of exactly one grid cell -/
theorem cell_of_cond (nx ny nz i : Nat) (h : brickCond nx ny nz i) :
    ∃ x y z, x < nx ∧ y < ny ∧ z < nz ∧ i = enc nx ny (x, y, z) := by
  obtain ⟨h1, h2, h3⟩ := h
  set a := nx + 1 with ha
  set b := ny + 1 with hb
  -- decompose i = x + a*(y + b*z)
  refine ⟨i % a, (i / a) % b, i / (a * b), ?_, ?_, ?_, ?_⟩
  · -- x < nx  from (i+1) % a ≠ 0
    have hlt : i % a < a := Nat.mod_lt _ (by omega)
    by_contra hge
    have hx : i % a = nx := by omega
    have : (i + 1) % a = 0 := by
      have hi : i = a * (i / a) + i % a := (Nat.div_add_mod i a).symm
      have : i + 1 = a * (i / a + 1) := by rw [Nat.mul_add, Nat.mul_one]; omega
      rw [this]; exact Nat.mul_mod_right _ _
    exact h1 this
  · -- y < ny  from the second condition
    have hab : 0 < a * b := by positivity
    have hlt : i % (a * b) < a * b := Nat.mod_lt _ hab
    by_contra hge
    have hy : (i / a) % b = ny := by
      have := Nat.mod_lt (i / a) (show 0 < b by omega); omega
    -- then i % (a*b) ≥ a * ny, so (i+1) % (a*b) is ≥ a*ny + 1 or wraps to 0 (only when x = nx, excluded)
    have hmod : i % (a * b) = i % a + a * ((i / a) % b) := Nat.mod_mul
    have hxlt : i % a < nx := by
      have hlt' : i % a < a := Nat.mod_lt _ (by omega)
      by_contra hge'
      have hx : i % a = nx := by omega
      have : (i + 1) % a = 0 := by
        have hi : i = a * (i / a) + i % a := (Nat.div_add_mod i a).symm
        have : i + 1 = a * (i / a + 1) := by rw [Nat.mul_add, Nat.mul_one]; omega
        rw [this]; exact Nat.mul_mod_right _ _
      exact h1 this
    have hab' : a * b = a * ny + a := by rw [hb]; ring
    have hsucc : (i + 1) % (a * b) = i % (a * b) + 1 := by
      have hi : i = (a * b) * (i / (a * b)) + i % (a * b) := (Nat.div_add_mod i (a * b)).symm
      have h1' : i + 1 = (i % (a * b) + 1) + (a * b) * (i / (a * b)) := by omega
      rw [h1', Nat.add_mul_mod_self_left, Nat.mod_eq_of_lt]
      rw [hmod, hy, hab']; omega
    rw [hsucc, hmod, hy, hab'] at h2
    omega
  · -- z < nz
    have hab : 0 < a * b := by positivity
    rw [Nat.div_lt_iff_lt_mul hab]; linarith [h3, Nat.mul_comm (a * b) nz]
  · unfold enc
    simp only
    have h1' : i = a * (i / a) + i % a := (Nat.div_add_mod i a).symm
    have h2' : i / a = b * (i / a / b) + (i / a) % b := (Nat.div_add_mod (i / a) b).symm
    have h3' : i / a / b = i / (a * b) := Nat.div_div_eq_div_mul i a b
    rw [h3'] at h2'
    calc i = a * (i / a) + i % a := h1'
      _ = a * (b * (i / (a * b)) + (i / a) % b) + i % a := by rw [← h2']
      _ = i % a + a * ((i / a) % b) + a * b * (i / (a * b)) := by ring

theorem enc_inj (nx ny : Nat) (p q : Nat × Nat × Nat) (hp : p.1 < nx + 1 ∧ p.2.1 < ny + 1) (hq : q.1 < nx + 1 ∧ q.2.1 < ny + 1)
    (h : enc nx ny p = enc nx ny q) : p = q := by
  obtain ⟨x, y, z⟩ := p
  obtain ⟨x', y', z'⟩ := q
  unfold enc at h
  simp only at h hp hq
  have e1 : x + (nx + 1) * y + (nx + 1) * (ny + 1) * z = x + (nx + 1) * (y + (ny + 1) * z) := by ring
  have e2 : x' + (nx + 1) * y' + (nx + 1) * (ny + 1) * z' = x' + (nx + 1) * (y' + (ny + 1) * z') := by ring
  rw [e1, e2] at h
  have hxm : x = x' := by
    have := congrArg (· % (nx + 1)) h
    simp only [Nat.add_mul_mod_self_left] at this
    rwa [Nat.mod_eq_of_lt hp.1, Nat.mod_eq_of_lt hq.1] at this
  subst hxm
  have h' : y + (ny + 1) * z = y' + (ny + 1) * z' := by
    have : (nx + 1) * (y + (ny + 1) * z) = (nx + 1) * (y' + (ny + 1) * z') := by omega
    exact Nat.eq_of_mul_eq_mul_left (by omega) this
  have hym : y = y' := by
    have := congrArg (· % (ny + 1)) h'
    simp only [Nat.add_mul_mod_self_left] at this
    rwa [Nat.mod_eq_of_lt hp.2, Nat.mod_eq_of_lt hq.2] at this
  subst hym
  have : (ny + 1) * z = (ny + 1) * z' := by omega
  have hz := Nat.eq_of_mul_eq_mul_left (by omega) this
  subst hz; rfl

/-- **C11_brick_count** (hex; the tet brick has 6 per cell): exactly `nx·ny·nz` start indices pass the filter -/
theorem brick_count (nx ny nz : Nat) :
    ((Finset.range ((nx + 1) * (ny + 1) * (nz + 1))).filter (brickCond nx ny nz)).card = nx * ny * nz := by
  have himg : (Finset.range ((nx + 1) * (ny + 1) * (nz + 1))).filter (brickCond nx ny nz)
      = (Finset.range nx ×ˢ (Finset.range ny ×ˢ Finset.range nz)).image (enc nx ny) := by
    ext i
    simp only [Finset.mem_filter, Finset.mem_range, Finset.mem_image, Finset.mem_product, Prod.exists]
    constructor
    · rintro ⟨_, hc⟩
      obtain ⟨x, y, z, hx, hy, hz, hi⟩ := cell_of_cond nx ny nz i hc
      exact ⟨x, y, z, ⟨hx, hy, hz⟩, hi.symm⟩
    · rintro ⟨x, y, z, ⟨hx, hy, hz⟩, hi⟩
      have := cond_of_cell nx ny nz x y z hx hy hz
      rw [hi] at this
      exact ⟨this.2, this.1⟩
  rw [himg, Finset.card_image_of_injOn]
  · simp [Finset.card_product, Nat.mul_assoc]
  · intro p hp q hq h
    simp only [Finset.coe_product, Set.mem_prod, Finset.mem_coe, Finset.mem_range] at hp hq
    exact enc_inj nx ny p q ⟨by omega, by omega⟩ ⟨by omega, by omega⟩ h

#print axioms brick_count
