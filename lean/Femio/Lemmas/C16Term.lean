import Femio.Model.Search
import Femio.Lemmas.C16Knn

/-! Termination of the three work-list loops of C16 with fuel = number of tree nodes. -/
namespace Femio.C16

/-- total number of tree nodes waiting in the queue -/
def qsize (queue : List QEntry) : Nat := (queue.map fun e => e.2.2.size).sum

theorem Oct.size_pos (t : Oct) : 1 ≤ t.size := by
  cases t <;> simp [Oct.size]

theorem qsize_nil : qsize [] = 0 := rfl

theorem qsize_cons (e : QEntry) (l : List QEntry) : qsize (e :: l) = e.2.2.size + qsize l := by
  simp [qsize]

theorem qsize_append (l l' : List QEntry) : qsize (l ++ l') = qsize l + qsize l' := by
  simp [qsize]

theorem qsize_perm {l l' : List QEntry} (h : l.Perm l') : qsize l = qsize l' :=
  (h.map _).sum_nat

theorem qsize_eq_zero (l : List QEntry) (h : qsize l = 0) : l = [] := by
  cases l with
  | nil => rfl
  | cons e t =>
    rw [qsize_cons] at h
    have := Oct.size_pos e.2.2
    omega

/-- insertion with an arbitrary key function is a permutation -/
theorem foldr_insQ_perm' (f : Box × Oct → Rat) (kids : List (Box × Oct)) (rest : List QEntry) :
    (kids.foldr (fun bt acc => insQ (f bt, bt) acc) rest).Perm ((kids.map fun bt => (f bt, bt)) ++ rest) := by
  induction kids with
  | nil => exact List.Perm.refl _
  | cons a t ih => exact (insQ_perm _ _).trans (List.Perm.cons _ ih)

theorem qsize_map_key (f : Box × Oct → Rat) (kids : List (Box × Oct)) :
    qsize (kids.map fun bt => (f bt, bt)) = (kids.map fun bt => bt.2.size).sum := by
  simp [qsize, List.map_map, Function.comp_def]

theorem sum_filter_le {α : Type} (g : α → Nat) (p : α → Bool) (l : List α) :
    ((l.filter p).map g).sum ≤ (l.map g).sum := by
  induction l with
  | nil => simp
  | cons a t ih =>
    by_cases h : p a = true
    · simp only [List.filter_cons, h, if_true, List.map_cons, List.sum_cons]; omega
    · simp only [List.filter_cons, h, List.map_cons, List.sum_cons]
      simp only [Bool.false_eq_true, if_false]; omega

/-- the children listed by `kidList` are strictly smaller than the tree in total -/
theorem kidList_size (b : Box) (t : Oct) (kids : List (Box × Oct)) (h : kidList b t = some kids) :
    (kids.map fun bt => bt.2.size).sum + 1 ≤ t.size := by
  cases t with
  | empty => simp [kidList] at h; subst h; simp [Oct.size]
  | leaf is => simp [kidList] at h
  | node ks =>
    simp only [kidList, Option.some.injEq] at h
    subst h
    have h1 := sum_filter_le (fun bt : Box × Oct => bt.2.size) (fun bt => !bt.2.isEmpty)
      ((List.finRange 8).map fun r => (child b r.val, ks r))
    simp only [List.map_map, Function.comp_def] at h1
    simp only [Oct.size]
    omega

/-- the inserted (possibly filtered) children weigh less than the expanded node -/
theorem qsize_expand (f : Box × Oct → Rat) (p : Box × Oct → Bool) (b : Box) (t : Oct)
    (kids : List (Box × Oct)) (rest : List QEntry) (h : kidList b t = some kids) :
    qsize ((kids.filter p).foldr (fun bt acc => insQ (f bt, bt) acc) rest) + 1 ≤ t.size + qsize rest := by
  rw [qsize_perm (foldr_insQ_perm' f _ rest), qsize_append, qsize_map_key]
  have h1 := sum_filter_le (fun bt : Box × Oct => bt.2.size) p kids
  have h2 := kidList_size b t kids h
  omega

theorem step_nil (pt : Nat → P3) (k : Nat) (bound : Option Rat) (q : P3) (s : CSt) (h : s.queue = []) :
    step pt k bound q s = s := by
  obtain ⟨queue, res⟩ := s
  simp only at h
  subst h
  rfl

/-- every iteration on a non-empty queue consumes at least one tree node -/
theorem step_qsize_lt (pt : Nat → P3) (k : Nat) (bound : Option Rat) (q : P3) (s : CSt) (h : s.queue ≠ []) :
    qsize (step pt k bound q s).queue < qsize s.queue := by
  obtain ⟨queue, res⟩ := s
  cases queue with
  | nil => exact absurd rfl h
  | cons e rest =>
    obtain ⟨d, b, t⟩ := e
    have hpos := Oct.size_pos t
    simp only [step]
    split
    · simp only [qsize_cons]; omega
    · cases hkl : kidList b t with
      | some kids =>
        simp only [qsize_cons]
        have := qsize_expand (fun bt => lb2 bt.1 q) (fun _ => true) b t kids rest hkl
        simp only [List.filter_true] at this
        omega
      | none => simp only [qsize_cons]; omega

theorem iter_fix {σ : Type} (f : σ → σ) (n : Nat) (s : σ) (h : f s = s) : iter f n s = s := by
  induction n with
  | zero => rfl
  | succ n ih => simp only [iter, h, ih]

theorem iter_step_queue_empty (pt : Nat → P3) (k : Nat) (bound : Option Rat) (q : P3) (n : Nat) (s : CSt)
    (h : qsize s.queue ≤ n) : (iter (step pt k bound q) n s).queue = [] := by
  induction n generalizing s with
  | zero => exact qsize_eq_zero _ (by simpa [iter] using h)
  | succ n ih =>
    simp only [iter]
    apply ih
    by_cases hq : s.queue = []
    · rw [step_nil pt k bound q s hq, hq]; simp [qsize]
    · have := step_qsize_lt pt k bound q s hq
      omega

/-- **termination of the k-nearest loop**: fuel = number of tree nodes empties the queue -/
theorem knnRun_queue_empty (pt : Nat → P3) (k : Nat) (bound : Option Rat) (root : Box) (t : Oct) (q : P3) :
    (knnRun pt k bound root t q t.size).queue = [] := by
  unfold knnRun
  apply iter_step_queue_empty
  simp [qsize]

/-- total correctness of the k-nearest search with the fuel the model actually uses (`knn`) -/
theorem knn_correct_total (pt : Nat → P3) (q : P3) (bound : Option Rat) (n depth k : Nat) (root : Box)
    (hw : 0 ≤ root.w) (hall : ∀ i, i < n → inBox root (pt i) = true) :
    IsBest k (admKeys pt q bound (List.range n))
      (knnRun pt k bound root (build pt depth root (List.range n)) q
        (build pt depth root (List.range n)).size).res :=
  knn_correct pt q bound n depth k root hw hall _ (knnRun_queue_empty pt k bound root _ q)

/-! ### `calc_frm_node` -/

theorem ubStep_nil (a : Box) (s : List QEntry × Option Rat) (h : s.1 = []) : ubStep a s = s := by
  obtain ⟨queue, dist⟩ := s
  simp only at h
  subst h
  rfl

theorem ubStep_qsize_lt (a : Box) (s : List QEntry × Option Rat) (h : s.1 ≠ []) :
    qsize (ubStep a s).1 < qsize s.1 := by
  obtain ⟨queue, dist⟩ := s
  cases queue with
  | nil => exact absurd rfl h
  | cons e rest =>
    obtain ⟨d, b, t⟩ := e
    have hpos := Oct.size_pos t
    simp only [ubStep]
    split
    · simp only [qsize_cons]; omega
    · cases hkl : kidList b t with
      | some kids =>
        simp only [qsize_cons]
        have := qsize_expand (fun bt => ubNode2 a bt.1) (fun bt => ltOpt (ubNode2 a bt.1) dist) b t kids rest hkl
        omega
      | none => simp only [qsize_cons]; omega

theorem iter_ubStep_queue_empty (a : Box) (n : Nat) (s : List QEntry × Option Rat)
    (h : qsize s.1 ≤ n) : (iter (ubStep a) n s).1 = [] := by
  induction n generalizing s with
  | zero => exact qsize_eq_zero _ (by simpa [iter] using h)
  | succ n ih =>
    simp only [iter]
    apply ih
    by_cases hq : s.1 = []
    · rw [ubStep_nil a s hq, hq]; simp [qsize]
    · have := ubStep_qsize_lt a s hq
      omega

/-- **termination of `calc_frm_node`** -/
theorem ubRun_queue_empty (a root : Box) (tB : Oct) : (ubRun a root tB tB.size).1 = [] := by
  unfold ubRun
  apply iter_ubStep_queue_empty
  simp [qsize]

/-! ### `calc_frm` with the early exit -/

theorem nnStep_exit (pt : Nat → P3) (HD : Rat) (q : P3) (h : HSt) (he : h.exit = true) : nnStep pt HD q h = h := by
  simp [nnStep, he]

theorem iter_nnStep_done (pt : Nat → P3) (HD : Rat) (q : P3) (n : Nat) (h : HSt) (hn : qsize h.s.queue ≤ n) :
    (iter (nnStep pt HD q) n h).exit = true ∨ (iter (nnStep pt HD q) n h).s.queue = [] := by
  induction n generalizing h with
  | zero => exact Or.inr (qsize_eq_zero _ (by simpa [iter] using hn))
  | succ n ih =>
    simp only [iter]
    by_cases he : h.exit = true
    · rw [nnStep_exit pt HD q h he, iter_fix _ n h (nnStep_exit pt HD q h he)]
      exact Or.inl he
    · by_cases hx : exitNow HD q h.s = true
      · have hs : nnStep pt HD q h = ⟨h.s, true⟩ := by simp [nnStep, he, hx]
        rw [hs, iter_fix _ n _ (nnStep_exit pt HD q _ rfl)]
        exact Or.inl rfl
      · have hs : nnStep pt HD q h = ⟨step pt 1 none q h.s, false⟩ := by simp [nnStep, he, hx]
        rw [hs]
        apply ih
        simp only
        by_cases hq : h.s.queue = []
        · rw [step_nil pt 1 none q h.s hq, hq]; simp [qsize]
        · have := step_qsize_lt pt 1 none q h.s hq
          omega

/-- **termination of `calc_frm`**: it either returned early or emptied its queue -/
theorem nnRun_done (pt : Nat → P3) (root : Box) (tB : Oct) (HD : Rat) (q : P3) :
    (nnRun pt root tB HD q tB.size).exit = true ∨ (nnRun pt root tB HD q tB.size).s.queue = [] := by
  unfold nnRun
  apply iter_nnStep_done
  simp [qsize]

end Femio.C16

#print axioms Femio.C16.knnRun_queue_empty
#print axioms Femio.C16.ubRun_queue_empty
#print axioms Femio.C16.nnRun_done
#print axioms Femio.C16.knn_correct_total
