import Femio.Model.Geom
import Femio.Model.Core
/-! Model of `calculate_spatial_gradient_adjacency_matrices` and the two convenience functions
    (femio/signal_processor.py:628-897) with everything it calls
    (`calculate_data_diff_adjs`, `calculate_norm_adj`, `calculate_tensor_power`, `_inverse_tensors`,
    `_dot_ndarray_sparse`, `calculate_n_hop_adj`).  Core Lean only.

    The numeric part is polymorphic (executed at `Rat` by the driver, reasoned about over any field in
    `Props/C15.lean`).  Sparse matrices are row-wise association lists; `normals` is outside the
    property and not modelled.  The distance kernel (`exp`, `gauss`) is NOT modelled: `w i j` is the
    entry of the real `weight_adj` (= kernel value × volume of `j`, or the adjacency itself). -/
namespace Femio.Gradient
open V3

/-- 3×3 matrix by rows -/
structure M3 (R : Type) where
  r0 : V3 R
  r1 : V3 R
  r2 : V3 R
deriving Repr, DecidableEq

section alg
variable {R : Type} [Add R] [Sub R] [Mul R] [Neg R] [Div R] [Zero R]

def vzero : V3 R := ⟨0, 0, 0⟩
def vneg (a : V3 R) : V3 R := ⟨-a.x, -a.y, -a.z⟩
def sumR (l : List R) : R := l.foldr (· + ·) 0
def sumV (l : List (V3 R)) : V3 R := l.foldr V3.add vzero
def mzero : M3 R := ⟨vzero, vzero, vzero⟩
def madd (A B : M3 R) : M3 R := ⟨V3.add A.r0 B.r0, V3.add A.r1 B.r1, V3.add A.r2 B.r2⟩
def sumM (l : List (M3 R)) : M3 R := l.foldr madd mzero
/-- `a bᵀ` (`calculate_tensor_power(…, power=2)` entry by entry) -/
def outer (a b : V3 R) : M3 R := ⟨smul a.x b, smul a.y b, smul a.z b⟩
def msmul (s : R) (A : M3 R) : M3 R := ⟨smul s A.r0, smul s A.r1, smul s A.r2⟩
def mulVec (A : M3 R) (v : V3 R) : V3 R := ⟨dot A.r0 v, dot A.r1 v, dot A.r2 v⟩
def det3 (A : M3 R) : R := V3.det A.r0 A.r1 A.r2
/-- adjugate: its columns are the cross products of the rows -/
def adj3 (A : M3 R) : M3 R :=
  let c0 := cross A.r1 A.r2
  let c1 := cross A.r2 A.r0
  let c2 := cross A.r0 A.r1
  ⟨⟨c0.x, c1.x, c2.x⟩, ⟨c0.y, c1.y, c2.y⟩, ⟨c0.z, c1.z, c2.z⟩⟩
def vdiv (a : V3 R) (d : R) : V3 R := ⟨a.x / d, a.y / d, a.z / d⟩
/-- `np.linalg.inv` of a 3×3 matrix, exactly: adjugate / determinant -/
def inv3 (A : M3 R) : M3 R :=
  let B := adj3 A
  let d := det3 A
  ⟨vdiv B.r0 d, vdiv B.r1 d, vdiv B.r2 d⟩

/-- component `k` of a vector (`grad_adjs[k]`) -/
def comp (k : Nat) (v : V3 R) : R := match k with | 0 => v.x | 1 => v.y | _ => v.z

/-- everything the operator is built from.  `nbrs i` = columns of row `i` of the n-hop adjacency without
    self loops; `w i j` = `weight_adj[i, j]`; `moment` = the `moment_matrix` option. -/
structure Inp (R : Type) where
  n : Nat
  pos : Nat → V3 R
  nbrs : Nat → List Nat
  w : Nat → Nat → R
  moment : Bool

variable [NatCast R]

/-- `diff_position_adjs[:, i, j] = x_j − x_i` -/
def dvec (I : Inp R) (i j : Nat) : V3 R := V3.sub (I.pos j) (I.pos i)
/-- `weight_by_squarenorm_adj = distance_adj.power(-2).multiply(weight_adj)` -/
def sq (I : Inp R) (i j : Nat) : R := I.w i j / normSq (dvec I i j)
/-- `moment_tensors[i] = Σ_j (d_ij ⊗ d_ij) · w_ij / |d_ij|²` -/
def momentAt (I : Inp R) (i : Nat) : M3 R :=
  sumM ((I.nbrs i).map fun j => msmul (sq I i j) (outer (dvec I i j) (dvec I i j)))
/-- `summed_weight = weight_adj.sum(axis=1)` -/
def sumW (I : Inp R) (i : Nat) : R := sumR ((I.nbrs i).map (I.w i))

/-- row `i` of `grad_adj_wo_selfs` (three components at once) -/
def offRow (I : Inp R) (i : Nat) : List (Nat × V3 R) :=
  if I.moment then
    -- `_dot_ndarray_sparse(inv(moment_tensors), [diff_k.multiply(weight_by_squarenorm_adj)])`
    let Minv := inv3 (momentAt I i)
    (I.nbrs i).map fun j => (j, mulVec Minv (smul (sq I i j) (dvec I i j)))
  else
    -- `dim * distance_adj.power(-2).multiply(diff_k).multiply(weight_adj).multiply(summed_weight**-1)`
    let sw := sumW I i
    (I.nbrs i).map fun j =>
      let d := dvec I i j
      (j, smul (((3 : Nat) : R) / normSq d * I.w i j / sw) d)

/-- row `i` of `grad_adjs`: off-diagonal part and the diagonal `− row sum` -/
def opRow (I : Inp R) (i : Nat) : List (Nat × V3 R) :=
  offRow I i ++ [(i, vneg (sumV ((offRow I i).map (·.2))))]

/-- a row applied to a scalar field -/
def applyRow (row : List (Nat × V3 R)) (f : Nat → R) : V3 R :=
  sumV (row.map fun e => smul (f e.1) e.2)

/-- `grad_adjs[k]` as COO triples `(row, col, value)` -/
def gradAdj (I : Inp R) (k : Nat) : List (Nat × Nat × R) :=
  (List.range I.n).flatMap fun i => (opRow I i).map fun e => (i, e.1, comp k e.2)

/-- `sparse.dot(data)` for one feature column, row `i` -/
def dotCoo (m : List (Nat × Nat × R)) (data : Nat → R) (i : Nat) : R :=
  sumR ((m.filter fun e => e.1 == i).map fun e => e.2.2 * data e.2.1)

/-- `calculate_nodal_spatial_gradients` / `calculate_elemental_spatial_gradients` for one feature:
    `np.stack([grad_adj.dot(data) for grad_adj in grad_adjs], axis=1)[i]` -/
def spatialGradients (I : Inp R) (data : Nat → R) (i : Nat) : V3 R :=
  ⟨dotCoo (gradAdj I 0) data i, dotCoo (gradAdj I 1) data i, dotCoo (gradAdj I 2) data i⟩

end alg

/-! ### graph part (executed by the driver): n-hop neighbour lists from the incidence pairs -/

/-- rows of a Boolean sparse matrix as ascending column lists -/
abbrev Rows := Array (List Nat)

def rowsOf (n : Nat) (pairs : List (Nat × Nat)) : Rows :=
  pairs.foldl (fun a (p : Nat × Nat) => if p.1 < a.size then a.modify p.1 (p.2 :: ·) else a) (Array.replicate n [])

/-- Boolean product of one row with a matrix: `OR_k row[k] AND B[k, ·]`, ascending -/
def mulRow (n : Nat) (B : Rows) (row : List Nat) : List Nat :=
  let mark := row.foldl (fun m k => (B.getD k []).foldl (fun m j => if j < m.size then m.set! j true else m) m)
    (Array.replicate n false)
  (List.range n).filter fun j => mark.getD j false

def orRow (n : Nat) (a b : List Nat) : List Nat :=
  (List.range n).filter fun j => a.contains j || b.contains j

/-- `calculate_n_hop_adj`: `ret = adj; power = adj; repeat n_hop − 1 times: power = power·adj; ret = ret + power`
    (Boolean algebra; same loop as `Graph.nHop`) -/
def nHopRows (n : Nat) (A : Rows) : Nat → Rows × Rows
  | 0 => (A, A)
  | h + 1 =>
    let (ret, pw) := nHopRows n A h
    let pw' := pw.map (mulRow n A)
    ((ret.zipWith (orRow n) pw'), pw')

/-- adjacency `I·Iᵀ` (nodal) or `Iᵀ·I` (elemental) from the incidence pairs `(node, element)` -/
def baseAdj (nodal : Bool) (nNodes nElems : Nat) (inc : List (Nat × Nat)) : Rows :=
  let n2e := rowsOf nNodes inc
  let e2n := rowsOf nElems (inc.map fun p => (p.2, p.1))
  if nodal then n2e.map (mulRow nNodes e2n) else e2n.map (mulRow nElems n2e)

/-- rows of `calculate_n_hop_adj(mode, n_hop, include_self_loop=False)`: `return_adj − eye` has a zero on
    the diagonal of every vertex that occurs in an element (the only vertices inside the property) -/
def neighbours (nodal : Bool) (nNodes nElems : Nat) (inc : List (Nat × Nat)) (hops : Nat) : Rows :=
  let n := if nodal then nNodes else nElems
  let H := (nHopRows n (baseAdj nodal nNodes nElems inc) (hops - 1)).1
  (Array.range n).map fun i => (H.getD i []).filter (· != i)

/-- `convert_nodal2elemental('NODE', calc_average=True)` on one element -/
def centroid (ps : List (V3 Rat)) : V3 Rat :=
  let s : V3 Rat := ps.foldl V3.add ⟨0, 0, 0⟩
  let k : Rat := (ps.length : Nat)
  ⟨s.x / k, s.y / k, s.z / k⟩

end Femio.Gradient
