/-! C05 — model of the npz key scheme `"<name>/<type>/ids|data"` used by `to_dict` / `from_dict` of
`FEMAttribute`, `FEMElementalAttribute` and `FEMAttributes` (core Lean only; strings are `List Char`).

Array payloads are opaque tags (`numpy.savez` / `numpy.load` round-trip arrays, trusted); what is modelled is
how keys are built, split and classified on load — which is where F6a (`type in key`, a substring test) and
F6e (`'ids' in key`) went wrong, and where F6d (a time series has no key for its `time_series` flag: the shape
`(T, n, w)` of the data alone does not tell a series from tensor data) is repaired by a third, optional key
`"<prefix>/time_series"`. -/
namespace Femio.C05K

abbrev Str := List Char

/-- `str.split(sep)` -/
def splitOn (sep : Char) : Str → List Str
  | [] => [[]]
  | c :: t =>
    if c = sep then [] :: splitOn sep t
    else match splitOn sep t with
      | [] => [[c]]
      | f :: fs => (c :: f) :: fs

/-- `sep.join(fields)` -/
def joinSep (sep : Char) : List Str → Str
  | [] => []
  | [f] => f
  | f :: g :: t => f ++ sep :: joinSep sep (g :: t)

def sIds : Str := ['i', 'd', 's']
def sData : Str := ['d', 'a', 't', 'a']
def sTs : Str := ['t', 'i', 'm', 'e', '_', 's', 'e', 'r', 'i', 'e', 's']

/-- `x in s` for strings -/
def isInfix (x : Str) : Str → Bool
  | [] => x.isEmpty
  | c :: t => x.isPrefixOf (c :: t) || isInfix x t

structure Cfg where
  typeByComponent : Bool   -- repair F6a: `_extract_element_type(k) == type` instead of `type in k`
  kindBySuffix : Bool      -- repair F6e: `k.endswith('ids')` instead of `'ids' in k`
  tsFlag : Bool            -- repair F6d: a third key `time_series`, written for time series only, honoured on load
deriving Repr, DecidableEq
def Cfg.upstream : Cfg := ⟨false, false, false⟩
/-- F6a and F6e repaired, F6d not: exactly two keys per attribute -/
def Cfg.twoKey : Cfg := ⟨true, true, false⟩
def Cfg.fixed : Cfg := ⟨true, true, true⟩

/-- a `FEMAttribute`: the two saved arrays and the `time_series` flag (`ts`: the data has shape `(T, n, w)`, the first
index is the time step; the shape itself is part of the opaque `data` payload) -/
structure Attr where
  ids : Nat
  data : Nat
  ts : Bool
deriving Repr, DecidableEq

/-- what the two-key scheme (a tree without the repair of F6d) saves of an attribute: the flag has no place -/
def Attr.twoKey (a : Attr) : Attr := { a with ts := false }

abbrev Dict := List (Str × Nat)

/-- `FEMAttribute.to_dict(prefix)`; `pre = []` is `prefix=None`.  The third key is written for time series only
(value `np.array(True)`, tag 1): nothing changes for the other attributes -/
def attrToDict (pre : List Str) (a : Attr) : Dict :=
  [(joinSep '/' (pre ++ [sIds]), a.ids), (joinSep '/' (pre ++ [sData]), a.data)] ++
    (if a.ts then [(joinSep '/' (pre ++ [sTs]), 1)] else [])

def isTsKey (cfg : Cfg) (k : Str) : Bool := cfg.tsFlag && sTs.isSuffixOf k
def isIdsKey (cfg : Cfg) (k : Str) : Bool := if cfg.kindBySuffix then sIds.isSuffixOf k else isInfix sIds k
def isDataKey (cfg : Cfg) (k : Str) : Bool := if cfg.kindBySuffix then sData.isSuffixOf k else isInfix sData k

/-- `FEMAttribute.from_dict`: two entries (with `tsFlag`: two or three); every key is — tested in this order — a
`time_series` key (`tsFlag` only; `kwargs['time_series'] = bool(v)`), an ids key or a data key, anything else raises; a
missing kind is an `UnboundLocalError` — all errors are `none`; without a `time_series` key the flag keeps its default -/
def attrFromDict (cfg : Cfg) (d : Dict) : Option Attr :=
  if d.length != 2 && !(cfg.tsFlag && d.length == 3) then none else
  let r := d.foldl (fun (acc : Option (Option Nat × Option Nat × Bool)) (e : Str × Nat) =>
    match acc with
    | none => none
    | some (i, dt, ts) =>
      if isTsKey cfg e.1 then some (i, dt, e.2 != 0)
      else if isIdsKey cfg e.1 then some (some e.2, dt, ts)
      else if isDataKey cfg e.1 then some (i, some e.2, ts)
      else none) (some (none, none, false))
  match r with
  | some (some i, some dt, ts) => some ⟨i, dt, ts⟩
  | _ => none

/-- the dict without its `time_series` entries: what a two-key scheme can store of it -/
def dropTs (d : Dict) : Dict := d.filter fun e => !sTs.isSuffixOf e.1

/-- a `FEMElementalAttribute`: one `FEMAttribute` per element type -/
abbrev EAttr := List (Str × Attr)

/-- `FEMElementalAttribute.to_dict(prefix)` -/
def eattrToDict (pre : List Str) (e : EAttr) : Dict := e.flatMap fun ta => attrToDict (pre ++ [ta.1]) ta.2

/-- `_extract_element_type`: component 0 of two, component 1 of three, else error -/
def extractType (k : Str) : Option Str :=
  match splitOn '/' k with
  | [t, _] => some t
  | [_, t, _] => some t
  | _ => none

/-- the entries `_split_dict_data` hands to `FEMAttribute.from_dict` for element type `t` -/
def entriesOfType (cfg : Cfg) (d : Dict) (t : Str) : Dict :=
  d.filter fun e => if cfg.typeByComponent then extractType e.1 == some t else isInfix t e.1

/-- the per-type attribute `FEMElementalAttribute.from_dict` builds for type `t` -/
def eattrLookup (cfg : Cfg) (d : Dict) (t : Str) : Option Attr := attrFromDict cfg (entriesOfType cfg d t)

/-- the element types found in a dict (`np.unique` of the extracted types, as a set) -/
def typesOf (d : Dict) : List Str := (d.filterMap fun e => extractType e.1).eraseDups

/-- `FEMAttributes.to_dict` for a collection of nodal attributes -/
def collToDict (c : List (Str × Attr)) : Dict := c.flatMap fun na => attrToDict [na.1] na.2
/-- … and of elemental attributes -/
def ecollToDict (c : List (Str × EAttr)) : Dict := c.flatMap fun ne => eattrToDict [ne.1] ne.2

def firstComp (k : Str) : Str := (splitOn '/' k).headD []

/-- `FEMAttributes._split_dict_data`: the entries of attribute `name` -/
def entriesOfName (d : Dict) (name : Str) : Dict := d.filter fun e => firstComp e.1 == name

def collLookup (cfg : Cfg) (d : Dict) (name : Str) : Option Attr := attrFromDict cfg (entriesOfName d name)
def ecollLookup (cfg : Cfg) (d : Dict) (name t : Str) : Option Attr := eattrLookup cfg (entriesOfName d name) t

end Femio.C05K
