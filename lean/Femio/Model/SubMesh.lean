import Femio.Model.Core
/-! Sub-mesh extraction (C09), transcribed from femio as it is (core Lean only).

* `Attr`          = `FEMAttribute`: parallel arrays `ids` / `data`; `.loc[ids]` = `filterWithIds`
                    (id keyed, `KeyError` when an id is missing), `data[idx]` / `.iloc` = `gatherPos`.
* `EBlocks β`     = `FEMElementalAttribute`: one block per element type in `ELEMENT_TYPES` order, each entity
                    carrying its id, its type tag and a payload (connectivity for elements, a value row for an
                    elemental variable); `flattenE` = `_update_self` (one block: storage order, several: by id).
* `FEM`           = the four observables of a `FEMData`: nodes, elements, nodal_data (without the `NODE`
                    alias, which is the nodes), elemental_data.
Every operation returns `Except Err`, with the exception class the real code raises. -/
namespace Femio.SubMesh
open Core

inductive Err | value | key | index | other
deriving DecidableEq, Repr

/-! ### FEMAttribute -/

structure Attr (α : Type) where
  ids : List Id
  data : List α
deriving Repr, DecidableEq

/-- value bound to an id: position of the id, then the data row at that position (`_data_frame.loc[i]`) -/
def Attr.lookup {α} (a : Attr α) (i : Id) : Option α := (idPos a.ids i).bind (a.data[·]?)

/-- all-or-nothing map (`KeyError` / `IndexError` as soon as one entry is missing) -/
def gather {ι α} (f : ι → Option α) : List ι → Option (List α)
  | [] => some []
  | i :: t =>
    match f i, gather f t with
    | some a, some r => some (a :: r)
    | _, _ => none

/-- fancy indexing `arr[idx]` with non-negative indices -/
def gatherPos {α} (l : List α) (idx : List Nat) : Option (List α) := gather (l[·]?) idx

/-- `FEMAttribute.filter_with_ids(ids)` = `FEMAttribute(name, ids, frame.loc[ids])` -/
def Attr.filterWithIds {α} (a : Attr α) (ids : List Id) : Option (Attr α) :=
  (gather a.lookup ids).map fun d => ⟨ids, d⟩

/-- boolean-mask indexing `arr[mask]` -/
def maskFilter {α} : List Bool → List α → List α
  | b :: bs, x :: xs => if b then x :: maskFilter bs xs else maskFilter bs xs
  | _, _ => []

/-! ### np.unique, np.argsort -/

def insertU (x : Nat) : List Nat → List Nat
  | [] => [x]
  | y :: t => if x < y then x :: y :: t else if x = y then y :: t else y :: insertU x t

/-- `np.unique` of a flat integer array: ascending, duplicate free -/
def uniqueSorted (l : List Nat) : List Nat := l.foldr insertU []

def insertPair (p : Nat × Nat) : List (Nat × Nat) → List (Nat × Nat)
  | [] => [p]
  | q :: t => if p.1 ≤ q.1 then p :: q :: t else q :: insertPair p t

/-- `(id, storage position)` pairs ascending by id -/
def sortedPairs (ids : List Id) : List (Nat × Nat) := ids.zipIdx.foldr insertPair []

/-- `np.argsort(ids)` -/
def argsort (ids : List Id) : List Nat := (sortedPairs ids).map (·.2)

/-! ### FEMElementalAttribute -/

structure Ent (β : Type) where
  id : Id
  ty : Nat
  val : β
deriving Repr, DecidableEq

abbrev EBlocks (β : Type) := List (List (Ent β))

def insertEnt {β} (e : Ent β) : List (Ent β) → List (Ent β)
  | [] => [e]
  | f :: t => if e.id ≤ f.id then e :: f :: t else f :: insertEnt e t

def sortEnts {β} (l : List (Ent β)) : List (Ent β) := l.foldr insertEnt []

/-- `_update_self`: `.ids` / `.data` / `.types` of a `FEMElementalAttribute` -/
def flattenE {β} (blocks : EBlocks β) : List (Ent β) :=
  match blocks with
  | [b] => b
  | bs => sortEnts bs.flatten

/-- number of entries of `ELEMENT_TYPES` -/
def nTypes : Nat := 19

/-- `{t: … for t in ELEMENT_TYPES if t in filtered_types}` with `_filter_with_type` -/
def groupByType {β} (es : List (Ent β)) : EBlocks β :=
  (List.range nTypes).filterMap fun t =>
    let b := es.filter (·.ty == t)
    if b.isEmpty then none else some b

/-- entity with a given id in a flattened attribute: `id2index.loc[i]`, then `data[index]`, `types[index]` -/
def entAt {β} (flat : List (Ent β)) (i : Id) : Option (Ent β) := (idPos (flat.map (·.id)) i).bind (flat[·]?)

/-- `FEMElementalAttribute.filter_with_ids`: ids unknown to the attribute are dropped (`np.isin`), the
    others keep the order of the request -/
def filterElems {β} (blocks : EBlocks β) (ids : List Id) : EBlocks β :=
  let flat := flattenE blocks
  groupByType ((ids.filter fun i => (flat.map (·.id)).contains i).filterMap (entAt flat))

/-- every node id mentioned by the elements, with repetitions -/
def connIds (blocks : EBlocks (List Id)) : List Id := blocks.flatten.flatMap (·.val)

/-! ### FEMData -/

structure FEM (α : Type) where
  nodes : Attr α
  elems : EBlocks (List Id)
  nodal : List (Nat × Attr α)
  elemental : List (Nat × EBlocks α)
deriving Repr, DecidableEq

def filterNodal {α} (vars : List (Nat × Attr α)) (ids : List Id) : Option (List (Nat × Attr α)) :=
  gather (fun (kv : Nat × Attr α) => (kv.2.filterWithIds ids).map fun a => (kv.1, a)) vars

def filterElemental {α} (vars : List (Nat × EBlocks α)) (ids : List Id) : List (Nat × EBlocks α) :=
  vars.map fun kv => (kv.1, filterElems kv.2 ids)

/-- common tail of the three element cuts: nodes and nodal variables by `.loc[node_ids]`, elements and
    elemental variables by `filter_with_ids(element_ids)` -/
def assemble {α} (m : FEM α) (nodeIds eids : List Id) : Except Err (FEM α) :=
  match m.nodes.filterWithIds nodeIds with
  | none => .error .key
  | some ns =>
    match filterNodal m.nodal nodeIds with
    | none => .error .key
    | some nd => .ok ⟨ns, filterElems m.elems eids, nd, filterElemental m.elemental eids⟩

/-- `cut_with_element_ids` -/
def cutElemIds {α} (m : FEM α) (sel : List Id) : Except Err (FEM α) :=
  let fe := filterElems m.elems sel
  if fe.isEmpty then .error .value          -- `np.concatenate([])`
  else assemble m (uniqueSorted (connIds fe)) sel

/-- `cut_with_element_type`: `self.elements[t].ids` (`KeyError` when the type is absent) -/
def cutElemType {α} (m : FEM α) (t : Nat) : Except Err (FEM α) :=
  match m.elems.find? (fun b => b.any (·.ty == t)) with
  | none => .error .key
  | some b => cutElemIds m (b.map (·.id))

/-- `cut_elements_with_node_ids` / `_elements_exist`: elements (flattened order) all of whose nodes are selected -/
def elemsInside (m : FEM α) (sel : List Id) : List Id :=
  ((flattenE m.elems).filter fun e => e.val.all fun n => sel.contains n).map (·.id)

/-- `cut_with_node_ids` -/
def cutNodeIds {α} (m : FEM α) (sel : List Id) : Except Err (FEM α) :=
  if sel.isEmpty then .error .value         -- an empty `.loc[[]]` frame cannot be reshaped
  else assemble m sel (elemsInside m sel)

/-- `extract_with_element_indices`: positions in the flattened element order -/
def extractIdx {α} (m : FEM α) (idx : List Nat) : Except Err (FEM α) :=
  match gatherPos (flattenE m.elems) idx with
  | none => .error .index
  | some picked =>
    if picked.isEmpty then .error .value
    else assemble m (uniqueSorted (picked.flatMap (·.val))) (picked.map (·.id))

/-- the two-pointer loop of `remove_useless_nodes`; `none` = the `IndexError` raised when the scan runs off
    the end of the node ids while useful ids remain -/
def sweepE : List Nat → List Nat → Option (List Bool)
  | os, [] => some (os.map fun _ => false)
  | [], _ :: _ => none
  | o :: os, u :: us =>
    if o ≠ u then (sweepE os (u :: us)).map (false :: ·) else (sweepE os us).map (true :: ·)

/-- positional re-slicing `value.data[useful_indices]`, re-keyed with the new node ids -/
def resliceNodal {α} (vars : List (Nat × Attr α)) (newIds : List Id) (idx : List Nat) : Option (List (Nat × Attr α)) :=
  gather (fun (kv : Nat × Attr α) => (gatherPos kv.2.data idx).map fun d => (kv.1, (⟨newIds, d⟩ : Attr α))) vars

/-- `remove_useless_nodes` (in place in femio; here the new state is returned) -/
def removeUselessNodes {α} (m : FEM α) : Except Err (FEM α) :=
  let useful := uniqueSorted (connIds m.elems)
  let order := argsort m.nodes.ids
  let orig := (sortedPairs m.nodes.ids).map (·.1)
  if orig.length = useful.length then
    if orig = useful then .ok m else .error .value
  else
    match sweepE orig useful with
    | none => .error .index
    | some mask =>
      let usefulIdx := maskFilter mask order
      match gatherPos m.nodes.ids usefulIdx, gatherPos m.nodes.data usefulIdx with
      | some ids, some data =>
        match resliceNodal m.nodal ids usefulIdx with
        | some nd => .ok ⟨⟨ids, data⟩, m.elems, nd, m.elemental⟩
        | none => .error .index
      | _, _ => .error .index

/-- `FEMElementalAttribute.to_first_order`: `tet2` (index 9) keeps 4 nodes, `hex2` (index 15) keeps 8, any
    other type whose name contains `'2'` raises `ValueError`; the type label is kept -/
def firstOrderEnt (isSecond : Nat → Bool) (e : Ent (List Id)) : Option (Ent (List Id)) :=
  if !isSecond e.ty then some e
  else if e.ty = 9 then some { e with val := e.val.take 4 }
  else if e.ty = 15 then some { e with val := e.val.take 8 }
  else none

def firstOrderBlock (isSecond : Nat → Bool) (b : List (Ent (List Id))) : Option (List (Ent (List Id))) :=
  gather (firstOrderEnt isSecond) b

/-- `to_first_order` / `filter_first_order_nodes` -/
def toFirstOrder {α} (isSecond : Nat → Bool) (m : FEM α) : Except Err (FEM α) :=
  if m.elems.all (fun b => b.all fun e => !isSecond e.ty) then .ok m
  else
    match gather (firstOrderBlock isSecond) m.elems with
    | none => .error .value
    | some fe =>
      let first := connIds fe
      let mask := m.nodes.ids.map fun i => first.contains i          -- `np.isin(self.nodes.ids, first_order_ids)`
      .ok ⟨⟨maskFilter mask m.nodes.ids, maskFilter mask m.nodes.data⟩, fe,
           m.nodal.filterMap (fun kv =>
             if kv.2.ids.length = mask.length then some (kv.1, ⟨maskFilter mask kv.2.ids, maskFilter mask kv.2.data⟩)
             else none),
           m.elemental⟩

/-! ### facets -/

def lexLt : List Nat → List Nat → Bool
  | [], [] => false
  | [], _ :: _ => true
  | _ :: _, [] => false
  | a :: s, b :: t => a < b || (a == b && lexLt s t)

def insertNat (x : Nat) : List Nat → List Nat
  | [] => [x]
  | y :: t => if x ≤ y then x :: y :: t else y :: insertNat x t

/-- `np.sort(facet)` -/
def faceKey (f : List Nat) : List Nat := f.foldr insertNat []

def insertFacet (f : List Nat) : List (List Nat) → List (List Nat)
  | [] => [f]
  | g :: t => if lexLt (faceKey g) (faceKey f) then g :: insertFacet f t else f :: g :: t

/-- rows ordered as `np.unique(sorted_rows, axis=0)` orders them (keys pairwise distinct at the call sites) -/
def sortFacets (fs : List (List Nat)) : List (List Nat) := fs.foldr insertFacet []

/-- first occurrence of every key (`return_index=True`) -/
def firstOccurrences : List (List Nat) → List (List Nat) → List (List Nat)
  | _, [] => []
  | seen, f :: t =>
    if seen.contains (faceKey f) then firstOccurrences seen t else f :: firstOccurrences (faceKey f :: seen) t

/-- `functions.remove_duplicates` -/
def removeDuplicates (fs : List (List Nat)) : List (List Nat) := sortFacets (firstOccurrences [] fs)

/-- `_extract_surface`: rows whose key occurs once, in `np.unique` order -/
def onceOnly (fs : List (List Nat)) : List (List Nat) :=
  let keys := fs.map faceKey
  sortFacets (fs.filter fun f => keys.count (faceKey f) == 1)

/-- all facets with `w` vertices, block after block (`_generate_all_faces` with `np.concatenate`), `none` for
    an element type without a face table (`NotImplementedError`) -/
def facetsOfWidth (faceTable : Nat → Option (List (List Nat))) (blocks : EBlocks (List Id)) (w : Nat) :
    Option (List (List Id)) :=
  (gather (fun (e : Ent (List Id)) => (faceTable e.ty).map fun tbl =>
      (tbl.filter (·.length == w)).map fun f => f.filterMap (e.val[·]?)) blocks.flatten).map List.flatten

def numberFrom {β} (start ty : Nat) (rows : List β) : List (Ent β) :=
  rows.zipIdx.map fun (r, k) => ⟨start + k + 1, ty, r⟩

/-- `FEMElementalAttribute.to_surface` for triangle and quadrangle rows: `tri` ids `1..a`, `quad` ids `a+1..` -/
def surfaceElems (tris quads : List (List Id)) : EBlocks (List Id) :=
  [numberFrom 0 3 tris, numberFrom tris.length 5 quads].filter (!·.isEmpty)

/-- `to_surface` -/
def toSurface {α} (faceTable : Nat → Option (List (List Nat))) (m : FEM α) : Except Err (FEM α) :=
  match facetsOfWidth faceTable m.elems 3, facetsOfWidth faceTable m.elems 4 with
  | some t3, some t4 =>
    let tris := onceOnly t3
    let quads := onceOnly t4
    -- a mesh without any once-only facet: `np.concatenate([])` / reshape of an empty frame
    if tris.isEmpty && quads.isEmpty then .error .value else
    -- ids -> storage positions (`ids2indices`), unique positions, and back to ids
    match gather (gather (idPos m.nodes.ids)) tris, gather (gather (idPos m.nodes.ids)) quads with
    | some pt, some pq =>
      let uniq := uniqueSorted (pt.flatten ++ pq.flatten)
      match gatherPos m.nodes.ids uniq, gatherPos m.nodes.data uniq,
            gather (gatherPos m.nodes.ids) pt, gather (gatherPos m.nodes.ids) pq with
      | some ids, some data, some st, some sq =>
        match resliceNodal (m.nodal.filter fun kv => kv.2.ids.length == m.nodes.ids.length) ids uniq with
        | some nd => .ok ⟨⟨ids, data⟩, surfaceElems st sq, nd, []⟩
        | none => .error .index
      | _, _, _, _ => .error .index
    | _, _ => .error .key
  | _, _ => .error .other

/-- `to_facets` (`remove_duplicates=True`): every node and nodal variable is kept -/
def toFacets {α} (faceTable : Nat → Option (List (List Nat))) (m : FEM α) : Except Err (FEM α) :=
  match facetsOfWidth faceTable m.elems 3, facetsOfWidth faceTable m.elems 4 with
  | some t3, some t4 => .ok ⟨m.nodes, surfaceElems (removeDuplicates t3) (removeDuplicates t4), m.nodal, []⟩
  | _, _ => .error .other

/-- `to_surface(remove_unnecessary_nodes=False)`: the same surface elements (ids -> storage positions -> ids, with the
    same exceptions), every node and every nodal variable is kept as it is -/
def toSurfaceKeep {α} (faceTable : Nat → Option (List (List Nat))) (m : FEM α) : Except Err (FEM α) :=
  match facetsOfWidth faceTable m.elems 3, facetsOfWidth faceTable m.elems 4 with
  | some t3, some t4 =>
    let tris := onceOnly t3
    let quads := onceOnly t4
    if tris.isEmpty && quads.isEmpty then .error .value else
    match gather (gather (idPos m.nodes.ids)) tris, gather (gather (idPos m.nodes.ids)) quads with
    | some pt, some pq =>
      match gather (gatherPos m.nodes.ids) pt, gather (gatherPos m.nodes.ids) pq with
      | some st, some sq => .ok ⟨m.nodes, surfaceElems st sq, m.nodal, []⟩
      | _, _ => .error .index
    | _, _ => .error .key
  | _, _ => .error .other

/-- `to_facets(remove_duplicates=False)`: every face of every element, shared faces once per element -/
def toFacetsAll {α} (faceTable : Nat → Option (List (List Nat))) (m : FEM α) : Except Err (FEM α) :=
  match facetsOfWidth faceTable m.elems 3, facetsOfWidth faceTable m.elems 4 with
  | some t3, some t4 => .ok ⟨m.nodes, surfaceElems t3 t4, m.nodal, []⟩
  | _, _ => .error .other

/-- the one-integer facet key `Σ id_k · base^(m-1-k)` (Horner form).  NOT what femio uses (`np.unique(axis=0)` compares
    the rows, = `faceKey`): it identifies rows only while every id is below `base` (`Props/C09.lean`) -/
def radixKey (base : Nat) (row : List Nat) : Nat := row.foldl (fun k d => k * base + d) 0

/-! ### id-keyed observation (what the property and the correspondence look at) -/

def FEM.elemAt {α} (m : FEM α) (i : Id) : Option (Ent (List Id)) := m.elems.flatten.find? (·.id == i)
def FEM.nodalAt {α} (m : FEM α) (name : Nat) (i : Id) : Option α :=
  (m.nodal.find? (·.1 == name)).bind fun kv => kv.2.lookup i
def FEM.elementalAt {α} (m : FEM α) (name : Nat) (i : Id) : Option α :=
  (m.elemental.find? (·.1 == name)).bind fun kv => (kv.2.flatten.find? (·.id == i)).map (·.val)

end Femio.SubMesh
