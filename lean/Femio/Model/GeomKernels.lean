import Femio.Model.Core
import Femio.Model.Geom
import Femio.Model.Geom2
/-! C11: the remaining kernels of femio/geometry_processor.py (core Lean only), the per-type / per-mode
    dispatch of `calculate_element_areas / _volumes / _normals`, and the id → position lookup
    (`collect_node_positions_by_ids`).

    Conventions (as in `Model/Geom.lean`): only `+ − *` inside a kernel.
    * volumes are returned as a fixed integer multiple (`VolNF.den`) of the signed volume;
    * areas in radical normal form  `area = (Σ_k √q_k) / den`  with polynomial radicands `q_k`;
    * normals as the un-normalised vector `c` (the code returns `c / √|c|²`). -/
namespace Femio.C11
open V3 Geom

section Kernels
variable {R : Type} [Zero R] [Add R] [Sub R] [Mul R]

def vzero : V3 R := ⟨0, 0, 0⟩
/-- `np.sum(…, axis=0)` of a list of vectors -/
def vsum (l : List (V3 R)) : V3 R := l.foldr V3.add vzero

/-- pairs `(l[i-1], l[i])` for `i = 0 … n-1` with Python's cyclic `l[-1]` -/
def cycPairs {α : Type} (l : List α) : List (α × α) :=
  match l.getLast? with
  | none => []
  | some z => List.zip (z :: l.dropLast) l

/-- pairs `(l[i-1], l[i])` for `i = 1 … n-1` -/
def consecPairs {α : Type} (l : List α) : List (α × α) := List.zip l l.tail

/-! ### shells -/

/-- `_calculate_element_areas_tri`: area = √q / 2 -/
def triRad (p0 p1 p2 : V3 R) : R := normSq (triCross p0 p1 p2)

/-- `_calculate_element_areas_quad` ("linear"): area = (√q₁ + √q₂) / 2 -/
def quadLinRads (p0 p1 p2 p3 : V3 R) : List R :=
  [normSq (quadLinCross1 p0 p1 p2 p3), normSq (quadLinCross2 p0 p1 p2 p3)]

/-- `_calculate_element_areas_quad_gaussian`: area = (Σ √q_k) / 16 over the Gauss points
    `(p,p), (−p,p), (p,−p), (−p,−p)`; the abscissa `p` is a parameter (the code has the literal 0.5773502692) -/
def quadGaussRads (one p : R) (p0 p1 p2 p3 : V3 R) : List R :=
  let m := (one - one) - p
  [normSq (quadGaussCross one p p p0 p1 p2 p3), normSq (quadGaussCross one m p p0 p1 p2 p3),
   normSq (quadGaussCross one p m p0 p1 p2 p3), normSq (quadGaussCross one m m p0 p1 p2 p3)]

/-- `_calculate_element_areas_quad_centroid`: area = √q / 32 (`quadCrossC` is 16 × the summed cross products) -/
def quadCRad (four : R) (p0 p1 p2 p3 : V3 R) : R := normSq (quadCrossC p0 p1 p2 p3 four)

/-- `_trianglate_polygon` + `_calculate_tri_crosses` summed: Σ_{i} (p_{i+1} − p₀) × (p_{i+2} − p₀) -/
def polyFanCross : List (V3 R) → V3 R
  | [] => vzero
  | a :: rest => vsum ((consecPairs rest).map fun (b, c) => triCross a b c)

/-- `_calculate_polygon_cross_centroid` times n²: Σ_i (n·p_{i−1} − S) × (n·p_i − S), `S = Σ p`, `nR = n` -/
def polyCentroidCross (nR : R) (pts : List (V3 R)) : V3 R :=
  let s := vsum pts
  vsum ((cycPairs pts).map fun (u, v) => cross (V3.sub (smul nR u) s) (V3.sub (smul nR v) s))

/-- quad, `mode ≠ "centroid"`: `crosses1 + crosses2` -/
def quadLinNormal (p0 p1 p2 p3 : V3 R) : V3 R :=
  V3.add (quadLinCross1 p0 p1 p2 p3) (quadLinCross2 p0 p1 p2 p3)

/-! ### solids given by face lists (`polyhedron`) -/

/-- one face of `_calculate_element_volumes_polyhedron_core`: Σ_{i=2}^{k−1} det(F₀, F_{i−1}, F_i) -/
def faceFan6 : List (V3 R) → R
  | [] => 0
  | a :: rest => ((consecPairs rest).map fun (b, c) => V3.det a b c).sum

/-- `_calculate_element_volumes_polyhedron_core`: 6·V -/
def polyFan6 (faces : List (List (V3 R))) : R := (faces.map faceFan6).sum

/-- one face of the centroid kernel times k: Σ_i det(S, F_{i−1}, F_i) with `S = Σ F` -/
def faceCentroidK (f : List (V3 R)) : R :=
  let s := vsum f
  ((cycPairs f).map fun (u, v) => V3.det s u v).sum

/-- `_calculate_element_volumes_polyhedron_centroid_core`: 6·V; `kinv k` stands for `1/k` -/
def polyC6 (kinv : Nat → R) (faces : List (List (V3 R))) : R :=
  (faces.map fun f => kinv f.length * faceCentroidK f).sum

end Kernels

/-! ### dispatch: what `calculate_element_volumes(mode=…)` evaluates for each element type -/

inductive Mode | linear | gaussian | centroid
deriving DecidableEq, Repr

/-- the literal in `_calculate_element_volumes_hex_gaussian` / `_calculate_element_areas_quad_gaussian` -/
def gaussP : Rat := mkRat 5773502692 10000000000

/-- value of a kernel as (integer multiple, the multiplier): volume = num / den -/
structure VolNF where
  num : Rat
  den : Rat

def VolNF.val (v : VolNF) : Rat := v.num / v.den

/-- `calculate_element_volumes`: element type name (as in `ELEMENT_TYPES`) × mode × node positions.
    `none` = the type is not handled (`NotImplementedError`) or the arity is wrong. -/
def volume (ty : String) (mode : Mode) (p : List (V3 Rat)) : Option VolNF :=
  match ty, p with
  | "tet", [p0, p1, p2, p3] => some ⟨tet6 p0 p1 p2 p3, 6⟩
  | "tet2", p0 :: p1 :: p2 :: p3 :: _ => if p.length = 10 then some ⟨tet6 p0 p1 p2 p3, 6⟩ else none
  | "hex", [p0, p1, p2, p3, p4, p5, p6, p7] =>
    match mode with
    | .linear => some ⟨hexLin6 p0 p1 p2 p3 p4 p5 p6 p7, 6⟩
    | .gaussian => some ⟨hexGauss512 1 gaussP p0 p1 p2 p3 p4 p5 p6 p7, 512⟩
    | .centroid => some ⟨hexC24 p0 p1 p2 p3 p4 p5 p6 p7, 24⟩
  | "pyr", [p0, p1, p2, p3, p4] =>
    match mode with
    | .centroid => some ⟨pyrC24 4 p0 p1 p2 p3 p4, 24⟩
    | _ => some ⟨pyrLin6 p0 p1 p2 p3 p4, 6⟩
  | "prism", [p0, p1, p2, p3, p4, p5] =>
    match mode with
    | .centroid => some ⟨prismC24 4 p0 p1 p2 p3 p4 p5, 24⟩
    | _ => some ⟨prismLin6 p0 p1 p2 p3 p4 p5, 6⟩
  | "hexprism", [q0, q1, q2, q3, q4, q5, q6, q7, q8, q9, q10, q11] =>
    -- both branches of the code call the same kernel
    some ⟨hexLin6 q0 q1 q2 q3 q6 q7 q8 q9 + hexLin6 q0 q3 q4 q5 q6 q9 q10 q11, 6⟩
  | _, _ => none

/-- `calculate_element_volumes` for `polyhedron`: faces as lists of positions -/
def volumePoly (mode : Mode) (faces : List (List (V3 Rat))) : VolNF :=
  match mode with
  | .centroid => ⟨polyC6 (fun k => 1 / (k : Rat)) faces, 6⟩
  | _ => ⟨polyFan6 faces, 6⟩

/-- area in radical normal form: area = (Σ √q) / den -/
structure AreaNF where
  rads : List Rat
  den : Rat

/-- `calculate_element_areas`.  NB the `polygon` branch is transcribed as written: `mode == "centroid"`
    calls the *fan* kernel and every other mode the centroid kernel. -/
def area (ty : String) (mode : Mode) (p : List (V3 Rat)) : Option AreaNF :=
  match ty, p with
  | "tri", [p0, p1, p2] => some ⟨[triRad p0 p1 p2], 2⟩
  | "quad", [p0, p1, p2, p3] =>
    match mode with
    | .linear => some ⟨quadLinRads p0 p1 p2 p3, 2⟩
    | .gaussian => some ⟨quadGaussRads 1 gaussP p0 p1 p2 p3, 16⟩
    | .centroid => some ⟨[quadCRad 4 p0 p1 p2 p3], 32⟩
  | "polygon", _ =>
    if p.length < 3 then none else
    match mode with
    | .centroid => some ⟨[normSq (polyFanCross p)], 2⟩
    | _ => some ⟨[normSq (polyCentroidCross (p.length : Rat) p)], 2 * (p.length : Rat) * (p.length : Rat)⟩
  | _, _ => none

/-- `calculate_element_normals` before normalisation: the vector `c`; the code returns `c / ‖c‖` -/
def normal (ty : String) (mode : Mode) (p : List (V3 Rat)) : Option (V3 Rat) :=
  match ty, p with
  | "tri", [p0, p1, p2] => some (triCross p0 p1 p2)
  | "quad", [p0, p1, p2, p3] =>
    match mode with
    | .centroid => some (quadCrossC p0 p1 p2 p3 4)
    | _ => some (quadLinNormal p0 p1 p2 p3)
  | "polygon", _ =>
    if p.length < 3 then none else
    match mode with
    | .centroid => some (polyCentroidCross (p.length : Rat) p)
    | _ => some (polyFanCross p)     -- `np.mean` of the fan crosses: same direction
  | _, _ => none

/-! ### `collect_node_positions_by_ids`: id → storage index → row of `nodes.data` -/

section Lookup
variable {α : Type}

/-- `self.nodes.data[self.dict_node_id2index[id]]` -/
def nodePos (nodes : List (Nat × α)) (i : Nat) : Option α :=
  (Core.idPos (nodes.map (·.1)) i).bind fun k => (nodes.map (·.2))[k]?

/-- positions of the nodes of one element, in connectivity order -/
def gather (nodes : List (Nat × α)) (conn : List Nat) : Option (List α) := conn.mapM (nodePos nodes)

/-- a kernel applied to every element: (element id, value) in storage order -/
def elemMetrics {β : Type} (K : List α → Option β) (nodes : List (Nat × α)) (elems : List (Nat × List Nat)) :
    List (Nat × Option β) :=
  elems.map fun e => (e.1, (gather nodes e.2).bind K)

end Lookup

/-! ### mixed meshes: how the per-type results are put together

`out = zeros(len(elements)); for k, e in elements.items(): out[elements.types == k] = partial_k`
where `elements.ids / .types` are sorted by element id (`_update_self`) but `partial_k` is in the *storage
order of block k*.  So the r-th smallest id of type k receives the r-th stored value of block k: values
are bound to the wrong elements unless every block is stored in ascending id order.  `Cfg.alignById` is
the repair (assign through the element ids). -/

structure Cfg where
  alignById : Bool
deriving DecidableEq, Repr

def Cfg.upstream : Cfg := ⟨false⟩
def Cfg.fixed : Cfg := ⟨true⟩

def insertNat (a : Nat) : List Nat → List Nat
  | [] => [a]
  | b :: t => if a ≤ b then a :: b :: t else b :: insertNat a t
def sortNat (l : List Nat) : List Nat := l.foldr insertNat []

def insertKey {β : Type} (a : Nat × β) : List (Nat × β) → List (Nat × β)
  | [] => [a]
  | b :: t => if a.1 ≤ b.1 then a :: b :: t else b :: insertKey a t
def sortKey {β : Type} (l : List (Nat × β)) : List (Nat × β) := l.foldr insertKey []

/-- what one type block contributes: (element id, value bound to it) -/
def assembleBlock {β : Type} (cfg : Cfg) (b : List (Nat × β)) : List (Nat × β) :=
  if cfg.alignById then b else (sortNat (b.map (·.1))).zip (b.map (·.2))

/-- per-element results of a mesh: one block = storage order; several = ascending element id -/
def assemble {β : Type} (cfg : Cfg) (blocks : List (List (Nat × β))) : List (Nat × β) :=
  match blocks with
  | [b] => b
  | bs => sortKey (bs.flatMap (assembleBlock cfg))

/-- `calculate_element_areas` / `_normals` on a mixed mesh call the per-type routine *without* `mode`,
    i.e. always with the default "centroid"; `calculate_element_volumes` passes `mode` on -/
def shellModeInMesh (nBlocks : Nat) (mode : Mode) : Mode := if nBlocks = 1 then mode else .centroid

end Femio.C11
