import Femio.Model.FistrMsh
/-! History model for C01 (core Lean only): ONE live object and ONE output name on disk.

`FEMData.write('fistr', name, overwrite=…)` in a history: between its construction and a write the object is modified
through public means (in-place edits through `.data`, setters, `loc` / `iloc` write-through, `update`, `overwrite` —
all abstracted as "the public state becomes `m'`"), somebody may have left another file under the output name (an
earlier export of another mesh), and the same object is written several times.  The writer is a function of the
object's CURRENT public state, leaves the object as it is, refuses an existing file unless `overwrite=True`, and
REPLACES the file (`write_string(..., mode='w')` for the header; seeded change C01-6 made it append).
`Cfg.truncate = false` is the appending writer, kept for the `decide`d counterexample. -/

namespace Femio.Fistr.Hist

/-- the live object's public state and what the output name holds (`none`: no such file) -/
structure St where
  obj : MshIn
  file : Option (List Line)

inductive Op where
  /-- any public modification of the object: its state becomes `m'` -/
  | modify (m' : MshIn)
  /-- another program / an earlier run leaves `text` under the output name -/
  | place (text : List Line)
  /-- the output name is removed -/
  | remove
  /-- `fem_data.write('fistr', name, overwrite=ow)` -/
  | write (ow : Bool)

structure Cfg where
  /-- the first `write_string` of `write_msh` opens the file with `mode='w'` -/
  truncate : Bool

/-- femio as it is -/
def Cfg.fixed : Cfg := ⟨true⟩

/-- the text a write leaves under the name, `none` when the writer raises (existing file without `overwrite=True`, or
    `writeMsh` itself raises) -/
def written (cfg : Cfg) (s : St) (ow : Bool) : Option (List Line) :=
  if !ow && s.file.isSome then none
  else (writeMsh s.obj).map fun t => if cfg.truncate then t else s.file.getD [] ++ t

/-- one step; a write that raises leaves object and file as they were -/
def step (cfg : Cfg) (s : St) : Op → St
  | .modify m' => { s with obj := m' }
  | .place t => { s with file := some t }
  | .remove => { s with file := none }
  | .write ow => match written cfg s ow with
    | some t => { s with file := some t }
    | none => s

def run (cfg : Cfg) (s : St) (ops : List Op) : St := ops.foldl (step cfg) s

/-- the state the last `modify` of a history left (the object's current public state) -/
def lastObj (m : MshIn) : List Op → MshIn
  | [] => m
  | .modify m' :: ops => lastObj m' ops
  | _ :: ops => lastObj m ops

end Femio.Fistr.Hist
