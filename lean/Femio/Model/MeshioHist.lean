import Femio.Model.Meshio
/-! Histories on ONE live object before a VTK export (C06; core Lean only).

The real export does not translate node ids with `nodes.ids` but with the CACHED table `nodes.id2index`
(`FEMAttribute.ids2indices`: `id2index.loc[ids]`), which femio rebuilds in `__init__` and in the `data_frame` setter
(`update`, …) — and, before /repo 087b16e, NOT in the public `ids` setter (`Cfg.idsSetterRefreshes = false` = `Cfg.upstream`;
finding `C06-ids-setter-stale-id2index`, found by the `history` stream of `harness/c06.py`; the repaired tree is `Cfg.fixed`).  The object of the model is therefore the public state (`VtkIn`) PLUS that table, the
modifiers are the public ways of changing the object, and the export reads the table.  `exportObj` is `toMeshio` with
`idPos nodes.ids` replaced by a lookup in the table; the export step itself leaves the object alone. -/
namespace Femio.MeshioHist
open Core Femio.SubMesh Femio.Meshio

/-- which repair the tree implements (detected by the harness: `c06.ids_setter_refreshes`) -/
structure Cfg where
  idsSetterRefreshes : Bool
deriving Repr, DecidableEq

def Cfg.fixed : Cfg := ⟨true⟩
def Cfg.upstream : Cfg := ⟨false⟩

/-- `pd.DataFrame(np.arange(len(ids)), index=ids)` -/
def mkTableFrom : Nat → List Id → List (Id × Nat)
  | _, [] => []
  | n, a :: t => (a, n) :: mkTableFrom (n + 1) t

def mkTable (ids : List Id) : List (Id × Nat) := mkTableFrom 0 ids

/-- `id2index.loc[i]` (unique index: the first row labelled `i`; `KeyError` when there is none) -/
def tableLookup : List (Id × Nat) → Id → Option Nat
  | [], _ => none
  | (a, k) :: t, i => if a = i then some k else tableLookup t i

/-- `Femio.Meshio.cellBlock` with the id → position translation as a parameter -/
def cellBlockWith (typeName : Nat → Option (List Char)) (tet2Perm : List Nat) (pos : Id → Option Nat)
    (b : List (Ent (List Id))) : Except Err CellBlock :=
  match b with
  | [] => .error .other
  | e0 :: _ =>
    match gather (fun (e : Ent (List Id)) => vtkOrder tet2Perm e0.ty e.val) b with
    | none => .error .index
    | some rows =>
      match gather (gather pos) rows with
      | none => .error .key
      | some idx =>
        match typeName e0.ty with
        | none => .error .key
        | some nm => .ok ⟨e0.ty, nm, idx⟩

def cellBlocksWith (typeName : Nat → Option (List Char)) (tet2Perm : List Nat) (pos : Id → Option Nat) :
    EBlocks (List Id) → Except Err (List CellBlock)
  | [] => .ok []
  | b :: bs =>
    match cellBlockWith typeName tet2Perm pos b, cellBlocksWith typeName tet2Perm pos bs with
    | .ok c, .ok cs => .ok (c :: cs)
    | .error e, _ => .error e
    | _, .error e => .error e

/-- the live object: its public state and the cached lookup table of its nodes -/
structure Obj (α : Type) where
  pub : VtkIn α
  id2index : List (Id × Nat)

/-- `FEMData(nodes=…, elements=…)` + nodal variables: the table is built from the ids -/
def fresh {α} (m : VtkIn α) : Obj α := ⟨m, mkTable m.nodes.ids⟩

/-- `FEMData.to_meshio()` / `write('vtk')` on the live object -/
def exportObj {α} (typeName : Nat → Option (List Char)) (tet2Perm : List Nat) (o : Obj α) : Except Err (Out α) :=
  match cellBlocksWith typeName tet2Perm (tableLookup o.id2index) o.pub.elems with
  | .error e => .error e
  | .ok cs => .ok ⟨o.pub.nodes.data, cs, (o.pub.nodal.filter (·.rank < 3)).map fun v => (v.name, v.attr.data)⟩

/-- the public ways of changing the object between construction and an export (arguments arbitrary) -/
inductive Op (α : Type) where
  /-- coordinates changed, ids kept: in-place edit through `nodes.data`, `nodes.data = …`, `update_data`, write-through of a
      `loc` / `iloc` slice (`_update_parent`) — none of them touches the index or the table -/
  | editNodeData (f : List α → List α)
  /-- `data_frame` setter (`nodes.update(ids, values, allow_overwrite=True)`, which may re-sort / add rows): table rebuilt -/
  | setNodeFrame (ids : List Id) (data : List α)
  /-- `nodes.ids = …` -/
  | setNodeIds (ids : List Id)
  /-- any change of the element blocks (in-place, setter, `loc`, `elements.update({...})`, new / dropped blocks) -/
  | editElems (f : EBlocks (List Id) → EBlocks (List Id))
  /-- any change of the nodal variables (in-place, setter, `loc`, `update`, `overwrite`, new / popped keys) -/
  | editNodal (f : List (NodalVar α) → List (NodalVar α))
  /-- an export (or any other read-only query) in the middle of the history -/
  | doExport

def Op.isSetNodeIds {α} : Op α → Bool
  | .setNodeIds _ => true
  | _ => false

def Op.isExport {α} : Op α → Bool
  | .doExport => true
  | _ => false

def step {α} (cfg : Cfg) (o : Obj α) : Op α → Obj α
  | .editNodeData f => { o with pub := { o.pub with nodes := ⟨o.pub.nodes.ids, f o.pub.nodes.data⟩ } }
  | .setNodeFrame ids d => ⟨{ o.pub with nodes := ⟨ids, d⟩ }, mkTable ids⟩
  | .setNodeIds ids =>
    ⟨{ o.pub with nodes := ⟨ids, o.pub.nodes.data⟩ }, if cfg.idsSetterRefreshes then mkTable ids else o.id2index⟩
  | .editElems f => { o with pub := { o.pub with elems := f o.pub.elems } }
  | .editNodal f => { o with pub := { o.pub with nodal := f o.pub.nodal } }
  | .doExport => o

def run {α} (cfg : Cfg) (o : Obj α) (ops : List (Op α)) : Obj α := ops.foldl (step cfg) o

end Femio.MeshioHist
