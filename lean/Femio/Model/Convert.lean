import Femio.Model.Core
/-! C14: `convert_nodal2elemental(calc_average=True)` and `convert_elemental2nodal` of
    femio/signal_processor.py over an arbitrary field (core Lean only; executed at `Rat` by the driver).

    A field of width `w` is converted column by column, so the model is stated for one column.
    The incidence matrix is a Boolean relation `inc i j` (node at storage position `i` belongs to the
    element at position `j` of the flattened element order); for a mesh it is `incOfPairs` of
    `Core.incidence` (= `calculate_incidence_matrix`). -/
namespace Femio.C14

section
variable {R : Type} [Zero R] [One R] [Add R] [Mul R] [Div R] [NatCast R]

/-- `nodal_data[self.nodes.ids2indices(nodes), :]` for one element: the values of its own nodes -/
def gatherVals (nodeIds : List Nat) (vals : List R) (conn : List Nat) : Option (List R) :=
  conn.mapM fun i => (Core.idPos nodeIds i).bind fun k => vals[k]?

/-- `np.mean(…, axis=1)` -/
def meanL (l : List R) : R := l.sum / (l.length : R)

/-- `convert_nodal2elemental(data, calc_average=True)` for one element and one column -/
def nodal2elemental (nodeIds : List Nat) (vals : List R) (conn : List Nat) : Option R :=
  (gatherVals nodeIds vals conn).map meanL

/-- Σ_{j<n} f j -/
def sumTo (n : Nat) (f : Nat → R) : R := ((List.range n).map f).sum

/-- `incidence_matrix.multiply(metrics.T)`: entry (i,j) -/
def metricInc (inc : Nat → Nat → Bool) (m : Nat → R) (i j : Nat) : R := if inc i j then m j else 0

/-- mode = 'mean': `metric_incidence.multiply(1 / metric_incidence.sum(axis=1))`, entry (i,j); `e` = #elements -/
def meanWeight (e : Nat) (inc : Nat → Nat → Bool) (m : Nat → R) (i j : Nat) : R :=
  metricInc inc m i j * (1 / sumTo e (metricInc inc m i))

/-- mode = 'mean': row `i` of `weighted_incidence_matrix.dot(elemental_data)` -/
def e2nMean (e : Nat) (inc : Nat → Nat → Bool) (m x : Nat → R) (i : Nat) : R :=
  sumTo e fun j => meanWeight e inc m i j * x j

/-- 0/1 entry of the Boolean incidence matrix -/
def ind (b : Bool) : R := if b then 1 else 0

/-- mode = 'effective': `incidence.multiply(1 / incidence.sum(axis=0))`, entry (i,j); `n` = #nodes -/
def effWeight (n : Nat) (inc : Nat → Nat → Bool) (i j : Nat) : R :=
  ind (inc i j) * (1 / sumTo n fun k => ind (inc k j))

/-- mode = 'effective': row `i` of the result -/
def e2nEffective (n e : Nat) (inc : Nat → Nat → Bool) (x : Nat → R) (i : Nat) : R :=
  sumTo e fun j => effWeight n inc i j * x j

end

/-- the Boolean matrix of a list of (row, col) entries (`sp.csr_matrix((True…, (rows, cols)))`) -/
def incOfPairs (ps : List (Nat × Nat)) (i j : Nat) : Bool := ps.contains (i, j)

end Femio.C14
