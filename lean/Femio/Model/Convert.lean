import Femio.Model.Core
/-! C14: `convert_nodal2elemental(calc_average=True)` and `convert_elemental2nodal` of
    femio/signal_processor.py over an arbitrary field (core Lean only; executed at `Rat` by the driver).

    A field of width `w` is converted column by column, so the model is stated for one column.
    The incidence matrix is a Boolean relation `inc i j` (node at storage position `i` belongs to the
    element at position `j` of the flattened element order); for a mesh it is `incOfPairs` of
    `Core.incidence` (= `calculate_incidence_matrix`). -/
namespace Femio.C14

section
variable {R : Type} [Zero R] [One R] [Add R] [Mul R] [Div R] [NatCast R]

/-- `nodal_data[self.nodes.ids2indices(nodes), :]` for one element: the values of its own nodes -/
def gatherVals (nodeIds : List Nat) (vals : List R) (conn : List Nat) : Option (List R) :=
  conn.mapM fun i => (Core.idPos nodeIds i).bind fun k => vals[k]?

/-- `np.mean(…, axis=1)` -/
def meanL (l : List R) : R := l.sum / (l.length : R)

/-- `convert_nodal2elemental(data, calc_average=True)` for one element and one column -/
def nodal2elemental (nodeIds : List Nat) (vals : List R) (conn : List Nat) : Option R :=
  (gatherVals nodeIds vals conn).map meanL

/-- Σ_{j<n} f j -/
def sumTo (n : Nat) (f : Nat → R) : R := ((List.range n).map f).sum

/-- `incidence_matrix.multiply(metrics.T)`: entry (i,j) -/
def metricInc (inc : Nat → Nat → Bool) (m : Nat → R) (i j : Nat) : R := if inc i j then m j else 0

/-- mode = 'mean': `metric_incidence.multiply(1 / metric_incidence.sum(axis=1))`, entry (i,j); `e` = #elements -/
def meanWeight (e : Nat) (inc : Nat → Nat → Bool) (m : Nat → R) (i j : Nat) : R :=
  metricInc inc m i j * (1 / sumTo e (metricInc inc m i))

/-- mode = 'mean': row `i` of `weighted_incidence_matrix.dot(elemental_data)` -/
def e2nMean (e : Nat) (inc : Nat → Nat → Bool) (m x : Nat → R) (i : Nat) : R :=
  sumTo e fun j => meanWeight e inc m i j * x j

/-- 0/1 entry of the Boolean incidence matrix -/
def ind (b : Bool) : R := if b then 1 else 0

/-- mode = 'effective': `incidence.multiply(1 / incidence.sum(axis=0))`, entry (i,j); `n` = #nodes -/
def effWeight (n : Nat) (inc : Nat → Nat → Bool) (i j : Nat) : R :=
  ind (inc i j) * (1 / sumTo n fun k => ind (inc k j))

/-- mode = 'effective': row `i` of the result -/
def e2nEffective (n e : Nat) (inc : Nat → Nat → Bool) (x : Nat → R) (i : Nat) : R :=
  sumTo e fun j => effWeight n inc i j * x j

end

/-- the Boolean matrix of a list of (row, col) entries (`sp.csr_matrix((True…, (rows, cols)))`) -/
def incOfPairs (ps : List (Nat × Nat)) (i j : Nat) : Bool := ps.contains (i, j)

/-! ### calls and histories

Python hands the data array, the `weight=` array and the `incidence=` matrix to `convert_elemental2nodal` BY REFERENCE, and
the same objects are typically used for many conversions ("compute the incidence once, convert many fields").  A call is
therefore modelled as the caller sees it: the returned column AND the argument objects as they are afterwards.  femio's
conversion is a function of (incidence, weights, data): it builds new matrices (`multiply`, `dot`) and returns its arguments
unchanged.  `I` is the representation of the incidence object, `rel` reads it as a Boolean relation (`incOfPairs` for a list
of stored entries; the driver uses row-wise adjacency lists). -/

/-- the `mode=` argument -/
inductive ConvMode
  | mean | effective
  deriving DecidableEq, Repr

/-- the argument objects of one call: `incidence=`, `weight=` (one size per element; all ones for `weight=False`) and one
column of `elemental_data` -/
structure ConvArgs (I R : Type) where
  inc : I
  weights : List R
  data : List R

section
variable {I R : Type} [Zero R] [One R] [Add R] [Mul R] [Div R] [NatCast R]

/-- the value returned for node position `i` -/
def e2nValue (rel : I → Nat → Nat → Bool) (n e : Nat) (mode : ConvMode) (a : ConvArgs I R) (i : Nat) : R :=
  match mode with
  | .mean => e2nMean e (rel a.inc) (fun j => a.weights.getD j 0) (fun j => a.data.getD j 0) i
  | .effective => e2nEffective n e (rel a.inc) (fun j => a.data.getD j 0) i

/-- one call of `convert_elemental2nodal` (one column): the returned column (one value per node position) and the argument
objects afterwards -/
def e2nCall (rel : I → Nat → Nat → Bool) (n e : Nat) (mode : ConvMode) (a : ConvArgs I R) : List R × ConvArgs I R :=
  ((List.range n).map (e2nValue rel n e mode a), a)

/-- the per-call arguments of a history: mode, weights object, data object (the incidence object is shared by all calls) -/
structure ConvCall (R : Type) where
  mode : ConvMode
  weights : List R
  data : List R

/-- a history of calls that all receive the SAME incidence object: every call is handed the incidence object as the
previous call left it.  Returns what every call returned (result, argument objects afterwards) and the incidence object at
the end. -/
def e2nHistory (rel : I → Nat → Nat → Bool) (n e : Nat) : List (ConvCall R) → I → List (List R × ConvArgs I R) × I
  | [], inc => ([], inc)
  | c :: cs, inc =>
    let out := e2nCall rel n e c.mode ⟨inc, c.weights, c.data⟩
    let rest := e2nHistory rel n e cs out.2.inc
    (out :: rest.1, rest.2)

end

/-! The variant the snapshot comparison of the harness guards against (NOT femio; seeded change C14-6): the weights are applied
by scaling the stored values of the incidence object in place, so the caller's matrix is real-valued afterwards and the next
call starts from it. -/
section
variable {R : Type} [Zero R] [One R] [Add R] [Mul R] [Div R]

/-- 'mean' weights from a real-valued matrix `A` (`A.multiply(metrics.T)` row-normalised) -/
def meanWeightV (e : Nat) (A : Nat → Nat → R) (m : Nat → R) (i j : Nat) : R :=
  A i j * m j * (1 / sumTo e fun j' => A i j' * m j')

/-- in-place 'mean' call: the result and the matrix left in the caller's incidence object -/
def e2nMeanInPlace (e : Nat) (A : Nat → Nat → R) (m x : Nat → R) : (Nat → R) × (Nat → Nat → R) :=
  (fun i => sumTo e fun j => meanWeightV e A m i j * x j, meanWeightV e A m)

end

end Femio.C14
