import Femio.Model.Numeral
import Femio.Model.Surface
/-! Wavefront OBJ export / import as femio does it (core Lean only; C10).

    `OBJWriter.write` (formats/obj/write_obj.py): one `v x y z` line per node in storage order (the coordinate
    text is pandas' shortest round-trip `repr`, carried here as opaque tokens), then one `f i j k [l]` line per
    surface face with **1-based storage positions**, triangles first, then quadrilaterals.
    `ObjData.read_nodes / read_elements` (formats/obj/obj.py): `v` lines in file order get node ids 1..n, `f`
    lines in file order are parsed with `int`. A file is a list of lines, a line a list of blank-free tokens
    (`render` gives the text the driver emits). -/
namespace Femio.C10.Obj
open Numeral

abbrev Token := List Char
abbrev Line := List Token

def vLine (c : List Token) : Line := ['v'] :: c
def fLine (f : List Nat) : Line := ['f'] :: f.map fun i => showNat (i + 1)

/-- one facet-shape block: `"\n".join(rows) + "\n"` – an empty block still writes one (empty) line -/
def fBlock (faces : List (List Nat)) : List Line := if faces.isEmpty then [[]] else faces.map fLine

/-- `OBJWriter.write`: `blocks` = the surface faces per facet shape produced by the mesh (tri, quad), a single
    block for a single-shape mesh -/
def writeObj (verts : List (List Token)) (blocks : List (List (List Nat))) : List Line :=
  verts.map vLine ++ blocks.flatMap fBlock

def joinTokens : Line → List Char
  | [] => []
  | [t] => t
  | t :: u :: r => t ++ ' ' :: joinTokens (u :: r)

/-- file text: every line terminated by a newline -/
def render (ls : List Line) : List Char := ls.flatMap fun l => joinTokens l ++ ['\n']

def isV : Line → Option (List Token)
  | ['v'] :: c => some c
  | _ => none
def isF : Line → Option (List Token)
  | ['f'] :: c => some c
  | _ => none

/-- `ObjData.read_files`: vertices (coordinate tokens, ids 1..n in file order) and faces (node ids = 1-based
    positions as written) -/
def readObj (ls : List Line) : Option (List (List Token) × List (List Nat)) := do
  let fs ← (ls.filterMap isF).mapM fun c => c.mapM parseNat
  pure (ls.filterMap isV, fs)

/-- split on a separator, dropping nothing -/
def splitOnChar (sep : Char) : List Char → List (List Char)
  | [] => [[]]
  | c :: t =>
    match splitOnChar sep t with
    | [] => [[]]            -- unreachable
    | w :: r => if c = sep then [] :: w :: r else (c :: w) :: r

/-- text -> lines of tokens (blank-separated, empty tokens and the empty last line dropped) -/
def tokenize (s : List Char) : List Line :=
  ((splitOnChar '\n' s).map fun l => (splitOnChar ' ' l).filter (· ≠ [])).filter (· ≠ [])

/-- `fem_data.write('obj', …)` of a solid mesh: one `f` block per facet shape the mesh's elements produce -/
def objOfMesh (nodeIds : List Nat) (blocks : List (List Core.Elem)) (verts : List (List Token)) : Option (List Line) := do
  let (t, q) ← extractSurface nodeIds blocks
  let fs := allFaces blocks
  pure (writeObj verts ((if (ofShape 3 fs).isEmpty then [] else [t]) ++ (if (ofShape 4 fs).isEmpty then [] else [q])))

end Femio.C10.Obj
