import Femio.Model.Numeral
import Femio.Model.Surface
import Femio.Model.TextTok
/-! Wavefront OBJ export / import as femio does it (core Lean only; C10).

    `OBJWriter.write` (formats/obj/write_obj.py): one `v x y z` line per node in storage order (the coordinate
    text is pandas' shortest round-trip `repr`, carried here as opaque tokens), then one `f i j k [l]` line per
    surface face with **1-based storage positions**, triangles first, then quadrilaterals.
    `ObjData.read_nodes / read_elements` (formats/obj/obj.py): `v` lines in file order get node ids 1..n, `f`
    lines in file order are parsed with `int`. A file is a list of lines, a line a list of blank-free tokens
    (`render` gives the text the driver emits). -/
namespace Femio.C10.Obj
open Numeral

abbrev Token := List Char
abbrev Line := List Token

def vLine (c : List Token) : Line := ['v'] :: c
def fLine (f : List Nat) : Line := ['f'] :: f.map fun i => showNat (i + 1)

/-- one facet-shape block: `"\n".join(rows) + "\n"` – an empty block still writes one (empty) line -/
def fBlock (faces : List (List Nat)) : List Line := if faces.isEmpty then [[]] else faces.map fLine

/-- `OBJWriter.write`: `blocks` = the surface faces per facet shape produced by the mesh (tri, quad), a single
    block for a single-shape mesh -/
def writeObj (verts : List (List Token)) (blocks : List (List (List Nat))) : List Line :=
  verts.map vLine ++ blocks.flatMap fBlock

/-- `' '.join(tokens)` (pandas `to_csv(sep=' ')` for the `v` rows, `"f " + " ".join(...)` for the `f` rows) -/
def joinTokens (l : Line) : List Char := Femio.Text.joinBlank l

/-- file text: every line terminated by a newline -/
def render (ls : List Line) : List Char := Femio.Text.unlines (ls.map joinTokens)

/-- a writer that converts its rows to text BLOCK BY BLOCK (`cs` = any cut of the lines of the file into consecutive
    chunks, e.g. 65536 rows each) and terminates every row of every chunk with a newline -/
def renderChunks (cs : List (List Line)) : List Char := cs.flatMap render

/-- the unsound block-wise writer (seeded change C10-8): the rows of a chunk joined by newlines, ONE newline after the
    last chunk – the last row of a chunk and the first row of the next end up on one line -/
def renderChunksJoined (cs : List (List Line)) : List Char :=
  (cs.flatMap fun c => List.intercalate ['\n'] (c.map joinTokens)) ++ ['\n']

def isV : Line → Option (List Token)
  | ['v'] :: c => some c
  | _ => none
def isF : Line → Option (List Token)
  | ['f'] :: c => some c
  | _ => none

/-- `ObjData.read_files`: vertices (coordinate tokens, ids 1..n in file order) and faces (node ids = 1-based
    positions as written) -/
def readObj (ls : List Line) : Option (List (List Token) × List (List Nat)) := do
  let fs ← (ls.filterMap isF).mapM fun c => c.mapM parseNat
  pure (ls.filterMap isV, fs)

/-- text -> lines of tokens as the reader sees them: the non-empty lines between newlines
    (`StringSeries.read_file`), each split at whitespace (`strip()` + `\s+`, Python's whitespace class); lines
    without a token are dropped (they match neither `v\s+` nor `f\s+`) -/
def tokenize (s : List Char) : List Line :=
  ((Femio.Text.fileLines s).map Femio.Text.splitBlank).filter fun l => !l.isEmpty

/-- hypothesis of the character-level round trip: every coordinate numeral is a non-empty whitespace-free token -/
def vertsOKB (verts : List (List Token)) : Bool := verts.all fun c => c.all Femio.Text.tokOKB

/-- `fem_data.write('obj', …)` of a solid mesh: one `f` block per facet shape the mesh's elements produce -/
def objOfMesh (nodeIds : List Nat) (blocks : List (List Core.Elem)) (verts : List (List Token)) : Option (List Line) := do
  let (t, q) ← extractSurface nodeIds blocks
  let fs := allFaces blocks
  pure (writeObj verts ((if (ofShape 3 fs).isEmpty then [] else [t]) ++ (if (ofShape 4 fs).isEmpty then [] else [q])))

end Femio.C10.Obj
