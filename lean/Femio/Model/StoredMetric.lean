/-! C19 — model of the derived variable `volume` / `metric` that `calculate_element_volumes` /
`calculate_element_metrics` keep in the mesh's own variable table (`elemental_data`), core Lean only.

A mesh is the list of its element-type blocks in femio's canonical type order, every block the list of the
SIGNED volumes of its elements (integers: 6·V on a lattice).  A query with `elements=None` returns the
stored table as-is (after `_validate_metric` with ITS OWN options) when there is one; otherwise it evaluates
the blocks one after the other (each block validated with the caller's options: the per-type recursive call
raises on a negative value when `raise_negative_volume=True`), and stores the assembled, validated result.
`Cfg.storePerBlock` is the variant in which every block is written to the table as soon as it is evaluated
(seeded change C19-9); `Cfg.onPositive` is what `make_elements_positive` does with an existing table:
drop it (the tree), flip the sign of the permuted rows (seeded change C19-8), or keep it. -/
namespace Femio.C19.Stored

structure Opts where
  raiseNeg : Bool
  abs : Bool
deriving Repr, DecidableEq

inductive OnPositive | drop | flip | keep
deriving Repr, DecidableEq

structure Cfg where
  storePerBlock : Bool
  onPositive : OnPositive
deriving Repr, DecidableEq

/-- the tree as it is -/
def tree : Cfg := ⟨false, .drop⟩

def iabs (x : Int) : Int := if x < 0 then -x else x

/-- `_validate_metric`: `none` = raises ValueError -/
def validate (o : Opts) (v : List Int) : Option (List Int) :=
  if o.raiseNeg && v.any (fun x => decide (x < 0)) then none else some (if o.abs then v.map iabs else v)

/-- evaluate the blocks in order: `(result, rows evaluated before the failure)` -/
def evalBlocks (o : Opts) : List (List Int) → Option (List Int) × List Int
  | [] => (some [], [])
  | b :: bs =>
    match validate o b with
    | none => (none, [])
    | some vb =>
      match evalBlocks o bs with
      | (some r, _) => (some (vb ++ r), [])
      | (none, p) => (none, vb ++ p)

abbrev Table := Option (List Int)

/-- a no-argument volume query: `(returned value or none = raised, table afterwards)` -/
def query (cfg : Cfg) (o : Opts) (blocks : List (List Int)) (table : Table) : Option (List Int) × Table :=
  match table with
  | some t => (validate o t, some t)
  | none =>
    match evalBlocks o blocks with
    | (some r, _) => (some r, some r)
    | (none, p) => (none, if cfg.storePerBlock && !p.isEmpty then some p else none)

/-- `make_elements_positive` on a single-type mesh: the connectivity of the inverted elements is permuted (their signed
volume changes sign); the stored table is dropped / its permuted rows are negated / it is kept -/
def makePositive (cfg : Cfg) (block : List Int) (table : Table) : List Int × Table :=
  (block.map iabs,
   match cfg.onPositive with
   | .drop => none
   | .keep => table
   | .flip => table.map (fun t => List.zipWith (fun old x => if old < 0 then -x else x) block t))

end Femio.C19.Stored
