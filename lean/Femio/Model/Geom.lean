/-! Geometry kernels transcribed from femio/geometry_processor.py.
    Core imports only.  Every kernel returns an integer multiple of the metric so that only
    `+ - *` are needed (the multiple is in the name: `vol6`, `vol24`, …). -/

structure V3 (R : Type) where
  x : R
  y : R
  z : R
deriving Repr, DecidableEq

namespace V3
variable {R : Type} [Add R] [Sub R] [Mul R]

def add (a b : V3 R) : V3 R := ⟨a.x + b.x, a.y + b.y, a.z + b.z⟩
def sub (a b : V3 R) : V3 R := ⟨a.x - b.x, a.y - b.y, a.z - b.z⟩
def smul (s : R) (a : V3 R) : V3 R := ⟨s * a.x, s * a.y, s * a.z⟩
def dot (a b : V3 R) : R := a.x * b.x + a.y * b.y + a.z * b.z
def cross (a b : V3 R) : V3 R :=
  ⟨a.y * b.z - a.z * b.y, a.z * b.x - a.x * b.z, a.x * b.y - a.y * b.x⟩
/-- `np.linalg.det(np.stack([a,b,c], axis=1))` (rows a,b,c) -/
def det (a b c : V3 R) : R :=
  a.x * (b.y * c.z - b.z * c.y) - a.y * (b.x * c.z - b.z * c.x) + a.z * (b.x * c.y - b.y * c.x)
def normSq (a : V3 R) : R := dot a a

instance : Add (V3 R) := ⟨add⟩
instance : Sub (V3 R) := ⟨sub⟩
end V3

open V3
namespace Geom
variable {R : Type} [Add R] [Sub R] [Mul R]

/-- `_calculate_element_volumes_tet_like_core`: 6·V -/
def tet6 (p0 p1 p2 p3 : V3 R) : R := det (sub p1 p0) (sub p2 p0) (sub p3 p0)

/-- `_calculate_element_volumes_hex_with_nodes` ("linear"): 6·V -/
def hexLin6 (p0 p1 p2 p3 p4 p5 p6 p7 : V3 R) : R :=
  det (sub p1 p4) (sub p0 p4) (sub p3 p4) + det (sub p2 p6) (sub p1 p6) (sub p3 p6)
  + det (sub p1 p6) (sub p4 p6) (sub p3 p6) + det (sub p7 p3) (sub p4 p3) (sub p6 p3)
  + det (sub p1 p5) (sub p4 p5) (sub p6 p5)

/-- `_calculate_volumes_quad_centroid` times 4 (centre = (p0+p1+p2+p3)/4 pulled out) -/
def quadC4 (p0 p1 p2 p3 : V3 R) : R :=
  let p := add (add p0 p1) (add p2 p3)
  det p p0 p1 + det p p1 p2 + det p p2 p3 + det p p3 p0

/-- `_calculate_element_volumes_hex_centroid`: 24·V -/
def hexC24 (p0 p1 p2 p3 p4 p5 p6 p7 : V3 R) : R :=
  quadC4 p3 p2 p1 p0 + quadC4 p5 p4 p0 p1 + quadC4 p6 p7 p4 p5 + quadC4 p2 p3 p7 p6
  + quadC4 p5 p1 p2 p6 + quadC4 p4 p7 p3 p0

/-- `_calculate_element_volumes_pyr` ("linear"): 6·V -/
def pyrLin6 (p0 p1 p2 p3 p4 : V3 R) : R := tet6 p0 p1 p2 p4 + tet6 p0 p2 p3 p4

/-- `_calculate_element_volumes_pyr_centroid`: 24·V -/
def pyrC24 (four : R) (p0 p1 p2 p3 p4 : V3 R) : R :=
  four * (det p0 p1 p4 + det p1 p2 p4 + det p2 p3 p4 + det p3 p0 p4) + quadC4 p1 p0 p3 p2

/-- `_calculate_element_volumes_prism` ("linear"): 6·V -/
def prismLin6 (p0 p1 p2 p3 p4 p5 : V3 R) : R :=
  tet6 p0 p2 p1 p3 + tet6 p1 p3 p2 p4 + tet6 p2 p4 p3 p5

/-- `_calculate_element_volumes_prism_centroid`: 24·V -/
def prismC24 (four : R) (p0 p1 p2 p3 p4 p5 : V3 R) : R :=
  four * (det p0 p1 p2 + det p5 p4 p3)
  + quadC4 p2 p5 p3 p0 + quadC4 p1 p4 p5 p2 + quadC4 p0 p3 p4 p1

/-- `_calculate_element_volumes_hexprism`: 6·V -/
def hexprism6 (p : Fin 12 → V3 R) : R :=
  hexLin6 (p 0) (p 1) (p 2) (p 3) (p 6) (p 7) (p 8) (p 9)
  + hexLin6 (p 0) (p 3) (p 4) (p 5) (p 6) (p 9) (p 10) (p 11)

/-- `_calculate_tri_crosses`: 2·(area vector) -/
def triCross (p0 p1 p2 : V3 R) : V3 R := cross (sub p1 p0) (sub p2 p0)

/-- quad "centroid": 4·Σ cross(v_i, v_{i+1}) with v_i = p_i − centre; 16·2·(area vector)/… see Props -/
def quadCrossC (p0 p1 p2 p3 : V3 R) (four : R) : V3 R :=
  let c := add (add p0 p1) (add p2 p3)
  let v (p : V3 R) : V3 R := sub (smul four p) c      -- 4·(p − centre)
  add (add (cross (v p0) (v p1)) (cross (v p1) (v p2))) (add (cross (v p2) (v p3)) (cross (v p3) (v p0)))

/-- flux of x through a triangle, times 6 -/
def fluxTri6 (a b c : V3 R) : R := det a b c

end Geom
