import Femio.Model.Geom
/-! C20 — the decision of `remove_edges` whether two faces of a cell may be merged (femio/mesh_compressor.py):

```
def calc_normal(F):                                   # inside remove_edges
    vc = 0
    for i in range(2, len(F)):
        vc += cross(pos[F[i-1]] - pos[F[0]], pos[F[i]] - pos[F[0]])      # repaired (daf186d): the fan area vector
      # vc += cross(pos[F[1]]   - pos[F[0]], pos[F[i]] - pos[F[0]])      # upstream: always the first edge
    vc /= |vc|
...
cos_val = sum(norms[i] * norms[j]);  can_rm = cos_val >= THRESH
```

Core imports only.  The normals are kept un-normalised and the comparison `cos >= THRESH` is decided exactly without square
roots (`cosGe`), which is what the harness uses to say whether a merge the real code applied was *admitted* by the
threshold.  `Cfg` pattern: `NormalCfg.fan = true` is the repaired tree, `false` the upstream formula
(findings/C20-nonconvex-normal.md); `cosGeUnsigned` is the sign-free squared test of seeded change C20-5. -/
namespace Femio.C20
open V3

structure NormalCfg where
  /-- `true`: `cross(F[i-1]-F[0], F[i]-F[0])` (repaired); `false`: `cross(F[1]-F[0], F[i]-F[0])` (upstream) -/
  fan : Bool
deriving Repr, DecidableEq

def NormalCfg.fixed : NormalCfg := ⟨true⟩
def NormalCfg.upstream : NormalCfg := ⟨false⟩

section
variable {R : Type} [Add R] [Sub R] [Mul R] [OfNat R 0]

def zero3 : V3 R := ⟨0, 0, 0⟩

/-- the loop of the repaired `calc_normal` from `i` on: `prev = pos[F[i-1]]` -/
def fanFrom (p0 : V3 R) : V3 R → List (V3 R) → V3 R
  | _, [] => zero3
  | prev, b :: rest => V3.add (cross (V3.sub prev p0) (V3.sub b p0)) (fanFrom p0 b rest)

/-- repaired `calc_normal` (before normalisation): the fan area vector = twice the vector area of the polygon -/
def fanNormal : List (V3 R) → V3 R
  | p0 :: a :: ps => fanFrom p0 a ps
  | _ => zero3

/-- upstream `calc_normal` (before normalisation) -/
def upstreamNormal : List (V3 R) → V3 R
  | p0 :: p1 :: ps => ps.foldr (fun p acc => V3.add (cross (V3.sub p1 p0) (V3.sub p p0)) acc) zero3
  | _ => zero3

def calcNormal (cfg : NormalCfg) (f : List (V3 R)) : V3 R := if cfg.fan then fanNormal f else upstreamNormal f
end

/-- `d / sqrt q >= T` for `d = x·y`, `q = |x|²|y|²`, decided without square roots and WITH the sign of `d`;
`q = 0` (a vanishing normal): the code's cosine is `nan` and its test is false. -/
def cosGe (d q T : Rat) : Bool :=
  if q = 0 then false
  else if T ≤ 0 then decide (0 ≤ d) || decide (d * d ≤ T * T * q)
  else decide (0 ≤ d) && decide (T * T * q ≤ d * d)

/-- the sign-free squared test (seeded change C20-5): `q > 0 and d*d >= T*T*q` -/
def cosGeUnsigned (d q T : Rat) : Bool := decide (0 < q) && decide (T * T * q ≤ d * d)

/-- `can_rm` of `remove_edges` for two faces given by their node positions -/
def admits (cfg : NormalCfg) (T : Rat) (f g : List (V3 Rat)) : Bool :=
  let x := calcNormal cfg f
  let y := calcNormal cfg g
  cosGe (dot x y) (normSq x * normSq y) T

end Femio.C20
