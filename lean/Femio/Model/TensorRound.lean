/-! # Binary floating-point round-off of the dummy trick of `align_nnz` (C17, round 5)

`Femio.Tensor.alignNnz` evaluates `align_nnz` over a field, where `(v + c·D) − c·D = v` exactly.  The real code computes
the three operations in binary64: every output value is `fl(fl(v + d_c) − d_c)` with `d_c = fl(… fl(fl(0 + D) + D) … + D)`
(`c` summands, `c` = number of matrices of the list that store the cell) and `D = fl(2·|min| + 1)`.  This file is the
executable model of exactly that: round-to-nearest, ties-to-even, `p` significant bits, unbounded exponent range (no
overflow, no denormals — the values of the property's inputs are normal numbers far from both ends).  Core Lean only. -/
namespace Femio.TensorRound

def absq (x : Rat) : Rat := if x < 0 then -x else x

/-- the exponent `e` with `2^e ≤ |x| < 2^(e+1)` (for `x ≠ 0`) -/
def binade (x : Rat) : Int :=
  let a := absq x
  if 1 ≤ a then (Nat.log2 a.floor.toNat : Int)
  else -((Nat.log2 ((1 / a).ceil.toNat - 1) : Int) + 1)

def pow2 (e : Int) : Rat :=
  if 0 ≤ e then ((2 ^ e.toNat : Nat) : Rat) else 1 / ((2 ^ (-e).toNat : Nat) : Rat)

/-- the multiple of `u` nearest to `x`, ties to the even multiple -/
def roundGrid (u x : Rat) : Rat :=
  let t := x / u
  let q := t.floor
  let r := t - (q : Rat)
  let n : Int := if r < 1 / 2 then q else if 1 / 2 < r then q + 1 else if q % 2 = 0 then q else q + 1
  (n : Rat) * u

/-- round to nearest, ties to even, `p` significant bits -/
def roundBin (p : Nat) (x : Rat) : Rat :=
  if x = 0 then 0 else roundGrid (pow2 (binade x - ((p : Int) - 1))) x

/-- binary64 -/
def fl (x : Rat) : Rat := roundBin 53 x

/-- `dummy_scale = abs(float(min)) * 2 + 1` (`m` is a binary64 number: the doubling is exact, the `+ 1` rounds once) -/
def dummyScaleFl (m : Rat) : Rat := fl (absq m * 2 + 1)

/-- the dummy value of a cell stored by `c` matrices of the list: `D` added `c` times to `0` by sparse additions -/
def dummySum (D : Rat) : Nat → Rat
  | 0 => 0
  | c + 1 => fl (dummySum D c + D)

/-- the value `align_nnz` returns for an entry `v` of a cell stored by `c` matrices: `(v + d_c) − d_c` in binary64 -/
def alignEntryFl (D : Rat) (c : Nat) (v : Rat) : Rat := fl (fl (v + dummySum D c) - dummySum D c)

/-- `ndarray.astype(<integer dtype>)` of a float: truncation toward zero -/
def truncCast (x : Rat) : Int := if 0 ≤ x then x.floor else x.ceil

end Femio.TensorRound
