import Femio.Model.Core
import Femio.Model.Faces
import Femio.Model.Geom
import Femio.Gen.Tables
/-! C10 model (core Lean only): all faces of a solid mesh, the two boundary-extraction algorithms of
    femio/graph_processor.py, the surface mesh object and the flux kernels.

    * `allFaces`           – `extract_facets()` (per-type tables `_generate_all_faces`, regenerated in `Gen.Tables`)
    * `boundaryUnique`     – `_extract_surface`: `np.unique(sorted, axis=0, return_index, return_counts)`, rows with
                              `counts == 1`, in the (lexicographic) order of the unique sorted rows
    * `boundaryLexScan`    – `extract_surface_fistr`: lexsort + comparison with both neighbours
    * `extractSurface`     – `extract_surface()` (storage positions, per facet shape: tri, quad)
    * `toSurface`          – `FEMData.to_surface()` / `FEMElementalAttribute.to_surface`
    * `faceFlux24`, `elemVol24` – 24 × flux of x/3 through a face (centroid fan) and 24 × the "centroid" volume kernels -/
namespace Femio.C10
open Core Faces

/-! ### generic structural insertion sort (`np.unique` / `np.lexsort` order) -/

def insertBy {α : Type} (le : α → α → Bool) (x : α) : List α → List α
  | [] => [x]
  | y :: t => if le x y then x :: y :: t else y :: insertBy le x t

def sortBy {α : Type} (le : α → α → Bool) (l : List α) : List α := l.foldr (insertBy le) []

/-- lexicographic `≤` on rows of naturals (row comparison of `np.unique(axis=0)` and `np.lexsort`) -/
def lexLe : List Nat → List Nat → Bool
  | [], _ => true
  | _ :: _, [] => false
  | a :: s, b :: t => a < b || (a == b && lexLe s t)

/-! ### faces of a mesh -/

/-- per-type face table, indexed by the position of the type in `ELEMENT_TYPES` -/
def faceTable : Nat → List (List Nat)
  | 8 => Femio.Gen.faces_tet
  | 9 => Femio.Gen.faces_tet2
  | 10 => Femio.Gen.faces_pyr
  | 12 => Femio.Gen.faces_prism
  | 14 => Femio.Gen.faces_hex
  | 16 => Femio.Gen.faces_hexprism
  | _ => []

def arity : Nat → Nat
  | 8 => 4 | 9 => 10 | 10 => 5 | 12 => 6 | 14 => 8 | 16 => 12 | _ => 0

/-- the node ids at the local positions `f` (none if a position is out of range) -/
def pick (conn : List Nat) (f : List Nat) : Option (List Nat) := f.mapM fun i => conn[i]?

def elemFaces (e : Elem) : List Face := (faceTable e.ty).filterMap (pick e.conn)

/-- arity check of the real constructor (`(n, arity)`-shaped block arrays) -/
def wfB (blocks : List (List Elem)) : Bool :=
  blocks.all fun b => b.all fun e => arity e.ty != 0 && e.conn.length == arity e.ty

/-- all faces: blocks in `ELEMENT_TYPES` order, elements in block storage order, faces in table order -/
def allFaces (blocks : List (List Elem)) : List Face := blocks.flatMap fun b => b.flatMap elemFaces

def keyLe (f g : Face) : Bool := lexLe (key f) (key g)

/-- `_extract_surface`: faces whose sorted node tuple occurs once, ordered by that tuple -/
def boundaryUnique (fs : List Face) : List Face := sortBy keyLe (boundaryB fs)

def ofShape (k : Nat) (fs : List Face) : List Face := fs.filter fun f => f.length == k

/-- `extract_surface()` in node ids: (triangles, quadrilaterals) -/
def surfaceIds (blocks : List (List Elem)) : List Face × List Face :=
  let fs := allFaces blocks
  (boundaryUnique (ofShape 3 fs), boundaryUnique (ofShape 4 fs))

def toPositions (nodeIds : List Nat) (fs : List Face) : Option (List (List Nat)) :=
  fs.mapM fun f => f.mapM (idPos nodeIds)

/-- `extract_surface()`: storage positions (`ids2indices`) -/
def extractSurface (nodeIds : List Nat) (blocks : List (List Elem)) : Option (List (List Nat) × List (List Nat)) := do
  let (t, q) := surfaceIds blocks
  let ti ← toPositions nodeIds t
  let qi ← toPositions nodeIds q
  pure (ti, qi)

/-- `to_surface()`: kept node ids (storage order), triangle elements (ids 1..), quad elements (ids continue) -/
structure SurfaceMesh where
  nodeIds : List Nat
  tris : List (Nat × List Nat)
  quads : List (Nat × List Nat)

def number (start : Nat) (fs : List Face) : List (Nat × List Nat) :=
  (List.range fs.length).zip fs |>.map fun (i, f) => (start + i + 1, f)

def toSurface (nodeIds : List Nat) (blocks : List (List Elem)) : SurfaceMesh :=
  let (t, q) := surfaceIds blocks
  let used := (t ++ q).flatten
  { nodeIds := nodeIds.filter fun i => used.contains i
    tris := number 0 t
    quads := number t.length q }

/-! ### `extract_surface_fistr` -/

/-- local node numbers of FrontISTR face 1..4 as hard-coded in `extract_surface_fistr` -/
def fistrFaceNodes : List (List Nat) := [[0, 1, 2], [0, 1, 3], [1, 2, 3], [2, 0, 3]]

/-- rows `[k0, k1, k2, element id, face number]` -/
def fistrRows (es : List Elem) : List (List Nat) :=
  es.flatMap fun e =>
    ((List.range fistrFaceNodes.length).zip fistrFaceNodes).filterMap fun (j, f) =>
      (pick e.conn f).map fun ns => key ns ++ [e.id, j + 1]

/-- `unique[:-1] &= distinct; unique[1:] &= distinct`: kept iff different from previous and next key -/
def scanAux (prev : Option (List Nat)) : List (List Nat) → List Bool
  | [] => []
  | a :: t =>
    (decide (prev ≠ some a) && (match t with | [] => true | b :: _ => decide (a ≠ b))) :: scanAux (some a) t

def scan (l : List (List Nat)) : List Bool := scanAux none l

/-- `extract_surface_fistr()`: `(element id, face number)` rows of the lexsorted table that survive the scan -/
def boundaryLexScan (es : List Elem) : List (List Nat) :=
  let s := sortBy lexLe (fistrRows es)
  ((s.zip (scan (s.map (·.take 3)))).filter (·.2)).map fun r => r.1.drop 3

/-! ### Boolean hypotheses evaluated by the driver on every input mesh -/

/-- `g` is `f` traversed backwards (any starting point) – for triangles and quadrilaterals -/
def mirrorB : Face → Face → Bool
  | [a, b, c], g => g == [c, b, a] || g == [b, a, c] || g == [a, c, b]
  | [a, b, c, d], g => g == [d, c, b, a] || g == [c, b, a, d] || g == [b, a, d, c] || g == [a, d, c, b]
  | _, _ => false

/-- strict conformity: every face key is used once, or by exactly two faces that are mirror images -/
def mirrorConformingB (fs : List Face) : Bool :=
  fs.all fun f =>
    match fiberB fs (key f) with
    | [_] => true
    | [g, h] => mirrorB g h
    | _ => false

/-- every undirected edge of the face list is used by exactly two faces (manifold edges) -/
def manifoldB (fs : List Face) : Bool :=
  let es := edgesOf fs
  es.all fun e => es.count e + es.count (e.2, e.1) == 2

/-! ### flux and volume kernels (integer multiples; only `+ - *`) -/
section Kernels
open V3 Geom
variable {R : Type} [Add R] [Sub R] [Mul R]

/-- 24 × flux of x/3 through a face: `4·det` for a triangle, the centroid fan `quadC4` for a quadrilateral -/
def faceFlux24 (four zero : R) (pt : Nat → V3 R) : List Nat → R
  | [a, b, c] => four * det (pt a) (pt b) (pt c)
  | [a, b, c, d] => quadC4 (pt a) (pt b) (pt c) (pt d)
  | _ => zero

def sumR (zero : R) (l : List R) : R := l.foldr (· + ·) zero

/-- 24 × the signed volume by femio's "centroid" kernels (tet: 4·tet6) -/
def elemVol24 (four zero : R) (pt : Nat → V3 R) (el : Elem) : R :=
  match el.ty, el.conn with
  | 8, [a, b, c, d] => four * tet6 (pt a) (pt b) (pt c) (pt d)
  | 9, a :: b :: c :: d :: _ => four * tet6 (pt a) (pt b) (pt c) (pt d)
  | 10, [a, b, c, d, e] => pyrC24 four (pt a) (pt b) (pt c) (pt d) (pt e)
  | 12, [a, b, c, d, e, f] => prismC24 four (pt a) (pt b) (pt c) (pt d) (pt e) (pt f)
  | 14, [a, b, c, d, e, f, g, h] => hexC24 (pt a) (pt b) (pt c) (pt d) (pt e) (pt f) (pt g) (pt h)
  | _, _ => zero

/-- 6 × the signed volume by femio's "linear" kernels -/
def elemVolLin6 (zero : R) (pt : Nat → V3 R) (el : Elem) : R :=
  match el.ty, el.conn with
  | 8, [a, b, c, d] => tet6 (pt a) (pt b) (pt c) (pt d)
  | 9, a :: b :: c :: d :: _ => tet6 (pt a) (pt b) (pt c) (pt d)
  | 10, [a, b, c, d, e] => pyrLin6 (pt a) (pt b) (pt c) (pt d) (pt e)
  | 12, [a, b, c, d, e, f] => prismLin6 (pt a) (pt b) (pt c) (pt d) (pt e) (pt f)
  | 14, [a, b, c, d, e, f, g, h] => hexLin6 (pt a) (pt b) (pt c) (pt d) (pt e) (pt f) (pt g) (pt h)
  | _, _ => zero

def surfaceFlux24 (four zero : R) (pt : Nat → V3 R) (fs : List Face) : R :=
  sumR zero ((boundaryB fs).map (faceFlux24 four zero pt))

def totalVol24 (four zero : R) (pt : Nat → V3 R) (blocks : List (List Elem)) : R :=
  sumR zero (blocks.flatten.map (elemVol24 four zero pt))

end Kernels
end Femio.C10
