/-! Faces as cyclic node lists; directed edges; keys; Boolean checks (core only). -/
namespace Faces

abbrev Face := List Nat

def dirEdges : Face → List (Nat × Nat)
  | [] => []
  | a :: t => (a :: t).zip (t ++ [a])

/-- insertion sort on Nat (model of `np.sort(face)`) -/
def insertNat (x : Nat) : List Nat → List Nat
  | [] => [x]
  | y :: t => if x ≤ y then x :: y :: t else y :: insertNat x t
def key (f : Face) : List Nat := f.foldr insertNat []

def edgesOf (fs : List Face) : List (Nat × Nat) := fs.flatMap dirEdges

/-- every directed edge occurs as often as its reverse -/
def balB (es : List (Nat × Nat)) : Bool :=
  es.all (fun e => es.count e == es.count (e.2, e.1))

def fiberB (fs : List Face) (k : List Nat) : List Face := fs.filter (fun f => key f == k)

/-- decidable conformity: every face key is used once, or the faces sharing it cancel -/
def conformingB (fs : List Face) : Bool :=
  fs.all (fun f => let fb := fiberB fs (key f); fb.length == 1 || balB (edgesOf fb))

/-- faces that belong to one element only (`np.unique(..., return_counts=True)`, `counts == 1`) -/
def boundaryB (fs : List Face) : List Face := fs.filter (fun f => (fiberB fs (key f)).length == 1)

end Faces
