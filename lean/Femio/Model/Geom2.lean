import Femio.Model.Geom
/-! more kernels transcribed from geometry_processor.py (core only) -/
open V3
namespace Geom
variable {R : Type} [Add R] [Sub R] [Mul R]

/-- `_calculate_element_volumes_hex_gaussian`: 512·V, with the Gauss abscissa `p` a parameter
    (the code uses the literal 0.5773502692) and `one` the unit of `R` -/
def hexGauss512 (one p : R) (q0 q1 q2 q3 q4 q5 q6 q7 : V3 R) : R :=
  let J (xi eta zeta : R) : R :=
    let c1 := (one - eta) * (one - zeta); let c2 := (one - eta) * (one + zeta)
    let c3 := (one + eta) * (one - zeta); let c4 := (one + eta) * (one + zeta)
    let j0 := add (add (smul c1 (sub q1 q0)) (smul c2 (sub q5 q4))) (add (smul c3 (sub q2 q3)) (smul c4 (sub q6 q7)))
    let d1 := (one - xi) * (one - zeta); let d2 := (one - xi) * (one + zeta)
    let d3 := (one + xi) * (one - zeta); let d4 := (one + xi) * (one + zeta)
    let j1 := add (add (smul d1 (sub q3 q0)) (smul d2 (sub q7 q4))) (add (smul d3 (sub q2 q1)) (smul d4 (sub q6 q5)))
    let e1 := (one - xi) * (one - eta); let e2 := (one - xi) * (one + eta)
    let e3 := (one + xi) * (one - eta); let e4 := (one + xi) * (one + eta)
    let j2 := add (add (smul e1 (sub q4 q0)) (smul e2 (sub q7 q3))) (add (smul e3 (sub q5 q1)) (smul e4 (sub q6 q2)))
    -- J00*J11*J22 + J10*J21*J02 + J20*J01*J12 - J00*J21*J12 - J10*J01*J22 - J20*J11*J02  =  det with columns j0 j1 j2
    j0.x * j1.y * j2.z + j0.y * j1.z * j2.x + j0.z * j1.x * j2.y
      - (j0.x * j1.z * j2.y + j0.y * j1.x * j2.z + j0.z * j1.y * j2.x)
  let m := (one - one) - p   -- −p
  J m m m + J m m p + J m p m + J m p p + J p m m + J p m p + J p p m + J p p p

/-- quad "linear": the two doubled area vectors whose norms are added -/
def quadLinCross1 (p0 p1 p2 _p3 : V3 R) : V3 R := cross (sub p1 p0) (sub p2 p0)
def quadLinCross2 (p0 _p1 p2 p3 : V3 R) : V3 R := cross (sub p3 p2) (sub p0 p2)

/-- quad "gaussian": a(eta) × b(xi) at one Gauss point; the area is Σ‖·‖/16 over the four points -/
def quadGaussCross (one xi eta : R) (p0 p1 p2 p3 : V3 R) : V3 R :=
  let a := add (smul (one - eta) (sub p1 p0)) (smul (one + eta) (sub p2 p3))
  let b := add (smul (one - xi) (sub p3 p0)) (smul (one + xi) (sub p2 p1))
  cross a b

/-- `_permute` for tets: swap nodes 1 and 2 -/
def tetPermuted6 (p0 p1 p2 p3 : V3 R) : R := tet6 p0 p2 p1 p3

end Geom
