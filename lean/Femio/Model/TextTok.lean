/-! Blank-separated token text on `List Char` (core only; shared by the C02 / C04 text layers). -/
namespace Femio.Text

abbrev Str := List Char

def joinBlank : List Str → Str
  | [] => []
  | [a] => a
  | a :: b :: t => a ++ ' ' :: joinBlank (b :: t)

/-- split at blanks, dropping empty pieces (`strip()` followed by a split on `\s+`) -/
def splitBlankAux : List Char → Str → List Str
  | [], cur => if cur.isEmpty then [] else [cur.reverse]
  | c :: s, cur =>
    if c = ' ' ∨ c = '\t' ∨ c = '\r' then (if cur.isEmpty then splitBlankAux s [] else cur.reverse :: splitBlankAux s [])
    else splitBlankAux s (c :: cur)
def splitBlank (s : Str) : List Str := splitBlankAux s []

end Femio.Text
