/-! Whitespace-separated token text on `List Char` (core only; shared by the C02 / C04 / C10 text layers).

    * `isWs` — the characters for which Python's `str.isspace()` holds, which is also the class `\s` of `re`
      (and of pandas' `str.split(r'\s+')`) on `str` patterns;
    * `splitBlank` — `s.split()` = `re.split(r'\s+', s.strip())` without empty pieces;
    * `joinBlank` — `' '.join(tokens)`;
    * `unlines` / `fileLines` — a text file whose lines are terminated by `'\n'`, and the lines
      `pd.read_csv(file, sep='@', header=None)` (`StringSeries.read_file`) delivers: split at `'\n'`, blank lines
      skipped. -/
namespace Femio.Text

abbrev Str := List Char

/-- the code points `c` with `chr(c).isspace()` (Python 3; identical to the code points matched by `\s`) -/
def wsCodes : List Nat :=
  [9, 10, 11, 12, 13, 28, 29, 30, 31, 32, 133, 160, 5760, 8192, 8193, 8194, 8195, 8196, 8197, 8198, 8199, 8200,
   8201, 8202, 8232, 8233, 8239, 8287, 12288]

def isWs (c : Char) : Bool := wsCodes.contains c.toNat

def joinBlank : List Str → Str
  | [] => []
  | [a] => a
  | a :: b :: t => a ++ ' ' :: joinBlank (b :: t)

/-- split at runs of whitespace, dropping empty pieces (`strip()` followed by a split on `\s+`; `str.split()`) -/
def splitBlankAux : List Char → Str → List Str
  | [], cur => if cur.isEmpty then [] else [cur.reverse]
  | c :: s, cur =>
    if isWs c then (if cur.isEmpty then splitBlankAux s [] else cur.reverse :: splitBlankAux s [])
    else splitBlankAux s (c :: cur)
def splitBlank (s : Str) : List Str := splitBlankAux s []

/-- the tokens the lexer gives back unchanged: not empty, no whitespace character (Boolean, evaluated by the
    drivers on every generated case) -/
def noWsB (t : Str) : Bool := t.all fun c => !isWs c
def tokOKB (t : Str) : Bool := !t.isEmpty && noWsB t

/-- every line terminated by a newline -/
def unlines (ls : List Str) : Str := ls.flatMap fun l => l ++ ['\n']

/-- `s.split('\n')` -/
def splitLinesAux : List Char → Str → List Str
  | [], cur => [cur.reverse]
  | c :: s, cur => if c = '\n' then cur.reverse :: splitLinesAux s [] else splitLinesAux s (c :: cur)
def splitLines (s : Str) : List Str := splitLinesAux s []

/-- the lines `StringSeries.read_file` delivers: split at newlines, empty lines skipped
    (`pd.read_csv(..., skip_blank_lines=True)`; a last line without newline is kept) -/
def fileLines (s : Str) : List Str := (splitLines s).filter fun l => !l.isEmpty

end Femio.Text
