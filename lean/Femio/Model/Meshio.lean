import Femio.Model.SubMesh
/-! `FEMData.to_meshio` (C06), transcribed as it is (core Lean only).

`cell_info = elements.to_meshio(nodes)`: per element-type block (in `ELEMENT_TYPES` order) the connectivity rows,
`tet2` rows permuted by `_to_meshio_tet2`, every node id replaced by its storage position
(`nodes.ids2indices` = `id2index.loc[…]`, `KeyError` for an unknown id), keyed by
`DICT_FEMIO_ELEMENT_TO_MESHIO_ELEMENT[type]` (`KeyError` for a type without an entry).
`points = nodes.data`; `point_data` = the *positional* data of every nodal variable of rank < 3. -/
namespace Femio.Meshio
open Core Femio.SubMesh

/-- `data[:, perm]` on one row; `none` when the row is too short (`IndexError`) -/
def permute {β} (perm : List Nat) (row : List β) : Option (List β) := gather (row[·]?) perm

/-- a nodal variable as `to_meshio` sees it: name, `len(data.shape)`, the attribute -/
structure NodalVar (α : Type) where
  name : Nat
  rank : Nat
  attr : Attr α
deriving Repr, DecidableEq

structure VtkIn (α : Type) where
  nodes : Attr α
  elems : EBlocks (List Id)
  nodal : List (NodalVar α)
deriving Repr, DecidableEq

structure CellBlock where
  ty : Nat                      -- femio type index of the block
  name : List Char              -- meshio cell type
  rows : List (List Nat)        -- zero-based point positions, VTK node order
deriving Repr, DecidableEq

structure Out (α : Type) where
  points : List α
  cells : List CellBlock
  pointData : List (Nat × List α)
deriving Repr, DecidableEq

/-- node order handed to meshio: `_to_meshio` (only `tet2`, index 9, is permuted) -/
def vtkOrder (tet2Perm : List Nat) (ty : Nat) (conn : List Id) : Option (List Id) :=
  if ty = 9 then permute tet2Perm conn else some conn

/-- one block of `elements.to_meshio(nodes)` -/
def cellBlock (typeName : Nat → Option (List Char)) (tet2Perm : List Nat) (nodeIds : List Id)
    (b : List (Ent (List Id))) : Except Err CellBlock :=
  match b with
  | [] => .error .other
  | e0 :: _ =>
    match gather (fun (e : Ent (List Id)) => vtkOrder tet2Perm e0.ty e.val) b with
    | none => .error .index
    | some rows =>
      match gather (gather (idPos nodeIds)) rows with
      | none => .error .key
      | some idx =>
        match typeName e0.ty with
        | none => .error .key
        | some nm => .ok ⟨e0.ty, nm, idx⟩

def cellBlocks (typeName : Nat → Option (List Char)) (tet2Perm : List Nat) (nodeIds : List Id) :
    EBlocks (List Id) → Except Err (List CellBlock)
  | [] => .ok []
  | b :: bs =>
    match cellBlock typeName tet2Perm nodeIds b, cellBlocks typeName tet2Perm nodeIds bs with
    | .ok c, .ok cs => .ok (c :: cs)
    | .error e, _ => .error e
    | _, .error e => .error e

/-- `FEMData.to_meshio` without cell data -/
def toMeshio {α} (typeName : Nat → Option (List Char)) (tet2Perm : List Nat) (m : VtkIn α) : Except Err (Out α) :=
  match cellBlocks typeName tet2Perm m.nodes.ids m.elems with
  | .error e => .error e
  | .ok cs => .ok ⟨m.nodes.data, cs, (m.nodal.filter (·.rank < 3)).map fun v => (v.name, v.attr.data)⟩

end Femio.Meshio
