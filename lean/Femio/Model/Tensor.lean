import Femio.Model.Gradient
import Femio.Gen.Tables
/-! Model of the tensor helpers of femio/functions.py (`convert_array2symmetric_matrix`,
    `convert_symmetric_matrix2array`, `calculate_principal_components`, `calculate_array_from_eigens`,
    `invert_strain`, `align_nnz`) and of `convert_lte_global2local` / `convert_lte_local2global`
    (femio/signal_processor.py:107-155).  Core Lean only; polymorphic in the scalar type.

    `np.linalg.eigh` is NOT modelled: its result `(w, V)` (ascending eigenvalues, eigenvectors in the
    columns of `V`) is an input of every function that calls it; the theorems assume its post-condition.
    The index tables and the engineering-shear factors come from `Femio/Gen/Tables.lean` (tabulated from
    the working tree on every run). -/
namespace Femio.Tensor
open V3 Femio.Gradient Femio.Gen

section alg
variable {R : Type} [Add R] [Sub R] [Mul R] [Neg R] [Div R] [Zero R] [NatCast R]

/-- numpy fancy indexing `a[:, idx]` on one row (an out-of-range index raises `IndexError` in numpy; the
    theorems only use in-range tables and permutations) -/
def gather (idx : List Nat) (a : List R) : List R := idx.map fun k => a.getD k 0

/-- slot-wise scaling by the tabulated rational factors (`in_array[:, 3:] / 2`, `out_array[:, 3:] * 2`) -/
def scaleBy (t : List (Nat × Nat)) (a : List R) : List R :=
  (a.zip t).map fun e => e.1 * ((e.2.1 : Nat) : R) / ((e.2.2 : Nat) : R)

/-- `convert_array2symmetric_matrix(a, from_engineering=eng, order=order)`: the 3×3 matrix, flattened
    row-major.  Reorder first, then halve the shear slots, then spread by the index table. -/
def arr2mat (order : List Nat) (eng : Bool) (a : List R) : List R :=
  let b := gather order a
  let c := if eng then scaleBy arr2matEng b else b
  gather arr2matIdx c

/-- `convert_symmetric_matrix2array(m, to_engineering=eng, order=order)` on a row-major flattened matrix.
    Collect by the index table, double the shear slots, reorder last. -/
def mat2arr (order : List Nat) (eng : Bool) (m : List R) : List R :=
  let c := gather mat2arrIdx m
  let e := if eng then scaleBy mat2arrEng c else c
  gather order e

def defaultOrder : List Nat := [0, 1, 2, 3, 4, 5]

/-- row-major flat list ↔ `M3` -/
def toM3 (m : List R) : M3 R :=
  ⟨⟨m.getD 0 0, m.getD 1 0, m.getD 2 0⟩, ⟨m.getD 3 0, m.getD 4 0, m.getD 5 0⟩, ⟨m.getD 6 0, m.getD 7 0, m.getD 8 0⟩⟩
def flat (A : M3 R) : List R := [A.r0.x, A.r0.y, A.r0.z, A.r1.x, A.r1.y, A.r1.z, A.r2.x, A.r2.y, A.r2.z]
def v3list (v : V3 R) : List R := [v.x, v.y, v.z]

def transpose (A : M3 R) : M3 R :=
  ⟨⟨A.r0.x, A.r1.x, A.r2.x⟩, ⟨A.r0.y, A.r1.y, A.r2.y⟩, ⟨A.r0.z, A.r1.z, A.r2.z⟩⟩
/-- matrix with the given columns -/
def ofCols (c0 c1 c2 : V3 R) : M3 R := transpose ⟨c0, c1, c2⟩
def col0 (A : M3 R) : V3 R := (transpose A).r0
def col1 (A : M3 R) : V3 R := (transpose A).r1
def col2 (A : M3 R) : V3 R := (transpose A).r2
def mmul (A B : M3 R) : M3 R :=
  let Bt := transpose B
  ⟨⟨dot A.r0 Bt.r0, dot A.r0 Bt.r1, dot A.r0 Bt.r2⟩, ⟨dot A.r1 Bt.r0, dot A.r1 Bt.r1, dot A.r1 Bt.r2⟩,
   ⟨dot A.r2 Bt.r0, dot A.r2 Bt.r1, dot A.r2 Bt.r2⟩⟩
def diag3 (w : V3 R) : M3 R := ⟨⟨w.x, 0, 0⟩, ⟨0, w.y, 0⟩, ⟨0, 0, w.z⟩⟩

/-- result of `calculate_principal_components` -/
structure Principal (R : Type) where
  vals : V3 R
  d0 : V3 R
  d1 : V3 R
  d2 : V3 R
  v0 : V3 R
  v1 : V3 R
  v2 : V3 R

/-- what `calculate_principal_components` does with the output `(w, V)` of `eigh`: reverse to descending
    order (`[:, ::-1]`, `[:, :, ::-1]`), third axis := first × second, vectors = value · direction -/
def principalPost (w : V3 R) (V : M3 R) : Principal R :=
  let vals : V3 R := ⟨w.z, w.y, w.x⟩
  let d0 := col2 V
  let d1 := col1 V
  let d2 := cross d0 d1
  ⟨vals, d0, d1, d2, smul vals.x d0, smul vals.y d1, smul vals.z d2⟩

/-- `calculate_symmetric_matrices_from_eigens`: `R @ diags @ Rᵀ` with `R[:, :, k] = eigenvectors[:, 3k:3k+3]`
    and `diags = convert_array2symmetric_matrix([λ0, λ1, λ2, 0, 0, 0])` -/
def fromEigens (vals d0 d1 d2 : V3 R) : M3 R :=
  let diags := toM3 (arr2mat defaultOrder false [vals.x, vals.y, vals.z, 0, 0, 0])
  let rot := ofCols d0 d1 d2
  mmul (mmul rot diags) (transpose rot)

/-- `calculate_array_from_eigens` -/
def arrayFromEigens (vals d0 d1 d2 : V3 R) (eng : Bool) : List R :=
  mat2arr defaultOrder eng (flat (fromEigens vals d0 d1 d2))

variable [One R]
/-- `invert_strain`, after `eigh` returned `(w, V)` for `convert_array2symmetric_matrix(strain, eng)` -/
def invertStrainPost (w : V3 R) (V : M3 R) (eng : Bool) : List R :=
  let p := principalPost w V
  let g := fun x : R => 1 / (1 + x) - 1
  arrayFromEigens ⟨g p.vals.x, g p.vals.y, g p.vals.z⟩ p.d0 p.d1 p.d2 eng

/-- coordinate axis `e_k` and the `k`-th entry of a diagonal -/
def axis3 (k : Nat) : V3 R := ⟨if k = 0 then 1 else 0, if k = 1 then 1 else 0, if k = 2 then 1 else 0⟩
def comp3 (a : V3 R) (k : Nat) : R := if k = 0 then a.x else if k = 1 then a.y else a.z

/-- A shortcut for shear-free tensors `diag(a)` that avoids `eigh` (NOT in femio: what a tempting optimisation of
    `calculate_principal_components` does; modelled to state which frame is right).  `(i, j, k)` is the descending
    argsort of the diagonal, the values are `a_i, a_j, a_k`, the frame is made of coordinate axes.
    `byColumns = true`: `np.eye(3)[:, σ]` — principal axis number `m` is COLUMN `m` of the frame, i.e. `e_{σ m}`;
    `byColumns = false`: `np.eye(3)[σ]` — `e_{σ m}` is ROW `m`, so that column `m` is `e_{σ⁻¹ m}` (the inverse
    permutation).  The rest is the unchanged tail of the function (third axis := first × second, vectors). -/
def diagShortcut (byColumns : Bool) (a : V3 R) (i j k : Nat) : Principal R :=
  let vals : V3 R := ⟨comp3 a i, comp3 a j, comp3 a k⟩
  let F : M3 R := if byColumns then ofCols (axis3 i) (axis3 j) (axis3 k) else ⟨axis3 i, axis3 j, axis3 k⟩
  let d0 := col0 F
  let d1 := col1 F
  let d2 := cross d0 d1
  ⟨vals, d0, d1, d2, smul vals.x d0, smul vals.y d1, smul vals.z d2⟩

/-- the matrix `convert_lte_global2local` hands to `eigh` (hard-coded layout, shear halved) -/
def lteMatrix (f : List R) : M3 R :=
  let g := fun k => f.getD k 0
  let two : R := ((2 : Nat) : R)
  ⟨⟨g 0, g 3 / two, g 5 / two⟩, ⟨g 3 / two, g 1, g 4 / two⟩, ⟨g 5 / two, g 4 / two, g 2⟩⟩

/-- `convert_lte_global2local` after `eigh`: ascending values kept as they are, the first two
    eigenvectors as orientation, the third left out (zeros) -/
def lteGlobal2LocalPost (w : V3 R) (V : M3 R) : V3 R × List R :=
  (w, v3list (col0 V) ++ v3list (col1 V) ++ [0, 0, 0])

/-- `convert_lte_local2global`: rows `o0, o1, o0 × o1`; `Oᵀ diag(lte) O`; engineering layout back -/
def lteLocal2Global (lte : V3 R) (orient : List R) : List R :=
  let g := fun k => orient.getD k 0
  let o0 : V3 R := ⟨g 0, g 1, g 2⟩
  let o1 : V3 R := ⟨g 3, g 4, g 5⟩
  let O : M3 R := ⟨o0, o1, cross o0 o1⟩
  let m := mmul (transpose O) (mmul (diag3 lte) O)
  let two : R := ((2 : Nat) : R)
  [m.r0.x, m.r1.y, m.r2.z, m.r0.y * two, m.r1.z * two, m.r0.z * two]

end alg

/-! ### `align_nnz` -/
section align
variable {R : Type} [Add R] [Sub R] [Mul R] [Neg R] [Zero R] [NatCast R] [LT R] [DecidableLT R] [DecidableEq R]

/-- a canonical CSR / COO matrix: stored entries (explicit zeros allowed) with distinct keys -/
abbrev Sp (R : Type) := List ((Nat × Nat) × R)

def lookup (s : Sp R) (k : Nat × Nat) : R :=
  match s.find? (fun e => e.1 == k) with
  | some e => e.2
  | none => 0

def minList (x : R) (l : List R) : R := l.foldl (fun m y => if y < m then y else m) x
def absR (x : R) : R := if x < 0 then -x else x

/-- `np.min(s)` of a sparse matrix: the implicit zeros count unless every cell is stored -/
def spMin (cells : Nat) (s : Sp R) : R :=
  if s.length < cells then minList 0 (s.map (·.2))
  else match s with
    | [] => 0
    | e :: t => minList e.2 (t.map (·.2))

/-- keys in row-major order without repetition (`sort_indices` of the summed pattern) -/
def insertKey (k : Nat × Nat) : List (Nat × Nat) → List (Nat × Nat)
  | [] => [k]
  | h :: t => if k = h then h :: t else if k.1 < h.1 ∨ (k.1 = h.1 ∧ k.2 < h.2) then k :: h :: t else h :: insertKey k t
def unionKeys (ms : List (Sp R)) : List (Nat × Nat) :=
  (ms.flatMap fun s => s.map (·.1)).foldr insertKey []

/-- number of inputs that store cell `k` -/
def cnt (ms : List (Sp R)) (k : Nat × Nat) : Nat := (ms.filter fun s => s.any (·.1 == k)).length

/-- `dummy_scale = |min_s min(s)| · 2 + 1` -/
def dummyScale (cells : Nat) (ms : List (Sp R)) : R :=
  match ms.map (spMin cells) with
  | [] => ((1 : Nat) : R)
  | m :: t => absR (minList m t) * ((2 : Nat) : R) + ((1 : Nat) : R)

/-- `align_nnz` on CSR inputs of a common shape with `cells = rows · cols`.
    `dummy = Σ_s D · pattern(s)`; `added_s = s + dummy` (scipy drops cells whose sum is exactly zero — the
    `filterMap`); the data arrays are then subtracted *positionally* (`zipWith`) and re-attached to the
    pattern of `dummy`. -/
def alignNnz (cells : Nat) (ms : List (Sp R)) : List (Sp R) :=
  let D := dummyScale cells ms
  let pat := unionKeys ms
  let dummy : List R := pat.map fun k => ((cnt ms k : Nat) : R) * D
  ms.map fun s =>
    let added : List R := (pat.zip dummy).filterMap fun e =>
      let v := lookup s e.1 + e.2
      if v = 0 then none else some v
    let reduced := List.zipWith (fun a d => a - d) added dummy
    pat.zip reduced

/-- row-major flattened position `row · n_col + col` of a cell, in exact arithmetic -/
def flatKey (cols : Nat) (k : Nat × Nat) : Nat := k.1 * cols + k.2

/-- the same position computed in a signed `bits`-bit integer dtype (two's complement wrap; numpy's int32 index
    arithmetic for `bits = 32`) -/
def flatKeyWrap (bits cols : Nat) (k : Nat × Nat) : Int :=
  let m : Int := ((2 ^ bits : Nat) : Int)
  let h : Int := ((2 ^ (bits - 1) : Nat) : Int)
  ((((flatKey cols k : Nat) : Int) + h) % m) - h

/-- the row-major order `insertKey` / `unionKeys` sort by -/
abbrev keyLt (a b : Nat × Nat) : Prop := a.1 < b.1 ∨ (a.1 = b.1 ∧ a.2 < b.2)

end align

end Femio.Tensor
