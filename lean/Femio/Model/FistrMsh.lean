import Femio.Model.FistrText
import Femio.Gen.Tables
/-! Model of the FrontISTR `.msh` writer (`FistrWriter.write_msh`) and reader
(`FrontISTRData._read_msh` + `remove_useless_nodes`) — C01.  Core Lean only.
`none` = the real code raises / the input is outside what is modelled (never a silent default). -/
namespace Femio.Fistr
open Numeral Femio.Gen

abbrev Name := List Char

/-- one section with its material (STATIC: Young's modulus, Poisson ratio; 8 decimals) -/
structure SecIn where
  shell : Bool
  egrp : Name
  mat : Name
  young : Sci
  poisson : Sci
deriving DecidableEq, Repr

/-- what the writer is given -/
structure MshIn where
  /-- storage order; coordinates with 12 decimals -/
  nodes : List (Nat × List Sci)
  /-- `(index into ELEMENT_TYPES, rows (element id, connectivity))`, in ELEMENT_TYPES order -/
  blocks : List (Nat × List (Nat × List Nat))
  /-- `'ALL' in fem_data.element_groups` -/
  hasAll : Bool
  /-- element groups other than `ALL`, dict order -/
  groups : List (Name × List Nat)
  sec : Option SecIn
  /-- `nodal_data['INITIAL_TEMPERATURE']`: ids and values in its own order -/
  temp : Option (List (Nat × Sci))
deriving DecidableEq, Repr

/-! ### writer -/
def nodeLine (r : Nat × List Sci) : Line := joinSep ',' (showNat r.1 :: r.2.map (renderSci 12))
def elemLine (r : Nat × List Nat) : Line := renderNatRow (r.1 :: r.2)
def elemHeader (code : Nat) : Line := c!"!ELEMENT,TYPE=" ++ showNat code

/-- one `!ELEMENT,TYPE=c` block; prisms are re-ordered with the writer's permutation table -/
def writeBlock (b : Nat × List (Nat × List Nat)) : Option (List Line) := do
  let code ← lookupN b.1 fistrTypeToCode
  let rows ← if code = 351 ∨ code = 352 then b.2.mapM (fun r => (permute prismPermWrite r.2).map fun c => (r.1, c))
             else some b.2
  pure (elemHeader code :: rows.map elemLine)

def nElemsIn (m : MshIn) : Nat := (m.blocks.map (·.2.length)).sum

/-- `write_data` of an id column only; an empty column still emits the `'\n'` after the join -/
def idLines (ids : List Nat) : List Line := if ids.isEmpty then [[]] else ids.map showNat

/-- the `!EGROUP` part, both branches of the writer -/
def groupLines (m : MshIn) : Option (List Line) :=
  if m.groups.isEmpty then some [] else
  let values := m.groups.flatMap (·.2)
  if values.length = nElemsIn m ∧ nElemsIn m = m.groups.length + (if m.hasAll then 1 else 0) - 1 then
    -- `write_formatted_strings(('!EGROUP, EGRP={}\n', '{}'), (keys, values))`: row k = (k-th key, k-th value),
    -- blanks removed
    if m.groups.length = values.length then
      some ((m.groups.zip values).flatMap fun (g, v) => [c!"!EGROUP,EGRP=" ++ g.1, showNat v])
    else none
  else some (m.groups.flatMap fun g => (c!"!EGROUP, EGRP=" ++ g.1) :: idLines g.2)

def secLines (s : SecIn) : List Line :=
  (c!"!SECTION,TYPE=" ++ (if s.shell then c!"SHELL" else c!"SOLID") ++ c!",EGRP=" ++ s.egrp ++ c!",MATERIAL=" ++ s.mat)
    :: (if s.shell then [c!"1.0,1"] else [])
  ++ [c!"!MATERIAL,NAME=" ++ s.mat ++ c!",ITEM=1", c!"!ITEM=1,SUBITEM=2",
      renderSci 8 s.young ++ ',' :: renderSci 8 s.poisson]

def tempLine (r : Nat × Sci) : Line := showNat r.1 ++ ',' :: renderSci 12 r.2

def tempHeader : Line := c!"!INITIAL CONDITION, TYPE=TEMPERATURE"

/-- `FistrWriter.write_msh` -/
def writeMsh (m : MshIn) : Option (List Line) := do
  let bl ← m.blocks.mapM writeBlock
  let gl ← groupLines m
  pure ([c!"!HEADER", c!"Data written by femio", c!"!NODE"] ++ m.nodes.map nodeLine ++ bl.flatten ++ gl
    ++ (match m.sec with | some s => secLines s | none => [])
    ++ (match m.temp with | some t => tempHeader :: t.map tempLine | none => [])
    ++ [c!"!END"])

/-! ### reader -/
structure MshRead where
  nodes : List (Nat × List Dec)
  /-- by ELEMENT_TYPES index, ascending; rows in block order -/
  elems : List (Nat × List (Nat × List Nat))
  ngroups : List (Name × List Nat)
  egroups : List (Name × List Nat)
  /-- (material name, TYPE, EGRP) -/
  sections : List (Name × Name × Name)
  materials : List (Name × List Dec)
  /-- `nodal_data['INITIAL_' ++ name]` -/
  nodal : List (Name × List (Nat × List Dec))
deriving DecidableEq, Repr

def posOf (ids : List Nat) (i : Nat) : Option Nat :=
  match ids with
  | [] => none
  | a :: t => if a = i then some 0 else (posOf t i).map (· + 1)

def natDictSet {β} (k : Nat) (v : β) : List (Nat × β) → List (Nat × β)
  | [] => [(k, v)]
  | (a, b) :: t => if a = k then (a, v) :: t else (a, b) :: natDictSet k v t

/-- append rows under a key, keeping first-occurrence order of keys -/
def dictAppend {β} (k : List Char) (v : List β) : List (List Char × List β) → List (List Char × List β)
  | [] => [(k, v)]
  | (a, b) :: t => if a = k then (a, b ++ v) :: t else (a, b) :: dictAppend k v t

def insertByKey {β} (x : Nat × β) : List (Nat × β) → List (Nat × β)
  | [] => [x]
  | y :: t => if x.1 ≤ y.1 then x :: y :: t else y :: insertByKey x t
def sortByKey {β} (l : List (Nat × β)) : List (Nat × β) := l.foldr insertByKey []

/-- `DICT_FISTR_ELEMENTS[code]` (keys compared as strings) -/
def codeToType (code : List Char) : Option Nat :=
  (fistrCodeToType.find? fun p => showNat p.1 == code).map (·.2)

def readNodes (bs : List (Line × List Line)) : Option (List (Nat × List Dec)) :=
  if (extractData c!"!NODE" bs).isEmpty then none else
  (extractData c!"!NODE" bs).mapM fun l => (parseRowF parseDec l).map fun r => (r.1, r.2.take 3)

/-- `_reorder_prism` (ELEMENT_TYPES index 12) -/
def reorderPrism (e : Nat × List (Nat × List Nat)) : Option (Nat × List (Nat × List Nat)) :=
  if e.1 = 12 then (e.2.mapM fun r => (permute prismPermRead r.2).map fun c => (r.1, c)).map fun rows => (e.1, rows)
  else some e

def headTail (l : List Nat) : Option (Nat × List Nat) := match l with | [] => none | a :: t => some (a, t)

/-- `_read_elements`, uniform and mixed branch -/
def readElements (bs : List (Line × List Line)) : Option (List (Nat × List (Nat × List Nat))) := do
  let ebs := blocksOf c!"!ELEMENT" bs
  let codes ← ebs.mapM fun b => capture c!"TYPE=" b.1
  match codes with
  | [] => none
  | c0 :: _ =>
    let raw ←
      if codes.all (· == c0) then do
        let ty ← codeToType c0
        let rows ← (ebs.flatMap (·.2)).mapM (parseRowF parseNatTok)
        -- `to_fem_attribute` of no data rows raises (`df.values[:, 0]`)
        if rows.isEmpty then none else pure [(ty, rows)]
      else do
        -- an `!ELEMENT` block without data rows makes `int_content[:, 0]` raise in this branch
        let per ← ebs.mapM fun b => if b.2.isEmpty then none else b.2.mapM fun l => (parseRowI l).bind headTail
        let byCode := (codes.zip per).foldl (fun d p => dictAppend p.1 p.2 d) []
        let typed ← byCode.mapM fun p => (codeToType p.1).map fun ty => (ty, p.2)
        pure (sortByKey (typed.foldl (fun d p => natDictSet p.1 p.2 d) []))
    raw.mapM reorderPrism

/-- `FEMElementalAttribute.ids`: one block keeps file order, several are merged ascending -/
def allElemIds (es : List (Nat × List (Nat × List Nat))) : List Nat :=
  match es with
  | [b] => b.2.map (·.1)
  | _ => sortNat (es.flatMap fun b => b.2.map (·.1))

/-- `!NGROUP` / `!EGROUP` blocks: name ↦ all integers of the block, `dict.update` semantics (a name defined in two
    blocks keeps the last block only); with `merge` (repair of finding G6) the blocks of one name are concatenated -/
def readGroups (merge : Bool) (hdr key : List Char) (all : List Nat) (bs : List (Line × List Line)) :
    Option (List (Name × List Nat)) := do
  let gbs := blocksOf hdr bs
  let names ← gbs.mapM fun b => capture key b.1
  let vals ← gbs.mapM fun b => if b.2.isEmpty then none else (b.2.mapM parseRowI).map List.flatten
  let named := if merge then (names.zip vals).foldl (fun d p => dictAppend p.1 p.2 d) [] else names.zip vals
  pure (dictOfList ((c!"ALL", all) :: named))

def splitFirst (sep : Char) : List Char → Option (List Char × List Char)
  | [] => none
  | c :: t => if c = sep then some ([], t) else (splitFirst sep t).map fun p => (c :: p.1, p.2)

def startsWithP (p : Char → Bool) (l : Line) : Bool :=
  match trimLeft l with | c :: _ => p c | [] => false

/-- `_extend_assignments`: rows addressed to a node-group name become one row per member (first),
    followed by the rows that start with a digit -/
def extendAssignments (ng : List (Name × List Nat)) (rows : List Line) : Option (List Line) :=
  let grows := rows.filter (startsWithP isAlpha)
  if grows.isEmpty then some rows else do
    let ex ← grows.mapM fun l => do
      let (g, v) ← splitFirst ',' l
      let ids ← lookupS (trim g) ng
      pure (ids.map fun i => showNat i ++ ',' :: v)
    pure (ex.flatten ++ rows.filter (startsWithP isDigit))

/-- header matches the regex `!ITEM\s*=\s*(?:1)` -/
def isItem1 (h : Line) : Bool :=
  let rec go : List Char → Bool
    | [] => false
    | c :: t => (isPrefix c!"!ITEM" (c :: t) &&
        (match trimLeft ((c :: t).drop 5) with
         | '=' :: u => (match trimLeft u with | '1' :: _ => true | _ => false)
         | _ => false)) || go t
  go h

def captureP (key : List Char) (p : Char → Bool) : List Char → Option (List Char)
  | [] => none
  | c :: t =>
    if isPrefix key (c :: t) ∧ (((c :: t).drop key.length).takeWhile p) ≠ [] then
      some (((c :: t).drop key.length).takeWhile p)
    else captureP key p t

/-- `_read_materials` for `ITEM=1` materials -/
def readMaterials (nElem : Nat) (bs : List (Line × List Line)) : Option (List (Name × List Dec)) := do
  let mbs := blocksOf c!"!MATERIAL" bs
  match mbs with
  | [] => pure []
  | m0 :: _ =>
    let items ← (captureP c!"ITEM=" isDigit m0.1).bind parseNat
    if items ≠ 1 then none else
    let names ← mbs.mapM fun b => capture c!"NAME=" b.1
    let ibs := bs.filter fun b => isItem1 b.1
    -- one material per element and no `!ITEM` data at all: an empty table, no property is created
    if names.length = nElem ∧ (ibs.flatMap (·.2)).isEmpty then pure [] else
    let vals ←
      if names.length = nElem then (ibs.flatMap (·.2)).mapM fun l => (splitOn ',' l).mapM parseDec
      -- an `!ITEM` block without data lines makes `np.concatenate` raise
      else ibs.mapM fun b => if b.2.isEmpty then none else (b.2.flatMap (splitOn ',')).mapM parseDec
    if vals.length = names.length then pure (names.zip vals) else none

def readSections (bs : List (Line × List Line)) : Option (List (Name × Name × Name)) :=
  (blocksOf c!"!SECTION" bs).mapM fun b => do
    let t ← capture c!"TYPE=" b.1
    let g ← capture c!"EGRP=" b.1
    let m ← capture c!"MATERIAL=" b.1
    pure (m, t, g)

/-- `_read_initial_condisions` including the zero padding of a short temperature table -/
def readInitial (ng : List (Name × List Nat)) (nodeIds : List Nat) (bs : List (Line × List Line)) :
    Option (List (Name × List (Nat × List Dec))) := do
  let ibs := blocksOf c!"!INITIAL CONDITION" bs
  let types ← ibs.mapM fun b => capture c!"TYPE=" b.1
  let tabs ← ibs.mapM fun b => do
    let rows ← extendAssignments ng b.2
    -- `to_fem_attribute` of no data rows raises
    if rows.isEmpty then none else rows.mapM (parseRowF parseDec)
  let d := dictOfList (types.zip tabs)
  match lookupS c!"TEMPERATURE" d with
  | none => pure d
  | some rows =>
    if rows.length = nodeIds.length then pure d
    else if nodeIds.length < rows.length then none
    else
      let data := rows.map (·.2) ++ List.replicate (nodeIds.length - rows.length) [⟨false, 0, 0⟩]
      pure (dictSet c!"TEMPERATURE" (nodeIds.zip data) d)

/-- `remove_useless_nodes`: nodes no element references are dropped (the survivors come out in
    ascending id order); nodal data follow **by position** -/
def removeUseless (nodes : List (Nat × List Dec)) (elems : List (Nat × List (Nat × List Nat)))
    (nodal : List (Name × List (Nat × List Dec))) :
    Option (List (Nat × List Dec) × List (Name × List (Nat × List Dec))) :=
  let ids := nodes.map (·.1)
  let used := uniqueNat (elems.flatMap fun b => b.2.flatMap (·.2))
  if ids.length = used.length then
    if used = sortNat ids then some (nodes, nodal) else none
  else do
    let idx ← used.mapM (posOf ids)
    let nodes' ← idx.mapM fun k => nodes[k]?
    let nodal' ← nodal.mapM fun (p : Name × List (Nat × List Dec)) => do
      let data ← idx.mapM fun k => (p.2[k]?).map (·.2)
      pure (p.1, used.zip data)
    pure (nodes', nodal')

/-- the two repairs proposed for the format findings of C01: `bang` = lines starting with `!!` are comments (G5),
    `merge` = a group defined in several blocks is the union of the blocks (G6).  Upstream femio is `⟨false, false⟩`. -/
structure ReadCfg where
  bang : Bool
  merge : Bool
deriving DecidableEq, Repr

/-- `_read_msh` on the scanned blocks, followed by `remove_useless_nodes` -/
def readBlocks (merge : Bool) (bs : List (Line × List Line)) : Option MshRead := do
  let nodes ← readNodes bs
  let elems ← readElements bs
  -- EGRP given on `!ELEMENT` headers: not modelled
  if (blocksOf c!"!ELEMENT" bs).any (fun b => (capture c!"EGRP=" b.1).isSome) then none else
  let ng ← readGroups merge c!"!NGROUP" c!"NGRP=" (nodes.map (·.1)) bs
  let eg ← readGroups merge c!"!EGROUP" c!"EGRP=" (allElemIds elems) bs
  let mats ← readMaterials (allElemIds elems).length bs
  let secs ← readSections bs
  let nodal ← readInitial ng (nodes.map (·.1)) bs
  let (nodes', nodal') ← removeUseless nodes elems nodal
  pure ⟨nodes', elems, ng, eg, secs, mats, nodal'⟩

/-- `FrontISTRData._read_msh` followed by `remove_useless_nodes` (upstream behaviour) -/
def readMsh (text : List Line) : Option MshRead := readBlocks false (toBlocks text)

/-- the reader under a repair configuration -/
def readMshCfg (cfg : ReadCfg) (text : List Line) : Option MshRead :=
  readBlocks cfg.merge (toBlocks (if cfg.bang then text.filter (fun l => !isPrefix c!"!!" l) else text))

end Femio.Fistr
