import Femio.Model.UcdText
import Femio.Model.UcdFem
/-! C04 — histories: the object is modified between construction and `write`, and written more than once.

A `FEMAttribute` keeps its rows twice: `_data` (what the public `data` view returns) and a pandas frame
(`_data_frame`, what `.loc` / `.iloc` / `update` work on).  With the installed pandas the two do not share memory:
an edit through the array returned by `.data` (or through the caller's own alias of it) changes the public view
only, a write-through `.loc[...]` edits the frame and re-derives `_data` from it.  The property talks about the
mesh "with its data", i.e. the PUBLIC state; the writer of the tree is a function of that state alone
(`HCfg.tree`).  `HCfg.staleFrame` is the class of changes that let the writer look at the frames instead
(seeded change C04-6).  Core only. -/
namespace Femio.C04
open Ucd Femio.Text

/-- a FEMData in the middle of its life: `pub` = the `ids` / `data` views of nodes, element blocks and variables;
    `frames` = the same tables as the attributes' pandas frames hold them (possibly stale) -/
structure Obj where
  pub : Fem Str
  frames : Fem Str

/-- which copy the writer takes coordinates and values from -/
structure HCfg where
  fromPublicViews : Bool
def HCfg.tree : HCfg := ⟨true⟩
def HCfg.staleFrame : HCfg := ⟨false⟩

/-- the file system as far as the session wrote it: path ↦ content, most recent write first -/
abbrev Files := List (Nat × Str)

structure Sess where
  obj : Obj
  files : Files

inductive Step where
  /-- constructor, `data` setter, `overwrite`, `elements.update`, renumbering by replacing attributes: both copies -/
  | assign (f : Fem Str)
  /-- edits through the arrays returned by `.data` / through caller-side aliases: the public state becomes `f`,
      the frames are not touched -/
  | inplace (f : Fem Str)
  /-- `.loc[...]` / `.iloc[...]` write-through, `update(..., allow_overwrite=True)`: the frames are edited and the
      public views re-derived from them -/
  | viaFrame (g : Fem Str → Fem Str)
  /-- any other modification: an arbitrary function of the whole object state -/
  | edit (g : Obj → Obj)
  /-- `write('ucd', path, overwrite=True)` -/
  | write (path : Nat)

/-- the text `write('ucd')` produces for the object in its current state -/
def writtenText (cfg : HCfg) (o : Obj) : Str :=
  fileText (toMesh Cfg.fixed (if cfg.fromPublicViews then o.pub else o.frames))

def step (cfg : HCfg) (s : Sess) : Step → Sess
  | .assign f => { s with obj := ⟨f, f⟩ }
  | .inplace f => { s with obj := { s.obj with pub := f } }
  | .viaFrame g => { s with obj := ⟨g s.obj.frames, g s.obj.frames⟩ }
  | .edit g => { s with obj := g s.obj }
  | .write p => { s with files := (p, writtenText cfg s.obj) :: s.files }

def runSteps (cfg : HCfg) (s : Sess) (steps : List Step) : Sess := steps.foldl (step cfg) s

/-- the current content of the file `p` -/
def fileAt (s : Sess) (p : Nat) : Option Str := s.files.lookup p

/-- the paths written so far with their current content, each path once (first = most recently written) -/
def currentFiles : Files → Files
  | [] => []
  | (p, t) :: rest => (p, t) :: (currentFiles rest).filter (fun q => q.1 != p)

end Femio.C04
