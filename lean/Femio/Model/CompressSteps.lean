import Femio.Model.Compress
/-! The remaining steps of `femio/mesh_compressor.py: compress()` and the transition system whose steps are exactly
the modelled operations with ARBITRARY choices (property C20).  Core Lean only.

`compress()` is

```
csr = merge_elements(csr, …, K)                       -- Op.merge groups        (any grouping of the cells)
repeat ≤ 10 times:
  csr = remove_edges(csr, …, cos_thresh)              -- Op.removeEdge A B ps … ; Op.shrink
  csr = remove_vertices_2(csr, …)                     -- Op.removeVertices2     (contains its own shrink)
  csr, pos = merge_vertices(csr, …, dist_thresh)      -- Op.mergeVertex a b … ; Op.shrink
reindex(csr, node_conv)                               -- `finish`
```

The heuristics (bisection by centroids and face hashing in `merge_elements`, the stale normals and `cos_thresh` in
`remove_edges`, the sorted edge lengths and `dist_thresh` in `merge_vertices`) only CHOOSE the arguments of the
operations; here these arguments are free.  What is transcribed as coded is what an operation does once chosen,
including the guards under which femio itself refuses it.

* `shrink`            – `shrink`: faces with fewer than 3 nodes are dropped, then cells with fewer than 3 faces.
* `removeOneEdge`     – `remove_one_edge_from_polyhedron` on a cell whose faces are simple cycles: `some c` unchanged
  when no face has the edge; refused (`none`) unless exactly one face has `A→B` and one `B→A` and the union cycle
  visits every node once (`nxt[ia] != -1` / `len(cyc) != len(unique(cyc))`); the new face is appended last and starts
  at its smallest node (`cyc[0] = 0` indexes the sorted node list).  `removeOneEdgeCoded` is the literal transcription
  (successor table, walk of `len(V) - 1` steps from the smallest node, numba's wrap-around of the index `-1`).
* `removeVertices2`   – `remove_vertices_2`: the global neighbour table with three slots per node, `can_rm` = third
  slot empty, removal of all such nodes from all faces, faces left with ≤ 2 nodes dropped, `assert check_polyhedron`,
  `shrink`.  (The second loop of the function is dead code: every `can_rm` node has been removed by the first.)
* `mergeVertexFace`   – the body of `merge(a, b)` in `merge_vertices` for one face: `F[ib] = a`; a face containing
  both is cut into `F[ia:ib]` and `F[ib:] + F[:ia]`, pieces with ≤ 2 nodes dropped.
-/
namespace Femio.C20
open Faces

/-! ### shrink -/
def shrinkCell (c : Cell) : Cell := c.filter fun f => decide (3 ≤ f.length)

/-- `shrink(polyhedrons, elem_conv)`: the cells (the `elem_conv` renumbering is not modelled) -/
def shrink (cells : List Cell) : List Cell := (cells.map shrinkCell).filter fun c => decide (2 < c.length)

/-! ### remove_one_edge_from_polyhedron -/
/-- the face has the directed edge `a → b` (`F[i-1] == a and F[i] == b` for some cyclic `i`) -/
def hasE (a b : Nat) (f : Face) : Bool := (dirEdges f).contains (a, b)

def rotAt (i : Nat) (f : Face) : Face := f.drop i ++ f.take i

/-- the cycle written from its smallest node -/
def rotMin (f : Face) : Face := rotAt (argMin f) f

/-- `remove_one_edge_from_polyhedron(poly, A, B)`; `none` = `(False, poly)` -/
def removeOneEdge (A B : Nat) (c : Cell) : Option Cell :=
  match c.filter (hasE A B), c.filter (hasE B A) with
  | [], [] => some c
  | [f1], [f2] =>
    match rotateTo A B f1, rotateTo B A f2 with
    | some (_ :: _ :: p), some (_ :: _ :: q) =>
      if nodupB (mergeAlong A B p q) then
        some ((c.filter fun f => !hasE A B f && !hasE B A f) ++ [rotMin (mergeAlong A B p q)])
      else none
    | _, _ => none
  | _, _ => none

/-- `(F[i-1], F[i])` for `i = 0 … k-1` (Python's cyclic `F[-1]`) -/
def prevPairs (f : Face) : List (Nat × Nat) :=
  match f.getLast? with
  | none => []
  | some z => (z :: f.dropLast).zip f

def lookupE (x : Nat) : List (Nat × Nat) → Option Nat
  | [] => none
  | (a, b) :: t => if a = x then some b else lookupE x t

def walk (nxt : Nat → Nat) : Nat → Nat → List Nat
  | 0, cur => [cur]
  | n + 1, cur => cur :: walk nxt n (nxt cur)

/-- literal transcription of `remove_one_edge_from_polyhedron` (any cell) -/
def removeOneEdgeCoded (A B : Nat) (c : Cell) : Option Cell :=
  let cont (f : Face) : Bool := hasE A B f || hasE B A f
  let cf := c.filter cont
  if cf.isEmpty then some c else
  let vs := cellNodes cf
  let kept := (cf.flatMap prevPairs).filter fun e => !(e == (A, B) || e == (B, A))
  if !nodupB (kept.map (·.1)) then none else
  -- `nxt[x] = -1` indexes the last (largest) node of the sorted list `V`
  let nxt := fun x => (lookupE x kept).getD (vs.getLastD 0)
  let cyc := walk nxt (vs.length - 1) (vs.headD 0)
  if !nodupB cyc then none else some (c.filter (fun f => !cont f) ++ [cyc])

/-- one iteration of the `for i in range(len(E))` loop of `remove_edges`: the cells `ps` are rewritten only if
`remove_one_edge_from_polyhedron` succeeds on every one of them -/
def removeEdgeStep (A B : Nat) (ps : List Nat) (cells : List Cell) : List Cell :=
  if ps.all (fun p => (removeOneEdge A B (cells.getD p [])).isSome) then
    (List.range cells.length).map fun i =>
      if ps.contains i then (removeOneEdge A B (cells.getD i [])).getD (cells.getD i []) else cells.getD i []
  else cells

/-! ### remove_vertices_2 -/
/-- `add_nbd(a, b)` on the row of `a` -/
def addNbd (nb : List Nat) (b : Nat) : List Nat :=
  if nb.contains b then nb else if nb.length < 3 then nb ++ [b] else nb

/-- row `v` of the table `nbd` after the first loop -/
def nbdOf (cells : List Cell) (v : Nat) : List Nat :=
  (cells.flatMap fun c => c.flatMap prevPairs).foldl (fun nb e =>
    let nb1 := if e.1 = v then addNbd nb e.2 else nb
    if e.2 = v then addNbd nb1 e.1 else nb1) []

/-- `can_rm[v] = (nbd[v, 2] == -1)` -/
def canRm (cells : List Cell) (v : Nat) : Bool := decide ((nbdOf cells v).length ≤ 2)

/-- nodes with `rm` removed from every face, faces left with ≤ 2 nodes dropped -/
def rv2Cell (rm : Nat → Bool) (c : Cell) : Cell :=
  (c.map fun f => f.filter fun v => !rm v).filter fun f => decide (3 ≤ f.length)

/-- `remove_vertices_2`; `none` = one of its `assert`s fails -/
def removeVertices2 (cells : List Cell) : Option (List Cell) :=
  if cells.any (fun c => c.any fun f => decide (f.length < 3)) then none
  else
    let cells' := cells.map (rv2Cell (canRm cells))
    if cells'.all checkPolyhedron then some (shrink cells') else none

/-! ### merge_vertices: `merge(a, b)` -/
/-- last `i` with `F[i] == x` -/
def lastIdx (x : Nat) (f : Face) : Option Nat :=
  (List.range f.length).foldl (fun acc i => if f.getD i 0 = x then some i else acc) none

def mergeVertexFace (a b : Nat) (f : Face) : List Face :=
  let ia := lastIdx a f
  let ib := lastIdx b f
  let f' := match ib with
    | some j => f.set j a
    | none => f
  match ia, ib with
  | some i, some j =>
    let lo := min i j
    let hi := max i j
    [(f'.take hi).drop lo, f'.drop hi ++ f'.take lo].filter fun g => decide (3 ≤ g.length)
  | _, _ => [f']

def mergeVertexCell (a b : Nat) (c : Cell) : Cell := c.flatMap (mergeVertexFace a b)

/-! ### the transition system -/
structure St where
  cells : List Cell
  /-- `node_conv` -/
  conv : List Nat
deriving Repr

inductive Op
  /-- `merge_elements`: every group of cell indices becomes one cell -/
  | merge (groups : List (List Nat))
  | removeEdge (A B : Nat) (ps : List Nat)
  | removeVertices2
  | mergeVertex (a b : Nat)
  | shrink
deriving Repr

/-- `none` = an `assert` of the real code fails -/
def step (st : St) : Op → Option St
  | .merge groups => some { st with cells := groups.map fun g => mergeCells (g.map fun i => st.cells.getD i []) }
  | .removeEdge A B ps => some { st with cells := removeEdgeStep A B ps st.cells }
  | .removeVertices2 => (removeVertices2 st.cells).map fun cs => { st with cells := cs }
  | .mergeVertex a b =>
    -- `merge(a, b)` is called for the two ends of an edge, both not merged away before (`done`)
    if a < st.conv.length ∧ b < st.conv.length ∧ a ≠ b ∧ st.conv.getD a a = a then
      some { cells := st.cells.map (mergeVertexCell a b), conv := st.conv.set b a }
    else some st
  | .shrink => some { st with cells := shrink st.cells }

def runOps : List Op → St → Option St
  | [], st => some st
  | op :: ops, st => (step st op).bind (runOps ops)

/-- the whole of `compress()` for one sequence of choices -/
def compressRun (ops : List Op) (st : St) : Option Reindexed :=
  (runOps ops st).map fun s => reindex s.cells s.conv

/-! ### the hypothesis of the pipeline theorems, decidable form -/
/-- closed (every directed edge as often as its reverse), every face a simple cycle of at least three nodes -/
def cellOKB (c : Cell) : Bool := balancedCell c && c.all fun f => nodupB f && decide (3 ≤ f.length)

/-- … for every cell; every node is a row of `node_conv` and has not been merged away -/
def goodB (st : St) : Bool :=
  st.cells.all cellOKB &&
  st.cells.flatten.flatten.all fun v => decide (v < st.conv.length) && decide (st.conv.getD v v = v)

end Femio.C20
