import Femio.Model.Numeral
/-! Text layer shared by the FrontISTR `.msh` / `.cnt` models (C01, C03). Core Lean only.

Lines are `List Char`.  Transcribed pieces of `femio/util/string_parser.py`:
`pattern_ignore` (comment / blank filter), `to_header_data('!')`, `HeaderData.extract_data /
extract_headers` (`str.contains(key)`), `extract_captures('KEY=(\w+)')`, `str.split(',')`,
`float()` / `int()` of a field, and the printf formats `%d`, `%.pE` the writer uses. -/

/-- `c!"abc"` is the list literal `['a','b','c']` (kernel `decide` does not reduce `String`) -/
macro:max "c!" s:str : term => do
  let cs := s.getString.toList
  let elems := cs.toArray.map fun c => Lean.Syntax.mkCharLit c
  `([$elems,*])

namespace Femio.Fistr
open Numeral

abbrev Line := List Char

/-! ### characters -/
/-- Python `str.strip()` / regex `\s` on ASCII -/
def isWs (c : Char) : Bool := c == ' ' || c == '\t' || c == '\n' || c == '\r' || c == '\x0b' || c == '\x0c'
def isDigit (c : Char) : Bool := 48 ≤ c.toNat && c.toNat ≤ 57
def isAlpha (c : Char) : Bool := (65 ≤ c.toNat && c.toNat ≤ 90) || (97 ≤ c.toNat && c.toNat ≤ 122)
/-- regex `\w` restricted to ASCII -/
def isWord (c : Char) : Bool := isDigit c || isAlpha c || c == '_'

def trimLeft (s : List Char) : List Char := s.dropWhile isWs
def trim (s : List Char) : List Char := (trimLeft (trimLeft s).reverse).reverse

/-! ### fields -/
/-- `str.split(sep)` -/
def splitOn (sep : Char) : List Char → List (List Char)
  | [] => [[]]
  | c :: t =>
    if c = sep then [] :: splitOn sep t
    else match splitOn sep t with
      | [] => [[c]]
      | f :: fs => (c :: f) :: fs

/-- `sep.join(fields)` -/
def joinSep (sep : Char) : List (List Char) → List Char
  | [] => []
  | [f] => f
  | f :: g :: t => f ++ sep :: joinSep sep (g :: t)

/-! ### numerals -/
/-- exactly `k` decimal digits: the `k` lowest digits of `n`, most significant first -/
def fixDigits : Nat → Nat → List Char
  | 0, _ => []
  | k + 1, n => fixDigits k (n / 10) ++ [digitChar (n % 10)]

/-- printf exponent: at least two digits -/
def expDigits (e : Nat) : List Char := if e < 100 then fixDigits 2 e else showNat e

/-- a decimal floating-point datum with `p` decimals: value `(-1)^neg · mant · 10^(exp - p)`;
    for a normalised number `10^p ≤ mant < 10^(p+1)` (or `mant = 0`) -/
structure Sci where
  neg : Bool
  mant : Nat
  exp : Int
deriving DecidableEq, Repr

/-- `'%.pE' % x` for the decimal `x` given by `s` (`d.ddddE±xx`) -/
def renderSci (p : Nat) (s : Sci) : List Char :=
  (if s.neg then ['-'] else []) ++ showNat (s.mant / 10 ^ p) ++ '.' :: fixDigits p (s.mant % 10 ^ p)
    ++ 'E' :: (if s.exp < 0 then '-' else '+') :: expDigits s.exp.natAbs

/-- an exact decimal value `(-1)^neg · m · 10^e` -/
structure Dec where
  neg : Bool
  m : Nat
  e : Int
deriving DecidableEq, Repr

/-- the value a `Sci` with `p` decimals denotes -/
def Sci.toDec (p : Nat) (s : Sci) : Dec := ⟨s.neg, s.mant, s.exp - p⟩

def evalChars (s : List Char) : Nat := s.foldl (fun x c => x * 10 + (c.toNat - 48)) 0

def splitSign : List Char → Bool × List Char
  | '-' :: t => (true, t)
  | '+' :: t => (false, t)
  | s => (false, s)

/-- exponent part after the mantissa: `[]` or `[eE][+-]?\d+` -/
def parseExp : List Char → Option Int
  | [] => some 0
  | c :: t =>
    if c = 'E' ∨ c = 'e' then
      let (eneg, u) := splitSign t
      if u ≠ [] ∧ u.all isDigit then some (if eneg then -(evalChars u : Int) else (evalChars u : Int)) else none
    else none

def parseFrac (r1 : List Char) : List Char × List Char :=
  match r1 with
  | '.' :: t => (t.takeWhile isDigit, t.dropWhile isDigit)
  | _ => ([], r1)

/-- `\d*\.?\d*([eE][+-]?\d+)?` with at least one mantissa digit: (all mantissa digits, decimal exponent) -/
def parseUnsigned (u : List Char) : Option (Nat × Int) :=
  let ip := u.takeWhile isDigit
  let fr := parseFrac (u.dropWhile isDigit)
  if ip = [] ∧ fr.1 = [] then none else
  (parseExp fr.2).map fun x => (evalChars (ip ++ fr.1), x - fr.1.length)

/-- Python `float(field)` on decimal literals `\s*[+-]?\d*\.?\d*([eE][+-]?\d+)?\s*` (no inf/nan/underscores),
    returning the exact decimal value -/
def parseDec (s : List Char) : Option Dec :=
  let su := splitSign (trim s)
  (parseUnsigned su.2).map fun me => ⟨su.1, me.1, me.2⟩

/-- `.astype(float).astype(int)` of an id field: truncation toward zero (exact below 2^53);
    negative values are outside the model (`none`) -/
def Dec.toNat? (d : Dec) : Option Nat :=
  if d.neg ∧ d.m ≠ 0 then none
  else if 0 ≤ d.e then some (d.m * 10 ^ d.e.toNat) else some (d.m / 10 ^ (-d.e).toNat)

/-- id column of `to_fem_attribute`: `float` then `int` -/
def parseIdF (s : List Char) : Option Nat := (parseDec s).bind Dec.toNat?

/-- Python `int(field)` on `\s*\d+\s*` -/
def parseNatTok (s : List Char) : Option Nat := parseNat (trim s)

/-! ### lines, headers, blocks -/
/-- `pattern_ignore = '(?:#|^\s*$)'` applied with `str.contains` -/
def ignoreLine (l : Line) : Bool := l.contains '#' || l.all isWs

/-- `str.match('!')` -/
def isHeader (l : Line) : Bool := l.head? == some '!'

/-- (data lines before the first header, blocks `(header, its data lines)`) -/
def toBlocksAux : List Line → List Line × List (Line × List Line)
  | [] => ([], [])
  | l :: t =>
    let r := toBlocksAux t
    if isHeader l then ([], (l, r.1) :: r.2) else (l :: r.1, r.2)

/-- `to_header_data('!')` after the comment filter -/
def toBlocks (text : List Line) : List (Line × List Line) :=
  (toBlocksAux (text.filter fun l => !ignoreLine l)).2

def isPrefix : List Char → List Char → Bool
  | [], _ => true
  | _ :: _, [] => false
  | a :: k, b :: s => a == b && isPrefix k s

/-- `str.contains(key)` for a literal key -/
def hasSub (key : List Char) : List Char → Bool
  | [] => key.isEmpty
  | c :: t => isPrefix key (c :: t) || hasSub key t

/-- blocks whose header contains `key` -/
def blocksOf (key : List Char) (bs : List (Line × List Line)) : List (Line × List Line) :=
  bs.filter fun b => hasSub key b.1

/-- `extract_data(key)` (concatenated) -/
def extractData (key : List Char) (bs : List (Line × List Line)) : List Line :=
  (blocksOf key bs).flatMap (·.2)

/-- `re.search(key + '(\w+)')`: leftmost occurrence of `key` followed by at least one word character -/
def capture (key : List Char) : List Char → Option (List Char)
  | [] => none
  | c :: t =>
    if isPrefix key (c :: t) ∧ (((c :: t).drop key.length).takeWhile isWord) ≠ [] then
      some (((c :: t).drop key.length).takeWhile isWord)
    else capture key t

/-- a data row: id by the float path, remaining fields by `f` -/
def parseRowF {α} (f : List Char → Option α) (l : Line) : Option (Nat × List α) :=
  match splitOn ',' l with
  | [] => none
  | i :: fs => do let id ← parseIdF i; let d ← fs.mapM f; pure (id, d)

/-- a data row of integers (`to_values(data_type=int)`) -/
def parseRowI (l : Line) : Option (List Nat) := (splitOn ',' l).mapM parseNatTok

def renderNatRow (xs : List Nat) : Line := joinSep ',' (xs.map showNat)

/-! ### small list utilities (structural, reduce under `decide`) -/
def lookupN {β} (k : Nat) : List (Nat × β) → Option β
  | [] => none
  | (a, b) :: t => if a = k then some b else lookupN k t

def lookupS {β} (k : List Char) : List (List Char × β) → Option β
  | [] => none
  | (a, b) :: t => if a = k then some b else lookupS k t

/-- `dict.update({k: v})`: an existing key keeps its position and takes the new value -/
def dictSet {β} (k : List Char) (v : β) : List (List Char × β) → List (List Char × β)
  | [] => [(k, v)]
  | (a, b) :: t => if a = k then (a, v) :: t else (a, b) :: dictSet k v t

def dictOfList {β} (kv : List (List Char × β)) : List (List Char × β) :=
  kv.foldl (fun d p => dictSet p.1 p.2 d) []

def insertNatAsc (x : Nat) : List Nat → List Nat
  | [] => [x]
  | y :: t => if x ≤ y then x :: y :: t else y :: insertNatAsc x t
def sortNat (l : List Nat) : List Nat := l.foldr insertNatAsc []

def dedupSorted : List Nat → List Nat
  | [] => []
  | [x] => [x]
  | x :: y :: t => if x = y then dedupSorted (y :: t) else x :: dedupSorted (y :: t)

/-- `np.unique` -/
def uniqueNat (l : List Nat) : List Nat := dedupSorted (sortNat l)

def permute {α} (p : List Nat) (l : List α) : Option (List α) := p.mapM fun i => l[i]?

end Femio.Fistr
