/-! C05 — model of `FEMData.save` / `read_directory` / `read_npy_directory` as a directory state machine with
crash points (core Lean only).

A cache directory is a function from the seven cache files to their content: absent, torn (a write that
was interrupted inside `np.savez`), or complete and written from the object with a given tag.
`saveSteps` is the ordered list of file-system effects of one `save` (the order is traced from the real
`save` by the harness on every run); `crashSave … k torn` is a `save` that dies after `k` effects, optionally
leaving the file of effect `k+1` torn. -/
namespace Femio.C05

inductive File | nodes | elements | nodal | elemental | constraints | settings | sentinel
deriving Repr, DecidableEq

inductive Content | ok (tag : Nat) | torn
deriving Repr, DecidableEq

/-- an object to be saved: `tag` identifies its content; flags say which optional groups are non-empty -/
structure Obj where
  tag : Nat
  hasNodal : Bool
  hasElemental : Bool
  hasConstraints : Bool
deriving Repr, DecidableEq

abbrev Dir := File → Option Content

/-- one Boolean per repair (DESIGN §5 F6b, F6c) -/
structure Cfg where
  unlinkFirst : Bool     -- `save` removes an existing sentinel before rewriting anything
  removeStale : Bool     -- `save` removes the optional files / settings of an earlier save first
deriving Repr, DecidableEq
def Cfg.upstream : Cfg := ⟨false, false⟩
def Cfg.fixed : Cfg := ⟨true, true⟩

inductive Step | write (f : File) (t : Nat) | remove (f : File)
deriving Repr, DecidableEq

def Step.apply (d : Dir) : Step → Dir
  | .write f t => fun g => if g = f then some (.ok t) else d g
  | .remove f => fun g => if g = f then none else d g

/-- the file a step would leave torn if the process died inside it -/
def Step.tear (d : Dir) : Step → Dir
  | .write .sentinel _ => d                       -- `touch` creates an empty file: nothing to tear
  | .write f _ => fun g => if g = f then some .torn else d g
  | .remove _ => d

def optWrite (has : Bool) (f : File) (t : Nat) : List Step := if has then [.write f t] else []

/-- the ordered effects of `save(dir, save_mesh_only = meshOnly)` -/
def saveSteps (cfg : Cfg) (x : Obj) (meshOnly : Bool) : List Step :=
  (if cfg.unlinkFirst then [.remove .sentinel] else []) ++
  (if cfg.removeStale then [.remove .nodal, .remove .elemental, .remove .constraints, .remove .settings] else []) ++
  [.write .nodes x.tag, .write .elements x.tag] ++
  (if meshOnly then [] else
    optWrite x.hasNodal .nodal x.tag ++ optWrite x.hasElemental .elemental x.tag ++
    optWrite x.hasConstraints .constraints x.tag ++ [.write .settings x.tag]) ++
  [.write .sentinel x.tag]

/-- `save` interrupted after `k` effects; with `torn` the next effect's file is left half-written -/
def crashSave (cfg : Cfg) (d : Dir) (x : Obj) (meshOnly : Bool) (k : Nat) (torn : Bool) : Dir :=
  let steps := saveSteps cfg x meshOnly
  let d' := (steps.take k).foldl Step.apply d
  if torn then (match steps[k]? with | some s => s.tear d' | none => d') else d'

def fullSave (cfg : Cfg) (d : Dir) (x : Obj) (meshOnly : Bool) : Dir :=
  (saveSteps cfg x meshOnly).foldl Step.apply d

/-- the directory a complete `save` of `x` into an empty directory produces -/
def expected (x : Obj) (meshOnly : Bool) : Dir
  | .nodes | .elements | .sentinel => some (.ok x.tag)
  | .settings => if meshOnly then none else some (.ok x.tag)
  | .nodal => if x.hasNodal && !meshOnly then some (.ok x.tag) else none
  | .elemental => if x.hasElemental && !meshOnly then some (.ok x.tag) else none
  | .constraints => if x.hasConstraints && !meshOnly then some (.ok x.tag) else none

/-- `read_directory(read_npy=True, save=True)` on a directory whose source files parse to `src`:
returns (what the caller gets — per cache file whose content was loaded, or the parse of the source —,
the directory afterwards) -/
def readDir (cfg : Cfg) (d : Dir) (src : Obj) : Dir × Dir :=
  if (d .sentinel).isSome then (d, d) else (expected src false, fullSave cfg d src false)

inductive DOp
  | read (src : Obj)
  | save (x : Obj) (meshOnly : Bool)
  | crash (x : Obj) (meshOnly : Bool) (k : Nat) (torn : Bool)
deriving Repr, DecidableEq

def dstep (cfg : Cfg) (d : Dir) : DOp → Dir
  | .read src => (readDir cfg d src).2
  | .save x mo => fullSave cfg d x mo
  | .crash x mo k torn => crashSave cfg d x mo k torn

/-! ### `save` with an arbitrary plan of effects

`saveSteps` fixes one order of the effects between the removal and the re-creation of the sentinel.  The property does
not depend on that order, so the harness may also hand the model the plan it *traced* from the real `save` (per
object and `save_mesh_only`): any list `mid` of effects accepted by the executable test `GoodMid`. -/

def touchesSentinel : Step → Bool
  | .write .sentinel _ => true
  | .remove .sentinel => true
  | _ => false

/-- remove the sentinel, do `mid`, create the sentinel -/
def wrap (mid : List Step) (t : Nat) : List Step := .remove .sentinel :: (mid ++ [.write .sentinel t])

def allTorn : Dir := fun _ => some .torn
def dataFiles : List File := [.nodes, .elements, .nodal, .elemental, .constraints, .settings]

/-- `mid` never touches the sentinel and, started on a directory in which every data file is garbage, leaves exactly
the data files of a complete save of `x` -/
def GoodMid (mid : List Step) (x : Obj) (mo : Bool) : Bool :=
  mid.all (fun s => !touchesSentinel s) &&
  dataFiles.all (fun f => decide ((mid.foldl Step.apply allTorn) f = expected x mo f))

/-- a step list interrupted after `k` effects; with `torn` the next effect's file is left half-written -/
def crashSteps (steps : List Step) (d : Dir) (k : Nat) (torn : Bool) : Dir :=
  let d' := (steps.take k).foldl Step.apply d
  if torn then (match steps[k]? with | some s => s.tear d' | none => d') else d'

inductive GOp
  | read (src : Obj) (mid : List Step)
  | save (x : Obj) (meshOnly : Bool) (mid : List Step)
  | crash (x : Obj) (meshOnly : Bool) (mid : List Step) (k : Nat) (torn : Bool)
deriving Repr, DecidableEq

def GOp.good : GOp → Bool
  | .read src mid => GoodMid mid src false
  | .save x mo mid => GoodMid mid x mo
  | .crash x mo mid _ _ => GoodMid mid x mo

def readDirG (d : Dir) (src : Obj) (mid : List Step) : Dir × Dir :=
  if (d .sentinel).isSome then (d, d) else (expected src false, (wrap mid src.tag).foldl Step.apply d)

def gstep (d : Dir) : GOp → Dir
  | .read src mid => (readDirG d src mid).2
  | .save x _ mid => (wrap mid x.tag).foldl Step.apply d
  | .crash x _ mid k torn => crashSteps (wrap mid x.tag) d k torn

/-! ### interruption by an exception: effects performed while the stack unwinds

A process death (`crashSteps`) performs no further effect.  An interruption that UNWINDS the Python stack
(`KeyboardInterrupt`, `SystemExit` raised by a signal handler, `OSError` disk full, an unserialisable value …) lets every
`finally` / `except` / context-manager exit on the way out run: an interrupted save is then a prefix of the plan
(optionally with the file of the next effect half-written) followed by an arbitrary list `unw` of clean-up effects.  Like
the plan itself `unw` is traced from the real run; `unw = []` is the process death. -/

def interruptSteps (steps : List Step) (d : Dir) (k : Nat) (torn : Bool) (unw : List Step) : Dir :=
  unw.foldl Step.apply (crashSteps steps d k torn)

/-- `safeUnwind s unw` (`s`: the sentinel may exist when the unwinding starts): no clean-up effect creates the
sentinel, and as long as the sentinel may exist no data file is touched (a clean-up may remove the sentinel first) -/
def safeUnwind : Bool → List Step → Bool
  | _, [] => true
  | _, .write .sentinel _ :: _ => false
  | _, .remove .sentinel :: r => safeUnwind false r
  | s, _ :: r => !s && safeUnwind false r

/-- hypothesis of the `*_unwind` theorems on the traced clean-up effects of a save of `nSteps` effects interrupted
after `k` of them; it does not mention the directory: strictly inside the save (0 < k < nSteps) the sentinel is known
to be gone, before the first / after the last effect it may exist -/
def GoodUnwind (nSteps k : Nat) (unw : List Step) : Bool :=
  safeUnwind (decide (k = 0 ∨ nSteps ≤ k)) unw

inductive UOp
  | read (src : Obj) (mid : List Step)
  | save (x : Obj) (meshOnly : Bool) (mid : List Step)
  /-- `save` interrupted after `k` effects (by a process death: `unw = []`, or by an exception) -/
  | interrupt (x : Obj) (meshOnly : Bool) (mid : List Step) (k : Nat) (torn : Bool) (unw : List Step)
  /-- `read_directory(save=True)` whose automatic save (if there is one: no sentinel) is interrupted -/
  | readInterrupt (src : Obj) (mid : List Step) (k : Nat) (torn : Bool) (unw : List Step)
deriving Repr, DecidableEq

def UOp.good : UOp → Bool
  | .read src mid => GoodMid mid src false
  | .save x mo mid => GoodMid mid x mo
  | .interrupt x mo mid k _ unw => GoodMid mid x mo && GoodUnwind (mid.length + 2) k unw
  | .readInterrupt src mid k _ unw => GoodMid mid src false && GoodUnwind (mid.length + 2) k unw

def ustep (d : Dir) : UOp → Dir
  | .read src mid => (readDirG d src mid).2
  | .save x _ mid => (wrap mid x.tag).foldl Step.apply d
  | .interrupt x _ mid k torn unw => interruptSteps (wrap mid x.tag) d k torn unw
  | .readInterrupt src mid k torn unw =>
    if (d .sentinel).isSome then d else interruptSteps (wrap mid src.tag) d k torn unw

/-- the machine without unwinding effects is the special case `unw = []` -/
def GOp.toU : GOp → UOp
  | .read src mid => .read src mid
  | .save x mo mid => .save x mo mid
  | .crash x mo mid k torn => .interrupt x mo mid k torn []

/-! ### reads with non-default options (`read_mesh_only`, `read_npy`, `save`)

`read_directory(file_type, d, read_mesh_only=…, read_npy=…, save=…)`: the cache is used iff `read_npy` and the sentinel
exists; a mesh-only read hands back the node and element tables only (of the cache or of the parse); the automatic save
happens only for a complete parse (`save`, not `read_mesh_only`) when there is no sentinel.  `byExistence` is the slip
"a mesh-only read needs nothing but the node and element files, so it trusts their mere existence": kept as a switch
for the counterexample; the working tree must implement `byExistence = false`. -/

structure ROpt where
  meshOnly : Bool
  readNpy : Bool
  save : Bool
deriving Repr, DecidableEq

def ROpt.default : ROpt := ⟨false, true, true⟩

/-- the node and element tables of what a read loaded / parsed -/
def meshPart (d : Dir) : Dir
  | .nodes => d .nodes
  | .elements => d .elements
  | _ => none

def cacheTrusted (byExistence : Bool) (o : ROpt) (d : Dir) : Bool :=
  o.readNpy && ((d .sentinel).isSome || (byExistence && o.meshOnly && (d .nodes).isSome && (d .elements).isSome))

/-- (what the caller gets, the directory afterwards) -/
def readOpt (byExistence : Bool) (o : ROpt) (d : Dir) (src : Obj) (mid : List Step) : Dir × Dir :=
  let fromCache := cacheTrusted byExistence o d
  let full := if fromCache then d else expected src false
  (if o.meshOnly then meshPart full else full,
   if !fromCache && o.save && !o.meshOnly && (d .sentinel).isNone then (wrap mid src.tag).foldl Step.apply d else d)

/-- histories that also contain reads with options -/
inductive XOp
  | u (op : UOp)
  | readOpt (o : ROpt) (src : Obj) (mid : List Step)
deriving Repr, DecidableEq

def XOp.good : XOp → Bool
  | .u op => op.good
  | .readOpt _ src mid => GoodMid mid src false

def xstep (d : Dir) : XOp → Dir
  | .u op => ustep d op
  | .readOpt o src mid => (readOpt false o d src mid).2

end Femio.C05
