import Femio.Model.FistrMsh
import Femio.Model.Cnt
/-! Model of the analysis-condition part of the FrontISTR control file: `FistrWriter.write_cnt`
(`_generate_constraints`, `!BOUNDARY/!SPRING/!CLOAD/!FIXTEMP/!CFLUX`, `!SOLUTION`) and
`FrontISTRData._read_cnt_*`, `_extend_assignments`, `_read_cnt_solution_type` — C03.  Core Lean only.
A table row is `(node id, one cell per dof)`, `none` = NaN = free (`Cnt.Row`). -/
namespace Femio.Fistr
open Numeral

/-- what `write_cnt` is given (all other settings at their defaults) -/
structure CntIn where
  solution : Name
  /-- every element type is a solid type (selects the `!OUTPUT_*` boilerplate) -/
  onlySolid : Bool
  boundary : Option (List (Cnt.Row Sci))
  spring : Option (List (Cnt.Row Sci))
  cload : Option (List (Cnt.Row Sci))
  fixtemp : Option (List (Nat × Sci))
  cflux : Option (List (Nat × Sci))
  pureCflux : Option (List (Nat × Sci))

/-! ### writer -/
/-- `data.shape[-1]` -/
def tableWidth {V} (t : List (Cnt.Row V)) : Nat := match t with | [] => 0 | r :: _ => r.2.length

def bLineText (l : Cnt.BLine Sci) : Line :=
  joinSep ',' [showNat l.id, showNat l.first, showNat l.last, renderSci 5 l.val]
def dLineText (l : Cnt.DLine Sci) : Line := joinSep ',' [showNat l.id, showNat l.dof, renderSci 6 l.val]
def sLineText (r : Nat × Sci) : Line := joinSep ',' [showNat r.1, renderSci 12 r.2]

/-- `!BOUNDARY` rows: `_generate_constraints` (dof-major), `%d,%d,%d,%.5E` -/
def boundaryRows {V} (t : List (Cnt.Row V)) : List (Cnt.BLine V) :=
  (Cnt.genConstraints (tableWidth t) t).map fun (i, d, x) => ⟨i, d, d, x⟩
/-- `!CLOAD` rows: `_generate_constraints`, first dof column only, `%d,%d,%E` -/
def cloadRows {V} (t : List (Cnt.Row V)) : List (Cnt.DLine V) :=
  (Cnt.genConstraints (tableWidth t) t).map fun (i, d, x) => ⟨i, d, x⟩
/-- `!SPRING` rows: `np.where(~isnan)` (row-major) -/
def springRows {V} (t : List (Cnt.Row V)) : List (Cnt.DLine V) :=
  t.flatMap fun (r : Cnt.Row V) => (List.range r.2.length).filterMap fun k =>
    match r.2[k]? with
    | some (some x) => some ⟨r.1, k + 1, x⟩
    | _ => none

/-- `np.concatenate` of no arrays raises -/
def nonemptyOr {α} (l : List α) : Option (List α) := if l.isEmpty then none else some l

def optBlock {α} (o : Option α) (f : α → Option (List Line)) : Option (List Line) :=
  match o with | none => some [] | some a => f a

def blockLines (hdr : Line) (rows : List Line) : List Line := hdr :: (if rows.isEmpty then [[]] else rows)

def solutionLine (s : Name) : Line := c!"!SOLUTION, TYPE=" ++ s

def cntHead (c : CntIn) : List Line :=
  [c!"!VERSION", c!"5", solutionLine c.solution]
  ++ (if c.solution = c!"HEAT" then [c!"!HEAT"] else [])
  ++ [c!"!WRITE,RESULT, FREQUENCY=1", c!"!WRITE,VISUAL, FREQUENCY=1"]
  ++ (if c.onlySolid then
        [c!"!OUTPUT_RES", c!"ESTRAIN,ON", c!"ESTRESS,ON", c!"EMISES,ON", c!"ISTRAIN,ON", c!"ITEMP,ON",
         c!"!OUTPUT_VIS", c!"ESTRAIN,ON", c!"ESTRESS,ON", c!"EMISES,ON", c!"TEMPERATURE,ON"]
      else [c!"!OUTPUT_RES", c!"DISP,ON"])

def cntTail : List Line :=
  [c!"!SOLVER,METHOD=MUMPS,PRECOND=1,ITERLOG=YES,TIMELOG=YES", c!"100000000, 1", c!"1.0e-08, 1.0, 0.0",
   c!"!VISUAL, method=PSR", c!"!surface_num = 1", c!"!surface 1", c!"!output_type = COMPLETE_REORDER_AVS", c!"!END"]

def boundaryLines (t : List (Cnt.Row Sci)) : Option (List Line) :=
  (nonemptyOr (boundaryRows t)).map fun rs => c!"!BOUNDARY" :: rs.map bLineText
def springLines (t : List (Cnt.Row Sci)) : List Line := blockLines c!"!SPRING" ((springRows t).map dLineText)
def cloadLines (t : List (Cnt.Row Sci)) : Option (List Line) :=
  (nonemptyOr (cloadRows t)).map fun rs => c!"!CLOAD" :: rs.map dLineText
def scalarLines (hdr : Line) (t : List (Nat × Sci)) : List Line := blockLines hdr (t.map sLineText)

/-- `FistrWriter.write_cnt` -/
def writeCnt (c : CntIn) : Option (List Line) := do
  let b ← optBlock c.boundary boundaryLines
  let s ← optBlock c.spring (fun t => some (springLines t))
  let l ← optBlock c.cload cloadLines
  let ft ← optBlock c.fixtemp (fun t => some (scalarLines c!"!FIXTEMP" t))
  let cf ← optBlock c.cflux (fun t => some (scalarLines c!"!CFLUX" t))
  let pf ← optBlock c.pureCflux (fun t => some (scalarLines c!"!CFLUX, TYPE=PURE" t))
  pure (cntHead c ++ b ++ s ++ l ++ ft ++ cf ++ pf ++ cntTail)

/-! ### reader -/
structure CntRead where
  solution : Name
  boundary : Option (List (Cnt.Row Dec))
  spring : Option (List (Cnt.Row Dec))
  cload : Option (List (Cnt.Row Dec))
  fixtemp : Option (List (Nat × Dec))
  cflux : Option (List (Nat × Dec))
  pureCflux : Option (List (Nat × Dec))

/-- `_read_cnt_solution_type`: exactly one line containing `!SOLUTION`, else `STATIC` -/
def readSolution (text : List Line) : Option Name :=
  match (text.filter fun l => !ignoreLine l).filter (hasSub c!"!SOLUTION") with
  | [l] => capture c!"TYPE=" l
  | _ => some c!"STATIC"

def parseBLine (l : Line) : Option (Cnt.BLine Dec) :=
  match splitOn ',' l with
  | [a, b, c, d] => do
    let i ← parseNatTok a; let f ← parseNatTok b; let e ← parseNatTok c; let v ← parseDec d
    pure ⟨i, f, e, v⟩
  | _ => none

def parseDLine (l : Line) : Option (Cnt.DLine Dec) :=
  match splitOn ',' l with
  | [a, b, d] => do
    let i ← parseNatTok a; let f ← parseNatTok b; let v ← parseDec d
    pure ⟨i, f, v⟩
  | _ => none

def parseSLine (l : Line) : Option (Nat × Dec) :=
  match splitOn ',' l with
  | [a, d] => do let i ← parseNatTok a; let v ← parseDec d; pure (i, v)
  | _ => none

/-- `d[start-1:end] = value` on a 3-wide NaN row (`start = 0` would be a negative Python index: not modelled) -/
def readBLineG (l : Cnt.BLine Dec) : Option (Cnt.Row Dec) := if l.first = 0 then none else some (Cnt.readBLine l)
/-- `d[dof-1] = value` on a 3-wide NaN row: raises for `dof > 3` (and `dof = 0` is a negative index) -/
def readDLineG (l : Cnt.DLine Dec) : Option (Cnt.Row Dec) :=
  if l.dof = 0 ∨ 3 < l.dof then none else some (Cnt.readDLine l)

/-- a constraint section: absent when it has no data lines -/
def readSection {α β} (ng : List (Name × List Nat)) (key : List Char) (parse : Line → Option α)
    (conv : α → Option β) (bs : List (Line × List Line)) : Option (Option (List β)) :=
  let data := extractData key bs
  if data.isEmpty then some none else do
    let rows ← extendAssignments ng data
    let ls ← rows.mapM parse
    let out ← ls.mapM conv
    pure (some out)

/-- `_read_cnt` (constraint part) with the node groups read from the mesh file -/
def readCnt (ng : List (Name × List Nat)) (text : List Line) : Option CntRead := do
  let sol ← readSolution text
  let bs := toBlocks text
  let b ← readSection ng c!"!BOUNDARY" parseBLine readBLineG bs
  let s ← readSection ng c!"!SPRING" parseDLine readDLineG bs
  let l ← readSection ng c!"!CLOAD" parseDLine readDLineG bs
  let ft ← readSection ng c!"!FIXTEMP" parseSLine some bs
  let cfAll ← readSection ng c!"!CFLUX" parseSLine some bs
  let types := (blocksOf c!"!CFLUX" bs).filterMap fun b => capture c!"TYPE=" b.1
  match cfAll with
  | none => pure ⟨sol, b, s, l, ft, none, none⟩
  | some rows =>
    if types.isEmpty then pure ⟨sol, b, s, l, ft, some rows, none⟩
    else if types = [c!"PURE"] then pure ⟨sol, b, s, l, ft, none, some rows⟩
    else none

end Femio.Fistr
