/-! Model of the constraint sections of the FrontISTR control file (C03). Core only.
    A table row is an id with one cell per degree of freedom; `none` = NaN = free. -/
namespace Cnt
variable {V : Type}

abbrev Row (V : Type) := Nat × List (Option V)

/-- `_generate_constraints`: for each dof column (outer loop), the rows whose entry is not NaN -/
def genConstraints (width : Nat) (t : List (Row V)) : List (Nat × Nat × V) :=
  (List.range width).flatMap fun k =>
    t.filterMap fun (r : Row V) => match r.2[k]? with
      | some (some x) => some (r.1, k + 1, x)
      | _ => none

/-- a `!BOUNDARY` data line: id, first dof, last dof, value -/
structure BLine (V : Type) where
  id : Nat
  first : Nat
  last : Nat
  val : V
deriving DecidableEq

def writeBoundary (t : List (Row V)) : List (BLine V) := (genConstraints 3 t).map fun (i, d, x) => ⟨i, d, d, x⟩

/-- `_read_cnt_boundaries`: `d[start-1:end] = value` on a 3-wide NaN row -/
def readBLine (l : BLine V) : Row V :=
  (l.id, (List.range 3).map fun k => if l.first - 1 ≤ k ∧ k < l.last then some l.val else none)

def readBoundary (ls : List (BLine V)) : List (Row V) := ls.map readBLine

/-- a `!CLOAD` / `!SPRING` data line: id, dof, value -/
structure DLine (V : Type) where
  id : Nat
  dof : Nat
  val : V
deriving DecidableEq
def writeCload (t : List (Row V)) : List (DLine V) := (genConstraints 3 t).map fun (i, d, x) => ⟨i, d, x⟩
def readDLine (l : DLine V) : Row V := (l.id, (List.range 3).map fun k => if k = l.dof - 1 then some l.val else none)
def readCload (ls : List (DLine V)) : List (Row V) := ls.map readDLine

/-- the prescriptions a table denotes -/
def Presc (t : List (Row V)) (p : Nat × Nat × V) : Prop :=
  ∃ r ∈ t, r.1 = p.1 ∧ 1 ≤ p.2.1 ∧ r.2[p.2.1 - 1]? = some (some p.2.2)

/-! node groups: a line addressed to a group name stands for one line per member (`_extend_assignments`) -/
inductive Target | node (id : Nat) | group (name : Nat)
structure GLine (V : Type) where
  target : Target
  first : Nat
  last : Nat
  val : V

/-- expanded group lines first, then the numeric lines, as the real code orders them -/
def extend (groups : Nat → List Nat) (ls : List (GLine V)) : List (BLine V) :=
  (ls.flatMap fun l => match l.target with
     | .group g => (groups g).map fun i => ⟨i, l.first, l.last, l.val⟩
     | .node _ => [])
  ++ (ls.filterMap fun l => match l.target with
     | .node i => some ⟨i, l.first, l.last, l.val⟩
     | .group _ => none)

/-- the same condition listed explicitly for each node of the group, in place -/
def explicit (groups : Nat → List Nat) (ls : List (GLine V)) : List (BLine V) :=
  ls.flatMap fun l => match l.target with
     | .group g => (groups g).map fun i => ⟨i, l.first, l.last, l.val⟩
     | .node i => [⟨i, l.first, l.last, l.val⟩]

end Cnt
