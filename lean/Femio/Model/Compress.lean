import Femio.Model.Faces
/-! Executable model of the combinatorial steps of `femio/mesh_compressor.py` (property C20). Core Lean only.

A polyhedral cell is a list of faces, a face a cyclic list of node indices (`Faces.Face`); femio stores a cell as
the flat record `[m, k_1, v…, k_2, v…, …]` (`parseCell`).  Modelled *as coded*:

* `checkPolyhedron`  – `check_polyhedron`: no repeated node inside a face, and the **set** of directed edges is
  closed under reversal (the multiplicity test is commented out in the code; faces shorter than 3 are removed by
  `shrink`, not rejected here).  `checkCell` adds the two things the property asks for on top
  (≥ 3 nodes per face); `balancedCell` is the multiset version needed for volume arguments.
* `mergeCells`       – the face cancellation of `merge_polyhedrons` (`face_count` table keyed by the rotation-
  normalised oriented face; a face survives `count(F) - count(reverse F)` times).
* `mergeAlong`       – the face produced by `remove_one_edge_from_polyhedron` for two faces sharing one edge.
* `reindex`          – `reindex`: representative chasing in `node_conv`, `-1` for nodes whose representative is no
  longer used by any face, contiguous renumbering, face rewrite.
* transfer           – the 0/1 conversion matrix as a list of rows (each row = list of column indices), `mean` and
  `sum` transfer in both directions (the transposed matrix is `transpose`), over `Rat`.
The heuristic pipeline (hashing seed, float thresholds, greedy orders) is not modelled. -/
namespace Femio.C20
open Faces

abbrev Cell := List Face

/-! ### flat records -/
def parseFaces : Nat → List Nat → Option (List Face)
  | 0, _ => some []
  | _ + 1, [] => none
  | m + 1, k :: rest =>
    if rest.length < k then none
    else (parseFaces m (rest.drop k)).map fun fs => rest.take k :: fs

/-- `poly[0]` faces, each `k` followed by `k` node indices (data after the last face is ignored, as in the code) -/
def parseCell : List Nat → Option Cell
  | [] => none
  | m :: rest => parseFaces m rest

/-! ### check_polyhedron -/
/-- `len(F) == len(np.unique(F))` -/
def nodupB : Face → Bool
  | [] => true
  | a :: t => !t.contains a && nodupB t

/-- `check_polyhedron(poly)` -/
def checkPolyhedron (c : Cell) : Bool :=
  c.all nodupB && (edgesOf c).all fun e => (edgesOf c).contains (e.2, e.1)

/-- the checker applied to every output cell: `check_polyhedron` and at least three nodes per face -/
def checkCell (c : Cell) : Bool := checkPolyhedron c && c.all fun f => decide (3 ≤ f.length)

/-- every directed edge occurs exactly as often as its reverse (what a volume argument needs) -/
def balancedCell (c : Cell) : Bool := balB (edgesOf c)

/-- `collect_vertex`: sorted distinct nodes of a cell -/
def insertDistinct (x : Nat) : List Nat → List Nat
  | [] => [x]
  | y :: t => if x < y then x :: y :: t else if x = y then y :: t else y :: insertDistinct x t
def cellNodes (c : Cell) : List Nat := c.flatten.foldr insertDistinct []

/-! ### merge_polyhedrons: cancellation of opposite faces -/
/-- position of the first minimum (`np.where(F == F.min())[0][0]`) -/
def argMin : List Nat → Nat
  | [] => 0
  | a :: t => if t.all (fun b => decide (a ≤ b)) then 0 else argMin t + 1

/-- the sequence hashed by `calc_face_hash`: `F[idx], F[idx-1], …` (rotation-normalised, orientation kept) -/
def canon (f : Face) : Face :=
  let n := f.length
  let i0 := argMin f
  (List.range n).map fun i => f.getD ((i0 + n - i) % n) 0

abbrev Tbl := List (Face × Nat)
def getC : Tbl → Face → Nat
  | [], _ => 0
  | (k', c) :: t, k => if k' = k then c else getC t k
def setC : Tbl → Face → Nat → Tbl
  | [], k, c => [(k, c)]
  | (k', c') :: t, k, c => if k' = k then (k, c) :: t else (k', c') :: setC t k c

/-- `add(i)` for every cell of the group -/
def countTbl (fs : List Face) : Tbl := fs.foldl (fun t f => setC t (canon f) (getC t (canon f) + 1)) []

/-- the `make face data` loop: a face is emitted `count(x) - count(y)` times the first time it is met with a surplus -/
def mergeLoop : List Face → Tbl → List Face
  | [], _ => []
  | f :: fs, tbl =>
    let x := canon f
    let y := canon f.reverse
    let cx := getC tbl x
    let cy := getC tbl y
    if cy < cx then List.replicate (cx - cy) f ++ mergeLoop fs (setC tbl x cy) else mergeLoop fs tbl

def mergeCells (cells : List Cell) : Cell :=
  let fs := cells.flatten
  mergeLoop fs (countTbl fs)

/-! ### remove_one_edge_from_polyhedron: two faces sharing the edge A–B become one -/
/-- `f1 = A :: B :: p` (cyclically A→B→p…→A) and `f2 = B :: A :: q`: the remaining edges form the cycle
    B→p…→A→q…→B -/
def mergeAlong (A B : Nat) (p q : List Nat) : Face := B :: p ++ A :: q

/-- rotate a face so that it starts with the directed edge `(a, b)`; `none` if it has no such edge -/
def rotateTo (a b : Nat) (f : Face) : Option Face :=
  (List.range f.length).findSome? fun i =>
    let g := f.drop i ++ f.take i
    match g with
    | x :: y :: _ => if x = a ∧ y = b then some g else none
    | _ => none

/-- the cell after merging the (exactly two) faces that contain the edge A–B, one in each direction -/
def removeEdge (A B : Nat) (c : Cell) : Option Cell :=
  let has (a b : Nat) (f : Face) : Bool := (dirEdges f).contains (a, b)
  match c.filter (has A B), c.filter (has B A) with
  | [f1], [f2] =>
    match rotateTo A B f1, rotateTo B A f2 with
    | some (_ :: _ :: p), some (_ :: _ :: q) =>
      some ((c.filter fun f => !has A B f && !has B A f) ++ [mergeAlong A B p q])
    | _, _ => none
  | _, _ => none

/-! ### reindex -/
/-- one sweep of `node_conv[v] = node_conv[node_conv[v]]` -/
def chaseOnce (conv : List Nat) : List Nat := conv.map fun p => conv.getD p p

def chase : Nat → List Nat → List Nat
  | 0, conv => conv
  | n + 1, conv => let c' := chaseOnce conv; if c' = conv then conv else chase n c'

structure Reindexed where
  /-- new `node_conv`: `none` = `-1` -/
  conv : List (Option Nat)
  cells : List Cell
  /-- old index of every kept node, in the new numbering order -/
  kept : List Nat
deriving Repr

/-- `reindex(csr, node_conv)`; `conv[v]` = representative of `v` (itself if never merged) -/
def reindex (cells : List Cell) (conv : List Nat) : Reindexed :=
  let n := conv.length
  let used : List Nat := cells.flatten.flatten
  let isin (v : Nat) : Bool := used.contains v
  let root := chase n conv
  let kept := (List.range n).filter isin
  let newId (v : Nat) : Option Nat := kept.idxOf? v
  let conv' := root.map fun p => if isin p then newId p else none
  ⟨conv', cells.map fun c => c.map fun f => f.map fun v => (newId v).getD 0, kept⟩

/-! ### conversion matrices and data transfer -/
/-- a 0/1 matrix with `ncols` columns: row `i` = the column indices of its non-zeros (no repeats) -/
structure Mat where
  ncols : Nat
  rows : List (List Nat)

def Mat.transpose (m : Mat) : Mat :=
  ⟨m.rows.length, (List.range m.ncols).map fun j => (List.range m.rows.length).filter fun i => (m.rows.getD i []).contains j⟩

def sumL : List Rat → Rat := fun l => l.foldr (· + ·) 0

def colCount (m : Mat) (j : Nat) : Nat := (m.rows.filter fun r => r.contains j).length

/-- `kind="mean"`: `(mat @ x) / mat.sum(axis=1)` (division by zero yields nan in numpy; here the row must be non-empty) -/
def transferMean (m : Mat) (x : Nat → Rat) : List Rat :=
  m.rows.map fun r => sumL (r.map x) / (r.length : Rat)

/-- `kind="sum"` as documented (and as repaired): `mat @ (x / mat.sum(axis=0))` -/
def transferSum (m : Mat) (x : Nat → Rat) : List Rat :=
  m.rows.map fun r => sumL (r.map fun j => x j / (colCount m j : Rat))

/-- `kind="sum"` as coded before the repair, for one-column data `x` of shape (N, 1): `x / wt` broadcasts
    `(N,1) / (1,N)` to an (N, N) table `T[i][j] = x_i / colsum_j`, and `mat @ T` has N columns instead of one -/
def transferSumBroadcast (m : Mat) (x : Nat → Rat) : List (List Rat) :=
  m.rows.map fun r => (List.range m.ncols).map fun j => sumL (r.map fun i => x i / (colCount m j : Rat))

end Femio.C20
