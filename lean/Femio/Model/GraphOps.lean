import Femio.Model.Core
import Femio.Model.Graph
/-! C13 — executable model of the mesh graph matrices of `femio/graph_processor.py` (core only).

* `incidence` (shared `Core.incidence`, both branches of `calculate_incidence_matrix`) and its
  `order1_only` variant (`filter_first_order_nodes`, `elements.to_first_order`);
* `adjElem = IᵀI`, `adjNode = IIᵀ` with scipy's Boolean semantics (OR of ANDs);
* `nHopM`: `calculate_n_hop_adj` on materialised matrices (arrays), refined to `Graph.nHop`;
* `lapEntry`: `calculate_laplacian_matrix` (`adj.astype(int) − I`, minus the diagonal of its row sums);
* `gradEdges`: rows of `calculate_edge_gradient_matrix` (`c > r` entries of the adjacency, `+1` at `r`, `−1` at `c`);
* `e2vNonzeros`: the nonzeros of `adj − I` whose rows are the single `1` of each column of `calculate_e2v_matrix`. -/
namespace Femio.C13
open Core Graph

/-- indices of the second-order types in `ELEMENT_TYPES` (`'2' in t`); `Gen.elementTypes` obligation in Props -/
def isSecond (ty : Nat) : Bool := ty == 1 || ty == 4 || ty == 6 || ty == 9 || ty == 11 || ty == 13 || ty == 15

/-- `_to_first_order`: tet2 → first 4 nodes, hex2 → first 8 (other second-order types raise in femio) -/
def firstOrderConn (ty : Nat) (conn : List Id) : List Id :=
  if ty = 9 then conn.take 4 else if ty = 15 then conn.take 8 else conn

def supportedO1 (blocks : List (List Elem)) : Bool :=
  blocks.flatten.all fun e => !isSecond e.ty || e.ty == 9 || e.ty == 15

def order1Blocks (blocks : List (List Elem)) : List (List Elem) :=
  blocks.map fun b => b.map fun e => { e with conn := firstOrderConn e.ty e.conn }

/-- `filter_first_order_nodes` applied to `nodes.ids` -/
def order1Nodes (nodeIds : List Id) (blocks : List (List Elem)) : List Id :=
  if blocks.flatten.all (fun e => !isSecond e.ty) then nodeIds
  else
    let fo := (order1Blocks blocks).flatten.flatMap Elem.conn
    nodeIds.filter fun i => fo.contains i

/-- `calculate_incidence_matrix(order1_only)` as a list of `(row, col)` entries (duplicates possible) -/
def incidenceOpt (order1 : Bool) (nodeIds : List Id) (blocks : List (List Elem)) : List (Nat × Nat) :=
  if order1 then incidence (order1Nodes nodeIds blocks) (order1Blocks blocks) else incidence nodeIds blocks

def nRows (order1 : Bool) (nodeIds : List Id) (blocks : List (List Elem)) : Nat :=
  if order1 then (order1Nodes nodeIds blocks).length else nodeIds.length

def incB (inc : List (Nat × Nat)) : BMat := fun i j => inc.contains (i, j)

/-- `incidence.T.dot(incidence)` -/
def adjElem (nNode : Nat) (I : BMat) : BMat := fun j k => (List.range nNode).any fun i => I i j && I i k
/-- `incidence.dot(incidence.T)` -/
def adjNode (nElem : Nat) (I : BMat) : BMat := fun i l => (List.range nElem).any fun j => I i j && I l j

/-! materialised square Boolean matrices -/
abbrev M := Array (Array Bool)
def M.get (m : M) (i j : Nat) : Bool := ((m[i]?).bind (·[j]?)).getD false
def M.ofFn (n : Nat) (f : BMat) : M := Array.ofFn (n := n) fun i => Array.ofFn (n := n) fun j => f i j

def nHopAuxM (n : Nat) (A : M) : Nat → M × M
  | 0 => (A, A)
  | h + 1 =>
    let r := nHopAuxM n A h
    let pw' := M.ofFn n (mul n r.2.get A.get)
    (M.ofFn n (add r.1.get pw'.get), pw')

/-- `calculate_n_hop_adj(n_hop = hops, include_self_loop = True)` on the materialised adjacency -/
def nHopM (n : Nat) (A : BMat) (hops : Nat) : M := (nHopAuxM n (M.ofFn n A) (hops - 1)).1

/-- entry `(i, j)` of `calculate_n_hop_adj(..., include_self_loop = sl)`: the Boolean reachability matrix `R` as 0/1,
minus the identity when self loops are excluded (`return_adj - sp.eye(...)`) -/
def nHopEntry (R : M) (sl : Bool) (i j : Nat) : Int :=
  (if R.get i j then 1 else 0) - (if sl then 0 else if i = j then 1 else 0)

/-- one more hop built on a PREVIOUS n-hop result given by its integer entries (`sp.csr_matrix(previous, dtype=bool).dot(adj)`):
what a recursive formulation on the cached `(n-1)`-hop matrix computes -/
def nHopExtend (n : Nat) (prev : Nat → Nat → Int) (A : BMat) : M :=
  M.ofFn n (mul n (fun i j => decide (prev i j ≠ 0)) A)

/-- `calculate_n_hop_adj` by BINARY POWERING (a reformulation that needs `O(log n_hop)` products): the result is the product of
the running powers at the set bits of the hop count; `sq = true` squares the running power after every bit
(`power = power · power`, so it is the `2^k`-hop matrix at bit `k`), `sq = false` keeps the linear update
`power = power · adj` (seeded change C13-10: the running power at bit `k` is then only the `(k+1)`-hop matrix) -/
def nHopBinAux (sq : Bool) (n : Nat) (A : M) : Nat → Nat → Option M → M → Option M
  | 0, _, ret, _ => ret
  | fuel + 1, rem, ret, pw =>
    if rem = 0 then ret else
    let ret' := if rem % 2 = 1 then
        (match ret with
         | none => some pw
         | some r => some (M.ofFn n (mul n r.get pw.get)))
      else ret
    let pw' := if sq then M.ofFn n (mul n pw.get pw.get) else M.ofFn n (mul n pw.get A.get)
    nHopBinAux sq n A fuel (rem / 2) ret' pw'

def nHopBin (sq : Bool) (n : Nat) (A : BMat) (hops : Nat) : M :=
  let A' := M.ofFn n A
  (nHopBinAux sq n A' (max hops 1) (max hops 1) none A').getD A'

/-- entries of an `n × n` Boolean function, row-major -/
def entries (n : Nat) (A : BMat) : List (Nat × Nat) :=
  (List.range n).flatMap fun i => (List.range n).filterMap fun j => if A i j then some (i, j) else none

/-- `adj.astype(int) − eye` -/
def woLoop (A : BMat) (i j : Nat) : Int := (if A i j then 1 else 0) - (if i = j then 1 else 0)
/-- `calculate_laplacian_matrix`: `adj_wo_loop − diags(adj_wo_loop.sum(axis=1))` -/
def lapEntry (n : Nat) (A : BMat) (i j : Nat) : Int :=
  woLoop A i j - (if i = j then ((List.range n).map (woLoop A i)).sum else 0)

/-- rows of `calculate_edge_gradient_matrix`: the `(r, c)`, `c > r`, entries of the adjacency -/
def gradEdges (n : Nat) (A : BMat) : List (Nat × Nat) :=
  (List.range n).flatMap fun r => (List.range n).filterMap fun c => if r < c && A r c then some (r, c) else none

/-- nonzeros of `adj − eye` (value `A_ij − δ_ij ≠ 0`), resp. of `adj` with self loops;
the k-th one gives column k of `calculate_e2v_matrix` its single `1`, in row `.1` -/
def e2vNonzeros (n : Nat) (A : BMat) (selfLoop : Bool) : List (Nat × Nat) :=
  (List.range n).flatMap fun i => (List.range n).filterMap fun j =>
    if selfLoop then (if A i j then some (i, j) else none)
    else if (i ≠ j && A i j) || (i = j && !A i j) then some (i, j) else none

/-! ### queries on a live object: a memo table in front of a pure function

`lru_cache` in front of the graph methods, abstractly: a bounded association list from keys (the receiver and ALL option
values) to results; a hit returns the stored value, a miss computes, stores in front and evicts beyond the capacity.
`proj` is what the table is keyed on (`id` for the real code; a lossy `proj` models "keyed on option names, not values"). -/

def memoLookup {κ' ν : Type} [DecidableEq κ'] (k : κ') : List (κ' × ν) → Option ν
  | [] => none
  | (k', v) :: t => if k' = k then some v else memoLookup k t

/-- one query: (new table, answer) -/
def memoQuery {κ κ' ν : Type} [DecidableEq κ'] (proj : κ → κ') (f : κ → ν) (cap : Nat)
    (tbl : List (κ' × ν)) (k : κ) : List (κ' × ν) × ν :=
  match memoLookup (proj k) tbl with
  | some v => (tbl, v)
  | none => (((proj k, f k) :: tbl).take cap, f k)

/-- a history of queries on one table: the answers in order -/
def memoRun {κ κ' ν : Type} [DecidableEq κ'] (proj : κ → κ') (f : κ → ν) (cap : Nat) :
    List (κ' × ν) → List κ → List ν
  | _, [] => []
  | tbl, k :: ks => let r := memoQuery proj f cap tbl k; r.2 :: memoRun proj f cap r.1 ks

end Femio.C13
