/-! Executable model of the spatial searches of `femio/graph_processor.py` (property C16). Core Lean only.

* `build` / `step` / `knnRun` / `knnOut` : `build_octree_node` + `_nns_from_nodes_to_nodes`
  (best-first search over the fixed-depth octree, strict pruning `lb > kth`, `distance_upper_bound`,
  `-1 / inf` padding).  All distances are **squared** (no `sqrt`): every comparison the code makes between
  two non-negative square roots is the same comparison between the radicands.
* `ubRun` / `nnRun` / `hausLoop` / `hausDirected` : `_calc_directed_hausdorff_nodes`
  (`calc_frm_node` leaf upper bounds, leaves processed by descending upper bound, `break` when the bound
  cannot beat the running maximum, `calc_frm` with the early exit `hi <= HD -> return 0.0`).
* `hopSucc` / `hopVisited` / `hopNodal` / `hopElemental` : the two BFS kernels of
  `calculate_euclidean_hop_graph` on the node–element bipartite graph (vertices `0..V-1` = nodes,
  `V..V+E-1` = elements, exactly the numbering of the code).

Tree nodes are explicit (`Oct`); a box is (centre, half-width) as `node_xyzw`. -/
namespace Femio.C16

structure P3 where
  x : Rat
  y : Rat
  z : Rat
deriving Repr, DecidableEq

structure Box where
  c : P3
  w : Rat
deriving Repr, DecidableEq

/-- child `r` of a box: bit 4 ↦ x, bit 2 ↦ y, bit 1 ↦ z; a set bit means "minus side" (as in the code) -/
def child (b : Box) (r : Nat) : Box :=
  let vw := b.w / 2
  ⟨⟨if r / 4 % 2 = 1 then b.c.x - vw else b.c.x + vw,
    if r / 2 % 2 = 1 then b.c.y - vw else b.c.y + vw,
    if r % 2 = 1 then b.c.z - vw else b.c.z + vw⟩, vw⟩

def inBox (b : Box) (p : P3) : Bool :=
  decide (b.c.x - b.w ≤ p.x) && decide (p.x ≤ b.c.x + b.w) &&
  decide (b.c.y - b.w ≤ p.y) && decide (p.y ≤ b.c.y + b.w) &&
  decide (b.c.z - b.w ≤ p.z) && decide (p.z ≤ b.c.z + b.w)

/-- first child (in the order 0..7 the code tries) that contains the point; 0 if none (cannot happen) -/
def pick (b : Box) (p : P3) : Nat := ((List.range 8).find? fun r => inBox (child b r) p).getD 0

/-- the digits chosen while descending `depth` levels -/
def assign (b : Box) (p : P3) : Nat → List Nat
  | 0 => []
  | d + 1 => let r := pick b p; r :: assign (child b r) p d

def boxOf (b : Box) : List Nat → Box
  | [] => b
  | r :: rs => boxOf (child b r) rs

def clamp (lo hi v : Rat) : Rat := if v < lo then lo else if hi < v then hi else v
def sq (a : Rat) : Rat := a * a
def dist2 (p q : P3) : Rat := sq (p.x - q.x) + sq (p.y - q.y) + sq (p.z - q.z)
/-- `possible_dist_min` squared -/
def lb2 (b : Box) (q : P3) : Rat :=
  sq (q.x - clamp (b.c.x - b.w) (b.c.x + b.w) q.x) + sq (q.y - clamp (b.c.y - b.w) (b.c.y + b.w) q.y)
  + sq (q.z - clamp (b.c.z - b.w) (b.c.z + b.w) q.z)

/-! ### explicit octree and the k-nearest search loop -/

/-- (squared distance, target index) — a structure, not a product, so that it can carry its own order -/
structure Key where
  d : Rat
  idx : Nat
deriving Repr, DecidableEq

/-- heap order of `(-d, idx)` tuples read from the far end: nearer first, on ties the larger index first -/
def keyLe (a b : Key) : Bool := decide (a.d < b.d) || (decide (a.d = b.d) && decide (b.idx ≤ a.idx))

def insKeySorted (x : Key) : List Key → List Key
  | [] => [x]
  | y :: t => if keyLe x y then x :: y :: t else y :: insKeySorted x t
/-- `heapq.heappushpop` on the bounded result heap -/
def insKey (k : Nat) (x : Key) (r : List Key) : List Key := (insKeySorted x r).take k

inductive Oct where
  | empty
  | leaf (idxs : List Nat)
  | node (kids : Fin 8 → Oct)

/-- `build_octree_node`: descend `d` levels; children without points are `empty` (the search skips them) -/
def build (pt : Nat → P3) : Nat → Box → List Nat → Oct
  | 0, _, is => .leaf is
  | d + 1, b, is => .node fun r =>
      let cis := is.filter fun i => pick b (pt i) = r.val
      if cis.isEmpty then .empty else build pt d (child b r.val) cis

def Oct.idxs : Oct → List Nat
  | .empty => []
  | .leaf is => is
  | .node kids => (List.finRange 8).flatMap fun r => (kids r).idxs

def Oct.isEmpty : Oct → Bool
  | .empty => true
  | _ => false

/-- children of a boxed tree, each with its own box (`idx[to+1]-idx[to] == 0` children are skipped);
    `none` for a leaf -/
def kidList (b : Box) : Oct → Option (List (Box × Oct))
  | .empty => some []
  | .leaf _ => none
  | .node kids => some (((List.finRange 8).map fun r => (child b r.val, kids r)).filter fun bt => !bt.2.isEmpty)

abbrev QEntry := Rat × (Box × Oct)
def insQ (e : QEntry) : List QEntry → List QEntry
  | [] => [e]
  | f :: t => if e.1 ≤ f.1 then e :: f :: t else f :: insQ e t

structure CSt where
  queue : List QEntry
  res : List Key

/-- `d > -res_q[0][0]` once the result heap is full (`res` ascending, so its last entry is the k-th) -/
def kthLt (res : List Key) (d : Rat) : Bool := match res.getLast? with | some m => decide (m.d < d) | none => false

def keysOf (pt : Nat → P3) (q : P3) (is : List Nat) : List Key := is.map fun i => ⟨dist2 q (pt i), i⟩

/-- `d > distance_upper_bound` on squared values; `none` = `np.inf` -/
def exceeds (bound : Option Rat) (d : Rat) : Bool :=
  match bound with
  | none => false
  | some b => decide (b < d)

/-- one iteration of the `while que:` loop of `calc_frm` -/
def step (pt : Nat → P3) (k : Nat) (bound : Option Rat) (q : P3) (s : CSt) : CSt :=
  match s.queue with
  | [] => s
  | (d, (b, t)) :: rest =>
    if (s.res.length = k ∧ kthLt s.res d = true) ∨ exceeds bound d = true then ⟨rest, s.res⟩
    else match kidList b t with
      | some kids => ⟨kids.foldr (fun bt acc => insQ (lb2 bt.1 q, bt) acc) rest, s.res⟩
      | none => ⟨rest, ((keysOf pt q t.idxs).filter fun x => !exceeds bound x.d).foldl (fun r x => insKey k x r) s.res⟩

def iter {σ : Type} (f : σ → σ) : Nat → σ → σ
  | 0, s => s
  | n + 1, s => iter f n (f s)

/-- number of tree nodes: every loop iteration consumes one queued (sub)tree, so this is enough fuel -/
def Oct.size : Oct → Nat
  | .empty => 1
  | .leaf _ => 1
  | .node kids => 1 + ((List.finRange 8).map fun r => (kids r).size).sum

def knnRun (pt : Nat → P3) (k : Nat) (bound : Option Rat) (root : Box) (t : Oct) (q : P3) (fuel : Nat) : CSt :=
  iter (step pt k bound q) fuel ⟨[(0, (root, t))], []⟩

/-- one returned neighbour: `none` is the padding `(-1, (inf, inf, inf), inf)` -/
structure Hit where
  idx : Nat
  vec : P3
  d2 : Rat
deriving Repr, DecidableEq

/-- the `k` rows returned for one query: found neighbours nearest first, then the padding -/
def knnOut (pt : Nat → P3) (k : Nat) (q : P3) (res : List Key) : List (Option Hit) :=
  (res.map fun x => some ⟨x.idx, ⟨(pt x.idx).x - q.x, (pt x.idx).y - q.y, (pt x.idx).z - q.z⟩, x.d⟩)
    ++ List.replicate (k - res.length) none

/-- `_nns_from_nodes_to_nodes` for one query point against the octree `t` over box `root` -/
def knn (pt : Nat → P3) (k : Nat) (bound : Option Rat) (root : Box) (t : Oct) (q : P3) : List (Option Hit) :=
  knnOut pt k q (knnRun pt k bound root t q t.size).res

/-! ### directed Hausdorff distance -/

def absR (a : Rat) : Rat := if a < 0 then -a else a
def maxR (a b : Rat) : Rat := if a < b then b else a
def minR (a b : Rat) : Rat := if b < a then b else a

/-- `possible_dist_max_node` squared: no point of box `a` is farther than this from any point of box `b` -/
def ubNode2 (a b : Box) : Rat :=
  let dw := a.w + b.w
  sq (absR (a.c.x - b.c.x) + dw) + sq (absR (a.c.y - b.c.y) + dw) + sq (absR (a.c.z - b.c.z) + dw)

/-- `hi` of `possible_dist_range`, squared: no point of the box is farther than this from `q` -/
def hi2 (b : Box) (q : P3) : Rat :=
  sq (maxR (absR (b.c.x - b.w - q.x)) (absR (b.c.x + b.w - q.x)))
  + sq (maxR (absR (b.c.y - b.w - q.y)) (absR (b.c.y + b.w - q.y)))
  + sq (maxR (absR (b.c.z - b.w - q.z)) (absR (b.c.z + b.w - q.z)))

/-- `d > dist` with `dist = none` for `inf` -/
def gtOpt (d : Rat) (dist : Option Rat) : Bool := match dist with | none => false | some m => decide (m < d)
/-- `d < dist` -/
def ltOpt (d : Rat) (dist : Option Rat) : Bool := match dist with | none => true | some m => decide (d < m)
def minOpt (dist : Option Rat) (d : Rat) : Option Rat := match dist with | none => some d | some m => some (minR m d)

/-- one iteration of `calc_frm_node(i)`; `a` = box of leaf `i` of tree A, the queue runs over tree B -/
def ubStep (a : Box) (s : List QEntry × Option Rat) : List QEntry × Option Rat :=
  match s.1 with
  | [] => s
  | (d, (b, t)) :: rest =>
    if gtOpt d s.2 then (rest, s.2)
    else match kidList b t with
      | some kids =>
        ((kids.filter fun bt => ltOpt (ubNode2 a bt.1) s.2).foldr (fun bt acc => insQ (ubNode2 a bt.1, bt) acc) rest, s.2)
      | none => (rest, minOpt s.2 (ubNode2 a b))

def ubRun (a : Box) (rootB : Box) (tB : Oct) (fuel : Nat) : List QEntry × Option Rat :=
  iter (ubStep a) fuel ([(0, (rootB, tB))], none)

/-- state of `calc_frm`: the k = 1 search state plus "returned 0.0 early" -/
structure HSt where
  s : CSt
  exit : Bool

/-- does the iteration about to run hit `if hi <= HD: return 0.0` ? -/
def exitNow (HD : Rat) (q : P3) (s : CSt) : Bool :=
  match s.queue with
  | [] => false
  | (d, (b, t)) :: _ =>
    if s.res.length = 1 ∧ kthLt s.res d = true then false
    else match kidList b t with
      | some kids => kids.any fun bt => decide (hi2 bt.1 q ≤ HD)
      | none => false

/-- one iteration of `calc_frm` (directed Hausdorff): the k = 1 nearest search with the early exit -/
def nnStep (pt : Nat → P3) (HD : Rat) (q : P3) (h : HSt) : HSt :=
  if h.exit then h
  else if exitNow HD q h.s then ⟨h.s, true⟩
  else ⟨step pt 1 none q h.s, false⟩

def nnRun (pt : Nat → P3) (rootB : Box) (tB : Oct) (HD : Rat) (q : P3) (fuel : Nat) : HSt :=
  iter (nnStep pt HD q) fuel ⟨⟨[(0, (rootB, tB))], []⟩, false⟩

/-- value returned by `calc_frm`, squared (`none` = `inf`: no target at all) -/
def nnVal (h : HSt) : Option Rat := if h.exit then some 0 else h.s.res.head?.map (·.d)

/-- non-empty leaves with their boxes, in ascending node-id order -/
def leavesOf (b : Box) : Oct → List (Box × List Nat)
  | .empty => []
  | .leaf is => if is.isEmpty then [] else [(b, is)]
  | .node kids => (List.finRange 8).flatMap fun r => leavesOf (child b r.val) (kids r)

/-- insertion by descending upper bound (`heapq` on `(-ub, i)`), `none` = `inf` first -/
def geOpt (a b : Option Rat) : Bool :=
  match a, b with
  | none, _ => true
  | some _, none => false
  | some x, some y => decide (y ≤ x)

def insDesc (e : Option Rat × List Nat) : List (Option Rat × List Nat) → List (Option Rat × List Nat)
  | [] => [e]
  | f :: t => if geOpt e.1 f.1 then e :: f :: t else f :: insDesc e t

/-- `dist_upper <= HD` -/
def leOptR (u : Option Rat) (HD : Rat) : Bool := match u with | none => false | some x => decide (x ≤ HD)

/-- `max(HD, calc_frm(...))`; `none` (no target) keeps HD — the wrapper never calls the kernel with an empty set -/
def maxOpt (HD : Rat) (v : Option Rat) : Rat := match v with | none => HD | some x => maxR HD x

/-- the main `while que:` loop: leaves by descending upper bound, `break` when the bound cannot win -/
def hausLoop (nn : Rat → Nat → Option Rat) : List (Option Rat × List Nat) → Rat → Rat
  | [], HD => HD
  | (ub, is) :: rest, HD =>
    if leOptR ub HD then HD
    else hausLoop nn rest (is.foldl (fun h i => maxOpt h (nn h i)) HD)

/-- leaves of A with `calc_frm_node`, by descending upper bound -/
def hausLeaves (root : Box) (tA tB : Oct) : List (Option Rat × List Nat) :=
  (leavesOf root tA).foldr (fun bl acc => insDesc ((ubRun bl.1 root tB tB.size).2, bl.2) acc) []

/-- `_calc_directed_hausdorff_nodes(octree_A, octree_B)`, squared; both trees over the same `root` box -/
def hausDirectedT (ptA ptB : Nat → P3) (root : Box) (tA tB : Oct) : Rat :=
  hausLoop (fun HD i => nnVal (nnRun ptB root tB HD (ptA i) tB.size)) (hausLeaves root tA tB) 0

def hausDirected (ptA ptB : Nat → P3) (nA nB depth : Nat) (root : Box) : Rat :=
  hausDirectedT ptA ptB root (build ptA depth root (List.range nA)) (build ptB depth root (List.range nB))

/-- `calculate_hausdorff_distance_nodes(directed=False)`: the larger of the two directed values -/
def hausSymmetric (ptA ptB : Nat → P3) (nA nB depth : Nat) (root : Box) : Rat :=
  maxR (hausDirected ptA ptB nA nB depth root) (hausDirected ptB ptA nB nA depth root)

/-! ### radius-limited hop graph -/

/-- the bipartite graph of the BFS kernels: vertices `< V` are nodes, `V + e` is element `e` -/
structure Hop where
  V : Nat
  /-- `indices_v[indptr_v[v]:indptr_v[v+1]]` -/
  elemsOf : Nat → List Nat
  /-- `indices_e[indptr_e[e]:indptr_e[e+1]]` -/
  nodesOf : Nat → List Nat

def hopSucc (h : Hop) (x : Nat) : List Nat :=
  if x < h.V then (h.elemsOf x).map (· + h.V) else h.nodesOf (x - h.V)

/-- elements are always entered; a node only when `is_nbd` holds -/
def hopAllowed (h : Hop) (nbd : Nat → Bool) (y : Nat) : Bool := if y < h.V then nbd y else true

def dedupNat : List Nat → List Nat
  | [] => []
  | a :: t => if t.contains a then dedupNat t else a :: dedupNat t

/-- one pop of the work list (`for frm in que`): state = (queue, visited) -/
def hopStep (h : Hop) (nbd : Nat → Bool) : List Nat × List Nat → List Nat × List Nat
  | ([], vis) => ([], vis)
  | (x :: q, vis) =>
    let new := dedupNat ((hopSucc h x).filter fun y => hopAllowed h nbd y && !vis.contains y)
    (q ++ new, vis ++ new)

def hopVisited (h : Hop) (nbd : Nat → Bool) (fuel start : Nat) : List Nat :=
  (iter (hopStep h nbd) fuel ([start], [start])).2

/-- rows of the nodal result for source node `v`: every *other* node that was visited -/
def hopNodal (h : Hop) (nbd : Nat → Bool) (fuel v : Nat) : List Nat :=
  (hopVisited h nbd fuel v).filter fun w => decide (w < h.V) && decide (w ≠ v)

/-- rows of the elemental result for source element `e`: every *other* element that was visited -/
def hopElemental (h : Hop) (nbd : Nat → Bool) (fuel e : Nat) : List Nat :=
  ((hopVisited h nbd fuel (h.V + e)).filter fun w => decide (h.V ≤ w) && decide (w ≠ h.V + e)).map (· - h.V)

end Femio.C16
