import Femio.Gen.Tables
/-! The finite data of femio's source that the C09 / C06 models are instantiated with (core Lean only; the tables
    themselves are regenerated from the working tree into `Femio/Gen/Tables.lean` on every run). -/
namespace Femio.SubMesh

/-- the name of element type `t` contains the character `2` (`'2' in key`, `to_first_order`) -/
def isSecondType (t : Nat) : Bool :=
  match Femio.Gen.elementTypes[t]? with
  | some n => n.contains '2'
  | none => false

/-- facets per element type index: `tri` / `quad` elements are their own facet, solids use the tables regenerated
    from `_generate_all_faces` -/
def faceTable (t : Nat) : Option (List (List Nat)) :=
  match t with
  | 3 => some [[0, 1, 2]]
  | 5 => some [[0, 1, 2, 3]]
  | 8 => some Femio.Gen.faces_tet
  | 9 => some Femio.Gen.faces_tet2
  | 10 => some Femio.Gen.faces_pyr
  | 12 => some Femio.Gen.faces_prism
  | 14 => some Femio.Gen.faces_hex
  | 16 => some Femio.Gen.faces_hexprism
  | _ => none

def lookupName (k : List Char) : List (List Char × List Char) → Option (List Char)
  | [] => none
  | (a, b) :: t => if a = k then some b else lookupName k t

/-- meshio cell type of element type index `t` (`DICT_FEMIO_ELEMENT_TO_MESHIO_ELEMENT[ELEMENT_TYPES[t]]`) -/
def meshioName (t : Nat) : Option (List Char) :=
  match Femio.Gen.elementTypes[t]? with
  | none => none
  | some n => lookupName n Femio.Gen.femioToMeshio

end Femio.SubMesh
