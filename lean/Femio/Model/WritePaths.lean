/-! C07 — model of the file-system effects of `FEMData.write` (core Lean only).

Transcribes `femio/fem_data.py: write / add_extension_if_needed`, the three per-file checks of
`FistrWriter` (`write_msh`, `write_cnt`, `write_hecmw_ctrl`) and the single `open(name, 'w')` of the
ucd / obj / stl / vtu / vtp / vtk writers.  Paths and contents are abstract (`List Char`, `Nat`);
`mkdir` of missing parents creates no file and is not an action.  Appends go to files the same call
created with mode `'w'`, so they are part of the `create`. -/
namespace Femio.C07

abbrev Path := List Char
/-- a file system: content of every path, `none` = absent -/
abbrev FS := Path → Option Nat

inductive Fmt | fistr | ucd | obj | stl | vtu | vtp | vtk
deriving Repr, DecidableEq

/-- one Boolean per repair (DESIGN §5): `checkFinalName` = F1, the existence pre-check of
`FEMData.write` looks at the name that is finally opened (after `add_extension_if_needed`);
`vtpBackup` = F15, the VTP writer's `fileinput(..., inplace=True)` pass, which silently replaces and
then deletes `<target>.bak`. -/
structure Cfg where
  checkFinalName : Bool
  vtpBackup : Bool
deriving Repr, DecidableEq

/-- the configuration the property needs -/
def Cfg.fixed : Cfg := ⟨true, false⟩
/-- the pinned upstream commit -/
def Cfg.upstream : Cfg := ⟨false, true⟩

/-- `config.DICT_EXT`-independent literals passed to `add_extension_if_needed` in `write` -/
def ext : Fmt → Option (List Char)
  | .ucd => some ['i','n','p'] | .obj => some ['o','b','j'] | .stl => some ['s','t','l']
  | .vtu => some ['v','t','u'] | .vtp => some ['v','t','p']
  | .fistr | .vtk => none

/-- `add_extension_if_needed`: `str(name).endswith(ext)` -/
def addExt (name : Path) (e : List Char) : Path := if e.isSuffixOf name then name else name ++ '.' :: e

def finalName (f : Fmt) (name : Path) : Path := match ext f with | some e => addExt name e | none => name

inductive Action
  | checkAbsent (p : Path)        -- raise ValueError if p exists
  | create (p : Path) (c : Nat)   -- open(p, 'w') … write … close
  | remove (p : Path)             -- unlink if present
deriving Repr, DecidableEq

def msh (name : Path) : Path := name ++ ['.','m','s','h']
def cnt (name : Path) : Path := name ++ ['.','c','n','t']
def bak (p : Path) : Path := p ++ ['.','b','a','k']

/-- The effect sequence of `write(fmt, name, overwrite, write_msh_only)`.
`ctrl` is `name.parent / 'hecmw_ctrl.dat'` (computed by the caller: `Path.parent` is not modelled),
`content p` the bytes the call would put in `p`. -/
def plan (cfg : Cfg) (ctrl : Path) (f : Fmt) (name : Path) (overwrite mshOnly : Bool)
    (content : Path → Nat) : List Action :=
  let chk (p : Path) : List Action := if overwrite then [] else [.checkAbsent p]
  match f with
  | .fistr =>
    chk name ++ chk (msh name) ++ [.create (msh name) (content (msh name))] ++
    (if mshOnly then [] else
      chk (cnt name) ++ [.create (cnt name) (content (cnt name))] ++
      chk ctrl ++ [.create ctrl (content ctrl)])
  | _ =>
    let target := finalName f name
    chk (if cfg.checkFinalName then target else name) ++ [.create target (content target)] ++
    (if f = .vtp ∧ cfg.vtpBackup then [.create (bak target) (content (bak target)), .remove (bak target)] else [])

/-- run until the first failing check; returns (raised?, file system afterwards) -/
def exec (fs : FS) : List Action → Bool × FS
  | [] => (false, fs)
  | .checkAbsent p :: t => if (fs p).isSome then (true, fs) else exec fs t
  | .create p c :: t => exec (fun q => if q = p then some c else fs q) t
  | .remove p :: t => exec (fun q => if q = p then none else fs q) t

/-- observable outcome on a finite list of watched paths (what the harness snapshots) -/
def observe (fs : FS) (watch : List Path) (acts : List Action) : Bool × List (Option Nat) :=
  let r := exec fs acts
  (r.1, watch.map r.2)

end Femio.C07
